package main

import (
	"context"
	"database/sql"
	"errors"
	"fmt"
	"sort"

	"ariga.io/atlas/sql/migrate"
	"ariga.io/atlas/sql/postgres"
	"ariga.io/atlas/sql/schema"
	"verifharness/internal/hx"
)

// pgIdentRRW: an empty revision store that lives at a given place of the database.
type pgIdentRRW struct {
	migrate.NopRevisionReadWriter
	id migrate.TableIdent
}

func (r pgIdentRRW) Ident() *migrate.TableIdent { return &r.id }

// c11PGClean: the first-run gate on PostgreSQL (a connection bound to the database, not to a schema), through
// the REAL driver on the in-memory stand-in: with no recorded revision `Executor.Pending` runs on a database
// only if it is clean - nothing in it but the empty default schema and the revision table itself, wherever
// that table lives. Grid: content of public x a second schema x the place of the revision table.
func c11PGClean(e *Env, pool *hx.Pool) {
	ctx := context.Background()
	type db struct {
		name  string
		setup []string
	}
	revAt := []migrate.TableIdent{
		{Name: "atlas_schema_revisions", Schema: "atlas_schema_revisions"},
		{Name: "atlas_schema_revisions", Schema: "public"},
	}
	dbs := []db{
		{"empty public", nil},
		{"public with a user table", []string{`CREATE TABLE "public"."users" ("id" integer)`}},
		{"public with two user tables", []string{`CREATE TABLE "public"."users" ("id" integer)`, `CREATE TABLE "public"."posts" ("id" integer)`}},
		{"empty public and an empty second schema", []string{`CREATE SCHEMA "app"`}},
		{"empty public and a second schema with a table", []string{`CREATE SCHEMA "app"`, `CREATE TABLE "app"."users" ("id" integer)`}},
		{"no public, a second schema with a table", []string{`DROP SCHEMA "public"`, `CREATE SCHEMA "app"`, `CREATE TABLE "app"."users" ("id" integer)`}},
	}
	for _, rt := range revAt {
		for _, withRev := range []bool{false, true} {
			for _, d := range dbs {
				f := newFakePG()
				conn := sql.OpenDB(f)
				for _, s := range d.setup {
					conn.Exec(s)
				}
				if withRev {
					conn.Exec(fmt.Sprintf(`CREATE SCHEMA IF NOT EXISTS %q`, rt.Schema))
					conn.Exec(fmt.Sprintf(`CREATE TABLE %q.%q ("id" integer)`, rt.Schema, rt.Name))
				}
				// the oracle: every schema is the empty default one, or the revision schema holding just that table
				clean := true
				f.mu.Lock()
				perSchema := map[string][]string{}
				for s := range f.schemas {
					perSchema[s] = nil
				}
				for t := range f.tables {
					var sn, tn string
					for i := 0; i < len(t); i++ {
						if t[i] == '.' {
							sn, tn = t[:i], t[i+1:]
							break
						}
					}
					perSchema[sn] = append(perSchema[sn], tn)
				}
				f.mu.Unlock()
				for s, ts := range perSchema {
					switch {
					case s == "public" && len(ts) == 0:
					case s == rt.Schema && len(ts) == 1 && ts[0] == rt.Name:
					default:
						clean = false
					}
				}
				// the Lean model of the gate (Atlas.Clean, characterised by Props.C11.gate_postgres) on the same state
				var mschemas []map[string]any
				var snames []string
				for s := range perSchema {
					snames = append(snames, s)
				}
				sort.Strings(snames)
				for _, s := range snames {
					ts := append([]string{}, perSchema[s]...)
					sort.Strings(ts)
					mschemas = append(mschemas, map[string]any{"name": s, "tables": ts})
				}
				var mans struct {
					Clean bool `json:"clean"`
				}
				if err := pool.AskInto(map[string]any{"op": "clean.check", "dialect": "postgres", "schemas": mschemas, "rev_schema": rt.Schema, "rev_table": rt.Name}, &mans); err != nil {
					e.Res.Violate("no-failing-input-found", "model-error", err.Error(), "model", nil)
					return
				}
				if mans.Clean != clean {
					e.Res.Disagree()
					e.Res.Violate("no-failing-input-found", "corr-clean-model-mismatch", fmt.Sprintf("postgres %v: the Lean gate says clean=%v, the harness oracle %v", mschemas, mans.Clean, clean), "correspondence Atlas.Clean", nil)
				}
				id := fmt.Sprintf("pg first run: %s; revision table %s.%s present=%v", d.name, rt.Schema, rt.Name, withRev)
				rep := map[string]any{"case": id, "setup": d.setup}
				e.Res.Count("pg-clean/"+id, !clean, "pg-first-run-gate", fmt.Sprintf("pg-clean:%v", clean))
				drv, err := postgres.Open(conn)
				if err != nil {
					e.Res.Violate("no-failing-input-found", "fakepg-open-fails", fmt.Sprintf("%s: postgres.Open on the stand-in fails: %v", id, err), "correspondence C11 pg", rep)
					conn.Close()
					return
				}
				cerr := drv.(migrate.CleanChecker).CheckClean(ctx, &rt)
				var nc *migrate.NotCleanError
				switch {
				case cerr != nil && !errors.As(cerr, &nc):
					e.Res.Violate("no-failing-input-found", "fakepg-inspect-fails", fmt.Sprintf("%s: CheckClean fails otherwise: %v (unknown: %v)", id, cerr, f.Unknown), "correspondence C11 pg", rep)
				case clean != (cerr == nil):
					e.Res.Violate("failing-input", "first-run-gate-wrong", fmt.Sprintf("%s: the database is clean: %v, CheckClean says: %v", id, clean, cerr), "Props.C11 first-run gate (PostgreSQL)", rep)
				}
				// the same through Executor.Pending (no revisions recorded, neither --allow-dirty nor --baseline)
				dir := &migrate.MemDir{}
				dir.WriteFile("1_init.sql", []byte("CREATE TABLE t (id integer);\n"))
				sum, _ := dir.Checksum()
				migrate.WriteSumFile(dir, sum)
				if ex, xerr := migrate.NewExecutor(drv, dir, pgIdentRRW{id: rt}); xerr == nil {
					_, perr := ex.Pending(ctx)
					refused := errors.As(perr, &nc)
					if refused == clean {
						e.Res.Violate("failing-input", "first-run-gate-wrong", fmt.Sprintf("%s: the database is clean: %v, Executor.Pending (first run, no --allow-dirty / --baseline) returns: %v", id, clean, perr), "Props.C11 first-run gate (PostgreSQL)", rep)
					}
				}
				conn.Close()
			}
		}
	}
	_ = schema.Realm{}
}
