package main

// Random SQLite schemas (as DDL) with the feature set of C01/C03/C05/C17: column types, nullability,
// defaults, single/composite/autoincrement primary keys, unique/multi-column/descending/partial/
// expression indexes, named and unnamed checks, self/cross/cyclic foreign keys with all referential
// actions, WITHOUT ROWID / STRICT, generated columns; elementary edits of a schema; row data that
// satisfies the constraints; and an in-process SQLite engine (mattn/go-sqlite3) with an independent
// catalogue reader (pragma based, never Atlas's inspector).

import (
	"database/sql"
	"fmt"
	"sort"
	"strconv"
	"strings"

	"verifharness/internal/hx"
)

type sqCol struct {
	Name      string `json:"name"`
	Type      string `json:"type"`
	NotNull   bool   `json:"not_null,omitempty"`
	Default   string `json:"default,omitempty"`
	Gen       string `json:"gen,omitempty"`
	GenStored bool   `json:"gen_stored,omitempty"`
}

type sqPart struct {
	Col  string `json:"col,omitempty"`
	Expr string `json:"expr,omitempty"`
	Desc bool   `json:"desc,omitempty"`
	// Bare: the expression is written without surrounding parentheses (`lower(c)`, `id + 1`)
	Bare bool `json:"bare,omitempty"`
}

type sqIdx struct {
	Name   string   `json:"name"`
	Unique bool     `json:"unique,omitempty"`
	Parts  []sqPart `json:"parts"`
	Where  string   `json:"where,omitempty"`
}

type sqFK struct {
	Name     string   `json:"name,omitempty"`
	Cols     []string `json:"cols"`
	RefTable string   `json:"ref_table"`
	RefCols  []string `json:"ref_cols"`
	OnDelete string   `json:"on_delete,omitempty"`
	OnUpdate string   `json:"on_update,omitempty"`
	// RefSpell: how the REFERENCES clause spells the parent (SQLite names are case-insensitive)
	RefSpell string `json:"ref_spell,omitempty"`
}

type sqCheck struct {
	Name string `json:"name,omitempty"`
	Expr string `json:"expr"`
}

type sqTable struct {
	Name         string     `json:"name"`
	Cols         []sqCol    `json:"cols"`
	PK           []string   `json:"pk,omitempty"`
	PKAuto       bool       `json:"pk_auto,omitempty"`
	Idxs         []sqIdx    `json:"idxs,omitempty"`
	FKs          []sqFK     `json:"fks,omitempty"`
	Checks       []sqCheck  `json:"checks,omitempty"`
	WithoutRowID bool       `json:"without_rowid,omitempty"`
	Strict       bool       `json:"strict,omitempty"`
	Uniques      [][]string `json:"uniques,omitempty"` // inline UNIQUE (...) table constraints
}

type sqSchema struct {
	Tables []*sqTable `json:"tables"`
}

func qi(s string) string { return "`" + strings.ReplaceAll(s, "`", "``") + "`" }

func qis(ss []string) string {
	var out []string
	for _, s := range ss {
		out = append(out, qi(s))
	}
	return strings.Join(out, ", ")
}

func (t *sqTable) col(name string) *sqCol {
	for i := range t.Cols {
		if t.Cols[i].Name == name {
			return &t.Cols[i]
		}
	}
	return nil
}

// DDL renders the table and its indexes.
func (t *sqTable) DDL() []string {
	var defs []string
	for _, c := range t.Cols {
		d := qi(c.Name) + " " + c.Type
		if t.PKAuto && len(t.PK) == 1 && t.PK[0] == c.Name {
			d += " PRIMARY KEY AUTOINCREMENT"
		}
		if c.Gen != "" {
			kind := "VIRTUAL"
			if c.GenStored {
				kind = "STORED"
			}
			d += " GENERATED ALWAYS AS (" + c.Gen + ") " + kind
		}
		if c.NotNull {
			d += " NOT NULL"
		} else if c.Gen == "" && !(t.PKAuto && len(t.PK) == 1 && t.PK[0] == c.Name) {
			d += " NULL"
		}
		if c.Default != "" {
			d += " DEFAULT " + c.Default
		}
		defs = append(defs, d)
	}
	if len(t.PK) > 0 && !t.PKAuto {
		defs = append(defs, "PRIMARY KEY ("+qis(t.PK)+")")
	}
	for _, u := range t.Uniques {
		defs = append(defs, "UNIQUE ("+qis(u)+")")
	}
	for _, fk := range t.FKs {
		d := ""
		if fk.Name != "" {
			d = "CONSTRAINT " + qi(fk.Name) + " "
		}
		ref := fk.RefTable
		if fk.RefSpell != "" {
			ref = fk.RefSpell
		}
		d += "FOREIGN KEY (" + qis(fk.Cols) + ") REFERENCES " + qi(ref) + " (" + qis(fk.RefCols) + ")"
		if fk.OnUpdate != "" {
			d += " ON UPDATE " + fk.OnUpdate
		}
		if fk.OnDelete != "" {
			d += " ON DELETE " + fk.OnDelete
		}
		defs = append(defs, d)
	}
	for _, ck := range t.Checks {
		d := ""
		if ck.Name != "" {
			d = "CONSTRAINT " + qi(ck.Name) + " "
		}
		defs = append(defs, d+"CHECK ("+ck.Expr+")")
	}
	opts := ""
	switch {
	case t.WithoutRowID && t.Strict:
		opts = " WITHOUT ROWID, STRICT"
	case t.WithoutRowID:
		opts = " WITHOUT ROWID"
	case t.Strict:
		opts = " STRICT"
	}
	out := []string{"CREATE TABLE " + qi(t.Name) + " (" + strings.Join(defs, ", ") + ")" + opts}
	for _, ix := range t.Idxs {
		out = append(out, ix.DDL(t.Name))
	}
	return out
}

func (ix *sqIdx) DDL(table string) string {
	var ps []string
	for _, p := range ix.Parts {
		s := qi(p.Col)
		if p.Expr != "" {
			s = "(" + p.Expr + ")"
			if p.Bare {
				s = p.Expr
			}
		}
		if p.Desc {
			s += " DESC"
		}
		ps = append(ps, s)
	}
	u := ""
	if ix.Unique {
		u = "UNIQUE "
	}
	s := "CREATE " + u + "INDEX " + qi(ix.Name) + " ON " + qi(table) + " (" + strings.Join(ps, ", ") + ")"
	if ix.Where != "" {
		s += " WHERE " + ix.Where
	}
	return s
}

// DDL of the whole schema; foreign keys may be cyclic, SQLite resolves parents lazily.
func (s *sqSchema) DDL() []string {
	// a STRICT table rejects (at ALTER time, or on the first row) an integer column whose default is not
	// integral: such a desired state is not satisfiable, keep it out of the generated schemas
	for _, t := range s.Tables {
		if !t.Strict {
			continue
		}
		for i := range t.Cols {
			if c := &t.Cols[i]; isIntType(c.Type) && c.Default == "1.50" {
				c.Default = "2"
			}
		}
	}
	var out []string
	for _, t := range s.Tables {
		out = append(out, t.DDL()...)
	}
	return out
}

func (s *sqSchema) table(name string) *sqTable {
	for _, t := range s.Tables {
		if t.Name == name {
			return t
		}
	}
	return nil
}

func (s *sqSchema) clone() *sqSchema {
	out := &sqSchema{}
	for _, t := range s.Tables {
		c := *t
		c.Cols = append([]sqCol{}, t.Cols...)
		c.PK = append([]string{}, t.PK...)
		c.Idxs = nil
		for _, ix := range t.Idxs {
			ci := ix
			ci.Parts = append([]sqPart{}, ix.Parts...)
			c.Idxs = append(c.Idxs, ci)
		}
		c.FKs = nil
		for _, fk := range t.FKs {
			cf := fk
			cf.Cols, cf.RefCols = append([]string{}, fk.Cols...), append([]string{}, fk.RefCols...)
			c.FKs = append(c.FKs, cf)
		}
		c.Checks = append([]sqCheck{}, t.Checks...)
		c.Uniques = nil
		for _, u := range t.Uniques {
			c.Uniques = append(c.Uniques, append([]string{}, u...))
		}
		out.Tables = append(out.Tables, &c)
	}
	return out
}

// ---- generation ----

type sqGen struct {
	r   *hx.Rand
	n   int
	cfg sqCfg
}

type sqCfg struct {
	NoGenerated bool // no generated columns
	NoExprIndex bool
	NoOptions   bool // no WITHOUT ROWID / STRICT
	Simple      bool // plain types only
}

func (g *sqGen) id(p string) string { g.n++; return fmt.Sprintf("%s%d", p, g.n) }

var sqTypes = []string{"integer", "text", "real", "blob", "numeric", "boolean", "datetime", "varchar(20)", "int", "bigint", "decimal(10,2)", "date", "json", "Point", "MONEY"} // the last two: user-defined names Atlas keeps verbatim
var sqStrictTypes = []string{"integer", "text", "real", "blob", "int", "any"}
var sqActions = []string{"", "NO ACTION", "CASCADE", "SET NULL", "RESTRICT", "SET DEFAULT"}

func isIntType(t string) bool { return t == "integer" || t == "int" || t == "bigint" }
func isTextType(t string) bool {
	return t == "text" || strings.HasPrefix(t, "varchar") || t == "json" || t == "any"
}

func (g *sqGen) defaultFor(typ string) string {
	switch {
	case isIntType(typ) || typ == "numeric" || typ == "decimal(10,2)":
		return hx.Pick(g.r, []string{"0", "1", "42", "-7", "(1 + 1)", "((2 * 3))", "(abs(-4))", "1.0", "1.50", "007", "+1", "1e3", "-3.0"})
	case typ == "real":
		return hx.Pick(g.r, []string{"0.5", "1.25", "-3.0"})
	case typ == "json" || typ == "any":
		// (a quoted 'NULL' on a column that Atlas does not treat as text is written to HCL as the string "NULL",
		// which evaluates to the NULL keyword: an ambiguity of the HCL form, kept out of the generator)
		return hx.Pick(g.r, []string{"'x'", "''", "'it''s'", "'hello world'", "'100%'", "NULL", "'5'", "'x''00'"})
	case isTextType(typ):
		// (the last two are written between double quotes, which SQLite reads as strings and the inspector
		// keeps as written: the planner re-quotes them)
		return hx.Pick(g.r, []string{"'x'", "''", "'it''s'", "'hello world'", "'100%'", "NULL", "'NULL'", "'5'", "'x''00'", `"it's"`, `"two words"`, "'semi;colon'", "';'"})
	case typ == "boolean":
		return hx.Pick(g.r, []string{"0", "1", "true", "false"})
	case typ == "datetime" || typ == "date":
		return hx.Pick(g.r, []string{"CURRENT_TIMESTAMP", "'2024-01-02'"})
	}
	return "x'00ff'"
}

func (g *sqGen) column(t *sqTable) sqCol {
	types := sqTypes
	if t.Strict {
		types = sqStrictTypes
	}
	if g.cfg.Simple {
		types = []string{"integer", "text", "real"}
	}
	c := sqCol{Name: g.id("c"), Type: hx.Pick(g.r, types)}
	c.NotNull = g.r.Chance(1, 3)
	if g.r.Chance(1, 3) {
		c.Default = g.defaultFor(c.Type)
	}
	for c.NotNull && c.Default == "NULL" {
		c.Default = g.defaultFor(c.Type)
	}
	return c
}

func (g *sqGen) newTable() *sqTable {
	t := &sqTable{Name: g.id("t")}
	if !g.cfg.NoOptions {
		t.Strict = g.r.Chance(1, 6)
	}
	// key column(s)
	id := sqCol{Name: "id", Type: "integer", NotNull: true}
	t.Cols = append(t.Cols, id)
	switch g.r.Intn(5) {
	case 0:
		t.PK, t.PKAuto = []string{"id"}, true
		t.Cols[0].NotNull = false
	case 1:
		k2 := sqCol{Name: "k2", Type: "integer", NotNull: true}
		t.Cols = append(t.Cols, k2)
		t.PK = []string{"id", "k2"}
		if g.r.Chance(1, 3) {
			t.PK = []string{"k2", "id"}
		}
	case 2:
		// no primary key (but id is unique so that it can be referenced and rows can be keyed)
		t.Idxs = append(t.Idxs, sqIdx{Name: g.id("u"), Unique: true, Parts: []sqPart{{Col: "id"}}})
	default:
		t.PK = []string{"id"}
	}
	if !g.cfg.NoOptions && len(t.PK) > 0 && !t.PKAuto && g.r.Chance(1, 6) {
		t.WithoutRowID = true
	}
	n := 1 + g.r.Intn(4)
	for i := 0; i < n; i++ {
		t.Cols = append(t.Cols, g.column(t))
	}
	if g.r.Chance(1, 5) {
		t.Cols = append(t.Cols, sqCol{Name: "elsewhere", Type: "integer"}) // a name that contains a keyword
	}
	if !g.cfg.NoGenerated && g.r.Chance(1, 4) {
		t.Cols = append(t.Cols, sqCol{Name: g.id("g"), Type: "integer", Gen: "id * 2", GenStored: g.r.Chance(1, 2)})
	}
	// indexes
	for k := 0; k < g.r.Intn(3); k++ {
		t.Idxs = append(t.Idxs, g.index(t))
	}
	// inline UNIQUE constraints (auto-indexes with generated names)
	if g.r.Chance(1, 4) {
		cols := g.plainCols(t)
		u := []string{hx.Pick(g.r, cols)}
		if g.r.Chance(1, 2) && u[0] != "id" {
			u = append(u, "id")
		}
		t.Uniques = append(t.Uniques, u)
	}
	// checks
	if g.r.Chance(1, 3) {
		// one to three checks, named or not (several unnamed ones in one table included)
		// (the last three start with "(" and end with ")" without being one parenthesised group)
		exprs := []string{"id >= 0", "id * 1 >= 0", "id <> -1", "id + 1 > 0", "(id >= -2) AND (id <> -3)", "(id) < (id + 4)", "(id) NOT IN (-5, -6)"} // (never the `id > -N` of the add-check edit: a duplicated expression is one constraint)
		hx.Shuffle(g.r, exprs)
		for _, x := range exprs[:1+g.r.Intn(3)] {
			ck := sqCheck{Expr: x}
			if g.r.Chance(1, 3) {
				ck.Name = g.id("ck")
			}
			t.Checks = append(t.Checks, ck)
		}
	}
	if g.r.Chance(1, 8) {
		// string literals inside checks: SQLite knows no backslash escapes, so '\' is a complete literal - and
		// it is followed by further quotes in the same CREATE TABLE statement
		t.Checks = append(t.Checks, sqCheck{Expr: "id <> length('\\')"}, sqCheck{Expr: "id <> length('it''s') + 100"})
	}
	return t
}

func (g *sqGen) plainCols(t *sqTable) []string {
	var out []string
	for _, c := range t.Cols {
		if c.Gen == "" && c.Type != "blob" && c.Type != "json" {
			out = append(out, c.Name)
		}
	}
	return out
}

func (g *sqGen) index(t *sqTable) sqIdx {
	cols := g.plainCols(t)
	ix := sqIdx{Name: g.id("i")}
	n := 1 + g.r.Intn(2)
	used := map[string]bool{}
	for len(ix.Parts) < n && len(ix.Parts) < len(cols) {
		c := hx.Pick(g.r, cols)
		if used[c] {
			continue
		}
		used[c] = true
		ix.Parts = append(ix.Parts, sqPart{Col: c, Desc: g.r.Chance(1, 3)})
	}
	if !g.cfg.NoExprIndex && g.r.Chance(1, 4) {
		ix.Parts = append(ix.Parts, sqPart{Expr: hx.Pick(g.r, []string{"id + 1", "abs(id)", "id * 2"}), Desc: g.r.Chance(1, 2), Bare: g.r.Chance(1, 2)})
	}
	if g.r.Chance(1, 4) {
		// (the last three end with ")")
		ws := []string{"id > 0", "id > 1 AND id < 1000", "id IS NOT NULL", "id > 0 AND 'nowhere' <> 'somewhere else'", "(id > 0)", "id NOT IN (-1, -2)", "id <> abs(id - 1)"}
		if t.col("elsewhere") != nil {
			ws = append(ws, "elsewhere IS NOT NULL", "elsewhere > 0 AND id > 0")
		}
		ix.Where = hx.Pick(g.r, ws)
	}
	return ix
}

// uniqueTarget returns column lists of t that a foreign key may reference.
func uniqueTargets(t *sqTable) [][]string {
	var out [][]string
	if len(t.PK) > 0 {
		out = append(out, t.PK)
	}
	for _, ix := range t.Idxs {
		if ix.Unique && ix.Where == "" {
			var cs []string
			ok := true
			for _, p := range ix.Parts {
				if p.Expr != "" || p.Desc {
					ok = false
				}
				cs = append(cs, p.Col)
			}
			if ok {
				out = append(out, cs)
			}
		}
	}
	return out
}

// addFK adds a foreign key from t to ref (new nullable integer columns).
func (g *sqGen) addFK(t, ref *sqTable) {
	tg := uniqueTargets(ref)
	if len(tg) == 0 {
		return
	}
	target := hx.Pick(g.r, tg)
	fk := sqFK{RefTable: ref.Name, RefCols: target, OnDelete: hx.Pick(g.r, sqActions), OnUpdate: hx.Pick(g.r, sqActions)}
	if g.r.Chance(1, 2) {
		fk.Name = g.id("fk")
	}
	for range target {
		c := sqCol{Name: g.id("r"), Type: "integer"}
		if fk.OnDelete == "SET DEFAULT" || fk.OnUpdate == "SET DEFAULT" {
			c.Default = "NULL"
		}
		t.Cols = append(t.Cols, c)
		fk.Cols = append(fk.Cols, c.Name)
	}
	t.FKs = append(t.FKs, fk)
}

func (g *sqGen) schema(nt int) *sqSchema {
	s := &sqSchema{}
	for i := 0; i < nt; i++ {
		s.Tables = append(s.Tables, g.newTable())
	}
	for _, t := range s.Tables {
		switch g.r.Intn(4) {
		case 0:
			g.addFK(t, t) // self reference
		case 1:
			g.addFK(t, hx.Pick(g.r, s.Tables)) // cross (cycles arise naturally)
		}
	}
	return s
}

// ---- elementary edits (current -> desired) ----

type sqEdit struct {
	Kind  string `json:"kind"`
	Table string `json:"table"`
	What  string `json:"what,omitempty"`
}

// edit applies one random elementary edit to s (in place) and describes it.
func (g *sqGen) edit(s *sqSchema) *sqEdit {
	for try := 0; try < 20; try++ {
		t := hx.Pick(g.r, s.Tables)
		switch g.r.Intn(17) {
		case 16:
			// a NAMED check keeps its name and gets another expression
			for i := range t.Checks {
				if ck := &t.Checks[i]; ck.Name != "" {
					ck.Expr = fmt.Sprintf("id > -%d", 20+g.r.Intn(9))
					return &sqEdit{"modify-check-expression", t.Name, ck.Name}
				}
			}
		case 15:
			// a generated column becomes an ordinary one (same name and type): its computed values survive
			for i := range t.Cols {
				c := &t.Cols[i]
				if c.Gen != "" && !indexed(t, c.Name) {
					c.Gen, c.GenStored, c.NotNull, c.Default = "", false, false, ""
					return &sqEdit{"generated-to-regular-column", t.Name, c.Name}
				}
			}
		case 14:
			// every stored column of the table gets another default at once: the table is rebuilt and no column
			// is carried over unchanged
			n := 0
			refs := false
			for _, c := range t.Cols {
				refs = refs || strings.HasPrefix(c.Name, "r")
			}
			if refs {
				continue // (a default on a referencing column fills it with a key that has no parent)
			}
			for i := range t.Cols {
				c := &t.Cols[i]
				if c.Gen != "" {
					continue
				}
				old := c.Default
				for k := 0; k < 8 && (c.Default == old || c.Default == "NULL" || c.Default == ""); k++ {
					c.Default = g.defaultFor(c.Type)
				}
				if c.Default == old || c.Default == "NULL" || c.Default == "" {
					c.Default = map[bool]string{true: "x'01'", false: "x'00ff'"}[old == "x'00ff'"]
				}
				n++
			}
			if n > 0 {
				return &sqEdit{"modify-all-column-defaults", t.Name, ""}
			}
		case 0:
			nt := g.newTable()
			s.Tables = append(s.Tables, nt)
			return &sqEdit{"add-table", nt.Name, ""}
		case 1:
			if len(s.Tables) > 1 && !referenced(s, t.Name) {
				drop(s, t.Name)
				return &sqEdit{"drop-table", t.Name, ""}
			}
		case 2:
			c := g.column(t)
			for c.NotNull && (c.Default == "" || c.Default == "NULL") {
				c.Default = g.defaultFor(c.Type)
			}
			if c.Default == "CURRENT_TIMESTAMP" && false {
				c.Default = "'2024-01-02'"
			}
			t.Cols = append(t.Cols, c)
			return &sqEdit{"add-column", t.Name, c.Name}
		case 3:
			if c := g.droppable(s, t); c != "" {
				var cs []sqCol
				for _, x := range t.Cols {
					if x.Name != c {
						cs = append(cs, x)
					}
				}
				t.Cols = cs
				return &sqEdit{"drop-column", t.Name, c}
			}
		case 4: // nullability
			if c := g.editable(s, t); c != nil {
				if c.NotNull {
					c.NotNull = false
				} else {
					c.NotNull = true
					for c.Default == "" || c.Default == "NULL" {
						c.Default = g.defaultFor(c.Type)
					}
				}
				return &sqEdit{"modify-column-null", t.Name, c.Name}
			}
		case 5: // default
			if c := g.editable(s, t); c != nil {
				old := c.Default
				for i := 0; i < 5 && (c.Default == old || c.NotNull && c.Default == "NULL"); i++ {
					c.Default = g.defaultFor(c.Type)
				}
				if c.NotNull && c.Default == "NULL" {
					c.Default = old
				}
				if c.Default != old {
					return &sqEdit{"modify-column-default", t.Name, c.Name}
				}
			}
		case 6: // type (another affinity)
			if c := g.editable(s, t); c != nil && !t.Strict && !indexed(t, c.Name) {
				old := c.Type
				switch {
				case isIntType(old):
					c.Type = "text"
				case isTextType(old):
					c.Type = "blob"
				default:
					c.Type = "text"
				}
				c.Default = ""
				for c.NotNull && (c.Default == "" || c.Default == "NULL") {
					c.Default = g.defaultFor(c.Type)
				}
				return &sqEdit{"modify-column-type", t.Name, c.Name}
			}
		case 7:
			ix := g.index(t)
			if len(ix.Parts) > 0 {
				t.Idxs = append(t.Idxs, ix)
				return &sqEdit{"add-index", t.Name, ix.Name}
			}
		case 8:
			for i, ix := range t.Idxs {
				if !fkTarget(s, t, ix) {
					t.Idxs = append(t.Idxs[:i:i], t.Idxs[i+1:]...)
					return &sqEdit{"drop-index", t.Name, ix.Name}
				}
			}
		case 9:
			for i := range t.Idxs {
				if !fkTarget(s, t, t.Idxs[i]) {
					switch g.r.Intn(3) {
					case 0:
						t.Idxs[i].Parts[0].Desc = !t.Idxs[i].Parts[0].Desc
					case 1:
						if t.Idxs[i].Where == "" {
							t.Idxs[i].Where = "id > 1"
						} else {
							t.Idxs[i].Where = ""
						}
					default:
						if t.Idxs[i].Unique {
							t.Idxs[i].Unique = false
						} else {
							continue // making an index unique may fail on data
						}
					}
					return &sqEdit{"modify-index", t.Name, t.Idxs[i].Name}
				}
			}
		case 10:
			ref := hx.Pick(g.r, s.Tables)
			n := len(t.FKs)
			g.addFK(t, ref)
			if len(t.FKs) > n {
				return &sqEdit{"add-fk", t.Name, ref.Name}
			}
		case 11:
			if len(t.FKs) > 0 {
				i := g.r.Intn(len(t.FKs))
				if g.r.Chance(1, 2) {
					t.FKs[i].OnDelete = hx.Pick(g.r, []string{"CASCADE", "SET NULL", "", "RESTRICT"})
					t.FKs[i].OnUpdate = hx.Pick(g.r, []string{"CASCADE", "", "NO ACTION"})
					return &sqEdit{"modify-fk-actions", t.Name, t.FKs[i].Name}
				}
				t.FKs = append(t.FKs[:i:i], t.FKs[i+1:]...)
				return &sqEdit{"drop-fk", t.Name, ""}
			}
		case 12:
			if len(t.Checks) > 0 && g.r.Chance(1, 2) {
				t.Checks = t.Checks[1:]
				return &sqEdit{"drop-check", t.Name, ""}
			}
			ck := sqCheck{Expr: fmt.Sprintf("id > -%d", 1+g.r.Intn(9))}
			if g.r.Chance(1, 2) {
				ck.Name = g.id("ck")
			}
			t.Checks = append(t.Checks, ck)
			return &sqEdit{"add-check", t.Name, ck.Expr}
		case 13:
			if len(t.Uniques) > 0 && !referenced(s, t.Name) && len(selfRefs(t)) == 0 && g.r.Chance(1, 2) {
				// the inline UNIQUE constraint is replaced by an index that carries the name Atlas itself would
				// give the constraint's auto-index (<table>_<columns>) but another definition
				u := t.Uniques[0]
				t.Uniques = t.Uniques[1:]
				ix := sqIdx{Name: t.Name + "_" + strings.Join(u, "_")}
				if g.r.Chance(1, 2) {
					for _, c := range u {
						ix.Parts = append(ix.Parts, sqPart{Col: c})
					}
				} else {
					ix.Unique = true
					ix.Parts = []sqPart{{Col: "id"}}
				}
				t.Idxs = append(t.Idxs, ix)
				return &sqEdit{"unique-constraint-to-conventionally-named-index", t.Name, ix.Name}
			}
			if g.r.Chance(1, 3) {
				if len(t.Uniques) > 0 && !referenced(s, t.Name) && len(selfRefs(t)) == 0 {
					t.Uniques = t.Uniques[1:]
					return &sqEdit{"drop-unique-constraint", t.Name, ""}
				}
				continue
			}
			if !g.cfg.NoOptions && len(t.PK) > 0 && !t.PKAuto && g.r.Chance(1, 2) {
				t.WithoutRowID = !t.WithoutRowID
				return &sqEdit{"toggle-without-rowid", t.Name, ""}
			}
		}
	}
	return nil
}

func selfRefs(t *sqTable) []sqFK {
	var out []sqFK
	for _, fk := range t.FKs {
		if fk.RefTable == t.Name {
			out = append(out, fk)
		}
	}
	return out
}

func referenced(s *sqSchema, name string) bool {
	for _, t := range s.Tables {
		for _, fk := range t.FKs {
			if fk.RefTable == name && t.Name != name {
				return true
			}
		}
	}
	return false
}

func drop(s *sqSchema, name string) {
	var ts []*sqTable
	for _, t := range s.Tables {
		if t.Name != name {
			ts = append(ts, t)
		}
	}
	s.Tables = ts
}

func indexed(t *sqTable, col string) bool {
	for _, u := range t.Uniques {
		for _, c := range u {
			if c == col {
				return true
			}
		}
	}
	for _, ix := range t.Idxs {
		for _, p := range ix.Parts {
			if p.Col == col {
				return true
			}
		}
	}
	return false
}

func fkTarget(s *sqSchema, t *sqTable, ix sqIdx) bool {
	if !ix.Unique {
		return false
	}
	for _, o := range s.Tables {
		for _, fk := range o.FKs {
			if fk.RefTable == t.Name {
				return true
			}
		}
	}
	return false
}

// usedElsewhere: the column is part of a key, index, foreign key, check or generated expression.
func usedElsewhere(s *sqSchema, t *sqTable, col string) bool {
	if col == "id" || col == "k2" {
		return true
	}
	for _, p := range t.PK {
		if p == col {
			return true
		}
	}
	if indexed(t, col) {
		return true
	}
	for _, u := range t.Uniques {
		for _, c := range u {
			if c == col {
				return true
			}
		}
	}
	for _, fk := range t.FKs {
		for _, c := range fk.Cols {
			if c == col {
				return true
			}
		}
	}
	for _, o := range s.Tables {
		for _, fk := range o.FKs {
			if fk.RefTable == t.Name {
				for _, c := range fk.RefCols {
					if c == col {
						return true
					}
				}
			}
		}
	}
	return false
}

func (g *sqGen) droppable(s *sqSchema, t *sqTable) string {
	var cs []string
	for _, c := range t.Cols {
		if !usedElsewhere(s, t, c.Name) {
			cs = append(cs, c.Name)
		}
	}
	if len(cs) == 0 || len(t.Cols) < 3 {
		return ""
	}
	return hx.Pick(g.r, cs)
}

func (g *sqGen) editable(s *sqSchema, t *sqTable) *sqCol {
	var cs []*sqCol
	for i := range t.Cols {
		c := &t.Cols[i]
		if c.Gen == "" && c.Name != "id" && c.Name != "k2" && !strings.HasPrefix(c.Name, "r") {
			cs = append(cs, c)
		}
	}
	if len(cs) == 0 {
		return nil
	}
	return hx.Pick(g.r, cs)
}

// ---- rows ----

// rowsSQL generates INSERT statements with n rows per table that satisfy the constraints (parents
// first is not needed: the harness inserts with foreign keys off and checks them afterwards).
func (g *sqGen) rowsSQL(s *sqSchema, n int) []string {
	var out []string
	for _, t := range s.Tables {
		for i := 1; i <= n; i++ {
			var cols, vals []string
			for _, c := range t.Cols {
				if c.Gen != "" {
					continue
				}
				cols = append(cols, qi(c.Name))
				vals = append(vals, g.value(s, t, c, i, n))
			}
			out = append(out, fmt.Sprintf("INSERT INTO %s (%s) VALUES (%s)", qi(t.Name), strings.Join(cols, ", "), strings.Join(vals, ", ")))
		}
	}
	return out
}

func (g *sqGen) value(s *sqSchema, t *sqTable, c sqCol, i, n int) string {
	if c.Name == "id" {
		return fmt.Sprint(i)
	}
	if c.Name == "k2" {
		return fmt.Sprint(100 + i)
	}
	// foreign-key columns: reference row (i % n)+1 of the parent, or NULL
	for _, fk := range t.FKs {
		for k, fc := range fk.Cols {
			if fc == c.Name {
				if g.r.Chance(1, 3) {
					return "NULL"
				}
				j := (i % n) + 1
				switch fk.RefCols[k] {
				case "id":
					return fmt.Sprint(j)
				case "k2":
					return fmt.Sprint(100 + j)
				}
				return "NULL"
			}
		}
	}
	if !c.NotNull && g.r.Chance(1, 4) {
		return "NULL"
	}
	uniq := false
	for _, u := range t.Uniques {
		for _, uc := range u {
			if uc == c.Name {
				uniq = true
			}
		}
	}
	for _, ix := range t.Idxs {
		if ix.Unique {
			for _, p := range ix.Parts {
				if p.Col == c.Name {
					uniq = true
				}
			}
		}
	}
	k := g.r.Intn(5)
	if uniq {
		k = i
	}
	switch {
	case isIntType(c.Type) || c.Type == "numeric" || c.Type == "boolean" && t.Strict:
		return fmt.Sprint(k)
	case c.Type == "boolean":
		return fmt.Sprint(k % 2)
	case c.Type == "real" || c.Type == "decimal(10,2)":
		return fmt.Sprintf("%d.5", k)
	case c.Type == "blob":
		return fmt.Sprintf("x'%02x%02x'", k, i)
	case c.Type == "datetime" || c.Type == "date":
		return fmt.Sprintf("'2024-01-%02d'", 1+k%28)
	}
	return fmt.Sprintf("'v%d it''s'", k)
}

// ---- engine + independent reader ----

func openSQLite(path string, fk bool) (*sql.DB, error) {
	dsn := "file:" + path + "?_busy_timeout=5000"
	if fk {
		dsn += "&_fk=1"
	}
	db, err := sql.Open("sqlite3", dsn)
	if err != nil {
		return nil, err
	}
	db.SetMaxOpenConns(1)
	return db, nil
}

func execAll(db *sql.DB, stmts []string) error {
	for _, s := range stmts {
		if _, err := db.Exec(s); err != nil {
			return fmt.Errorf("%s: %w", trunc(s, 200), err)
		}
	}
	return nil
}

// catalog reads the structure of a database through pragmas only: one line per fact, sorted.
func catalog(db *sql.DB) ([]string, error) {
	var out []string
	rows, err := db.Query("SELECT name, coalesce(sql,'') FROM sqlite_master WHERE type = 'table' AND name NOT LIKE 'sqlite_%' ORDER BY name")
	if err != nil {
		return nil, err
	}
	type tb struct{ name, sql string }
	var tabs []tb
	for rows.Next() {
		var t tb
		rows.Scan(&t.name, &t.sql)
		tabs = append(tabs, t)
	}
	rows.Close()
	q := func(query string, f func(*sql.Rows) string) error {
		rs, err := db.Query(query)
		if err != nil {
			return err
		}
		defer rs.Close()
		for rs.Next() {
			out = append(out, f(rs))
		}
		return rs.Err()
	}
	for _, t := range tabs {
		up := strings.ToUpper(t.sql)
		out = append(out, fmt.Sprintf("table %s without_rowid=%v strict=%v autoinc=%v", t.name, strings.Contains(up, "WITHOUT ROWID"), strings.HasSuffix(strings.TrimSpace(up), "STRICT"), strings.Contains(up, "AUTOINCREMENT")))
		if err := q(fmt.Sprintf("SELECT name, type, \"notnull\", coalesce(dflt_value,'<none>'), pk, hidden FROM pragma_table_xinfo(%s)", quoteLit(t.name)), func(r *sql.Rows) string {
			var name, typ, dflt string
			var nn, pk, hidden int
			r.Scan(&name, &typ, &nn, &dflt, &pk, &hidden)
			if len(dflt) >= 2 && dflt[0] == '"' && dflt[len(dflt)-1] == '"' {
				// a string written between double quotes is the same default as its single-quoted form
				inner := strings.ReplaceAll(dflt[1:len(dflt)-1], `""`, `"`)
				dflt = "'" + strings.ReplaceAll(inner, "'", "''") + "'"
			}
			for len(dflt) > 2 && dflt[0] == '(' && dflt[len(dflt)-1] == ')' && parenBalanced(dflt[1:len(dflt)-1]) {
				dflt = dflt[1 : len(dflt)-1] // redundant outer parentheses of an expression default
			}
			// SQLite ignores the parenthesised parameters of a declared type and Atlas does not write
			// them back (varchar(20) is re-created as varchar): compare the type name only
			if i := strings.Index(typ, "("); i >= 0 {
				typ = strings.TrimSpace(typ[:i])
			}
			if !strings.HasSuffix(strings.TrimSpace(up), "STRICT") {
				typ = affinity(typ) // Atlas compares (and SQLite treats) declared types by their affinity
			}
			// numeric literal defaults of non-text columns are the same value however they are written
			if affinity(typ) != "TEXT" && affinity(typ) != "BLOB" {
				if f, err := strconv.ParseFloat(dflt, 64); err == nil {
					dflt = strconv.FormatFloat(f, 'g', -1, 64)
				}
			}
			return fmt.Sprintf("column %s.%s type=%s notnull=%d default=%s pk=%d hidden=%d", t.name, name, strings.ToLower(typ), nn, dflt, pk, hidden)
		}); err != nil {
			return nil, err
		}
		type ixr struct {
			name, origin string
			unique, part int
		}
		var ixs []ixr
		rs, err := db.Query(fmt.Sprintf("SELECT name, \"unique\", origin, partial FROM pragma_index_list(%s)", quoteLit(t.name)))
		if err != nil {
			return nil, err
		}
		for rs.Next() {
			var x ixr
			rs.Scan(&x.name, &x.unique, &x.origin, &x.part)
			ixs = append(ixs, x)
		}
		rs.Close()
		for _, x := range ixs {
			var parts []string
			rs, err := db.Query(fmt.Sprintf("SELECT coalesce(name,'<expr>'), \"desc\" FROM pragma_index_xinfo(%s) WHERE key = 1 ORDER BY seqno", quoteLit(x.name)))
			if err != nil {
				return nil, err
			}
			for rs.Next() {
				var n string
				var d int
				rs.Scan(&n, &d)
				parts = append(parts, fmt.Sprintf("%s:%d", n, d))
			}
			rs.Close()
			name := x.name
			if x.origin != "c" {
				name = "<" + x.origin + ">" // auto-indexes of PRIMARY KEY / UNIQUE constraints have generated names
			}
			// Atlas re-creates an inline UNIQUE constraint as CREATE UNIQUE INDEX <table>_<columns>: same uniqueness
			if x.unique == 1 && x.part == 0 && (x.origin == "u" || strings.HasPrefix(x.name, t.name+"_")) {
				name = "<u>"
			}
			where := ""
			if x.part == 1 {
				var sqlText string
				db.QueryRow("SELECT coalesce(sql,'') FROM sqlite_master WHERE type='index' AND name = ?", x.name).Scan(&sqlText)
				if i := strings.Index(strings.ToUpper(sqlText), " WHERE "); i >= 0 {
					where = strings.Join(strings.Fields(strings.NewReplacer("`", "", "\"", "", "(", "", ")", "").Replace(sqlText[i+7:])), " ")
				}
			}
			expr := ""
			if strings.Contains(strings.Join(parts, ","), "<expr>") {
				var sqlText string
				db.QueryRow("SELECT coalesce(sql,'') FROM sqlite_master WHERE type='index' AND name = ?", x.name).Scan(&sqlText)
				expr = " sql=" + normIdxParts(strings.Join(strings.Fields(strings.NewReplacer("`", "", "\"", "").Replace(sqlText[strings.Index(sqlText, "("):])), ""))
			}
			out = append(out, fmt.Sprintf("index %s.%s unique=%d parts=%s where=%q%s", t.name, name, x.unique, strings.Join(parts, ","), where, expr))
		}
		// foreign keys grouped by id
		fks := map[int][]string{}
		meta := map[int]string{}
		rs, err = db.Query(fmt.Sprintf("SELECT id, seq, \"table\", \"from\", coalesce(\"to\",''), on_update, on_delete FROM pragma_foreign_key_list(%s)", quoteLit(t.name)))
		if err != nil {
			return nil, err
		}
		for rs.Next() {
			var id, seq int
			var ref, from, to, ou, od string
			rs.Scan(&id, &seq, &ref, &from, &to, &ou, &od)
			fks[id] = append(fks[id], fmt.Sprintf("%d:%s->%s", seq, from, to))
			meta[id] = fmt.Sprintf("ref=%s on_update=%s on_delete=%s", ref, ou, od)
		}
		rs.Close()
		for id, ps := range fks {
			sort.Strings(ps)
			out = append(out, fmt.Sprintf("fk %s %s %s", t.name, strings.Join(ps, ","), meta[id]))
		}
		// checks, from the CREATE statement (only their expressions, normalised)
		for _, ck := range checkExprs(t.sql) {
			out = append(out, fmt.Sprintf("check %s %s", t.name, ck))
		}
	}
	sort.Strings(out)
	return out, nil
}

// normIdxParts normalises the (blank-free) part list of a CREATE INDEX statement, `(a,(id*2)DESC)WHERE..`:
// parentheses enclosing a whole part are redundant (`(id*2)` and `id*2` are the same key expression).
func normIdxParts(s string) string {
	if !strings.HasPrefix(s, "(") {
		return s
	}
	depth, end := 0, -1
	for i, c := range s {
		if c == '(' {
			depth++
		} else if c == ')' {
			depth--
			if depth == 0 {
				end = i
				break
			}
		}
	}
	if end < 0 {
		return s
	}
	parts := splitTop(s[1:end])
	for i, p := range parts {
		suffix := ""
		for _, sf := range []string{"DESC", "ASC"} {
			if strings.HasSuffix(p, ")"+sf) {
				p, suffix = strings.TrimSuffix(p, sf), sf
			}
		}
		for strings.HasPrefix(p, "(") && strings.HasSuffix(p, ")") && parenBalanced(p[1:len(p)-1]) {
			p = p[1 : len(p)-1]
		}
		parts[i] = p + suffix
	}
	return "(" + strings.Join(parts, ",") + ")" + s[end+1:]
}

func parenBalanced(s string) bool {
	d := 0
	for _, c := range s {
		switch c {
		case '(':
			d++
		case ')':
			d--
			if d < 0 {
				return false
			}
		}
	}
	return d == 0
}

// affinity implements https://www.sqlite.org/datatype3.html#determination_of_column_affinity
func affinity(typ string) string {
	u := strings.ToUpper(typ)
	switch {
	case strings.Contains(u, "INT"):
		return "INTEGER"
	case strings.Contains(u, "CHAR"), strings.Contains(u, "CLOB"), strings.Contains(u, "TEXT"):
		return "TEXT"
	case strings.Contains(u, "BLOB"), u == "":
		return "BLOB"
	case strings.Contains(u, "REAL"), strings.Contains(u, "FLOA"), strings.Contains(u, "DOUB"):
		return "REAL"
	}
	return "NUMERIC"
}

// checkExprs extracts the CHECK (...) expressions of a CREATE TABLE statement.
func checkExprs(sqlText string) []string {
	var out []string
	up := strings.ToUpper(sqlText)
	for i := 0; ; {
		j := strings.Index(up[i:], "CHECK")
		if j < 0 {
			break
		}
		k := i + j + 5
		for k < len(sqlText) && sqlText[k] == ' ' {
			k++
		}
		if k >= len(sqlText) || sqlText[k] != '(' {
			i = k
			continue
		}
		depth, e := 0, k
		for ; e < len(sqlText); e++ {
			if sqlText[e] == '(' {
				depth++
			} else if sqlText[e] == ')' {
				depth--
				if depth == 0 {
					break
				}
			}
		}
		x := sqlText[k+1 : e]
		x = strings.NewReplacer("`", "", "\"", "", "(", "", ")", "", " ", "").Replace(x)
		out = append(out, x)
		i = e
	}
	sort.Strings(out)
	return out
}

// tableRows returns the rows of a table keyed by `id` (quote()d values per column).
func tableRows(db *sql.DB, table string) (map[string]map[string]string, error) {
	cols, err := db.Query(fmt.Sprintf("SELECT name FROM pragma_table_xinfo(%s)", quoteLit(table)))
	if err != nil {
		return nil, err
	}
	var cs []string
	for cols.Next() {
		var c string
		cols.Scan(&c)
		cs = append(cs, c)
	}
	cols.Close()
	var sel []string
	for _, c := range cs {
		sel = append(sel, "quote("+qi(c)+")")
	}
	rs, err := db.Query("SELECT " + strings.Join(sel, ", ") + " FROM " + qi(table))
	if err != nil {
		return nil, err
	}
	defer rs.Close()
	out := map[string]map[string]string{}
	for rs.Next() {
		vals := make([]sql.NullString, len(cs))
		ptrs := make([]any, len(cs))
		for i := range vals {
			ptrs[i] = &vals[i]
		}
		if err := rs.Scan(ptrs...); err != nil {
			return nil, err
		}
		row := map[string]string{}
		key := ""
		for i, c := range cs {
			row[c] = vals[i].String
			if c == "id" {
				key = vals[i].String
			}
		}
		out[key] = row
	}
	return out, rs.Err()
}
