package main

import (
	"fmt"
	"sync"

	"ariga.io/atlas/sql/schema"
	"ariga.io/atlas/sql/sqlite"
)

// c02Predicates: SQLite partial indexes (the engine keeps the WHERE clause as written): every ordered pair of
// predicates that differ in the CONTENT of a string literal only - a doubled blank, a tab, a line break, a
// leading or trailing blank inside the quotes - is a different index and must be reported as exactly one
// ModifyIndex; a pair of equal predicates yields nothing.
func c02Predicates(e *Env, viol func(kind, sig, what, chk string, rep any), mu *sync.Mutex) {
	preds := []string{
		"name <> 'John Doe'", "name <> 'John  Doe'", "name <> 'John\tDoe'", "name <> 'John\nDoe'", "name <> ' John Doe'", "name <> 'John Doe '",
		"name <> 'JohnDoe'", "name <> 'john doe'", "name IS NOT NULL",
	}
	build := func(p string) *schema.Schema {
		s := schema.New("main")
		t := schema.NewTable("users").SetSchema(s)
		id, name := schema.NewIntColumn("id", "integer"), schema.NewColumn("name").SetType(&schema.StringType{T: "text"}).SetNull(true)
		t.AddColumns(id, name).SetPrimaryKey(schema.NewPrimaryKey(id))
		t.AddIndexes(schema.NewIndex("users_name").AddColumns(name).AddAttrs(&sqlite.IndexPredicate{P: p}))
		s.AddTables(t)
		return s
	}
	for i, a := range preds {
		for j, b := range preds {
			id := fmt.Sprintf("sqlite partial index predicate %q -> %q", a, b)
			mu.Lock()
			e.Res.Count("attrs/"+id, i != j, "sqlite-predicate", "attr-grid")
			mu.Unlock()
			cs, err := sqlite.DefaultDiff.SchemaDiff(build(a), build(b), schema.DiffNormalized())
			rep := map[string]any{"case": id}
			if err != nil {
				viol("failing-input", "differ-fails", id+": "+err.Error(), "Props.C02", rep)
				continue
			}
			var flat []schema.Change
			for _, ch := range cs {
				if mt, ok := ch.(*schema.ModifyTable); ok {
					flat = append(flat, mt.Changes...)
				} else {
					flat = append(flat, ch)
				}
			}
			switch {
			case i == j && len(flat) != 0:
				viol("failing-input", "spurious-change", fmt.Sprintf("%s: equal predicates, the differ reports %s", id, describeChanges(flat)), "Props.C02 no spurious change", rep)
			case i != j:
				mi, ok := one[*schema.ModifyIndex](flat)
				if !ok || len(flat) != 1 || !mi.Change.Is(schema.ChangeAttr) {
					viol("failing-input", "diff-not-exact", fmt.Sprintf("%s: the predicates differ inside a string literal; expected exactly one ModifyIndex (attributes), the differ reports %s", id, describeChanges(flat)), "Props.C02 every difference reported", rep)
				}
			}
		}
	}
}
