package main

import (
	"context"
	"database/sql"
	"errors"
	"fmt"
	"os"
	"path/filepath"
	"sort"
	"strings"
	"time"

	"ariga.io/atlas/sql/migrate"
	"ariga.io/atlas/sql/schema"
	"ariga.io/atlas/sql/sqltool"
)

// c09Formats: directories in a third-party layout whose files are read by a reader of their own (goose with
// StatementBegin / StatementEnd blocks, dbmate): the executor sends every statement unit on its own, in order,
// counts them one by one in the revision, and after a failure at unit j a clean run sends exactly the units
// from j on. The units are known to the harness (it wrote the file), not asked from the implementation.
func c09Formats(e *Env) {
	type layout struct {
		kind  string
		file  string
		body  string
		units []string
	}
	block := "CREATE FUNCTION f() BEGIN\n  SELECT 1;\n  SELECT 2;\nEND;"
	layouts := []layout{
		{"goose", "1_a.sql", "-- +goose Up\nCREATE TABLE a (id int);\n-- +goose StatementBegin\n" + block + "\n-- +goose StatementEnd\nCREATE TABLE c (id int);\nCREATE TABLE d (id int);\n-- +goose Down\nDROP TABLE a;\n",
			[]string{"CREATE TABLE a (id int);", block, "CREATE TABLE c (id int);", "CREATE TABLE d (id int);"}},
		{"goose", "1_a.sql", "-- +goose Up\n-- +goose StatementBegin\n" + block + "\n-- +goose StatementEnd\nCREATE TABLE c (id int);\n-- +goose StatementBegin\n" + block + "\n-- +goose StatementEnd\n-- +goose Down\n",
			[]string{block, "CREATE TABLE c (id int);", block}},
		{"dbmate", "1_a.sql", "-- migrate:up\nCREATE TABLE a (id int);\nCREATE TABLE b (\n  id int\n);\nCREATE TABLE c (id int);\n-- migrate:down\nDROP TABLE a;\n",
			[]string{"CREATE TABLE a (id int);", "CREATE TABLE b (\n  id int\n);", "CREATE TABLE c (id int);"}},
	}
	for li0 := 0; li0 < 2*len(layouts); li0++ {
		// every layout twice: through a driver without and with a statement scanner of its own (the real drivers
		// have one; it is meant for plain files, a format's reader knows its own sections)
		li, scans := li0/2, li0%2 == 1
		l := layouts[li]
		for fault := -1; fault < len(l.units); fault++ {
			root, err := os.MkdirTemp(e.Work, "c09f")
			if err != nil {
				return
			}
			os.WriteFile(filepath.Join(root, l.file), []byte(l.body), 0o644)
			var dir migrate.Dir
			if l.kind == "goose" {
				dir, err = sqltool.NewGooseDir(root)
			} else {
				dir, err = sqltool.NewDBMateDir(root)
			}
			id := fmt.Sprintf("%s layout %d (driver scans statements: %v), failure at unit %d", l.kind, li, scans, fault)
			rep := map[string]any{"kind": l.kind, "file": l.body, "units": l.units, "fault": fault}
			e.Res.Count("c09-format:"+id, fault >= 1, "format:"+l.kind)
			if err == nil {
				var sum migrate.HashFile
				if sum, err = dir.Checksum(); err == nil {
					err = migrate.WriteSumFile(dir, sum)
				}
			}
			if err != nil {
				os.RemoveAll(root)
				continue
			}
			w := &fmtWorld{revs: map[string]*migrate.Revision{}, failAt: fault}
			run := func() string {
				defer func() { recover() }()
				var drv migrate.Driver = &fmtDrv{w: w}
				if scans {
					drv = &fmtScanDrv{fmtDrv{w: w}}
				}
				ex, err := migrate.NewExecutor(drv, dir, &fmtRRW{w})
				if err != nil {
					return "other:" + err.Error()
				}
				return classify(ex.ExecuteN(context.Background(), 0))
			}
			norm := func(xs []string) string {
				var out []string
				for _, x := range xs {
					out = append(out, strings.TrimSpace(x))
				}
				return strings.Join(out, " | ")
			}
			res1 := run()
			want1 := l.units
			if fault >= 0 {
				want1 = l.units[:fault+1]
			}
			if norm(w.calls) != norm(want1) {
				e.Res.Violate("failing-input", "format-units-not-sent-one-by-one", fmt.Sprintf("%s: the executor sent %d statements [%s], the file holds the units [%s] (result %s)", id, len(w.calls), norm(w.calls), norm(want1), res1), "Props.C09 (format readers)", rep)
				os.RemoveAll(root)
				continue
			}
			if r := w.revs["1"]; r != nil {
				wantApplied := len(l.units)
				if fault >= 0 {
					wantApplied = fault
				}
				if r.Applied != wantApplied || r.Total != len(l.units) {
					e.Res.Violate("failing-input", "format-revision-count-wrong", fmt.Sprintf("%s: the revision reads applied=%d total=%d, expected %d of %d", id, r.Applied, r.Total, wantApplied, len(l.units)), "Props.C09 (format readers)", rep)
					os.RemoveAll(root)
					continue
				}
			}
			if fault >= 0 {
				// the clean run resumes at the failed unit
				w.failAt, w.n = -1, 0
				n := len(w.calls)
				res2 := run()
				if norm(w.calls[n:]) != norm(l.units[fault:]) || res2 != "ok" {
					e.Res.Violate("failing-input", "format-resume-wrong", fmt.Sprintf("%s: the clean run after the failure sent [%s] (result %s), expected [%s]", id, norm(w.calls[n:]), res2, norm(l.units[fault:])), "Props.C09 (format readers)", rep)
				}
			}
			os.RemoveAll(root)
		}
	}
}

// a driver that fails the failAt-th statement of a run, and a revision store keeping value copies
type fmtWorld struct {
	calls  []string
	n      int
	failAt int
	revs   map[string]*migrate.Revision
}

type fmtDrv struct {
	migrate.Driver
	w *fmtWorld
}

func (d *fmtDrv) ExecContext(_ context.Context, q string, _ ...any) (sql.Result, error) {
	d.w.calls = append(d.w.calls, q)
	k := d.w.n
	d.w.n++
	if k == d.w.failAt {
		return nil, errors.New("exec")
	}
	return nil, nil
}
func (d *fmtDrv) CheckClean(context.Context, *migrate.TableIdent) error { return nil }
func (d *fmtDrv) Lock(context.Context, string, time.Duration) (schema.UnlockFunc, error) {
	return func() error { return nil }, nil
}

// fmtScanDrv: the same driver with a statement scanner (the generic one)
type fmtScanDrv struct{ fmtDrv }

func (*fmtScanDrv) ScanStmts(input string) ([]*migrate.Stmt, error) { return migrate.Stmts(input) }

type fmtRRW struct{ w *fmtWorld }

func (r *fmtRRW) Ident() *migrate.TableIdent { return &migrate.TableIdent{Name: "revs"} }
func (r *fmtRRW) ReadRevisions(context.Context) ([]*migrate.Revision, error) {
	var vs []string
	for v := range r.w.revs {
		vs = append(vs, v)
	}
	sort.Strings(vs)
	var out []*migrate.Revision
	for _, v := range vs {
		out = append(out, copyRev(r.w.revs[v]))
	}
	return out, nil
}
func (r *fmtRRW) ReadRevision(_ context.Context, v string) (*migrate.Revision, error) {
	if x, ok := r.w.revs[v]; ok {
		return copyRev(x), nil
	}
	return nil, migrate.ErrRevisionNotExist
}
func (r *fmtRRW) WriteRevision(_ context.Context, rev *migrate.Revision) error {
	r.w.revs[rev.Version] = copyRev(rev)
	return nil
}
func (r *fmtRRW) DeleteRevision(_ context.Context, v string) error {
	delete(r.w.revs, v)
	return nil
}
