package main

// C14: the dev database is never damaged: refused if not empty (and then untouched), otherwise handed
// back empty, on success and on failure at any statement of the replay / normalisation; replaying a
// directory never writes to it.
// Every command that takes --dev-url x dev-database content {missing file, empty, table+rows,
// table+index+trigger, view only, revision table only} x sources whose k-th statement fails, for
// every k. The dev database is opened through the sqlitev:// hook so its operation trace is
// available: a refused database must see no write at all and keep its bytes. The Lean model
// (Atlas.Dev) is asked for the expected outcome of each run.

import (
	"crypto/sha256"
	"fmt"
	"os"
	"path/filepath"
	"sort"
	"strings"
	"sync"

	"verifharness/internal/hx"
)

func init() { commands["C14"] = runC14 }

type c14Case struct {
	Cmd     string   `json:"cmd"`      // migrate-diff-sql | migrate-diff-hcl | migrate-validate | migrate-lint | schema-apply-sql | schema-apply-hcl | schema-diff | schema-inspect
	Dev     string   `json:"dev"`      // missing | empty | table | table-index-trigger | view | revisions | two-tables | virtual-fts | virtual-rtree
	DirFail int      `json:"dir_fail"` // index of the failing statement of the directory (-1: none)
	SrcFail int      `json:"src_fail"` // index of the failing statement of the desired SQL schema (-1: none)
	Objects []string `json:"objects"`  // kinds of objects the sources create: table, index, view, trigger
	// Bad: what the failing statement is: "" a statement the engine rejects; "scan" a statement with an unclosed
	// quote, so that the FILE holding it cannot be split into statements (the files in front of it have run)
	Bad string `json:"bad,omitempty"`
}

func (c *c14Case) bad() string {
	if c.Bad == "scan" {
		return "CREATE TABLE broken (c text DEFAULT 'x);"
	}
	if c.Bad == "inspect" {
		// accepted by the engine, rejected by the inspector (a self reference to a column that does not exist):
		// the command fails AFTER the statement ran, while the dev database is being read
		return "CREATE TABLE selfref (id integer PRIMARY KEY, a integer, FOREIGN KEY (a) REFERENCES selfref (zzz));"
	}
	return c14Bad
}

var c14DevSetup = map[string][]string{
	"empty":               {"CREATE TABLE x (a int)", "DROP TABLE x"},
	"table":               {"CREATE TABLE keep (id integer PRIMARY KEY, v text)", "INSERT INTO keep VALUES (1,'one'),(2,'two')"},
	"table-index-trigger": {"CREATE TABLE keep (id integer PRIMARY KEY, v text)", "CREATE INDEX keep_v ON keep (v)", "CREATE TABLE log (n int)", "CREATE TRIGGER keep_ai AFTER INSERT ON keep BEGIN INSERT INTO log VALUES (new.id); END", "INSERT INTO keep VALUES (1,'one')"},
	"view":                {"CREATE VIEW only_view AS SELECT 1 AS one"},
	"revisions":           {"CREATE TABLE atlas_schema_revisions (version text PRIMARY KEY)", "INSERT INTO atlas_schema_revisions VALUES ('1')"},
	"two-tables":          {"CREATE TABLE a (id int)", "CREATE TABLE b (id int)"},
	// only virtual tables (and their shadow tables): a full-text index with rows, an R*Tree
	"virtual-fts":   {"CREATE VIRTUAL TABLE notes USING fts4(body)", "INSERT INTO notes (body) VALUES ('remember the milk'), ('call home')"},
	"virtual-rtree": {"CREATE VIRTUAL TABLE boxes USING rtree(id, minx, maxx)", "INSERT INTO boxes VALUES (1, 0.0, 1.0)"},
	// user tables whose names only LOOK like the engine's internal ones (sqlite_..., libsql_...)
	"table-sqlitedata": {"CREATE TABLE sqlitedata (id integer PRIMARY KEY, v text)", "INSERT INTO sqlitedata VALUES (1,'one')"},
	"table-libsqlx":    {"CREATE TABLE libsqlxcache (id integer PRIMARY KEY)", "INSERT INTO libsqlxcache VALUES (7)"},
}

// statements of the migration directory (3 files) and of the desired schema.
func c14DirStmts(objs []string) [][]string {
	has := func(k string) bool {
		for _, o := range objs {
			if o == k {
				return true
			}
		}
		return false
	}
	f1 := []string{"CREATE TABLE users (id integer NOT NULL, name text NULL, PRIMARY KEY (id));", "CREATE TABLE posts (id integer NOT NULL, user_id integer NULL, PRIMARY KEY (id));"}
	f2 := []string{"ALTER TABLE users ADD COLUMN email text NULL;"}
	if has("index") {
		f2 = append(f2, "CREATE INDEX users_name ON users (name);")
	}
	f3 := []string{"CREATE TABLE tags (id integer NOT NULL, PRIMARY KEY (id));"}
	if has("view") {
		f3 = append(f3, "CREATE VIEW user_names AS SELECT name FROM users;")
	}
	if has("trigger") {
		f3 = append(f3, "CREATE TRIGGER posts_ai AFTER INSERT ON posts BEGIN UPDATE users SET name = 'x' WHERE id = new.user_id; END;")
	}
	if has("txn") {
		// the file manages its own transaction: a statement failing inside it leaves the transaction open
		f3 = append(append([]string{"BEGIN;"}, f3...), "COMMIT;")
	}
	return [][]string{f1, f2, f3}
}

func c14Desired(objs []string) []string {
	var out []string
	for _, f := range c14DirStmts(objs) {
		for _, s := range f {
			if strings.HasPrefix(s, "ALTER TABLE users ADD COLUMN") || s == "BEGIN;" || s == "COMMIT;" {
				continue
			}
			if strings.HasPrefix(s, "CREATE TABLE users") {
				s = "CREATE TABLE users (id integer NOT NULL, name text NULL, email text NULL, PRIMARY KEY (id));"
			}
			out = append(out, s)
		}
	}
	return append(out, "CREATE TABLE extra (id integer NOT NULL, PRIMARY KEY (id));")
}

const c14Bad = "INSERT INTO no_such_table VALUES (1);"

func (c *c14Case) usesDir() bool {
	return strings.HasPrefix(c.Cmd, "migrate-") && !strings.HasSuffix(c.Cmd, "-nofiles")
}

func (c *c14Case) usesSQLSrc() bool {
	switch c.Cmd {
	case "migrate-diff-sql", "schema-apply-sql", "schema-diff", "schema-inspect", "migrate-diff-sqldir", "schema-apply-sqldir", "schema-diff-sqldir":
		return true
	}
	return false
}

const c14HCL = `schema "main" {
}
table "users" {
  schema = schema.main
  column "id" {
    null = false
    type = integer
  }
  column "name" {
    null = true
    type = text
  }
  column "email" {
    null = true
    type = text
  }
  primary_key {
    columns = [column.id]
  }
}
table "posts" {
  schema = schema.main
  column "id" {
    null = false
    type = integer
  }
  column "user_id" {
    null = true
    type = integer
  }
  primary_key {
    columns = [column.id]
  }
}
table "extra" {
  schema = schema.main
  column "id" {
    null = false
    type = integer
  }
}
`

func c14Cases(e *Env) []c14Case {
	cmds := []string{"migrate-diff-sql", "migrate-diff-hcl", "migrate-validate", "migrate-lint", "migrate-lint-checkpoint", "migrate-validate-checkpoint", "schema-apply-sql", "schema-apply-hcl", "schema-diff", "schema-inspect",
		// the desired state given as a DIRECTORY of SQL schema files (no atlas.sum): replayed on the dev database like a migration directory
		"migrate-diff-sqldir", "schema-apply-sqldir", "schema-diff-sqldir",
		// commands with nothing to replay (an empty directory / a window of no files): the dev database they were
		// given is checked all the same
		"migrate-lint-nofiles", "migrate-validate-nofiles"}
	devs := []string{"missing", "empty", "table", "table-index-trigger", "view", "revisions", "two-tables", "virtual-fts", "virtual-rtree", "table-sqlitedata", "table-libsqlx"}
	objsets := [][]string{{"table"}, {"table", "index", "view", "trigger"}, {"table", "txn"}}
	var out []c14Case
	for _, cmd := range cmds {
		for _, dev := range devs {
			for oi, objs := range objsets {
				if dev != "missing" && dev != "empty" && oi > 0 {
					continue
				}
				c := c14Case{Cmd: cmd, Dev: dev, DirFail: -1, SrcFail: -1, Objects: objs}
				out = append(out, c)
				if dev != "missing" && dev != "empty" {
					continue
				}
				if dev == "empty" && !e.Thorough() && oi == 1 {
					continue
				}
				if c.usesDir() {
					n := 0
					for _, f := range c14DirStmts(objs) {
						n += len(f)
					}
					if strings.HasSuffix(cmd, "-checkpoint") {
						n = len(c14Desired(objs))
					}
					for k := 0; k < n; k++ {
						cc := c
						cc.DirFail = k
						out = append(out, cc)
						if !strings.HasSuffix(cmd, "-checkpoint") {
							cc.Bad = "scan"
							out = append(out, cc)
							if k == n-1 || k == 0 {
								cc.Bad = "inspect"
								out = append(out, cc)
							}
						}
					}
				}
				if c.usesSQLSrc() {
					for k := 0; k <= len(c14Desired(objs)); k++ {
						cc := c
						cc.SrcFail = k
						out = append(out, cc)
					}
				}
			}
		}
	}
	return out
}

func hashTree(root string) map[string]string {
	out := map[string]string{}
	filepath.Walk(root, func(p string, info os.FileInfo, err error) error {
		if err != nil || info.IsDir() {
			return nil
		}
		b, _ := os.ReadFile(p)
		rel, _ := filepath.Rel(root, p)
		out[rel] = fmt.Sprintf("%x", sha256.Sum256(b))
		return nil
	})
	return out
}

func runC14(e *Env) error {
	if e.Atlas == "" {
		return fmt.Errorf("atlas binary not given")
	}
	pool, err := hx.NewPool(e.Model, 2)
	if err != nil {
		return err
	}
	defer pool.Close()
	cases := c14Cases(e)
	if e.Replay == "" {
		c14PG(e)
		c14PGSchema(e)
		c14MySQL(e)
	}
	e.Res.Rule = "PostgreSQL: the real driver's Snapshot / restore functions over an in-memory stand-in of the server (catalogue queries answered from its state, DDL applied to it): dev database {empty public, no schema, public with a type, public with a table, with a table and a type, two schemas, another schema only} x replays creating {nothing, a type, a type and a table, two tables, two types, a schema with a table and a type, a schema and a type} failing at every position; SQLite: commands {migrate diff (SQL file / HCL / directory of SQL schema files as the desired state), migrate validate, migrate lint, schema apply (SQL/HCL), schema diff, schema inspect} x dev database {missing, empty, table+rows, table+index+trigger, view only, revision table only, two tables, virtual tables only (fts4 with rows / rtree)} x object kinds created by the sources {tables | tables+index+view+trigger | tables with a file that opens its own transaction (BEGIN ... COMMIT)} x failing statement at EVERY position of the replayed directory and of the desired SQL schema (a statement the engine rejects, or one with an unclosed quote: the file holding it cannot be split into statements after the files in front of it have run); dev database opened through the sqlitev:// hook (operation trace); monitors: non-empty dev => command fails, no write operation on dev, file bytes identical; empty dev => dump empty afterwards (success or failure); directory bytes unchanged (migrate diff: only a new file + atlas.sum); outcome == Lean model Atlas.Dev; non-trivial = dev database non-empty or a statement fails; distinct by case"
	var mu sync.Mutex
	viol := func(kind, sig, what, check string, rep any) {
		mu.Lock()
		e.Res.Violate(kind, sig, what, check, rep)
		mu.Unlock()
	}
	parallel(e.Workers, len(cases), func(ci int) {
		c := cases[ci]
		dir := filepath.Join(e.Work, fmt.Sprintf("c14-%d", ci))
		os.RemoveAll(dir)
		os.MkdirAll(dir, 0o755)
		defer os.RemoveAll(dir)
		// sources
		var files []dirFile
		k := 0
		for fi, f := range c14DirStmts(c.Objects) {
			var b strings.Builder
			for _, s := range f {
				if k == c.DirFail {
					b.WriteString(c.bad() + "\n")
				}
				b.WriteString(s + "\n")
				k++
			}
			files = append(files, dirFile{fmt.Sprintf("%d_f.sql", fi+1), b.String()})
		}
		if strings.HasSuffix(c.Cmd, "-checkpoint") {
			// a checkpoint file (the whole schema so far) followed by one more file; the failing
			// statement, if any, sits inside the checkpoint
			var b strings.Builder
			b.WriteString("-- atlas:checkpoint\n\n")
			k := 0
			for _, s := range c14Desired(c.Objects) {
				if k == c.DirFail {
					b.WriteString(c14Bad + "\n")
				}
				b.WriteString(s + "\n")
				k++
			}
			clean := c14DirStmts(c.Objects)
			files = nil
			for fi, f := range clean {
				files = append(files, dirFile{fmt.Sprintf("%d_f.sql", fi+1), strings.Join(f, "\n") + "\n"})
			}
			files = append(files, dirFile{"4_checkpoint.sql", b.String()}, dirFile{"5_f.sql", "CREATE TABLE after_ck (id integer NOT NULL);\n"})
		}
		if strings.HasSuffix(c.Cmd, "-nofiles") {
			files = nil
		}
		if err := writeMigrationDir(filepath.Join(dir, "m"), files); err != nil {
			return
		}
		var des strings.Builder
		for i, s := range c14Desired(c.Objects) {
			if i == c.SrcFail {
				des.WriteString(c14Bad + "\n")
			}
			des.WriteString(s + "\n")
		}
		if c.SrcFail == len(c14Desired(c.Objects)) {
			des.WriteString(c14Bad + "\n")
		}
		os.WriteFile(filepath.Join(dir, "desired.sql"), []byte(des.String()), 0o644)
		// the same statements as a directory of two schema files without a sum file
		os.MkdirAll(filepath.Join(dir, "desired_dir"), 0o755)
		lines := strings.SplitAfter(des.String(), "\n")
		half := len(lines) / 2
		os.WriteFile(filepath.Join(dir, "desired_dir", "1_a.sql"), []byte(strings.Join(lines[:half], "")), 0o644)
		os.WriteFile(filepath.Join(dir, "desired_dir", "2_b.sql"), []byte(strings.Join(lines[half:], "")), 0o644)
		os.WriteFile(filepath.Join(dir, "from.sql"), []byte("CREATE TABLE users (id integer NOT NULL);\n"), 0o644)
		os.WriteFile(filepath.Join(dir, "desired.hcl"), []byte(c14HCL), 0o644)
		// dev database
		devp := filepath.Join(dir, "dev.sqlite")
		if st, ok := c14DevSetup[c.Dev]; ok {
			if err := execSQL(devp, st...); err != nil {
				viol("no-failing-input-found", "harness-setup", err.Error(), "harness", c)
				return
			}
		}
		devBefore := dumpDB(devp)
		rawBefore, _ := os.ReadFile(devp)
		treeBefore := hashTree(filepath.Join(dir, "m"))
		srcBefore := hashTree(filepath.Join(dir, "desired_dir"))
		dev := "sqlitev://dev.sqlite"
		var args []string
		switch c.Cmd {
		case "migrate-diff-sql":
			args = []string{"migrate", "diff", "new", "--dir", "file://m", "--to", "file://desired.sql", "--dev-url", dev}
		case "migrate-diff-hcl":
			args = []string{"migrate", "diff", "new", "--dir", "file://m", "--to", "file://desired.hcl", "--dev-url", dev}
		case "migrate-validate":
			args = []string{"migrate", "validate", "--dir", "file://m", "--dev-url", dev}
		case "migrate-lint":
			args = []string{"migrate", "lint", "--dir", "file://m", "--dev-url", dev, "--latest", "2"}
		case "migrate-lint-checkpoint":
			args = []string{"migrate", "lint", "--dir", "file://m", "--dev-url", dev, "--latest", "2"}
		case "migrate-validate-checkpoint", "migrate-validate-nofiles":
			args = []string{"migrate", "validate", "--dir", "file://m", "--dev-url", dev}
		case "migrate-lint-nofiles":
			args = []string{"migrate", "lint", "--dir", "file://m", "--dev-url", dev, "--latest", "2"}
		case "schema-apply-sql":
			args = []string{"schema", "apply", "--url", "sqlite://target.sqlite", "--to", "file://desired.sql", "--dev-url", dev, "--auto-approve"}
		case "schema-apply-hcl":
			args = []string{"schema", "apply", "--url", "sqlite://target.sqlite", "--to", "file://desired.hcl", "--dev-url", dev, "--auto-approve"}
		case "schema-diff":
			args = []string{"schema", "diff", "--from", "file://from.sql", "--to", "file://desired.sql", "--dev-url", dev}
		case "schema-inspect":
			args = []string{"schema", "inspect", "--url", "file://desired.sql", "--dev-url", dev}
		case "migrate-diff-sqldir":
			args = []string{"migrate", "diff", "new", "--dir", "file://m", "--to", "file://desired_dir", "--dev-url", dev}
		case "schema-apply-sqldir":
			args = []string{"schema", "apply", "--url", "sqlite://target.sqlite", "--to", "file://desired_dir", "--dev-url", dev, "--auto-approve"}
		case "schema-diff-sqldir":
			args = []string{"schema", "diff", "--from", "file://from.sql", "--to", "file://desired_dir", "--dev-url", dev}
		}
		tr := filepath.Join(dir, "trace.txt")
		o := runAtlas(e, dir, map[string]string{"VERIF_TRACE": tr, "VERIF_TRACE_READS": "1"}, args...)
		used := len(o.Trace) > 0 // the command opened the dev database at all (reads are traced too)
		devAfter := dumpDB(devp)
		rawAfter, _ := os.ReadFile(devp)
		treeAfter := hashTree(filepath.Join(dir, "m"))
		nonEmpty := len(devBefore.Master) > 0
		fails := c.DirFail >= 0 && c.usesDir() || c.SrcFail >= 0 && c.usesSQLSrc()
		mu.Lock()
		e.Res.Count(fmt.Sprintf("c14-%d", ci), nonEmpty || fails, "cmd:"+c.Cmd, "dev:"+c.Dev, fmt.Sprintf("dev-used:%v", len(o.Trace) > 0))
		mu.Unlock()
		rep := map[string]any{"case": c, "args": args, "exit": o.Code, "stderr": trunc(o.Stderr, 300)}
		writes := 0
		for _, l := range o.Trace {
			p := strings.SplitN(l, " ", 3)
			if len(p) >= 2 && (p[1] == "stmt" || p[1] == "rev") {
				writes++
			}
		}
		// model
		var ans struct {
			Refused bool `json:"refused"`
			Empty   bool `json:"empty_after"`
			Same    bool `json:"unchanged"`
		}
		kinds := []string{}
		for _, m := range devBefore.Master {
			kinds = append(kinds, strings.SplitN(m, "|", 2)[0])
		}
		if err := pool.AskInto(map[string]any{"op": "dev.run", "fixed": true, "objects": kinds, "fail": fails}, &ans); err != nil {
			viol("no-failing-input-found", "model-error", err.Error(), "model", c)
			return
		}
		if nonEmpty {
			if o.Code == 0 && (used || strings.HasSuffix(c.Cmd, "-nofiles")) {
				viol("failing-input", "non-empty-dev-accepted", fmt.Sprintf("%s with a dev database containing %v: the command did not refuse (exit 0); dev afterwards:\n%s", strings.Join(args, " "), devBefore.Master, trunc(devAfter.canon(true), 300)), "Props.C14.refuse_nonempty", rep)
			}
			if devBefore.canon(true) != devAfter.canon(true) {
				viol("failing-input", "non-empty-dev-modified", fmt.Sprintf("%s: the non-empty dev database was changed:\nbefore:\n%s\nafter:\n%s", strings.Join(args, " "), trunc(devBefore.canon(true), 400), trunc(devAfter.canon(true), 400)), "Props.C14.refuse_nonempty", rep)
			} else if writes > 0 {
				viol("failing-input", "write-before-cleanliness-check", fmt.Sprintf("%s: %d write operations reached the non-empty dev database: %v", strings.Join(args, " "), writes, o.Trace), "Props.C14.refuse_nonempty (untouched)", rep)
			} else if string(rawBefore) != string(rawAfter) {
				viol("failing-input", "non-empty-dev-bytes-changed", fmt.Sprintf("%s: the bytes of the refused dev database file changed", strings.Join(args, " ")), "Props.C14.refuse_nonempty (untouched)", rep)
			}
			if used && (!ans.Refused || !ans.Same) {
				mu.Lock()
				e.Res.Disagree()
				mu.Unlock()
				viol("no-failing-input-found", "corr-dev-model-mismatch", fmt.Sprintf("model does not refuse a dev database with %v", kinds), "correspondence Atlas.Dev.run", rep)
			}
		} else {
			if len(devAfter.Master) != 0 || devAfter.Err != "" {
				viol("failing-input", "dev-not-returned-empty", fmt.Sprintf("%s (exit %d): the dev database is not empty afterwards: %v %s", strings.Join(args, " "), o.Code, devAfter.Master, devAfter.Err), "Props.C14.returns_empty", rep)
			}
			if fails && o.Code == 0 {
				viol("failing-input", "failing-statement-not-reported", fmt.Sprintf("%s: a source statement fails but the command exits 0", strings.Join(args, " ")), "Props.C14 (failure reported)", rep)
			}
			if !fails && o.Code != 0 && !(strings.HasPrefix(c.Cmd, "migrate-lint") && o.Code == 1 && !strings.Contains(o.Stderr, "Error:")) {
				viol("failing-input", "command-fails-on-clean-input", fmt.Sprintf("%s (exit %d): %s", strings.Join(args, " "), o.Code, trunc(o.Stderr+o.Stdout, 300)), "Props.C14 control", rep)
			}
			if ans.Refused || !ans.Empty {
				mu.Lock()
				e.Res.Disagree()
				mu.Unlock()
				viol("no-failing-input-found", "corr-dev-model-mismatch", "model refuses an empty dev database or does not return it empty", "correspondence Atlas.Dev.run", rep)
			}
		}
		// directory never written
		var changed []string
		for n, h := range treeBefore {
			if treeAfter[n] != h && !(c.Cmd[:12] == "migrate-diff" && n == "atlas.sum") {
				changed = append(changed, n)
			}
		}
		added := 0
		for n := range treeAfter {
			if _, ok := treeBefore[n]; !ok {
				added++
				if !strings.HasPrefix(c.Cmd, "migrate-diff") {
					changed = append(changed, "+"+n)
				}
			}
		}
		// the directory of schema files given as the desired state is an input: never written, success or failure
		srcAfter := hashTree(filepath.Join(dir, "desired_dir"))
		if hxJSON(srcBefore) != hxJSON(srcAfter) {
			var names []string
			for n := range srcAfter {
				if srcBefore[n] != srcAfter[n] {
					names = append(names, n)
				}
			}
			sort.Strings(names)
			viol("failing-input", "directory-written", fmt.Sprintf("%s (exit %d): the directory of schema files given as the desired state was modified: %v", strings.Join(args, " "), o.Code, names), "Props.C14.dir_untouched", rep)
		}
		sort.Strings(changed)
		if len(changed) > 0 || added > 1 {
			viol("failing-input", "directory-written", fmt.Sprintf("%s: the migration directory was modified: %v (added %d)", strings.Join(args, " "), changed, added), "Props.C14.dir_untouched", rep)
		}
	})
	e.Res.Note("atlas processes run: %d", cliRuns.Load())
	return nil
}
