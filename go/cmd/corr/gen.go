package main

// Seeded generators of schema graphs (schema.Table etc.) and change sets, shared by the planner
// properties (C07, C04, C16, C20, …). Names and literals are drawn from pools that include
// adversarial characters; which pool a case used is reported in the evidence.

import (
	"fmt"
	"strconv"
	"strings"

	"ariga.io/atlas/sql/schema"
	"verifharness/internal/hx"
)

var plainIdents = []string{"t1", "users", "orders", "c1", "id", "name", "a_b", "x2", "col", "price", "ts", "fk_a", "idx_1"}

// adversarial identifiers / literals: semicolons, comment markers, newlines, backslashes, parens,
// dollar quotes, keywords, non-ASCII, the other dialects' quote characters.
var nastyIdents = []string{"a b", "semi;colon", "dash--dash", "sl/*ash", "star*/x", "new\nline", "cr\r\nlf", "tab\there", "back\\slash", "paren(", "par)en",
	"dollar$$", "$tag$", "delimiter", "BEGIN", "END", "begin atomic", "ünï", "#hash", "co,mma", "q?mark", "per%cent", "DELIMITER //", "go"}

var ownQuote = map[string]string{"mysql": "`", "sqlite": "`", "postgres": "\""}
var otherQuotes = map[string][]string{"mysql": {"'", "\""}, "sqlite": {"'", "\""}, "postgres": {"'", "`"}}

type genCfg struct {
	Dialect   string
	Nasty     int  // probability (of 10) that a name/literal is adversarial
	OwnQuote  bool // allow the dialect's own identifier quote inside identifiers
	TrailBack bool // allow identifiers ending in a backslash
}

type schemaGen struct {
	r    *hx.Rand
	cfg  genCfg
	used map[string]bool
	// what the case contains (for histograms / known-finding classification)
	HasOwnQuote  bool
	HasTrailBack bool
	HasNasty     bool
	HasEnumQuote bool // an enum value contains a single quote or a backslash
}

func newSchemaGen(r *hx.Rand, cfg genCfg) *schemaGen {
	return &schemaGen{r: r, cfg: cfg, used: map[string]bool{}}
}

func (g *schemaGen) ident(prefix string) string {
	for {
		var s string
		switch {
		case g.r.Intn(10) < g.cfg.Nasty:
			s = hx.Pick(g.r, nastyIdents)
			g.HasNasty = true
			if g.r.Chance(1, 4) {
				s += hx.Pick(g.r, otherQuotes[g.cfg.Dialect])
			}
			if g.cfg.OwnQuote && g.r.Chance(1, 6) {
				s = s[:len(s)/2] + ownQuote[g.cfg.Dialect] + s[len(s)/2:]
				if len(s)%2 == 0 {
					// every other name holds the quote character TWICE (no random draw: the streams of the other
					// generators stay as they are)
					s += ownQuote[g.cfg.Dialect]
				}
				g.HasOwnQuote = true
			}
			if g.cfg.TrailBack && g.r.Chance(1, 8) {
				s += "\\"
				g.HasTrailBack = true
			}
		default:
			s = hx.Pick(g.r, plainIdents)
		}
		s = prefix + s
		if !g.used[strings.ToLower(s)] {
			g.used[strings.ToLower(s)] = true
			return s
		}
		prefix += fmt.Sprint(g.r.Intn(10))
	}
}

func (g *schemaGen) text() string {
	if g.r.Intn(10) < g.cfg.Nasty {
		g.HasNasty = true
		s := hx.Pick(g.r, nastyIdents)
		if g.r.Chance(1, 3) {
			s += hx.Pick(g.r, []string{"'", "''", "\"", "`", "\\", "\\'", ";", "\n-- x", "\r\n", "\r", "/*", "*/"})
		}
		if g.r.Chance(1, 8) {
			// texts that begin and end with an apostrophe without being a quoted literal
			s = hx.Pick(g.r, []string{"'", "'it's'", "'a'b'", "'" + s + "'", "''"})
		}
		return s
	}
	return hx.Pick(g.r, []string{"a comment", "value", "x", "Hello world", "created by atlas"})
}

func quoteLit(s string) string { return "'" + strings.ReplaceAll(s, "'", "''") + "'" }

// lit is a string literal valid in the dialect: MySQL treats backslash as an escape character.
func (g *schemaGen) lit(s string) string {
	if g.cfg.Dialect == "mysql" {
		s = strings.ReplaceAll(s, "\\", "\\\\")
	}
	if g.cfg.Dialect == "postgres" && g.r.Chance(1, 6) {
		// PostgreSQL escape string syntax
		return "E'" + strings.ReplaceAll(strings.ReplaceAll(s, "\\", "\\\\"), "'", "\\'") + "'"
	}
	return quoteLit(s)
}

func (g *schemaGen) column(name string) *schema.Column {
	d := g.cfg.Dialect
	var c *schema.Column
	switch g.r.Intn(6) {
	case 0, 1:
		t := map[string]string{"mysql": "int", "postgres": "integer", "sqlite": "integer"}[d]
		c = schema.NewIntColumn(name, t)
		if g.r.Chance(1, 3) {
			c.SetDefault(&schema.Literal{V: fmt.Sprint(g.r.Intn(100))})
		}
	case 2, 3:
		if d == "mysql" {
			c = schema.NewStringColumn(name, "varchar", schema.StringSize(255))
		} else {
			c = schema.NewStringColumn(name, "text")
		}
		if g.r.Chance(1, 2) {
			c.SetDefault(&schema.Literal{V: g.lit(g.text())})
			if d != "sqlite" && g.r.Chance(1, 4) {
				// the unquoted form (what an HCL document gives: default = "text"); the planner quotes it - whatever
				// the text looks like (a letter and an apostrophe in front is no typed literal)
				c.SetDefault(&schema.Literal{V: hx.Pick(g.r, []string{g.text(), "n'importe quoi", "N'Djamena", "b'day", "x'mas", "X'", "it's", "0xyz", "e'x"})})
			}
			if d == "sqlite" && g.r.Chance(1, 3) {
				// the double-quoted form the SQLite inspector keeps for DEFAULT "..."; the planner re-quotes it
				txt := g.text()
				if g.r.Chance(1, 2) {
					// apostrophes in every arrangement: single, already doubled, both
					txt = hx.Pick(g.r, []string{"it's", "say ''hi''; it's --", "a''b'c", "''", "'", "x'); DROP TABLE t; --", "two '' and one ' (paren"})
				}
				c.SetDefault(&schema.Literal{V: strconv.Quote(txt)})
			}
		}
	case 4:
		t := map[string]string{"mysql": "bool", "postgres": "boolean", "sqlite": "boolean"}[d]
		c = schema.NewBoolColumn(name, t)
	default:
		if d == "sqlite" {
			c = schema.NewFloatColumn(name, "real")
		} else {
			vals := []string{"a", g.text(), g.text() + "2"}
			for _, v := range vals {
				if strings.ContainsAny(v, "'\\") {
					g.HasEnumQuote = true
				}
			}
			if d == "postgres" {
				c = schema.NewEnumColumn(name, schema.EnumName(g.ident("e_")), schema.EnumValues(vals...))
			} else {
				c = schema.NewEnumColumn(name, schema.EnumValues(vals...))
			}
		}
	}
	if g.r.Chance(1, 3) {
		c.SetNull(true)
	}
	if g.r.Chance(1, 3) && d != "sqlite" {
		c.SetComment(g.text())
	}
	return c
}

// table generates a table with 1..4 columns, optional pk, indexes, checks, comment.
func (g *schemaGen) table(s *schema.Schema) *schema.Table {
	t := schema.NewTable(g.ident("")).SetSchema(s)
	n := 1 + g.r.Intn(4)
	for i := 0; i < n; i++ {
		t.AddColumns(g.column(g.ident("")))
	}
	if g.r.Chance(2, 3) {
		t.SetPrimaryKey(schema.NewPrimaryKey(t.Columns[0]))
	}
	if g.r.Chance(1, 2) {
		idx := schema.NewIndex(g.ident("i_")).AddColumns(t.Columns[g.r.Intn(len(t.Columns))])
		if g.r.Chance(1, 3) {
			idx.SetUnique(true)
		}
		t.AddIndexes(idx)
	}
	if g.r.Chance(1, 3) {
		t.AddChecks(schema.NewCheck().SetName(g.ident("ck_")).SetExpr("(" + quoteIdentFor(g.cfg.Dialect, t.Columns[0].Name) + " <> " + g.lit(g.text()) + ")"))
	}
	if g.r.Chance(1, 3) && g.cfg.Dialect != "sqlite" {
		t.SetComment(g.text())
	}
	return t
}

func quoteIdentFor(d, n string) string {
	q := ownQuote[d]
	return q + strings.ReplaceAll(n, q, q+q) + q
}

// schemaWithTables generates a schema of n tables with random foreign keys between them.
func (g *schemaGen) schemaWithTables(name string, n int) *schema.Schema {
	s := schema.New(name)
	for i := 0; i < n; i++ {
		s.AddTables(g.table(s))
	}
	for _, t := range s.Tables {
		if g.r.Chance(1, 3) {
			ref := s.Tables[g.r.Intn(len(s.Tables))]
			if len(ref.Columns) == 0 {
				continue
			}
			fk := schema.NewForeignKey(g.ident("fk_")).SetTable(t).AddColumns(t.Columns[0]).SetRefTable(ref).AddRefColumns(ref.Columns[0])
			t.AddForeignKeys(fk)
		}
	}
	return s
}

// changesFor builds a change set over the schema: create all tables, plus some modifications/drops.
func (g *schemaGen) changesFor(s *schema.Schema) []schema.Change {
	var cs []schema.Change
	if g.cfg.Dialect == "postgres" {
		// stand-alone enum types created / dropped / extended beside the tables (their names are as nasty as
		// any other identifier)
		for k := 0; k < g.r.Intn(3); k++ {
			en := &schema.EnumType{T: g.ident("e_"), Values: []string{"a", "b"}, Schema: s}
			switch g.r.Intn(3) {
			case 0:
				cs = append(cs, &schema.AddObject{O: en})
			case 1:
				cs = append(cs, &schema.DropObject{O: en})
			default:
				cs = append(cs, &schema.ModifyObject{From: en, To: &schema.EnumType{T: en.T, Values: []string{"a", "b", "c"}, Schema: s}})
			}
		}
	}
	for _, t := range s.Tables {
		switch g.r.Intn(6) {
		case 0:
			cs = append(cs, &schema.DropTable{T: t})
		case 1:
			nc := g.column(g.ident("n_"))
			cs = append(cs, &schema.ModifyTable{T: t, Changes: []schema.Change{&schema.AddColumn{C: nc}}})
		case 2:
			if len(t.Indexes) > 0 {
				cs = append(cs, &schema.ModifyTable{T: t, Changes: []schema.Change{&schema.DropIndex{I: t.Indexes[0]}}})
				break
			}
			fallthrough
		default:
			cs = append(cs, &schema.AddTable{T: t})
		}
	}
	return cs
}
