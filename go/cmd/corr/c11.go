package main

// C11: pending-file computation. Exhaustive enumeration of directories (<= N versions, any subset
// of them checkpoints) x revision tables (any subset of versions recorded, last one fully or
// partially applied, optionally a revision whose file is missing) x exec order x first-run flags,
// through the real Executor.Pending and the Lean model `Atlas.Pending.pending`; a clause-by-clause
// monitor of the documented semantics is evaluated on the implementation's answer.

import (
	"context"
	"encoding/json"
	"errors"
	"fmt"
	"os"
	"sort"
	"strings"

	"ariga.io/atlas/sql/migrate"
	"verifharness/internal/hx"
)

func init() { commands["C11"] = runC11 }

type c11Case struct {
	Versions []string `json:"versions"`           // file versions, ascending by file name
	Ck       []bool   `json:"ck"`                 // checkpoint flags
	Revs     []string `json:"revs"`               // versions having a revision (ascending)
	Partial  bool     `json:"partial"`            // is the last revision partially applied
	Resolved bool     `json:"resolved,omitempty"` // ... and was it then marked by `migrate set` (Execute|Resolved)
	Cfg      MCfg     `json:"cfg"`
}

type c11Out struct {
	Err     string   `json:"err,omitempty"`
	Pending []string `json:"pending,omitempty"`
	OOO     []string `json:"ooo,omitempty"`
	BaseV   string   `json:"baseline_written,omitempty"`
}

func (c *c11Case) dir() []dirFile {
	var d []dirFile
	for i, v := range c.Versions {
		body := fmt.Sprintf("S%s_1;\nS%s_2;\n", v, v)
		if c.Ck[i] {
			// the directive is the first line, or stands behind another directive / an ordinary comment line of the header
			body = []string{"", "-- atlas:txmode none\n", "-- written by hand\n"}[i%3] + "-- atlas:checkpoint\n\n" + body
		}
		d = append(d, dirFile{fmt.Sprintf("%s_f.sql", v), body})
	}
	return d
}

func (c *c11Case) revs() []MRev {
	var out []MRev
	for i, v := range c.Revs {
		r := MRev{V: v, D: "f", Ty: 2, A: 2, T: 2, Ph: []string{}}
		if c.Partial && i == len(c.Revs)-1 {
			r.A = 1
			r.Ph = []string{"h1:x"}
			if c.Resolved {
				r.Ty = 6
			}
		}
		out = append(out, r)
	}
	return out
}

func runPendingImpl(c *c11Case) (*c11Out, []MFile, error) {
	dir, err := buildDir(c.dir())
	if err != nil {
		return nil, nil, err
	}
	mf, err := modelFiles(dir)
	if err != nil {
		return nil, nil, err
	}
	w := &recWorld{revs: map[string]*migrate.Revision{}, faults: map[int]bool{}}
	for _, r := range c.revs() {
		w.revs[r.V] = fromMRev(r)
	}
	opts := []migrate.ExecutorOption{migrate.WithExecOrder(orderOpt(c.Cfg.Order)), migrate.WithAllowDirty(c.Cfg.Dirty)}
	if c.Cfg.Baseline != "" {
		opts = append(opts, migrate.WithBaselineVersion(c.Cfg.Baseline))
	}
	out := &c11Out{}
	func() {
		defer func() {
			if p := recover(); p != nil {
				out.Err = "panic"
			}
		}()
		ex, err := migrate.NewExecutor(&recDriver{w: w, clean: c.Cfg.Clean}, dir, &recRRW{w}, opts...)
		if err != nil {
			out.Err = "other:" + err.Error()
			return
		}
		fs, err := ex.Pending(context.Background())
		if err != nil {
			out.Err = classify(err)
			var ne *migrate.HistoryNonLinearError
			if errors.As(err, &ne) {
				for _, f := range ne.OutOfOrder {
					out.OOO = append(out.OOO, f.Name())
				}
				for _, f := range ne.Pending {
					out.Pending = append(out.Pending, f.Name())
				}
			}
			return
		}
		for _, f := range fs {
			out.Pending = append(out.Pending, f.Name())
		}
	}()
	if len(c.Revs) == 0 {
		for v, r := range w.revs {
			if r.Type == migrate.RevisionTypeBaseline {
				out.BaseV = v
			}
		}
	}
	return out, mf, nil
}

func verOf(name string) string { return strings.SplitN(name, "_", 2)[0] }

// c11Monitor: the documented semantics, clause by clause, on an answer.
func c11Monitor(c0 *c11Case, o *c11Out) (bool, string, string) {
	// a partially applied revision that `migrate set` marked resolved counts as applied
	cc := *c0
	cc.Partial = c0.Partial && !c0.Resolved
	c := &cc
	if o.Err == "panic" {
		return false, "panic", "Pending panicked"
	}
	isCk := map[string]bool{}
	inDir := map[string]bool{}
	for i, v := range c.Versions {
		isCk[v] = c.Ck[i]
		inDir[v] = true
	}
	complete := map[string]bool{}
	hasRev := map[string]bool{}
	for i, v := range c.Revs {
		hasRev[v] = true
		complete[v] = !(c.Partial && i == len(c.Revs)-1)
	}
	res := append([]string{}, o.Pending...)
	vers := make([]string, len(res))
	for i, n := range res {
		vers[i] = verOf(n)
	}
	listed := o.Err == "" || o.Err == "non-linear"
	if listed {
		// never a fully applied version again
		for _, v := range append(append([]string{}, vers...), mapS(o.OOO, verOf)...) {
			if complete[v] {
				return false, "reapplies-applied-version", fmt.Sprintf("version %s is completely applied but pending=%v ooo=%v", v, res, o.OOO)
			}
			if !inDir[v] {
				return false, "unknown-file", v
			}
		}
	}
	if len(c.Revs) == 0 {
		// first run
		switch {
		case !c.Cfg.Clean && !c.Cfg.Dirty && c.Cfg.Baseline == "":
			if o.Err != "not-clean" {
				return false, "dirty-db-accepted", fmt.Sprintf("dirty database without flags: %+v", o)
			}
			return true, "", ""
		case c.Cfg.Baseline != "":
			found := false
			for i, v := range c.Versions {
				if v == c.Cfg.Baseline && !c.Ck[i] {
					found = true
				}
			}
			if !found {
				if o.Err != "baseline-not-found" {
					return false, "baseline-not-found-accepted", fmt.Sprintf("%+v", o)
				}
				return true, "", ""
			}
			var want []string
			for i, v := range c.Versions {
				if v > c.Cfg.Baseline && !c.Ck[i] {
					want = append(want, v)
				}
			}
			if o.BaseV != c.Cfg.Baseline {
				return false, "baseline-not-recorded", fmt.Sprintf("baseline revision %q written, want %q", o.BaseV, c.Cfg.Baseline)
			}
			return sameOrNoPending(want, vers, o, "baseline-skip-wrong")
		default:
			last := -1
			for i := range c.Versions {
				if c.Ck[i] {
					last = i
				}
			}
			var want []string
			if last == -1 {
				want = append(want, c.Versions...)
			} else {
				want = append(want, c.Versions[last])
				for i := last + 1; i < len(c.Versions); i++ {
					want = append(want, c.Versions[i])
				}
			}
			return sameOrNoPending(want, vers, o, "first-run-start-wrong")
		}
	}
	lastV := c.Revs[len(c.Revs)-1]
	firstV := c.Revs[0]
	if c.Partial && inDir[lastV] && isCk[lastV] {
		want := []string{lastV}
		for i, v := range c.Versions {
			if v > lastV && !c.Ck[i] {
				want = append(want, v)
			}
		}
		return sameOrNoPending(want, vers, o, "partial-checkpoint-wrong")
	}
	var migs []string
	for i, v := range c.Versions {
		if !c.Ck[i] {
			migs = append(migs, v)
		}
	}
	if len(migs) == 0 {
		if o.Err != "no-pending" {
			return false, "no-migrations-but-pending", fmt.Sprintf("%+v", o)
		}
		return true, "", ""
	}
	if c.Partial {
		found := false
		for _, v := range migs {
			if v == lastV {
				found = true
			}
		}
		if !found {
			if o.Err != "missing" {
				return false, "missing-partial-file-not-reported", fmt.Sprintf("partially applied %s has no file: %+v", lastV, o)
			}
			return true, "", ""
		}
	}
	var newer, ooo []string
	for _, v := range migs {
		switch {
		case v > lastV:
			newer = append(newer, v)
		case v == lastV:
		case v >= firstV && !hasRev[v]:
			ooo = append(ooo, v)
		}
	}
	tail := newer
	if c.Partial {
		tail = append([]string{lastV}, newer...)
	}
	// special case of the implementation: if no file is <= last at all, everything is pending.
	switch c.Cfg.Order {
	case "linear-skip":
		return sameOrNoPending(tail, vers, o, "linear-skip-wrong")
	case "non-linear":
		return sameOrNoPending(append(append([]string{}, ooo...), tail...), vers, o, "non-linear-wrong")
	default:
		if len(ooo) > 0 {
			if o.Err != "non-linear" || strings.Join(mapS(o.OOO, verOf), ",") != strings.Join(ooo, ",") || strings.Join(vers, ",") != strings.Join(tail, ",") {
				return false, "out-of-order-not-rejected", fmt.Sprintf("want non-linear error ooo=%v pending=%v, got %+v", ooo, tail, o)
			}
			return true, "", ""
		}
		return sameOrNoPending(tail, vers, o, "linear-wrong")
	}
}

func sameOrNoPending(want, got []string, o *c11Out, sig string) (bool, string, string) {
	if len(want) == 0 {
		if o.Err != "no-pending" {
			return false, sig, fmt.Sprintf("nothing should be pending, got %+v", o)
		}
		return true, "", ""
	}
	if o.Err != "" || strings.Join(want, ",") != strings.Join(got, ",") {
		return false, sig, fmt.Sprintf("want pending %v, got %+v", want, o)
	}
	return true, "", ""
}

func mapS(xs []string, f func(string) string) []string {
	out := make([]string, len(xs))
	for i, x := range xs {
		out[i] = f(x)
	}
	return out
}

func c11Cases(maxN int, withMissing bool) []c11Case {
	var out []c11Case
	all := []string{"1", "2", "3", "4", "5", "6"}
	for n := 0; n <= maxN; n++ {
		vs := all[:n]
		for ckm := 0; ckm < 1<<n; ckm++ {
			ck := make([]bool, n)
			for i := range ck {
				ck[i] = ckm&(1<<i) != 0
			}
			// first run: flags
			for _, cfg := range []MCfg{
				{Order: "linear", Clean: true}, {Order: "linear", Clean: false}, {Order: "linear", Clean: false, Dirty: true},
			} {
				out = append(out, c11Case{Versions: vs, Ck: ck, Cfg: cfg})
			}
			for _, b := range append(append([]string{}, vs...), "9") {
				for _, clean := range []bool{true, false} {
					out = append(out, c11Case{Versions: vs, Ck: ck, Cfg: MCfg{Order: "linear", Clean: clean, Baseline: b}})
				}
			}
			// histories: any subset of the versions (plus optionally "0" or "35": revisions without file)
			pool := append([]string{}, vs...)
			if withMissing {
				pool = append(pool, "0", "35")
			}
			sort.Strings(pool)
			m := len(pool)
			for rm := 1; rm < 1<<m; rm++ {
				var revs []string
				for i := 0; i < m; i++ {
					if rm&(1<<i) != 0 {
						revs = append(revs, pool[i])
					}
				}
				for _, partial := range []int{0, 1, 2} {
					for _, order := range []string{"linear", "linear-skip", "non-linear"} {
						out = append(out, c11Case{Versions: vs, Ck: ck, Revs: revs, Partial: partial > 0, Resolved: partial == 2, Cfg: MCfg{Order: order, Clean: true}})
					}
				}
			}
		}
	}
	return out
}

func runC11(e *Env) error {
	pool, err := hx.NewPool(e.Model, e.Workers)
	if err != nil {
		return err
	}
	defer pool.Close()
	var cases []c11Case
	if e.Replay != "" {
		var doc struct {
			Case struct {
				Case c11Case `json:"case"`
			} `json:"case"`
		}
		b, err := os.ReadFile(e.Replay)
		if err != nil {
			return err
		}
		if err := json.Unmarshal(b, &doc); err != nil {
			return err
		}
		cases = []c11Case{doc.Case.Case}
	} else {
		n := 4
		if e.Thorough() {
			n = 5
		}
		cases = c11Cases(n, true)
		e.Res.Exhaustive = true
		e.Res.Rule = fmt.Sprintf("exhaustive: directories of 0..%d versions x every checkpoint subset x {first run with clean/dirty/allow-dirty/baseline=each version or unknown} + {every non-empty subset of (versions + two versions without file) recorded, last revision complete, partial, or partial and marked resolved by `migrate set`} x {linear, linear-skip, non-linear}; non-trivial = at least one file and one revision or a first-run flag; distinct by the whole case", n)
	}
	parallel(e.Workers, len(cases), func(i int) {
		c := cases[i]
		impl, mf, err := runPendingImpl(&c)
		if err != nil {
			e.Res.Note("case error: %v", err)
			return
		}
		req := map[string]any{"op": "pending", "files": mf, "revs": c.revs(), "cfg": c.Cfg}
		if c.revs() == nil {
			req["revs"] = []MRev{}
		}
		var raw map[string]any
		raw, err = pool.Ask(req)
		if err != nil {
			e.Res.Note("model error: %v", err)
			return
		}
		model := &c11Out{}
		if s, ok := raw["err"].(string); ok {
			model.Err = s
		}
		for _, x := range anyList(raw["pending"]) {
			model.Pending = append(model.Pending, x)
		}
		for _, x := range anyList(raw["ooo"]) {
			model.OOO = append(model.OOO, x)
		}
		if bw, ok := raw["baseline_write"].(map[string]any); ok {
			model.BaseV, _ = bw["v"].(string)
		}
		nck := 0
		for _, b := range c.Ck {
			if b {
				nck++
			}
		}
		tag := "err:" + impl.Err
		if impl.Err == "" {
			tag = "ok"
		}
		e.Res.Count(hxJSON(c), len(c.Versions) > 0 && (len(c.Revs) > 0 || !c.Cfg.Clean || c.Cfg.Baseline != "" || nck > 0),
			tag, fmt.Sprintf("n:%d", len(c.Versions)), fmt.Sprintf("ck:%d", nck), "order:"+c.Cfg.Order, fmt.Sprintf("partial:%v", c.Partial), fmt.Sprintf("resolved:%v", c.Resolved))
		if len(c.Versions) >= 3 && len(c.Revs) >= 1 && nck >= 1 {
			e.Res.Sample(map[string]any{"case": c, "impl": impl}, 6)
		}
		// Executor.ExecuteTo(v) for every version of the directory and an unknown one (histories without a partially
		// applied revision: the fake partial hash of these cases cannot be resumed) vs the Lean model `executeTo`
		if !c.Partial {
			for _, v := range append(append([]string{}, c.Versions...), "zz9") {
				got := runExecuteToImpl(&c, v)
				if strings.HasPrefix(got, "harness:") {
					continue
				}
				treq := map[string]any{"op": "pending.to", "files": mf, "revs": req["revs"], "cfg": c.Cfg, "v": v}
				traw, terr := pool.Ask(treq)
				if terr != nil {
					continue
				}
				want := modelExecuteTo(traw)
				e.Res.Tag("execute-to:" + strings.SplitN(got, ":", 2)[0])
				if got != want {
					e.Res.Disagree()
					e.Res.Violate("no-failing-input-found", "corr-execute-to-mismatch", fmt.Sprintf("ExecuteTo(%q): implementation %s vs model %s on %s", v, got, want, hxJSON(c)), "correspondence Atlas.Pending.executeTo", map[string]any{"case": c, "v": v})
					break
				}
			}
		}
		okI, sig, what := c11Monitor(&c, impl)
		same := hxJSON(impl) == hxJSON(model)
		if !same {
			e.Res.Disagree()
		}
		replay := map[string]any{"case": c, "impl": impl, "model": model}
		switch {
		case !okI:
			e.Res.Violate("failing-input", sig, what+" case="+hxJSON(c), "Props.C11 / corr pending", replay)
		case !same:
			e.Res.Violate("no-failing-input-found", "corr-pending-mismatch", fmt.Sprintf("implementation %s vs model %s on %s", hxJSON(impl), hxJSON(model), hxJSON(c)), "correspondence Atlas.Pending.pending", replay)
		}
	})
	if e.Replay == "" && e.Atlas != "" {
		c11CLI(e, pool)
		c11CLIScripted(e, pool)
		c11CLIInterrupted(e, pool)
		c11CLIResumeCount(e, pool)
		c11PGClean(e, pool)
		c11MyClean(e, pool)
	}
	return nil
}

func anyList(v any) []string {
	xs, _ := v.([]any)
	out := []string{}
	for _, x := range xs {
		if s, ok := x.(string); ok {
			out = append(out, s)
		}
	}
	return out
}
