package main

// C08, consumer tier: "reported positions map to the right line of the file". Migration files with
// LF / CRLF / mixed line ends, blank lines, comment lines and multi-line statements are linted by the
// real `atlas migrate lint`; every destructive statement (DROP TABLE of a table created by an earlier
// file) must be reported at the byte offset where its text starts in the raw file and at the line
// (FileReport.Line) on which it starts.

import (
	"fmt"
	"os"
	"path/filepath"
	"strconv"
	"strings"
	"sync"

	"verifharness/internal/hx"
)

type c08LintCase struct {
	File  string   `json:"file"` // raw content of the linted file
	Drops []string `json:"drops"`
	EOL   string   `json:"eol"`
}

const c08LintFormat = `{{ range $f := .Files }}{{ range $r := $f.Reports }}{{ range $d := $r.Diagnostics }}DIAG {{ $f.Name }} {{ $d.Code }} {{ $d.Pos }} {{ $f.Line $d.Pos }}{{ "\n" }}{{ end }}{{ end }}{{ end }}`

func c08Lint(e *Env) {
	n := 40
	if e.Thorough() {
		n = 600
	}
	var mu sync.Mutex
	parallel(e.Workers, n, func(ci int) {
		r := hx.NewRand(e.Seed, fmt.Sprintf("c08lint-%d", ci))
		k := 3 + r.Intn(5)
		var init strings.Builder
		for t := 1; t <= k; t++ {
			fmt.Fprintf(&init, "CREATE TABLE t%d (id int, c int);\n", t)
		}
		eolKind := hx.Pick(r, []string{"lf", "crlf", "crlf", "mixed"})
		eol := func() string {
			switch eolKind {
			case "lf":
				return "\n"
			case "crlf":
				return "\r\n"
			}
			return hx.Pick(r, []string{"\n", "\r\n"})
		}
		var b strings.Builder
		type exp struct {
			table     string
			pos, line int
		}
		var exps []exp
		line := 1
		emit := func(l string) { b.WriteString(l); b.WriteString(eol()); line++ }
		dropped, added := 0, 0
		items := 6 + r.Intn(60)
		for it := 0; it < items || dropped == 0; it++ {
			switch r.Intn(7) {
			case 0:
				emit("")
			case 1:
				emit(fmt.Sprintf("-- note %d", it))
			case 2, 3:
				added++
				emit(fmt.Sprintf("ALTER TABLE t1 ADD COLUMN x%d int;", added)) // t1 is never dropped
			case 4:
				added++
				emit(fmt.Sprintf("CREATE TABLE u%d (", added))
				emit("  id int")
				emit(");")
			default:
				if dropped < k-1 && (it > items/2 || r.Chance(1, 3)) {
					dropped++
					t := fmt.Sprintf("t%d", k+1-dropped)
					if r.Chance(1, 3) {
						// (the comment quotes the statement it announces: a position is where the statement IS,
						// not where its text first occurs)
						emit("-- next: DROP TABLE " + t + "; (cleanup)")
					}
					// the statement need not start its line: indentation, a block comment or another statement in
					// front of it on the same line
					switch r.Intn(6) {
					case 0:
						b.WriteString("    ")
					case 1:
						b.WriteString("/* cleanup */ ")
					case 2:
						added++
						b.WriteString(fmt.Sprintf("ALTER TABLE t1 ADD COLUMN y%d int; ", added))
					}
					exps = append(exps, exp{t, b.Len(), line})
					if r.Chance(1, 4) {
						emit("DROP TABLE")
						emit("  " + t + ";")
					} else {
						emit("DROP TABLE " + t + ";")
					}
				}
			}
			if it > 400 {
				break
			}
		}
		raw := b.String()
		dir := filepath.Join(e.Work, fmt.Sprintf("c08lint-%d", ci))
		os.MkdirAll(dir, 0o755)
		defer os.RemoveAll(dir)
		c := c08LintCase{File: raw, EOL: eolKind}
		for _, x := range exps {
			c.Drops = append(c.Drops, fmt.Sprintf("%s@%d:L%d", x.table, x.pos, x.line))
		}
		if err := writeMigrationDir(filepath.Join(dir, "m"), []dirFile{{"1_init.sql", init.String()}, {"2_change.sql", raw}}); err != nil {
			return
		}
		o := runAtlas(e, dir, nil, "migrate", "lint", "--dir", "file://m", "--dev-url", "sqlite://dev?mode=memory", "--latest", "1", "--format", c08LintFormat)
		type diag struct {
			code      string
			pos, line int
		}
		var got []diag
		for _, l := range strings.Split(o.Stdout, "\n") {
			f := strings.Fields(l)
			if len(f) == 5 && f[0] == "DIAG" && f[1] == "2_change.sql" {
				p, _ := strconv.Atoi(f[3])
				ln, _ := strconv.Atoi(f[4])
				got = append(got, diag{f[2], p, ln})
			}
		}
		mu.Lock()
		defer mu.Unlock()
		e.Res.Count("c08lint:"+raw, len(exps) > 0, "lint-eol:"+eolKind, fmt.Sprintf("lint-drops:%d", min(len(exps), 3)))
		viol := func(sig, what string) {
			e.Res.Violate("failing-input", sig, what+fmt.Sprintf(" (line ends: %s; file %q)", eolKind, trunc(raw, 700)), "Props.C08 positions map to lines (migrate lint)", c)
		}
		var ds []diag
		for _, d := range got {
			if d.code == "DS102" {
				ds = append(ds, d)
			}
		}
		if len(ds) != len(exps) {
			if strings.Contains(o.Stderr+o.Stdout, "executing statement") || strings.Contains(o.Stderr, "no such table") {
				e.Res.Tag("lint-skipped:generator")
				return
			}
			viol("lint-diagnostics-missing", fmt.Sprintf("%d DROP TABLE statements of pre-existing tables, %d DS102 diagnostics; exit %d stderr=%s stdout=%s", len(exps), len(ds), o.Code, trunc(o.Stderr, 300), trunc(o.Stdout, 300)))
			return
		}
		for i, x := range exps {
			d := ds[i]
			if d.pos != x.pos || !strings.HasPrefix(raw[min(d.pos, len(raw)):], "DROP TABLE") {
				viol("lint-pos-not-at-statement", fmt.Sprintf("DROP TABLE %s starts at byte %d, diagnostic Pos=%d", x.table, x.pos, d.pos))
				return
			}
			if d.line != x.line {
				viol("lint-line-wrong", fmt.Sprintf("DROP TABLE %s starts on line %d (byte %d), migrate lint reports L%d", x.table, x.line, x.pos, d.line))
				return
			}
		}
	})
}
