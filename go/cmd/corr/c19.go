package main

// C19: excluded resources and skipped change kinds never reach a plan.
//  (1) path/filepath.Match vs the Lean glob matcher on a pattern x name grid;
//  (2) schema.ExcludeRealm vs the Lean model on realms x pattern sets (1-3 parts, wildcards, classes,
//      [type=...] selectors, malformed and over-long patterns), with a declarative reference of the
//      pattern semantics (the monitor) evaluated on the implementation's result;
//  (3) SchemaDiff of the three differs with DiffSkipChanges for subsets of skippable kinds: no skipped
//      kind at any nesting level (soundness) and everything else exactly as without skipping
//      (completeness), on base schemas x edit sets.

import (
	"encoding/json"
	"fmt"
	"os"
	"path/filepath"
	"reflect"
	"regexp"
	"sort"
	"strings"
	"sync"

	"ariga.io/atlas/sql/mysql"
	"ariga.io/atlas/sql/postgres"
	"ariga.io/atlas/sql/schema"
	"ariga.io/atlas/sql/sqlite"
	"verifharness/internal/hx"
)

func init() { commands["C19"] = runC19 }

type xIndex struct {
	Name string   `json:"name"`
	Cols []string `json:"cols"`
}
type xFK struct {
	Sym  string   `json:"sym"`
	Cols []string `json:"cols"`
}
type xTable struct {
	Name    string   `json:"name"`
	Columns []string `json:"columns"`
	Indexes []xIndex `json:"indexes"`
	FKs     []xFK    `json:"fks"`
	Checks  []string `json:"checks"`
}
type xView struct {
	Name    string   `json:"name"`
	Columns []string `json:"columns"`
}
type xSchema struct {
	Name   string   `json:"name"`
	Tables []xTable `json:"tables"`
	Views  []xView  `json:"views"`
}

type c19Case struct {
	Realm    []xSchema `json:"realm"`
	Patterns []string  `json:"patterns"`
}

func (c *c19Case) build() *schema.Realm {
	r := &schema.Realm{}
	for _, xs := range c.Realm {
		s := schema.New(xs.Name)
		for _, xt := range xs.Tables {
			t := schema.NewTable(xt.Name).SetSchema(s)
			cols := map[string]*schema.Column{}
			for _, cn := range xt.Columns {
				col := schema.NewIntColumn(cn, "int")
				cols[cn] = col
				t.AddColumns(col)
			}
			for _, xi := range xt.Indexes {
				idx := schema.NewIndex(xi.Name)
				for _, cn := range xi.Cols {
					idx.AddColumns(cols[cn])
				}
				t.AddIndexes(idx)
			}
			for _, xf := range xt.FKs {
				fk := schema.NewForeignKey(xf.Sym).SetTable(t).SetRefTable(t)
				for _, cn := range xf.Cols {
					fk.AddColumns(cols[cn])
					fk.AddRefColumns(cols[cn])
				}
				t.AddForeignKeys(fk)
			}
			for _, k := range xt.Checks {
				t.AddChecks(schema.NewCheck().SetName(k).SetExpr("1 = 1"))
			}
			s.AddTables(t)
		}
		for _, xv := range xs.Views {
			v := schema.NewView(xv.Name, "SELECT 1").SetSchema(s)
			for _, cn := range xv.Columns {
				v.AddColumns(schema.NewIntColumn(cn, "int"))
			}
			s.AddViews(v)
		}
		r.AddSchemas(s)
	}
	return r
}

func realmOf(r *schema.Realm) []xSchema {
	out := []xSchema{}
	for _, s := range r.Schemas {
		xs := xSchema{Name: s.Name, Tables: []xTable{}, Views: []xView{}}
		for _, t := range s.Tables {
			xt := xTable{Name: t.Name, Columns: []string{}, Indexes: []xIndex{}, FKs: []xFK{}, Checks: []string{}}
			for _, c := range t.Columns {
				xt.Columns = append(xt.Columns, c.Name)
			}
			for _, i := range t.Indexes {
				xi := xIndex{Name: i.Name, Cols: []string{}}
				for _, p := range i.Parts {
					if p.C != nil {
						xi.Cols = append(xi.Cols, p.C.Name)
					}
				}
				xt.Indexes = append(xt.Indexes, xi)
			}
			for _, f := range t.ForeignKeys {
				xf := xFK{Sym: f.Symbol, Cols: []string{}}
				for _, c := range f.Columns {
					xf.Cols = append(xf.Cols, c.Name)
				}
				xt.FKs = append(xt.FKs, xf)
			}
			for _, a := range t.Attrs {
				if k, ok := a.(*schema.Check); ok {
					xt.Checks = append(xt.Checks, k.Name)
				}
			}
			xs.Tables = append(xs.Tables, xt)
		}
		for _, v := range s.Views {
			xv := xView{Name: v.Name, Columns: []string{}}
			for _, c := range v.Columns {
				xv.Columns = append(xv.Columns, c.Name)
			}
			xs.Views = append(xs.Views, xv)
		}
		out = append(out, xs)
	}
	return out
}

var reSelCopy = regexp.MustCompile(`\[type=([a-z|_]+)+\]$`)

// selOf: pattern part -> (glob, allowed(type)).
func selOf(part string) (string, func(string) bool) {
	m := reSelCopy.FindStringSubmatch(part)
	if len(m) != 2 {
		return part, func(string) bool { return true }
	}
	types := strings.Split(m[1], "|")
	return strings.TrimSuffix(part, m[0]), func(t string) bool {
		for _, x := range types {
			if x == t {
				return true
			}
		}
		return false
	}
}

// c19Reference: the declarative semantics. A resource is excluded iff SOME pattern names it:
// pattern parts match the path (schema[.table|view[.child]]) with the selector of each part allowing
// the kind of the resource at that level; indexes/fks follow a column excluded by the same pattern.
// Returns the expected realm, or "" + error class when a pattern is malformed / too long.
func c19Reference(c *c19Case) ([]xSchema, string) {
	type pat struct{ parts []string }
	var pats []pat
	for _, p := range c.Patterns {
		parts := strings.Split(p, ".")
		pats = append(pats, pat{parts})
	}
	bad := false
	match := func(glob, name string) bool {
		m, err := filepath.Match(glob, name)
		if err != nil {
			bad = true
		}
		return m
	}
	var out []xSchema
	for _, s := range c.Realm {
		sExcluded := false
		// which patterns reach into this schema
		var inS []pat
		for _, p := range pats {
			g, ok := selOf(p.parts[0])
			if !ok("schema") {
				continue
			}
			if match(g, s.Name) {
				if len(p.parts) == 1 {
					sExcluded = true
					break // the implementation stops looking at this schema
				}
				inS = append(inS, p)
			}
		}
		if sExcluded {
			continue
		}
		ns := xSchema{Name: s.Name, Tables: []xTable{}, Views: []xView{}}
		for _, t := range s.Tables {
			tExcluded := false
			var inT []string
			for _, p := range inS {
				g, ok := selOf(p.parts[1])
				if ok("table") && match(g, t.Name) {
					if len(p.parts) == 2 {
						tExcluded = true
					} else {
						inT = append(inT, p.parts[2])
					}
				}
			}
			if tExcluded {
				continue
			}
			nt := xTable{Name: t.Name, Columns: []string{}, Indexes: []xIndex{}, FKs: []xFK{}, Checks: []string{}}
			colGone := map[string]bool{}
			idxGone, fkGone, ckGone := map[string]bool{}, map[string]bool{}, map[string]bool{}
			for _, child := range inT {
				g, ok := selOf(child)
				goneNow := map[string]bool{}
				if ok("column") {
					for _, cn := range t.Columns {
						if !colGone[cn] && match(g, cn) {
							goneNow[cn] = true
						}
					}
				}
				for cn := range goneNow {
					colGone[cn] = true
				}
				if ok("index") {
					for _, i := range t.Indexes {
						dep := false
						for _, cn := range i.Cols {
							if goneNow[cn] {
								dep = true
							}
						}
						if dep || match(g, i.Name) {
							idxGone[i.Name] = true
						}
					}
				}
				if ok("fk") {
					for _, f := range t.FKs {
						dep := false
						for _, cn := range f.Cols {
							if goneNow[cn] {
								dep = true
							}
						}
						if dep || match(g, f.Sym) {
							fkGone[f.Sym] = true
						}
					}
				}
				if ok("check") {
					for _, k := range t.Checks {
						if match(g, k) {
							ckGone[k] = true
						}
					}
				}
			}
			for _, cn := range t.Columns {
				if !colGone[cn] {
					nt.Columns = append(nt.Columns, cn)
				}
			}
			for _, i := range t.Indexes {
				if !idxGone[i.Name] {
					nt.Indexes = append(nt.Indexes, i)
				}
			}
			for _, f := range t.FKs {
				if !fkGone[f.Sym] {
					nt.FKs = append(nt.FKs, f)
				}
			}
			for _, k := range t.Checks {
				if !ckGone[k] {
					nt.Checks = append(nt.Checks, k)
				}
			}
			ns.Tables = append(ns.Tables, nt)
		}
		for _, v := range s.Views {
			vExcluded := false
			nv := xView{Name: v.Name, Columns: []string{}}
			gone := map[string]bool{}
			for _, p := range inS {
				g, ok := selOf(p.parts[1])
				if ok("view") && match(g, v.Name) {
					if len(p.parts) == 2 {
						vExcluded = true
					} else if cg, cok := selOf(p.parts[2]); cok("column") {
						for _, cn := range v.Columns {
							if match(cg, cn) {
								gone[cn] = true
							}
						}
					}
				}
			}
			if vExcluded {
				continue
			}
			for _, cn := range v.Columns {
				if !gone[cn] {
					nv.Columns = append(nv.Columns, cn)
				}
			}
			ns.Views = append(ns.Views, nv)
		}
		out = append(out, ns)
	}
	_ = bad
	if out == nil {
		out = []xSchema{}
	}
	return out, ""
}

func genC19(r *hx.Rand) c19Case {
	names := func(pool []string, max int) []string {
		k := r.Intn(max + 1)
		p := append([]string{}, pool...)
		hx.Shuffle(r, p)
		if k > len(p) {
			k = len(p)
		}
		return p[:k]
	}
	var c c19Case
	for _, sn := range names([]string{"main", "s1", "s2", "t1"}, 2) {
		s := xSchema{Name: sn, Tables: []xTable{}, Views: []xView{}}
		for _, tn := range names([]string{"t1", "t2", "users", "v1"}, 3) {
			t := xTable{Name: tn, Columns: names([]string{"c1", "c2", "id", "t1"}, 3), Indexes: []xIndex{}, FKs: []xFK{}, Checks: names([]string{"k1", "c1", "chk", ""}, 2)}
			if len(t.Columns) > 0 {
				for _, in := range names([]string{"i1", "i2", "c1"}, 2) {
					t.Indexes = append(t.Indexes, xIndex{in, []string{hx.Pick(r, t.Columns)}})
				}
				for _, fn := range names([]string{"f1", "fk2", "c2"}, 2) {
					t.FKs = append(t.FKs, xFK{fn, []string{hx.Pick(r, t.Columns)}})
				}
			}
			s.Tables = append(s.Tables, t)
		}
		for _, vn := range names([]string{"v1", "t1", "vv"}, 2) {
			s.Views = append(s.Views, xView{vn, names([]string{"c1", "c2", "x"}, 2)})
		}
		c.Realm = append(c.Realm, s)
	}
	if c.Realm == nil {
		c.Realm = []xSchema{}
	}
	part := func(level int) string {
		pool := []string{"*", "t*", "t[12]", "?1", "c[^2]", "c?", "*1", "[a-z]*", "main", "s1", "t1", "users", "c1", "i1", "f1", "k1", "v1", "id", "x*y", "\\t1", "[st]*"}
		g := hx.Pick(r, pool)
		if r.Chance(1, 3) {
			sels := [][]string{{"schema"}, {"table"}, {"view"}, {"table", "view"}, {"column"}, {"index"}, {"fk"}, {"check"}, {"column", "index"}, {"fk", "check", "column"}, {"function"}}
			g += "[type=" + strings.Join(hx.Pick(r, sels), "|") + "]"
		}
		if r.Chance(1, 25) {
			g = hx.Pick(r, []string{"c[", "[]", "t[1-", "a\\", "[^]"})
		}
		return g
	}
	np := 1 + r.Intn(3)
	for i := 0; i < np; i++ {
		k := 1 + r.Intn(3)
		if r.Chance(1, 30) {
			k = 4
		}
		ps := make([]string, k)
		for j := range ps {
			ps[j] = part(j)
		}
		c.Patterns = append(c.Patterns, strings.Join(ps, "."))
	}
	return c
}

// --- skip changes ---

type skipCase struct {
	Dialect string   `json:"dialect"`
	Seed    uint64   `json:"seed"`
	Skip    []string `json:"skip"`
}

var skippable = map[string]schema.Change{
	"DropTable": &schema.DropTable{}, "DropColumn": &schema.DropColumn{}, "DropIndex": &schema.DropIndex{}, "DropForeignKey": &schema.DropForeignKey{},
	"AddTable": &schema.AddTable{}, "AddColumn": &schema.AddColumn{}, "ModifyColumn": &schema.ModifyColumn{}, "AddIndex": &schema.AddIndex{},
	"ModifyTable": &schema.ModifyTable{}, "DropCheck": &schema.DropCheck{}, "AddForeignKey": &schema.AddForeignKey{}, "ModifyIndex": &schema.ModifyIndex{},
	"AddCheck": &schema.AddCheck{}, "ModifyCheck": &schema.ModifyCheck{}, "ModifyForeignKey": &schema.ModifyForeignKey{}, "DropAttr": &schema.DropAttr{}, "AddAttr": &schema.AddAttr{}, "ModifyAttr": &schema.ModifyAttr{},
	"RenameColumn": &schema.RenameColumn{}, "RenameIndex": &schema.RenameIndex{}, "DropPrimaryKey": &schema.DropPrimaryKey{}, "AddPrimaryKey": &schema.AddPrimaryKey{}, "ModifyPrimaryKey": &schema.ModifyPrimaryKey{},
	"AddSchema": &schema.AddSchema{}, "DropSchema": &schema.DropSchema{},
}

func differOf(d string) schema.Differ {
	switch d {
	case "mysql":
		return mysql.DefaultDiff
	case "postgres":
		return postgres.DefaultDiff
	}
	return sqlite.DefaultDiff
}

// editedPair: a schema and an edited deep copy (drops/adds/modifications of tables, columns, indexes, fks, checks).
func editedPair(r *hx.Rand, d string) (*schema.Schema, *schema.Schema) {
	mk := func(seed uint64) *schema.Schema {
		g := newSchemaGen(hx.NewRand(seed, "pair"), genCfg{Dialect: d, Nasty: 0})
		s := g.schemaWithTables("s", 3)
		// make sure tables have several columns and indexes so that consecutive changes of one kind occur
		for _, t := range s.Tables {
			for len(t.Columns) < 3 {
				t.AddColumns(g.column(g.ident("x_")))
			}
			t.AddIndexes(schema.NewIndex(g.ident("j_")).AddColumns(t.Columns[1]), schema.NewIndex(g.ident("k_")).AddColumns(t.Columns[2]))
		}
		return s
	}
	seed := r.Uint64()
	from, to := mk(seed), mk(seed)
	er := r.Fork("edits")
	// edits on `to`
	var kept []*schema.Table
	for _, t := range to.Tables {
		switch er.Intn(6) {
		case 0: // drop table
			continue
		case 1: // drop the last column, or the last two (and what hangs on them)
			for k := 0; k < 2 && len(t.Columns) > 1; k++ {
				c := t.Columns[len(t.Columns)-1]
				t.Columns = t.Columns[:len(t.Columns)-1]
				var idx []*schema.Index
				for _, i := range t.Indexes {
					use := false
					for _, p := range i.Parts {
						if p.C == c {
							use = true
						}
					}
					if !use {
						idx = append(idx, i)
					}
				}
				t.Indexes = idx
			}
		case 2: // drop indexes, fks, checks
			t.Indexes, t.ForeignKeys = nil, nil
			var attrs []schema.Attr
			for _, a := range t.Attrs {
				if _, ok := a.(*schema.Check); !ok {
					attrs = append(attrs, a)
				}
			}
			t.Attrs = attrs
		case 3: // add two columns and two indexes (consecutive changes of one kind), flip nullability
			ity := map[string]string{"mysql": "int", "postgres": "integer", "sqlite": "integer"}[d]
			nc, nc2 := schema.NewNullIntColumn("added_c", ity), schema.NewNullIntColumn("added_d", ity)
			t.AddColumns(nc, nc2)
			t.AddIndexes(schema.NewIndex("added_i").AddColumns(nc), schema.NewIndex("added_j").AddColumns(nc2))
			t.Columns[0].Type.Null = !t.Columns[0].Type.Null
		case 4: // modify what exists: foreign keys (other parent table / other action), indexes, checks, a default, the comment
			for _, fk := range t.ForeignKeys {
				switch er.Intn(3) {
				case 0:
					// same symbol, another parent table (one that has a first column to reference)
					for _, p := range to.Tables {
						if p != fk.RefTable && p != t && len(p.Columns) > 0 {
							fk.RefTable, fk.RefColumns = p, []*schema.Column{p.Columns[0]}
							break
						}
					}
				case 1:
					if fk.OnDelete == schema.Cascade {
						fk.OnDelete = schema.NoAction
					} else {
						fk.OnDelete = schema.Cascade
					}
				}
			}
			for _, ix := range t.Indexes {
				if er.Chance(1, 2) {
					ix.Unique = !ix.Unique
				}
			}
			for _, a := range t.Attrs {
				if ck, ok := a.(*schema.Check); ok && er.Chance(1, 2) {
					ck.Expr = "(" + ck.Expr + " OR 1 = 1)"
				}
			}
			if len(t.Columns) > 1 {
				t.Columns[1].Type.Null = !t.Columns[1].Type.Null
			}
			if d != "sqlite" {
				t.SetComment("changed comment")
			}
		}
		kept = append(kept, t)
	}
	to.Tables = kept
	if er.Chance(1, 2) {
		nt := schema.NewTable("added_t").SetSchema(to).AddColumns(schema.NewIntColumn("id", map[string]string{"mysql": "int", "postgres": "integer", "sqlite": "integer"}[d]))
		to.AddTables(nt)
	}
	// foreign keys pointing at dropped tables would dangle: remove them from `to`
	live := map[string]bool{}
	for _, t := range to.Tables {
		live[t.Name] = true
	}
	for _, t := range to.Tables {
		var fks []*schema.ForeignKey
		for _, fk := range t.ForeignKeys {
			if live[fk.RefTable.Name] {
				fks = append(fks, fk)
			}
		}
		t.ForeignKeys = fks
	}
	return from, to
}

func kindOf(c schema.Change) string {
	return strings.TrimPrefix(reflect.TypeOf(c).String(), "*schema.")
}

// flatLeaves: every change at every nesting level as "path/kind:object".
func flatLeaves(cs []schema.Change, prefix string, skipped map[string]bool, filter bool, out *[]string, found *[]string) {
	for _, c := range cs {
		k := kindOf(c)
		if skipped[k] {
			if filter {
				continue
			}
			*found = append(*found, prefix+k)
		}
		switch c := c.(type) {
		case *schema.ModifyTable:
			var sub []string
			flatLeaves(c.Changes, prefix+"ModifyTable("+c.T.Name+")/", skipped, filter, &sub, found)
			if filter && len(sub) == 0 {
				continue // an emptied ModifyTable is not reported
			}
			*out = append(*out, sub...)
		case *schema.ModifySchema:
			flatLeaves(c.Changes, prefix+"ModifySchema/", skipped, filter, out, found)
		default:
			*out = append(*out, prefix+k+":"+changeObj(c))
		}
	}
}

func changeObj(c schema.Change) string {
	switch c := c.(type) {
	case *schema.AddTable:
		return c.T.Name
	case *schema.DropTable:
		return c.T.Name
	case *schema.AddColumn:
		return c.C.Name
	case *schema.DropColumn:
		return c.C.Name
	case *schema.ModifyColumn:
		return c.To.Name + fmt.Sprintf("#%d", c.Change)
	case *schema.AddIndex:
		return c.I.Name
	case *schema.DropIndex:
		return c.I.Name
	case *schema.ModifyIndex:
		return c.To.Name
	case *schema.AddForeignKey:
		return c.F.Symbol
	case *schema.DropForeignKey:
		return c.F.Symbol
	case *schema.AddCheck:
		return c.C.Name
	case *schema.DropCheck:
		return c.C.Name
	}
	return ""
}

func runC19(e *Env) error {
	pool, err := hx.NewPool(e.Model, e.Workers)
	if err != nil {
		return err
	}
	defer pool.Close()
	if e.Replay != "" {
		var doc struct {
			Case struct {
				Case c19Case `json:"case"`
			} `json:"case"`
		}
		b, err := os.ReadFile(e.Replay)
		if err != nil {
			return err
		}
		if err := json.Unmarshal(b, &doc); err != nil {
			return err
		}
		c19One(e, pool, doc.Case.Case)
		return nil
	}
	r := hx.NewRand(e.Seed, "c19")
	// (1) glob grid
	alpha := []string{"a", "b", "1", "*", "?", "[", "]", "^", "-", "\\", "/"}
	var pats []string
	var rec func(cur string, d int)
	maxL := 3
	if e.Thorough() {
		maxL = 4
	}
	rec = func(cur string, d int) {
		pats = append(pats, cur)
		if d == maxL {
			return
		}
		for _, a := range alpha {
			rec(cur+a, d+1)
		}
	}
	rec("", 0)
	namesG := []string{"", "a", "b", "ab", "a1", "ba", "aab", "a/b", "1", "-", "^", "]", "a-b", "b1a"}
	type gjob struct{ p, n string }
	var gjobs []gjob
	for _, p := range pats {
		for _, n := range namesG {
			gjobs = append(gjobs, gjob{p, n})
		}
	}
	parallel(e.Workers, len(gjobs), func(i int) {
		j := gjobs[i]
		m, err := filepath.Match(j.p, j.n)
		want := map[string]any{"m": m}
		if err != nil {
			want = map[string]any{"err": "bad-pattern"}
		}
		got, aerr := pool.Ask(map[string]any{"op": "glob", "p": j.p, "n": j.n})
		if aerr != nil {
			e.Res.Note("model error: %v", aerr)
			return
		}
		delete(got, "id")
		e.Res.Count("glob:"+j.p+"\x00"+j.n, strings.ContainsAny(j.p, "*?[\\"), "glob")
		if hxJSON(want) != hxJSON(got) {
			e.Res.Disagree()
			e.Res.Violate("no-failing-input-found", "corr-glob-mismatch", fmt.Sprintf("filepath.Match(%q,%q) = %s, model %s", j.p, j.n, hxJSON(want), hxJSON(got)), "correspondence Atlas.Exclude.gmatch", map[string]any{"p": j.p, "n": j.n})
		}
	})
	// (2) exclude
	n := 6000
	if e.Thorough() {
		n = 150000
	}
	cases := make([]c19Case, n)
	for i := range cases {
		cases[i] = genC19(r)
	}
	parallel(e.Workers, len(cases), func(i int) { c19One(e, pool, cases[i]) })
	// (3) skip
	ns := 150
	if e.Thorough() {
		ns = 3000
	}
	core := []string{"DropTable", "DropColumn", "DropIndex", "DropForeignKey", "ModifyTable", "AddColumn"}
	var all []string
	for k := range skippable {
		all = append(all, k)
	}
	sort.Strings(all)
	var sjobs []skipCase
	for k := 0; k < ns; k++ {
		seed := r.Uint64()
		d := hx.Pick(r, []string{"sqlite", "mysql", "postgres"})
		if k < 64*2 || e.Thorough() && k%4 == 0 {
			// all subsets of the 6-kind core, cycling
			mask := k % 64
			var sk []string
			for b, kind := range core {
				if mask&(1<<b) != 0 {
					sk = append(sk, kind)
				}
			}
			sjobs = append(sjobs, skipCase{d, seed, sk})
		} else {
			var sk []string
			for _, kind := range all {
				if r.Chance(1, 4) {
					sk = append(sk, kind)
				}
			}
			sjobs = append(sjobs, skipCase{d, seed, sk})
		}
	}
	parallel(e.Workers, len(sjobs), func(i int) { c19Skip(e, sjobs[i]) })
	c19Drivers(e)
	c19CLI(e)
	c19Rebuild(e)
	c19NameClash(e)
	// (4) the nested clause over the differ model of C02: random catalogue edit sets x random skip lists
	{
		var smu sync.Mutex
		c02Skip(e, pool, func(kind, sig, what, chk string, rep any) {
			smu.Lock()
			e.Res.Violate(kind, sig, what, chk, rep)
			smu.Unlock()
		}, &smu)
	}
	e.Res.Rule = fmt.Sprintf("(1) filepath.Match vs model: all patterns of length <= %d over an 11-symbol alphabet x 14 names; (2) %d random realms (<=2 schemas, <=3 tables, columns/indexes/fks/checks/views sharing names across kinds) x 1-3 patterns of 1-3 parts (wildcards, classes, escapes, [type=..] selectors with alternatives, ~4%% malformed, ~3%% with 4 parts); (3) %d (schema, edited copy) pairs per run on sqlite/mysql/postgres x skip sets (all 64 subsets of a 6-kind core, then random subsets of all %d kinds); (4) random sets of 1-4 catalogue edits (C02) x random skip lists through the three real differs == the edits of the other kinds == model Atlas.Diff.schemaDiffSkip; non-trivial = pattern with a meta character / realm non-empty / skip set non-empty; distinct by the whole case", maxL, n, ns, len(all))
	return nil
}

func c19One(e *Env, pool *hx.Pool, c c19Case) {
	real := c.build()
	var implOut []xSchema
	implErr := ""
	func() {
		defer func() {
			if p := recover(); p != nil {
				implErr = "panic"
			}
		}()
		rr, err := schema.ExcludeRealm(real, c.Patterns)
		switch {
		case err == nil:
			implOut = realmOf(rr)
		case strings.Contains(err.Error(), "too many parts"):
			implErr = "too-many-parts"
		case strings.Contains(err.Error(), "syntax error in pattern"):
			implErr = "bad-pattern"
		default:
			implErr = "other:" + err.Error()
		}
	}()
	var globs [][]string
	for _, p := range c.Patterns {
		globs = append(globs, strings.Split(p, "."))
	}
	var model struct {
		Realm []xSchema `json:"realm"`
		Err   string    `json:"err"`
	}
	if err := pool.AskInto(map[string]any{"op": "exclude", "realm": c.Realm, "globs": globs}, &model); err != nil {
		e.Res.Note("model error: %v", err)
		return
	}
	tag := "excl:ok"
	if implErr != "" {
		tag = "excl:" + implErr
	}
	sel := "nosel"
	if strings.Contains(strings.Join(c.Patterns, " "), "[type=") {
		sel = "selector"
	}
	e.Res.Count(hxJSON(c), len(c.Realm) > 0, tag, sel)
	if len(c.Realm) > 0 && sel == "selector" {
		e.Res.Sample(map[string]any{"patterns": c.Patterns, "schemas": len(c.Realm)}, 5)
	}
	want, _ := c19Reference(&c)
	okI, sig, what := true, "", ""
	// is an error justified? only if some pattern has more than 3 parts, or some part is a malformed glob
	// for at least one name of the realm (the implementation evaluates globs lazily).
	tooLong, malformed := false, false
	var allNames []string
	for _, s := range c.Realm {
		allNames = append(allNames, s.Name)
		for _, t := range s.Tables {
			allNames = append(allNames, t.Name)
			allNames = append(allNames, t.Columns...)
			allNames = append(allNames, t.Checks...)
			for _, i := range t.Indexes {
				allNames = append(allNames, i.Name)
			}
			for _, f := range t.FKs {
				allNames = append(allNames, f.Sym)
			}
		}
		for _, v := range s.Views {
			allNames = append(allNames, v.Name)
			allNames = append(allNames, v.Columns...)
		}
	}
	for _, p := range c.Patterns {
		parts := strings.Split(p, ".")
		if len(parts) > 3 {
			tooLong = true
		}
		for _, part := range parts {
			g, _ := selOf(part)
			for _, n := range allNames {
				if _, err := filepath.Match(g, n); err != nil {
					malformed = true
				}
			}
		}
	}
	switch {
	case implErr == "panic":
		okI, sig, what = false, "exclude-panics", "ExcludeRealm panicked"
	case implErr == "too-many-parts" && !tooLong, implErr == "bad-pattern" && !malformed, strings.HasPrefix(implErr, "other:"):
		okI, sig, what = false, "valid-pattern-rejected", fmt.Sprintf("patterns %q rejected: %s", c.Patterns, implErr)
	case implErr == "" && hxJSON(want) != hxJSON(implOut):
		okI, sig, what = false, "exclusion-differs-from-reference", fmt.Sprintf("patterns %q on %s: got %s want %s", c.Patterns, trunc(hxJSON(c.Realm), 400), trunc(hxJSON(implOut), 400), trunc(hxJSON(want), 400))
	}
	if model.Realm == nil {
		model.Realm = []xSchema{}
	}
	if implOut == nil {
		implOut = []xSchema{}
	}
	same := implErr == model.Err && (implErr != "" || hxJSON(implOut) == hxJSON(model.Realm))
	if !same {
		e.Res.Disagree()
	}
	replay := map[string]any{"case": c, "impl": implOut, "impl_err": implErr, "model": model}
	switch {
	case !okI:
		e.Res.Violate("failing-input", sig, what, "Props.C19 / corr exclude", replay)
	case !same:
		e.Res.Violate("no-failing-input-found", "corr-exclude-mismatch", fmt.Sprintf("patterns %q: implementation (%s) %s vs model (%s) %s", c.Patterns, implErr, trunc(hxJSON(implOut), 300), model.Err, trunc(hxJSON(model.Realm), 300)), "correspondence Atlas.Exclude.excludeRealm", replay)
	}
}

// skipOpts: the same skip policy handed to the differ in different ways - one option holding every kind, one
// option per kind, one option followed by an empty one, two options holding a half each. The policy is the
// union of what the options name, however they are cut.
func skipOpts(skips []schema.Change, variant int) []schema.DiffOption {
	switch variant % 4 {
	case 1:
		var out []schema.DiffOption
		for _, k := range skips {
			out = append(out, schema.DiffSkipChanges(k))
		}
		return out
	case 2:
		return []schema.DiffOption{schema.DiffSkipChanges(skips...), schema.DiffSkipChanges()}
	case 3:
		h := len(skips) / 2
		return []schema.DiffOption{schema.DiffSkipChanges(skips[:h]...), schema.DiffSkipChanges(skips[h:]...)}
	}
	return []schema.DiffOption{schema.DiffSkipChanges(skips...)}
}

func c19Skip(e *Env, sc skipCase) {
	r := hx.NewRand(sc.Seed, "skip")
	from, to := editedPair(r, sc.Dialect)
	d := differOf(sc.Dialect)
	var skips []schema.Change
	skipped := map[string]bool{}
	for _, k := range sc.Skip {
		skips = append(skips, skippable[k])
		skipped[k] = true
	}
	full, err1 := d.SchemaDiff(from, to, schema.DiffNormalized())
	with, err2 := d.SchemaDiff(from, to, append([]schema.DiffOption{schema.DiffNormalized()}, skipOpts(skips, int(sc.Seed%4))...)...)
	e.Res.Count("skip:"+hxJSON(sc), len(sc.Skip) > 0, "skip:"+sc.Dialect, fmt.Sprintf("skipset:%d", len(sc.Skip)))
	if err1 != nil || err2 != nil {
		e.Res.Tag("skip:differ-error")
		return
	}
	var got, found, want, none []string
	flatLeaves(with, "", skipped, false, &got, &found)
	flatLeaves(full, "", skipped, true, &want, &none)
	replay := map[string]any{"skip_case": sc, "with_skip": got, "expected": want}
	if len(found) > 0 {
		e.Res.Violate("failing-input", "skipped-kind-in-change-set", fmt.Sprintf("%s: kinds %v are skipped but the change set contains %v", sc.Dialect, sc.Skip, found), "Props.C19.skip_sound", replay)
		return
	}
	if hxJSON(got) != hxJSON(want) {
		e.Res.Violate("failing-input", "skip-drops-or-adds-other-changes", fmt.Sprintf("%s skip=%v: got %v, expected (unskipped diff minus skipped kinds) %v", sc.Dialect, sc.Skip, got, want), "Props.C19.skip_complete", replay)
		return
	}
	// realm level: a schema that exists only in the desired realm (its tables are added), one that exists
	// only in the current realm (dropped), and the edited pair in between
	f2, t2 := editedPair(r.Fork("realm"), sc.Dialect)
	_, added := editedPair(r.Fork("added"), sc.Dialect)
	gone, _ := editedPair(r.Fork("gone"), sc.Dialect)
	added.Name, gone.Name = "s_added", "s_gone"
	fromR, toR := schema.NewRealm(f2, gone), schema.NewRealm(t2, added)
	rfull, err1 := d.RealmDiff(fromR, toR, schema.DiffNormalized())
	rwith, err2 := d.RealmDiff(fromR, toR, append([]schema.DiffOption{schema.DiffNormalized()}, skipOpts(skips, int(sc.Seed/4%4))...)...)
	if err1 != nil || err2 != nil {
		e.Res.Tag("skip:realm-differ-error")
		return
	}
	got, found, want, none = nil, nil, nil, nil
	flatLeaves(rwith, "", skipped, false, &got, &found)
	flatLeaves(rfull, "", skipped, true, &want, &none)
	replay = map[string]any{"skip_case": sc, "realm": true, "with_skip": got, "expected": want}
	if len(found) > 0 {
		e.Res.Violate("failing-input", "skipped-kind-in-change-set", fmt.Sprintf("%s RealmDiff (a schema only in the desired realm, one only in the current realm): kinds %v are skipped but the change set contains %v", sc.Dialect, sc.Skip, found), "Props.C19.skip_sound", replay)
		return
	}
	if hxJSON(got) != hxJSON(want) {
		e.Res.Violate("failing-input", "skip-drops-or-adds-other-changes", fmt.Sprintf("%s RealmDiff skip=%v: got %v, expected (unskipped diff minus skipped kinds) %v", sc.Dialect, sc.Skip, got, want), "Props.C19.skip_complete", replay)
	}
}
