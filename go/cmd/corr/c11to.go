package main

import (
	"context"
	"fmt"
	"regexp"
	"strings"

	"ariga.io/atlas/sql/migrate"
)

var reC11Stmt = regexp.MustCompile(`^S(\w+?)_\d+;?$`)

// runExecuteToImpl: the real Executor.ExecuteTo(v) on the case's directory and revision table with the recording
// driver (no faults): "ok:<files executed, in order>" or "err:<class>".
func runExecuteToImpl(c *c11Case, v string) string {
	dir, err := buildDir(c.dir())
	if err != nil {
		return "harness:" + err.Error()
	}
	w := &recWorld{revs: map[string]*migrate.Revision{}, faults: map[int]bool{}}
	for _, r := range c.revs() {
		w.revs[r.V] = fromMRev(r)
	}
	opts := []migrate.ExecutorOption{migrate.WithExecOrder(orderOpt(c.Cfg.Order)), migrate.WithAllowDirty(c.Cfg.Dirty)}
	if c.Cfg.Baseline != "" {
		opts = append(opts, migrate.WithBaselineVersion(c.Cfg.Baseline))
	}
	res := ""
	func() {
		defer func() {
			if p := recover(); p != nil {
				res = "err:panic"
			}
		}()
		ex, err := migrate.NewExecutor(&recDriver{w: w, clean: c.Cfg.Clean}, dir, &recRRW{w}, opts...)
		if err != nil {
			res = "harness:" + err.Error()
			return
		}
		xerr := ex.ExecuteTo(context.Background(), v)
		if xerr != nil {
			cl := classify(xerr)
			if strings.HasPrefix(cl, "other:") && strings.Contains(cl, "not found") {
				cl = "version-not-found"
			}
			res = "err:" + cl
			return
		}
		var files []string
		for _, call := range w.calls {
			if m := reC11Stmt.FindStringSubmatch(strings.TrimSpace(call)); m != nil {
				n := m[1] + "_f.sql"
				if len(files) == 0 || files[len(files)-1] != n {
					files = append(files, n)
				}
			}
		}
		res = "ok:" + strings.Join(files, ",")
	}()
	return res
}

// modelExecuteTo: the Lean model's answer in the same form.
func modelExecuteTo(raw map[string]any) string {
	if s, ok := raw["err"].(string); ok {
		return "err:" + s
	}
	return "ok:" + strings.Join(anyList(raw["files"]), ",")
}

var _ = fmt.Sprint
