package main

import (
	"context"
	"fmt"
	"strings"

	"ariga.io/atlas/sql/migrate"
	"ariga.io/atlas/sql/postgres"
	"ariga.io/atlas/sql/schema"
)

// c16Sequences: PostgreSQL serial columns - with the standard sequence name and with an inspected, non-standard
// one - changed to integer and back, added and dropped, under the empty and a custom qualifier in every plan
// mode: the sequence is a resource of the schema like a table - no statement (forward or reverse) names the
// schema itself, and under a custom qualifier every reference to the sequence carries exactly that qualifier.
func c16Sequences(e *Env) {
	for _, seqName := range []string{"", "legacy_ids"} {
		for _, q := range []string{"empty", "custom"} {
			for mode := 0; mode <= 4; mode++ {
				s := schema.New(markerSchema)
				serial := func() *schema.Column {
					return schema.NewColumn("sid").SetType(&postgres.SerialType{T: "serial", SequenceName: seqName})
				}
				integer := func() *schema.Column { return schema.NewIntColumn("sid", "integer") }
				t := schema.NewTable("TBLS").SetSchema(s).AddColumns(schema.NewIntColumn("id", "integer"), serial())
				sets := []struct {
					name    string
					changes []schema.Change
				}{
					{"serial -> integer", []schema.Change{&schema.ModifyTable{T: t, Changes: []schema.Change{&schema.ModifyColumn{From: serial(), To: integer(), Change: schema.ChangeType}}}}},
					{"integer -> serial", []schema.Change{&schema.ModifyTable{T: t, Changes: []schema.Change{&schema.ModifyColumn{From: integer(), To: serial(), Change: schema.ChangeType}}}}},
					{"add a serial column", []schema.Change{&schema.ModifyTable{T: t, Changes: []schema.Change{&schema.AddColumn{C: schema.NewColumn("sid2").SetType(&postgres.SerialType{T: "bigserial", SequenceName: seqName})}}}}},
					{"create the table", []schema.Change{&schema.AddTable{T: t}}},
				}
				seq := seqName
				if seq == "" {
					seq = "TBLS_sid_seq"
				}
				for _, set := range sets {
					id := fmt.Sprintf("postgres qualifier=%s mode=%d sequence %q: %s", q, mode, seqName, set.name)
					e.Res.Count("seq:"+id, true, "sequence-qualifier", "qual:"+q)
					qp := qualPtr(q)
					var plan *migrate.Plan
					var err error
					func() {
						defer func() {
							if p := recover(); p != nil {
								err = fmt.Errorf("panic: %v", p)
							}
						}()
						plan, err = postgres.DefaultPlan.PlanChanges(context.Background(), "p", set.changes, func(o *migrate.PlanOptions) { o.SchemaQualifier = qp; o.Mode = migrate.PlanMode(mode) })
					}()
					if err != nil {
						continue
					}
					var stmts []string
					for _, ch := range plan.Changes {
						stmts = append(stmts, ch.Cmd)
						rv, _ := ch.ReverseStmts()
						stmts = append(stmts, rv...)
					}
					rep := map[string]any{"case": id, "statements": stmts}
					for _, st := range stmts {
						if strings.Contains(st, markerSchema) {
							e.Res.Violate("failing-input", "schema-name-leaks", fmt.Sprintf("%s: a statement mentions the schema name: %s", id, trunc(st, 300)), "Props.C16.no_own_schema (sequences)", rep)
							break
						}
						if q == "custom" {
							bad := false
							rest := st
							for {
								i := strings.Index(rest, seq)
								if i < 0 {
									break
								}
								pre := rest[:i]
								if !strings.HasSuffix(pre, `"`+customQual+`"."`) && !strings.HasSuffix(pre, customQual+`.`) {
									bad = true
								}
								rest = rest[i+len(seq):]
							}
							if bad {
								e.Res.Violate("failing-input", "custom-qualifier-missing", fmt.Sprintf("%s: a statement refers to the sequence %s without the requested qualifier %s: %s", id, seq, customQual, trunc(st, 300)), "Props.C16.custom_used (sequences)", rep)
								break
							}
						}
					}
				}
			}
		}
	}
}
