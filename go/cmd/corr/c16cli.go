package main

import (
	"fmt"
	"os"
	"path/filepath"
	"strings"
)

// C16, CLI tier. The commands that print SQL for a connection bound to ONE schema (`schema inspect` and
// `schema diff` with the `sql` template function, with and without an indentation argument, and the default
// diff output) are run for MySQL and PostgreSQL through the connection-less fixture schemes of the verif
// build (verifmysql://, verifpg://: the real differ and planner over a fixed in-memory schema named like the
// marker). No statement may mention the schema's name, create / drop / alter a schema, or qualify a table;
// two connections bound to differently named schemas with the same content are in sync. A realm-bound
// connection, in contrast, qualifies every table.
func c16CLI(e *Env) {
	if e.Atlas == "" {
		return
	}
	dir := e.Work
	for _, sc := range []string{"verifmysql", "verifpg"} {
		q := map[string]string{"verifmysql": "`", "verifpg": "\""}[sc]
		judge := func(id string, o cliOut, wantTables ...string) {
			e.Res.Count("cli:"+sc+":"+id, true, "cli:"+sc)
			rep := map[string]any{"case": sc + " " + id}
			if o.Code != 0 {
				e.Res.Violate("failing-input", "cli-fails", fmt.Sprintf("%s %s: exit %d: %s", sc, id, o.Code, trunc(o.Stderr+o.Stdout, 300)), "Props.C16 CLI", rep)
				return
			}
			for _, t := range wantTables {
				if !strings.Contains(o.Stdout, q+t+q) {
					e.Res.Violate("no-failing-input-found", "cli-output-unexpected", fmt.Sprintf("%s %s: the output does not mention table %s: %s", sc, id, t, trunc(o.Stdout, 300)), "correspondence C16 CLI", rep)
					return
				}
			}
			for _, line := range strings.Split(o.Stdout, "\n") {
				if strings.HasPrefix(strings.TrimSpace(line), "--") {
					continue
				}
				switch {
				case strings.Contains(line, markerSchema) || strings.Contains(line, devSchema):
					e.Res.Violate("failing-input", "schema-name-leaks", fmt.Sprintf("%s %s: a statement printed for a schema-bound connection mentions the schema name: %s", sc, id, trunc(line, 300)), "Props.C16.no_own_schema (CLI)", rep)
					return
				case reSchemaStmt.MatchString(line):
					e.Res.Violate("failing-input", "schema-statement-in-scoped-plan", fmt.Sprintf("%s %s: a statement printed for a schema-bound connection creates/drops/alters a schema: %s", sc, id, trunc(line, 200)), "Props.C16.scope_rejects (CLI)", rep)
					return
				}
			}
		}
		bound := func(name, variant string) string {
			return fmt.Sprintf("%s://fixture/%s?variant=%s", sc, name, variant)
		}
		for fi, f := range []string{`{{ sql . }}`, `{{ sql . "  " }}`, `{{ sql . "" }}`, `{{ sql . "\t" }}`} {
			o := runAtlas(e, dir, nil, "schema", "inspect", "-u", bound(markerSchema, "1"), "--format", f)
			judge(fmt.Sprintf("schema inspect --format %q", f), o, "TBLA", "TBLB")
			o = runAtlas(e, dir, nil, "schema", "diff", "--from", bound(markerSchema, "1"), "--to", bound(markerSchema, "2"), "--format", f)
			judge(fmt.Sprintf("schema diff --format %q", f), o, "TBLA", "TBLC")
			o = runAtlas(e, dir, nil, "schema", "diff", "--from", bound(devSchema, "1"), "--to", bound(markerSchema, "2"), "--format", f)
			judge(fmt.Sprintf("schema diff (differently named schemas) --format %q", f), o, "TBLA", "TBLC")
			// the same with a dev connection that is bound to the realm (it is the one that plans the changes) or to
			// a third, differently named schema
			for _, dev := range []string{fmt.Sprintf("%s://fixture/?variant=1", sc), bound("third_sch_5c1d", "1")} {
				o = runAtlas(e, dir, nil, "schema", "diff", "--from", bound(devSchema, "1"), "--to", bound(markerSchema, "2"), "--dev-url", dev, "--format", f)
				judge(fmt.Sprintf("schema diff (differently named schemas, --dev-url %s) --format %q", dev, f), o, "TBLA", "TBLC")
				if o.Code == 0 && strings.Contains(o.Stdout, "third_sch_5c1d") {
					e.Res.Violate("failing-input", "schema-name-leaks", fmt.Sprintf("%s: `schema diff` of two schema-bound connections mentions the dev schema: %s", sc, trunc(o.Stdout, 300)), "Props.C16.no_own_schema (CLI)", map[string]any{"case": sc + " dev-url"})
				}
			}
			if fi == 0 {
				o = runAtlas(e, dir, nil, "schema", "diff", "--from", bound(markerSchema, "1"), "--to", bound(markerSchema, "2"))
				judge("schema diff (default output)", o, "TBLA", "TBLC")
				o = runAtlas(e, dir, nil, "schema", "diff", "--from", bound(devSchema, "2"), "--to", bound(markerSchema, "2"))
				judge("schema diff, same content under two schema names", o)
				if o.Code == 0 && !strings.Contains(o.Stdout, "synced") {
					e.Res.Violate("failing-input", "schema-name-leaks", fmt.Sprintf("%s: two schema-bound connections with the same tables under different schema names are not in sync: %s", sc, trunc(o.Stdout, 400)), "Props.C16.no_own_schema (CLI)", map[string]any{"case": sc + " in-sync"})
				}
			}
		}
		// `migrate diff` with a schema-bound dev connection: the written file is free of schema names – with and
		// without --schema – and --qualifier is honoured (and is the only qualifier) in both cases
		mdiff := func(k int, extra ...string) (cliOut, string) {
			md := fmt.Sprintf("c16m-%s-%d", sc, k)
			os.RemoveAll(filepath.Join(dir, md))
			args := append([]string{"migrate", "diff", "x", "--dir", "file://" + md, "--dev-url", bound(devSchema, "1"), "--to", bound(markerSchema, "2")}, extra...)
			o := runAtlas(e, dir, nil, args...)
			var text strings.Builder
			fs, _ := filepath.Glob(filepath.Join(dir, md, "*.sql"))
			for _, f := range fs {
				b, _ := os.ReadFile(f)
				text.Write(b)
			}
			os.RemoveAll(filepath.Join(dir, md))
			o.Stdout = text.String()
			return o, text.String()
		}
		o0, base := mdiff(0)
		judge("migrate diff (schema-bound dev)", o0, "TBLA", "TBLC")
		o1, withSchema := mdiff(1, "--schema", devSchema)
		judge("migrate diff --schema (schema-bound dev)", o1, "TBLA", "TBLC")
		if o0.Code == 0 && o1.Code == 0 && base != withSchema {
			e.Res.Violate("failing-input", "schema-flag-changes-plan", fmt.Sprintf("%s: `migrate diff` with a schema-bound dev connection writes another file when --schema names that same schema:\n%s\n-- vs --\n%s", sc, trunc(base, 300), trunc(withSchema, 300)), "Props.C16.no_own_schema (CLI)", map[string]any{"case": sc + " migrate diff --schema"})
		}
		const custom = "qq_7e1"
		o2, qual := mdiff(2, "--qualifier", custom)
		o3, qualSchema := mdiff(3, "--schema", devSchema, "--qualifier", custom)
		e.Res.Count("cli:"+sc+":migrate diff --qualifier", true, "cli:"+sc)
		for _, t := range []struct {
			o    cliOut
			text string
			id   string
		}{{o2, qual, "--qualifier"}, {o3, qualSchema, "--schema --qualifier"}} {
			switch {
			case t.o.Code != 0:
				e.Res.Violate("failing-input", "cli-fails", fmt.Sprintf("%s migrate diff %s: exit %d: %s", sc, t.id, t.o.Code, trunc(t.o.Stderr, 300)), "Props.C16 CLI", map[string]any{"case": sc + " migrate diff " + t.id})
			case !strings.Contains(t.text, q+custom+q+"."+q+"TBLC"+q) || strings.Contains(t.text, devSchema) || strings.Contains(t.text, markerSchema):
				e.Res.Violate("failing-input", "custom-qualifier-ignored", fmt.Sprintf("%s migrate diff %s %s: the tables of the written file are not qualified with it (and only it): %s", sc, t.id, custom, trunc(t.text, 400)), "Props.C16.custom_qualifier (CLI)", map[string]any{"case": sc + " migrate diff " + t.id})
			}
		}
		// `schema apply --dry-run` on a schema-bound connection: the printed plan is schema-agnostic; a desired
		// state that edits an attribute of the connected schema itself (comment / character set) cannot be planned
		// for "any tenant schema" - the command refuses, it never falls back to a plan that names the schema
		attr := map[string]string{"verifmysql": "&charset=latin1", "verifpg": "&comment=tenant"}[sc]
		for _, extra := range [][]string{nil, {"--format", `{{ range .Changes.Pending }}{{ println .Cmd }}{{ end }}`}} {
			args := append([]string{"schema", "apply", "--dry-run", "-u", bound(markerSchema, "1"), "--to", bound(markerSchema, "2")}, extra...)
			judge(fmt.Sprintf("schema apply --dry-run %v", extra), runAtlas(e, dir, nil, args...), "TBLA", "TBLC")
			for _, v := range []string{"1", "2"} {
				args = append([]string{"schema", "apply", "--dry-run", "-u", bound(markerSchema, "1"), "--to", bound(markerSchema, v) + attr}, extra...)
				o := runAtlas(e, dir, nil, args...)
				id := fmt.Sprintf("schema apply --dry-run %v, the desired schema (variant %s) has another %s", extra, v, strings.SplitN(attr[1:], "=", 2)[0])
				if o.Code == 0 && !strings.Contains(o.Stderr+o.Stdout, "Error:") {
					judge(id, o)
					e.Res.Violate("failing-input", "schema-change-in-scoped-plan", fmt.Sprintf("%s %s: not refused: %s", sc, id, trunc(o.Stdout, 300)), "Props.C16.scope_rejects (CLI)", map[string]any{"case": sc + " " + id})
				} else {
					e.Res.Count("cli:"+sc+":"+id, true, "cli:"+sc)
				}
			}
		}
		// a realm-bound connection: tables of the two schemas are told apart by their qualifier
		o := runAtlas(e, dir, nil, "schema", "inspect", "-u", fmt.Sprintf("%s://fixture/?variant=1&name=%s", sc, markerSchema), "--format", `{{ sql . "  " }}`)
		e.Res.Count("cli:"+sc+":realm", true, "cli:"+sc)
		if o.Code != 0 || !strings.Contains(o.Stdout, q+markerSchema+q+"."+q+"TBLA"+q) || !strings.Contains(o.Stdout, q+markerSchema+"_2"+q+"."+q+"TBLA"+q) {
			e.Res.Violate("failing-input", "realm-tables-not-qualified", fmt.Sprintf("%s: a realm-bound `schema inspect` does not qualify the tables of its two schemas (exit %d): %s", sc, o.Code, trunc(o.Stdout+o.Stderr, 400)), "Props.C16 CLI", map[string]any{"case": sc + " realm"})
		}
	}
}
