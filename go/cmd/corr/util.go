package main

import (
	"sync"
	"sync/atomic"

	"verifharness/internal/hx"
)

func hxJSON(v any) string { return hx.JSON(v) }

// parallel runs f(0..n-1) on w workers.
func parallel(w, n int, f func(i int)) {
	if w < 1 {
		w = 1
	}
	var next int64 = -1
	var wg sync.WaitGroup
	for k := 0; k < w; k++ {
		wg.Add(1)
		go func() {
			defer wg.Done()
			for {
				i := int(atomic.AddInt64(&next, 1))
				if i >= n {
					return
				}
				f(i)
			}
		}()
	}
	wg.Wait()
}
