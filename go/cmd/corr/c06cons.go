package main

import (
	"encoding/hex"
	"fmt"
	"os"
	"path/filepath"
	"strings"
	"verifharness/internal/hx"
)

// c06Consumers: every command that CONSUMES a migration directory validates it first – whichever flag the
// directory is given through (--dir, --url, --from, --to) and however it is addressed (relative URL, relative
// URL with a parent, absolute URL). The directory is written by `migrate diff`, then a statement is appended
// to its file without re-hashing: each command must refuse with the checksum error and must not act on the
// tampered content; on the untouched copy the same command succeeds.
func c06Consumers(e *Env, work string, pool *hx.Pool) {
	const schemaSQL = "CREATE TABLE users (id integer NOT NULL, name text NULL, PRIMARY KEY (id));\n"
	root := filepath.Join(work, "c06cons")
	os.RemoveAll(root)
	os.MkdirAll(filepath.Join(root, "sub"), 0o755)
	defer os.RemoveAll(root)
	os.WriteFile(filepath.Join(root, "schema.sql"), []byte(schemaSQL), 0o644)
	mk := func(rel string) bool {
		o := runAtlas(e, root, nil, "migrate", "diff", "first", "--dir", "file://"+rel, "--to", "file://schema.sql", "--dev-url", "sqlite://dev?mode=memory")
		return o.Code == 0
	}
	if !mk("good") || !mk("migs") || !mk("sub/migs") {
		e.Res.Note("c06Consumers: could not write the directories")
		return
	}
	tamper := func(rel string) {
		fs, _ := filepath.Glob(filepath.Join(root, rel, "*.sql"))
		for _, p := range fs {
			f, _ := os.OpenFile(p, os.O_APPEND|os.O_WRONLY, 0o644)
			f.WriteString("CREATE TABLE extra (id integer);\n")
			f.Close()
		}
	}
	tamper("migs")
	tamper("sub/migs")
	// a second kind of damage: the files are untouched, atlas.sum itself is inconsistent (an entry hash edited
	// under the old header; the header edited; a line without "h1:")
	sumTamper := func(rel, kind string) {
		p := filepath.Join(root, rel, "atlas.sum")
		b, err := os.ReadFile(p)
		if err != nil {
			return
		}
		ls := strings.Split(strings.TrimRight(string(b), "\n"), "\n")
		if len(ls) < 2 {
			return
		}
		flip := func(line string) string {
			r := []byte(line)
			k := len(r) - 5
			if r[k] == 'A' {
				r[k] = 'B'
			} else {
				r[k] = 'A'
			}
			return string(r)
		}
		switch kind {
		case "entry":
			ls[1] = flip(ls[1])
		case "header":
			ls[0] = flip(ls[0])
		case "format":
			ls[1] = strings.Replace(ls[1], " h1:", " ", 1)
		}
		os.WriteFile(p, []byte(strings.Join(ls, "\n")+"\n"), 0o644)
	}
	sumKinds := []string{"entry", "header", "format"}
	for _, k := range sumKinds {
		if mk("sum_" + k) {
			sumTamper("sum_"+k, k)
		}
	}
	abs := "file://" + filepath.Join(root, "migs")
	dev := "sqlite://dev?mode=memory"
	type cmd struct {
		name string
		args func(dir string, k int) []string
	}
	cmds := []cmd{
		{"migrate validate --dir", func(d string, k int) []string { return []string{"migrate", "validate", "--dir", d} }},
		{"migrate validate --dir --dev-url", func(d string, k int) []string {
			return []string{"migrate", "validate", "--dir", d, "--dev-url", dev}
		}},
		{"migrate apply --dir", func(d string, k int) []string {
			return []string{"migrate", "apply", "--dir", d, "--url", fmt.Sprintf("sqlite://apply%d.db", k)}
		}},
		{"migrate status --dir", func(d string, k int) []string {
			return []string{"migrate", "status", "--dir", d, "--url", fmt.Sprintf("sqlite://status%d.db", k)}
		}},
		{"migrate lint --dir", func(d string, k int) []string {
			return []string{"migrate", "lint", "--dir", d, "--dev-url", dev, "--latest", "1"}
		}},
		{"migrate diff --dir", func(d string, k int) []string {
			return []string{"migrate", "diff", "more", "--dir", d, "--to", "file://schema.sql", "--dev-url", dev}
		}},
		{"migrate diff --to <dir>", func(d string, k int) []string {
			return []string{"migrate", "diff", "more", "--dir", fmt.Sprintf("file://other%d", k), "--to", d, "--dev-url", dev}
		}},
		{"schema inspect --url <dir>", func(d string, k int) []string {
			return []string{"schema", "inspect", "--url", d, "--dev-url", dev}
		}},
		{"schema diff --from <dir>", func(d string, k int) []string {
			return []string{"schema", "diff", "--from", d, "--to", "file://schema.sql", "--dev-url", dev}
		}},
		{"schema diff --to <dir>", func(d string, k int) []string {
			return []string{"schema", "diff", "--from", "file://schema.sql", "--to", d, "--dev-url", dev}
		}},
		{"schema apply --to <dir>", func(d string, k int) []string {
			return []string{"schema", "apply", "--url", fmt.Sprintf("sqlite://live%d.db", k), "--to", d, "--dev-url", dev, "--auto-approve"}
		}},
	}
	// what the Lean model of Validate (Atlas.Hash.validate; Props.C06.validate_detects / sumfile_edit_detected) says
	// about each of the directories the commands are pointed at: the untouched one validates, every damaged one
	// does not - so a command that acts on a damaged directory acts on what the model refuses
	modelSays := func(rel string) string {
		var fs []c06File
		names, _ := filepath.Glob(filepath.Join(root, rel, "*.sql"))
		for _, p := range names {
			b, _ := os.ReadFile(p)
			fs = append(fs, c06File{filepath.Base(p), string(b)})
		}
		req := map[string]any{"op": "hash.validate", "files": hexFiles(fs)}
		if b, err := os.ReadFile(filepath.Join(root, rel, "atlas.sum")); err == nil {
			req["sum"] = hex.EncodeToString(b)
		}
		var out c06Out
		if err := pool.AskInto(req, &out); err != nil {
			return "model-error"
		}
		return out.Res
	}
	rels := []string{"migs", "sub/migs"}
	for _, k := range sumKinds {
		rels = append(rels, "sum_"+k)
	}
	if r := modelSays("good"); r != "ok" {
		e.Res.Disagree()
		e.Res.Violate("no-failing-input-found", "corr-hash-mismatch", "the model does not validate the untouched directory written by `migrate diff`: "+r, "correspondence Atlas.Hash.validate (consumers)", map[string]any{"case": "good"})
	}
	for _, rel := range rels {
		if r := modelSays(rel); r == "ok" {
			e.Res.Disagree()
			e.Res.Violate("no-failing-input-found", "corr-hash-mismatch", "the model validates the damaged directory "+rel, "correspondence Atlas.Hash.validate (consumers)", map[string]any{"case": rel})
		}
	}
	addrs := []struct{ name, good, bad string }{
		{"relative URL", "file://good", "file://migs"},
		{"relative URL with a parent", "file://good", "file://sub/migs"},
		{"absolute URL", "file://" + filepath.Join(root, "good"), abs},
	}
	for _, k := range sumKinds {
		addrs = append(addrs, struct{ name, good, bad string }{"relative URL, atlas.sum damaged (" + k + ")", "file://good", "file://sum_" + k})
	}
	k := 0
	for _, c := range cmds {
		for _, a := range addrs {
			k++
			id := fmt.Sprintf("%s, %s", c.name, a.name)
			e.Res.Count("cli-consumers:"+id, true, "cli-consumers")
			good := runAtlas(e, root, nil, c.args(a.good, 1000+k)...)
			if good.Code != 0 && !strings.HasPrefix(c.name, "migrate lint") {
				// the control: the command itself works on the untouched directory
				e.Res.Note("c06Consumers: control `%s` on the untouched directory fails: %s", id, trunc(good.Stderr+good.Stdout, 200))
				continue
			}
			bad := runAtlas(e, root, nil, c.args(a.bad, k)...)
			out := bad.Stderr + bad.Stdout
			acted := strings.Contains(out, "extra")
			if p := filepath.Join(root, fmt.Sprintf("live%d.db", k)); fileExists(p) {
				if rows, err := queryStrings(p, "SELECT name FROM sqlite_master WHERE name = 'extra'"); err == nil && len(rows) > 0 {
					acted = true
				}
			}
			if p := filepath.Join(root, fmt.Sprintf("apply%d.db", k)); fileExists(p) {
				if rows, err := queryStrings(p, "SELECT name FROM sqlite_master WHERE name = 'extra'"); err == nil && len(rows) > 0 {
					acted = true
				}
			}
			if bad.Code == 0 || !strings.Contains(out, "checksum") || acted {
				e.Res.Violate("failing-input", "consumer-skips-validation", fmt.Sprintf("`%s` (directory addressed by a %s: %s) on a directory whose file was edited after hashing: exit %d, acted on the edited content: %v, output: %s", c.name, a.name, a.bad, bad.Code, acted, trunc(out, 300)), "Props.C06 (every consumer validates first)", map[string]any{"command": c.name, "address": a.bad})
			}
		}
	}
}

func fileExists(p string) bool {
	_, err := os.Stat(p)
	return err == nil
}

// queryStrings runs a one-column query on a SQLite file.
func queryStrings(path, q string) ([]string, error) {
	db, err := openSQLite(path, false)
	if err != nil {
		return nil, err
	}
	defer db.Close()
	rows, err := db.Query(q)
	if err != nil {
		return nil, err
	}
	defer rows.Close()
	var out []string
	for rows.Next() {
		var s string
		if err := rows.Scan(&s); err != nil {
			return nil, err
		}
		out = append(out, s)
	}
	return out, rows.Err()
}
