package main

// A minimal in-memory stand-in for a PostgreSQL server, good enough for the REAL postgres driver of
// /repo (Open, InspectRealm / InspectSchema, RealmDiff, PlanChanges, ApplyChanges, Snapshot and the
// restore functions) to run against: it answers the catalogue queries of the inspector from its state
// (schemas, enum types, tables with one integer column) and changes the state on the DDL statements
// the planner emits. Queries are recognised by a distinctive fragment of their text; anything unknown is
// an error that is kept in the log.

import (
	"context"
	"database/sql/driver"
	"fmt"
	"io"
	"regexp"
	"sort"
	"strings"
	"sync"
)

type fakePG struct {
	mu      sync.Mutex
	schemas map[string]bool
	enums   map[string][]string // "schema.name" -> values
	tables  map[string]bool     // "schema.name"
	views   map[string]string   // "schema.name" -> the table ("schema.name") it selects from
	Execs   []string
	Unknown []string
	FailOn  string // an Exec whose text contains this fails (nothing changes)
}

func newFakePG() *fakePG {
	return &fakePG{schemas: map[string]bool{"public": true}, enums: map[string][]string{}, tables: map[string]bool{}, views: map[string]string{}}
}

// State renders the catalogue canonically.
func (f *fakePG) State() string {
	f.mu.Lock()
	defer f.mu.Unlock()
	var out []string
	for s := range f.schemas {
		out = append(out, "schema "+s)
	}
	for e, v := range f.enums {
		out = append(out, fmt.Sprintf("enum %s %v", e, v))
	}
	for t := range f.tables {
		out = append(out, "table "+t)
	}
	for v, t := range f.views {
		out = append(out, "view "+v+" on "+t)
	}
	sort.Strings(out)
	return strings.Join(out, "; ")
}

func (f *fakePG) Connect(context.Context) (driver.Conn, error) { return &fakePGConn{f}, nil }
func (f *fakePG) Driver() driver.Driver                        { return nil }

type fakePGConn struct{ f *fakePG }

func (c *fakePGConn) Prepare(string) (driver.Stmt, error) {
	return nil, fmt.Errorf("fakepg: prepared statements are not supported")
}
func (c *fakePGConn) Close() error              { return nil }
func (c *fakePGConn) Begin() (driver.Tx, error) { return fakePGTx{}, nil }

type fakePGTx struct{}

func (fakePGTx) Commit() error   { return nil }
func (fakePGTx) Rollback() error { return nil }

type fakeRows struct {
	cols []string
	data [][]driver.Value
	i    int
}

func (r *fakeRows) Columns() []string { return r.cols }
func (r *fakeRows) Close() error      { return nil }
func (r *fakeRows) Next(dest []driver.Value) error {
	if r.i >= len(r.data) {
		return io.EOF
	}
	copy(dest, r.data[r.i])
	r.i++
	return nil
}

func colsN(n int) []string {
	out := make([]string, n)
	for i := range out {
		out[i] = fmt.Sprintf("c%d", i)
	}
	return out
}

func argStrings(args []driver.NamedValue) []string {
	var out []string
	for _, a := range args {
		out = append(out, fmt.Sprint(a.Value))
	}
	return out
}

func inList(l []string, s string) bool {
	for _, x := range l {
		if x == s {
			return true
		}
	}
	return false
}

func (c *fakePGConn) QueryContext(_ context.Context, q string, args []driver.NamedValue) (driver.Rows, error) {
	f := c.f
	f.mu.Lock()
	defer f.mu.Unlock()
	as := argStrings(args)
	switch {
	case strings.Contains(q, "server_version_num"):
		return &fakeRows{cols: colsN(3), data: [][]driver.Value{{"150000", "heap", nil}}}, nil
	case strings.Contains(q, "set_config('search_path'"):
		if strings.Contains(q, "current_setting('search_path')") {
			return &fakeRows{cols: colsN(2), data: [][]driver.Value{{"", ""}}}, nil
		}
		return &fakeRows{cols: colsN(1), data: [][]driver.Value{{""}}}, nil
	case strings.Contains(q, "pg_catalog.pg_namespace ns"):
		var names []string
		for s := range f.schemas {
			if len(as) == 0 || inList(as, s) {
				names = append(names, s)
			}
		}
		sort.Strings(names)
		r := &fakeRows{cols: colsN(2)}
		for _, n := range names {
			r.data = append(r.data, []driver.Value{n, nil})
		}
		return r, nil
	case strings.Contains(q, "pg_enum e"):
		var keys []string
		for k := range f.enums {
			if inList(as, strings.SplitN(k, ".", 2)[0]) {
				keys = append(keys, k)
			}
		}
		sort.Strings(keys)
		r := &fakeRows{cols: colsN(4)}
		for i, k := range keys {
			p := strings.SplitN(k, ".", 2)
			for _, v := range f.enums[k] {
				r.data = append(r.data, []driver.Value{p[0], int64(16000 + i), p[1], v})
			}
		}
		return r, nil
	case strings.Contains(q, "INFORMATION_SCHEMA.TABLES AS t1"):
		var keys []string
		for k := range f.tables {
			p := strings.SplitN(k, ".", 2)
			nSchemas := 0
			for _, a := range as {
				if f.schemas[a] {
					nSchemas++
				}
			}
			if inList(as, p[0]) && (nSchemas == len(as) || inList(as, p[1])) {
				keys = append(keys, k)
			}
		}
		sort.Strings(keys)
		r := &fakeRows{cols: colsN(8)}
		for i, k := range keys {
			p := strings.SplitN(k, ".", 2)
			r.data = append(r.data, []driver.Value{int64(17000 + i), p[0], p[1], nil, nil, nil, nil, "{}"})
		}
		return r, nil
	case strings.Contains(q, `"information_schema"."columns" AS t1`):
		r := &fakeRows{cols: colsN(24)}
		if len(as) > 0 {
			var names []string
			for _, t := range as[1:] {
				if f.tables[as[0]+"."+t] {
					names = append(names, t)
				}
			}
			sort.Strings(names)
			for _, t := range names {
				r.data = append(r.data, []driver.Value{t, "id", "integer", "integer", "NO", nil, nil, int64(32), nil, int64(0), nil, nil, nil, "NO", nil, nil, nil, nil, nil, nil, "b", int64(0), int64(23), int64(1)})
			}
		}
		return r, nil
	case strings.Contains(q, "from pg_index i"), strings.Contains(q, "fk.constraint_name"), strings.Contains(q, "pg_constraint t1"):
		return &fakeRows{cols: colsN(1)}, nil
	}
	f.Unknown = append(f.Unknown, "query: "+strings.Join(strings.Fields(q), " "))
	return nil, fmt.Errorf("fakepg: unsupported query: %.80s", strings.Join(strings.Fields(q), " "))
}

var (
	rePGIdent        = `(?:"(\w+)"\.)?"(\w+)"`
	rePGCreateSchema = regexp.MustCompile(`(?i)^CREATE SCHEMA (?:IF NOT EXISTS )?"(\w+)"`)
	rePGDropSchema   = regexp.MustCompile(`(?i)^DROP SCHEMA (?:IF EXISTS )?"(\w+)"( CASCADE)?`)
	rePGCreateType   = regexp.MustCompile(`(?i)^CREATE TYPE ` + rePGIdent + ` AS ENUM \((.*)\)`)
	rePGDropType     = regexp.MustCompile(`(?i)^DROP TYPE (?:IF EXISTS )?` + rePGIdent)
	rePGCreateTable  = regexp.MustCompile(`(?i)^CREATE TABLE (?:IF NOT EXISTS )?` + rePGIdent)
	rePGDropTable    = regexp.MustCompile(`(?i)^DROP TABLE (?:IF EXISTS )?` + rePGIdent + `( CASCADE)?`)
	rePGCreateView   = regexp.MustCompile(`(?is)^CREATE VIEW ` + rePGIdent + ` AS .* FROM ` + rePGIdent)
)

type fakeResult struct{}

func (fakeResult) LastInsertId() (int64, error) { return 0, nil }
func (fakeResult) RowsAffected() (int64, error) { return 0, nil }

func (c *fakePGConn) ExecContext(_ context.Context, q string, _ []driver.NamedValue) (driver.Result, error) {
	f := c.f
	f.mu.Lock()
	defer f.mu.Unlock()
	q = strings.TrimSpace(q)
	f.Execs = append(f.Execs, q)
	if f.FailOn != "" && strings.Contains(q, f.FailOn) {
		return nil, fmt.Errorf("fakepg: statement fails: %.60s", q)
	}
	sch := func(s string) string {
		if s == "" {
			return "public"
		}
		return s
	}
	switch {
	case rePGCreateSchema.MatchString(q):
		m := rePGCreateSchema.FindStringSubmatch(q)
		if f.schemas[m[1]] && !strings.Contains(strings.ToUpper(q), "IF NOT EXISTS") {
			return nil, fmt.Errorf("fakepg: schema %q already exists", m[1])
		}
		f.schemas[m[1]] = true
	case rePGDropSchema.MatchString(q):
		m := rePGDropSchema.FindStringSubmatch(q)
		if !f.schemas[m[1]] {
			if strings.Contains(strings.ToUpper(q), "IF EXISTS") {
				return fakeResult{}, nil
			}
			return nil, fmt.Errorf("fakepg: schema %q does not exist", m[1])
		}
		holds := false
		for k := range f.tables {
			holds = holds || strings.HasPrefix(k, m[1]+".")
		}
		for k := range f.enums {
			holds = holds || strings.HasPrefix(k, m[1]+".")
		}
		if holds && m[2] == "" {
			return nil, fmt.Errorf("fakepg: cannot drop schema %q because other objects depend on it", m[1])
		}
		for k := range f.tables {
			if strings.HasPrefix(k, m[1]+".") {
				delete(f.tables, k)
			}
		}
		for k := range f.enums {
			if strings.HasPrefix(k, m[1]+".") {
				delete(f.enums, k)
			}
		}
		for k := range f.views {
			if strings.HasPrefix(k, m[1]+".") {
				delete(f.views, k)
			}
		}
		delete(f.schemas, m[1])
	case rePGCreateType.MatchString(q):
		m := rePGCreateType.FindStringSubmatch(q)
		if !f.schemas[sch(m[1])] {
			return nil, fmt.Errorf("fakepg: schema %q does not exist", sch(m[1]))
		}
		var vals []string
		for _, v := range strings.Split(m[3], ",") {
			vals = append(vals, strings.Trim(strings.TrimSpace(v), "'"))
		}
		f.enums[sch(m[1])+"."+m[2]] = vals
	case rePGDropType.MatchString(q):
		m := rePGDropType.FindStringSubmatch(q)
		delete(f.enums, sch(m[1])+"."+m[2])
	case rePGCreateTable.MatchString(q):
		m := rePGCreateTable.FindStringSubmatch(q)
		if !f.schemas[sch(m[1])] {
			return nil, fmt.Errorf("fakepg: schema %q does not exist", sch(m[1]))
		}
		f.tables[sch(m[1])+"."+m[2]] = true
	case rePGCreateView.MatchString(q):
		m := rePGCreateView.FindStringSubmatch(q)
		f.views[sch(m[1])+"."+m[2]] = sch(m[3]) + "." + m[4]
	case rePGDropTable.MatchString(q):
		m := rePGDropTable.FindStringSubmatch(q)
		t := sch(m[1]) + "." + m[2]
		for v, on := range f.views {
			if on == t {
				if m[3] == "" {
					return nil, fmt.Errorf("fakepg: cannot drop table %s because other objects depend on it (view %s)", t, v)
				}
				delete(f.views, v)
			}
		}
		delete(f.tables, t)
	default:
		f.Unknown = append(f.Unknown, "exec: "+q)
	}
	return fakeResult{}, nil
}
