package main

import (
	"context"
	"fmt"
	"strings"
	"sync"

	"ariga.io/atlas/sql/migrate"
	"verifharness/internal/hx"
)

// c17Graphs: the down direction over the foreign-key graph space of C04 (every directed graph with self loops
// on 1..3 tables x every split created / dropped / kept x kept->kept keys added or dropped) for the MySQL,
// PostgreSQL and TiDB planners. Whenever the plan is reported reversible, its commands are replayed on the
// reference catalogue (tables + foreign keys), then the reverse statements of its changes in reverse order:
// every one of them must be executable where it stands (no key to a table that does not exist yet, nothing
// created or added twice) and the catalogue must be the original one again.
func c17Graphs(e *Env, viol func(kind, sig, what, chk string, rep any), mu *sync.Mutex) {
	r := hx.NewRand(e.Seed, "c17graphs")
	var cases []c04Case
	for n := 1; n <= 3; n++ {
		for g := 0; g < 1<<(n*n); g++ {
			var edges []int
			for k := 0; k < n*n; k++ {
				if g&(1<<k) != 0 {
					edges = append(edges, k)
				}
			}
			nroles := 1
			for i := 0; i < n; i++ {
				nroles *= 3
			}
			for rm := 0; rm < nroles; rm++ {
				role := make([]int, n)
				x := rm
				for i := range role {
					role[i] = x % 3
					x /= 3
				}
				if n == 3 && !e.Thorough() && r.Intn(4) != 0 {
					continue // quick: a seeded quarter of the 3-table space
				}
				perm := make([]int, n)
				for i := range perm {
					perm[i] = i
				}
				if r.Chance(1, 2) {
					for i, j := 0, n-1; i < j; i, j = i+1, j-1 {
						perm[i], perm[j] = perm[j], perm[i]
					}
				}
				for _, d := range []string{"mysql", "postgres", "tidb"} {
					cases = append(cases, c04Case{N: n, Edges: edges, Role: role, KeptAdd: r.Chance(1, 2), Perm: perm, Dialect: d})
				}
			}
		}
	}
	parallel(e.Workers, len(cases), func(i int) {
		c := cases[i]
		changes, _, ok := c.build()
		if !ok {
			return
		}
		pl := c04Planner(c.Dialect)
		if pl == nil {
			return
		}
		var plan *migrate.Plan
		func() {
			defer func() { recover() }()
			plan, _ = pl.PlanChanges(context.Background(), "p", changes)
		}()
		if plan == nil || len(plan.Changes) == 0 {
			return
		}
		allRev := true
		for _, ch := range plan.Changes {
			if ch.Reverse == nil {
				allRev = false
			}
		}
		mu.Lock()
		e.Res.Count("graph-down/"+hxJSON(c), plan.Reversible, "graph-down", "dialect:"+c.Dialect, fmt.Sprintf("reversible:%v", plan.Reversible))
		mu.Unlock()
		if !plan.Reversible || !allRev {
			return // the flag itself is judged by c17Flags
		}
		cat, _, _ := c.catalogue()
		before := cat.String()
		var up []string
		for _, ch := range plan.Changes {
			up = append(up, ch.Cmd)
		}
		for k, st := range up {
			if sig, _ := cat.apply(k, st, up); sig != "" {
				return // the up direction is C04's business
			}
		}
		var down []string
		for k := len(plan.Changes) - 1; k >= 0; k-- {
			rs, err := plan.Changes[k].ReverseStmts()
			if err != nil {
				return
			}
			down = append(down, rs...)
		}
		rep := map[string]any{"case": c, "up": up, "down": down}
		for k, st := range down {
			if sig, what := cat.apply(k, st, down); sig != "" {
				viol("failing-input", "down-not-executable", fmt.Sprintf("%s: the plan is reported reversible, but its reverse statements cannot run in reverse order: %s (%s); up: %s; down: %s", hxJSON(c), what, sig, trunc(strings.Join(up, "; "), 500), trunc(strings.Join(down, "; "), 700)), "Props.C17 reverse statements undo the plan (foreign-key graphs)", rep)
				return
			}
		}
		if after := cat.String(); after != before {
			// known finding: a dropped table of a detached cycle that also references ITSELF gets its self reference
			// neither from the reverse of its DROP TABLE (planned from a copy without foreign keys) nor from the
			// reverse of the ALTER that dropped its other keys
			orig, _, _ := c.catalogue()
			onlySelf := len(cat.tables) == len(orig.tables)
			for key, f := range orig.fks {
				if _, ok := cat.fks[key]; !ok && f.from != f.ref {
					onlySelf = false
				}
			}
			for key := range cat.fks {
				if _, ok := orig.fks[key]; !ok {
					onlySelf = false
				}
			}
			if onlySelf {
				viol("failing-input", "down-loses-self-reference-of-detached-drop", fmt.Sprintf("%s: after up and down the catalogue is {%s}, it was {%s}; down: %s", hxJSON(c), after, before, trunc(strings.Join(down, "; "), 700)), "Props.C17 reverse statements undo the plan (foreign-key graphs)", rep)
				return
			}
			viol("failing-input", "down-does-not-restore", fmt.Sprintf("%s: after up and down the catalogue is {%s}, it was {%s}; down: %s", hxJSON(c), after, before, trunc(strings.Join(down, "; "), 700)), "Props.C17 reverse statements undo the plan (foreign-key graphs)", rep)
		}
	})
}
