package main

// C20: outputs are deterministic. For every generated case (seed) all observables - plan statements
// of the three planners (incl. foreign-key cycles and several foreign keys to one parent), the
// DefaultFormatter file, MarshalHCL of the three dialects, HashFile.MarshalText of a MemDir - are
// produced repeatedly in one process, concurrently in goroutines (the harness is built with -race for
// this property), and in fresh processes; all digests must be identical, earlier results must not be
// affected by later calls (aliasing), and permuting the declaration order of the HCL source may only
// permute independent statements. The order-related pure parts are proved in Props/C20.lean; the
// model's `hash.sum` answer is compared with the implementation for permuted directory listings.

import (
	"bufio"
	"context"
	"crypto/sha256"
	"encoding/hex"
	"fmt"
	"github.com/hashicorp/hcl/v2/hclparse"
	"os"
	"os/exec"
	"regexp"
	"sort"
	"strconv"
	"strings"
	"sync"

	"ariga.io/atlas/sql/migrate"
	"ariga.io/atlas/sql/mysql"
	"ariga.io/atlas/sql/postgres"
	"ariga.io/atlas/sql/schema"
	"ariga.io/atlas/sql/sqlite"
	"verifharness/internal/hx"
)

func init() { commands["C20"] = runC20 }

// c20Schema builds a schema with the shapes that exercise map iteration: several fks to one parent,
// fks to distinct parents, optional cycle.
func c20Schema(seed uint64, d string) (*schema.Schema, []schema.Change) {
	r := hx.NewRand(seed, "c20-"+d)
	g := newSchemaGen(r, genCfg{Dialect: d, Nasty: 0})
	n := 3 + r.Intn(5)
	s := g.schemaWithTables("s", n)
	ity := map[string]string{"mysql": "int", "postgres": "integer", "sqlite": "integer"}[d]
	// extra fks: two to the same parent, one to another
	for k := 0; k < 2+r.Intn(3); k++ {
		t := s.Tables[r.Intn(n)]
		p1, p2 := s.Tables[r.Intn(n)], s.Tables[r.Intn(n)]
		c1, c2, c3 := schema.NewNullIntColumn(g.ident("r_"), ity), schema.NewNullIntColumn(g.ident("r_"), ity), schema.NewNullIntColumn(g.ident("r_"), ity)
		t.AddColumns(c1, c2, c3)
		mk := func(c *schema.Column, p *schema.Table) {
			if len(p.Columns) > 0 {
				t.AddForeignKeys(schema.NewForeignKey(g.ident("fk_")).SetTable(t).AddColumns(c).SetRefTable(p).AddRefColumns(p.Columns[0]))
			}
		}
		mk(c1, p1)
		mk(c2, p1)
		mk(c3, p2)
	}
	if d != "sqlite" {
		// tables whose names differ only in letter case (distinct tables in MySQL on a case-sensitive file
		// system and in PostgreSQL), each referring to another parent
		for k, nm := range []string{"Case_Twin", "case_twin", "CASE_TWIN", "Case_twin"}[:2+r.Intn(3)] {
			t := schema.NewTable(nm).SetSchema(s)
			id, ref := schema.NewIntColumn("id", ity), schema.NewNullIntColumn("ref", ity)
			t.AddColumns(id, ref).SetPrimaryKey(schema.NewPrimaryKey(id))
			p := s.Tables[(k*7+int(seed%5))%n]
			if len(p.Columns) > 0 {
				t.AddForeignKeys(schema.NewForeignKey(fmt.Sprintf("fk_twin_%d", k)).SetTable(t).AddColumns(ref).SetRefTable(p).AddRefColumns(p.Columns[0]))
			}
			s.AddTables(t)
		}
	}
	var cs []schema.Change
	for _, t := range s.Tables {
		cs = append(cs, &schema.AddTable{T: t})
	}
	return s, cs
}

// c20HCLPlan: a document exercising many attributes per block -> EvalHCLBytes -> RealmDiff from an empty
// realm -> PlanChanges; returns the planned statements (or the error text).
func c20HCLPlan(d string) (doc string, run func() string) {
	da := c15Dialects()[map[string]int{"mysql": 0, "postgres": 1, "sqlite": 2}[d]]
	one := schema.New(da.schema)
	for _, t := range c15AttrTables(&da, hx.NewRand(7, "c20-hclplan-"+d)) {
		t.Schema = one
		one.Tables = append(one.Tables, t)
	}
	if d == "postgres" {
		// several enum types in one schema, used by one table
		et := schema.NewTable("attrs_enums").SetSchema(one).AddColumns(schema.NewIntColumn("id", "integer"))
		for _, n := range []string{"zeta", "alpha", "mood", "Beta", "kind", "state"} {
			en := &schema.EnumType{T: n, Values: []string{"a", "b"}, Schema: one}
			one.AddObjects(en)
			et.AddColumns(schema.NewColumn("c_" + n).SetType(en))
		}
		one.Tables = append(one.Tables, et)
	}
	b, err := da.marshal(one)
	if err != nil {
		return "", func() string { return "marshal: " + err.Error() }
	}
	doc = string(b)
	if d == "mysql" {
		// table options the marshaller does not write (see the C15 known finding), several at once
		doc = strings.Replace(doc, "table \"attrs_indexes\" {\n", "table \"attrs_indexes\" {\n  auto_increment = 1000\n  engine = MyISAM\n", 1)
	}
	pl, _, _ := plannerOf(d)
	return doc, func() (out string) {
		defer func() {
			if p := recover(); p != nil {
				out = fmt.Sprintf("panic: %v", p)
			}
		}()
		var rl schema.Realm
		if err := da.eval([]byte(doc), &rl); err != nil {
			return "eval: " + err.Error()
		}
		cs, err := da.differ.RealmDiff(schema.NewRealm(schema.New(da.schema)), &rl)
		if err != nil {
			return "diff: " + err.Error()
		}
		plan, err := pl.PlanChanges(context.Background(), "p", cs)
		if err != nil {
			return "plan: " + err.Error()
		}
		var sb strings.Builder
		for _, c := range plan.Changes {
			sb.WriteString(c.Cmd + ";\n")
		}
		return sb.String()
	}
}

// c20ModifySet: a ModifyTable that drops a column together with the index and the foreign key on it and adds
// another column (the planners drop what the column drop implies).
func c20ModifySet(d string) []schema.Change {
	ity := map[string]string{"mysql": "int", "postgres": "integer"}[d]
	s := schema.New("s")
	p := schema.NewTable("parent").SetSchema(s).AddColumns(schema.NewIntColumn("id", ity))
	p.SetPrimaryKey(schema.NewPrimaryKey(p.Columns[0]))
	t := schema.NewTable("users").SetSchema(s)
	id, nick, spouse := schema.NewIntColumn("id", ity), schema.NewNullIntColumn("nick", ity), schema.NewNullIntColumn("spouse_id", ity)
	t.AddColumns(id, nick, spouse).SetPrimaryKey(schema.NewPrimaryKey(id))
	ix := schema.NewIndex("users_spouse").SetTable(t).AddColumns(spouse)
	ix2 := schema.NewIndex("users_nick").SetTable(t).AddColumns(nick)
	fk := schema.NewForeignKey("users_spouse_fk").SetTable(t).AddColumns(spouse).SetRefTable(p).AddRefColumns(p.Columns[0])
	t.AddIndexes(ix, ix2).AddForeignKeys(fk)
	return []schema.Change{&schema.ModifyTable{T: t, Changes: []schema.Change{
		&schema.DropIndex{I: ix2}, &schema.DropColumn{C: nick}, &schema.DropForeignKey{F: fk}, &schema.DropIndex{I: ix}, &schema.DropColumn{C: spouse},
		&schema.AddColumn{C: schema.NewNullIntColumn("name", ity)},
	}}}
}

// c20CycleSets: tables that refer to each other in a cycle - dropped together, and created together (the
// planner detaches the references; it must not do so in the caller's tables).
func c20CycleSets(d string) map[string][]schema.Change {
	ity := map[string]string{"mysql": "int", "postgres": "integer"}[d]
	mk := func() (*schema.Table, *schema.Table, *schema.Table) {
		s := schema.New("s")
		var ts []*schema.Table
		for _, n := range []string{"users", "workplaces", "teams"} {
			t := schema.NewTable(n).SetSchema(s)
			id, ref := schema.NewIntColumn("id", ity), schema.NewNullIntColumn("ref", ity)
			t.AddColumns(id, ref).SetPrimaryKey(schema.NewPrimaryKey(id))
			ts = append(ts, t)
		}
		for i, t := range ts {
			p := ts[(i+1)%len(ts)]
			t.AddForeignKeys(schema.NewForeignKey("fk_" + t.Name).SetTable(t).AddColumns(t.Columns[1]).SetRefTable(p).AddRefColumns(p.Columns[0]))
		}
		return ts[0], ts[1], ts[2]
	}
	a, b, c := mk()
	x, y, z := mk()
	return map[string][]schema.Change{
		"drop a cycle":   {&schema.DropTable{T: a}, &schema.DropTable{T: b}, &schema.DropTable{T: c}},
		"create a cycle": {&schema.AddTable{T: x}, &schema.AddTable{T: y}, &schema.AddTable{T: z}},
	}
}

// c20Digest computes every observable of the case as one string.
func c20Digest(seed uint64) string {
	var b strings.Builder
	for _, d := range []string{"mysql", "postgres", "sqlite"} {
		s, cs := c20Schema(seed, d)
		pl, _, _ := plannerOf(d)
		func() {
			defer func() {
				if p := recover(); p != nil {
					fmt.Fprintf(&b, "%s plan panic %v\n", d, p)
				}
			}()
			plan, err := pl.PlanChanges(context.Background(), "p", cs)
			if err != nil {
				fmt.Fprintf(&b, "%s plan error %v\n", d, err)
				return
			}
			for _, c := range plan.Changes {
				b.WriteString(c.Cmd + ";\n")
			}
			plan.Version, plan.Name = "1", "x"
			fs, err := migrate.DefaultFormatter.Format(plan)
			if err == nil {
				for _, f := range fs {
					b.WriteString(f.Name() + "\n" + string(f.Bytes()))
				}
			}
		}()
		func() {
			defer func() {
				if p := recover(); p != nil {
					fmt.Fprintf(&b, "%s hcl panic %v\n", d, p)
				}
			}()
			var hcl []byte
			var err error
			switch d {
			case "mysql":
				hcl, err = mysql.MarshalHCL(s)
			case "postgres":
				hcl, err = postgres.MarshalHCL(s)
			default:
				hcl, err = sqlite.MarshalHCL(s)
			}
			fmt.Fprintf(&b, "%s hcl err=%v\n%s", d, err, hcl)
		}()
	}
	for _, d := range []string{"mysql", "postgres", "sqlite"} {
		_, run := c20HCLPlan(d)
		fmt.Fprintf(&b, "%s hcl->plan\n%s", d, run())
	}
	// two PostgreSQL realms with the same schema, table and enum names: in one the enum name is shared by both
	// schemas (references are qualified), in the other it is not; which one is marshalled first depends on the case
	{
		mk := func(shared bool) string {
			app, other := schema.New("app"), schema.New("other")
			st := &schema.EnumType{T: "state", Values: []string{"on", "off"}, Schema: app}
			app.AddObjects(st)
			app.AddTables(schema.NewTable("t").AddColumns(schema.NewColumn("s").SetType(st)))
			if shared {
				o := &schema.EnumType{T: "state", Values: []string{"a"}, Schema: other}
				other.AddObjects(o)
				other.AddTables(schema.NewTable("t").AddColumns(schema.NewColumn("s").SetType(o)))
			} else {
				other.AddTables(schema.NewTable("t").AddColumns(schema.NewIntColumn("s", "integer")))
			}
			out, err := postgres.MarshalHCL(schema.NewRealm(app, other))
			return fmt.Sprintf("err=%v\n%s", err, out)
		}
		var sh, un string
		if seed%2 == 0 {
			un = mk(false)
			sh = mk(true)
		} else {
			sh = mk(true)
			un = mk(false)
		}
		fmt.Fprintf(&b, "pg realm (enum name not shared)\n%s\npg realm (enum name shared)\n%s\n", un, sh)
	}
	// plans of other kinds through the same (package-level) planners: an in-place ALTER for every case, a DROP
	// TABLE / a table rebuild only for some - whatever a planner keeps from one call to the next shows up as a
	// plan that depends on the cases planned before it
	for di, d := range []string{"mysql", "postgres", "sqlite"} {
		s, _ := c20Schema(seed, d)
		pl, _, _ := plannerOf(d)
		ity := map[string]string{"mysql": "int", "postgres": "integer", "sqlite": "integer"}[d]
		sets := map[string][]schema.Change{
			"alter": {&schema.ModifyTable{T: s.Tables[0], Changes: []schema.Change{&schema.AddColumn{C: schema.NewNullIntColumn("added_later", ity)}}}},
		}
		if int(seed%3) == di {
			sets["drop"] = []schema.Change{&schema.DropTable{T: s.Tables[len(s.Tables)-1]}}
			if len(s.Tables[0].Columns) > 1 {
				sets["drop-column"] = []schema.Change{&schema.ModifyTable{T: s.Tables[0], Changes: []schema.Change{&schema.DropColumn{C: s.Tables[0].Columns[len(s.Tables[0].Columns)-1]}}}}
			}
		}
		for _, k := range []string{"drop", "drop-column", "alter"} {
			cs, ok := sets[k]
			if !ok {
				continue
			}
			func() {
				defer func() {
					if p := recover(); p != nil {
						fmt.Fprintf(&b, "%s %s plan panic %v\n", d, k, p)
					}
				}()
				plan, err := pl.PlanChanges(context.Background(), "p", cs)
				fmt.Fprintf(&b, "%s %s plan err=%v\n", d, k, err)
				if err == nil {
					for _, c := range plan.Changes {
						b.WriteString(c.Cmd + ";\n")
					}
				}
			}()
		}
	}
	// the same change values planned twice
	for _, d := range []string{"mysql", "postgres"} {
		cs := c20ModifySet(d)
		pl, _, _ := plannerOf(d)
		for k := 0; k < 2; k++ {
			plan, err := pl.PlanChanges(context.Background(), "p", cs)
			fmt.Fprintf(&b, "%s replan %d err=%v\n", d, k, err)
			if err == nil {
				for _, c := range plan.Changes {
					b.WriteString(c.Cmd + ";\n")
				}
			}
		}
	}
	// directory hash over a map-backed MemDir
	md := &migrate.MemDir{}
	r := hx.NewRand(seed, "c20-dir")
	for i := 0; i < 3+r.Intn(6); i++ {
		md.WriteFile(fmt.Sprintf("%d_%c.sql", r.Intn(50), 'a'+rune(r.Intn(26))), []byte(fmt.Sprintf("S%d;\n", i)))
	}
	if hf, err := md.Checksum(); err == nil {
		t, _ := hf.MarshalText()
		b.Write(t)
	}
	return b.String()
}

func sha(s string) string {
	h := sha256.Sum256([]byte(s))
	return hex.EncodeToString(h[:8])
}

// c20Child is the sub-process mode: prints one digest hash per seed.
func c20Child(seeds []uint64) {
	w := bufio.NewWriter(os.Stdout)
	defer w.Flush()
	for _, s := range seeds {
		fmt.Fprintf(w, "%d %s\n", s, sha(c20Digest(s)))
	}
}

func runC20(e *Env) error {
	if v := os.Getenv("VERIF_C20_CHILD"); v != "" {
		var seeds []uint64
		for _, x := range strings.Split(v, ",") {
			n, _ := strconv.ParseUint(x, 10, 64)
			seeds = append(seeds, n)
		}
		c20Child(seeds)
		os.Exit(0)
	}
	pool, err := hx.NewPool(e.Model, 2)
	if err != nil {
		return err
	}
	defer pool.Close()
	r := hx.NewRand(e.Seed, "c20")
	n := 60
	reps := 20
	procs := 4
	if e.Thorough() {
		n, reps, procs = 180, 24, 6
	}
	seeds := make([]uint64, n)
	for i := range seeds {
		seeds[i] = r.Uint64()
	}
	// reference digest + repeated sequential runs
	ref := make([]string, n)
	for i, s := range seeds {
		ref[i] = c20Digest(s)
	}
	e.Res.Rule = fmt.Sprintf("%d cases (schemas of 3-7 tables with several foreign keys to one parent, fks to distinct parents, cycles; a MemDir of 3-8 files); each observable (plan statements + DefaultFormatter file of the 3 planners, MarshalHCL of the 3 dialects, HashFile.MarshalText) produced %dx sequentially, in 16 concurrent goroutines interleaved with unrelated cases (race detector on), in %d fresh processes (every other one working through the cases in the opposite order); the same change values planned three times; aliasing check (results re-read after later calls); HCL block order permuted (sqlite); permuted directory listings vs the Lean model; non-trivial = digest longer than 200 bytes; distinct by seed", n, reps, procs)
	for i, s := range seeds {
		for k := 0; k < reps; k++ {
			d := c20Digest(s)
			e.Res.Count(fmt.Sprintf("seq:%d:%d", s, k), len(d) > 200, "sequential")
			if d != ref[i] {
				e.Res.Violate("failing-input", "output-differs-between-runs", fmt.Sprintf("seed %d: run %d differs from the first run: %s", s, k, firstDiff(ref[i], d)), "Props.C20 repeated runs", map[string]any{"seed": s})
				break
			}
		}
	}
	// concurrent
	var wg sync.WaitGroup
	var mu sync.Mutex
	for w := 0; w < 16; w++ {
		wg.Add(1)
		go func(w int) {
			defer wg.Done()
			for i := w % 4; i < n; i += 4 {
				d := c20Digest(seeds[i])
				mu.Lock()
				e.Res.Count(fmt.Sprintf("conc:%d:%d", seeds[i], w), len(d) > 200, "concurrent")
				if d != ref[i] {
					e.Res.Violate("failing-input", "output-differs-under-concurrency", fmt.Sprintf("seed %d: concurrent run differs: %s", seeds[i], firstDiff(ref[i], d)), "Props.C20 concurrent runs", map[string]any{"seed": seeds[i]})
				}
				mu.Unlock()
			}
		}(w)
	}
	wg.Wait()
	// aliasing: keep formatted files of case A, run other cases, re-read
	{
		_, cs := c20Schema(seeds[0], "sqlite")
		plan, err := sqlite.DefaultPlan.PlanChanges(context.Background(), "p", cs)
		if err == nil {
			plan.Version, plan.Name = "1", "a"
			fs, _ := migrate.DefaultFormatter.Format(plan)
			md := &migrate.MemDir{}
			for _, f := range fs {
				md.WriteFile(f.Name(), f.Bytes())
			}
			before := string(fs[0].Bytes())
			sum1, _ := md.Checksum()
			t1, _ := sum1.MarshalText()
			for i := 1; i < n && i < 20; i++ {
				_, cs2 := c20Schema(seeds[i], "sqlite")
				if p2, err := sqlite.DefaultPlan.PlanChanges(context.Background(), "p", cs2); err == nil {
					p2.Version, p2.Name = "2", "b"
					migrate.DefaultFormatter.Format(p2)
				}
			}
			sum2, _ := md.Checksum()
			t2, _ := sum2.MarshalText()
			e.Res.Count("alias", true, "aliasing")
			if string(fs[0].Bytes()) != before || string(t1) != string(t2) {
				e.Res.Violate("failing-input", "earlier-output-changed-by-later-call", "a formatted file (or the sum of an untouched MemDir holding it) changed after formatting unrelated plans", "Props.C20 aliasing", map[string]any{"seed": seeds[0]})
			}
		}
	}
	// planning the same change values again gives the same statements (the planner does not edit its input)
	for _, d := range []string{"mysql", "postgres"} {
		sets := c20CycleSets(d)
		sets["drop columns with their index and foreign key"] = c20ModifySet(d)
		for sname, cs := range sets {
			pl, _, _ := plannerOf(d)
			var first string
			for k := 0; k < 3; k++ {
				plan, err := pl.PlanChanges(context.Background(), "p", cs)
				if err != nil {
					break
				}
				var sb strings.Builder
				for _, c := range plan.Changes {
					sb.WriteString(c.Cmd + ";\n")
				}
				e.Res.Count(fmt.Sprintf("replan:%s:%s:%d", d, sname, k), true, "replan")
				if k == 0 {
					first = sb.String()
				} else if sb.String() != first {
					e.Res.Violate("failing-input", "replanning-the-same-changes-differs", fmt.Sprintf("%s (%s): planning the same change set for the %d. time gives other statements: %s", d, sname, k+1, firstDiff(first, sb.String())), "Props.C20 repeated runs", map[string]any{"dialect": d, "set": sname})
					break
				}
			}
		}
	}
	// fresh processes
	self, _ := os.Executable()
	var sl []string
	for _, s := range seeds {
		sl = append(sl, strconv.FormatUint(s, 10))
	}
	for p := 0; p < procs; p++ {
		cmd := exec.Command(self, "-model", e.Model, "-out", os.DevNull, "-replays", os.TempDir(), "C20")
		// every other child works through the cases in the opposite order: what a case prints must not depend
		// on what the process did before
		order := append([]string{}, sl...)
		if p%2 == 1 {
			for i, j := 0, len(order)-1; i < j; i, j = i+1, j-1 {
				order[i], order[j] = order[j], order[i]
			}
		}
		cmd.Env = append(os.Environ(), "VERIF_C20_CHILD="+strings.Join(order, ","))
		out, err := cmd.Output()
		if err != nil {
			e.Res.Note("child process: %v", err)
			continue
		}
		got := map[string]string{}
		for _, line := range strings.Split(strings.TrimSpace(string(out)), "\n") {
			f := strings.Fields(line)
			if len(f) == 2 {
				got[f[0]] = f[1]
			}
		}
		for i, s := range seeds {
			e.Res.Count(fmt.Sprintf("proc:%d:%d", s, p), true, "fresh-process")
			if got[strconv.FormatUint(s, 10)] != sha(ref[i]) {
				e.Res.Violate("failing-input", "output-differs-between-processes", fmt.Sprintf("seed %d: process %d produced a different digest", s, p), "Props.C20 processes", map[string]any{"seed": s})
			}
		}
	}
	// permuted HCL declaration order (sqlite)
	for _, s := range seeds {
		sc, _ := c20Schema(s, "sqlite")
		hcl, err := sqlite.MarshalHCL(sc)
		if err != nil {
			continue
		}
		stm := func(doc []byte) ([]string, error) {
			var rl schema.Realm
			if err := sqlite.EvalHCLBytes(doc, &rl, nil); err != nil {
				return nil, err
			}
			if len(rl.Schemas) != 1 {
				return nil, fmt.Errorf("schemas=%d", len(rl.Schemas))
			}
			cs, err := sqlite.DefaultDiff.SchemaDiff(schema.New(rl.Schemas[0].Name), rl.Schemas[0])
			if err != nil {
				return nil, err
			}
			p, err := sqlite.DefaultPlan.PlanChanges(context.Background(), "p", cs)
			if err != nil {
				return nil, err
			}
			var out []string
			for _, c := range p.Changes {
				out = append(out, c.Cmd)
			}
			return out, nil
		}
		blocks := splitHCLBlocks(string(hcl))
		pr := hx.NewRand(s, "perm")
		perm := append([]string{}, blocks...)
		hx.Shuffle(pr, perm)
		a, err1 := stm(hcl)
		b, err2 := stm([]byte(strings.Join(perm, "\n")))
		e.Res.Count(fmt.Sprintf("hclperm:%d", s), len(blocks) > 2, "hcl-permutation")
		if err1 != nil || err2 != nil {
			if (err1 == nil) != (err2 == nil) {
				e.Res.Violate("failing-input", "declaration-order-changes-result", fmt.Sprintf("seed %d: evaluating the permuted HCL gives err=%v, the original err=%v", s, err2, err1), "Props.C20 plan_decl_order", map[string]any{"seed": s})
			}
			continue
		}
		sa, sb := append([]string{}, a...), append([]string{}, b...)
		sort.Strings(sa)
		sort.Strings(sb)
		if strings.Join(sa, "\n") != strings.Join(sb, "\n") {
			e.Res.Violate("failing-input", "declaration-order-changes-statements", fmt.Sprintf("seed %d: permuting the HCL blocks changes the statements (not only their order): %s", s, firstDiff(strings.Join(sa, "\n"), strings.Join(sb, "\n"))), "Props.C20 plan_decl_order", map[string]any{"seed": s})
		}
	}
	// planning reads its input: the same schema marshals to the same document before and after a plan was made
	// from it (and after a second one) - otherwise every later output depends on what was planned before
	for _, s := range seeds {
		for _, d := range []string{"mysql", "postgres", "sqlite"} {
			sc, cs := c20Schema(s, d)
			marshal := func() string {
				var out []byte
				var err error
				switch d {
				case "mysql":
					out, err = mysql.MarshalHCL(sc)
				case "postgres":
					out, err = postgres.MarshalHCL(sc)
				default:
					out, err = sqlite.MarshalHCL(sc)
				}
				return fmt.Sprintf("err=%v\n%s", err, out)
			}
			before := marshal()
			pl, _, _ := plannerOf(d)
			var texts []string
			for k := 0; k < 2; k++ {
				func() {
					defer func() { recover() }()
					plan, err := pl.PlanChanges(context.Background(), "p", cs)
					t := fmt.Sprintf("err=%v", err)
					if err == nil {
						for _, c := range plan.Changes {
							t += "\n" + c.Cmd
						}
					}
					texts = append(texts, t)
				}()
			}
			e.Res.Count(fmt.Sprintf("input-kept:%d:%s", s, d), true, "input-kept")
			if after := marshal(); after != before {
				e.Res.Violate("failing-input", "planning-changes-its-input", fmt.Sprintf("seed %d, %s: the schema marshals to another document after it was planned: %s", s, d, firstDiff(before, after)), "Props.C20 (outputs depend on the input only)", map[string]any{"seed": s, "dialect": d})
				break
			}
			if len(texts) == 2 && texts[0] != texts[1] {
				e.Res.Violate("failing-input", "replanning-the-same-changes-differs", fmt.Sprintf("seed %d, %s: the second plan of the same changes differs: %s", s, d, firstDiff(texts[0], texts[1])), "Props.C20 repeated runs", map[string]any{"seed": s, "dialect": d})
				break
			}
		}
	}
	// multi-schema documents (MySQL, PostgreSQL): the same blocks in every order give the same outcome - the same
	// error, or the same statements and reference targets; references are qualified, unqualified-unique and
	// unqualified-ambiguous (two schemas hold a table of that name)
	c20RealmOrder(e)
	c20Replan(e)
	// the same schema split over several HCL files (names sharing a numeric prefix, differing only in
	// zero padding, in sub-directories): evaluating the same files again and again gives the same realm
	for _, s := range seeds {
		sc, _ := c20Schema(s, "sqlite")
		hcl, err := sqlite.MarshalHCL(sc)
		if err != nil {
			continue
		}
		blocks := splitHCLBlocks(string(hcl))
		if len(blocks) < 3 {
			continue
		}
		pr := hx.NewRand(s, "files")
		names := []string{"1_tables.hcl", "1_lookup.hcl", "01_a.hcl", "1_b.hcl", "a/1.hcl", "b/1.hcl", "2_more.hcl", "schema.hcl", "10_x.hcl", "9_y.hcl"}
		hx.Shuffle(pr, names)
		k := 2 + pr.Intn(3)
		if k > len(blocks) {
			k = len(blocks)
		}
		files := map[string]string{}
		for i, b := range blocks {
			files[names[i%k]] += b + "\n"
		}
		evalOnce := func() (string, error) {
			p := hclparse.NewParser()
			for n, body := range files {
				if _, diag := p.ParseHCL([]byte(body), n); diag.HasErrors() {
					return "", fmt.Errorf("%s", diag.Error())
				}
			}
			var rl schema.Realm
			if err := sqlite.EvalHCL.Eval(p, &rl, nil); err != nil {
				return "", err
			}
			var b strings.Builder
			for _, sch := range rl.Schemas {
				out, err := sqlite.MarshalHCL(sch)
				if err != nil {
					return "", err
				}
				b.Write(out)
			}
			return b.String(), nil
		}
		first, err := evalOnce()
		e.Res.Count(fmt.Sprintf("hclfiles:%d", s), err == nil, "hcl-multi-file")
		if err != nil {
			continue
		}
		for rep := 0; rep < 60; rep++ {
			again, err := evalOnce()
			if err != nil || again != first {
				var ns []string
				for n := range files {
					ns = append(ns, n)
				}
				sort.Strings(ns)
				e.Res.Violate("failing-input", "multi-file-evaluation-not-deterministic", fmt.Sprintf("seed %d: evaluating the HCL files %v again (repetition %d) gives another result (err=%v): %s", s, ns, rep, err, firstDiff(first, again)), "Props.C20 deterministic", map[string]any{"seed": s, "files": files})
				break
			}
		}
	}
	// HCL document -> evaluated realm -> diff from nothing -> plan, repeated: the statements never change
	for _, d := range []string{"mysql", "postgres", "sqlite"} {
		doc, run := c20HCLPlan(d)
		first := run()
		ok := !strings.HasPrefix(first, "eval:") && !strings.HasPrefix(first, "diff:") && !strings.HasPrefix(first, "plan:") && !strings.HasPrefix(first, "marshal:") && !strings.HasPrefix(first, "panic:")
		e.Res.Count("hclplan:"+d, ok, "hcl-to-plan")
		if !ok {
			e.Res.Violate("no-failing-input-found", "hcl-to-plan-fails", fmt.Sprintf("%s: the attribute document cannot be planned: %s", d, trunc(first, 300)), "correspondence C20 hcl->plan", map[string]any{"dialect": d})
			continue
		}
		reps := 150
		if e.Thorough() {
			reps = 300
		}
		for rep := 0; rep < reps; rep++ {
			if again := run(); again != first {
				e.Res.Violate("failing-input", "hcl-to-plan-not-deterministic", fmt.Sprintf("%s: evaluating and planning the same HCL document again (repetition %d) gives other statements: %s", d, rep, firstDiff(first, again)), "Props.C20 deterministic", map[string]any{"dialect": d, "hcl": doc})
				break
			}
		}
	}
	// permuted directory listings: implementation and model give the same sum file for every order
	for k := 0; k < 30; k++ {
		pr := hx.NewRand(seeds[k%n], "dirperm")
		var fs []c06File
		m := 2 + pr.Intn(5)
		used := map[string]bool{}
		for len(fs) < m {
			nme := fmt.Sprintf("%d_%c.sql", pr.Intn(30), 'a'+rune(pr.Intn(26)))
			if !used[nme] {
				used[nme] = true
				fs = append(fs, c06File{nme, fmt.Sprintf("S%d;\n", len(fs))})
			}
		}
		want, err := sumOfImpl("mem", e.Work, fs)
		if err != nil {
			continue
		}
		for j := 0; j < 4; j++ {
			p := cloneFiles(fs)
			hx.Shuffle(pr, p)
			ans, err := pool.Ask(map[string]any{"op": "hash.sum", "files": hexFiles(p)})
			if err != nil {
				continue
			}
			ms, _ := ans["sum"].(string)
			got, _ := sumOfImpl("mem", e.Work, p)
			e.Res.Count(fmt.Sprintf("dirperm:%d:%d", k, j), true, "dir-permutation")
			if string(got) != string(want) {
				e.Res.Violate("failing-input", "sum-depends-on-listing-order", fmt.Sprintf("MemDir written in another order gives another atlas.sum (%v)", namesOf(p)), "Props.C20.hash_perm", map[string]any{"files": p})
			} else if ms != hex.EncodeToString(want) {
				e.Res.Disagree()
				e.Res.Violate("no-failing-input-found", "corr-sum-perm-mismatch", "model and implementation disagree on the sum file of a permuted listing", "correspondence Atlas.Hash.writeSum", map[string]any{"files": p})
			}
		}
	}
	return nil
}

var reHCLPos = regexp.MustCompile(`:?\d+,\d+-\d+:?`)

// c20RealmOrder: see the call site.
func c20RealmOrder(e *Env) {
	ity := map[string]string{"mysql": "int", "postgres": "integer"}
	for _, d := range []string{"mysql", "postgres"} {
		tbl1 := func(sch, name, extra string) string {
			return fmt.Sprintf("table %q {\n  schema = schema.%s\n  column \"id\" {\n    type = %s\n  }\n  column \"ref\" {\n    null = true\n    type = %s\n  }\n  primary_key {\n    columns = [column.id]\n  }\n%s}\n", name, sch, ity[d], ity[d], extra)
		}
		tbl := func(sch, name, extra string) string {
			return fmt.Sprintf("table %q %q {\n  schema = schema.%s\n  column \"id\" {\n    type = %s\n  }\n  column \"ref\" {\n    null = true\n    type = %s\n  }\n  primary_key {\n    columns = [column.id]\n  }\n%s}\n", sch, name, sch, ity[d], ity[d], extra)
		}
		fk := func(name, target string) string {
			return fmt.Sprintf("  foreign_key %q {\n    columns     = [column.ref]\n    ref_columns = [%s.column.id]\n    on_delete   = CASCADE\n  }\n", name, target)
		}
		for vi, variant := range []struct {
			name   string
			blocks []string
		}{
			{"unqualified reference to a table name held by two schemas", []string{
				"schema \"a\" {\n}\n", "schema \"b\" {\n}\n",
				tbl1("a", "users", ""), tbl1("b", "users", ""),
				tbl1("b", "pets", fk("owner", "table.users")),
			}},
			{"qualified references to tables of both schemas", []string{
				"schema \"a\" {\n}\n", "schema \"b\" {\n}\n",
				tbl("a", "users", ""), tbl("b", "users", ""),
				tbl("b", "pets", fk("owner", "table.a.users")), tbl("a", "cats", fk("owner", "table.b.users")),
			}},
			{"unqualified reference to a table name held by one schema", []string{
				"schema \"a\" {\n}\n", "schema \"b\" {\n}\n",
				tbl1("a", "users", ""), tbl1("b", "accounts", ""),
				tbl1("b", "pets", fk("owner", "table.users")), tbl1("a", "cats", fk("owner", "table.accounts")),
			}},
		} {
			outcome := func(doc string) string {
				var r schema.Realm
				var err error
				if d == "mysql" {
					err = mysql.EvalHCLBytes([]byte(doc), &r, nil)
				} else {
					err = postgres.EvalHCLBytes([]byte(doc), &r, nil)
				}
				if err != nil {
					return "error: " + reHCLPos.ReplaceAllString(err.Error(), "")
				}
				var targets []string
				for _, sc := range r.Schemas {
					for _, t := range sc.Tables {
						for _, f := range t.ForeignKeys {
							rs := ""
							if f.RefTable != nil && f.RefTable.Schema != nil {
								rs = f.RefTable.Schema.Name
							}
							targets = append(targets, fmt.Sprintf("%s.%s.%s -> %s.%s", sc.Name, t.Name, f.Symbol, rs, f.RefTable.Name))
						}
					}
				}
				sort.Strings(targets)
				var cs []schema.Change
				pl, _, _ := plannerOf(d)
				if d == "mysql" {
					cs, err = mysql.DefaultDiff.RealmDiff(schema.NewRealm(), &r)
				} else {
					cs, err = postgres.DefaultDiff.RealmDiff(schema.NewRealm(), &r)
				}
				if err != nil {
					return "diff error: " + err.Error()
				}
				plan, err := pl.PlanChanges(context.Background(), "p", cs)
				if err != nil {
					return "plan error: " + err.Error()
				}
				var cmds []string
				for _, c := range plan.Changes {
					cmds = append(cmds, c.Cmd)
				}
				sort.Strings(cmds)
				return strings.Join(targets, "\n") + "\n" + strings.Join(cmds, ";\n")
			}
			first := outcome(strings.Join(variant.blocks, "\n"))
			pr := hx.NewRand(e.Seed, fmt.Sprintf("realm-order-%s-%d", d, vi))
			orders := 40
			if e.Thorough() {
				orders = 200
			}
			for k := 0; k < orders; k++ {
				perm := append([]string{}, variant.blocks...)
				hx.Shuffle(pr, perm)
				if k == 0 {
					// the exact reverse
					for i := range perm {
						perm[i] = variant.blocks[len(perm)-1-i]
					}
				}
				e.Res.Count(fmt.Sprintf("realm-order:%s:%d:%d", d, vi, k), true, "hcl-permutation", "realm-order:"+d)
				if got := outcome(strings.Join(perm, "\n")); got != first {
					e.Res.Violate("failing-input", "declaration-order-changes-result", fmt.Sprintf("%s, %s: the same blocks in another order give another result:\n--- as listed ---\n%s\n--- permuted ---\n%s\n--- permuted document ---\n%s", d, variant.name, trunc(first, 600), trunc(got, 600), trunc(strings.Join(perm, "\n"), 1500)), "Props.C20 plan_decl_order", map[string]any{"dialect": d, "variant": variant.name, "document": strings.Join(perm, "\n")})
					break
				}
			}
		}
	}
}

// splitHCLBlocks splits a marshalled HCL document into its top-level blocks.
func splitHCLBlocks(doc string) []string {
	var out []string
	var cur strings.Builder
	depth := 0
	for _, line := range strings.Split(doc, "\n") {
		cur.WriteString(line + "\n")
		depth += strings.Count(line, "{") - strings.Count(line, "}")
		if depth == 0 && strings.TrimSpace(line) == "}" {
			out = append(out, cur.String())
			cur.Reset()
		}
	}
	if strings.TrimSpace(cur.String()) != "" {
		out = append(out, cur.String())
	}
	return out
}

func firstDiff(a, b string) string {
	la, lb := strings.Split(a, "\n"), strings.Split(b, "\n")
	for i := 0; i < len(la) && i < len(lb); i++ {
		if la[i] != lb[i] {
			return fmt.Sprintf("line %d: %q vs %q", i+1, trunc(la[i], 150), trunc(lb[i], 150))
		}
	}
	return fmt.Sprintf("lengths %d vs %d lines", len(la), len(lb))
}
