package main

import (
	"context"
	"database/sql"
	"errors"
	"fmt"

	"ariga.io/atlas/sql/migrate"
	"ariga.io/atlas/sql/mysql"
	"ariga.io/atlas/sql/schema"
)

// C14 for a MySQL dev database bound to ONE database (the common `--dev-url mysql://.../dev`): the real driver
// (Open, Snapshot, inspection, differ, planner, ApplyChanges, SchemaRestoreFunc) against the in-memory
// stand-in fakeMySQL. A dev database holding a table is refused without a write; an accepted one is handed
// back exactly as found - its tables AND its own attributes (default character set / collation, which a
// replayed `ALTER DATABASE` or the normalisation of a schema with another charset change).
func c14MySQL(e *Env) {
	type initial struct {
		name  string
		setup []string
		clean bool
	}
	inits := []initial{
		{"an empty database", nil, true},
		{"an empty latin1 database", []string{"ALTER DATABASE `dev` CHARSET latin1"}, true},
		{"a database with a table", []string{"CREATE TABLE `dev`.`old` (`id` int)"}, false},
	}
	replays := [][]string{
		{},
		{"CREATE TABLE `t1` (`id` int)"},
		{"CREATE TABLE `t1` (`id` int)", "CREATE TABLE `dev`.`t2` (`id` int)"},
		{"ALTER DATABASE `dev` CHARSET latin1"},
		{"ALTER DATABASE `dev` COLLATE utf8mb4_bin", "CREATE TABLE `t1` (`id` int)"},
		{"ALTER DATABASE `dev` CHARSET ascii COLLATE ascii_bin", "CREATE TABLE `t1` (`id` int)", "CREATE TABLE `t2` (`id` int)"},
	}
	ctx := context.Background()
	for _, in := range inits {
		for ri, rp := range replays {
			if !in.clean && ri > 0 {
				continue
			}
			for failAt := -1; failAt < len(rp); failAt++ {
				f := newFakeMySQL("dev")
				db := sql.OpenDB(f)
				for _, s := range in.setup {
					db.Exec(s)
				}
				f.Execs, f.Unknown = nil, nil
				before := f.State()
				id := fmt.Sprintf("mysql: %s; replay %d failing at %d", in.name, ri, failAt)
				rep := map[string]any{"case": id, "initial": in.setup, "replay": rp, "fail_at": failAt}
				e.Res.Count("mysql/"+id, true, "mysql-dev", fmt.Sprintf("mysql-clean:%v", in.clean))
				drv, err := mysql.Open(db)
				if err != nil {
					e.Res.Violate("no-failing-input-found", "fakemysql-open-fails", fmt.Sprintf("%s: mysql.Open on the stand-in fails: %v", id, err), "correspondence C14 mysql", rep)
					db.Close()
					return
				}
				if nz, ok := drv.(schema.Normalizer); ok && ri == 0 && failAt == -1 {
					// the normaliser (what an HCL desired state goes through): it uses the dev database - whatever the
					// desired schema holds, also nothing at all - and must refuse one that is not clean / hand a clean one back
					for _, des := range []*schema.Schema{
						schema.New("app"),
						schema.New("app").AddTables(schema.NewTable("users").AddColumns(schema.NewIntColumn("id", "int"))),
						schema.New("app").SetCharset("latin1").AddTables(schema.NewTable("users").AddColumns(schema.NewIntColumn("id", "int"))),
					} {
						f.Execs = nil
						_, nerr := nz.NormalizeSchema(ctx, des)
						var nce *migrate.NotCleanError
						nid := fmt.Sprintf("mysql: %s; NormalizeSchema of a schema with %d tables, charset set: %v", in.name, len(des.Tables), len(des.Attrs) > 0)
						e.Res.Count("mysql-normalize/"+nid, true, "mysql-dev", "mysql-normalize")
						switch {
						case !in.clean && (nerr == nil || !errors.As(nerr, &nce)):
							e.Res.Violate("failing-input", "non-empty-dev-accepted", fmt.Sprintf("%s: the normaliser accepts a dev database that is not clean (err=%v)", nid, nerr), "Props.C14.refuse_nonempty (mysql)", rep)
						case in.clean && nerr != nil && len(f.Unknown) == 0:
							e.Res.Violate("failing-input", "clean-dev-refused", fmt.Sprintf("%s: %v", nid, nerr), "Props.C14 (mysql)", rep)
						}
						if f.State() != before {
							e.Res.Violate("failing-input", "dev-not-returned-as-found", fmt.Sprintf("%s: the dev database is not handed back as it was found: before {%s}, after {%s}; statements: %v", nid, before, f.State(), f.Execs), "Props.C14.restore_exact (mysql)", rep)
						}
					}
					f.Execs, f.Unknown = nil, nil
				}
				restore, err := drv.(migrate.Snapshoter).Snapshot(ctx)
				var nc *migrate.NotCleanError
				if !in.clean {
					if err == nil || !errors.As(err, &nc) {
						e.Res.Violate("failing-input", "non-empty-dev-accepted", fmt.Sprintf("%s: Snapshot accepts a dev database that is not clean (err=%v)", id, err), "Props.C14.refuse_nonempty (mysql)", rep)
					}
					if len(f.Execs) > 0 || f.State() != before {
						e.Res.Violate("failing-input", "non-empty-dev-modified", fmt.Sprintf("%s: a refused dev database was written to: %v", id, f.Execs), "Props.C14.refuse_nonempty (mysql)", rep)
					}
					db.Close()
					continue
				}
				if err != nil {
					if len(f.Unknown) > 0 {
						e.Res.Violate("no-failing-input-found", "fakemysql-unsupported", fmt.Sprintf("%s: the stand-in does not understand %v", id, f.Unknown), "correspondence C14 mysql", rep)
					} else {
						e.Res.Violate("failing-input", "clean-dev-refused", fmt.Sprintf("%s: Snapshot refuses a clean dev database: %v", id, err), "Props.C14 (mysql)", rep)
					}
					db.Close()
					continue
				}
				for k, s := range rp {
					if k == failAt {
						break
					}
					db.Exec(s)
				}
				rerr := restore(ctx)
				switch {
				case len(f.Unknown) > 0:
					e.Res.Violate("no-failing-input-found", "fakemysql-unsupported", fmt.Sprintf("%s: the stand-in does not understand %v", id, f.Unknown), "correspondence C14 mysql", rep)
				case rerr != nil:
					e.Res.Violate("failing-input", "dev-restore-fails", fmt.Sprintf("%s: the restore function fails: %v (state %s)", id, rerr, f.State()), "Props.C14.restore_exact (mysql)", rep)
				case f.State() != before:
					e.Res.Violate("failing-input", "dev-not-returned-as-found", fmt.Sprintf("%s: the dev database is not handed back as it was found: before {%s}, after {%s}; statements of the restore: %v", id, before, f.State(), f.Execs), "Props.C14.restore_exact (mysql)", rep)
				}
				db.Close()
			}
		}
	}
	// a dev connection bound to NO database (`--dev-url mysql://host/`): the normaliser creates the whole desired
	// realm on the server, reads it back and removes it again - also when a statement in the middle fails
	realm := func() *schema.Realm {
		r := schema.NewRealm()
		for _, sn := range []string{"app", "shop"} {
			s := schema.New(sn)
			for _, tn := range []string{"users", "orders"} {
				s.AddTables(schema.NewTable(sn + "_" + tn).AddColumns(schema.NewIntColumn("id", "int")))
			}
			r.AddSchemas(s)
		}
		return r
	}
	for _, failOn := range []string{"", "CREATE DATABASE `app`", "CREATE TABLE `app`.`app_users`", "CREATE TABLE `app`.`app_orders`", "CREATE DATABASE `shop`", "CREATE TABLE `shop`.`shop_users`", "CREATE TABLE `shop`.`shop_orders`"} {
		f := newFakeMySQL("")
		db := sql.OpenDB(f)
		before := f.State()
		id := fmt.Sprintf("mysql, dev connection bound to no database: NormalizeRealm of two schemas x two tables, the statement holding %q fails", failOn)
		rep := map[string]any{"case": id}
		e.Res.Count("mysql-realm/"+id, failOn != "", "mysql-dev", "mysql-normalize-realm")
		drv, err := mysql.Open(db)
		if err != nil {
			db.Close()
			continue
		}
		f.FailOn = failOn
		f.Execs = nil
		_, nerr := drv.(schema.Normalizer).NormalizeRealm(ctx, realm())
		f.FailOn = ""
		switch {
		case len(f.Unknown) > 0 && failOn == "":
			e.Res.Violate("no-failing-input-found", "fakemysql-unsupported", fmt.Sprintf("%s: the stand-in does not understand %v", id, f.Unknown), "correspondence C14 mysql", rep)
		case failOn != "" && nerr == nil:
			e.Res.Note("c14 mysql realm: the failing statement %q was never sent", failOn)
		case f.State() != before:
			e.Res.Violate("failing-input", "dev-not-returned-as-found", fmt.Sprintf("%s (result: %v): the dev server is not handed back as it was found: before {%s}, after {%s}; statements: %v", id, nerr, before, f.State(), f.Execs), "Props.C14.restore_exact (mysql, realm)", rep)
		}
		db.Close()
	}
}
