package main

// C06: directory integrity. For a set of base directories the sum file is written by the real code
// (MemDir and LocalDir) and compared byte for byte with the Lean model (incl. the Lean SHA-256);
// then the exhaustive single-edit neighbourhood (every byte of every file flipped / inserted /
// deleted, every file removed / renamed / duplicated, contents swapped, every line of atlas.sum
// edited / removed / duplicated, with and without a recomputed header) and sampled compound edits
// are validated by the real `migrate.Validate` and by the model; the monitor says what the property
// demands of each outcome. Writers (WritePlan, WriteCheckpoint, re-hash after removal) are run on
// both directory kinds and must leave the directory valid.

import (
	"context"
	"encoding/hex"
	"encoding/json"
	"errors"
	"fmt"
	"os"
	"path/filepath"
	"regexp"
	"sort"
	"strings"

	"ariga.io/atlas/sql/migrate"
	"verifharness/internal/hx"
)

func init() { commands["C06"] = runC06 }

type c06File struct {
	N string `json:"n"`
	B string `json:"b"`
}

type c06Case struct {
	Base  []c06File `json:"base"`   // directory for which the sum file is written
	Edit  string    `json:"edit"`   // description
	Dir   []c06File `json:"dir"`    // directory that is validated
	Sum   *string   `json:"sum"`    // atlas.sum that is validated (nil: the one written for Base; "" string means empty file)
	NoSum bool      `json:"no_sum"` // validate without any sum file
	Kind  string    `json:"kind"`   // mem | local
}

type c06Out struct {
	Res    string `json:"res"`
	Line   int    `json:"line,omitempty"`
	Total  int    `json:"total,omitempty"`
	Pos    int    `json:"pos,omitempty"`
	File   string `json:"file,omitempty"`
	Reason string `json:"reason,omitempty"`
}

func hexFiles(fs []c06File) []map[string]string {
	out := []map[string]string{}
	for _, f := range fs {
		out = append(out, map[string]string{"n": hex.EncodeToString([]byte(f.N)), "b": hex.EncodeToString([]byte(f.B))})
	}
	return out
}

func mkDir(kind, work string, fs []c06File, sum []byte, withSum bool) (migrate.Dir, func(), error) {
	if kind == "local" {
		p, err := os.MkdirTemp(work, "c06")
		if err != nil {
			return nil, nil, err
		}
		for _, f := range fs {
			if err := os.WriteFile(filepath.Join(p, f.N), []byte(f.B), 0o644); err != nil {
				os.RemoveAll(p)
				return nil, nil, fmt.Errorf("unusable-name")
			}
		}
		if withSum {
			if err := os.WriteFile(filepath.Join(p, migrate.HashFileName), sum, 0o644); err != nil {
				return nil, nil, err
			}
		}
		d, err := migrate.NewLocalDir(p)
		return d, func() { os.RemoveAll(p) }, err
	}
	d := &migrate.MemDir{}
	for _, f := range fs {
		if err := d.WriteFile(f.N, []byte(f.B)); err != nil {
			return nil, nil, err
		}
	}
	if withSum {
		if err := d.WriteFile(migrate.HashFileName, sum); err != nil {
			return nil, nil, err
		}
	}
	return d, func() {}, nil
}

func sumOfImpl(kind, work string, fs []c06File) ([]byte, error) {
	d, done, err := mkDir(kind, work, fs, nil, false)
	if err != nil {
		return nil, err
	}
	defer done()
	s, err := d.Checksum()
	if err != nil {
		return nil, err
	}
	if err := migrate.WriteSumFile(d, s); err != nil {
		return nil, err
	}
	f, err := d.Open(migrate.HashFileName)
	if err != nil {
		return nil, err
	}
	defer f.Close()
	var buf []byte
	tmp := make([]byte, 4096)
	for {
		n, err := f.Read(tmp)
		buf = append(buf, tmp[:n]...)
		if err != nil {
			break
		}
	}
	return buf, nil
}

func validateImpl(kind, work string, fs []c06File, sum []byte, withSum bool) (out c06Out) {
	d, done, err := mkDir(kind, work, fs, sum, withSum)
	if err != nil {
		return c06Out{Res: "harness:" + err.Error()}
	}
	defer done()
	defer func() {
		if p := recover(); p != nil {
			out = c06Out{Res: "panic"}
		}
	}()
	err = migrate.Validate(d)
	// the executor's own gate (Executor.Pending validates the directory first) takes the same decision
	if ex, xerr := migrate.NewExecutor(c06Drv{}, d, migrate.NopRevisionReadWriter{}); xerr == nil {
		_, perr := ex.Pending(context.Background())
		sumErr := func(e error) bool {
			return e != nil && (errors.Is(e, migrate.ErrChecksumMismatch) || errors.Is(e, migrate.ErrChecksumFormat) || errors.Is(e, migrate.ErrChecksumNotFound))
		}
		if sumErr(err) != sumErr(perr) {
			return c06Out{Res: fmt.Sprintf("executor-gate-differs: Validate=%v Executor.Pending=%v", err, perr)}
		}
	}
	var ce *migrate.ChecksumError
	switch {
	case err == nil:
		return c06Out{Res: "ok"}
	case errors.As(err, &ce):
		return c06Out{Res: "checksum", Line: ce.Line, Total: ce.Total, Pos: ce.Pos, File: hex.EncodeToString([]byte(ce.File)), Reason: ce.Reason.String()}
	case errors.Is(err, migrate.ErrChecksumFormat):
		return c06Out{Res: "format"}
	case errors.Is(err, migrate.ErrChecksumMismatch):
		return c06Out{Res: "mismatch"}
	case errors.Is(err, migrate.ErrChecksumNotFound):
		return c06Out{Res: "not-found"}
	}
	return c06Out{Res: "other:" + err.Error()}
}

// c06Drv: a driver for an executor that never gets to execute anything.
type c06Drv struct{ migrate.Driver }

func (c06Drv) CheckClean(context.Context, *migrate.TableIdent) error { return nil }

var ignoreDirective = "-- atlas:sum ignore\n"

// the directive regexp of sql/migrate/dir.go, restated here (the monitor must not call the code under test).
var reDirectiveCopy = regexp.MustCompile(`^([ -~]*)atlas:(\w+)(?: +([ -~]*))*`)

func isIgnored(b string) bool {
	m := reDirectiveCopy.FindStringSubmatch(b)
	return len(m) == 4 && m[2] == "sum" && m[3] == "ignore"
}

func isSQL(n string) bool { return strings.HasSuffix(n, ".sql") }

// namesOK is the decidable hypothesis of Props.C06.validate_after_write.
func namesOK(fs []c06File) bool {
	for _, f := range fs {
		if !isSQL(f.N) {
			continue
		}
		if strings.TrimSpace(f.N) != f.N || strings.ContainsAny(f.N, "\n\r") {
			return false
		}
	}
	return true
}

// effective content of a directory as far as integrity is concerned: sorted (name, bytes) of .sql files.
func effective(fs []c06File) string {
	var xs []string
	for _, f := range fs {
		if isSQL(f.N) {
			xs = append(xs, hxJSON([]string{f.N, f.B}))
		}
	}
	sort.Strings(xs)
	return strings.Join(xs, "|")
}

// onlyIgnoredDiffers: the two directories differ only in files that carry the sum-ignore directive
// (before and after), in a way the cumulative hash cannot see by design of the directive.
func onlyIgnoredDiffers(a, b []c06File) bool {
	strip := func(fs []c06File) string {
		var xs []string
		for _, f := range fs {
			if isSQL(f.N) && !isIgnored(f.B) {
				xs = append(xs, hxJSON([]string{f.N, f.B}))
			}
		}
		sort.Strings(xs)
		return strings.Join(xs, "|")
	}
	if strip(a) != strip(b) {
		return false
	}
	// the NAME of an ignored file is still fed to the running hash: adding, removing or renaming one that
	// sorts before a hashed file changes every later entry and IS detected; only an ignored file after the
	// last hashed one (or an edit of an ignored file's content) is invisible by design
	names := func(fs []c06File) map[string]bool {
		m := map[string]bool{}
		for _, f := range fs {
			if isSQL(f.N) && isIgnored(f.B) {
				m[f.N] = true
			}
		}
		return m
	}
	lastHashed := ""
	for _, fs := range [][]c06File{a, b} {
		for _, f := range fs {
			if isSQL(f.N) && !isIgnored(f.B) && f.N > lastHashed {
				lastHashed = f.N
			}
		}
	}
	na, nb := names(a), names(b)
	for n := range na {
		if !nb[n] && n < lastHashed {
			return false
		}
	}
	for n := range nb {
		if !na[n] && n < lastHashed {
			return false
		}
	}
	return true
}

func c06Bases() [][]c06File {
	return [][]c06File{
		{{"1_a.sql", "A;\n"}},
		{{"1_a.sql", "A;\n"}, {"2_b.sql", "B;\nC;\n"}},
		{{"1_a.sql", "CREATE a;\n"}, {"2_b.sql", "x\r\ny\n"}, {"3_c.sql", ""}},
		{{"2_b.sql", "B;\n"}, {"1_a.sql", "A;\n"}, {"readme.md", "doc"}},
		{{"1_a.sql", "A;\n"}, {"2_i.sql", ignoreDirective + "I;\n"}, {"3_c.sql", "C;\n"}},
		{{"1_a.sql", "A;\n"}, {"9_i.sql", ignoreDirective + "I;\n"}},
		// every file opted out of the sum: the sum file is still part of the directory
		{{"1_i.sql", ignoreDirective + "A;\n"}, {"2_i.sql", ignoreDirective + "B;\n"}},
		{{"a b.sql", "A;\n"}, {"c.sql", "h1:x\n"}},
		{{"1.sql", "-- atlas:sum ignore x\nA;\n"}, {"2.sql", "-- atlas:sum  ignore\nB;\n"}, {"3.sql", "-- foo atlas:sum ignore\nC;\n"}},
		{},
		// names holding characters that mean something to fmt / regexp / shells / paths
		{{"1_discount_50%_off.sql", "A;\n"}, {"2_%s_%d_%v.sql", "B;\n"}, {"3_a$b^c(d)[e]{f}+g?.sql", "C;\n"}, {"4_tab\there.sql", "D;\n"}},
		// names that start with a dot (they sort before every version) are migration files like the others
		{{".0_hidden.sql", "H;\n"}, {"1_a.sql", "A;\n"}, {"._1_a.sql", "M;\n"}},
	}
}

// bases whose names violate the NamesOK hypothesis (the excluded side is run on the implementation).
func c06BadNameBases() [][]c06File {
	return [][]c06File{
		{{"1_ah1:b.sql", "A;\n"}},
		{{" 1_a.sql", "A;\n"}, {"2_b.sql", "B;\n"}},
		{{"1_a .sql", "A;\n"}},
	}
}

func cloneFiles(fs []c06File) []c06File { return append([]c06File{}, fs...) }

func c06Edits(base []c06File, sum []byte, thorough bool) []c06Case {
	var out []c06Case
	add := func(edit string, dir []c06File, s *string) {
		out = append(out, c06Case{Base: base, Edit: edit, Dir: dir, Sum: s})
	}
	add("none", cloneFiles(base), nil)
	out = append(out, c06Case{Base: base, Edit: "no-sum-file", Dir: cloneFiles(base), NoSum: true})
	alphabet := []byte{'x', '\r', '\n', ' '}
	for i, f := range base {
		for p := 0; p <= len(f.B); p++ {
			if p < len(f.B) {
				d := cloneFiles(base)
				b := []byte(f.B)
				b[p] ^= 1
				d[i].B = string(b)
				add(fmt.Sprintf("flip:%d@%d", i, p), d, nil)
				d2 := cloneFiles(base)
				d2[i].B = f.B[:p] + f.B[p+1:]
				add(fmt.Sprintf("delete:%d@%d", i, p), d2, nil)
			}
			for _, c := range alphabet {
				d := cloneFiles(base)
				d[i].B = f.B[:p] + string(c) + f.B[p:]
				add(fmt.Sprintf("insert:%d@%d:%q", i, p, c), d, nil)
			}
		}
		// remove
		d := append(cloneFiles(base)[:i:i], base[i+1:]...)
		add(fmt.Sprintf("remove:%d", i), d, nil)
		if isSQL(f.N) {
			// rename: same length, longer, shorter, to another position in the order
			for _, nn := range []string{"0" + f.N[1:], "z" + f.N[1:], f.N[:len(f.N)-4] + "x.sql", "0" + f.N, f.N[:len(f.N)-4] + ".SQL"} {
				if nn == f.N {
					continue
				}
				dup := false
				for _, g := range base {
					if g.N == nn {
						dup = true
					}
				}
				if dup {
					continue
				}
				d := cloneFiles(base)
				d[i].N = nn
				add(fmt.Sprintf("rename:%d->%s", i, nn), d, nil)
			}
		}
		for j := i + 1; j < len(base); j++ {
			if base[j].B != f.B {
				d := cloneFiles(base)
				d[i].B, d[j].B = d[j].B, d[i].B
				add(fmt.Sprintf("swap-contents:%d,%d", i, j), d, nil)
			}
		}
	}
	// additions: before all, in the middle, after all; plain and with the ignore directive
	for _, nn := range []string{"0_new.sql", "1_zz.sql", "5_new.sql", "z_new.sql"} {
		for _, body := range []string{"N;\n", "", ignoreDirective + "N;\n"} {
			dup := false
			for _, g := range base {
				if g.N == nn {
					dup = true
				}
			}
			if dup {
				continue
			}
			add(fmt.Sprintf("add:%s:%q", nn, body), append(cloneFiles(base), c06File{nn, body}), nil)
		}
	}
	add("add-non-sql", append(cloneFiles(base), c06File{"notes.txt", "n"}), nil)
	// edits of atlas.sum
	lines := strings.SplitAfter(string(sum), "\n")
	if len(lines) > 0 && lines[len(lines)-1] == "" {
		lines = lines[:len(lines)-1]
	}
	reheader := func(ls []string) string {
		// recompute the header line for the entry lines ls[1:] the way HashFile.Sum does
		var hf migrate.HashFile
		body := strings.Join(ls[1:], "")
		if err := hf.UnmarshalText([]byte("h1:\n" + body)); err != nil && !errors.Is(err, migrate.ErrChecksumMismatch) {
			return strings.Join(ls, "")
		}
		return "h1:" + hf.Sum() + "\n" + body
	}
	sumEdit := func(name string, ls []string) {
		s := strings.Join(ls, "")
		add("sum:"+name, cloneFiles(base), &s)
		if len(ls) > 0 {
			s2 := reheader(ls)
			if s2 != s {
				add("sum+header:"+name, cloneFiles(base), &s2)
			}
		}
	}
	empty := ""
	add("sum:empty-file", cloneFiles(base), &empty)
	for li, l := range lines {
		ls := append(append([]string{}, lines[:li]...), lines[li+1:]...)
		sumEdit(fmt.Sprintf("delete-line:%d", li), ls)
		ls = append(append(append([]string{}, lines[:li+1]...), l), lines[li+1:]...)
		sumEdit(fmt.Sprintf("dup-line:%d", li), ls)
		if li+1 < len(lines) && li > 0 {
			ls = append([]string{}, lines...)
			ls[li], ls[li+1] = ls[li+1], ls[li]
			sumEdit(fmt.Sprintf("swap-lines:%d", li), ls)
		}
		step := 1
		if !thorough && len(l) > 24 {
			step = 5
		}
		for p := 0; p < len(l); p += step {
			b := []byte(l)
			b[p] ^= 1
			ls = append([]string{}, lines...)
			ls[li] = string(b)
			sumEdit(fmt.Sprintf("flip-line:%d@%d", li, p), ls)
		}
		ls = append([]string{}, lines...)
		ls[li] = strings.TrimSuffix(l, "\n") + "\r\n"
		sumEdit(fmt.Sprintf("crlf-line:%d", li), ls)
		ls = append([]string{}, lines...)
		ls[li] = " " + l
		sumEdit(fmt.Sprintf("indent-line:%d", li), ls)
	}
	s := string(sum) + "\n"
	add("sum:append-blank-line", cloneFiles(base), &s)
	s3 := strings.TrimSuffix(string(sum), "\n")
	add("sum:strip-final-newline", cloneFiles(base), &s3)
	return out
}

// c06Monitor: what the property demands of the outcome for this case.
func c06Monitor(c *c06Case, baseSum []byte, o c06Out) (bool, string, string) {
	if o.Res == "panic" {
		return false, "validate-panics", fmt.Sprintf("Validate panicked on edit %s of %s", c.Edit, hxJSON(c.Base))
	}
	if strings.HasPrefix(o.Res, "harness:") || strings.HasPrefix(o.Res, "other:") {
		return true, "", ""
	}
	sumSame := c.Sum == nil || *c.Sum == string(baseSum)
	filesSame := effective(c.Dir) == effective(c.Base)
	if c.NoSum {
		want := "not-found"
		if effective(c.Dir) == "" {
			want = "ok"
		}
		if o.Res != want {
			return false, "missing-sum-file", fmt.Sprintf("no sum file: got %s want %s", o.Res, want)
		}
		return true, "", ""
	}
	if filesSame && sumSame {
		if o.Res != "ok" {
			if !namesOK(c.Base) {
				return false, "fresh-sum-invalid-for-blank-edged-name", fmt.Sprintf("freshly written sum file does not validate (%s) for a file name with leading/trailing white space or a line break: %s", o.Res, hxJSON(namesOf(c.Base)))
			}
			return false, "untouched-dir-rejected", fmt.Sprintf("untouched directory does not validate: %+v base=%s", o, hxJSON(c.Base))
		}
		return true, "", ""
	}
	if o.Res == "ok" {
		if !filesSame && sumSame && onlyIgnoredDiffers(c.Base, c.Dir) {
			return false, "sum-ignore-exempt", fmt.Sprintf("change limited to files carrying `atlas:sum ignore` is not detected (edit %s)", c.Edit)
		}
		if filesSame && !sumSame {
			// an edit of atlas.sum that parses to the same entries and header (e.g. CRLF line ends,
			// indentation of a name, a missing final newline) – the sum file still states the same thing.
			var a, b migrate.HashFile
			ea := a.UnmarshalText(baseSum)
			eb := b.UnmarshalText([]byte(*c.Sum))
			if ea == nil && eb == nil && hxJSON(a) == hxJSON(b) {
				return true, "", ""
			}
		}
		return false, "tampering-undetected", fmt.Sprintf("edit %s of %s validates", c.Edit, hxJSON(c.Base))
	}
	return true, "", ""
}

func namesOf(fs []c06File) []string {
	var out []string
	for _, f := range fs {
		out = append(out, f.N)
	}
	return out
}

func runC06(e *Env) error {
	pool, err := hx.NewPool(e.Model, e.Workers)
	if err != nil {
		return err
	}
	defer pool.Close()
	work := e.Work
	if work == "" {
		work = os.TempDir()
	}
	type job struct {
		c       c06Case
		baseSum []byte
	}
	var jobs []job
	if e.Replay != "" {
		var doc struct {
			Case struct {
				Case c06Case `json:"case"`
			} `json:"case"`
		}
		b, err := os.ReadFile(e.Replay)
		if err != nil {
			return err
		}
		if err := json.Unmarshal(b, &doc); err != nil {
			return err
		}
		c := doc.Case.Case
		bs, err := sumOfImpl(c.Kind, work, c.Base)
		if err != nil {
			return err
		}
		jobs = append(jobs, job{c, bs})
	} else {
		bases := append(c06Bases(), c06BadNameBases()...)
		for bi, base := range bases {
			for _, kind := range []string{"mem", "local"} {
				bs, err := sumOfImpl(kind, work, base)
				if err != nil {
					e.Res.Note("base %d kind %s: %v", bi, kind, err)
					continue
				}
				// the sum file itself: implementation vs model, byte for byte
				ans, err := pool.Ask(map[string]any{"op": "hash.sum", "files": hexFiles(base)})
				if err != nil {
					return err
				}
				ms, _ := ans["sum"].(string)
				e.Res.Count(fmt.Sprintf("sum:%d:%s", bi, kind), len(base) > 0, "sumfile")
				if ms != hex.EncodeToString(bs) {
					e.Res.Disagree()
					e.Res.Violate("no-failing-input-found", "corr-sumfile-mismatch", fmt.Sprintf("atlas.sum bytes differ for %s", hxJSON(base)),
						"correspondence Atlas.Hash.writeSum", map[string]any{"base": base, "impl": string(bs), "model_hex": ms})
				}
				edits := c06Edits(base, bs, e.Thorough())
				if kind == "local" && !e.Thorough() {
					// LocalDir differs from MemDir only in listing/reading: sample every 4th edit in quick
					var s []c06Case
					for i, c := range edits {
						if i%4 == 0 || !strings.Contains(c.Edit, "@") {
							s = append(s, c)
						}
					}
					edits = s
				}
				for _, c := range edits {
					c.Kind = kind
					jobs = append(jobs, job{c, bs})
				}
			}
		}
		// compound edits (seeded random): two independent single edits of the files
		r := hx.NewRand(e.Seed, "c06-compound")
		n := 300
		if e.Thorough() {
			n = 5000
		}
		good := c06Bases()
		for k := 0; k < n; k++ {
			base := good[r.Intn(len(good)-1)]
			bs, err := sumOfImpl("mem", work, base)
			if err != nil {
				continue
			}
			eds := c06Edits(base, bs, false)
			a, b := eds[r.Intn(len(eds))], eds[r.Intn(len(eds))]
			if a.Sum != nil || b.Sum != nil || a.NoSum || b.NoSum || len(a.Dir) != len(base) || len(b.Dir) != len(base) {
				continue
			}
			// combine: take file i from a if a changed it else from b
			d := cloneFiles(base)
			for i := range d {
				if a.Dir[i] != base[i] {
					d[i] = a.Dir[i]
				} else {
					d[i] = b.Dir[i]
				}
			}
			names := map[string]bool{}
			ok := true
			for _, f := range d {
				if names[f.N] {
					ok = false
				}
				names[f.N] = true
			}
			if !ok {
				continue
			}
			jobs = append(jobs, job{c06Case{Base: base, Edit: "compound:" + a.Edit + "+" + b.Edit, Dir: d, Kind: "mem"}, bs})
		}
		e.Res.Rule = "bases: 9 directories within the NamesOK hypothesis + 3 outside it, on MemDir and LocalDir; per base the exhaustive single-edit neighbourhood (every byte flipped/deleted, 4 bytes inserted at every position, every file removed/renamed 5 ways/contents swapped, files added at 4 positions x 3 bodies, every atlas.sum line deleted/duplicated/swapped/byte-flipped/CRLF/indented with and without recomputed header) + seeded compound edits + writer sequences; non-trivial = the validated directory or sum file differs from the base; distinct by (base, kind, edit)"
		e.Res.Exhaustive = false
	}
	parallel(e.Workers, len(jobs), func(i int) {
		c, bs := jobs[i].c, jobs[i].baseSum
		sum := bs
		if c.Sum != nil {
			sum = []byte(*c.Sum)
		}
		impl := validateImpl(c.Kind, work, c.Dir, sum, !c.NoSum)
		if strings.HasPrefix(impl.Res, "harness:") {
			e.Res.Tag("unusable-on-" + c.Kind)
			return
		}
		if strings.HasPrefix(impl.Res, "executor-gate-differs") {
			e.Res.Violate("failing-input", "executor-gate-differs", fmt.Sprintf("%s directory %v (edit %s): %s", c.Kind, namesOf(c.Dir), c.Edit, impl.Res), "Props.C06.validate_detects (Executor.Pending)", map[string]any{"case": c})
			return
		}
		req := map[string]any{"op": "hash.validate", "files": hexFiles(c.Dir)}
		if !c.NoSum {
			req["sum"] = hex.EncodeToString(sum)
		}
		var model c06Out
		if err := pool.AskInto(req, &model); err != nil {
			e.Res.Note("model error: %v", err)
			return
		}
		cls := strings.SplitN(strings.SplitN(c.Edit, "@", 2)[0], ":", 3)
		tag := cls[0]
		if tag == "sum" || tag == "sum+header" {
			tag += ":" + cls[1]
		}
		e.Res.Count(hxJSON([]any{c.Base, c.Kind, c.Edit}), c.Edit != "none", "edit:"+tag, "res:"+impl.Res, "kind:"+c.Kind)
		if strings.HasPrefix(c.Edit, "rename") || strings.HasPrefix(c.Edit, "sum+header:dup") {
			e.Res.Sample(map[string]any{"base": c.Base, "edit": c.Edit, "impl": impl}, 6)
		}
		okI, sig, what := c06Monitor(&c, bs, impl)
		same := hxJSON(impl) == hxJSON(model)
		if !same {
			e.Res.Disagree()
		}
		replay := map[string]any{"case": c, "impl": impl, "model": model}
		switch {
		case !okI:
			e.Res.Violate("failing-input", sig, what, "Props.C06 / corr hash.validate", replay)
		case !same:
			e.Res.Violate("no-failing-input-found", "corr-validate-mismatch", fmt.Sprintf("implementation %s vs model %s on edit %s of %s", hxJSON(impl), hxJSON(model), c.Edit, hxJSON(c.Base)), "correspondence Atlas.Hash.validate", replay)
		}
	})
	if e.Replay == "" {
		c06Writers(e, pool, work)
		if e.Atlas != "" {
			c06CLI(e, work)
			c06Consumers(e, work, pool)
			c06Import(e, work)
			c06EnvFormat(e, work)
		}
	}
	return nil
}

// c06Writers: every operation that writes to the directory leaves it valid.
func c06Writers(e *Env, pool *hx.Pool, work string) {
	plan := func(name string) *migrate.Plan {
		return &migrate.Plan{Version: name, Name: "p", Changes: []*migrate.Change{{Cmd: "CREATE TABLE t(c int)", Comment: "c"}, {Cmd: "DROP TABLE x"}}}
	}
	for _, kind := range []string{"mem", "local"} {
		seqs := [][]string{
			{"plan:1", "plan:2"},
			{"plan:2", "plan:1"},
			{"plan:1", "checkpoint:2", "plan:3"},
			{"plan:1", "plan:2", "remove:2_p.sql", "rehash"},
			{"plan:1", "plan:22", "rename:22_p.sql:3.sql", "rehash"},
			{"plan:1", "plan:2", "remove:1_p.sql", "remove:2_p.sql", "rehash"},
			{"plan:1", "shrink:1_p.sql", "rehash"},
			{"plan:1", "plan:2", "shrink:2_p.sql", "rehash", "shrink:1_p.sql"},
		}
		for _, seq := range seqs {
			d, done, err := mkDir(kind, work, nil, nil, false)
			if err != nil {
				e.Res.Note("writers: %v", err)
				continue
			}
			bad := ""
			for si, op := range seq {
				parts := strings.Split(op, ":")
				switch parts[0] {
				case "plan":
					err = migrate.NewPlanner(nil, d).WritePlan(plan(parts[1]))
				case "checkpoint":
					err = migrate.NewPlanner(nil, d).WriteCheckpoint(plan(parts[1]), "")
				case "remove":
					err = removeFile(d, parts[1])
				case "rename":
					err = renameFile(d, parts[1], parts[2])
				case "shrink":
					err = d.WriteFile(parts[1], []byte("x;\n"))
				case "rehash":
					var s migrate.HashFile
					if s, err = d.Checksum(); err == nil {
						err = migrate.WriteSumFile(d, s)
					}
				}
				if err != nil {
					bad = fmt.Sprintf("step %d (%s): %v", si, op, err)
					break
				}
				writes := parts[0] == "plan" || parts[0] == "checkpoint" || parts[0] == "rehash"
				verr := migrate.Validate(d)
				if writes && verr != nil {
					bad = fmt.Sprintf("after step %d (%s) the directory does not validate: %v", si, op, verr)
					break
				}
				if parts[0] == "shrink" && verr == nil {
					// an existing file overwritten in place (the directory was listed and validated before)
					bad = fmt.Sprintf("after step %d (%s) - an existing file overwritten in place without re-hashing - the directory still validates", si, op)
					break
				}
			}
			e.Res.Count("writers:"+kind+":"+strings.Join(seq, ","), true, "writers:"+kind)
			if bad != "" {
				e.Res.Violate("failing-input", "writer-leaves-invalid-dir", fmt.Sprintf("%s dir, sequence %v: %s", kind, seq, bad), "Props.C06.writers_leave_valid",
					map[string]any{"kind": kind, "sequence": seq})
			}
			done()
		}
	}
}

func removeFile(d migrate.Dir, name string) error {
	switch x := d.(type) {
	case *migrate.LocalDir:
		return os.Remove(filepath.Join(x.Path(), name))
	case *migrate.MemDir:
		// MemDir has no delete: rebuild it without the file.
		fs, err := x.Files()
		if err != nil {
			return err
		}
		sum, _ := x.Open(migrate.HashFileName)
		_ = sum
		x.Reset()
		for _, f := range fs {
			if f.Name() != name {
				if err := x.WriteFile(f.Name(), f.Bytes()); err != nil {
					return err
				}
			}
		}
		return nil
	}
	return fmt.Errorf("unknown dir")
}

func renameFile(d migrate.Dir, from, to string) error {
	switch x := d.(type) {
	case *migrate.LocalDir:
		return os.Rename(filepath.Join(x.Path(), from), filepath.Join(x.Path(), to))
	case *migrate.MemDir:
		fs, err := x.Files()
		if err != nil {
			return err
		}
		x.Reset()
		for _, f := range fs {
			n := f.Name()
			if n == from {
				n = to
			}
			if err := x.WriteFile(n, f.Bytes()); err != nil {
				return err
			}
		}
		return nil
	}
	return fmt.Errorf("unknown dir")
}

// c06CLI: every CLI command that writes to a migration directory leaves it valid (`migrate validate`
// and the library's Validate on a fresh LocalDir), starting from an empty directory - which is valid.
func c06CLI(e *Env, work string) {
	const schema1 = "CREATE TABLE users (id integer NOT NULL, name text NULL, PRIMARY KEY (id));\n"
	const schema2 = schema1 + "CREATE TABLE posts (id integer NOT NULL, PRIMARY KEY (id));\n"
	const cfg = `variable "migrations_path" {
  type = string
}
data "template_dir" "app" {
  path = var.migrations_path
  vars = {
    name = "users"
  }
}
env "local" {
  src = "file://schema.sql"
  dev = "sqlite://dev?mode=memory"
  migration {
    dir = data.template_dir.app.url
  }
}
`
	type step struct {
		name string
		run  func(dir string) cliOut
	}
	plainDiff := func(name string) step {
		return step{"migrate diff " + name, func(dir string) cliOut {
			return runAtlas(e, dir, nil, "migrate", "diff", name, "--dir", "file://m", "--to", "file://schema.sql", "--dev-url", "sqlite://dev?mode=memory")
		}}
	}
	envDiff := func(name string) step {
		return step{"migrate diff " + name + " --env local (template_dir)", func(dir string) cliOut {
			return runAtlas(e, dir, nil, "migrate", "diff", name, "-c", "file://atlas.hcl", "--env", "local", "--var", "migrations_path="+filepath.Join(dir, "m"))
		}}
	}
	setSchema := func(sql string) step {
		return step{"(edit schema.sql)", func(dir string) cliOut {
			os.WriteFile(filepath.Join(dir, "schema.sql"), []byte(sql), 0o644)
			return cliOut{}
		}}
	}
	newFile := step{"migrate new manual", func(dir string) cliOut {
		return runAtlas(e, dir, nil, "migrate", "new", "manual", "--dir", "file://m")
	}}
	hash := step{"migrate hash", func(dir string) cliOut { return runAtlas(e, dir, nil, "migrate", "hash", "--dir", "file://m") }}
	appendStmt := step{"(append a statement to the last file)", func(dir string) cliOut {
		fs, _ := filepath.Glob(filepath.Join(dir, "m", "*.sql"))
		sort.Strings(fs)
		if len(fs) > 0 {
			f, _ := os.OpenFile(fs[len(fs)-1], os.O_APPEND|os.O_WRONLY, 0o644)
			f.WriteString("CREATE TABLE extra (id integer);\n")
			f.Close()
		}
		return cliOut{}
	}}
	tamper := func(kind string) step {
		return step{"(atlas.sum entries edited, header line kept: " + kind + ")", func(dir string) cliOut {
			p := filepath.Join(dir, "m", "atlas.sum")
			b, err := os.ReadFile(p)
			if err != nil {
				return cliOut{}
			}
			ls := strings.Split(strings.TrimRight(string(b), "\n"), "\n")
			if len(ls) < 3 {
				return cliOut{}
			}
			switch kind {
			case "hash-char":
				r := []byte(ls[1])
				k := len(r) - 5
				if r[k] == 'A' {
					r[k] = 'B'
				} else {
					r[k] = 'A'
				}
				ls[1] = string(r)
			case "swap":
				ls[1], ls[2] = ls[2], ls[1]
			case "remove":
				ls = append(ls[:1], ls[2:]...)
			case "append":
				ls = append(ls, "zz_ghost.sql h1:AAAAAAAAAAAAAAAAAAAAAAAAAAAAAAAAAAAAAAAAAAA=")
			}
			os.WriteFile(p, []byte(strings.Join(ls, "\n")+"\n"), 0o644)
			return cliOut{}
		}}
	}
	scenarios := [][]step{
		{setSchema(schema1), plainDiff("first"), setSchema(schema2), plainDiff("second"), newFile},
		{setSchema(schema1), envDiff("first"), setSchema(schema2), envDiff("second")},
		{setSchema(schema1), plainDiff("first"), setSchema(schema2), envDiff("second"), newFile},
		{newFile, setSchema(schema1), envDiff("first")},
		{setSchema(schema1), plainDiff("first"), appendStmt, hash, setSchema(schema2), plainDiff("second")},
		// `migrate hash` repairs a sum file whose entry lines were edited (the header line still names the right sum)
		{setSchema(schema1), plainDiff("first"), setSchema(schema2), plainDiff("second"), tamper("hash-char"), hash},
		{setSchema(schema1), plainDiff("first"), setSchema(schema2), plainDiff("second"), tamper("swap"), hash},
		{setSchema(schema1), plainDiff("first"), setSchema(schema2), plainDiff("second"), tamper("remove"), hash, newFile},
		{setSchema(schema1), plainDiff("first"), setSchema(schema2), plainDiff("second"), tamper("append"), hash},
	}
	for si, sc := range scenarios {
		dir := filepath.Join(work, fmt.Sprintf("c06cli-%d", si))
		os.RemoveAll(dir)
		os.MkdirAll(filepath.Join(dir, "m"), 0o755)
		os.WriteFile(filepath.Join(dir, "atlas.hcl"), []byte(cfg), 0o644)
		var done []string
		for _, st := range sc {
			o := st.run(dir)
			done = append(done, st.name)
			if strings.HasPrefix(st.name, "(") {
				if strings.HasPrefix(st.name, "(append") {
					continue // the directory is knowingly stale until `migrate hash`
				}
				continue
			}
			e.Res.Count(fmt.Sprintf("cli-writers:%d:%s", si, strings.Join(done, ";")), true, "cli-writers")
			if o.Code != 0 {
				e.Res.Violate("failing-input", "cli-writer-fails", fmt.Sprintf("%v: `%s` fails: %s", done, st.name, trunc(o.Stderr+o.Stdout, 300)), "Props.C06.writers_leave_valid", map[string]any{"steps": done})
				break
			}
			ld, err := migrate.NewLocalDir(filepath.Join(dir, "m"))
			var verr error
			if err == nil {
				verr = migrate.Validate(ld)
			}
			v := runAtlas(e, dir, nil, "migrate", "validate", "--dir", "file://m")
			if err != nil || verr != nil || v.Code != 0 {
				names, _ := filepath.Glob(filepath.Join(dir, "m", "*"))
				e.Res.Violate("failing-input", "cli-writer-leaves-invalid-dir", fmt.Sprintf("after %v the directory %v does not validate: library: %v; `migrate validate`: exit %d %s", done, mapS(names, filepath.Base), verr, v.Code, trunc(v.Stderr+v.Stdout, 200)), "Props.C06.writers_leave_valid", map[string]any{"steps": done})
				break
			}
		}
		os.RemoveAll(dir)
	}
}

// c06Import: `atlas migrate import` from every supported third-party layout (versions that sort differently
// as numbers and as strings, a Flyway repeatable and baseline file, unpadded versions) must leave a
// directory that validates (library and `migrate validate`), whose sum file lists exactly its .sql files in
// name order.
func c06Import(e *Env, work string) {
	type src struct {
		format string
		files  map[string]string
	}
	up := func(t string) string { return "CREATE TABLE " + t + " (id int);\n" }
	srcs := []src{
		{"flyway", map[string]string{"V1__a.sql": up("a"), "V2__b.sql": up("b"), "V10__c.sql": up("c"), "V3__d.sql": up("d"), "R__views.sql": "CREATE VIEW v AS SELECT 1;\n"}},
		{"flyway", map[string]string{"V1__a.sql": up("a"), "V2__b.sql": up("b"), "V3__c.sql": up("c"), "R__views.sql": "CREATE VIEW v AS SELECT 1;\n", "R__zz.sql": "CREATE VIEW z AS SELECT 1;\n"}},
		{"flyway", map[string]string{"B2__base.sql": up("a") + up("b"), "V1__a.sql": up("a"), "V2__b.sql": up("b"), "V3__c.sql": up("c"), "U1__a.sql": "DROP TABLE a;\n"}},
		{"flyway", map[string]string{"V2__b.sql": up("b"), "V10__c.sql": up("c"), "V1.5__x.sql": up("x"), "V1__a.sql": up("a")}},
		{"golang-migrate", map[string]string{"1_a.up.sql": up("a"), "1_a.down.sql": "DROP TABLE a;\n", "2_b.up.sql": up("b"), "2_b.down.sql": "DROP TABLE b;\n", "10_c.up.sql": up("c"), "10_c.down.sql": "DROP TABLE c;\n"}},
		{"goose", map[string]string{"1_a.sql": "-- +goose Up\n" + up("a") + "\n-- +goose Down\nDROP TABLE a;\n", "2_b.sql": "-- +goose Up\n" + up("b"), "10_c.sql": "-- +goose Up\n" + up("c")}},
		{"dbmate", map[string]string{"1_a.sql": "-- migrate:up\n" + up("a") + "\n-- migrate:down\nDROP TABLE a;\n", "2_b.sql": "-- migrate:up\n" + up("b"), "10_c.sql": "-- migrate:up\n" + up("c")}},
		{"liquibase", map[string]string{"1_a.sql": "--liquibase formatted sql\n\n--changeset atlas:1-1\n" + up("a") + "--rollback: DROP TABLE a;\n", "2_b.sql": "--liquibase formatted sql\n\n--changeset atlas:2-1\n" + up("b"), "10_c.sql": "--liquibase formatted sql\n\n--changeset atlas:10-1\n" + up("c")}},
	}
	for si, sc := range srcs {
		dir := filepath.Join(work, fmt.Sprintf("c06imp-%d", si))
		os.RemoveAll(dir)
		os.MkdirAll(filepath.Join(dir, "src"), 0o755)
		os.MkdirAll(filepath.Join(dir, "out"), 0o755)
		var names []string
		for n, c := range sc.files {
			os.WriteFile(filepath.Join(dir, "src", n), []byte(c), 0o644)
			names = append(names, n)
		}
		sort.Strings(names)
		rep := map[string]any{"format": sc.format, "source_files": names}
		o := runAtlas(e, dir, nil, "migrate", "import", "--from", "file://src?format="+sc.format, "--to", "file://out")
		e.Res.Count(fmt.Sprintf("cli-import:%d:%s", si, sc.format), true, "cli-import", "import:"+sc.format)
		if o.Code != 0 {
			e.Res.Violate("failing-input", "cli-writer-fails", fmt.Sprintf("`migrate import` from a %s directory %v fails: %s", sc.format, names, trunc(o.Stderr+o.Stdout, 300)), "Props.C06.writers_leave_valid", rep)
			os.RemoveAll(dir)
			continue
		}
		ld, err := migrate.NewLocalDir(filepath.Join(dir, "out"))
		var verr error
		if err == nil {
			verr = migrate.Validate(ld)
		}
		v := runAtlas(e, dir, nil, "migrate", "validate", "--dir", "file://out")
		got, _ := filepath.Glob(filepath.Join(dir, "out", "*"))
		if err != nil || verr != nil || v.Code != 0 {
			e.Res.Violate("failing-input", "cli-writer-leaves-invalid-dir", fmt.Sprintf("after `migrate import` from the %s directory %v the new directory %v does not validate: library: %v; `migrate validate`: exit %d %s", sc.format, names, mapS(got, filepath.Base), verr, v.Code, trunc(v.Stderr+v.Stdout, 200)), "Props.C06.writers_leave_valid", rep)
		} else {
			// the sum file lists the .sql files in name order
			var want []string
			for _, g := range got {
				if strings.HasSuffix(g, ".sql") {
					want = append(want, filepath.Base(g))
				}
			}
			sort.Strings(want)
			var listed []string
			if b, err := os.ReadFile(filepath.Join(dir, "out", "atlas.sum")); err == nil {
				for i, l := range strings.Split(strings.TrimSpace(string(b)), "\n") {
					if i > 0 {
						if k := strings.LastIndex(l, " h1:"); k > 0 {
							listed = append(listed, l[:k])
						}
					}
				}
			}
			if fmt.Sprint(listed) != fmt.Sprint(want) {
				e.Res.Violate("failing-input", "sum-file-entries-not-in-name-order", fmt.Sprintf("after `migrate import` (%s) atlas.sum lists %v, the directory holds %v", sc.format, listed, want), "Props.C06.writers_leave_valid", rep)
			}
		}
		os.RemoveAll(dir)
	}
}

// c06EnvFormat: a third-party directory whose format is given by the project configuration
// (env { migration { dir, format } }): `migrate hash --env` must leave a directory that `migrate validate
// --env` and the URL form (?format=) accept, and write the same sum file as `migrate hash --dir ...?format=`.
func c06EnvFormat(e *Env, work string) {
	up := func(t string) string { return "CREATE TABLE " + t + " (id int);\n" }
	type src struct {
		format string
		files  map[string]string
	}
	for si, sc := range []src{
		{"golang-migrate", map[string]string{"1_a.up.sql": up("a"), "1_a.down.sql": "DROP TABLE a;\n", "2_b.up.sql": up("b"), "2_b.down.sql": "DROP TABLE b;\n"}},
		{"flyway", map[string]string{"V1__a.sql": up("a"), "V2__b.sql": up("b"), "U1__a.sql": "DROP TABLE a;\n", "R__v.sql": "CREATE VIEW v AS SELECT 1;\n"}},
		{"goose", map[string]string{"1_a.sql": "-- +goose Up\n" + up("a") + "-- +goose Down\nDROP TABLE a;\n", "2_b.sql": "-- +goose Up\n" + up("b")}},
		{"dbmate", map[string]string{"1_a.sql": "-- migrate:up\n" + up("a") + "-- migrate:down\nDROP TABLE a;\n", "2_b.sql": "-- migrate:up\n" + up("b")}},
		{"atlas", map[string]string{"1_a.sql": up("a"), "2_b.sql": up("b")}},
	} {
		dir := filepath.Join(work, fmt.Sprintf("c06env-%d", si))
		os.RemoveAll(dir)
		os.MkdirAll(filepath.Join(dir, "m"), 0o755)
		for n, c := range sc.files {
			os.WriteFile(filepath.Join(dir, "m", n), []byte(c), 0o644)
		}
		os.WriteFile(filepath.Join(dir, "atlas.hcl"), []byte("env \"local\" {\n  dev = \"sqlite://dev?mode=memory\"\n  migration {\n    dir = \"file://m\"\n    format = \""+sc.format+"\"\n  }\n}\n"), 0o644)
		rep := map[string]any{"format": sc.format}
		e.Res.Count(fmt.Sprintf("cli-env-format:%s", sc.format), true, "cli-env-format")
		urlDir := "file://m?format=" + sc.format
		h1 := runAtlas(e, dir, nil, "migrate", "hash", "--dir", urlDir)
		sumURL, _ := os.ReadFile(filepath.Join(dir, "m", "atlas.sum"))
		os.Remove(filepath.Join(dir, "m", "atlas.sum"))
		h2 := runAtlas(e, dir, nil, "migrate", "hash", "--env", "local")
		sumEnv, _ := os.ReadFile(filepath.Join(dir, "m", "atlas.sum"))
		if h1.Code != 0 || h2.Code != 0 {
			e.Res.Violate("failing-input", "cli-writer-fails", fmt.Sprintf("`migrate hash` on a %s directory fails: --dir: %d %s; --env: %d %s", sc.format, h1.Code, trunc(h1.Stderr, 150), h2.Code, trunc(h2.Stderr, 150)), "Props.C06.writers_leave_valid", rep)
			os.RemoveAll(dir)
			continue
		}
		if string(sumURL) != string(sumEnv) {
			e.Res.Violate("failing-input", "cli-writer-leaves-invalid-dir", fmt.Sprintf("`migrate hash --env local` (format %s from the configuration) writes another sum file than `migrate hash --dir %s`:\n%s\nvs\n%s", sc.format, urlDir, trunc(string(sumEnv), 300), trunc(string(sumURL), 300)), "Props.C06.writers_leave_valid", rep)
		}
		v1 := runAtlas(e, dir, nil, "migrate", "validate", "--env", "local")
		v2 := runAtlas(e, dir, nil, "migrate", "validate", "--dir", urlDir)
		if v1.Code != 0 || v2.Code != 0 {
			e.Res.Violate("failing-input", "cli-writer-leaves-invalid-dir", fmt.Sprintf("after `migrate hash --env local` the %s directory does not validate: --env: exit %d %s; --dir %s: exit %d %s", sc.format, v1.Code, trunc(v1.Stderr+v1.Stdout, 200), urlDir, v2.Code, trunc(v2.Stderr+v2.Stdout, 200)), "Props.C06.writers_leave_valid", rep)
		}
		os.RemoveAll(dir)
	}
}
