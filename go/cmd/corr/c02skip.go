package main

import (
	"fmt"
	"sort"
	"strings"
	"sync"

	"ariga.io/atlas/sql/schema"
	"verifharness/internal/hx"
)

// the change kinds `schema.DiffSkipChanges` is asked to skip, by the name the model knows them under
var c02SkipKinds = map[string]schema.Change{
	"add_table": &schema.AddTable{}, "drop_table": &schema.DropTable{}, "modify_table": &schema.ModifyTable{},
	"add_column": &schema.AddColumn{}, "drop_column": &schema.DropColumn{}, "modify_column": &schema.ModifyColumn{},
	"add_index": &schema.AddIndex{}, "drop_index": &schema.DropIndex{}, "modify_index": &schema.ModifyIndex{},
	"add_foreign_key": &schema.AddForeignKey{}, "drop_foreign_key": &schema.DropForeignKey{}, "modify_foreign_key": &schema.ModifyForeignKey{},
	"add_check": &schema.AddCheck{}, "drop_check": &schema.DropCheck{}, "modify_check": &schema.ModifyCheck{},
	"add_primary_key": &schema.AddPrimaryKey{}, "drop_primary_key": &schema.DropPrimaryKey{}, "modify_primary_key": &schema.ModifyPrimaryKey{},
}

// c02KindOf: the kind name of a canonical change string ("1:addColumn 8", "dropTable 4").
func c02KindOf(canon string) string {
	w := canon
	if i := strings.Index(w, ":"); i >= 0 {
		w = w[i+1:]
	}
	w = strings.Fields(w)[0]
	w = strings.NewReplacer("FK", "ForeignKey", "PK", "PrimaryKey").Replace(w)
	var b strings.Builder
	for i, r := range w {
		if r >= 'A' && r <= 'Z' {
			if i > 0 {
				b.WriteByte('_')
			}
			b.WriteRune(r + 32)
		} else {
			b.WriteRune(r)
		}
	}
	return b.String()
}

// c02Skip: random sets of catalogue edits x random skip lists through the real differs with
// schema.DiffSkipChanges: the reported changes are exactly the edits of the other kinds (none of a skipped
// kind at either nesting level, none of the others lost) and equal the model Atlas.Diff.schemaDiffSkip.
func c02Skip(e *Env, pool *hx.Pool, viol func(kind, sig, what, chk string, rep any), mu *sync.Mutex) {
	cat := c02Catalogue()
	var kinds []string
	for k := range c02SkipKinds {
		kinds = append(kinds, k)
	}
	sort.Strings(kinds)
	n := 150
	if e.Thorough() {
		n = 3000
	}
	for _, d := range []string{"mysql", "postgres", "sqlite"} {
		r := hx.NewRand(e.Seed, "c02-skip-"+d)
		base := c02Base()
		for k := 0; k < n; k++ {
			edited := cloneTables(base)
			var expect, descs []string
			usedObj := map[string]bool{}
			want := 1 + r.Intn(4)
			for tries := 0; len(descs) < want && tries < 30; tries++ {
				ed := cat[r.Intn(len(cat))]
				if ed.NoSQLite && d == "sqlite" || ed.BaseDefault != 0 || ed.BasePartAttr != 0 || ed.OnlyDialect != "" && ed.OnlyDialect != d {
					continue
				}
				clash := false
				for _, o := range editTables(ed) {
					clash = clash || usedObj[o]
				}
				if clash {
					continue
				}
				for _, o := range editTables(ed) {
					usedObj[o] = true
				}
				edited = ed.Apply(edited)
				expect = append(expect, ed.Expect...)
				descs = append(descs, ed.Desc)
			}
			// the skip list: kinds that occur, kinds that do not, modify_table now and then
			skip := map[string]bool{}
			for _, x := range expect {
				if kd := c02KindOf(x); c02SkipKinds[kd] != nil && r.Chance(1, 2) {
					skip[kd] = true
				}
			}
			for i := 0; i < r.Intn(3); i++ {
				skip[hx.Pick(r, kinds)] = true
			}
			if r.Chance(1, 10) {
				skip["modify_table"] = true
			}
			var skipL []string
			var skipC []schema.Change
			for kd := range skip {
				skipL = append(skipL, kd)
			}
			sort.Strings(skipL)
			for _, kd := range skipL {
				skipC = append(skipC, c02SkipKinds[kd])
			}
			var wantL []string
			for _, x := range expect {
				if skip[c02KindOf(x)] || strings.Contains(x, ":") && skip["modify_table"] {
					continue
				}
				wantL = append(wantL, x)
			}
			sort.Strings(wantL)
			id := fmt.Sprintf("skip-%d:%s skip=%v", k, strings.Join(descs, " + "), skipL)
			rep := map[string]any{"dialect": d, "case": id, "from": base, "to": edited, "skip": skipL}
			var got []string
			err := func() (err error) {
				defer func() {
					if p := recover(); p != nil {
						err = fmt.Errorf("panic: %v", p)
					}
				}()
				cs, err := c02Differ(d).SchemaDiff(c02Build(d, base), c02Build(d, edited), append([]schema.DiffOption{schema.DiffNormalized()}, skipOpts(skipC, k)...)...)
				if err != nil {
					return err
				}
				got = c02Canon(cs)
				return nil
			}()
			mu.Lock()
			e.Res.Count(d+"/"+id, len(skipL) > 0 && len(expect) > 0, "dialect:"+d, "skip-lists")
			mu.Unlock()
			if err != nil {
				viol("failing-input", "diff-error", fmt.Sprintf("%s %s: SchemaDiff fails: %v", d, id, err), "Props.C19 / C02", rep)
				continue
			}
			if fmt.Sprint(got) != fmt.Sprint(wantL) {
				sig := "unskipped-change-lost"
				for _, x := range got {
					if skip[c02KindOf(x)] || strings.Contains(x, ":") && skip["modify_table"] {
						sig = "skipped-kind-in-change-set"
					}
				}
				viol("failing-input", sig, fmt.Sprintf("%s %s: SchemaDiff with DiffSkipChanges reports %v; the edits of the other kinds are %v (all edits: %v)", d, id, got, wantL, expect), "Props.C19.skip_nested_sound / skip_nested_complete", rep)
			}
			var ans struct {
				Changes []string `json:"changes"`
			}
			if err := pool.AskInto(map[string]any{"op": "diff.schema", "from": base, "to": edited, "skip": skipL}, &ans); err == nil {
				sort.Strings(ans.Changes)
				if fmt.Sprint(ans.Changes) != fmt.Sprint(got) {
					mu.Lock()
					e.Res.Disagree()
					mu.Unlock()
					viol("no-failing-input-found", "corr-diff-mismatch", fmt.Sprintf("%s %s: implementation %v, model %v", d, id, got, ans.Changes), "correspondence Atlas.Diff.schemaDiffSkip", rep)
				}
			}
		}
	}
}
