package main

import (
	"context"
	"fmt"
	"strings"

	"ariga.io/atlas/sql/migrate"
)

// c09ExecuteTo: Executor.ExecuteTo / ExecuteN called several times on ONE Executor (a target version in front of
// a checkpoint file, the same target again - nothing pending -, then the rest) send the statements a fresh
// Executor per call sends: every statement of every file once, in order.
func c09ExecuteTo(e *Env) {
	for li, layout := range [][]string{
		{"1", "2", "3ck", "4", "5"},
		{"1", "2", "3", "4ck", "5"},
		{"1", "2", "3", "4", "5"},
	} {
		mk := func() *migrate.MemDir {
			d := &migrate.MemDir{}
			for _, v := range layout {
				ck := strings.HasSuffix(v, "ck")
				v = strings.TrimSuffix(v, "ck")
				body := fmt.Sprintf("S%s_1;\nS%s_2;\n", v, v)
				if ck {
					body = "-- atlas:checkpoint\n\n" + body
				}
				d.WriteFile(v+"_f.sql", []byte(body))
			}
			sum, _ := d.Checksum()
			migrate.WriteSumFile(d, sum)
			return d
		}
		type call struct {
			to string // "" = ExecuteN(0)
		}
		calls := []call{{"2"}, {"2"}, {""}, {""}}
		run := func(reuse bool) (string, string) {
			w := &fmtWorld{revs: map[string]*migrate.Revision{}, failAt: -1}
			dir := mk()
			var ex *migrate.Executor
			var results []string
			for _, c := range calls {
				if ex == nil || !reuse {
					var err error
					if ex, err = migrate.NewExecutor(&fmtDrv{w: w}, dir, &fmtRRW{w}); err != nil {
						return "", "other:" + err.Error()
					}
				}
				w.n = 0
				func() {
					defer func() {
						if p := recover(); p != nil {
							results = append(results, "panic")
						}
					}()
					if c.to != "" {
						results = append(results, classify(ex.ExecuteTo(context.Background(), c.to)))
					} else {
						results = append(results, classify(ex.ExecuteN(context.Background(), 0)))
					}
				}()
			}
			return strings.Join(w.calls, " | "), strings.Join(results, ",")
		}
		freshCalls, freshRes := run(false)
		reuseCalls, reuseRes := run(true)
		id := fmt.Sprintf("ExecuteTo(2), ExecuteTo(2), ExecuteN, ExecuteN on directory %v", layout)
		e.Res.Count(fmt.Sprintf("c09-executeto:%d", li), true, "execute-to")
		if freshCalls != reuseCalls || freshRes != reuseRes {
			e.Res.Violate("failing-input", "executor-reuse-differs", fmt.Sprintf("%s: one Executor for all calls sends [%s] (results %s), a fresh Executor per call [%s] (results %s)", id, reuseCalls, reuseRes, freshCalls, freshRes), "Props.C09 every statement once, in order (ExecuteTo)", map[string]any{"case": id})
		}
		// and the whole directory was executed exactly once
		var want []string
		for _, v := range layout {
			v = strings.TrimSuffix(v, "ck")
			want = append(want, fmt.Sprintf("S%s_1;", v), fmt.Sprintf("S%s_2;", v))
		}
		if li == 2 && freshCalls != strings.Join(want, " | ") {
			e.Res.Violate("failing-input", "not-completed", fmt.Sprintf("%s: the calls sent [%s], the directory holds [%s]", id, freshCalls, strings.Join(want, " | ")), "Props.C09 every statement once, in order (ExecuteTo)", map[string]any{"case": id})
		}
	}
}
