package main

import (
	"fmt"
	"os"
	"path/filepath"
	"strings"
)

// c05CLI: the rebuild through the real binary, in a transaction (`schema apply`, default tx mode) and with
// foreign keys ENFORCED on the connection (?_fk=1): the parent table of cascading children is rebuilt
// (column dropped / type changed / column made NOT NULL with a default); the children - which are not part of
// the change set - keep every row and value, the parent keeps every row. Run for every URL flavour of the
// SQLite driver that opens a local file (sqlite://, libsql+file://).
func c05CLI(e *Env) {
	if e.Atlas == "" {
		return
	}
	const children = "CREATE TABLE posts (id integer NOT NULL, user_id integer NOT NULL, title text NOT NULL, PRIMARY KEY (id), CONSTRAINT author FOREIGN KEY (user_id) REFERENCES users (id) ON DELETE CASCADE);\n" +
		"CREATE TABLE audit (id integer NOT NULL, user_id integer NULL, what text NOT NULL, PRIMARY KEY (id), CONSTRAINT actor FOREIGN KEY (user_id) REFERENCES users (id) ON DELETE SET NULL);\n"
	const usersOld = "CREATE TABLE users (id integer NOT NULL, name text NOT NULL, legacy text NULL, age integer NULL, PRIMARY KEY (id));\n"
	edits := []struct{ name, users string }{
		{"a column of the parent is dropped", "CREATE TABLE users (id integer NOT NULL, name text NOT NULL, age integer NULL, PRIMARY KEY (id));\n"},
		{"a column of the parent changes its type", "CREATE TABLE users (id integer NOT NULL, name text NOT NULL, legacy text NULL, age text NULL, PRIMARY KEY (id));\n"},
		{"a column of the parent becomes NOT NULL with a default", "CREATE TABLE users (id integer NOT NULL, name text NOT NULL, legacy text NULL, age integer NOT NULL DEFAULT 0, PRIMARY KEY (id));\n"},
	}
	flavours := []struct{ name, url string }{
		{"sqlite", "sqlite://%s?_fk=1"},
		{"libsql+file", "libsql+file://%s?_fk=1"},
	}
	modes := [][]string{nil, {"--tx-mode", "none"}, {"--format", "{{ sql . }}"}, {"--format", "{{ json . }}", "--tx-mode", "file"}}
	k := 0
	for _, ed := range edits {
		for _, fl := range flavours {
			for _, mode := range modes {
				k++
				dir := filepath.Join(e.Work, fmt.Sprintf("c05cli-%d", k))
				os.RemoveAll(dir)
				os.MkdirAll(dir, 0o755)
				dbp := filepath.Join(dir, "db.sqlite")
				seed := []string{strings.TrimSpace(usersOld)}
				for _, s := range strings.Split(strings.TrimSpace(children), "\n") {
					seed = append(seed, s)
				}
				seed = append(seed,
					"INSERT INTO users VALUES (1, 'a', 'x', 30), (2, 'b', NULL, NULL), (3, 'c', 'z', 7)",
					"INSERT INTO posts VALUES (1, 1, 'p1'), (2, 1, 'p2'), (3, 2, 'p3'), (4, 3, 'p4')",
					"INSERT INTO audit VALUES (1, 1, 'w1'), (2, NULL, 'w2'), (3, 3, 'w3')")
				if err := execSQL(dbp, seed...); err != nil {
					os.RemoveAll(dir)
					continue
				}
				os.WriteFile(filepath.Join(dir, "desired.sql"), []byte(ed.users+children), 0o644)
				before := dumpDB(dbp)
				args := append([]string{"schema", "apply", "--url", fmt.Sprintf(fl.url, "db.sqlite"), "--to", "file://desired.sql", "--dev-url", "sqlite://dev?mode=memory", "--auto-approve"}, mode...)
				o := runAtlas(e, dir, nil, args...)
				after := dumpDB(dbp)
				id := fmt.Sprintf("%s, %s URL, %v", ed.name, fl.name, mode)
				e.Res.Count("cli-rebuild:"+id, true, "cli-rebuild", "flavour:"+fl.name)
				rep := map[string]any{"edit": ed.name, "url": fl.url, "args": mode}
				rowsOf := func(d dbDump, t string) string { return strings.Join(d.Rows[t], " ") }
				switch {
				case o.Code != 0:
					// a refusal must leave everything in place
					if rowsOf(after, "posts") != rowsOf(before, "posts") || rowsOf(after, "audit") != rowsOf(before, "audit") || rowsOf(after, "users") != rowsOf(before, "users") {
						e.Res.Violate("failing-input", "cli-refused-apply-changes-rows", fmt.Sprintf("%s: `schema apply` fails (%s) and the rows changed", id, trunc(o.Stderr+o.Stdout, 200)), "Props.C05 (CLI)", rep)
					}
				case rowsOf(after, "posts") != rowsOf(before, "posts") || rowsOf(after, "audit") != rowsOf(before, "audit"):
					e.Res.Violate("failing-input", "cli-rebuild-touches-other-table", fmt.Sprintf("%s: after `schema apply` (foreign keys enforced on the connection) the tables that reference the rebuilt one changed: posts %s -> %s; audit %s -> %s", id, rowsOf(before, "posts"), rowsOf(after, "posts"), rowsOf(before, "audit"), rowsOf(after, "audit")), "Props.C05 untouched tables (CLI)", rep)
				case len(after.Rows["users"]) != len(before.Rows["users"]):
					e.Res.Violate("failing-input", "cli-rebuild-loses-rows", fmt.Sprintf("%s: users had %d rows, has %d", id, len(before.Rows["users"]), len(after.Rows["users"])), "Props.C05 rows preserved (CLI)", rep)
				}
				os.RemoveAll(dir)
			}
		}
	}
}
