package main

// C02: diff is exact. Abstract schemas (tables, columns with type/null/default/comment tokens, primary
// keys, named unique/multi-column/descending indexes, foreign keys with actions, named and unnamed
// checks, table comments) are instantiated for MySQL, PostgreSQL and SQLite; the real differs
// (DefaultDiff.SchemaDiff in the CLI's normalized mode) are run on (base, edited copy) for the
// exhaustive single-edit catalogue, for random sets of 2-4 edits, for identical / deep-copied /
// reordered schemas; the reported changes are compared (as multisets of canonical change strings
// with kind flags) with (1) the catalogue's own expectation and (2) the Lean model Atlas.Diff.

import (
	"fmt"
	"regexp"
	"sort"
	"strconv"
	"strings"
	"sync"

	"ariga.io/atlas/sql/mysql"
	"ariga.io/atlas/sql/postgres"
	"ariga.io/atlas/sql/schema"
	"ariga.io/atlas/sql/sqlite"
	"verifharness/internal/hx"
)

func init() { commands["C02"] = runC02 }

type aCol struct {
	Name  int   `json:"name"`
	Attrs []int `json:"attrs"` // type, null, default, comment
}

type aPart struct {
	Col  int  `json:"col"`
	Desc bool `json:"desc"`
	Attr int  `json:"attr,omitempty"` // dialect part attribute token: MySQL prefix length, PostgreSQL non-default NULLS ordering
}

type aIdx struct {
	Name   *int    `json:"name,omitempty"`
	Unique bool    `json:"unique"`
	Parts  []aPart `json:"parts"`
	Attrs  int     `json:"attrs"`
	// Gen: the index carries the name the database generates for an unnamed index / UNIQUE constraint on
	// these parts (MySQL: the first column, PostgreSQL: <table>_<columns>_key, SQLite: sqlite_autoindex_<table>_<n>);
	// Name is then the token 90 + number of the first column.
	Gen bool `json:"generated,omitempty"`
	// Perm: build the schema.Index with its Parts slice in reverse order (SeqNo still gives the real
	// order); not part of the abstract schema, hence not sent to the model.
	Perm bool `json:"-"`
}

type aFK struct {
	Symbol   int   `json:"symbol"`
	Cols     []int `json:"cols"`
	RefTable int   `json:"ref_table"`
	RefCols  []int `json:"ref_cols"`
	OnUpdate int   `json:"on_update"`
	OnDelete int   `json:"on_delete"`
}

type aCheck struct {
	Name *int `json:"name,omitempty"`
	Expr int  `json:"expr"`
}

type aTable struct {
	Name   int      `json:"name"`
	Attrs  int      `json:"attrs"`
	Cols   []aCol   `json:"cols"`
	PK     *aIdx    `json:"pk,omitempty"`
	Idxs   []aIdx   `json:"idxs"`
	FKs    []aFK    `json:"fks"`
	Checks []aCheck `json:"checks"`
}

func ip(i int) *int { return &i }

func cloneTables(ts []aTable) []aTable {
	out := make([]aTable, len(ts))
	for i, t := range ts {
		c := t
		c.Cols = make([]aCol, len(t.Cols))
		for k, col := range t.Cols {
			c.Cols[k] = aCol{col.Name, append([]int{}, col.Attrs...)}
		}
		if t.PK != nil {
			pk := *t.PK
			pk.Parts = append([]aPart{}, t.PK.Parts...)
			c.PK = &pk
		}
		c.Idxs = make([]aIdx, len(t.Idxs))
		for k, ix := range t.Idxs {
			c.Idxs[k] = ix
			c.Idxs[k].Parts = append([]aPart{}, ix.Parts...)
		}
		c.FKs = make([]aFK, len(t.FKs))
		for k, f := range t.FKs {
			c.FKs[k] = f
			c.FKs[k].Cols = append([]int{}, f.Cols...)
			c.FKs[k].RefCols = append([]int{}, f.RefCols...)
		}
		c.Checks = append([]aCheck{}, t.Checks...)
		out[i] = c
	}
	return out
}

func c02Base() []aTable {
	return []aTable{
		{Name: 1, Cols: []aCol{{1, []int{0, 0, 0, 0}}, {2, []int{2, 1, 0, 0}}, {3, []int{0, 1, 1, 0}}, {4, []int{1, 0, 0, 0}}},
			PK:     &aIdx{Parts: []aPart{{Col: 1, Desc: false}}},
			Idxs:   []aIdx{{Name: ip(1), Unique: true, Parts: []aPart{{Col: 2, Desc: false}}}, {Name: ip(2), Parts: []aPart{{Col: 3, Attr: 1}, {Col: 4, Desc: true}}}},
			Checks: []aCheck{{Name: ip(1), Expr: 1}, {Name: ip(2), Expr: 2}}},
		{Name: 2, Cols: []aCol{{1, []int{0, 0, 0, 0}}, {2, []int{0, 1, 0, 0}}, {3, []int{0, 1, 0, 0}}},
			PK:   &aIdx{Parts: []aPart{{Col: 1, Desc: false}}},
			Idxs: []aIdx{{Name: ip(3), Parts: []aPart{{Col: 2, Desc: false}}}},
			FKs:  []aFK{{Symbol: 1, Cols: []int{2}, RefTable: 1, RefCols: []int{1}, OnUpdate: 0, OnDelete: 1}, {Symbol: 2, Cols: []int{3}, RefTable: 2, RefCols: []int{1}, OnUpdate: 1, OnDelete: 2}}},
		{Name: 3, Cols: []aCol{{1, []int{2, 0, 0, 0}}, {2, []int{0, 1, 2, 0}}}},
	}
}

type aEdit struct {
	Desc                        string
	Apply                       func(ts []aTable) []aTable
	Expect                      []string // canonical changes
	NoSQLite, OnlyNamedDialects bool
	// BaseDefault: token of the default t3.c1 has in the base of this edit (0: none)
	BaseDefault int
	// BasePartAttr: attribute token of the second part of t1.i2 in the base of this edit; OnlyDialect
	// restricts the edit to one dialect
	BasePartAttr int
	OnlyDialect  string
}

func tIdx(ts []aTable, name int) int {
	for i := range ts {
		if ts[i].Name == name {
			return i
		}
	}
	return -1
}

var colKindNames = []string{"type", "null", "default", "comment"}

func c02Catalogue() []aEdit {
	var es []aEdit
	add := func(d string, exp []string, f func(ts []aTable) []aTable) *aEdit {
		es = append(es, aEdit{Desc: d, Apply: f, Expect: exp})
		return &es[len(es)-1]
	}
	add("add-table", []string{"addTable 9"}, func(ts []aTable) []aTable {
		return append(ts, aTable{Name: 9, Cols: []aCol{{1, []int{0, 0, 0, 0}}}})
	})
	add("add-table-front", []string{"addTable 9"}, func(ts []aTable) []aTable {
		return append([]aTable{{Name: 9, Cols: []aCol{{1, []int{0, 0, 0, 0}}}}}, ts...)
	})
	add("drop-table", []string{"dropTable 3"}, func(ts []aTable) []aTable { i := tIdx(ts, 3); return append(ts[:i:i], ts[i+1:]...) })
	for _, tn := range []int{1, 3} {
		tn := tn
		add(fmt.Sprintf("add-column t%d", tn), []string{fmt.Sprintf("%d:addColumn 8", tn)}, func(ts []aTable) []aTable {
			i := tIdx(ts, tn)
			ts[i].Cols = append(ts[i].Cols, aCol{8, []int{0, 1, 0, 0}})
			return ts
		})
		add(fmt.Sprintf("add-column-front t%d", tn), []string{fmt.Sprintf("%d:addColumn 8", tn)}, func(ts []aTable) []aTable {
			i := tIdx(ts, tn)
			ts[i].Cols = append([]aCol{{8, []int{0, 1, 0, 0}}}, ts[i].Cols...)
			return ts
		})
	}
	add("drop-column", []string{"3:dropColumn 2"}, func(ts []aTable) []aTable { i := tIdx(ts, 3); ts[i].Cols = ts[i].Cols[:1]; return ts })
	// every non-empty subset of the four column attributes, on two columns
	for mask := 1; mask < 16; mask++ {
		for _, tc := range [][2]int{{3, 2}, {1, 4}} {
			mask, tc := mask, tc
			var ks []string
			for b := 0; b < 4; b++ {
				if mask&(1<<b) != 0 {
					ks = append(ks, fmt.Sprint(b))
				}
			}
			e := add(fmt.Sprintf("modify-column t%d.c%d kinds=%v", tc[0], tc[1], ks), []string{fmt.Sprintf("%d:modifyColumn %d [%s]", tc[0], tc[1], strings.Join(ks, " "))}, func(ts []aTable) []aTable {
				i := tIdx(ts, tc[0])
				for k := range ts[i].Cols {
					if ts[i].Cols[k].Name == tc[1] {
						for b := 0; b < 4; b++ {
							if mask&(1<<b) != 0 {
								if b == 1 {
									ts[i].Cols[k].Attrs[b] = 1 - ts[i].Cols[k].Attrs[b]
								} else if b == 0 {
									ts[i].Cols[k].Attrs[b] = (ts[i].Cols[k].Attrs[b] + 1) % 2 // integer <-> floating point (another affinity in SQLite)
								} else {
									ts[i].Cols[k].Attrs[b] = ts[i].Cols[k].Attrs[b] + 1
								}
							}
						}
					}
				}
				return ts
			})
			if mask&8 != 0 {
				e.NoSQLite = true // no column comments in SQLite
			}
		}
	}
	// every ordered pair of distinct string defaults (and the identical pair) on the text column t3.c1
	for a := 0; a <= len(c02TextDefaults); a++ {
		for b := 0; b <= len(c02TextDefaults); b++ {
			a, b := a, b
			if a == 0 && b == 0 {
				continue
			}
			var exp []string
			if a != b {
				exp = []string{"3:modifyColumn 1 [2]"}
			}
			e := add(fmt.Sprintf("text-default %d->%d", a, b), exp, func(ts []aTable) []aTable {
				i := tIdx(ts, 3)
				for k := range ts[i].Cols {
					if ts[i].Cols[k].Name == 1 {
						ts[i].Cols[k].Attrs[2] = b
					}
				}
				return ts
			})
			e.BaseDefault = a
		}
	}
	add("add-pk", []string{"3:addPK"}, func(ts []aTable) []aTable {
		i := tIdx(ts, 3)
		ts[i].PK = &aIdx{Parts: []aPart{{Col: 1, Desc: false}}}
		return ts
	})
	add("drop-pk", []string{"2:dropPK"}, func(ts []aTable) []aTable { i := tIdx(ts, 2); ts[i].PK = nil; return ts })
	add("modify-pk-parts", []string{"2:modifyPK [2]"}, func(ts []aTable) []aTable {
		i := tIdx(ts, 2)
		ts[i].PK.Parts = []aPart{{Col: 1, Desc: false}, {Col: 2, Desc: false}}
		return ts
	})
	add("add-index", []string{"3:addIndex 7"}, func(ts []aTable) []aTable {
		i := tIdx(ts, 3)
		ts[i].Idxs = append(ts[i].Idxs, aIdx{Name: ip(7), Parts: []aPart{{Col: 2, Desc: false}}})
		return ts
	})
	add("add-unique-index", []string{"1:addIndex 7"}, func(ts []aTable) []aTable {
		i := tIdx(ts, 1)
		ts[i].Idxs = append([]aIdx{{Name: ip(7), Unique: true, Parts: []aPart{{Col: 4, Desc: false}, {Col: 3, Desc: true}}}}, ts[i].Idxs...)
		return ts
	})
	add("drop-index", []string{"1:dropIndex 2"}, func(ts []aTable) []aTable { i := tIdx(ts, 1); ts[i].Idxs = ts[i].Idxs[:1]; return ts })
	add("drop-index-covering-fk-columns", []string{"2:dropIndex 3"}, func(ts []aTable) []aTable { i := tIdx(ts, 2); ts[i].Idxs = nil; return ts })
	add("modify-index-unique", []string{"1:modifyIndex 2 [0]"}, func(ts []aTable) []aTable { i := tIdx(ts, 1); ts[i].Idxs[1].Unique = true; return ts })
	add("modify-index-desc", []string{"1:modifyIndex 2 [2]"}, func(ts []aTable) []aTable { i := tIdx(ts, 1); ts[i].Idxs[1].Parts[0].Desc = true; return ts })
	add("modify-index-column", []string{"1:modifyIndex 1 [2]"}, func(ts []aTable) []aTable { i := tIdx(ts, 1); ts[i].Idxs[0].Parts[0].Col = 3; return ts })
	add("modify-index-part-order", []string{"1:modifyIndex 2 [2]"}, func(ts []aTable) []aTable {
		i := tIdx(ts, 1)
		p := ts[i].Idxs[1].Parts
		ts[i].Idxs[1].Parts = []aPart{p[1], p[0]}
		return ts
	})
	add("modify-index-add-part", []string{"1:modifyIndex 1 [2]"}, func(ts []aTable) []aTable {
		i := tIdx(ts, 1)
		ts[i].Idxs[0].Parts = append(ts[i].Idxs[0].Parts, aPart{Col: 3, Desc: false})
		return ts
	})
	add("modify-index-part-attr", []string{"1:modifyIndex 2 [2]"}, func(ts []aTable) []aTable {
		i := tIdx(ts, 1)
		ts[i].Idxs[1].Parts[1].Attr = 2
		return ts
	}).NoSQLite = true // prefix lengths / NULLS ordering do not exist in SQLite
	add("move-index-part-attr", []string{"1:modifyIndex 2 [2]"}, func(ts []aTable) []aTable {
		i := tIdx(ts, 1)
		ts[i].Idxs[1].Parts[0].Attr, ts[i].Idxs[1].Parts[1].Attr = 0, 1
		return ts
	}).NoSQLite = true
	add("drop-index-part-attr", []string{"1:modifyIndex 2 [2]"}, func(ts []aTable) []aTable {
		i := tIdx(ts, 1)
		ts[i].Idxs[1].Parts[0].Attr = 0
		return ts
	}).NoSQLite = true
	// PostgreSQL operator classes: same class with another parameter value, another class
	for _, ab := range [][2]int{{2, 3}, {3, 2}, {2, 4}, {4, 2}, {2, 5}} {
		ab := ab
		e := add(fmt.Sprintf("modify-index-opclass %d->%d", ab[0], ab[1]), []string{"1:modifyIndex 2 [2]"}, func(ts []aTable) []aTable {
			i := tIdx(ts, 1)
			for k := range ts[i].Idxs {
				if ts[i].Idxs[k].Name != nil && *ts[i].Idxs[k].Name == 2 {
					ts[i].Idxs[k].Parts[1].Attr = ab[1]
				}
			}
			return ts
		})
		e.BasePartAttr, e.OnlyDialect = ab[0], "postgres"
	}
	add("modify-index-unique+parts", []string{"1:modifyIndex 2 [0 2]"}, func(ts []aTable) []aTable {
		i := tIdx(ts, 1)
		ts[i].Idxs[1].Unique = true
		ts[i].Idxs[1].Parts[1].Desc = false
		return ts
	})
	add("add-fk", []string{"3:addFK 7"}, func(ts []aTable) []aTable {
		i := tIdx(ts, 3)
		ts[i].FKs = append(ts[i].FKs, aFK{Symbol: 7, Cols: []int{2}, RefTable: 1, RefCols: []int{1}})
		return ts
	})
	add("drop-fk", []string{"2:dropFK 2"}, func(ts []aTable) []aTable { i := tIdx(ts, 2); ts[i].FKs = ts[i].FKs[:1]; return ts })
	add("modify-fk-on-update", []string{"2:modifyFK 1 [3]"}, func(ts []aTable) []aTable { i := tIdx(ts, 2); ts[i].FKs[0].OnUpdate = 2; return ts })
	add("modify-fk-on-delete", []string{"2:modifyFK 1 [4]"}, func(ts []aTable) []aTable { i := tIdx(ts, 2); ts[i].FKs[0].OnDelete = 3; return ts })
	add("modify-fk-both-actions", []string{"2:modifyFK 2 [3 4]"}, func(ts []aTable) []aTable {
		i := tIdx(ts, 2)
		ts[i].FKs[1].OnUpdate, ts[i].FKs[1].OnDelete = 0, 0
		return ts
	})
	add("modify-fk-column", []string{"2:modifyFK 1 [2]"}, func(ts []aTable) []aTable { i := tIdx(ts, 2); ts[i].FKs[0].Cols = []int{3}; return ts })
	add("modify-fk-ref-column", []string{"2:modifyFK 1 [1]"}, func(ts []aTable) []aTable { i := tIdx(ts, 2); ts[i].FKs[0].RefCols = []int{3}; return ts })
	add("modify-fk-ref-table", []string{"2:modifyFK 1 [0 1]"}, func(ts []aTable) []aTable { i := tIdx(ts, 2); ts[i].FKs[0].RefTable = 3; return ts })
	add("modify-fk-add-column", []string{"2:modifyFK 1 [1 2]"}, func(ts []aTable) []aTable {
		i := tIdx(ts, 2)
		ts[i].FKs[0].Cols, ts[i].FKs[0].RefCols = []int{2, 3}, []int{1, 3}
		return ts
	})
	add("modify-fk-repair-columns", []string{"2:modifyFK 1 [2]"}, func(ts []aTable) []aTable {
		// composite key (2,3)->(1,3) in base is built by the case itself; see c02Composite
		return ts
	})
	es = es[:len(es)-1] // the composite cases are appended by c02Composite
	add("add-check", []string{"3:addCheck n7"}, func(ts []aTable) []aTable {
		i := tIdx(ts, 3)
		ts[i].Checks = append(ts[i].Checks, aCheck{Name: ip(7), Expr: 7})
		return ts
	})
	add("drop-check", []string{"1:dropCheck n2"}, func(ts []aTable) []aTable { i := tIdx(ts, 1); ts[i].Checks = ts[i].Checks[:1]; return ts })
	add("modify-check", []string{"1:modifyCheck n1"}, func(ts []aTable) []aTable { i := tIdx(ts, 1); ts[i].Checks[0].Expr = 9; return ts })
	// checks are paired by NAME when both sides are named: the same expression under another name is another check
	add("rename-check-same-expression", []string{"1:addCheck n9", "1:dropCheck n1"}, func(ts []aTable) []aTable { i := tIdx(ts, 1); ts[i].Checks[0].Name = ip(9); return ts })
	add("rename-check-and-modify-the-other", []string{"1:addCheck n9", "1:dropCheck n1", "1:modifyCheck n2"}, func(ts []aTable) []aTable {
		i := tIdx(ts, 1)
		ts[i].Checks[0].Name = ip(9)
		ts[i].Checks[1].Expr = 5
		return ts
	})
	add("swap-check-expressions", []string{"1:modifyCheck n1", "1:modifyCheck n2"}, func(ts []aTable) []aTable {
		i := tIdx(ts, 1)
		ts[i].Checks[0].Expr, ts[i].Checks[1].Expr = ts[i].Checks[1].Expr, ts[i].Checks[0].Expr
		return ts
	})
	add("swap-check-names", []string{"1:modifyCheck n1", "1:modifyCheck n2"}, func(ts []aTable) []aTable {
		i := tIdx(ts, 1)
		ts[i].Checks[0].Name, ts[i].Checks[1].Name = ts[i].Checks[1].Name, ts[i].Checks[0].Name
		return ts
	})
	add("add-check-with-the-expression-of-another", []string{"1:addCheck n9"}, func(ts []aTable) []aTable {
		i := tIdx(ts, 1)
		ts[i].Checks = append(ts[i].Checks, aCheck{Name: ip(9), Expr: ts[i].Checks[0].Expr})
		return ts
	})
	// RESTRICT and NO ACTION are different actions in PostgreSQL and SQLite (MySQL treats them alike)
	for _, dl := range []string{"postgres", "sqlite"} {
		x := add("fk-on-update-no-action-to-restrict ("+dl+")", []string{"2:modifyFK 1 [3]"}, func(ts []aTable) []aTable { i := tIdx(ts, 2); ts[i].FKs[0].OnUpdate = 3; return ts })
		x.OnlyDialect = dl
		y := add("fk-on-delete-set-null-to-restrict-and-on-update-to-no-action ("+dl+")", []string{"2:modifyFK 2 [3 4]"}, func(ts []aTable) []aTable {
			i := tIdx(ts, 2)
			ts[i].FKs[1].OnUpdate, ts[i].FKs[1].OnDelete = 0, 3
			return ts
		})
		y.OnlyDialect = dl
	}
	e := add("modify-table-comment", []string{"3:modifyAttr"}, func(ts []aTable) []aTable { i := tIdx(ts, 3); ts[i].Attrs = 1; return ts })
	e.NoSQLite = true
	return es
}

// composite foreign keys: re-pairing columns must be reported (positions matter).
func c02Composite() (base []aTable, edits []aEdit) {
	base = c02Base()
	i := tIdx(base, 2)
	base[i].FKs = append(base[i].FKs, aFK{Symbol: 3, Cols: []int{2, 3}, RefTable: 1, RefCols: []int{1, 3}})
	edits = []aEdit{
		{Desc: "composite-fk swap child columns", Expect: []string{"2:modifyFK 3 [2]"}, Apply: func(ts []aTable) []aTable {
			i := tIdx(ts, 2)
			ts[i].FKs[2].Cols = []int{3, 2}
			return ts
		}},
		{Desc: "composite-fk swap referenced columns", Expect: []string{"2:modifyFK 3 [1]"}, Apply: func(ts []aTable) []aTable {
			i := tIdx(ts, 2)
			ts[i].FKs[2].RefCols = []int{3, 1}
			return ts
		}},
	}
	return
}

// c02GenIdx: the current table holds an index under the name the database generates for unnamed ones; the
// desired table describes it (or something else) without a name. (base, edit) pairs.
func c02GenIdx() (out []struct {
	Base []aTable
	Ed   aEdit
}) {
	mk := func(gen bool, unique bool) []aTable {
		b := c02Base()
		i := tIdx(b, 3)
		n := 92
		if !gen {
			n = 8
		}
		b[i].Idxs = []aIdx{{Name: ip(n), Gen: gen, Unique: unique, Parts: []aPart{{Col: 2}}}}
		return b
	}
	add := func(base []aTable, desc string, expect []string, idxs []aIdx) {
		out = append(out, struct {
			Base []aTable
			Ed   aEdit
		}{base, aEdit{Desc: desc, Expect: expect, Apply: func(ts []aTable) []aTable {
			i := tIdx(ts, 3)
			ts[i].Idxs = idxs
			return ts
		}}})
	}
	for _, u := range []bool{true, false} {
		us := fmt.Sprintf("(unique=%v)", u)
		add(mk(true, u), "generated-name index described without a name "+us, nil, []aIdx{{Unique: u, Parts: []aPart{{Col: 2}}}})
		add(mk(true, u), "generated-name index vs unnamed with the other uniqueness "+us, []string{"3:addIndex _", "3:dropIndex 92"}, []aIdx{{Unique: !u, Parts: []aPart{{Col: 2}}}})
		add(mk(true, u), "generated-name index vs unnamed on another column "+us, []string{"3:addIndex _", "3:dropIndex 92"}, []aIdx{{Unique: u, Parts: []aPart{{Col: 1}}}})
		add(mk(true, u), "generated-name index vs unnamed descending "+us, []string{"3:addIndex _", "3:dropIndex 92"}, []aIdx{{Unique: u, Parts: []aPart{{Col: 2, Desc: true}}}})
		add(mk(true, u), "generated-name index vs unnamed with one more part "+us, []string{"3:addIndex _", "3:dropIndex 92"}, []aIdx{{Unique: u, Parts: []aPart{{Col: 2}, {Col: 1}}}})
		add(mk(true, u), "generated-name index dropped "+us, []string{"3:dropIndex 92"}, nil)
		add(mk(true, u), "generated-name index kept under its name "+us, nil, []aIdx{{Name: ip(92), Gen: true, Unique: u, Parts: []aPart{{Col: 2}}}})
		add(mk(true, u), "generated-name index, two unnamed candidates "+us, []string{"3:addIndex _"}, []aIdx{{Unique: !u, Parts: []aPart{{Col: 2}}}, {Unique: u, Parts: []aPart{{Col: 2}}}})
		add(mk(false, u), "ordinary named index vs the same index without a name "+us, []string{"3:addIndex _", "3:dropIndex 8"}, []aIdx{{Unique: u, Parts: []aPart{{Col: 2}}}})
	}
	return
}

// ---- concrete schemas ----

func c02Type(d string, tok int) schema.Type {
	switch tok % 3 {
	case 0:
		if d == "mysql" {
			return &schema.IntegerType{T: "int"}
		}
		return &schema.IntegerType{T: "integer"}
	case 1:
		switch d {
		case "mysql":
			return &schema.FloatType{T: "double"}
		case "postgres":
			return &schema.FloatType{T: "double precision", Precision: 53}
		}
		return &schema.FloatType{T: "real"}
	default:
		if d == "mysql" {
			return &schema.StringType{T: "varchar", Size: 255}
		}
		return &schema.StringType{T: "text"}
	}
}

// c02TextDefaults are the string literals the default tokens of text columns stand for: pairwise
// different strings, several of which differ only by (escaped) quotes or blanks at their edges.
var c02TextDefaults = []string{"'1'", "'2'", "'3'", "'1'''", "'''1'", "''''", "'1''1'", "'11'", "'1 '", "' 1'", "''", "'''1'''", "'a'", "'b'"}

func c02TextDefault(tok int) string {
	if tok >= 1 && tok <= len(c02TextDefaults) {
		return c02TextDefaults[tok-1]
	}
	return fmt.Sprintf("'%d'", tok)
}

var c02Actions = []schema.ReferenceOption{schema.NoAction, schema.Cascade, schema.SetNull, schema.Restrict}

func c02Build(d string, ts []aTable) *schema.Schema {
	// "sqlite-numfk": SQLite with unnamed foreign keys, which the inspection labels "0", "1", ... by their
	// position in the table definition (the label changes when the declaration order changes)
	numFK := d == "sqlite-numfk"
	if numFK {
		d = "sqlite"
	}
	name := map[string]string{"mysql": "public", "postgres": "public", "sqlite": "main"}[d]
	s := schema.New(name)
	tabs := map[int]*schema.Table{}
	for _, at := range ts {
		t := schema.NewTable(fmt.Sprintf("t%d", at.Name))
		tabs[at.Name] = t
		s.AddTables(t)
		if at.Attrs != 0 && d != "sqlite" {
			t.SetComment(fmt.Sprintf("table comment %d", at.Attrs))
		}
		for _, ac := range at.Cols {
			c := schema.NewColumn(fmt.Sprintf("c%d", ac.Name)).SetType(c02Type(d, ac.Attrs[0])).SetNull(ac.Attrs[1] == 1)
			if ac.Attrs[2] != 0 {
				c.SetDefault(&schema.Literal{V: fmt.Sprint(ac.Attrs[2])})
				if ac.Attrs[0]%3 == 2 {
					c.SetDefault(&schema.Literal{V: c02TextDefault(ac.Attrs[2])})
				}
			}
			if ac.Attrs[3] != 0 && d != "sqlite" {
				c.SetComment(fmt.Sprintf("comment %d", ac.Attrs[3]))
			}
			t.AddColumns(c)
		}
	}
	col := func(t *schema.Table, n int) *schema.Column {
		c, ok := t.Column(fmt.Sprintf("c%d", n))
		if !ok {
			c = schema.NewColumn(fmt.Sprintf("c%d", n))
		}
		return c
	}
	parts := func(t *schema.Table, ix *schema.Index, ps []aPart, perm bool) {
		for _, p := range ps {
			ip := &schema.IndexPart{C: col(t, p.Col), Desc: p.Desc}
			if p.Attr != 0 {
				switch d {
				case "mysql":
					ip.Attrs = append(ip.Attrs, &mysql.SubPart{Len: 10 * p.Attr})
				case "postgres":
					switch p.Attr {
					case 1:
						// the non-default NULLS ordering of the part's direction
						ip.Attrs = append(ip.Attrs, &postgres.IndexColumnProperty{NullsFirst: !p.Desc, NullsLast: p.Desc})
					case 4:
						ip.Attrs = append(ip.Attrs, &postgres.IndexOpClass{Name: "text_pattern_ops"})
					default:
						// an operator class with a parameter: same class, another parameter value per token
						ip.Attrs = append(ip.Attrs, &postgres.IndexOpClass{Name: "gist_trgm_ops", Params: []struct{ N, V string }{{"siglen", fmt.Sprint(16 * p.Attr)}}})
					}
				}
			}
			ix.AddParts(ip)
		}
		if perm {
			for i, j := 0, len(ix.Parts)-1; i < j; i, j = i+1, j-1 {
				ix.Parts[i], ix.Parts[j] = ix.Parts[j], ix.Parts[i]
			}
		}
	}
	for _, at := range ts {
		t := tabs[at.Name]
		if at.PK != nil {
			pk := schema.NewPrimaryKey()
			parts(t, pk, at.PK.Parts, at.PK.Perm)
			t.SetPrimaryKey(pk)
		}
		for _, ai := range at.Idxs {
			n := ""
			if ai.Name != nil {
				n = fmt.Sprintf("i%d", *ai.Name)
			}
			if ai.Gen {
				n = c02GenName(d, at.Name, ai)
			}
			ix := schema.NewIndex(n).SetUnique(ai.Unique)
			parts(t, ix, ai.Parts, ai.Perm)
			t.AddIndexes(ix)
		}
		for fi, af := range at.FKs {
			sym := fmt.Sprintf("fk%d", af.Symbol)
			if numFK {
				sym = fmt.Sprint(fi)
			}
			fk := schema.NewForeignKey(sym).SetTable(t).SetOnUpdate(c02Actions[af.OnUpdate%4]).SetOnDelete(c02Actions[af.OnDelete%4])
			for _, c := range af.Cols {
				fk.AddColumns(col(t, c))
			}
			rt := tabs[af.RefTable]
			if rt == nil {
				rt = schema.NewTable(fmt.Sprintf("t%d", af.RefTable))
			}
			fk.SetRefTable(rt)
			for _, c := range af.RefCols {
				fk.AddRefColumns(col(rt, c))
			}
			t.AddForeignKeys(fk)
		}
		for _, ak := range at.Checks {
			ck := schema.NewCheck().SetExpr(fmt.Sprintf("(c1 > %d)", ak.Expr))
			if ak.Name != nil {
				ck.SetName(fmt.Sprintf("k%d", *ak.Name))
			}
			t.AddChecks(ck)
		}
	}
	return s
}

func kindBits(k schema.ChangeKind, table []struct {
	b schema.ChangeKind
	n string
}) string {
	var out []string
	for _, e := range table {
		if k&e.b != 0 {
			out = append(out, e.n)
			k &^= e.b
		}
	}
	if k != 0 {
		out = append(out, fmt.Sprintf("other:%d", uint(k)))
	}
	sort.Strings(out)
	return strings.Join(out, " ")
}

type kb = struct {
	b schema.ChangeKind
	n string
}

var reGenName = regexp.MustCompile(`^(?:c(\d+)|t\d+_c(\d+)(?:_c\d+)*_key|sqlite_autoindex_t\d+_(\d+))$`)

// c02GenName is the name the dialect's database generates for the index.
func c02GenName(d string, table int, ai aIdx) string {
	first := ai.Parts[0].Col
	switch d {
	case "mysql":
		return fmt.Sprintf("c%d", first)
	case "postgres":
		cols := make([]string, len(ai.Parts))
		for i, p := range ai.Parts {
			cols[i] = fmt.Sprintf("c%d", p.Col)
		}
		return fmt.Sprintf("t%d_%s_key", table, strings.Join(cols, "_"))
	}
	return fmt.Sprintf("sqlite_autoindex_t%d_%d", table, first)
}

func num(s string) string { return strings.TrimLeft(s, "tcifk") }

// idxNum: the token of an index name ("_" for an unnamed index, 90+k for a generated name).
func idxNum(s string) string {
	if s == "" {
		return "_"
	}
	if m := reGenName.FindStringSubmatch(s); m != nil {
		for _, g := range m[1:] {
			if g != "" {
				n, _ := strconv.Atoi(g)
				return fmt.Sprint(90 + n)
			}
		}
	}
	return strings.TrimLeft(s, "tcifk")
}

func c02Canon(changes []schema.Change) []string {
	var out []string
	for _, c := range changes {
		switch c := c.(type) {
		case *schema.AddTable:
			out = append(out, "addTable "+num(c.T.Name))
		case *schema.DropTable:
			out = append(out, "dropTable "+num(c.T.Name))
		case *schema.ModifyTable:
			p := num(c.T.Name) + ":"
			for _, s := range c.Changes {
				switch s := s.(type) {
				case *schema.AddColumn:
					out = append(out, p+"addColumn "+num(s.C.Name))
				case *schema.DropColumn:
					out = append(out, p+"dropColumn "+num(s.C.Name))
				case *schema.ModifyColumn:
					out = append(out, p+"modifyColumn "+num(s.From.Name)+" ["+kindBits(s.Change, []kb{{schema.ChangeType, "0"}, {schema.ChangeNull, "1"}, {schema.ChangeDefault, "2"}, {schema.ChangeComment, "3"}})+"]")
				case *schema.AddIndex:
					out = append(out, p+"addIndex "+idxNum(s.I.Name))
				case *schema.DropIndex:
					out = append(out, p+"dropIndex "+idxNum(s.I.Name))
				case *schema.ModifyIndex:
					out = append(out, p+"modifyIndex "+idxNum(s.From.Name)+" ["+kindBits(s.Change, []kb{{schema.ChangeUnique, "0"}, {schema.ChangeAttr, "1"}, {schema.ChangeParts, "2"}})+"]")
				case *schema.AddPrimaryKey:
					out = append(out, p+"addPK")
				case *schema.DropPrimaryKey:
					out = append(out, p+"dropPK")
				case *schema.ModifyPrimaryKey:
					out = append(out, p+"modifyPK ["+kindBits(s.Change, []kb{{schema.ChangeUnique, "0"}, {schema.ChangeAttr, "1"}, {schema.ChangeParts, "2"}})+"]")
				case *schema.AddForeignKey:
					out = append(out, p+"addFK "+num(s.F.Symbol))
				case *schema.DropForeignKey:
					out = append(out, p+"dropFK "+num(s.F.Symbol))
				case *schema.ModifyForeignKey:
					out = append(out, p+"modifyFK "+num(s.From.Symbol)+" ["+kindBits(s.Change, []kb{{schema.ChangeRefTable, "0"}, {schema.ChangeRefColumn, "1"}, {schema.ChangeColumn, "2"}, {schema.ChangeUpdateAction, "3"}, {schema.ChangeDeleteAction, "4"}})+"]")
				case *schema.AddCheck:
					out = append(out, p+"addCheck n"+num(s.C.Name))
				case *schema.DropCheck:
					out = append(out, p+"dropCheck n"+num(s.C.Name))
				case *schema.ModifyCheck:
					out = append(out, p+"modifyCheck n"+num(s.From.Name))
				case *schema.AddAttr, *schema.DropAttr, *schema.ModifyAttr:
					out = append(out, p+"modifyAttr")
				default:
					out = append(out, p+fmt.Sprintf("%T", s))
				}
			}
		default:
			out = append(out, fmt.Sprintf("%T", c))
		}
	}
	sort.Strings(out)
	return out
}

func c02Differ(d string) schema.Differ {
	switch d {
	case "mysql":
		return mysql.DefaultDiff
	case "postgres":
		return postgres.DefaultDiff
	}
	return sqlite.DefaultDiff
}

func c02Diff(d string, from, to []aTable) (out []string, err error) {
	defer func() {
		if p := recover(); p != nil {
			err = fmt.Errorf("panic: %v", p)
		}
	}()
	cs, err := c02Differ(d).SchemaDiff(c02Build(d, from), c02Build(d, to), schema.DiffNormalized())
	if err != nil {
		return nil, err
	}
	return c02Canon(cs), nil
}

func shuffleTables(r *hx.Rand, ts []aTable) []aTable {
	ts = cloneTables(ts)
	hx.Shuffle(r, ts)
	for i := range ts {
		hx.Shuffle(r, ts[i].Cols)
		hx.Shuffle(r, ts[i].Idxs)
		hx.Shuffle(r, ts[i].FKs)
		hx.Shuffle(r, ts[i].Checks)
		// the Parts slice of an index need not be in SeqNo order
		for k := range ts[i].Idxs {
			ts[i].Idxs[k].Perm = len(ts[i].Idxs[k].Parts) > 1 && r.Chance(1, 2)
		}
		if ts[i].PK != nil {
			ts[i].PK.Perm = len(ts[i].PK.Parts) > 1 && r.Chance(1, 2)
		}
	}
	return ts
}

func runC02(e *Env) error {
	pool, err := hx.NewPool(e.Model, 4)
	if err != nil {
		return err
	}
	defer pool.Close()
	cat := c02Catalogue()
	cbase, cedits := c02Composite()
	nrand := 300
	if e.Thorough() {
		nrand = 6000
	}
	e.Res.Rule = fmt.Sprintf("dialects {mysql, postgres, sqlite} x (identity, deep copy, 20 random reorderings of tables/columns/indexes/fks/checks; the exhaustive single-edit catalogue of %d edits: add/drop table, add/drop column, modify column with every non-empty subset of {type,null,default,comment}, add/drop/modify primary key, add/drop index, modify index unique/desc/column/part order/extra part, add/drop fk, modify fk actions/columns/ref-columns/ref-table/arity, composite fk re-pairing, add/drop/modify check, table comment; random edit sets x random skip lists (schema.DiffSkipChanges) == model schemaDiffSkip; PostgreSQL enum types: one enum replaced by every duplicate-free value list over 4 values, enums added/dropped/swapped (objectDiff model); current indexes under database-generated names vs desired unnamed indexes (same / other uniqueness, column, direction, arity; two candidates); %d random sets of 2-4 catalogue edits on distinct objects, each also applied to a reordered copy); real DefaultDiff.SchemaDiff in normalized mode; reported multiset of canonical changes with kind flags == catalogue expectation and == Lean model; non-trivial = at least one edit; distinct by (dialect, case)", len(cat)+len(cedits), nrand)
	var mu sync.Mutex
	check := func(d, id string, base, edited []aTable, expect []string, rep any) {
		got, err := c02Diff(d, base, edited)
		mu.Lock()
		e.Res.Count(d+"/"+id, len(expect) > 0, "dialect:"+d)
		mu.Unlock()
		sort.Strings(expect)
		viol := func(kind, sig, what, chk string) {
			mu.Lock()
			e.Res.Violate(kind, sig, what, chk, rep)
			mu.Unlock()
		}
		if err != nil {
			viol("failing-input", "diff-error", fmt.Sprintf("%s %s: SchemaDiff fails: %v", d, id, err), "Props.C02")
			return
		}
		if fmt.Sprint(got) != fmt.Sprint(expect) {
			sig := "diff-not-exact"
			if len(expect) == 0 {
				sig = "spurious-change"
			}
			viol("failing-input", sig, fmt.Sprintf("%s %s: SchemaDiff reports %v, the edits made are %v", d, id, got, expect), "Props.C02 exactness")
		}
		var ans struct {
			Changes []string `json:"changes"`
		}
		if err := pool.AskInto(map[string]any{"op": "diff.schema", "from": base, "to": edited}, &ans); err == nil {
			sort.Strings(ans.Changes)
			if fmt.Sprint(ans.Changes) != fmt.Sprint(got) {
				mu.Lock()
				e.Res.Disagree()
				mu.Unlock()
				viol("no-failing-input-found", "corr-diff-mismatch", fmt.Sprintf("%s %s: implementation %v, model %v", d, id, got, ans.Changes), "correspondence Atlas.Diff.schemaDiff")
			}
		}
	}
	type job struct {
		d, id        string
		base, edited []aTable
		expect       []string
	}
	var jobs []job
	for _, d := range []string{"mysql", "postgres", "sqlite"} {
		base := c02Base()
		jobs = append(jobs, job{d, "identity", base, base, nil}, job{d, "deep-copy", base, cloneTables(base), nil})
		r := hx.NewRand(e.Seed, "c02-reorder-"+d)
		for k := 0; k < 20; k++ {
			jobs = append(jobs, job{d, fmt.Sprintf("reorder-%d", k), base, shuffleTables(r, base), nil})
		}
		for _, ed := range cat {
			if ed.NoSQLite && d == "sqlite" {
				continue
			}
			if ed.OnlyDialect != "" && ed.OnlyDialect != d {
				continue
			}
			base := base
			if ed.BaseDefault != 0 {
				base = cloneTables(base)
				i := tIdx(base, 3)
				base[i].Cols[0].Attrs[2] = ed.BaseDefault
			}
			if ed.BasePartAttr != 0 {
				base = cloneTables(base)
				i := tIdx(base, 1)
				base[i].Idxs[1].Parts[1].Attr = ed.BasePartAttr
			}
			jobs = append(jobs, job{d, "edit:" + ed.Desc, base, ed.Apply(cloneTables(base)), ed.Expect})
			jobs = append(jobs, job{d, "edit+reorder:" + ed.Desc, base, shuffleTables(r, ed.Apply(cloneTables(base))), ed.Expect})
			// the inverse direction of add/drop pairs is covered by the opposite edit
		}
		for _, ed := range cedits {
			jobs = append(jobs, job{d, "edit:" + ed.Desc, cbase, ed.Apply(cloneTables(cbase)), ed.Expect})
		}
		for _, g := range c02GenIdx() {
			jobs = append(jobs, job{d, "edit:" + g.Ed.Desc, g.Base, g.Ed.Apply(cloneTables(g.Base)), g.Ed.Expect})
			jobs = append(jobs, job{d, "edit+reorder:" + g.Ed.Desc, g.Base, shuffleTables(r, g.Ed.Apply(cloneTables(g.Base))), g.Ed.Expect})
		}
		// random edit sets on distinct objects
		for k := 0; k < nrand/3; k++ {
			n := 2 + r.Intn(3)
			edited := cloneTables(base)
			var expect []string
			var descs []string
			usedObj := map[string]bool{}
			for tries := 0; len(descs) < n && tries < 30; tries++ {
				ed := cat[r.Intn(len(cat))]
				if ed.NoSQLite && d == "sqlite" || ed.BaseDefault != 0 || ed.BasePartAttr != 0 || ed.OnlyDialect != "" && ed.OnlyDialect != d {
					continue
				}
				objs := editTables(ed)
				clash := false
				for _, o := range objs {
					clash = clash || usedObj[o]
				}
				if clash {
					continue
				}
				for _, o := range objs {
					usedObj[o] = true
				}
				edited = ed.Apply(edited)
				expect = append(expect, ed.Expect...)
				descs = append(descs, ed.Desc)
			}
			if r.Chance(1, 2) {
				edited = shuffleTables(r, edited)
				descs = append(descs, "reordered")
			}
			jobs = append(jobs, job{d, fmt.Sprintf("set-%d:%s", k, strings.Join(descs, " + ")), base, edited, expect})
		}
	}
	// SQLite with unnamed (position-numbered) foreign keys: identity, reorderings and every edit that does not
	// touch a foreign key, with the foreign keys of the edited side declared in another order
	{
		d := "sqlite-numfk"
		base := c02Base()
		r := hx.NewRand(e.Seed, "c02-numfk")
		jobs = append(jobs, job{d, "identity", base, base, nil})
		for k := 0; k < 30; k++ {
			jobs = append(jobs, job{d, fmt.Sprintf("reorder-%d", k), base, shuffleTables(r, base), nil})
		}
		for _, ed := range cat {
			if ed.NoSQLite || ed.BaseDefault != 0 || ed.BasePartAttr != 0 || ed.OnlyDialect != "" || strings.Contains(ed.Desc, "fk") || strings.Contains(ed.Desc, "table") {
				continue
			}
			jobs = append(jobs, job{d, "edit+reorder:" + ed.Desc, base, shuffleTables(r, ed.Apply(cloneTables(base))), ed.Expect})
		}
	}
	parallel(e.Workers, len(jobs), func(i int) {
		j := jobs[i]
		check(j.d, j.id, j.base, j.edited, j.expect, map[string]any{"dialect": j.d, "case": j.id, "from": j.base, "to": j.edited, "expect": j.expect})
	})
	c02CLI(e)
	c02Charset(e, func(kind, sig, what, chk string, rep any) {
		mu.Lock()
		e.Res.Violate(kind, sig, what, chk, rep)
		mu.Unlock()
	}, &mu)
	c02Attrs(e, func(kind, sig, what, chk string, rep any) {
		mu.Lock()
		e.Res.Violate(kind, sig, what, chk, rep)
		mu.Unlock()
	}, &mu)
	c02Predicates(e, func(kind, sig, what, chk string, rep any) {
		mu.Lock()
		e.Res.Violate(kind, sig, what, chk, rep)
		mu.Unlock()
	}, &mu)
	c02Skip(e, pool, func(kind, sig, what, chk string, rep any) {
		mu.Lock()
		e.Res.Violate(kind, sig, what, chk, rep)
		mu.Unlock()
	}, &mu)
	c02Enums(e, pool, func(kind, sig, what, chk string, rep any) {
		mu.Lock()
		e.Res.Violate(kind, sig, what, chk, rep)
		mu.Unlock()
	}, &mu)
	return nil
}

// editTables names the tables an edit touches, so that random sets use distinct tables.
func editTables(ed aEdit) []string {
	e := ed.Expect[0]
	if strings.HasPrefix(e, "addTable") || strings.HasPrefix(e, "dropTable") {
		return []string{strings.Fields(e)[1]}
	}
	t := strings.SplitN(e, ":", 2)[0]
	if strings.Contains(ed.Desc, "ref-table") {
		return []string{t, "3"}
	}
	if strings.Contains(ed.Desc, "add-fk") {
		return []string{t, "1"}
	}
	return []string{t}
}
