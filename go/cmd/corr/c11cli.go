package main

// C11, CLI tier: "Status, apply-with-count and set-version agree with that decision."
// Random operation sequences (add a file at the end / out of order / as a checkpoint, apply [n] with
// every execution order and first-run flag, a statement that fails, repair, `migrate set [v]`) are
// replayed on a real SQLite file through the real binary. Before every command the revision table
// is read with an independent client and the Lean model `Atlas.Pending.pending` is asked for the
// decision; then
//   * `migrate status` must list exactly the model's pending / out-of-order files (or fail where
//     the model fails), its Next is the first pending version, Count is the applied part of a
//     partially applied file;
//   * `migrate apply [n]` must run exactly the first n pending files, in order, resuming a partial
//     file after its last applied statement: the revision table and the set of created tables after
//     the command are the ones computed from the model's list (every statement creates its own table,
//     so a statement run twice or skipped is visible);
//   * after `migrate set v` no revision newer than v remains, the older ones are untouched, and
//     `status` reports v as current and exactly the files after v as pending (v itself and everything
//     before it is considered applied, a partially applied v included).

import (
	"encoding/json"
	"fmt"
	"os"
	"path/filepath"
	"regexp"
	"sort"
	"strings"
	"sync"

	"ariga.io/atlas/sql/migrate"
	"verifharness/internal/hx"
)

type c11File struct {
	V  string `json:"v"`
	Ck bool   `json:"ck,omitempty"`
	N  int    `json:"n,omitempty"` // statements in the file (0 means 2); grown to 3 by the "grow" operation
}

func (f c11File) stmts() int {
	if f.N == 0 {
		return 2
	}
	return f.N
}

type c11Scn struct {
	Files []c11File `json:"files"`
	Ops   []string  `json:"ops"` // the commands run so far (the last one is the failing one)
}

type c11CLIState struct {
	e       *Env
	pool    *hx.Pool
	dir     string // working directory holding m/ and db.sqlite
	files   []c11File
	blocked map[string]bool
	ops     []string
}

func (s *c11CLIState) writeDir() error {
	var fs []dirFile
	sort.Slice(s.files, func(i, j int) bool { return s.files[i].V < s.files[j].V })
	for _, f := range s.files {
		body := ""
		for i := 1; i <= f.stmts(); i++ {
			body += fmt.Sprintf("CREATE TABLE t%s_%d (x int);\n", f.V, i)
		}
		if f.Ck {
			lead := ""
			if len(f.V) > 0 && (f.V[0]-'0')%2 == 1 {
				lead = "-- atlas:txmode none\n"
			}
			body = lead + "-- atlas:checkpoint\n\n" + body
		}
		fs = append(fs, dirFile{f.V + "_f.sql", body})
	}
	return writeMigrationDir(filepath.Join(s.dir, "m"), fs)
}

type c11DB struct {
	hasRevTable bool
	revs        []revRow
	tables      map[string]bool // user tables
}

func (s *c11CLIState) read() c11DB {
	d := dumpDB(filepath.Join(s.dir, "db.sqlite"))
	out := c11DB{tables: map[string]bool{}, revs: d.Revs}
	for _, m := range d.Master {
		f := strings.SplitN(m, "|", 4)
		if len(f) < 2 || f[0] != "table" {
			continue
		}
		if f[1] == "atlas_schema_revisions" {
			out.hasRevTable = true
		} else if !strings.HasPrefix(f[1], "sqlite_") {
			out.tables[f[1]] = true
		}
	}
	return out
}

func (d c11DB) revsText() string {
	var b []string
	for _, r := range d.revs {
		b = append(b, fmt.Sprintf("%s:%d/%d:ty%d", r.Version, r.Applied, r.Total, r.Type))
	}
	return "[" + strings.Join(b, " ") + "]"
}

func (d c11DB) tablesText() string {
	var t []string
	for n := range d.tables {
		t = append(t, n)
	}
	sort.Strings(t)
	return strings.Join(t, ",")
}

// decision asks the Lean model for Pending on the directory and the revisions read from the database.
func (s *c11CLIState) decision(db c11DB, cfg MCfg) (*c11Out, error) {
	ld, err := migrate.NewLocalDir(filepath.Join(s.dir, "m"))
	if err != nil {
		return nil, err
	}
	mf, err := modelFiles(ld)
	if err != nil {
		return nil, err
	}
	revs := []MRev{}
	for _, r := range db.revs {
		revs = append(revs, MRev{V: r.Version, D: "f", Ty: uint(r.Type), A: r.Applied, T: r.Total, Ph: []string{}})
	}
	raw, err := s.pool.Ask(map[string]any{"op": "pending", "files": mf, "revs": revs, "cfg": cfg})
	if err != nil {
		return nil, err
	}
	m := &c11Out{}
	if e, ok := raw["err"].(string); ok {
		m.Err = e
	}
	m.Pending = anyList(raw["pending"])
	m.OOO = anyList(raw["ooo"])
	if bw, ok := raw["baseline_write"].(map[string]any); ok {
		m.BaseV, _ = bw["v"].(string)
	}
	return m, nil
}

func (s *c11CLIState) atlas(args ...string) cliOut {
	s.ops = append(s.ops, "atlas "+strings.Join(args, " "))
	return runAtlas(s.e, s.dir, nil, append(args, "--dir", "file://m", "--url", "sqlite://db.sqlite")...)
}

type c11Status struct {
	Pending    []struct{ Name, Version string }
	OutOfOrder []struct{ Name, Version string }
	Applied    []struct{ Version string }
	Current    string
	Next       string
	Count      int
	Total      int
	Status     string
	Error      string
}

func names(fs []struct{ Name, Version string }) []string {
	out := []string{}
	for _, f := range fs {
		out = append(out, f.Name)
	}
	return out
}

// checkStatus compares `migrate status` with the model's decision on the current database.
func (s *c11CLIState) checkStatus() (sig, what string, st *c11Status) {
	db := s.read()
	cfg := MCfg{Order: "linear", Clean: len(db.tables) == 0}
	if !db.hasRevTable {
		cfg.Clean = true // without a revision table the reporter lists the files from the last checkpoint, unconditionally
	}
	want, err := s.decision(db, cfg)
	if err != nil {
		return "", "", nil
	}
	o := s.atlas("migrate", "status", "--format", "{{ json . }}")
	fail := want.Err != "" && want.Err != "no-pending" && want.Err != "non-linear"
	if fail {
		if o.Code == 0 {
			return "status-accepts-broken-history", fmt.Sprintf("the decision is the error %q but `migrate status` succeeds: %s", want.Err, trunc(o.Stdout, 300)), nil
		}
		return "", "", nil
	}
	if o.Code != 0 {
		return "status-fails", fmt.Sprintf("`migrate status` fails (%s) although the decision is %+v", trunc(o.Stderr, 300), want), nil
	}
	st = &c11Status{}
	if err := json.Unmarshal([]byte(o.Stdout), st); err != nil {
		return "status-not-json", trunc(o.Stdout, 200), nil
	}
	if got := names(st.Pending); strings.Join(got, ",") != strings.Join(want.Pending, ",") {
		return "status-pending-differs", fmt.Sprintf("`migrate status` lists pending %v, the decision (Pending on revisions %s) is %v", got, db.revsText(), want.Pending), st
	}
	if got := names(st.OutOfOrder); strings.Join(got, ",") != strings.Join(want.OOO, ",") {
		return "status-out-of-order-differs", fmt.Sprintf("`migrate status` lists out-of-order %v, the decision is %v", got, want.OOO), st
	}
	if want.Err == "" && len(st.Pending) > 0 && st.Next != st.Pending[0].Version {
		return "status-next-wrong", fmt.Sprintf("Next=%q, first pending file is %s", st.Next, st.Pending[0].Name), st
	}
	if want.Err == "no-pending" && st.Status != "OK" {
		return "status-not-ok", fmt.Sprintf("nothing is pending but Status=%q", st.Status), st
	}
	if n := len(db.revs); n > 0 && want.Err != "non-linear" {
		last := db.revs[n-1]
		n := 2
		for _, f := range s.files {
			if f.V == last.Version {
				n = f.stmts()
			}
		}
		if last.Applied != last.Total && last.Type&4 == 0 && (st.Count != last.Applied || st.Total != n) {
			return "status-count-wrong", fmt.Sprintf("revision %s has %d of %d statements applied, status reports Count=%d Total=%d", last.Version, last.Applied, last.Total, st.Count, st.Total), st
		}
	}
	return "", "", st
}

func verName(n string) string { return strings.SplitN(n, "_", 2)[0] }

// apply runs `migrate apply` and compares the outcome with the one computed from the model's decision.
func (s *c11CLIState) apply(r *hx.Rand) (sig, what string) {
	db := s.read()
	order := hx.Pick(r, []string{"linear", "linear", "linear-skip", "non-linear"})
	cfg := MCfg{Order: order, Clean: len(db.tables) == 0}
	args := []string{"migrate", "apply", "--tx-mode", "none", "--exec-order", order}
	if len(db.revs) == 0 {
		switch {
		case !cfg.Clean && r.Chance(2, 3), cfg.Clean && r.Chance(1, 8):
			cfg.Dirty = true
			args = append(args, "--allow-dirty")
		case r.Chance(1, 3) && len(s.files) > 0:
			cfg.Baseline = hx.Pick(r, s.files).V
			if r.Chance(1, 8) {
				cfg.Baseline = "77"
			}
			args = append(args, "--baseline", cfg.Baseline)
		}
	}
	n := 0
	if r.Chance(1, 2) {
		n = 1 + r.Intn(3)
		args = append(args, fmt.Sprint(n))
	}
	want, err := s.decision(db, cfg)
	if err != nil {
		return "", ""
	}
	// expected revision table and tables
	type rev struct{ a, t, ty int }
	exp := map[string]rev{}
	for _, x := range db.revs {
		exp[x.Version] = rev{x.Applied, x.Total, x.Type}
	}
	tables := map[string]bool{}
	for t := range db.tables {
		tables[t] = true
	}
	if want.BaseV != "" {
		exp[want.BaseV] = rev{0, 0, 1}
	}
	wantFail := false
	switch want.Err {
	case "", "no-pending":
		run := want.Pending
		if n > 0 && n < len(run) {
			run = run[:n]
		}
		if want.Err == "no-pending" {
			run = nil
		}
	files:
		for _, name := range run {
			v := verName(name)
			cur, ok := exp[v]
			start := 0
			if ok && cur.a != cur.t && cur.ty&4 == 0 {
				start = cur.a // resume after the last applied statement
			}
			n := 2
			for _, f := range s.files {
				if f.V == v {
					n = f.stmts()
				}
			}
			for i := start; i < n; i++ {
				t := fmt.Sprintf("t%s_%d", v, i+1)
				if tables[t] {
					exp[v] = rev{i, n, 2}
					wantFail = true
					break files
				}
				tables[t] = true
			}
			exp[v] = rev{n, n, 2}
		}
	default:
		wantFail = true
	}
	o := s.atlas(args...)
	after := s.read()
	var es, gs []string
	for v, x := range exp {
		es = append(es, fmt.Sprintf("%s:%d/%d:ty%d", v, x.a, x.t, x.ty))
	}
	sort.Strings(es)
	for _, x := range after.revs {
		gs = append(gs, fmt.Sprintf("%s:%d/%d:ty%d", x.Version, x.Applied, x.Total, x.Type))
	}
	sort.Strings(gs)
	ctx := fmt.Sprintf("`%s` on revisions %s, tables {%s}; decision %+v", strings.Join(args, " "), db.revsText(), db.tablesText(), *want)
	if strings.Join(es, " ") != strings.Join(gs, " ") {
		return "apply-differs-from-decision", fmt.Sprintf("%s: expected revisions [%s], the database has [%s] (exit %d: %s)", ctx, strings.Join(es, " "), strings.Join(gs, " "), o.Code, trunc(o.Stderr, 200))
	}
	var et []string
	for t := range tables {
		et = append(et, t)
	}
	sort.Strings(et)
	if strings.Join(et, ",") != after.tablesText() {
		return "apply-ran-other-statements", fmt.Sprintf("%s: expected tables {%s}, the database has {%s}", ctx, strings.Join(et, ","), after.tablesText())
	}
	if wantFail != (o.Code != 0) {
		return "apply-exit-code", fmt.Sprintf("%s: exit code %d, failure expected: %v (%s)", ctx, o.Code, wantFail, trunc(o.Stderr, 200))
	}
	return "", ""
}

// setModel asks the Lean model of migrateSetRun for the revision table after `migrate set [arg]`.
var reSetCurrent = regexp.MustCompile(`Current version is (?:\x1b\[[0-9;]*m)*([^\s\x1b(]+)`)

func (s *c11CLIState) setModel(db c11DB, arg *string) (errKind string, revs []string, err error) {
	ld, err := migrate.NewLocalDir(filepath.Join(s.dir, "m"))
	if err != nil {
		return "", nil, err
	}
	mf, err := modelFiles(ld)
	if err != nil {
		return "", nil, err
	}
	rs := []MRev{}
	for _, r := range db.revs {
		rs = append(rs, MRev{V: r.Version, D: "f", Ty: uint(r.Type), A: r.Applied, T: r.Total, Ph: []string{}, E: r.Error})
	}
	req := map[string]any{"op": "set.run", "files": mf, "revs": rs}
	if arg != nil {
		req["arg"] = *arg
	}
	var ans struct {
		Err  string `json:"err"`
		Revs []MRev `json:"revs"`
	}
	if err := s.pool.AskInto(req, &ans); err != nil {
		return "", nil, err
	}
	for _, r := range ans.Revs {
		revs = append(revs, fmt.Sprintf("%s:%d/%d:ty%d", r.V, r.A, r.T, r.Ty))
	}
	return ans.Err, revs, nil
}

// set runs `migrate set [v]` and checks its contract.
func (s *c11CLIState) set(r *hx.Rand) (sig, what string) {
	db := s.read()
	args := []string{"migrate", "set"}
	v := ""
	var arg *string
	switch x := r.Intn(20); {
	case x < 3:
		if len(s.files) > 0 {
			v = s.files[len(s.files)-1].V // no argument: the last file (refused on an empty table)
		}
	case x < 5:
		v = "77" // not a file of the directory
		arg = &v
		args = append(args, v)
	default:
		v = hx.Pick(r, s.files).V
		arg = &v
		args = append(args, v)
	}
	mErr, mRevs, merr := s.setModel(db, arg)
	o := s.atlas(args...)
	if merr == nil && (mErr != "") != (o.Code != 0) {
		return "set-exit-differs-from-model", fmt.Sprintf("`%s` on revisions %s: exit %d (%s), model says %q", strings.Join(args, " "), db.revsText(), o.Code, trunc(o.Stderr, 200), mErr)
	}
	if o.Code != 0 {
		if mErr != "" {
			return "", "" // refused, as the model says
		}
		return "set-fails", fmt.Sprintf("`%s` fails on revisions %s: %s", strings.Join(args, " "), db.revsText(), trunc(o.Stderr, 300))
	}
	after := s.read()
	ctx := fmt.Sprintf("`%s` on revisions %s -> %s", strings.Join(args, " "), db.revsText(), after.revsText())
	// what the command itself reports as the current version
	if m := reSetCurrent.FindStringSubmatch(o.Stdout); m != nil && m[1] != v {
		return "set-reports-another-current-version", fmt.Sprintf("%s: the command prints %q", ctx, strings.TrimSpace(m[0]))
	}
	if merr == nil {
		var got []string
		for _, x := range after.revs {
			got = append(got, fmt.Sprintf("%s:%d/%d:ty%d", x.Version, x.Applied, x.Total, x.Type))
		}
		if strings.Join(got, " ") != strings.Join(mRevs, " ") {
			s.e.Res.Disagree()
			return "corr-set-mismatch", fmt.Sprintf("%s: the model of migrateSetRun gives [%s]", ctx, strings.Join(mRevs, " "))
		}
	}
	for _, x := range after.revs {
		if x.Version > v {
			return "set-keeps-newer-revision", fmt.Sprintf("%s: revision %s is newer than the version set", ctx, x.Version)
		}
	}
	have := map[string]revRow{}
	for _, x := range after.revs {
		have[x.Version] = x
	}
	for _, x := range db.revs {
		if x.Version > v {
			continue
		}
		y, ok := have[x.Version]
		if !ok || y.Applied != x.Applied || y.Total != x.Total {
			return "set-rewrites-history", fmt.Sprintf("%s: revision %s was %d/%d", ctx, x.Version, x.Applied, x.Total)
		}
	}
	if _, ok := have[v]; !ok {
		return "set-version-not-recorded", fmt.Sprintf("%s: no revision for %s", ctx, v)
	}
	// what status says afterwards: v is current, exactly the files after v are pending
	so := s.atlas("migrate", "status", "--format", "{{ json . }}")
	if so.Code != 0 {
		return "set-then-status-fails", fmt.Sprintf("%s: `migrate status` fails: %s", ctx, trunc(so.Stderr, 300))
	}
	var st c11Status
	if err := json.Unmarshal([]byte(so.Stdout), &st); err != nil {
		return "", ""
	}
	var wantP []string
	for _, f := range s.files {
		if f.V > v && !f.Ck {
			wantP = append(wantP, f.V+"_f.sql")
		}
	}
	if got := names(st.Pending); strings.Join(got, ",") != strings.Join(wantP, ",") {
		return "set-disagrees-with-status", fmt.Sprintf("%s: set reports %s as the current version, but `migrate status` lists pending %v (the files after %s are %v)", ctx, v, got, v, wantP)
	}
	if st.Current != v {
		return "set-current-wrong", fmt.Sprintf("%s: status reports Current=%q", ctx, st.Current)
	}
	for _, f := range st.OutOfOrder {
		if f.Version >= v {
			return "set-out-of-order-wrong", fmt.Sprintf("%s: %s is reported out of order", ctx, f.Name)
		}
		for _, x := range db.revs {
			if x.Version == f.Version {
				return "set-out-of-order-wrong", fmt.Sprintf("%s: %s has a revision but is reported out of order", ctx, f.Name)
			}
		}
	}
	return "", ""
}

func c11CLI(e *Env, pool *hx.Pool) {
	n := 30
	if e.Thorough() {
		n = 400
	}
	var mu sync.Mutex
	parallel(e.Workers, n, func(ci int) {
		r := hx.NewRand(e.Seed, fmt.Sprintf("c11cli-%d", ci))
		s := &c11CLIState{e: e, pool: pool, dir: filepath.Join(e.Work, fmt.Sprintf("c11cli-%d", ci)), blocked: map[string]bool{}}
		os.MkdirAll(s.dir, 0o755)
		defer os.RemoveAll(s.dir)
		unused := []string{"10", "15", "20", "25", "30", "35", "40", "45", "50", "55", "60", "65"}
		hx.Shuffle(r, unused)
		take := func(above string, higher bool) string {
			for i, v := range unused {
				if higher == (v > above) {
					unused = append(unused[:i:i], unused[i+1:]...)
					return v
				}
			}
			return ""
		}
		for k := 0; k < 1+r.Intn(3); k++ {
			s.files = append(s.files, c11File{V: take("", true), Ck: r.Chance(1, 6)})
		}
		if err := s.writeDir(); err != nil {
			return
		}
		var tags []string
		fail := func(sig, what string) {
			mu.Lock()
			kind, chk := "failing-input", "Props.C11 status/apply/set agree with Pending"
			if strings.HasPrefix(sig, "corr-") {
				kind, chk = "no-failing-input-found", "correspondence Atlas.SetV.setRun"
			}
			e.Res.Violate(kind, sig, what+"\nfiles="+hxJSON(s.files)+"\ncommands:\n  "+strings.Join(s.ops, "\n  "), chk, c11Scn{Files: s.files, Ops: s.ops})
			mu.Unlock()
		}
		steps := 8 + r.Intn(8)
		bad := false
		for k := 0; k < steps && !bad; k++ {
			sig, what := "", ""
			switch x := r.Intn(10); {
			case x < 4:
				tags = append(tags, "cli-op:apply")
				sig, what = s.apply(r)
			case x < 6:
				maxV := s.files[len(s.files)-1].V
				v := take(maxV, r.Chance(3, 5))
				if v == "" || len(s.files) >= 6 {
					continue
				}
				f := c11File{V: v, Ck: r.Chance(1, 6)}
				if v < maxV {
					tags = append(tags, "cli-op:add-out-of-order")
				} else {
					tags = append(tags, "cli-op:add")
				}
				if f.Ck {
					tags = append(tags, "cli-op:add-checkpoint")
				}
				s.files = append(s.files, f)
				s.ops = append(s.ops, fmt.Sprintf("add file %s_f.sql checkpoint=%v", v, f.Ck))
				if err := s.writeDir(); err != nil {
					return
				}
			case x < 7 && r.Chance(1, 2):
				// the not yet applied tail of a file gets one more statement (allowed: only applied statements are checked)
				db := s.read()
				done := map[string]int{}
				for _, x := range db.revs {
					done[x.Version] = x.Applied
					if x.Applied == x.Total || x.Type&4 != 0 {
						done[x.Version] = 99
					}
				}
				for i := range s.files {
					if f := &s.files[i]; f.N == 0 && done[f.V] < 2 {
						f.N = 3
						s.ops = append(s.ops, fmt.Sprintf("grow: %s_f.sql gets a third statement", f.V))
						tags = append(tags, "cli-op:grow")
						if err := s.writeDir(); err != nil {
							return
						}
						break
					}
				}
			case x < 8:
				// make the second statement of a file fail (its table already exists) / repair it
				f := hx.Pick(r, s.files)
				t := fmt.Sprintf("t%s_2", f.V)
				db := s.read()
				switch {
				case s.blocked[f.V]:
					if execSQL(filepath.Join(s.dir, "db.sqlite"), "DROP TABLE "+t) == nil {
						delete(s.blocked, f.V)
						s.ops = append(s.ops, "repair: DROP TABLE "+t)
						tags = append(tags, "cli-op:repair")
					}
				case !db.tables[t]:
					if execSQL(filepath.Join(s.dir, "db.sqlite"), "CREATE TABLE "+t+" (y int)") == nil {
						s.blocked[f.V] = true
						s.ops = append(s.ops, "break: CREATE TABLE "+t)
						tags = append(tags, "cli-op:break")
					}
				}
			default:
				tags = append(tags, "cli-op:set")
				sig, what = s.set(r)
			}
			if sig == "" {
				var st *c11Status
				sig, what, st = s.checkStatus()
				if st != nil && len(st.OutOfOrder) > 0 {
					tags = append(tags, "cli-status:out-of-order")
				}
			}
			if sig != "" {
				fail(sig, what)
				bad = true
			}
		}
		mu.Lock()
		e.Res.Count("c11cli:"+hxJSON(s.ops), true, dedup(tags)...)
		mu.Unlock()
	})
}

// c11CLIScripted: histories whose execution order is not the version order (a file added out of order and
// applied with --exec-order non-linear), then `migrate set` back to an older version: the version the command
// reports as current, `migrate status` and the pending files must agree.
func c11CLIScripted(e *Env, pool *hx.Pool) {
	for si, sc := range []struct {
		first, late, then []string
		set               string
	}{
		{[]string{"10", "30"}, []string{"20"}, []string{"40"}, "30"},
		{[]string{"10", "40"}, []string{"20", "30"}, []string{"50"}, "40"},
		{[]string{"10", "20", "50"}, []string{"30"}, []string{"60", "70"}, "50"},
		{[]string{"10", "30"}, []string{"20"}, nil, "20"},
	} {
		s := &c11CLIState{e: e, pool: pool, dir: filepath.Join(e.Work, fmt.Sprintf("c11scripted-%d", si)), blocked: map[string]bool{}}
		os.MkdirAll(s.dir, 0o755)
		fail := func(sig, what string) {
			e.Res.Violate("failing-input", sig, what+"\ncommands:\n  "+strings.Join(s.ops, "\n  "), "Props.C11 status/apply/set agree with Pending", c11Scn{Files: s.files, Ops: s.ops})
		}
		add := func(vs []string) {
			for _, v := range vs {
				s.files = append(s.files, c11File{V: v})
				s.ops = append(s.ops, "add file "+v+"_f.sql")
			}
			s.writeDir()
		}
		ok := true
		step := func(o cliOut, what string) {
			if ok && o.Code != 0 {
				fail("scripted-step-fails", fmt.Sprintf("%s fails: %s", what, trunc(o.Stderr+o.Stdout, 300)))
				ok = false
			}
		}
		add(sc.first)
		step(s.atlas("migrate", "apply", "--tx-mode", "none"), "the first apply")
		add(sc.late)
		step(s.atlas("migrate", "apply", "--tx-mode", "none", "--exec-order", "non-linear"), "the non-linear apply")
		if len(sc.then) > 0 {
			add(sc.then)
			step(s.atlas("migrate", "apply", "--tx-mode", "none", "--exec-order", "non-linear"), "the last apply")
		}
		e.Res.Count(fmt.Sprintf("c11cli-scripted:%d", si), true, "cli-op:set-after-non-linear-history")
		if ok {
			o := s.atlas("migrate", "set", sc.set)
			step(o, "migrate set "+sc.set)
			if m := reSetCurrent.FindStringSubmatch(o.Stdout); ok && m != nil && m[1] != sc.set {
				fail("set-reports-another-current-version", fmt.Sprintf("`migrate set %s` prints %q", sc.set, strings.TrimSpace(m[0])))
				ok = false
			}
		}
		if ok {
			if sig, what, _ := s.checkStatus(); sig != "" {
				fail(sig, what)
			} else {
				so := s.atlas("migrate", "status", "--format", "{{ .Current }}")
				if strings.TrimSpace(so.Stdout) != sc.set {
					fail("set-current-wrong", fmt.Sprintf("after `migrate set %s` status reports Current=%q", sc.set, strings.TrimSpace(so.Stdout)))
				}
			}
		}
		os.RemoveAll(s.dir)
	}
}

// c11CLIInterrupted: a revision left partially applied WITHOUT an error text (the process was killed between two
// statements) is as unfinished as one that failed: `migrate set <v>` on it resolves it - afterwards status
// reports v as current with nothing of v pending, and apply does not run v's remaining statements again.
func c11CLIInterrupted(e *Env, pool *hx.Pool) {
	for si, withErr := range []bool{false, true} {
		s := &c11CLIState{e: e, pool: pool, dir: filepath.Join(e.Work, fmt.Sprintf("c11intr-%d", si)), blocked: map[string]bool{}}
		os.MkdirAll(s.dir, 0o755)
		fail := func(sig, what string) {
			e.Res.Violate("failing-input", sig, what+"\ncommands:\n  "+strings.Join(s.ops, "\n  "), "Props.C11 status/apply/set agree with Pending", c11Scn{Files: s.files, Ops: s.ops})
		}
		s.files = []c11File{{V: "10"}, {V: "20", N: 3}, {V: "30"}}
		s.writeDir()
		dbp := filepath.Join(s.dir, "db.sqlite")
		e.Res.Count(fmt.Sprintf("c11cli-interrupted:%v", withErr), true, "cli-op:set-on-interrupted-revision")
		func() {
			defer os.RemoveAll(s.dir)
			if o := s.atlas("migrate", "apply", "--tx-mode", "none", "1"); o.Code != 0 {
				return
			}
			if execSQL(dbp, "CREATE TABLE t20_2 (y int)") != nil {
				return
			}
			s.ops = append(s.ops, "break: CREATE TABLE t20_2")
			s.atlas("migrate", "apply", "--tx-mode", "none") // fails at statement 2 of 20
			if !withErr {
				if execSQL(dbp, "UPDATE atlas_schema_revisions SET error = '', error_stmt = '' WHERE version = '20'") != nil {
					return
				}
				s.ops = append(s.ops, "the error text of revision 20 is cleared (as after a kill between two statements: applied 1 of 3, no error)")
			}
			db := s.read()
			if len(db.revs) != 2 || db.revs[1].Applied != 1 || db.revs[1].Total != 3 {
				return
			}
			if o := s.atlas("migrate", "set", "20"); o.Code != 0 {
				fail("set-fails", fmt.Sprintf("`migrate set 20` on revisions %s fails: %s", db.revsText(), trunc(o.Stderr, 300)))
				return
			}
			so := s.atlas("migrate", "status", "--format", "{{ json . }}")
			var st c11Status
			if so.Code != 0 || json.Unmarshal([]byte(so.Stdout), &st) != nil {
				fail("set-then-status-fails", fmt.Sprintf("after `migrate set 20` on revisions %s, `migrate status` fails: %s", db.revsText(), trunc(so.Stderr+so.Stdout, 300)))
				return
			}
			if got := names(st.Pending); strings.Join(got, ",") != "30_f.sql" || st.Current != "20" {
				fail("set-disagrees-with-status", fmt.Sprintf("after `migrate set 20` on revisions %s (20 applied 1 of 3, error recorded: %v) status reports Current=%q, pending %v; expected Current=20, pending [30_f.sql]", db.revsText(), withErr, st.Current, got))
				return
			}
			before := s.read()
			s.atlas("migrate", "apply", "--tx-mode", "none")
			after := s.read()
			if after.tables["t20_3"] && !before.tables["t20_3"] {
				fail("apply-ran-other-statements", fmt.Sprintf("after `migrate set 20`, `migrate apply` ran the remaining statements of 20 (tables %s)", after.tablesText()))
			}
		}()
	}
}

// c11CLIResumeCount: `migrate apply N` counts FILES, also when the first of them is a partially applied file that
// is resumed: with 20 applied 1 of 3 and 30, 40 pending, `apply 1` finishes 20 and nothing else, the next
// `apply 1` runs 30 only.
func c11CLIResumeCount(e *Env, pool *hx.Pool) {
	s := &c11CLIState{e: e, pool: pool, dir: filepath.Join(e.Work, "c11resume"), blocked: map[string]bool{}}
	os.MkdirAll(s.dir, 0o755)
	defer os.RemoveAll(s.dir)
	fail := func(sig, what string) {
		e.Res.Violate("failing-input", sig, what+"\ncommands:\n  "+strings.Join(s.ops, "\n  "), "Props.C11 status/apply agree with Pending (count)", c11Scn{Files: s.files, Ops: s.ops})
	}
	s.files = []c11File{{V: "10"}, {V: "20", N: 3}, {V: "30"}, {V: "40"}}
	s.writeDir()
	dbp := filepath.Join(s.dir, "db.sqlite")
	e.Res.Count("c11cli-resume-count", true, "cli-op:apply-n-resuming-a-partial-file")
	if o := s.atlas("migrate", "apply", "--tx-mode", "none", "1"); o.Code != 0 {
		return
	}
	if execSQL(dbp, "CREATE TABLE t20_2 (y int)") != nil {
		return
	}
	s.ops = append(s.ops, "break: CREATE TABLE t20_2")
	s.atlas("migrate", "apply", "--tx-mode", "none") // fails at statement 2 of 20
	if execSQL(dbp, "DROP TABLE t20_2") != nil {
		return
	}
	s.ops = append(s.ops, "repair: DROP TABLE t20_2")
	db := s.read()
	if len(db.revs) != 2 || db.revs[1].Applied != 1 || db.revs[1].Total != 3 {
		return
	}
	for step, want := range []struct {
		revs    int
		present string
		absent  string
	}{{2, "t20_3", "t30_1"}, {3, "t30_1", "t40_1"}} {
		o := s.atlas("migrate", "apply", "--tx-mode", "none", "1")
		after := s.read()
		if o.Code != 0 {
			fail("apply-n-fails", fmt.Sprintf("`migrate apply 1` (step %d) fails: %s", step, trunc(o.Stderr+o.Stdout, 300)))
			return
		}
		if len(after.revs) != want.revs || !after.tables[want.present] || after.tables[want.absent] {
			fail("apply-n-runs-other-files", fmt.Sprintf("`migrate apply 1` (step %d, starting with revisions %s) left revisions %s and tables %s; expected %d revisions, table %s present and %s absent", step, db.revsText(), after.revsText(), after.tablesText(), want.revs, want.present, want.absent))
			return
		}
		db = after
	}
}

func dedup(xs []string) []string {
	seen := map[string]bool{}
	var out []string
	for _, x := range xs {
		if !seen[x] {
			seen[x] = true
			out = append(out, x)
		}
	}
	return out
}
