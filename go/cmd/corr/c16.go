package main

// C16: schema-scoped plans are schema-agnostic; a requested qualifier is always used.
//  (A) the real sqlx.Builder (through the verif bridge) vs the Lean model of mayQualify/RefTable;
//  (B) sqlx.CheckChangesScope vs the Lean model on generated change lists;
//  (C) marker run: schemas carrying a unique marker name through the real MySQL and PostgreSQL
//      planners x qualifier {unset, empty, custom} x plan mode; every Cmd and every reverse statement is
//      tokenised: under the empty qualifier the marker must not occur and no schema is created/dropped/
//      altered; under a custom qualifier every table / enum-type reference carries exactly it; change
//      sets spanning two schemas must be rejected.

import (
	"context"
	"encoding/json"
	"fmt"
	"os"
	"regexp"
	"sort"
	"strings"

	"ariga.io/atlas/sql/migrate"
	"ariga.io/atlas/sql/mysql"
	"ariga.io/atlas/sql/postgres"
	"ariga.io/atlas/sql/schema"
	"ariga.io/atlas/sql/verifbridge"
	"verifharness/internal/hx"
)

func init() { commands["C16"] = runC16 }

const markerSchema = "mrk_sch_7f3a"
const otherSchema = "oth_sch_91c2"

// devSchema: name of the from-state schema in the Planner.PlanSchema flow (the current schema is a
// renamed shallow copy: objects hanging off a dropped/modified foreign key still belong to it)
const devSchema = "dev_sch_5c1e"
const customQual = "cust_q_55e0"

type c16Case struct {
	Dialect string `json:"dialect"`
	Qual    string `json:"qual"` // "unset" | "empty" | "custom"
	Mode    int    `json:"mode"`
	Seed    uint64 `json:"seed"`
	TwoSch  bool   `json:"two_schemas"`
}

func qualPtr(q string) *string {
	switch q {
	case "empty":
		s := ""
		return &s
	case "custom":
		s := customQual
		return &s
	}
	return nil
}

// splitIdents parses `"a"."b"` (quote char q, doubled quotes inside) into its parts.
func splitIdents(s string, q byte) []string {
	var out []string
	i := 0
	for i < len(s) {
		if s[i] != q {
			i++
			continue
		}
		i++
		var b strings.Builder
		for i < len(s) {
			if s[i] == q {
				if i+1 < len(s) && s[i+1] == q {
					b.WriteByte(q)
					i += 2
					continue
				}
				break
			}
			b.WriteByte(s[i])
			i++
		}
		i++
		out = append(out, b.String())
	}
	return out
}

func c16Builder(e *Env, pool *hx.Pool) {
	names := []string{"", "s1", markerSchema, "a b", "q\"x"}
	for _, qn := range []string{"unset", "empty", "custom"} {
		q := qualPtr(qn)
		for _, sn := range names {
			for _, psn := range names {
				s, ps := schema.New(sn), schema.New(psn)
				t := schema.NewTable("tbl").SetSchema(s)
				col := schema.NewIntColumn("c", "int")
				t.AddColumns(col)
				idx := schema.NewIndex("ix").AddColumns(col)
				pt := schema.NewTable("par").SetSchema(ps)
				type probe struct {
					kind string
					got  string
					req  map[string]any
				}
				base := func(kind string) map[string]any {
					m := map[string]any{"op": "qualify", "kind": kind, "schema": sn}
					if q != nil {
						m["q"] = *q
					}
					return m
				}
				var ps2 []probe
				r1 := base("table")
				r1["top"] = "tbl"
				ps2 = append(ps2, probe{"table", verifbridge.TableIdent('"', q, t), r1})
				r2 := base("col")
				r2["top"], r2["children"] = "tbl", []string{"c"}
				ps2 = append(ps2, probe{"col", verifbridge.TableColumnIdent('"', q, t, col), r2})
				r3 := base("index")
				r3["top"], r3["children"] = "tbl", []string{"ix"}
				ps2 = append(ps2, probe{"index", verifbridge.TableIndexIdent('"', q, t, idx), r3})
				r4 := base("schemares")
				r4["top"] = "res"
				ps2 = append(ps2, probe{"schemares", verifbridge.SchemaResourceIdent('"', q, s, "res"), r4})
				r5 := base("reftable")
				r5["schema"], r5["child_schema"], r5["top"] = psn, sn, "par"
				ps2 = append(ps2, probe{"reftable", verifbridge.RefTableIdent('"', q, t, pt), r5})
				for _, p := range ps2 {
					var ans struct {
						Idents []string `json:"idents"`
					}
					if err := pool.AskInto(p.req, &ans); err != nil {
						e.Res.Note("model error: %v", err)
						continue
					}
					got := splitIdents(p.got, '"')
					e.Res.Count("builder:"+hxJSON(p.req), qn != "unset", "builder:"+p.kind)
					if hxJSON(got) != hxJSON(ans.Idents) {
						e.Res.Disagree()
						e.Res.Violate("no-failing-input-found", "corr-builder-mismatch", fmt.Sprintf("Builder %s: implementation %s vs model %v for %s", p.kind, p.got, ans.Idents, hxJSON(p.req)), "correspondence Atlas.Qualify.mayQualify", p.req)
					}
				}
			}
		}
	}
}

func c16Scope(e *Env, pool *hx.Pool, r *hx.Rand, n int) {
	for k := 0; k < n; k++ {
		qn := hx.Pick(r, []string{"unset", "empty", "custom"})
		mode := migrate.PlanMode(hx.Pick(r, []int{0, 1, 2, 3, 4}))
		var changes []schema.Change
		var abs []map[string]any
		m := 1 + r.Intn(4)
		for i := 0; i < m; i++ {
			sn := hx.Pick(r, []string{"", "s1", "s2", customQual})
			s := schema.New(sn)
			t := schema.NewTable(fmt.Sprintf("t%d", i)).SetSchema(s).AddColumns(schema.NewIntColumn("c", "int"))
			en := &schema.EnumType{T: fmt.Sprintf("e%d", i), Values: []string{"a"}, Schema: s}
			switch r.Intn(11) {
			case 8:
				changes = append(changes, &schema.AddObject{O: en})
				abs = append(abs, map[string]any{"k": "object", "name": sn})
			case 9:
				changes = append(changes, &schema.DropObject{O: en})
				abs = append(abs, map[string]any{"k": "object", "name": sn})
			case 10:
				changes = append(changes, &schema.ModifyObject{From: en, To: &schema.EnumType{T: en.T, Values: []string{"a", "b"}, Schema: s}})
				abs = append(abs, map[string]any{"k": "object", "name": sn})
			case 0:
				changes = append(changes, &schema.AddSchema{S: s})
				abs = append(abs, map[string]any{"k": "add_schema"})
			case 1:
				changes = append(changes, &schema.DropSchema{S: s})
				abs = append(abs, map[string]any{"k": "drop_schema"})
			case 2:
				changes = append(changes, &schema.ModifySchema{S: s})
				abs = append(abs, map[string]any{"k": "modify_schema", "name": sn})
			case 3:
				changes = append(changes, &schema.DropTable{T: t})
				abs = append(abs, map[string]any{"k": "table", "name": sn})
			case 4:
				changes = append(changes, &schema.ModifyTable{T: t})
				abs = append(abs, map[string]any{"k": "table", "name": sn})
			case 5:
				changes = append(changes, &schema.RenameTable{From: t, To: schema.NewTable("renamed").SetSchema(s)})
				abs = append(abs, map[string]any{"k": "table", "name": sn})
			default:
				changes = append(changes, &schema.AddTable{T: t})
				abs = append(abs, map[string]any{"k": "table", "name": sn})
			}
		}
		opts := migrate.PlanOptions{SchemaQualifier: qualPtr(qn), Mode: mode}
		err := verifbridge.CheckChangesScope(opts, changes)
		req := map[string]any{"op": "scope", "inplace": mode.Is(migrate.PlanModeInPlace), "changes": abs}
		if q := qualPtr(qn); q != nil {
			req["q"] = *q
		}
		var ans struct {
			OK bool `json:"ok"`
		}
		if aerr := pool.AskInto(req, &ans); aerr != nil {
			e.Res.Note("model error: %v", aerr)
			continue
		}
		e.Res.Count("scope:"+hxJSON(req), true, "scope")
		if (err == nil) != ans.OK {
			e.Res.Disagree()
			e.Res.Violate("no-failing-input-found", "corr-scope-mismatch", fmt.Sprintf("CheckChangesScope: implementation err=%v vs model ok=%v for %s", err, ans.OK, hxJSON(req)), "correspondence Atlas.Qualify.checkScope", req)
		}
	}
}

// reIndexRef: DROP INDEX / ALTER INDEX "<first>"[."<second>"]
var reIndexRef = regexp.MustCompile(`(?i)^\s*(?:DROP|ALTER)\s+INDEX\s+(?:CONCURRENTLY\s+)?(?:IF\s+EXISTS\s+)?("(?:[^"]|"")*")(\.("(?:[^"]|"")*"))?`)

var reSchemaStmt = regexp.MustCompile(`(?i)^\s*((CREATE|DROP|ALTER)\s+(SCHEMA|DATABASE)|COMMENT\s+ON\s+SCHEMA)\b`)

// c16Marker runs one marker case on a real planner and monitors every statement.
func c16Marker(e *Env, c c16Case) {
	r := hx.NewRand(c.Seed, "c16")
	q := ownQuote[map[string]string{"tidb": "mysql"}[c.Dialect]+map[string]string{"mysql": "mysql", "postgres": "postgres"}[c.Dialect]]
	qb := q[0]
	s := schema.New(markerSchema)
	other := schema.New(otherSchema)
	ity := map[string]string{"mysql": "int", "postgres": "integer", "tidb": "int"}[c.Dialect]
	mk := func(sc *schema.Schema, name string) *schema.Table {
		t := schema.NewTable(name).SetSchema(sc)
		id := schema.NewIntColumn("id", ity)
		ref := schema.NewNullIntColumn("ref", ity)
		t.AddColumns(id, ref)
		t.SetPrimaryKey(schema.NewPrimaryKey(id))
		t.AddIndexes(schema.NewIndex("ix_" + name).AddColumns(ref))
		if c.Dialect == "postgres" && r.Chance(1, 2) {
			t.AddColumns(schema.NewEnumColumn("st", schema.EnumName("en_"+name), schema.EnumValues("a", "b"), schema.EnumSchema(sc)))
		}
		if r.Chance(1, 2) {
			t.SetComment("comment on " + name)
			t.Columns[1].SetComment("col comment")
		}
		sc.AddTables(t)
		return t
	}
	t1, t2, t3 := mk(s, "TBLA"), mk(s, "TBLB"), mk(s, "TBLC")
	t1.AddForeignKeys(schema.NewForeignKey("fk_a_b").SetTable(t1).AddColumns(t1.Columns[1]).SetRefTable(t2).AddRefColumns(t2.Columns[0]))
	// from-state twins of TBLA / TBLB living in a differently named schema
	dev := schema.New(devSchema)
	mkDev := func(name string) *schema.Table {
		t := schema.NewTable(name).SetSchema(dev)
		id := schema.NewIntColumn("id", ity)
		ref := schema.NewNullIntColumn("ref", ity)
		t.AddColumns(id, ref).SetPrimaryKey(schema.NewPrimaryKey(id))
		dev.AddTables(t)
		return t
	}
	d1, d2 := mkDev("TBLA"), mkDev("TBLB")
	d1.AddForeignKeys(schema.NewForeignKey("fk_a_b").SetTable(d1).AddColumns(d1.Columns[1]).SetRefTable(d2).AddRefColumns(d2.Columns[0]))
	var changes []schema.Change
	pick := func() []schema.Change {
		nc := schema.NewNullIntColumn("added", ity)
		fk := schema.NewForeignKey("fk_c_a").SetTable(t3).AddColumns(t3.Columns[1]).SetRefTable(t1).AddRefColumns(t1.Columns[0])
		opts := [][]schema.Change{
			{&schema.AddTable{T: t1}, &schema.AddTable{T: t2}},
			{&schema.DropTable{T: t1}},
			{&schema.ModifyTable{T: t3, Changes: []schema.Change{&schema.AddColumn{C: nc}, &schema.AddIndex{I: schema.NewIndex("ix_added").SetTable(t3).AddColumns(t3.Columns[0])}}}},
			{&schema.ModifyTable{T: t3, Changes: []schema.Change{&schema.DropIndex{I: t3.Indexes[0]}}}},
			{&schema.ModifyTable{T: t3, Changes: []schema.Change{&schema.AddForeignKey{F: fk}}}},
			{&schema.ModifyTable{T: t1, Changes: []schema.Change{&schema.DropForeignKey{F: t1.ForeignKeys[0]}}}},
			{&schema.RenameTable{From: t2, To: schema.NewTable("TBLR").SetSchema(s).AddColumns(t2.Columns...)}},
			{&schema.ModifyTable{T: t2, Changes: []schema.Change{&schema.RenameColumn{From: t2.Columns[1], To: schema.NewNullIntColumn("renamed", ity)}}}},
			{&schema.ModifyTable{T: t2, Changes: []schema.Change{&schema.RenameIndex{From: t2.Indexes[0], To: schema.NewIndex("ix_renamed").SetTable(t2).AddColumns(t2.Columns[1])}}}},
			{&schema.ModifyTable{T: t2, Changes: []schema.Change{&schema.ModifyColumn{From: t2.Columns[1], To: schema.NewIntColumn("ref", ity), Change: schema.ChangeNull}}}},
			{&schema.AddTable{T: t3}},
			// foreign keys of the from state (other schema name) dropped / modified on a table of the desired state
			{&schema.ModifyTable{T: t1, Changes: []schema.Change{&schema.DropForeignKey{F: d1.ForeignKeys[0]}}}},
			{&schema.ModifyTable{T: t1, Changes: []schema.Change{&schema.ModifyForeignKey{From: d1.ForeignKeys[0], To: t1.ForeignKeys[0], Change: schema.ChangeDeleteAction}}}},
		}
		if c.Dialect == "postgres" {
			// schema-level objects (enum types) added, dropped and extended on their own
			free := &schema.EnumType{T: "en_free", Values: []string{"x", "y"}, Schema: s}
			grown := &schema.EnumType{T: "en_free", Values: []string{"x", "y", "z"}, Schema: s}
			opts = append(opts,
				[]schema.Change{&schema.AddObject{O: free}},
				[]schema.Change{&schema.DropObject{O: free}},
				[]schema.Change{&schema.ModifyObject{From: free, To: grown}},
				[]schema.Change{&schema.DropTable{T: t3}, &schema.DropObject{O: &schema.EnumType{T: "en_TBLC", Values: []string{"a", "b"}, Schema: s}}},
			)
			// an enum type that is attached to no schema (built through the Go API without EnumSchema): its
			// references follow the requested qualifier like every other reference
			nos := &schema.EnumType{T: "en_nosch", Values: []string{"p", "q"}}
			nosGrown := &schema.EnumType{T: "en_nosch", Values: []string{"p", "q", "r"}}
			tn := schema.NewTable("TBLB").SetSchema(s).AddColumns(schema.NewIntColumn("id", ity))
			opts = append(opts,
				[]schema.Change{&schema.AddObject{O: nos}},
				[]schema.Change{&schema.DropObject{O: nos}},
				[]schema.Change{&schema.ModifyObject{From: nos, To: nosGrown}},
				[]schema.Change{&schema.ModifyTable{T: tn, Changes: []schema.Change{&schema.AddColumn{C: schema.NewColumn("st_nosch").SetType(nos)}}}},
				[]schema.Change{&schema.ModifyTable{T: tn, Changes: []schema.Change{&schema.AddColumn{C: schema.NewColumn("sts_nosch").SetType(&postgres.ArrayType{T: "en_nosch[]", Type: nos}).SetNull(true)}}}},
			)
		}
		if t1.Attrs != nil {
			opts = append(opts, []schema.Change{&schema.ModifyTable{T: t1, Changes: []schema.Change{&schema.ModifyAttr{From: &schema.Comment{Text: "comment on TBLA"}, To: &schema.Comment{Text: "new comment"}}}}})
		}
		return hx.Pick(r, opts)
	}
	for i := 0; i < 1+r.Intn(3); i++ {
		changes = append(changes, pick()...)
	}
	modSchema := false
	if !migrate.PlanMode(c.Mode).Is(migrate.PlanModeInPlace) && r.Chance(1, 5) {
		// a schema attribute change is not schema-agnostic: a scoped plan must refuse it (allowed in place only)
		modSchema = true
		var ma schema.Change = &schema.ModifyAttr{From: &schema.Charset{V: "utf8mb4"}, To: &schema.Charset{V: "latin1"}}
		if c.Dialect == "postgres" {
			ma = &schema.ModifyAttr{From: &schema.Comment{Text: "old"}, To: &schema.Comment{Text: "tenant schema"}}
		}
		changes = append(changes, &schema.ModifySchema{S: s, Changes: []schema.Change{ma}})
	}
	if c.TwoSch {
		ot := mk(other, "TBLO")
		changes = append(changes, &schema.AddTable{T: ot})
	}
	var pl migrate.PlanApplier = mysql.DefaultPlan
	if c.Dialect == "postgres" {
		pl = postgres.DefaultPlan
	}
	if c.Dialect == "tidb" {
		// the planner mysql.Open returns for a TiDB connection (plans every atomic change on its own)
		if tp, _ := c17Planner("tidb"); tp != nil {
			pl = tp
		}
	}
	var popts []migrate.PlanOption
	qp := qualPtr(c.Qual)
	popts = append(popts, func(o *migrate.PlanOptions) { o.SchemaQualifier = qp; o.Mode = migrate.PlanMode(c.Mode) })
	var plan *migrate.Plan
	var err error
	func() {
		defer func() {
			if p := recover(); p != nil {
				err = fmt.Errorf("panic: %v", p)
			}
		}()
		plan, err = pl.PlanChanges(context.Background(), "p", changes, popts...)
	}()
	tag := "plan:ok"
	if err != nil {
		tag = "plan:error"
	}
	e.Res.Count("marker:"+hxJSON(c), c.Qual != "unset", "marker:"+c.Dialect, "qual:"+c.Qual, tag, fmt.Sprintf("mode:%d", c.Mode))
	replay := map[string]any{"case": c}
	if err != nil && strings.HasPrefix(err.Error(), "panic") {
		e.Res.Violate("failing-input", "planner-panics", err.Error(), "Props.C16", replay)
		return
	}
	if c.TwoSch && c.Qual != "unset" {
		if err == nil {
			// the schemas of the table changes / of the stand-alone enum changes
			tabs, objs := map[string]bool{}, map[string]bool{}
			for _, ch := range changes {
				switch ch := ch.(type) {
				case *schema.AddTable:
					tabs[ch.T.Schema.Name] = true
				case *schema.DropTable:
					tabs[ch.T.Schema.Name] = true
				case *schema.ModifyTable:
					tabs[ch.T.Schema.Name] = true
				case *schema.RenameTable:
					tabs[ch.From.Schema.Name] = true
				case *schema.ModifySchema:
					tabs[ch.S.Name] = true
				case *schema.AddObject:
					if en := ch.O.(*schema.EnumType); en.Schema != nil {
						objs[en.Schema.Name] = true
					}
				case *schema.DropObject:
					if en := ch.O.(*schema.EnumType); en.Schema != nil {
						objs[en.Schema.Name] = true
					}
				case *schema.ModifyObject:
					if en := ch.To.(*schema.EnumType); en.Schema != nil {
						objs[en.Schema.Name] = true
					}
				}
			}
			if len(tabs) > 1 {
				e.Res.Violate("failing-input", "two-schemas-not-rejected", fmt.Sprintf("%s: a change set with table changes in %s and %s was planned under qualifier %q", c.Dialect, markerSchema, otherSchema, c.Qual), "Props.C16.scope_rejects_two_schemas", replay)
			} else {
				var all []string
				for _, ch := range plan.Changes {
					all = append(all, ch.Cmd)
				}
				e.Res.Violate("failing-input", "enum-schema-not-scoped", fmt.Sprintf("%s: a change set with enum type changes in %v and table changes in %v was planned under qualifier %q: %s", c.Dialect, keys(objs), keys(tabs), c.Qual, trunc(strings.Join(all, "; "), 300)), "Props.C16.object_schema_not_counted", replay)
			}
		}
		return
	}
	if modSchema && c.Qual != "unset" && err == nil {
		var all []string
		for _, ch := range plan.Changes {
			all = append(all, ch.Cmd)
		}
		e.Res.Violate("failing-input", "schema-change-in-scoped-plan", fmt.Sprintf("%s qualifier=%s mode=%d: a change set holding a ModifySchema was planned instead of being rejected: %s", c.Dialect, c.Qual, c.Mode, trunc(strings.Join(all, "; "), 400)), "Props.C16.scope_rejects", replay)
		return
	}
	if err != nil || c.Qual == "unset" {
		return
	}
	tables := []string{"TBLA", "TBLB", "TBLC", "TBLR"}
	types := []string{"en_TBLA", "en_TBLB", "en_TBLC", "en_free", "en_nosch"}
	check := func(stmt, where string) bool {
		ids := splitIdents(stmt, qb)
		for _, id := range ids {
			if id == markerSchema || id == devSchema {
				e.Res.Violate("failing-input", "schema-name-leaks", fmt.Sprintf("%s qualifier=%s mode=%d: %s mentions the schema name: %s", c.Dialect, c.Qual, c.Mode, where, trunc(stmt, 300)), "Props.C16.no_own_schema", map[string]any{"case": c, "stmt": stmt})
				return false
			}
		}
		if strings.Contains(stmt, markerSchema) || strings.Contains(stmt, devSchema) {
			e.Res.Violate("failing-input", "schema-name-leaks", fmt.Sprintf("%s qualifier=%s mode=%d: %s contains the schema name: %s", c.Dialect, c.Qual, c.Mode, where, trunc(stmt, 300)), "Props.C16.no_own_schema", map[string]any{"case": c, "stmt": stmt})
			return false
		}
		if reSchemaStmt.MatchString(stmt) {
			e.Res.Violate("failing-input", "schema-statement-in-scoped-plan", fmt.Sprintf("%s: %s creates/drops/alters a schema: %s", c.Dialect, where, trunc(stmt, 200)), "Props.C16.scope_rejects", map[string]any{"case": c, "stmt": stmt})
			return false
		}
		if c.Qual == "custom" && c.Dialect == "postgres" {
			// an index is referenced by name in DROP INDEX / ALTER INDEX: there it carries the qualifier
			if m := reIndexRef.FindStringSubmatch(stmt); m != nil && (m[2] == "" || m[1] != `"`+customQual+`"`) {
				e.Res.Violate("failing-input", "custom-qualifier-missing", fmt.Sprintf("%s mode=%d: %s references the index without the requested qualifier: %s", c.Dialect, c.Mode, where, trunc(stmt, 300)), "Props.C16.custom_used", map[string]any{"case": c, "stmt": stmt})
				return false
			}
		}
		if c.Qual == "custom" {
			// every table / type reference must be preceded by exactly the custom qualifier
			for i, id := range ids {
				isRef := false
				for _, t := range append(append([]string{}, tables...), types...) {
					if id == t {
						isRef = true
					}
				}
				if !isRef {
					continue
				}
				// a table name directly after RENAME TO is not qualified in either dialect's syntax
				pat := regexp.MustCompile(`(?i)RENAME\s+TO\s+` + regexp.QuoteMeta(q+id+q))
				if pat.MatchString(stmt) && c.Dialect == "postgres" {
					continue
				}
				if i == 0 || ids[i-1] != customQual {
					e.Res.Violate("failing-input", "custom-qualifier-missing", fmt.Sprintf("%s mode=%d: %s references %s without the requested qualifier: %s", c.Dialect, c.Mode, where, id, trunc(stmt, 300)), "Props.C16.custom_used", map[string]any{"case": c, "stmt": stmt})
					return false
				}
			}
		}
		return true
	}
	for i, ch := range plan.Changes {
		if !check(ch.Cmd, fmt.Sprintf("statement %d", i)) {
			return
		}
		rv, _ := ch.ReverseStmts()
		for j, rs := range rv {
			if !check(rs, fmt.Sprintf("reverse statement %d/%d", i, j)) {
				return
			}
		}
	}
}

func runC16(e *Env) error {
	pool, err := hx.NewPool(e.Model, e.Workers)
	if err != nil {
		return err
	}
	defer pool.Close()
	if e.Replay != "" {
		var doc struct {
			Case struct {
				Case c16Case `json:"case"`
			} `json:"case"`
		}
		b, err := os.ReadFile(e.Replay)
		if err != nil {
			return err
		}
		if err := json.Unmarshal(b, &doc); err != nil {
			return err
		}
		c16Marker(e, doc.Case.Case)
		return nil
	}
	r := hx.NewRand(e.Seed, "c16")
	c16Builder(e, pool)
	ns := 2000
	if e.Thorough() {
		ns = 40000
	}
	c16Scope(e, pool, r, ns)
	nm := 3000
	if e.Thorough() {
		nm = 60000
	}
	cases := make([]c16Case, nm)
	for i := range cases {
		cases[i] = c16Case{Dialect: hx.Pick(r, []string{"mysql", "postgres", "mysql", "postgres", "tidb"}), Qual: hx.Pick(r, []string{"unset", "empty", "empty", "custom", "custom"}),
			Mode: hx.Pick(r, []int{0, 1, 2, 3, 4}), Seed: r.Uint64(), TwoSch: r.Chance(1, 6)}
	}
	parallel(e.Workers, len(cases), func(i int) { c16Marker(e, cases[i]) })
	c16SchemaSingles(e, pool)
	c16Sequences(e)
	c16CLI(e)
	c16Planner(e)
	e.Res.Rule = fmt.Sprintf("(A) 5x5 schema-name pairs x 3 qualifiers x {Table, TableColumn, TableResource(index), SchemaResource, RefTable} of the real Builder vs the model; (B) %d random change lists (AddSchema/DropSchema/ModifySchema/Add|Modify|Drop|RenameTable/Add|Drop|ModifyObject of an enum, in 4 schema names) x qualifier x mode for CheckChangesScope vs the model; (C) %d marker cases: 1-3 change groups out of {create, drop, add column+index, drop index, add fk, drop fk, rename table, rename column, rename index, modify column, modify comment, PostgreSQL add/drop/extend of a stand-alone enum type, drop/modify of a from-state foreign key whose tables live in a differently named (dev) schema, a schema attribute change (must be refused outside in-place mode)}, PostgreSQL enums, optional second schema, x {mysql, postgres} x qualifier {unset, empty, custom} x mode {unset, in-place, deferred, dump, unsorted dump}; (D) CLI: `schema inspect` / `schema diff` with the sql template function (no / two-blank / empty / tab indentation) and the default diff output for schema-bound MySQL and PostgreSQL connections (fixture schemes of the verif build), differently named schemas with the same content, realm-bound connections; non-trivial = a qualifier was requested; distinct by the whole case", ns, nm)
	return nil
}

func keys(m map[string]bool) []string {
	out := make([]string, 0, len(m))
	for k := range m {
		out = append(out, k)
	}
	sort.Strings(out)
	return out
}
