package main

import (
	"fmt"
	"sync"

	"ariga.io/atlas/sql/postgres"
	"ariga.io/atlas/sql/schema"
)

// c15Realms builds realms of several schemas whose objects refer across schema borders
// (the single-schema round trips never cross one).
func c15Realms(d *dialectAPI) map[string]*schema.Realm {
	out := map[string]*schema.Realm{}
	names := [][2]string{{"types", "app"}, {"app", "types"}, {"a", "b"}}
	if d.name == "sqlite" {
		names = [][2]string{{"main", "aux"}}
	}
	for _, nm := range names {
		// same table name in both schemas, a reference from the second schema into the first
		s1, s2 := schema.New(nm[0]), schema.New(nm[1])
		p := schema.NewTable("items").AddColumns(schema.NewIntColumn("id", "bigint"), schema.NewColumn("name").SetType(d.text()).SetNull(true))
		p.SetPrimaryKey(schema.NewPrimaryKey(p.Columns[0]))
		c := schema.NewTable("items").AddColumns(schema.NewIntColumn("id", "bigint"), schema.NewNullIntColumn("item_id", "bigint"))
		c.SetPrimaryKey(schema.NewPrimaryKey(c.Columns[0]))
		if d.name != "sqlite" {
			c.AddForeignKeys(schema.NewForeignKey("items_fk").AddColumns(c.Columns[1]).SetRefTable(p).AddRefColumns(p.Columns[0]).SetOnDelete(schema.Cascade))
		}
		s1.AddTables(p)
		s2.AddTables(c)
		out[fmt.Sprintf("fk %s<-%s", nm[0], nm[1])] = schema.NewRealm(s1, s2)
		if d.name != "postgres" {
			continue
		}
		// an enum of the first schema types columns (scalar and array) of both schemas
		t1, t2 := schema.New(nm[0]), schema.New(nm[1])
		status := &schema.EnumType{T: "status", Values: []string{"on", "off"}, Schema: t1}
		t1.AddObjects(status)
		t1.AddTables(schema.NewTable("defaults").AddColumns(schema.NewIntColumn("id", "bigint"), schema.NewColumn("s").SetType(status)))
		t2.AddTables(schema.NewTable("users").AddColumns(
			schema.NewIntColumn("id", "bigint"),
			schema.NewColumn("state").SetType(status),
			schema.NewColumn("history").SetType(&postgres.ArrayType{T: "status[]", Type: status}).SetNull(true),
		))
		out[fmt.Sprintf("enum of %s used in %s", nm[0], nm[1])] = schema.NewRealm(t1, t2)
		// the enum lives in a schema without tables
		u1, u2 := schema.New(nm[0]), schema.New(nm[1])
		kind := &schema.EnumType{T: "kind", Values: []string{"x", "y", "z"}, Schema: u1}
		u1.AddObjects(kind)
		u2.AddTables(schema.NewTable("things").AddColumns(schema.NewColumn("k").SetType(kind), schema.NewColumn("ks").SetType(&postgres.ArrayType{T: "kind[]", Type: kind})))
		out[fmt.Sprintf("enum of table-less %s used in %s", nm[0], nm[1])] = schema.NewRealm(u1, u2)
		// two enums of one name, one per schema, each used in both schemas
		v1, v2 := schema.New(nm[0]), schema.New(nm[1])
		e1 := &schema.EnumType{T: "level", Values: []string{"low", "high"}, Schema: v1}
		e2 := &schema.EnumType{T: "level", Values: []string{"1", "2", "3"}, Schema: v2}
		v1.AddObjects(e1)
		v2.AddObjects(e2)
		v1.AddTables(schema.NewTable("m").AddColumns(schema.NewColumn("own").SetType(e1), schema.NewColumn("other").SetType(e2)))
		v2.AddTables(schema.NewTable("m").AddColumns(schema.NewColumn("own").SetType(e2), schema.NewColumn("other").SetType(e1), schema.NewColumn("others").SetType(&postgres.ArrayType{T: nm[0] + ".level[]", Type: e1}).SetNull(true)))
		out[fmt.Sprintf("same-named enums in %s and %s", nm[0], nm[1])] = schema.NewRealm(v1, v2)
	}
	return out
}

func (d *dialectAPI) text() schema.Type {
	if d.name == "mysql" {
		return &schema.StringType{T: "varchar", Size: 255}
	}
	return &schema.StringType{T: "text"}
}

// c15RealmRoundTrip: MarshalHCL(realm) -> EvalHCLBytes(realm) -> RealmDiff empty both ways, the types of
// the columns format alike and enum columns stay linked to the enum's schema, re-marshal identical.
func c15RealmRoundTrip(e *Env, d *dialectAPI, r *schema.Realm, id string, viol func(kind, sig, what, chk string, rep any), mu *sync.Mutex) {
	rep := map[string]any{"dialect": d.name, "case": "realm " + id}
	mu.Lock()
	e.Res.Count(d.name+"/hcl-realm/"+id, true, "hcl-realm:"+d.name)
	mu.Unlock()
	var hcl []byte
	var err error
	func() {
		defer func() {
			if p := recover(); p != nil {
				err = fmt.Errorf("panic: %v", p)
			}
		}()
		hcl, err = d.marshal(r)
	}()
	if err != nil {
		viol("failing-input", "marshal-fails", fmt.Sprintf("%s realm %s: MarshalHCL fails: %v", d.name, id, err), "Props.C15 round trip", rep)
		return
	}
	rep["hcl"] = string(hcl)
	var back schema.Realm
	if err := func() (err error) {
		defer func() {
			if p := recover(); p != nil {
				err = fmt.Errorf("panic: %v", p)
			}
		}()
		return d.eval(hcl, &back)
	}(); err != nil {
		viol("failing-input", "marshalled-hcl-not-evaluable", fmt.Sprintf("%s realm %s: EvalHCLBytes rejects the marshalled document: %v\n%s", d.name, id, trunc(err.Error(), 300), trunc(string(hcl), 600)), "Props.C15 round trip", rep)
		return
	}
	hcl2, err2 := d.marshal(&back)
	// column types, independently of the differ: same format, enums linked to the same schema name
	for _, s := range r.Schemas {
		bs, ok := back.Schema(s.Name)
		if !ok {
			viol("failing-input", "realm-schema-lost", fmt.Sprintf("%s realm %s: schema %q is not in the evaluated realm", d.name, id, s.Name), "Props.C15 round trip", rep)
			continue
		}
		for _, t := range s.Tables {
			bt, ok := bs.Table(t.Name)
			if !ok {
				viol("failing-input", "realm-table-lost", fmt.Sprintf("%s realm %s: table %s.%s is not in the evaluated realm", d.name, id, s.Name, t.Name), "Props.C15 round trip", rep)
				continue
			}
			for _, c := range t.Columns {
				bc, ok := bt.Column(c.Name)
				if !ok {
					viol("failing-input", "realm-column-lost", fmt.Sprintf("%s realm %s: column %s.%s.%s is not in the evaluated realm", d.name, id, s.Name, t.Name, c.Name), "Props.C15 round trip", rep)
					continue
				}
				if a, b := c15TypeKey(d, c.Type.Type), c15TypeKey(d, bc.Type.Type); a != b {
					viol("failing-input", "realm-column-type-changed", fmt.Sprintf("%s realm %s: column %s.%s.%s has type %s, evaluates back as %s\n%s", d.name, id, s.Name, t.Name, c.Name, a, b, trunc(string(hcl), 700)), "Props.C15 round trip", rep)
				}
			}
		}
	}
	for _, dir := range []string{"original->evaluated", "evaluated->original"} {
		a, b := r, &back
		if dir == "evaluated->original" {
			a, b = &back, r
		}
		cs, err := d.differ.RealmDiff(a, b, schema.DiffNormalized())
		if err != nil {
			viol("failing-input", "diff-error", fmt.Sprintf("%s realm %s: %v", d.name, id, err), "Props.C15 round trip", rep)
			continue
		}
		if len(cs) > 0 {
			for _, sig := range c15Classify(d, cs) {
				viol("failing-input", sig, fmt.Sprintf("%s realm %s (%s): the evaluated HCL differs from the marshalled realm: %v\n%s", d.name, id, dir, c15Changes(d, cs), trunc(string(hcl), 700)), "Props.C15 round trip", rep)
			}
		}
	}
	if err2 != nil || string(hcl2) != string(hcl) {
		rep["hcl_again"] = string(hcl2)
		viol("failing-input", "remarshal-differs", fmt.Sprintf("%s realm %s: marshalling the evaluated realm gives other bytes (%v): %s", d.name, id, err2, firstDiff(string(hcl), string(hcl2))), "Props.C15 remarshal", rep)
	}
}

// c15TypeKey describes a column type with the owner schema of an enum (which FormatType leaves out when
// the enum has none).
func c15TypeKey(d *dialectAPI, t schema.Type) string {
	s, err := d.format(t)
	if err != nil {
		s = fmt.Sprintf("<%T: %v>", t, err)
	}
	var en *schema.EnumType
	switch t := t.(type) {
	case *schema.EnumType:
		en = t
	case *postgres.ArrayType:
		en, _ = t.Type.(*schema.EnumType)
		if en == nil {
			return fmt.Sprintf("%s (array of %T)", s, t.Type)
		}
		s += " (array of enum)"
	default:
		return fmt.Sprintf("%s (%T)", s, t)
	}
	owner := "<none>"
	if en.Schema != nil {
		owner = en.Schema.Name
	}
	return fmt.Sprintf("%s (enum %q %v of schema %s)", s, en.T, en.Values, owner)
}
