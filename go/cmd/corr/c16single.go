package main

import (
	"context"
	"fmt"
	"strings"

	"ariga.io/atlas/sql/migrate"
	"ariga.io/atlas/sql/schema"
	"verifharness/internal/hx"
)

// c16SchemaSingles: the scope check on the SMALLEST change sets - exactly one schema-level change, or one next
// to a single table change - for every planner x requested qualifier x plan mode. A scoped plan never
// creates, drops or alters a schema: the planner refuses (the only exception the code documents is a
// ModifySchema planned IN PLACE, which is not a plan somebody else replays).
func c16SchemaSingles(e *Env, pool *hx.Pool) {
	for _, dialect := range []string{"mysql", "postgres", "tidb"} {
		pl, _ := c17Planner(dialect)
		if pl == nil {
			continue
		}
		for _, q := range []string{"empty", "custom"} {
			for mode := 0; mode <= 4; mode++ {
				s := schema.New(markerSchema)
				t := schema.NewTable("TBLA").SetSchema(s).AddColumns(schema.NewIntColumn("id", "int"))
				var ma schema.Change = &schema.ModifyAttr{From: &schema.Charset{V: "utf8mb4"}, To: &schema.Charset{V: "latin1"}}
				if dialect == "postgres" {
					ma = &schema.ModifyAttr{From: &schema.Comment{Text: "old"}, To: &schema.Comment{Text: "tenant schema"}}
				}
				sets := []struct {
					name    string
					changes []schema.Change
				}{
					{"[AddSchema]", []schema.Change{&schema.AddSchema{S: s}}},
					{"[DropSchema]", []schema.Change{&schema.DropSchema{S: s}}},
					{"[ModifySchema]", []schema.Change{&schema.ModifySchema{S: s, Changes: []schema.Change{ma}}}},
					{"[AddSchema IF NOT EXISTS]", []schema.Change{&schema.AddSchema{S: s, Extra: []schema.Clause{&schema.IfNotExists{}}}}},
					{"[DropSchema IF EXISTS]", []schema.Change{&schema.DropSchema{S: s, Extra: []schema.Clause{&schema.IfExists{}}}}},
					{"[AddSchema IF NOT EXISTS, AddTable]", []schema.Change{&schema.AddSchema{S: s, Extra: []schema.Clause{&schema.IfNotExists{}}}, &schema.AddTable{T: t}}},
					{"[AddSchema, AddTable]", []schema.Change{&schema.AddSchema{S: s}, &schema.AddTable{T: t}}},
					{"[AddTable, ModifySchema]", []schema.Change{&schema.AddTable{T: t}, &schema.ModifySchema{S: s, Changes: []schema.Change{ma}}}},
					{"[DropTable, DropSchema]", []schema.Change{&schema.DropTable{T: t}, &schema.DropSchema{S: s}}},
				}
				for _, set := range sets {
					if strings.Contains(set.name, "ModifySchema") && migrate.PlanMode(mode).Is(migrate.PlanModeInPlace) {
						continue
					}
					qp := qualPtr(q)
					var plan *migrate.Plan
					var err error
					func() {
						defer func() {
							if p := recover(); p != nil {
								err = fmt.Errorf("panic: %v", p)
							}
						}()
						plan, err = pl.PlanChanges(context.Background(), "p", set.changes, func(o *migrate.PlanOptions) { o.SchemaQualifier = qp; o.Mode = migrate.PlanMode(mode) })
					}()
					id := fmt.Sprintf("%s qualifier=%s mode=%d change set %s", dialect, q, mode, set.name)
					// the Lean scope check (Atlas.Qualify.checkScope; Props.C16.scope_rejects_add_drop /
					// scope_rejects_deferred_modify) on the same kinds: the planner refuses exactly what it refuses
					{
						var abs []map[string]any
						for _, ch := range set.changes {
							switch ch.(type) {
							case *schema.AddSchema:
								abs = append(abs, map[string]any{"k": "add_schema"})
							case *schema.DropSchema:
								abs = append(abs, map[string]any{"k": "drop_schema"})
							case *schema.ModifySchema:
								abs = append(abs, map[string]any{"k": "modify_schema", "name": markerSchema})
							default:
								abs = append(abs, map[string]any{"k": "table", "name": markerSchema})
							}
						}
						req := map[string]any{"op": "scope", "inplace": migrate.PlanMode(mode).Is(migrate.PlanModeInPlace), "changes": abs, "q": *qp}
						var ans struct {
							OK bool `json:"ok"`
						}
						if aerr := pool.AskInto(req, &ans); aerr == nil && ans.OK != (err == nil) && (err == nil || !strings.HasPrefix(err.Error(), "panic")) {
							e.Res.Disagree()
							e.Res.Violate("no-failing-input-found", "corr-scope-mismatch", fmt.Sprintf("%s: the planner returns err=%v, the Lean scope check accepts: %v", id, err, ans.OK), "correspondence Atlas.Qualify.checkScope (through the planners)", map[string]any{"case": id})
						}
					}
					e.Res.Count("schema-single:"+id, true, "schema-single:"+dialect, "qual:"+q, fmt.Sprintf("mode:%d", mode))
					rep := map[string]any{"case": id}
					switch {
					case err != nil && strings.HasPrefix(err.Error(), "panic"):
						e.Res.Violate("failing-input", "planner-panics", id+": "+err.Error(), "Props.C16", rep)
					case err == nil:
						var all []string
						for _, ch := range plan.Changes {
							all = append(all, ch.Cmd)
						}
						e.Res.Violate("failing-input", "schema-change-in-scoped-plan", fmt.Sprintf("%s: planned instead of being rejected: %s", id, trunc(strings.Join(all, "; "), 400)), "Props.C16.scope_rejects", rep)
					}
				}
			}
		}
	}
}
