package main

import (
	"fmt"
	"sort"
	"sync"

	"ariga.io/atlas/sql/postgres"
	"ariga.io/atlas/sql/schema"
	"verifharness/internal/hx"
)

type aEnum struct {
	Name   int   `json:"name"`
	Values []int `json:"values"`
}

// c02EnumSchema builds a PostgreSQL schema with the enum types and one table whose columns (scalar and
// array) are typed with each of them.
func c02EnumSchema(es []aEnum) *schema.Schema {
	s := schema.New("public")
	t := schema.NewTable("t1").AddColumns(schema.NewIntColumn("id", "bigint"))
	for _, e := range es {
		en := &schema.EnumType{T: fmt.Sprintf("e%d", e.Name), Schema: s}
		for _, v := range e.Values {
			// (the fourth value differs from the first only in letter case: enum labels are case sensitive)
			en.Values = append(en.Values, map[int]string{4: "V1"}[v]+map[bool]string{true: fmt.Sprintf("v%d", v)}[v != 4])
		}
		s.AddObjects(en)
		t.AddColumns(
			schema.NewColumn(fmt.Sprintf("c%d", e.Name)).SetType(en),
			schema.NewColumn(fmt.Sprintf("a%d", e.Name)).SetType(&postgres.ArrayType{T: en.T + "[]", Type: en}).SetNull(true),
		)
	}
	s.AddTables(t)
	return s
}

// permsUpTo lists every duplicate-free list over 1..n of length 0..n.
func permsUpTo(n int) [][]int {
	var out [][]int
	var rec func(cur []int)
	rec = func(cur []int) {
		out = append(out, append([]int{}, cur...))
		for v := 1; v <= n; v++ {
			used := false
			for _, c := range cur {
				used = used || c == v
			}
			if !used {
				rec(append(cur, v))
			}
		}
	}
	rec(nil)
	return out
}

// c02Enums: PostgreSQL enum types. The enum e1 = [v1 v2 v3] is replaced by EVERY duplicate-free value list
// over v1..v4 (values appended, inserted, removed at either end, reordered, swapped, all of them replaced);
// enums are added and dropped beside it. The changes reported for the objects must be exactly the edits
// made (a ModifyObject whenever the ordered value lists differ) and equal the Lean model objectDiff; the
// table, whose columns keep their enum names, must report nothing.
func c02Enums(e *Env, pool *hx.Pool, viol func(kind, sig, what, chk string, rep any), mu *sync.Mutex) {
	base := []aEnum{{1, []int{1, 2, 3}}, {2, []int{1, 2}}}
	type cas struct {
		id string
		to []aEnum
	}
	var cases []cas
	for _, l := range permsUpTo(4) {
		if len(l) == 0 {
			continue // an enum without values cannot be created
		}
		cases = append(cases, cas{fmt.Sprintf("e1 values -> %v", l), []aEnum{{1, l}, {2, []int{1, 2}}}})
	}
	cases = append(cases,
		cas{"e2 dropped", []aEnum{{1, []int{1, 2, 3}}}},
		cas{"e3 added", []aEnum{{1, []int{1, 2, 3}}, {2, []int{1, 2}}, {3, []int{7}}}},
		cas{"e2 dropped, e3 added, e1 shortened", []aEnum{{3, []int{1, 2}}, {1, []int{1, 2}}}},
		cas{"order of the enums swapped", []aEnum{{2, []int{1, 2}}, {1, []int{1, 2, 3}}}},
		cas{"e2 reversed", []aEnum{{1, []int{1, 2, 3}}, {2, []int{2, 1}}}},
	)
	for _, c := range cases {
		rep := map[string]any{"dialect": "postgres", "case": "enum " + c.id, "from": base, "to": c.to}
		// expectation, stated independently of the model
		var expect []string
		byName := func(es []aEnum, n int) *aEnum {
			for i := range es {
				if es[i].Name == n {
					return &es[i]
				}
			}
			return nil
		}
		for _, b := range base {
			switch t := byName(c.to, b.Name); {
			case t == nil:
				expect = append(expect, fmt.Sprintf("dropObject %d", b.Name))
			case fmt.Sprint(t.Values) != fmt.Sprint(b.Values):
				expect = append(expect, fmt.Sprintf("modifyObject %d", b.Name))
			}
		}
		for _, t := range c.to {
			if byName(base, t.Name) == nil {
				expect = append(expect, fmt.Sprintf("addObject %d", t.Name))
			}
		}
		sort.Strings(expect)
		from, to := c02EnumSchema(base), c02EnumSchema(c.to)
		// columns of dropped / added enums come and go with them: compare the objects and the surviving columns
		cs, err := postgres.DefaultDiff.SchemaDiff(from, to, schema.DiffNormalized())
		mu.Lock()
		e.Res.Count("postgres/enum/"+c.id, len(expect) > 0, "dialect:postgres", "enums")
		mu.Unlock()
		if err != nil {
			viol("failing-input", "diff-error", fmt.Sprintf("postgres enum %s: SchemaDiff fails: %v", c.id, err), "Props.C02", rep)
			continue
		}
		var got []string
		for _, ch := range cs {
			switch ch := ch.(type) {
			case *schema.AddObject:
				got = append(got, "addObject "+num(ch.O.(*schema.EnumType).T[1:]))
			case *schema.DropObject:
				got = append(got, "dropObject "+num(ch.O.(*schema.EnumType).T[1:]))
			case *schema.ModifyObject:
				got = append(got, "modifyObject "+num(ch.From.(*schema.EnumType).T[1:]))
			case *schema.ModifyTable:
				for _, tc := range ch.Changes {
					switch tc := tc.(type) {
					case *schema.AddColumn, *schema.DropColumn:
						// columns of an added / dropped enum
					default:
						got = append(got, fmt.Sprintf("t1:%T", tc))
					}
				}
			default:
				got = append(got, fmt.Sprintf("%T", ch))
			}
		}
		sort.Strings(got)
		if fmt.Sprint(got) != fmt.Sprint(expect) {
			sig := "diff-not-exact"
			if len(expect) == 0 {
				sig = "spurious-change"
			}
			viol("failing-input", sig, fmt.Sprintf("postgres enum %s: SchemaDiff reports %v, the edits made are %v", c.id, got, expect), "Props.C02 exactness (enum_values_change_reported)", rep)
		}
		var ans struct {
			Changes []string `json:"changes"`
		}
		if err := pool.AskInto(map[string]any{"op": "diff.objects", "from": base, "to": c.to}, &ans); err == nil {
			sort.Strings(ans.Changes)
			if fmt.Sprint(ans.Changes) != fmt.Sprint(got) {
				mu.Lock()
				e.Res.Disagree()
				mu.Unlock()
				viol("no-failing-input-found", "corr-diff-mismatch", fmt.Sprintf("postgres enum %s: implementation %v, model %v", c.id, got, ans.Changes), "correspondence Atlas.Diff.objectDiff", rep)
			}
		}
	}
}
