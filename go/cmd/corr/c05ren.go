package main

import (
	"context"
	"database/sql"
	"fmt"
	"strings"

	"ariga.io/atlas/sql/schema"
	"ariga.io/atlas/sql/sqlite"
	"verifharness/internal/hx"
)

// c05Renames: a rebuild whose change list RENAMES columns (the differ never emits RenameColumn, a hand-written
// change set passed to ApplyChanges does): single renames, rotations (a -> b together with b -> c, in both
// orders), swaps and renames next to a dropped / modified column - on a real in-memory database with rows.
// Every kept column holds, per row, the value its source column held.
func c05Renames(e *Env, pool *hx.Pool) {
	ctx := context.Background()
	type ren struct{ from, to string }
	cases := []struct {
		name string
		rens []ren
		drop []string
	}{
		{"one rename next to a drop", []ren{{"a", "x"}}, []string{"d"}},
		{"rotation a->b, b->c", []ren{{"a", "b"}, {"b", "c"}}, []string{"d"}},
		{"rotation listed in the other order", []ren{{"b", "c"}, {"a", "b"}}, []string{"d"}},
		{"swap a<->b", []ren{{"a", "b"}, {"b", "a"}}, []string{"d"}},
		{"three-cycle a->b, b->d, d->a", []ren{{"a", "b"}, {"b", "d"}, {"d", "a"}}, []string{"z"}},
		{"rename into the name of a dropped column", []ren{{"a", "d"}}, []string{"d"}},
		{"two independent renames", []ren{{"a", "x"}, {"b", "y"}}, []string{"d"}},
	}
	for ci, c := range cases {
		db, err := sql.Open("sqlite3", fmt.Sprintf("file:c05ren%d?mode=memory&cache=shared", ci))
		if err != nil {
			continue
		}
		for _, s := range []string{
			"CREATE TABLE t (id integer PRIMARY KEY, a text, b text, d text, z text)",
			"INSERT INTO t VALUES (1, 'a1', 'b1', 'd1', 'z1'), (2, 'a2', NULL, 'd2', 'z2'), (3, NULL, 'b3', 'd3', 'z3')",
		} {
			db.Exec(s)
		}
		old := map[string]map[int64]string{}
		for _, col := range []string{"a", "b", "d", "z"} {
			old[col] = map[int64]string{}
			rows, _ := db.Query("SELECT id, coalesce(" + col + ", '<null>') FROM t")
			for rows != nil && rows.Next() {
				var id int64
				var v string
				rows.Scan(&id, &v)
				old[col][id] = v
			}
			if rows != nil {
				rows.Close()
			}
		}
		id := "rename in a rebuild: " + c.name
		rep := map[string]any{"case": id, "renames": fmt.Sprint(c.rens), "drop": c.drop}
		e.Res.Count("c05ren:"+c.name, true, "rename-rebuild")
		drv, err := sqlite.Open(db)
		if err != nil {
			db.Close()
			continue
		}
		cur, err := drv.InspectSchema(ctx, "main", nil)
		if err != nil {
			e.Res.Violate("no-failing-input-found", "harness-setup", id+": "+err.Error(), "harness", rep)
			db.Close()
			continue
		}
		ct, _ := cur.Table("t")
		des := schema.NewTable("t").SetSchema(schema.New("main"))
		src := map[string]string{} // new column -> old column
		var changes []schema.Change
		dropped := map[string]bool{}
		for _, d := range c.drop {
			dropped[d] = true
		}
		renamed := map[string]string{}
		for _, r := range c.rens {
			renamed[r.from] = r.to
		}
		for _, col := range ct.Columns {
			switch {
			case renamed[col.Name] != "":
				nc := schema.NewColumn(renamed[col.Name]).SetType(col.Type.Type).SetNull(col.Type.Null)
				des.AddColumns(nc)
				src[nc.Name] = col.Name
			case dropped[col.Name]:
			default:
				nc := schema.NewColumn(col.Name).SetType(col.Type.Type).SetNull(col.Type.Null)
				des.AddColumns(nc)
				src[nc.Name] = col.Name
			}
		}
		pk, _ := des.Column("id")
		des.SetPrimaryKey(schema.NewPrimaryKey(pk))
		for _, r := range c.rens {
			fc, _ := ct.Column(r.from)
			tc, _ := des.Column(r.to)
			changes = append(changes, &schema.RenameColumn{From: fc, To: tc})
		}
		for _, d := range c.drop {
			dc, _ := ct.Column(d)
			changes = append(changes, &schema.DropColumn{C: dc})
		}
		plan, perr := drv.PlanChanges(ctx, "p", []schema.Change{&schema.ModifyTable{T: des, Changes: changes}})
		var cmds []string
		if plan != nil {
			for _, ch := range plan.Changes {
				cmds = append(cmds, ch.Cmd)
			}
		}
		rep["plan"] = cmds
		if perr != nil {
			// refusing such a change set loses nothing
			e.Res.Count("c05ren-refused:"+c.name, true, "rename-rebuild-refused")
			db.Close()
			continue
		}
		// the INSERT ... SELECT of the plan is the Lean copy plan (Atlas.Copy; Props.C05.renamed_column_preserved)
		c05Model(pool, &schema.ModifyTable{T: des, Changes: changes}, plan, func(kind, sig, what, chk string) {
			e.Res.Disagree()
			e.Res.Violate(kind, sig, id+": "+what, chk, rep)
		})
		aerr := drv.ApplyChanges(ctx, []schema.Change{&schema.ModifyTable{T: des, Changes: changes}})
		if aerr != nil {
			// a failed apply must leave the rows where they were
			var n int
			db.QueryRow("SELECT count(*) FROM t").Scan(&n)
			if n != 3 {
				e.Res.Violate("failing-input", "rows-lost", fmt.Sprintf("%s: the apply fails (%v) and table t holds %d of 3 rows", id, aerr, n), "Props.C05 rows kept", rep)
			}
			db.Close()
			continue
		}
		for nc, oc := range src {
			if nc == "id" {
				continue
			}
			rows, err := db.Query("SELECT id, coalesce(`" + nc + "`, '<null>') FROM t")
			if err != nil {
				e.Res.Violate("failing-input", "rows-lost", fmt.Sprintf("%s: column %s cannot be read after the rebuild: %v; plan: %s", id, nc, err, strings.Join(cmds, "; ")), "Props.C05 rows kept", rep)
				break
			}
			got := map[int64]string{}
			for rows.Next() {
				var rid int64
				var v string
				rows.Scan(&rid, &v)
				got[rid] = v
			}
			rows.Close()
			if fmt.Sprint(got) != fmt.Sprint(old[oc]) {
				e.Res.Violate("failing-input", "copy-takes-wrong-column", fmt.Sprintf("%s: column %s (was %s) holds %v, the source column held %v; plan: %s", id, nc, oc, got, old[oc], strings.Join(cmds, "; ")), "Props.C05 copy_columns (renames)", rep)
				break
			}
		}
		db.Close()
	}
}
