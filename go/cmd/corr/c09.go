package main

// C09: the executor runs each statement in order, once, and resumes after any failure.
// Exhaustive enumeration of directory shapes x single faults x pairs of faults (in successive runs,
// or the statement fault + its deferred write in the same run) on the real Executor (recording
// driver / revision store) and on the Lean model; the property monitor runs on the implementation's
// own traces.

import (
	"encoding/json"
	"fmt"
	"os"
	"strings"

	"verifharness/internal/hx"
)

func init() { commands["C09"] = runC09 }

type c09Case struct {
	Shape  []int   `json:"shape"`  // statements per file
	Faults [][]int `json:"faults"` // per attempt: failing op indices
	// Ck: the first file carries the atlas:checkpoint directive. On a first run that is where the run
	// starts anyway, so the same statements are due; a fault inside it makes the resumed run take the
	// "partially applied checkpoint" path of Pending.
	Ck bool `json:"first_file_is_checkpoint,omitempty"`
	// Cks: further files (by index) that carry the directive. A first run starts at the LAST checkpoint
	// of the directory; the files in front of it (earlier checkpoints included) are never executed.
	Cks []int `json:"checkpoint_files,omitempty"`
	// Vers: the version of each file (default "1", "2", ...), given in the order the directory lists them
	// (byte order of the names): e.g. ["10", "2"] - versions of different width
	Vers []string `json:"versions,omitempty"`
}

func (c *c09Case) ver(i int) string {
	if i < len(c.Vers) {
		return c.Vers[i]
	}
	return fmt.Sprint(i + 1)
}

// isCk reports whether file i carries the checkpoint directive; first is the file a first run starts at.
func (c *c09Case) isCk(i int) bool {
	if c.Ck && i == 0 {
		return true
	}
	for _, k := range c.Cks {
		if k == i {
			return true
		}
	}
	return false
}

func (c *c09Case) first() int {
	f := 0
	for i := range c.Shape {
		if c.isCk(i) {
			f = i
		}
	}
	return f
}

func (c *c09Case) dir() ([]dirFile, []string) {
	var d []dirFile
	var flat []string
	for i, n := range c.Shape {
		var b strings.Builder
		if c.isCk(i) {
			b.WriteString("-- atlas:checkpoint\n\n")
		}
		if n == 0 {
			b.WriteString("-- empty\n")
		}
		for j := 0; j < n; j++ {
			s := fmt.Sprintf("S%d_%d;", i+1, j+1)
			if i >= c.first() {
				flat = append(flat, s)
			}
			b.WriteString(s + "\n")
		}
		d = append(d, dirFile{fmt.Sprintf("%s_f%d.sql", c.ver(i), i+1), b.String()})
	}
	return d, flat
}

func (c *c09Case) toExec() *execCase {
	d, _ := c.dir()
	ec := &execCase{Dir: d, Cfg: MCfg{Order: "linear", Clean: true}}
	for _, f := range c.Faults {
		ec.Attempts = append(ec.Attempts, caseTry{Faults: f})
	}
	return ec
}

// c09Monitor evaluates the property on a trace (implementation's or model's). ops may be nil
// (model): then fired write faults are inferred from result codes.
func c09Monitor(c *c09Case, at []AttemptOut) (bool, string, string) {
	_, flat := c.dir()
	pos := map[string]int{}
	for i, s := range flat {
		pos[s] = i
	}
	// file boundaries
	fileOf := make([]int, len(flat))
	{
		k := 0
		for i, n := range c.Shape {
			for j := 0; j < n && i >= c.first(); j++ {
				fileOf[k] = i
				k++
			}
		}
	}
	var J []int
	writeFaults := 0
	recorded := 0 // sum of applied after the previous attempt
	for ai, a := range at {
		if a.Res == "panic" {
			return false, "panic", fmt.Sprintf("attempt %d panicked", ai)
		}
		fired := 0
		for _, f := range c.Faults[ai] {
			if a.Ops != nil && f < len(a.Ops) {
				fired++
				if a.Ops[f] == "write" {
					writeFaults++
				}
			}
		}
		if a.Ops == nil && strings.Contains(a.Res, "write") {
			writeFaults++
		}
		if fired > 0 && a.Res == "ok" {
			return false, "fault-not-reported", fmt.Sprintf("attempt %d: a fault fired but the run reported success", ai)
		}
		if fired > 0 && a.Ops != nil {
			// the executor stops: nothing but (optionally) the deferred write follows the first fired fault
			first := len(a.Ops)
			for _, f := range c.Faults[ai] {
				if f < first {
					first = f
				}
			}
			rest := a.Ops[first+1:]
			if len(rest) > 1 || (len(rest) == 1 && (rest[0] != "write" || a.Ops[first] != "stmt")) {
				return false, "continues-after-fault", fmt.Sprintf("attempt %d: operations %v after the fault at %d", ai, rest, first)
			}
		}
		// resume point: the first call of this attempt is the first statement not recorded
		if len(a.Calls) > 0 {
			p, ok := pos[a.Calls[0]]
			if !ok || p != recorded {
				return false, "wrong-resume-point", fmt.Sprintf("attempt %d starts at %q, expected statement #%d (%d recorded)", ai, a.Calls[0], recorded, recorded)
			}
		}
		for _, s := range a.Journal {
			p, ok := pos[s]
			if !ok {
				return false, "unknown-statement", "executed " + s
			}
			switch {
			case len(J) == 0 && p != 0:
				return false, "skipped-statement", fmt.Sprintf("first executed statement is #%d", p)
			case len(J) > 0 && p != J[len(J)-1] && p != J[len(J)-1]+1:
				sig := "skipped-statement"
				if p <= J[len(J)-1] {
					sig = "re-executed-earlier-statement"
				}
				return false, sig, fmt.Sprintf("executed #%d after #%d", p, J[len(J)-1])
			}
			J = append(J, p)
		}
		// history never claims more than executed; per file
		distinct := 0
		if len(J) > 0 {
			distinct = J[len(J)-1] + 1
		}
		perFile := make([]int, len(c.Shape))
		for p := 0; p < distinct; p++ {
			perFile[fileOf[p]]++
		}
		recorded = 0
		for _, r := range a.Revs {
			fi := -1
			for k := range c.Shape {
				if c.ver(k) == r.V {
					fi = k
				}
			}
			if fi < 0 || fi >= len(c.Shape) {
				return false, "unknown-revision", r.V
			}
			if r.A > perFile[fi] {
				return false, "history-overclaims", fmt.Sprintf("after attempt %d revision %s records %d applied, only %d executed", ai, r.V, r.A, perFile[fi])
			}
			recorded += r.A
		}
		if recorded < distinct-1 {
			return false, "history-underclaims", fmt.Sprintf("after attempt %d only %d of %d executed statements are recorded", ai, recorded, distinct)
		}
	}
	stutters := 0
	for i := 1; i < len(J); i++ {
		if J[i] == J[i-1] {
			stutters++
		}
	}
	if stutters > writeFaults {
		return false, "repeated-statement", fmt.Sprintf("%d repeated executions but only %d failed revision writes", stutters, writeFaults)
	}
	// the last two attempts are clean: everything executed, then nothing pending.
	n := len(at)
	if len(J) == 0 && len(flat) > 0 || len(J) > 0 && J[len(J)-1] != len(flat)-1 {
		return false, "not-completed", fmt.Sprintf("after the clean run the journal is %v", J)
	}
	if len(at[n-1].Calls) != 0 || (at[n-1].Res != "no-pending" && len(flat) > 0) {
		// a directory whose files have no statements at all still records revisions; tolerate "ok" there.
		if len(at[n-1].Calls) != 0 {
			return false, "runs-again-after-completion", fmt.Sprintf("last attempt: %s %v", at[n-1].Res, at[n-1].Calls)
		}
	}
	return true, "", ""
}

func opsOf(shape []int) int {
	n := 0
	for _, s := range shape {
		n += 2 + 2*s
	}
	return n
}

func c09Shapes(maxFiles, maxStmts, minStmts int) [][]int {
	var out [][]int
	var rec func(cur []int)
	rec = func(cur []int) {
		if len(cur) > 0 {
			out = append(out, append([]int{}, cur...))
		}
		if len(cur) == maxFiles {
			return
		}
		for s := minStmts; s <= maxStmts; s++ {
			rec(append(cur, s))
		}
	}
	rec(nil)
	return out
}

func runC09(e *Env) error {
	pool, err := hx.NewPool(e.Model, e.Workers)
	if err != nil {
		return err
	}
	defer pool.Close()
	var cases []c09Case
	if e.Replay != "" {
		var doc struct {
			Case struct {
				Case c09Case `json:"case"`
			} `json:"case"`
		}
		b, err := os.ReadFile(e.Replay)
		if err != nil {
			return err
		}
		if err := json.Unmarshal(b, &doc); err != nil {
			return err
		}
		cases = []c09Case{doc.Case.Case}
	} else {
		mf, ms, min := 3, 3, 1
		if e.Thorough() {
			mf, ms, min = 4, 3, 0
		}
		for _, sh := range c09Shapes(mf, ms, min) {
			n := opsOf(sh)
			cases = append(cases, c09Case{Shape: sh, Faults: [][]int{{}, {}}})
			for f1 := 0; f1 < n; f1++ {
				// single fault, and the fault plus the operation right after it (deferred write)
				cases = append(cases, c09Case{Shape: sh, Faults: [][]int{{f1}, {}, {}}})
				cases = append(cases, c09Case{Shape: sh, Faults: [][]int{{f1, f1 + 1}, {}, {}}})
				for f2 := 0; f2 < n; f2++ {
					cases = append(cases, c09Case{Shape: sh, Faults: [][]int{{f1}, {f2}, {}, {}}})
					if e.Thorough() {
						cases = append(cases, c09Case{Shape: sh, Faults: [][]int{{f1, f1 + 1}, {f2, f2 + 1}, {}, {}}})
					}
				}
			}
		}
		// the same schedules on directories whose first file is a checkpoint
		nplain := len(cases)
		for i := 0; i < nplain; i++ {
			if c := cases[i]; len(c.Shape) >= 2 && c.Shape[0] > 0 && (e.Thorough() || len(c.Faults) <= 3) {
				c.Ck = true
				cases = append(cases, c)
			}
		}
		// further checkpoint placements (a first run starts at the last one), single-fault schedules
		for i := 0; i < nplain; i++ {
			c := cases[i]
			if len(c.Shape) < 2 || len(c.Faults) > 3 {
				continue
			}
			for mask := 2; mask < 1<<len(c.Shape); mask++ {
				cc := c
				cc.Cks = nil
				for k := range c.Shape {
					if mask&(1<<k) != 0 {
						cc.Cks = append(cc.Cks, k)
					}
				}
				cases = append(cases, cc)
			}
		}
		// versions of different width (the directory lists "10" before "2"): single-fault schedules
		for i := 0; i < nplain; i++ {
			c := cases[i]
			if len(c.Shape) < 2 || len(c.Faults) > 3 || c.Ck {
				continue
			}
			cc := c
			vs := [][]string{{"10", "2"}, {"10", "2", "3"}, {"10", "11", "2"}, {"100", "20", "3"}}[i%4]
			if len(vs) >= len(c.Shape) {
				cc.Vers = vs[:len(c.Shape)]
				cases = append(cases, cc)
			}
		}
		// files without statements (comments only) at every position, single-fault schedules
		if !e.Thorough() {
			for _, sh := range c09Shapes(3, 2, 0) {
				zero := false
				for _, k := range sh {
					zero = zero || k == 0
				}
				if !zero {
					continue
				}
				n := opsOf(sh)
				cases = append(cases, c09Case{Shape: sh, Faults: [][]int{{}, {}}})
				for f1 := 0; f1 < n; f1++ {
					cases = append(cases, c09Case{Shape: sh, Faults: [][]int{{f1}, {}, {}}})
					cases = append(cases, c09Case{Shape: sh, Faults: [][]int{{f1, f1 + 1}, {}, {}}})
				}
			}
		}
		e.Res.Exhaustive = true
		e.Res.Rule = fmt.Sprintf("exhaustive: directory shapes of 1..%d files x %d..%d statements each x {no fault, every single failing operation (statement or revision write), statement+deferred-write double fault, every ordered pair of faults in two successive runs} followed by two clean runs; the same on directories whose first file is a checkpoint; single-fault schedules on every other placement of checkpoint files (first run starts at the last one) on directories holding statement-less files and on directories whose versions have different widths (\"10\" is listed before \"2\"); non-trivial = at least one fault fired; distinct by (shape, schedule)", mf, min, ms)
	}
	parallel(e.Workers, len(cases), func(i int) {
		c := cases[i]
		impl, req, err := runExecImpl(c.toExec(), true)
		if err != nil {
			e.Res.Note("case error: %v", err)
			return
		}
		var model ExecAns
		if err := pool.AskInto(req, &model); err != nil {
			e.Res.Note("model error: %v", err)
			return
		}
		fired := 0
		kinds := []string{}
		for ai, a := range impl.Attempts {
			for _, f := range c.Faults[ai] {
				if f < len(a.Ops) {
					fired++
					kinds = append(kinds, "fault:"+a.Ops[f])
				}
			}
		}
		tags := append(kinds, fmt.Sprintf("files:%d", len(c.Shape)), fmt.Sprintf("fired:%d", fired), "res0:"+impl.Attempts[0].Res)
		e.Res.Count(hxJSON(c), fired > 0, tags...)
		if fired > 0 {
			e.Res.Sample(map[string]any{"case": c, "results": resList(impl.Attempts)}, 6)
		}
		okI, sig, what := c09Monitor(&c, impl.Attempts)
		same, diff := sameAttempts(impl.Attempts, model.Attempts)
		if !same {
			e.Res.Disagree()
		}
		replay := map[string]any{"case": c, "impl": impl, "model": model}
		switch {
		case !okI:
			e.Res.Violate("failing-input", sig, what+fmt.Sprintf(" (shape %v faults %v)", c.Shape, c.Faults), "Props.C09 / corr exec", replay)
		case !same:
			e.Res.Violate("no-failing-input-found", "corr-exec-mismatch", "implementation and model disagree: "+diff, "correspondence Atlas.Exec.executeN", replay)
		}
	})
	if e.Replay == "" {
		c09Formats(e)
		c09ExecuteTo(e)
	}
	return nil
}

func resList(at []AttemptOut) []string {
	var out []string
	for _, a := range at {
		out = append(out, a.Res)
	}
	return out
}
