package main

import (
	"encoding/json"
	"fmt"
	"os"
	"path/filepath"
	"strings"
	"sync"
)

// c18Stored: STORED generated columns hold data; the way their definition is typed (SQLite keeps the statement
// verbatim: `stored`, `Stored`, `STORED`) does not matter: dropping one - by ALTER TABLE DROP COLUMN or by a
// rebuild that omits it - is flagged DS103; dropping a VIRTUAL one is not.
func c18Stored(e *Env, viol func(kind, sig, what, chk string, rep any), mu *sync.Mutex) {
	for ci, c := range []struct {
		kw       string
		rebuild  bool
		wantFlag bool
	}{
		{"stored", false, true}, {"Stored", false, true}, {"STORED", false, true}, {"stored", true, true}, {"Stored", true, true},
		{"virtual", false, false}, {"VIRTUAL", true, false},
	} {
		dir := filepath.Join(e.Work, fmt.Sprintf("c18stored-%d", ci))
		os.RemoveAll(dir)
		os.MkdirAll(dir, 0o755)
		init := fmt.Sprintf("create table t (id integer primary key, a integer, g integer generated always as (a * 2) %s);\n", c.kw)
		drop := "ALTER TABLE t DROP COLUMN g;\n"
		if c.rebuild {
			drop = "CREATE TABLE new_t (id integer primary key, a integer);\nINSERT INTO new_t (id, a) SELECT id, a FROM t;\nDROP TABLE t;\nALTER TABLE new_t RENAME TO t;\n"
		}
		id := fmt.Sprintf("generated column typed `%s`, dropped by %s", c.kw, map[bool]string{false: "ALTER TABLE DROP COLUMN", true: "a rebuild that omits it"}[c.rebuild])
		rep := map[string]any{"case": id, "init": init, "drop": drop}
		mu.Lock()
		e.Res.Count("c18stored:"+id, c.wantFlag, "generated-column-drop")
		mu.Unlock()
		if err := writeMigrationDir(filepath.Join(dir, "m"), []dirFile{{"1_init.sql", init}, {"2_drop.sql", drop}}); err != nil {
			continue
		}
		o := runAtlas(e, dir, nil, "migrate", "lint", "--dir", "file://m", "--dev-url", "sqlite://dev?mode=memory", "--latest", "1", "--format", "{{ json . }}")
		var lo lintOut
		if err := json.Unmarshal([]byte(o.Stdout), &lo); err != nil {
			viol("failing-input", "lint-output-unreadable", fmt.Sprintf("%s: exit %d: %s %s", id, o.Code, trunc(o.Stdout, 200), trunc(o.Stderr, 200)), "Props.C18", rep)
			os.RemoveAll(dir)
			continue
		}
		flagged := false
		for _, lf := range lo.Files {
			if lf.Error != "" && lf.Error != "destructive changes detected" {
				viol("no-failing-input-found", "lint-file-error", fmt.Sprintf("%s: %s", id, lf.Error), "Props.C18 (lint runs)", rep)
			}
			for _, rp := range lf.Reports {
				for _, d := range rp.Diagnostics {
					if d.Code == "DS103" {
						flagged = true
					}
				}
			}
		}
		switch {
		case c.wantFlag && (!flagged || o.Code == 0):
			viol("failing-input", "destructive-not-flagged", fmt.Sprintf("%s: the column holds data, lint reports DS103: %v, exit %d\n%s%s", id, flagged, o.Code, init, drop), "Props.C18 drop_flagged (stored generated column)", rep)
		case !c.wantFlag && flagged:
			viol("failing-input", "additive-file-flagged", fmt.Sprintf("%s: a VIRTUAL column stores nothing, lint reports DS103\n%s%s", id, init, strings.TrimSpace(drop)), "Props.C18 additive_clean (virtual generated column)", rep)
		}
		os.RemoveAll(dir)
	}
}
