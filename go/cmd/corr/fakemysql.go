package main

// A minimal in-memory stand-in for a MySQL server, good enough for the REAL mysql driver of /repo (Open,
// InspectSchema / InspectRealm, SchemaDiff / RealmDiff, PlanChanges, ApplyChanges, Snapshot, CheckClean and
// the restore functions) to run against: databases with their default charset / collation and tables of one
// integer column. Queries are recognised by a distinctive fragment; anything unknown is an error kept in the log.

import (
	"context"
	"database/sql/driver"
	"fmt"
	"regexp"
	"sort"
	"strings"
	"sync"
)

type fakeMyDB struct{ charset, collate string }

type fakeMySQL struct {
	mu      sync.Mutex
	bound   string // the database the connection is bound to ("" = none)
	dbs     map[string]*fakeMyDB
	tables  map[string]bool // "db.table"
	Execs   []string
	Unknown []string
	FailOn  string
}

var fakeMyDefaultCollation = map[string]string{"utf8mb4": "utf8mb4_0900_ai_ci", "latin1": "latin1_swedish_ci", "utf8": "utf8_general_ci", "ascii": "ascii_general_ci"}

func newFakeMySQL(bound string) *fakeMySQL {
	f := &fakeMySQL{bound: bound, dbs: map[string]*fakeMyDB{}, tables: map[string]bool{}}
	if bound != "" {
		f.dbs[bound] = &fakeMyDB{"utf8mb4", "utf8mb4_0900_ai_ci"}
	}
	return f
}

func (f *fakeMySQL) State() string {
	f.mu.Lock()
	defer f.mu.Unlock()
	var out []string
	for n, d := range f.dbs {
		out = append(out, fmt.Sprintf("database %s charset=%s collate=%s", n, d.charset, d.collate))
	}
	for t := range f.tables {
		out = append(out, "table "+t)
	}
	sort.Strings(out)
	return strings.Join(out, "; ")
}

func (f *fakeMySQL) Connect(context.Context) (driver.Conn, error) { return &fakeMyConn{f}, nil }
func (f *fakeMySQL) Driver() driver.Driver                        { return nil }

type fakeMyConn struct{ f *fakeMySQL }

func (c *fakeMyConn) Prepare(string) (driver.Stmt, error) {
	return nil, fmt.Errorf("fakemysql: prepared statements are not supported")
}
func (c *fakeMyConn) Close() error              { return nil }
func (c *fakeMyConn) Begin() (driver.Tx, error) { return fakePGTx{}, nil }

func (c *fakeMyConn) QueryContext(_ context.Context, q string, args []driver.NamedValue) (driver.Rows, error) {
	f := c.f
	f.mu.Lock()
	defer f.mu.Unlock()
	as := argStrings(args)
	switch {
	case strings.Contains(q, "@@version"):
		return &fakeRows{cols: colsN(4), data: [][]driver.Value{{"8.0.34", "utf8mb4_0900_ai_ci", "utf8mb4", int64(0)}}}, nil
	case strings.Contains(q, "`INFORMATION_SCHEMA`.`SCHEMATA`"):
		var names []string
		for n := range f.dbs {
			switch {
			case strings.Contains(q, "= SCHEMA()"):
				if n == f.bound {
					names = append(names, n)
				}
			case len(as) > 0:
				if inList(as, n) {
					names = append(names, n)
				}
			default:
				names = append(names, n)
			}
		}
		sort.Strings(names)
		r := &fakeRows{cols: colsN(3)}
		for _, n := range names {
			r.data = append(r.data, []driver.Value{n, f.dbs[n].charset, f.dbs[n].collate})
		}
		return r, nil
	case strings.Contains(q, "INFORMATION_SCHEMA.TABLES AS t1"):
		var keys []string
		for k := range f.tables {
			p := strings.SplitN(k, ".", 2)
			nDB := 0
			for _, a := range as {
				if f.dbs[a] != nil {
					nDB++
				}
			}
			if inList(as, p[0]) && (nDB == len(as) || inList(as, p[1])) {
				keys = append(keys, k)
			}
		}
		sort.Strings(keys)
		r := &fakeRows{cols: colsN(10)}
		for _, k := range keys {
			p := strings.SplitN(k, ".", 2)
			d := f.dbs[p[0]]
			r.data = append(r.data, []driver.Value{p[0], p[1], d.charset, d.collate, nil, "", "", "InnoDB", int64(1), "BASE TABLE"})
		}
		return r, nil
	case strings.Contains(q, "`INFORMATION_SCHEMA`.`COLUMNS`"):
		r := &fakeRows{cols: colsN(11)}
		if len(as) > 0 {
			var names []string
			for _, t := range as[1:] {
				if f.tables[as[0]+"."+t] {
					names = append(names, t)
				}
			}
			sort.Strings(names)
			for _, t := range names {
				r.data = append(r.data, []driver.Value{t, "id", "int", "", "NO", "", nil, "", nil, nil, nil})
			}
		}
		return r, nil
	case strings.Contains(q, "`INFORMATION_SCHEMA`.`STATISTICS`"), strings.Contains(q, "KEY_COLUMN_USAGE"), strings.Contains(q, "CHECK_CONSTRAINTS"):
		return &fakeRows{cols: colsN(1)}, nil
	}
	f.Unknown = append(f.Unknown, "query: "+strings.Join(strings.Fields(q), " "))
	return nil, fmt.Errorf("fakemysql: unsupported query: %.80s", strings.Join(strings.Fields(q), " "))
}

var (
	reMyIdent    = "(?:`(\\w+)`\\.)?`(\\w+)`"
	reMyCreateDB = regexp.MustCompile("(?i)^CREATE (?:DATABASE|SCHEMA) (?:IF NOT EXISTS )?`(\\w+)`(?: CHARSET (\\w+))?(?: COLLATE (\\w+))?")
	reMyDropDB   = regexp.MustCompile("(?i)^DROP (?:DATABASE|SCHEMA) (?:IF EXISTS )?`(\\w+)`")
	reMyAlterDB  = regexp.MustCompile("(?i)^ALTER (?:DATABASE|SCHEMA) `(\\w+)`(?: CHARSET (\\w+))?(?: COLLATE (\\w+))?\\s*$")
	reMyCreateT  = regexp.MustCompile("(?i)^CREATE TABLE (?:IF NOT EXISTS )?" + reMyIdent)
	reMyDropT    = regexp.MustCompile("(?i)^DROP TABLE (?:IF EXISTS )?" + reMyIdent)
)

func (c *fakeMyConn) ExecContext(_ context.Context, q string, _ []driver.NamedValue) (driver.Result, error) {
	f := c.f
	f.mu.Lock()
	defer f.mu.Unlock()
	q = strings.TrimSpace(q)
	f.Execs = append(f.Execs, q)
	if f.FailOn != "" && strings.Contains(q, f.FailOn) {
		return nil, fmt.Errorf("fakemysql: statement fails: %.60s", q)
	}
	db := func(s string) string {
		if s == "" {
			return f.bound
		}
		return s
	}
	switch {
	case reMyCreateDB.MatchString(q):
		m := reMyCreateDB.FindStringSubmatch(q)
		if f.dbs[m[1]] != nil {
			if strings.Contains(strings.ToUpper(q), "IF NOT EXISTS") {
				return fakeResult{}, nil
			}
			return nil, fmt.Errorf("fakemysql: database %q exists", m[1])
		}
		d := &fakeMyDB{"utf8mb4", "utf8mb4_0900_ai_ci"}
		if m[2] != "" {
			d.charset, d.collate = m[2], fakeMyDefaultCollation[m[2]]
		}
		if m[3] != "" {
			d.collate = m[3]
		}
		f.dbs[m[1]] = d
	case reMyDropDB.MatchString(q):
		m := reMyDropDB.FindStringSubmatch(q)
		if f.dbs[m[1]] == nil {
			if strings.Contains(strings.ToUpper(q), "IF EXISTS") {
				return fakeResult{}, nil
			}
			return nil, fmt.Errorf("fakemysql: database %q does not exist", m[1])
		}
		for k := range f.tables {
			if strings.HasPrefix(k, m[1]+".") {
				delete(f.tables, k)
			}
		}
		delete(f.dbs, m[1])
	case reMyAlterDB.MatchString(q):
		m := reMyAlterDB.FindStringSubmatch(q)
		d := f.dbs[m[1]]
		if d == nil {
			return nil, fmt.Errorf("fakemysql: database %q does not exist", m[1])
		}
		if m[2] != "" {
			// like MySQL: a new character set resets the collation to its default
			d.charset, d.collate = m[2], fakeMyDefaultCollation[m[2]]
		}
		if m[3] != "" {
			d.collate = m[3]
		}
	case reMyCreateT.MatchString(q):
		m := reMyCreateT.FindStringSubmatch(q)
		if f.dbs[db(m[1])] == nil {
			return nil, fmt.Errorf("fakemysql: database %q does not exist", db(m[1]))
		}
		f.tables[db(m[1])+"."+m[2]] = true
	case reMyDropT.MatchString(q):
		m := reMyDropT.FindStringSubmatch(q)
		delete(f.tables, db(m[1])+"."+m[2])
	default:
		f.Unknown = append(f.Unknown, "exec: "+q)
	}
	return fakeResult{}, nil
}
