package main

import (
	"fmt"
	"strings"

	"ariga.io/atlas/sql/schema"
	"verifharness/internal/hx"
)

// c04Repoint: change sets in which a KEPT table re-points a foreign key (ModifyForeignKey: same symbol, another
// parent) to a table the same change set creates - next to other created tables that refer to that parent or
// are referred to by it, in a named schema, in EVERY input order, for MySQL / PostgreSQL / TiDB. The planned
// statements are replayed on the reference catalogue: no statement may refer to a table that does not exist at
// that point, and afterwards every wanted table and key exists.
func c04Repoint(e *Env, pool *hx.Pool) {
	type shape struct {
		name   string
		schema string
		extra  int // created tables besides the new parent: 0, 1 (refers to the new parent), 2 (and one the new parent refers to)
	}
	var shapes []shape
	for _, sn := range []string{"", "app"} {
		for ex := 0; ex <= 2; ex++ {
			shapes = append(shapes, shape{fmt.Sprintf("schema %q, %d more created tables", sn, ex), sn, ex})
		}
	}
	for _, dialect := range []string{"mysql", "postgres", "tidb"} {
		if c04Planner(dialect) == nil {
			continue
		}
		ity := "int"
		if dialect == "postgres" {
			ity = "integer"
		}
		for _, sh := range shapes {
			build := func() (changes []schema.Change, names []string) {
				s := schema.New(sh.schema)
				mk := func(n string) *schema.Table {
					t := schema.NewTable(n)
					if sh.schema != "" {
						t.SetSchema(s)
					}
					id, ref := schema.NewIntColumn("id", ity), schema.NewNullIntColumn("ref", ity)
					t.AddColumns(id, ref).SetPrimaryKey(schema.NewPrimaryKey(id))
					return t
				}
				fk := func(sym string, from, to *schema.Table) *schema.ForeignKey {
					return schema.NewForeignKey(sym).SetTable(from).AddColumns(from.Columns[1]).SetRefTable(to).AddRefColumns(to.Columns[0])
				}
				users, orders, parties := mk("users"), mk("orders"), mk("parties")
				oldFK, newFK := fk("fk_owner", orders, users), fk("fk_owner", orders, parties)
				orders.AddForeignKeys(newFK)
				changes = append(changes, &schema.ModifyTable{T: orders, Changes: []schema.Change{&schema.ModifyForeignKey{From: oldFK, To: newFK, Change: schema.ChangeRefTable}}})
				if sh.extra >= 2 {
					accounts := mk("accounts")
					parties.AddForeignKeys(fk("fk_account", parties, accounts))
					changes = append(changes, &schema.AddTable{T: accounts})
				}
				changes = append(changes, &schema.AddTable{T: parties})
				if sh.extra >= 1 {
					zeta := mk("zeta")
					zeta.AddForeignKeys(fk("fk_party", zeta, parties))
					changes = append(changes, &schema.AddTable{T: zeta})
				}
				return changes, nil
			}
			base, _ := build()
			perms := permutations(len(base))
			for _, perm := range perms {
				changes, _ := build()
				ordered := make([]schema.Change, len(changes))
				for i, p := range perm {
					ordered[i] = changes[p]
				}
				id := fmt.Sprintf("%s: re-pointed foreign key, %s, input order %v", dialect, sh.name, perm)
				rep := map[string]any{"case": id}
				e.Res.Count("repoint:"+id, true, "repoint:"+dialect)
				stmts, err := c04Plan(dialect, ordered, 0)
				if err != nil {
					e.Res.Violate("failing-input", "planner-fails", id+": "+err.Error(), "Props.C04", rep)
					continue
				}
				if dialect == "tidb" {
					// the Lean model of the TiDB ordering step (Atlas.Tidb.order; Props.C04.tidb_repoint_before_created_parent)
					// on the kinds of this change set: does the re-pointing ALTER precede CREATE TABLE parties?
					num := map[string]int{"parties": 1, "accounts": 2, "zeta": 3}
					var kinds []map[string]any
					for _, ch := range ordered {
						switch ch := ch.(type) {
						case *schema.ModifyTable:
							kinds = append(kinds, map[string]any{"k": "modify-fk", "t": 1})
						case *schema.AddTable:
							kinds = append(kinds, map[string]any{"k": "add-table", "t": num[ch.T.Name]})
						}
					}
					var mans struct {
						Order []string `json:"order"`
					}
					if err := pool.AskInto(map[string]any{"op": "tidb.order", "changes": kinds}, &mans); err == nil {
						mi, mc, ii, ic := -1, -1, -1, -1
						for k, o := range mans.Order {
							if o == "modify-fk 1" {
								mi = k
							}
							if o == "add-table 1" {
								mc = k
							}
						}
						for k, st := range stmts {
							if ii < 0 && strings.HasPrefix(st, "ALTER TABLE") && strings.Contains(st, "fk_owner") && strings.Contains(st, "parties") {
								ii = k
							}
							if strings.HasPrefix(st, "CREATE TABLE") && strings.Contains(st, "`parties`") {
								ic = k
							}
						}
						if mi >= 0 && mc >= 0 && ii >= 0 && ic >= 0 && (mi < mc) != (ii < ic) {
							e.Res.Disagree()
							e.Res.Violate("no-failing-input-found", "corr-tidb-order-mismatch", fmt.Sprintf("%s: the model orders %v, the planner's statements are %s", id, mans.Order, trunc(strings.Join(stmts, "; "), 400)), "correspondence Atlas.Tidb.order", rep)
						}
					}
				}
				cat := newC04Cat()
				cat.tables["users"], cat.tables["orders"] = true, true
				cat.fks["orders/fk_owner"] = c04FK{"orders", "fk_owner", "users"}
				bad := false
				for k, st := range stmts {
					if sig, what := cat.apply(k, st, stmts); sig != "" {
						if dialect == "tidb" && sig == "stmt-fk-before-referenced-table" && strings.Contains(st, "fk_owner") {
							// the TiDB planner orders the atomic changes by kind: a modified foreign key (priority 3)
							// always precedes a created table (priority 4)
							sig = "tidb-repointed-fk-planned-before-created-parent"
						}
						e.Res.Violate("failing-input", sig, fmt.Sprintf("%s: %s; statements: %s", id, what, trunc(strings.Join(stmts, "; "), 500)), "Props.C04.plan_replays (re-pointed key)", rep)
						bad = true
						break
					}
				}
				if bad {
					continue
				}
				if f, ok := cat.fks["orders/fk_owner"]; !ok || f.ref != "parties" || !cat.tables["parties"] {
					e.Res.Violate("failing-input", "stmt-final-catalogue-differs", fmt.Sprintf("%s: after the plan the key of orders is %+v; statements: %s", id, f, trunc(strings.Join(stmts, "; "), 500)), "Props.C04.plan_replays (re-pointed key)", rep)
				}
			}
		}
	}
}

// permutations of 0..n-1.
func permutations(n int) [][]int {
	var out [][]int
	var rec func(cur []int, used []bool)
	rec = func(cur []int, used []bool) {
		if len(cur) == n {
			out = append(out, append([]int{}, cur...))
			return
		}
		for i := 0; i < n; i++ {
			if !used[i] {
				used[i] = true
				rec(append(cur, i), used)
				used[i] = false
			}
		}
	}
	rec(nil, make([]bool, n))
	return out
}
