package main

import (
	"context"
	"database/sql"
	"errors"
	"fmt"
	"strings"
	"time"

	"ariga.io/atlas/sql/migrate"
	"ariga.io/atlas/sql/mysql"
	"ariga.io/atlas/sql/postgres"
	"ariga.io/atlas/sql/schema"
)

// c16Driver: a connection-less migrate.Driver over the real differ and planner of a dialect whose
// inspector returns a fixed schema (the in-process twin of the CLI fixture schemes).
type c16Driver struct {
	schema.Differ
	migrate.PlanApplier
	cur *schema.Schema
}

var errC16 = errors.New("c16 fixture: no database")

func (*c16Driver) QueryContext(context.Context, string, ...any) (*sql.Rows, error) {
	return nil, errC16
}
func (*c16Driver) ExecContext(context.Context, string, ...any) (sql.Result, error) {
	return nil, errC16
}
func (*c16Driver) ApplyChanges(context.Context, []schema.Change, ...migrate.PlanOption) error {
	return errC16
}
func (*c16Driver) Lock(context.Context, string, time.Duration) (schema.UnlockFunc, error) {
	return func() error { return nil }, nil
}
func (*c16Driver) Snapshot(context.Context) (migrate.RestoreFunc, error) {
	return func(context.Context) error { return nil }, nil
}
func (*c16Driver) CheckClean(context.Context, *migrate.TableIdent) error { return nil }
func (d *c16Driver) InspectSchema(context.Context, string, *schema.InspectOptions) (*schema.Schema, error) {
	return d.cur, nil
}
func (d *c16Driver) InspectRealm(context.Context, *schema.InspectRealmOption) (*schema.Realm, error) {
	return schema.NewRealm(d.cur), nil
}

func c16FixtureSchema(dialect, name string, variant int) *schema.Schema {
	s := schema.New(name)
	ity := map[string]string{"mysql": "int", "postgres": "integer", "tidb": "int"}[dialect]
	mk := func(n string) *schema.Table {
		t := schema.NewTable(n).SetSchema(s)
		id, ref := schema.NewIntColumn("id", ity), schema.NewNullIntColumn("ref", ity)
		t.AddColumns(id, ref).SetPrimaryKey(schema.NewPrimaryKey(id))
		t.AddIndexes(schema.NewIndex("ix_" + n).AddColumns(ref))
		s.AddTables(t)
		return t
	}
	a, b := mk("TBLA"), mk("TBLB")
	a.AddForeignKeys(schema.NewForeignKey("fk_a_b").SetTable(a).AddColumns(a.Columns[1]).SetRefTable(b).AddRefColumns(b.Columns[0]))
	if variant == 2 {
		c := mk("TBLC")
		c.AddForeignKeys(schema.NewForeignKey("fk_c_a").SetTable(c).AddColumns(c.Columns[1]).SetRefTable(a).AddRefColumns(a.Columns[0]))
		a.AddColumns(schema.NewNullIntColumn("added", ity))
		b.Indexes = nil
	}
	return s
}

// c16Planner: the migrate.Planner API (what `migrate diff` uses) with PlanWithSchemaQualifier on a driver
// bound to one schema: the files it writes must not mention the schema (empty qualifier) / must use exactly
// the custom one.
func c16Planner(e *Env) {
	for _, dialect := range []string{"mysql", "postgres", "tidb"} {
		for _, qual := range []string{"empty", "custom"} {
			q := ""
			if qual == "custom" {
				q = customQual
			}
			drv := &c16Driver{Differ: mysql.DefaultDiff, PlanApplier: mysql.DefaultPlan, cur: c16FixtureSchema(dialect, devSchema, 1)}
			switch dialect {
			case "postgres":
				drv.Differ, drv.PlanApplier = postgres.DefaultDiff, postgres.DefaultPlan
			case "tidb":
				pl, _ := c17Planner("tidb")
				if pl == nil {
					continue
				}
				drv.PlanApplier = pl
			}
			id := fmt.Sprintf("planner-api %s qualifier=%s", dialect, qual)
			rep := map[string]any{"case": id}
			e.Res.Count("planner:"+id, true, "planner-api:"+dialect)
			dir := &migrate.MemDir{}
			pl := migrate.NewPlanner(drv, dir, migrate.PlanWithSchemaQualifier(q), migrate.PlanWithChecksum(false))
			desired := c16FixtureSchema(dialect, markerSchema, 2)
			plan, err := func() (p *migrate.Plan, err error) {
				defer func() {
					if r := recover(); r != nil {
						err = fmt.Errorf("panic: %v", r)
					}
				}()
				return pl.PlanSchema(context.Background(), "change", migrate.Schema(desired))
			}()
			if err != nil {
				e.Res.Violate("no-failing-input-found", "planner-api-fails", fmt.Sprintf("%s: Planner.PlanSchema fails: %v", id, err), "correspondence C16 planner api", rep)
				continue
			}
			qc := "`"
			if dialect == "postgres" {
				qc = "\""
			}
			var stmts []string
			for _, ch := range plan.Changes {
				stmts = append(stmts, ch.Cmd)
				rv, _ := ch.ReverseStmts()
				stmts = append(stmts, rv...)
			}
			for _, st := range stmts {
				switch {
				case strings.Contains(st, markerSchema) || strings.Contains(st, devSchema):
					e.Res.Violate("failing-input", "schema-name-leaks", fmt.Sprintf("%s: a statement planned through migrate.Planner with PlanWithSchemaQualifier(%q) mentions the schema name: %s", id, q, trunc(st, 300)), "Props.C16.no_own_schema (Planner API)", rep)
				case qual == "custom" && strings.Contains(st, qc+"TBL") && !strings.Contains(st, qc+customQual+qc+"."+qc+"TBL"):
					e.Res.Violate("failing-input", "custom-qualifier-missing", fmt.Sprintf("%s: a statement references a table without the requested qualifier: %s", id, trunc(st, 300)), "Props.C16.custom_used (Planner API)", rep)
				default:
					continue
				}
				break
			}
		}
	}
}
