package main

import (
	"context"
	"fmt"
	"regexp"
	"sort"
	"strings"

	"ariga.io/atlas/sql/schema"
)

// Statement-level replay for C04: the planned COMMANDS (not the Source changes they were planned from) are
// replayed on a reference catalogue of tables and foreign keys. A DROP TABLE while a foreign key of another
// existing table points at it, or a foreign key established before its referenced table exists, is a
// violation; at the end the catalogue must be the desired one.

const c04Ident = "(?:[`\"]\\w+[`\"]\\.)?[`\"](\\w+)[`\"]"

var (
	reC04Create  = regexp.MustCompile("(?is)^CREATE TABLE (?:IF NOT EXISTS )?" + c04Ident)
	reC04Drop    = regexp.MustCompile("(?is)^DROP TABLE (?:IF EXISTS )?" + c04Ident)
	reC04Alter   = regexp.MustCompile("(?is)^ALTER TABLE " + c04Ident + "(.*)$")
	reC04FK      = regexp.MustCompile("(?is)CONSTRAINT [`\"](\\w+)[`\"] FOREIGN KEY \\([^)]*\\) REFERENCES " + c04Ident)
	reC04DropFK  = regexp.MustCompile("(?is)DROP (?:FOREIGN KEY|CONSTRAINT) [`\"](\\w+)[`\"]")
	reC04DropCol = regexp.MustCompile("(?is)DROP COLUMN [`\"](\\w+)[`\"]")
)

func c04Plan(dialect string, changes []schema.Change, mode int) (stmts []string, err error) {
	defer func() {
		if p := recover(); p != nil {
			err = fmt.Errorf("panic: %v", p)
		}
	}()
	pl := c04Planner(dialect)
	if pl == nil {
		return nil, fmt.Errorf("no planner for %s", dialect)
	}
	plan, err := pl.PlanChanges(context.Background(), "p", changes, c04Mode(mode))
	if err != nil {
		return nil, err
	}
	for _, ch := range plan.Changes {
		stmts = append(stmts, ch.Cmd)
	}
	return stmts, nil
}

// c04Cat: the reference catalogue the planned commands are replayed on: tables, the foreign keys they hold, and
// which tables still hold the unrelated column x.
type c04FK struct{ from, sym, ref string }

type c04Cat struct {
	tables map[string]bool
	extra  map[string]bool
	fks    map[string]c04FK // by "table/symbol"
}

func newC04Cat() *c04Cat {
	return &c04Cat{tables: map[string]bool{}, extra: map[string]bool{}, fks: map[string]c04FK{}}
}

// String renders the catalogue canonically (tables and foreign keys).
func (cat *c04Cat) String() string {
	var out []string
	for t := range cat.tables {
		out = append(out, "table "+t)
	}
	for _, f := range cat.fks {
		out = append(out, fmt.Sprintf("fk %s.%s->%s", f.from, f.sym, f.ref))
	}
	sort.Strings(out)
	return strings.Join(out, "; ")
}

// apply replays statement k; a non-empty signature means the database would refuse it.
func (cat *c04Cat) apply(k int, st string, stmts []string) (string, string) {
	tables, extra, fks := cat.tables, cat.extra, cat.fks
	st = strings.TrimSpace(st)
	switch {
	case reC04Create.MatchString(st):
		t := reC04Create.FindStringSubmatch(st)[1]
		if tables[t] {
			return "stmt-create-existing-table", fmt.Sprintf("statement %d creates %s, which exists: %s", k, t, trunc(st, 200))
		}
		tables[t] = true
		for _, m := range reC04FK.FindAllStringSubmatch(st, -1) {
			if m[2] != t && !tables[m[2]] {
				return "stmt-fk-before-referenced-table", fmt.Sprintf("statement %d creates %s with foreign key %s to %s, which does not exist yet: %s", k, t, m[1], m[2], trunc(st, 300))
			}
			fks[t+"/"+m[1]] = c04FK{t, m[1], m[2]}
		}
	case reC04Drop.MatchString(st):
		t := reC04Drop.FindStringSubmatch(st)[1]
		if !tables[t] {
			return "stmt-drop-of-missing-table", fmt.Sprintf("statement %d drops %s, which does not exist", k, t)
		}
		var refs []string
		for _, f := range fks {
			if f.ref == t && f.from != t && tables[f.from] {
				refs = append(refs, f.from+"."+f.sym)
			}
		}
		if len(refs) > 0 {
			sort.Strings(refs)
			return "stmt-table-dropped-while-referenced", fmt.Sprintf("statement %d drops %s while the foreign keys %v of existing tables still point at it; statements: %s", k, t, refs, trunc(strings.Join(stmts, "; "), 600))
		}
		delete(tables, t)
		for key, f := range fks {
			if f.from == t {
				delete(fks, key)
			}
		}
	case reC04Alter.MatchString(st):
		m := reC04Alter.FindStringSubmatch(st)
		t, body := m[1], m[2]
		if !tables[t] {
			return "stmt-modify-of-missing-table", fmt.Sprintf("statement %d alters %s, which does not exist: %s", k, t, trunc(st, 200))
		}
		for _, d := range reC04DropFK.FindAllStringSubmatch(body, -1) {
			if _, ok := fks[t+"/"+d[1]]; !ok {
				return "stmt-drop-of-missing-fk", fmt.Sprintf("statement %d drops foreign key %s of %s, which does not exist: %s", k, d[1], t, trunc(st, 200))
			}
			delete(fks, t+"/"+d[1])
		}
		for _, d := range reC04DropCol.FindAllStringSubmatch(body, -1) {
			if d[1] == "x" {
				delete(extra, t)
			}
		}
		for _, a := range reC04FK.FindAllStringSubmatch(body, -1) {
			if a[2] != t && !tables[a[2]] {
				return "stmt-fk-before-referenced-table", fmt.Sprintf("statement %d adds foreign key %s of %s to %s, which does not exist (yet / any more): %s", k, a[1], t, a[2], trunc(st, 300))
			}
			if _, ok := fks[t+"/"+a[1]]; ok {
				return "stmt-fk-added-twice", fmt.Sprintf("statement %d adds foreign key %s of %s, which exists: %s", k, a[1], t, trunc(st, 300))
			}
			fks[t+"/"+a[1]] = c04FK{t, a[1], a[2]}
		}
	}
	return "", ""
}

// c04StmtMonitor replays stmts. roles/edges as in the case.
// catalogue: the reference catalogue before the plan, and the tables / foreign keys wanted after it.
func (c *c04Case) catalogue() (cat *c04Cat, wantTables map[string]bool, wantFK map[string]c04FK) {
	has := func(i, j int) bool {
		for _, e := range c.Edges {
			if e == i*c.N+j {
				return true
			}
		}
		return false
	}
	cat = newC04Cat()
	tables, extra, fks := cat.tables, cat.extra, cat.fks
	wantFK = map[string]c04FK{}
	wantTables = map[string]bool{}
	for i := 0; i < c.N; i++ {
		if c.Role[i] != 0 {
			tables[tname(i)] = true
			extra[tname(i)] = true
		}
		if c.Role[i] != 1 {
			wantTables[tname(i)] = true
		}
		for j := 0; j < c.N; j++ {
			if !has(i, j) {
				continue
			}
			sym := fmt.Sprintf("fk_%d_%d", i, j)
			f := c04FK{tname(i), sym, tname(j)}
			ri, rj := c.Role[i], c.Role[j]
			switch {
			case ri == 0:
				wantFK[f.from+"/"+sym] = f
			case ri == 1:
				fks[f.from+"/"+sym] = f
			case rj == 0 || (rj == 2 && c.KeptAdd):
				wantFK[f.from+"/"+sym] = f
			default:
				fks[f.from+"/"+sym] = f
			}
		}
	}
	return cat, wantTables, wantFK
}

func c04StmtMonitor(c *c04Case, stmts []string) (bool, string, string) {
	cat, wantTables, wantFK := c.catalogue()
	tables, extra, fks := cat.tables, cat.extra, cat.fks
	for k, st := range stmts {
		if sig, what := cat.apply(k, st, stmts); sig != "" {
			return false, sig, what
		}
	}
	// the final catalogue is the desired one
	for t := range wantTables {
		if !tables[t] {
			return false, "stmt-final-table-missing", fmt.Sprintf("after the plan table %s does not exist; statements: %s", t, trunc(strings.Join(stmts, "; "), 500))
		}
	}
	for t := range tables {
		if !wantTables[t] {
			return false, "stmt-final-table-left", fmt.Sprintf("after the plan table %s still exists; statements: %s", t, trunc(strings.Join(stmts, "; "), 500))
		}
	}
	for k, f := range wantFK {
		if _, ok := fks[k]; !ok {
			return false, "stmt-final-fk-missing", fmt.Sprintf("after the plan foreign key %s.%s -> %s does not exist; statements: %s", f.from, f.sym, f.ref, trunc(strings.Join(stmts, "; "), 500))
		}
	}
	for k, f := range fks {
		if _, ok := wantFK[k]; !ok {
			return false, "stmt-final-fk-left", fmt.Sprintf("after the plan foreign key %s.%s -> %s still exists although the change set drops it; statements: %s", f.from, f.sym, f.ref, trunc(strings.Join(stmts, "; "), 600))
		}
	}
	if c.Extra {
		for i := 0; i < c.N; i++ {
			if c.Role[i] == 2 && c.modified(i) && extra[tname(i)] {
				return false, "stmt-final-column-left", fmt.Sprintf("after the plan %s still holds the column x the change set drops; statements: %s", tname(i), trunc(strings.Join(stmts, "; "), 500))
			}
		}
	}
	return true, "", ""
}

// modified: the kept table i gets a ModifyTable (it has a foreign key to add or drop).
func (c *c04Case) modified(i int) bool {
	for _, e := range c.Edges {
		if e/c.N == i {
			return true
		}
	}
	return false
}
