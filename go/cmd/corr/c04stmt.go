package main

import (
	"context"
	"fmt"
	"regexp"
	"sort"
	"strings"

	"ariga.io/atlas/sql/migrate"
	"ariga.io/atlas/sql/mysql"
	"ariga.io/atlas/sql/postgres"
	"ariga.io/atlas/sql/schema"
)

// Statement-level replay for C04: the planned COMMANDS (not the Source changes they were planned from) are
// replayed on a reference catalogue of tables and foreign keys. A DROP TABLE while a foreign key of another
// existing table points at it, or a foreign key established before its referenced table exists, is a
// violation; at the end the catalogue must be the desired one.

const c04Ident = "(?:[`\"]\\w+[`\"]\\.)?[`\"](\\w+)[`\"]"

var (
	reC04Create  = regexp.MustCompile("(?is)^CREATE TABLE (?:IF NOT EXISTS )?" + c04Ident)
	reC04Drop    = regexp.MustCompile("(?is)^DROP TABLE (?:IF EXISTS )?" + c04Ident)
	reC04Alter   = regexp.MustCompile("(?is)^ALTER TABLE " + c04Ident + "(.*)$")
	reC04FK      = regexp.MustCompile("(?is)CONSTRAINT [`\"](\\w+)[`\"] FOREIGN KEY \\([^)]*\\) REFERENCES " + c04Ident)
	reC04DropFK  = regexp.MustCompile("(?is)DROP (?:FOREIGN KEY|CONSTRAINT) [`\"](\\w+)[`\"]")
	reC04DropCol = regexp.MustCompile("(?is)DROP COLUMN [`\"](\\w+)[`\"]")
)

func c04Plan(dialect string, changes []schema.Change) (stmts []string, err error) {
	defer func() {
		if p := recover(); p != nil {
			err = fmt.Errorf("panic: %v", p)
		}
	}()
	var pl migrate.PlanApplier = mysql.DefaultPlan
	if dialect == "postgres" {
		pl = postgres.DefaultPlan
	}
	plan, err := pl.PlanChanges(context.Background(), "p", changes)
	if err != nil {
		return nil, err
	}
	for _, ch := range plan.Changes {
		stmts = append(stmts, ch.Cmd)
	}
	return stmts, nil
}

// c04StmtMonitor replays stmts. roles/edges as in the case.
func c04StmtMonitor(c *c04Case, stmts []string) (bool, string, string) {
	has := func(i, j int) bool {
		for _, e := range c.Edges {
			if e == i*c.N+j {
				return true
			}
		}
		return false
	}
	type fk struct{ from, sym, ref string }
	tables := map[string]bool{}
	extra := map[string]bool{} // tables that still hold the unrelated column x
	fks := map[string]fk{}     // by "table/symbol"
	wantFK := map[string]fk{}
	wantTables := map[string]bool{}
	for i := 0; i < c.N; i++ {
		if c.Role[i] != 0 {
			tables[tname(i)] = true
			extra[tname(i)] = true
		}
		if c.Role[i] != 1 {
			wantTables[tname(i)] = true
		}
		for j := 0; j < c.N; j++ {
			if !has(i, j) {
				continue
			}
			sym := fmt.Sprintf("fk_%d_%d", i, j)
			f := fk{tname(i), sym, tname(j)}
			ri, rj := c.Role[i], c.Role[j]
			switch {
			case ri == 0:
				wantFK[f.from+"/"+sym] = f
			case ri == 1:
				fks[f.from+"/"+sym] = f
			case rj == 0 || (rj == 2 && c.KeptAdd):
				wantFK[f.from+"/"+sym] = f
			default:
				fks[f.from+"/"+sym] = f
			}
		}
	}
	for k, st := range stmts {
		st = strings.TrimSpace(st)
		switch {
		case reC04Create.MatchString(st):
			t := reC04Create.FindStringSubmatch(st)[1]
			if tables[t] {
				return false, "stmt-create-existing-table", fmt.Sprintf("statement %d creates %s, which exists: %s", k, t, trunc(st, 200))
			}
			tables[t] = true
			for _, m := range reC04FK.FindAllStringSubmatch(st, -1) {
				if m[2] != t && !tables[m[2]] {
					return false, "stmt-fk-before-referenced-table", fmt.Sprintf("statement %d creates %s with foreign key %s to %s, which does not exist yet: %s", k, t, m[1], m[2], trunc(st, 300))
				}
				fks[t+"/"+m[1]] = fk{t, m[1], m[2]}
			}
		case reC04Drop.MatchString(st):
			t := reC04Drop.FindStringSubmatch(st)[1]
			if !tables[t] {
				return false, "stmt-drop-of-missing-table", fmt.Sprintf("statement %d drops %s, which does not exist", k, t)
			}
			var refs []string
			for _, f := range fks {
				if f.ref == t && f.from != t && tables[f.from] {
					refs = append(refs, f.from+"."+f.sym)
				}
			}
			if len(refs) > 0 {
				sort.Strings(refs)
				return false, "stmt-table-dropped-while-referenced", fmt.Sprintf("statement %d drops %s while the foreign keys %v of existing tables still point at it; statements: %s", k, t, refs, trunc(strings.Join(stmts, "; "), 600))
			}
			delete(tables, t)
			for key, f := range fks {
				if f.from == t {
					delete(fks, key)
				}
			}
		case reC04Alter.MatchString(st):
			m := reC04Alter.FindStringSubmatch(st)
			t, body := m[1], m[2]
			if !tables[t] {
				return false, "stmt-modify-of-missing-table", fmt.Sprintf("statement %d alters %s, which does not exist: %s", k, t, trunc(st, 200))
			}
			for _, d := range reC04DropFK.FindAllStringSubmatch(body, -1) {
				if _, ok := fks[t+"/"+d[1]]; !ok {
					return false, "stmt-drop-of-missing-fk", fmt.Sprintf("statement %d drops foreign key %s of %s, which does not exist: %s", k, d[1], t, trunc(st, 200))
				}
				delete(fks, t+"/"+d[1])
			}
			for _, d := range reC04DropCol.FindAllStringSubmatch(body, -1) {
				if d[1] == "x" {
					delete(extra, t)
				}
			}
			for _, a := range reC04FK.FindAllStringSubmatch(body, -1) {
				if a[2] != t && !tables[a[2]] {
					return false, "stmt-fk-before-referenced-table", fmt.Sprintf("statement %d adds foreign key %s of %s to %s, which does not exist (yet / any more): %s", k, a[1], t, a[2], trunc(st, 300))
				}
				fks[t+"/"+a[1]] = fk{t, a[1], a[2]}
			}
		}
	}
	// the final catalogue is the desired one
	for t := range wantTables {
		if !tables[t] {
			return false, "stmt-final-table-missing", fmt.Sprintf("after the plan table %s does not exist; statements: %s", t, trunc(strings.Join(stmts, "; "), 500))
		}
	}
	for t := range tables {
		if !wantTables[t] {
			return false, "stmt-final-table-left", fmt.Sprintf("after the plan table %s still exists; statements: %s", t, trunc(strings.Join(stmts, "; "), 500))
		}
	}
	for k, f := range wantFK {
		if _, ok := fks[k]; !ok {
			return false, "stmt-final-fk-missing", fmt.Sprintf("after the plan foreign key %s.%s -> %s does not exist; statements: %s", f.from, f.sym, f.ref, trunc(strings.Join(stmts, "; "), 500))
		}
	}
	for k, f := range fks {
		if _, ok := wantFK[k]; !ok {
			return false, "stmt-final-fk-left", fmt.Sprintf("after the plan foreign key %s.%s -> %s still exists although the change set drops it; statements: %s", f.from, f.sym, f.ref, trunc(strings.Join(stmts, "; "), 600))
		}
	}
	if c.Extra {
		for i := 0; i < c.N; i++ {
			if c.Role[i] == 2 && c.modified(i) && extra[tname(i)] {
				return false, "stmt-final-column-left", fmt.Sprintf("after the plan %s still holds the column x the change set drops; statements: %s", tname(i), trunc(strings.Join(stmts, "; "), 500))
			}
		}
	}
	return true, "", ""
}

// modified: the kept table i gets a ModifyTable (it has a foreign key to add or drop).
func (c *c04Case) modified(i int) bool {
	for _, e := range c.Edges {
		if e/c.N == i {
			return true
		}
	}
	return false
}
