package main

// C18: `migrate lint` flags every destructive migration and no purely additive one.
// Random schema evolutions are written as migration directories (DROP TABLE, ALTER ... DROP COLUMN,
// SQLite table rebuilds that omit / keep columns, temporary tables, virtual columns, indexes, tables
// whose own name starts with new_, files longer than 10 statements, re-creation after a drop) and
// analysed by the real `atlas migrate lint --latest N --format '{{ json . }}'` on a real SQLite dev
// database. The generator's own bookkeeping is the independent oracle (what existed before the file);
// the per-statement changes it implies are sent to the Lean model (Atlas.Lint.analyze) and the
// model's DS102/DS103 flags are compared with the binary's.

import (
	"encoding/json"
	"fmt"
	"os"
	"path/filepath"
	"sort"
	"strings"
	"sync"

	"verifharness/internal/hx"
)

func init() { commands["C18"] = runC18 }

type lcol struct {
	Name    string
	Virt    bool
	Indexed bool
}

type ltable struct {
	News, Base int
	Cols       []lcol
}

func (t *ltable) name() string { return strings.Repeat("new_", t.News) + fmt.Sprintf("t%d", t.Base) }

type lev map[string]any

type lstmt struct {
	SQL string
	Evs []lev
}

type lgroup struct {
	Stmts []int    `json:"stmts"`
	Codes []string `json:"codes"`
	What  string   `json:"what"`
	Res   string   `json:"resource"` // key of the dropped resource in lfile.Trace
	At    int      `json:"at"`       // index of this drop in the resource's trace
}

type ltrace struct {
	Add  bool `json:"add"`
	Stmt int  `json:"stmt"`
}

type lfile struct {
	Stmts    []lstmt             `json:"-"`
	SQL      []string            `json:"sql"`
	Groups   []lgroup            `json:"groups"`   // destructive things the oracle expects to be flagged
	Unjudged bool                `json:"unjudged"` // contains constructs the property does not speak about
	Ops      []string            `json:"ops"`
	Pattern  string              `json:"pattern,omitempty"`
	Trace    map[string][]ltrace `json:"trace"` // per resource: creations and drops inside this file
}

// mark records a creation / drop of a resource and returns its index in the resource's trace.
func (f *lfile) mark(res string, add bool, stmt int) int {
	if f.Trace == nil {
		f.Trace = map[string][]ltrace{}
	}
	f.Trace[res] = append(f.Trace[res], ltrace{add, stmt})
	return len(f.Trace[res]) - 1
}

// reAdds: some resource is created after having been dropped inside the file.
func (f *lfile) reAdds() bool {
	for _, tr := range f.Trace {
		dropped := false
		for _, e := range tr {
			if !e.Add {
				dropped = true
			} else if dropped {
				return true
			}
		}
	}
	return false
}

// dropThenReAddedThenDropped: the drop at index `at` is followed by a creation and a later drop.
func (f *lfile) dad(res string, at int) bool {
	tr := f.Trace[res]
	for i := at + 1; i < len(tr); i++ {
		if tr[i].Add {
			for j := i + 1; j < len(tr); j++ {
				if !tr[j].Add {
					return true
				}
			}
		}
	}
	return false
}

// ada: some drop at statement `stmt` lies between two creations of the same resource.
func (f *lfile) ada(stmt int) bool {
	for _, tr := range f.Trace {
		for i, e := range tr {
			if e.Add || e.Stmt != stmt {
				continue
			}
			before, after := false, false
			for j := 0; j < i; j++ {
				before = before || tr[j].Add
			}
			for j := i + 1; j < len(tr); j++ {
				after = after || tr[j].Add
			}
			if before && after {
				return true
			}
		}
	}
	return false
}

type lgen struct {
	r      *hx.Rand
	tables map[string]*ltable
	nextT  int
	nextC  int
	// per file
	createdT map[string]bool
	createdC map[string]bool
	f        *lfile
}

func colsJSON(cs []lcol) [][]any {
	out := [][]any{}
	for _, c := range cs {
		var n int
		fmt.Sscanf(c.Name, "c%d", &n)
		out = append(out, []any{n, c.Virt})
	}
	return out
}

func (g *lgen) ev(k string, t *ltable, extra ...any) lev {
	e := lev{"k": k, "news": t.News, "base": t.Base}
	if k == "addTable" || k == "dropTable" {
		e["cols"] = colsJSON(t.Cols)
	}
	if len(extra) == 1 {
		c := extra[0].(lcol)
		e["col"] = colsJSON([]lcol{c})[0]
	}
	return e
}

func (g *lgen) emit(sql string, evs ...lev) int {
	if evs == nil {
		evs = []lev{}
	}
	g.f.Stmts = append(g.f.Stmts, lstmt{sql, evs})
	g.f.SQL = append(g.f.SQL, sql)
	return len(g.f.Stmts) - 1
}

func colDefs(cs []lcol) string {
	var ds []string
	for _, c := range cs {
		if c.Virt {
			ds = append(ds, fmt.Sprintf("`%s` integer GENERATED ALWAYS AS (1) VIRTUAL", c.Name))
		} else {
			ds = append(ds, fmt.Sprintf("`%s` integer NULL", c.Name))
		}
	}
	return strings.Join(ds, ", ")
}

func (g *lgen) newCol(virt bool) lcol {
	g.nextC++
	return lcol{Name: fmt.Sprintf("c%d", g.nextC), Virt: virt}
}

func (g *lgen) createTable(news int) *ltable {
	g.nextT++
	t := &ltable{News: news, Base: g.nextT}
	n := 2 + g.r.Intn(3)
	for i := 0; i < n; i++ {
		t.Cols = append(t.Cols, g.newCol(false))
	}
	g.tables[t.name()] = t
	g.createdT[t.name()] = true
	i := g.emit(fmt.Sprintf("CREATE TABLE `%s` (%s);", t.name(), colDefs(t.Cols)), g.ev("addTable", t))
	g.markCreate(t, i)
	return t
}

func (g *lgen) markCreate(t *ltable, stmt int) {
	g.f.mark("T:"+t.name(), true, stmt)
	for _, c := range t.Cols {
		g.f.mark("C:"+t.name()+"."+c.Name, true, stmt)
	}
}

func (g *lgen) pick(pred func(*ltable) bool) *ltable {
	var names []string
	for n, t := range g.tables {
		if pred == nil || pred(t) {
			names = append(names, n)
		}
	}
	if len(names) == 0 {
		return nil
	}
	sort.Strings(names)
	return g.tables[names[g.r.Intn(len(names))]]
}

func realCols(t *ltable) (out []lcol) {
	for _, c := range t.Cols {
		if !c.Virt {
			out = append(out, c)
		}
	}
	return
}

func (g *lgen) dropTable(t *ltable) {
	i := g.emit(fmt.Sprintf("DROP TABLE `%s`;", t.name()), g.ev("dropTable", t))
	at := g.f.mark("T:"+t.name(), false, i)
	if !g.createdT[t.name()] {
		g.f.Groups = append(g.f.Groups, lgroup{[]int{i}, []string{"DS102"}, "DROP TABLE " + t.name() + " (existed before the file)", "T:" + t.name(), at})
	}
	delete(g.tables, t.name())
	delete(g.createdT, t.name())
}

// rebuild: CREATE new_t / INSERT / DROP t / RENAME; omit = column to leave out (nil: keep all).
func (g *lgen) rebuild(t *ltable, omit *lcol, pragma bool) {
	if pragma {
		g.emit("PRAGMA foreign_keys = off;")
	}
	var keep []lcol
	for _, c := range t.Cols {
		if omit == nil || c.Name != omit.Name {
			c.Indexed = false // the indexes go away with the old table
			keep = append(keep, c)
		}
	}
	nt := &ltable{News: t.News + 1, Base: t.Base, Cols: keep}
	i0 := g.emit(fmt.Sprintf("CREATE TABLE `%s` (%s);", nt.name(), colDefs(keep)), g.ev("addTable", nt))
	var names []string
	for _, c := range realCols(nt) {
		names = append(names, "`"+c.Name+"`")
	}
	i1 := g.emit(fmt.Sprintf("INSERT INTO `%s` (%s) SELECT %s FROM `%s`;", nt.name(), strings.Join(names, ", "), strings.Join(names, ", "), t.name()))
	i2 := g.emit(fmt.Sprintf("DROP TABLE `%s`;", t.name()), g.ev("dropTable", t))
	renamed := &ltable{News: t.News, Base: t.Base, Cols: keep}
	i3 := g.emit(fmt.Sprintf("ALTER TABLE `%s` RENAME TO `%s`;", nt.name(), t.name()), g.ev("dropTable", nt), g.ev("addTable", renamed))
	if pragma {
		g.emit("PRAGMA foreign_keys = on;")
	}
	at := -1
	if omit != nil {
		at = g.f.mark("C:"+t.name()+"."+omit.Name, false, i0)
	}
	if omit != nil && !omit.Virt && !g.createdT[t.name()] && !g.createdC[t.name()+"."+omit.Name] {
		g.f.Groups = append(g.f.Groups, lgroup{[]int{i0, i1, i2, i3}, []string{"DS103", "DS102"}, fmt.Sprintf("rebuild of %s omits column %s (existed before the file)", t.name(), omit.Name), "C:" + t.name() + "." + omit.Name, at})
	} else {
		g.f.Unjudged = true // a rebuild that destroys nothing: the property is silent about DS102 on its DROP
	}
	g.tables[t.name()] = renamed
}

func (g *lgen) op() {
	switch k := g.r.Intn(22); {
	case k >= 20: // drop a column and add a column of the same name again (same file)
		if t := g.pick(func(t *ltable) bool { return len(realCols(t)) >= 2 }); t != nil {
			ci := g.r.Intn(len(t.Cols))
			c := t.Cols[ci]
			if c.Virt || c.Indexed {
				return
			}
			rest := append(append([]lcol{}, t.Cols[:ci]...), t.Cols[ci+1:]...)
			if k == 20 || g.tables["new_"+t.name()] != nil {
				i := g.emit(fmt.Sprintf("ALTER TABLE `%s` DROP COLUMN `%s`;", t.name(), c.Name), g.ev("dropCol", t, c))
				at := g.f.mark("C:"+t.name()+"."+c.Name, false, i)
				if !g.createdT[t.name()] && !g.createdC[t.name()+"."+c.Name] {
					g.f.Groups = append(g.f.Groups, lgroup{[]int{i}, []string{"DS103"}, fmt.Sprintf("ALTER TABLE %s DROP COLUMN %s (existed before the file; re-added later in the file)", t.name(), c.Name), "C:" + t.name() + "." + c.Name, at})
				}
				t.Cols = rest
			} else {
				g.rebuild(t, &c, false)
				t = g.tables[t.name()]
			}
			t.Cols = append(t.Cols, c)
			g.createdC[t.name()+"."+c.Name] = true
			ia := g.emit(fmt.Sprintf("ALTER TABLE `%s` ADD COLUMN `%s` integer NULL;", t.name(), c.Name), g.ev("addCol", t, c))
			g.f.mark("C:"+t.name()+"."+c.Name, true, ia)
			g.f.Ops = append(g.f.Ops, "drop-readd-column")
		}
	case k < 4:
		g.createTable(0)
		g.f.Ops = append(g.f.Ops, "create")
	case k < 6:
		if t := g.pick(nil); t != nil {
			c := g.newCol(g.r.Chance(1, 4))
			t.Cols = append(t.Cols, c)
			g.createdC[t.name()+"."+c.Name] = true
			def := fmt.Sprintf("`%s` integer NULL", c.Name)
			if c.Virt {
				def = fmt.Sprintf("`%s` integer GENERATED ALWAYS AS (1) VIRTUAL", c.Name)
			}
			i := g.emit(fmt.Sprintf("ALTER TABLE `%s` ADD COLUMN %s;", t.name(), def), g.ev("addCol", t, c))
			g.f.mark("C:"+t.name()+"."+c.Name, true, i)
			g.f.Ops = append(g.f.Ops, "add-column")
		}
	case k < 9: // ALTER ... DROP COLUMN
		if t := g.pick(func(t *ltable) bool { return len(realCols(t)) >= 2 }); t != nil {
			ci := g.r.Intn(len(t.Cols))
			c := t.Cols[ci]
			if !c.Virt && len(realCols(t)) < 2 || c.Indexed {
				return
			}
			i := g.emit(fmt.Sprintf("ALTER TABLE `%s` DROP COLUMN `%s`;", t.name(), c.Name), g.ev("dropCol", t, c))
			at := g.f.mark("C:"+t.name()+"."+c.Name, false, i)
			if !c.Virt && !g.createdT[t.name()] && !g.createdC[t.name()+"."+c.Name] {
				g.f.Groups = append(g.f.Groups, lgroup{[]int{i}, []string{"DS103"}, fmt.Sprintf("ALTER TABLE %s DROP COLUMN %s (existed before the file)", t.name(), c.Name), "C:" + t.name() + "." + c.Name, at})
			}
			t.Cols = append(append([]lcol{}, t.Cols[:ci]...), t.Cols[ci+1:]...)
			delete(g.createdC, t.name()+"."+c.Name)
			g.f.Ops = append(g.f.Ops, "drop-column-alter")
		}
	case k < 12: // rebuild omitting a column
		if t := g.pick(func(t *ltable) bool { return len(realCols(t)) >= 2 && g.tables["new_"+t.name()] == nil }); t != nil {
			rc := realCols(t)
			c := rc[g.r.Intn(len(rc))]
			g.rebuild(t, &c, g.r.Chance(1, 2))
			g.f.Ops = append(g.f.Ops, "drop-column-rebuild")
		}
	case k < 13: // rebuild keeping everything
		if t := g.pick(func(t *ltable) bool { return g.tables["new_"+t.name()] == nil }); t != nil {
			g.rebuild(t, nil, g.r.Chance(1, 2))
			g.f.Ops = append(g.f.Ops, "rebuild-keep")
		}
	case k < 15:
		if t := g.pick(nil); t != nil && len(g.tables) > 1 {
			g.dropTable(t)
			g.f.Ops = append(g.f.Ops, "drop-table")
		}
	case k < 17: // temporary table inside the file
		t := g.createTable(0)
		if g.r.Chance(1, 2) {
			g.emit(fmt.Sprintf("INSERT INTO `%s` (`%s`) VALUES (1);", t.name(), t.Cols[0].Name))
		}
		g.dropTable(t)
		g.f.Ops = append(g.f.Ops, "temp-table")
	case k < 18:
		if t := g.pick(nil); t != nil {
			rc := realCols(t)
			if len(rc) > 0 {
				g.nextC++
				for i := range t.Cols {
					if t.Cols[i].Name == rc[0].Name {
						t.Cols[i].Indexed = true
					}
				}
				g.emit(fmt.Sprintf("CREATE INDEX `i%d` ON `%s` (`%s`);", g.nextC, t.name(), rc[0].Name), lev{"k": "other"})
				g.f.Ops = append(g.f.Ops, "create-index")
			}
		}
	case k < 19: // a table whose own name starts with new_
		g.createTable(1)
		g.f.Ops = append(g.f.Ops, "create-new_-named")
	default: // temporary column inside the file
		if t := g.pick(nil); t != nil {
			c := g.newCol(false)
			t.Cols = append(t.Cols, c)
			ia := g.emit(fmt.Sprintf("ALTER TABLE `%s` ADD COLUMN `%s` integer NULL;", t.name(), c.Name), g.ev("addCol", t, c))
			g.f.mark("C:"+t.name()+"."+c.Name, true, ia)
			id := g.emit(fmt.Sprintf("ALTER TABLE `%s` DROP COLUMN `%s`;", t.name(), c.Name), g.ev("dropCol", t, c))
			g.f.mark("C:"+t.name()+"."+c.Name, false, id)
			t.Cols = t.Cols[:len(t.Cols)-1]
			g.f.Ops = append(g.f.Ops, "temp-column")
		}
	}
}

// special patterns the span algebra is known / suspected to mishandle
func (g *lgen) pattern(p string) {
	g.f.Pattern = p
	switch p {
	case "drop-add-drop":
		if t := g.pick(nil); t != nil && len(g.tables) > 1 && !g.createdT[t.name()] {
			cp := *t
			g.dropTable(t)
			g.tables[cp.name()] = &cp
			g.createdT[cp.name()] = true
			ic := g.emit(fmt.Sprintf("CREATE TABLE `%s` (%s);", cp.name(), colDefs(cp.Cols)), g.ev("addTable", &cp))
			g.markCreate(&cp, ic)
			g.dropTable(&cp)
		}
	case "add-drop-add":
		t := g.createTable(0)
		cp := *t
		g.dropTable(t)
		g.tables[cp.name()] = &cp
		g.createdT[cp.name()] = true
		ic := g.emit(fmt.Sprintf("CREATE TABLE `%s` (%s);", cp.name(), colDefs(cp.Cols)), g.ev("addTable", &cp))
		g.markCreate(&cp, ic)
	case "new_-named-then-drop":
		// CREATE TABLE new_tK (a real table), three unrelated statements, DROP TABLE tK (pre-existing)
		if t := g.pick(func(t *ltable) bool { return t.News == 0 && !g.createdT[t.name()] && g.tables["new_"+t.name()] == nil }); t != nil && len(g.tables) > 1 {
			nt := &ltable{News: 1, Base: t.Base, Cols: []lcol{g.newCol(false), g.newCol(false)}}
			g.tables[nt.name()] = nt
			g.createdT[nt.name()] = true
			in := g.emit(fmt.Sprintf("CREATE TABLE `%s` (%s);", nt.name(), colDefs(nt.Cols)), g.ev("addTable", nt))
			g.markCreate(nt, in)
			g.createTable(0)
			g.createTable(0)
			g.createTable(0)
			g.dropTable(t)
		}
	case "long-first-file":
		for i := 0; i < 12; i++ {
			g.createTable(0)
		}
	}
}

type lintOut struct {
	Files []struct {
		Name    string
		Error   string
		Reports []struct {
			Text        string
			Diagnostics []struct {
				Pos  int
				Code string
				Text string
			}
		}
	}
}

func runC18(e *Env) error {
	if e.Atlas == "" {
		return fmt.Errorf("atlas binary not given")
	}
	pool, err := hx.NewPool(e.Model, 4)
	if err != nil {
		return err
	}
	defer pool.Close()
	n := 120
	if e.Thorough() {
		n = 1500
	}
	e.Res.Rule = fmt.Sprintf("%d random schema evolutions (3-6 files of 1-4 operations: create table, add (virtual) column, ALTER DROP COLUMN, rebuild omitting / keeping columns with and without PRAGMA lines, DROP TABLE, temporary table / column inside a file, index, tables named new_*, plus injected patterns drop-add-drop, add-drop-add, new_-named table before a drop, >10-statement first file) x --latest N for every N, real `atlas migrate lint` on SQLite; per analysed file: binary's DS102/DS103 (statement, code) == Lean analyze of the implied change lists; oracle = generator bookkeeping (object existed before the file): every destructive statement flagged on one of its statements, nothing flagged in additive/temporary-only files, exit status != 0 iff something is flagged; non-trivial = file with a destructive or temporary construct; distinct by (evolution, window, file)", n)
	var mu sync.Mutex
	viol := func(kind, sig, what, check string, rep any) {
		mu.Lock()
		e.Res.Violate(kind, sig, what, check, rep)
		mu.Unlock()
	}
	patterns := []string{"drop-add-drop", "add-drop-add", "new_-named-then-drop", "long-first-file"}
	parallel(e.Workers, n, func(ci int) {
		r := hx.NewRand(e.Seed, fmt.Sprintf("c18-%d", ci))
		g := &lgen{r: r, tables: map[string]*ltable{}}
		nf := 3 + r.Intn(4)
		var files []*lfile
		for fi := 0; fi < nf; fi++ {
			g.f = &lfile{}
			g.createdT, g.createdC = map[string]bool{}, map[string]bool{}
			if fi == 0 {
				if ci%9 == 3 {
					g.pattern("long-first-file")
				}
				g.createTable(0)
				g.createTable(0)
			}
			if fi > 0 && ci%3 == 0 && fi == 1+ci%2 {
				g.pattern(patterns[(ci/3)%3])
			}
			for k := 0; k < 1+r.Intn(4); k++ {
				g.op()
			}
			if len(g.f.Stmts) == 0 {
				g.createTable(0)
			}
			files = append(files, g.f)
		}
		dir := filepath.Join(e.Work, fmt.Sprintf("c18-%d", ci))
		os.RemoveAll(dir)
		os.MkdirAll(dir, 0o755)
		defer os.RemoveAll(dir)
		var dfs []dirFile
		offsets := make([][]int, nf)
		for fi, f := range files {
			var b strings.Builder
			for _, s := range f.Stmts {
				offsets[fi] = append(offsets[fi], b.Len())
				b.WriteString(s.SQL + "\n")
			}
			dfs = append(dfs, dirFile{fmt.Sprintf("%d_f.sql", fi+1), b.String()})
		}
		if err := writeMigrationDir(filepath.Join(dir, "m"), dfs); err != nil {
			return
		}
		for latest := 1; latest <= nf; latest++ {
			o := runAtlas(e, dir, nil, "migrate", "lint", "--dir", "file://m", "--dev-url", "sqlite://dev?mode=memory", "--latest", fmt.Sprint(latest), "--format", "{{ json . }}")
			var lo lintOut
			rep := map[string]any{"files": files, "latest": latest, "sql": dfs}
			if err := json.Unmarshal([]byte(o.Stdout), &lo); err != nil {
				viol("failing-input", "lint-output-unreadable", fmt.Sprintf("exit %d: %s %s", o.Code, trunc(o.Stdout, 200), trunc(o.Stderr, 200)), "Props.C18", rep)
				continue
			}
			// every file of the window is analysed and reported, whatever the files in front of it hold
			{
				seen := map[string]bool{}
				for _, lf := range lo.Files {
					seen[lf.Name] = true
				}
				var missing []string
				for fi := nf - latest; fi < nf; fi++ {
					if n := fmt.Sprintf("%d_f.sql", fi+1); fi >= 0 && !seen[n] {
						missing = append(missing, n)
					}
				}
				if len(missing) > 0 {
					viol("failing-input", "window-file-not-analysed", fmt.Sprintf("--latest %d of %d files: the report has no entry for %v (reported: %d files, exit %d)", latest, nf, missing, len(lo.Files), o.Code), "Props.C18 every destructive file flagged (window)", rep)
				}
			}
			anyFlag, anyGroup, judged := false, false, true
			for _, lf := range lo.Files {
				var fi int
				fmt.Sscanf(lf.Name, "%d_f.sql", &fi)
				fi--
				if fi < 0 || fi >= nf {
					continue
				}
				f := files[fi]
				if lf.Error != "" && lf.Error != "destructive changes detected" {
					viol("failing-input", "lint-file-error", fmt.Sprintf("file %s: %s\n%s", lf.Name, lf.Error, strings.Join(f.SQL, "\n")), "Props.C18 (lint runs)", rep)
					continue
				}
				var got [][2]any
				for _, rp := range lf.Reports {
					for _, d := range rp.Diagnostics {
						if d.Code != "DS102" && d.Code != "DS103" {
							continue
						}
						idx := -1
						for k, off := range offsets[fi] {
							if off == d.Pos {
								idx = k
							}
						}
						got = append(got, [2]any{idx, d.Code})
					}
				}
				sort.Slice(got, func(a, b int) bool {
					return got[a][0].(int) < got[b][0].(int) || got[a][0] == got[b][0] && got[a][1].(string) < got[b][1].(string)
				})
				if len(got) > 0 {
					anyFlag = true
				}
				if len(f.Groups) > 0 {
					anyGroup = true
				}
				if f.Unjudged || f.Pattern != "" || f.reAdds() {
					judged = false
				}
				wholeFile := latest == nf && fi == 0 && len(f.Stmts) > 10
				mu.Lock()
				e.Res.Count(fmt.Sprintf("c18-%d/%d/%d", ci, latest, fi), len(f.Groups) > 0 || strings.Contains(strings.Join(f.Ops, ","), "temp"), "ops:"+strings.Join(uniq(f.Ops), "+"))
				if f.Pattern != "" {
					e.Res.Tag("pattern:" + f.Pattern)
				}
				mu.Unlock()
				frep := map[string]any{"file": lf.Name, "sql": f.SQL, "latest": latest, "groups": f.Groups, "got": got, "dir": dfs}
				// oracle
				for _, gr := range f.Groups {
					ok := false
					for _, d := range got {
						for _, si := range gr.Stmts {
							for _, c := range gr.Codes {
								if d[0].(int) == si && d[1].(string) == c || wholeFile && d[1].(string) == c {
									ok = true
								}
							}
						}
					}
					if !ok {
						sig := "destructive-not-flagged"
						if f.dad(gr.Res, gr.At) {
							sig = "drop-recreate-drop-not-flagged"
						}
						viol("failing-input", sig, fmt.Sprintf("--latest %d, file %s: %s, but lint reports %v for\n%s", latest, lf.Name, gr.What, got, strings.Join(f.SQL, "\n")), "Props.C18 drop_flagged", frep)
					}
				}
				if len(f.Groups) == 0 && !f.Unjudged && len(got) > 0 {
					sig := "additive-file-flagged"
					known := true
					for _, d := range got {
						known = known && f.ada(d[0].(int))
					}
					if known {
						sig = "create-drop-create-flagged"
					}
					viol("failing-input", sig, fmt.Sprintf("--latest %d, file %s only adds objects / uses temporary ones, but lint reports %v for\n%s", latest, lf.Name, got, strings.Join(f.SQL, "\n")), "Props.C18 additive_clean", frep)
				}
				// model correspondence
				var stmts [][]lev
				if wholeFile {
					var all []lev
					for _, t := range finalTables(f) {
						all = append(all, lev{"k": "addTable", "news": t.News, "base": t.Base, "cols": colsJSON(t.Cols)})
					}
					stmts = [][]lev{all}
				} else {
					for _, s := range f.Stmts {
						stmts = append(stmts, s.Evs)
					}
				}
				var ans struct {
					Flags [][2]any `json:"flags"`
				}
				if err := pool.AskInto(map[string]any{"op": "lint.analyze", "stmts": stmts}, &ans); err == nil {
					var want [][2]any
					for _, fl := range ans.Flags {
						want = append(want, [2]any{int(fl[0].(float64)), fl[1].(string)})
					}
					if fmt.Sprint(want) != fmt.Sprint(got) {
						mu.Lock()
						e.Res.Disagree()
						mu.Unlock()
						viol("no-failing-input-found", "corr-lint-flags-mismatch", fmt.Sprintf("--latest %d, file %s: binary reports %v, model %v for\n%s", latest, lf.Name, got, want, strings.Join(f.SQL, "\n")), "correspondence Atlas.Lint.analyze", frep)
					}
				}
			}
			if judged && (o.Code != 0) != anyFlag {
				viol("failing-input", "exit-status-disagrees-with-diagnostics", fmt.Sprintf("--latest %d: exit %d but destructive diagnostics present=%v", latest, o.Code, anyFlag), "Props.C18 exit status", rep)
			}
			if judged && anyGroup && o.Code == 0 {
				viol("failing-input", "destructive-exit-zero", fmt.Sprintf("--latest %d: a destructive file is analysed but lint exits 0", latest), "Props.C18 exit status", rep)
			}
		}
	})
	if e.Replay == "" {
		c18Planned(e, viol, &mu)
		c18Window(e, viol, &mu)
		c18Stored(e, viol, &mu)
	}
	e.Res.Note("atlas processes run: %d", cliRuns.Load())
	return nil
}

func uniq(xs []string) []string {
	m := map[string]bool{}
	var out []string
	for _, x := range xs {
		if !m[x] {
			m[x] = true
			out = append(out, x)
		}
	}
	sort.Strings(out)
	return out
}

// finalTables replays the raw events of a file from an empty database (only used for first files).
func finalTables(f *lfile) []*ltable {
	m := map[string]*ltable{}
	var order []string
	for _, s := range f.Stmts {
		for _, ev := range s.Evs {
			k, _ := ev["k"].(string)
			if k != "addTable" && k != "dropTable" {
				continue
			}
			t := &ltable{News: ev["news"].(int), Base: ev["base"].(int)}
			for _, c := range ev["cols"].([][]any) {
				t.Cols = append(t.Cols, lcol{Name: fmt.Sprintf("c%d", c[0].(int)), Virt: c[1].(bool)})
			}
			if k == "addTable" {
				if m[t.name()] == nil {
					order = append(order, t.name())
				}
				m[t.name()] = t
			} else {
				delete(m, t.name())
			}
		}
	}
	var out []*ltable
	for _, n := range order {
		if m[n] != nil {
			out = append(out, m[n])
		}
	}
	return out
}
