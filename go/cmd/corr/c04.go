package main

// C04: plans respect dependencies for every foreign-key graph. Exhaustive enumeration of all
// directed graphs with self loops on n tables x every split of the tables into created / dropped /
// kept(-and-modified) (x add-or-drop for kept->kept edges, x several input orders), through the real
// MySQL and PostgreSQL planners; Plan.Changes[i].Source is replayed by a reference catalogue (the
// monitor) and compared with the order computed by the Lean model; larger random graphs beyond.

import (
	"context"
	"encoding/json"
	"fmt"
	"os"
	"sort"
	"strings"

	"ariga.io/atlas/sql/migrate"
	"ariga.io/atlas/sql/mysql"
	"ariga.io/atlas/sql/postgres"
	"ariga.io/atlas/sql/schema"
	"verifharness/internal/hx"
)

func init() { commands["C04"] = runC04 }

type c04Case struct {
	N       int    `json:"n"`
	Edges   []int  `json:"edges"`    // i*N+j present: FK from table i to table j
	Role    []int  `json:"role"`     // per table: 0 created, 1 dropped, 2 kept
	KeptAdd bool   `json:"kept_add"` // kept->kept edges: added (true) or dropped (false)
	Perm    []int  `json:"perm"`     // order in which the changes are handed to the planner
	Dialect string `json:"dialect"`
	// Extra: every table has one more column x, and each kept table that is modified (a foreign key added or
	// dropped) drops x in the same ModifyTable
	Extra bool `json:"extra_column,omitempty"`
	// Mode: the plan mode option (0 unset, 1 in place, 2 deferred, 3 dump): the order respects the dependencies in
	// every mode that sorts at all
	Mode int `json:"plan_mode,omitempty"`
}

type sortFK struct {
	Sym string `json:"sym"`
	Ref string `json:"ref"`
}
type sortSub struct {
	K   string `json:"k"`
	Sym string `json:"sym,omitempty"`
	Ref string `json:"ref,omitempty"`
	Tag string `json:"tag,omitempty"`
}
type sortCh struct {
	ID   int       `json:"id,omitempty"`
	K    string    `json:"k"`
	T    string    `json:"t"`
	FKs  []sortFK  `json:"fks"`
	Subs []sortSub `json:"subs"`
}

func tname(i int) string { return fmt.Sprintf("t%d", i) }

// build returns the schema changes for the case and their abstract form; ok=false if the scenario
// is inconsistent (an edge between a created and a dropped table).
func (c *c04Case) build() (changes []schema.Change, abs []sortCh, ok bool) {
	s := schema.New("s")
	tabs := make([]*schema.Table, c.N)
	for i := range tabs {
		tabs[i] = schema.NewTable(tname(i)).SetSchema(s).AddColumns(schema.NewIntColumn("id", "int"), schema.NewIntColumn("r", "int"))
		tabs[i].SetPrimaryKey(schema.NewPrimaryKey(tabs[i].Columns[0]))
		if c.Extra && c.Role[i] != 0 {
			tabs[i].AddColumns(schema.NewNullIntColumn("x", "int"))
		}
	}
	has := func(i, j int) bool {
		for _, e := range c.Edges {
			if e == i*c.N+j {
				return true
			}
		}
		return false
	}
	fkOf := func(i, j int) *schema.ForeignKey {
		return schema.NewForeignKey(fmt.Sprintf("fk_%d_%d", i, j)).SetTable(tabs[i]).AddColumns(tabs[i].Columns[1]).SetRefTable(tabs[j]).AddRefColumns(tabs[j].Columns[0])
	}
	var perTable = make([]schema.Change, c.N)
	var perAbs = make([]*sortCh, c.N)
	for i := 0; i < c.N; i++ {
		var inline []*schema.ForeignKey
		var subs []schema.Change
		var asubs []sortSub
		var afks []sortFK
		for j := 0; j < c.N; j++ {
			if !has(i, j) {
				continue
			}
			ri, rj := c.Role[i], c.Role[j]
			switch {
			case ri == 0 && rj == 1, ri == 1 && rj == 0:
				return nil, nil, false
			case ri == 0: // created table declares the fk inline
				inline = append(inline, fkOf(i, j))
				afks = append(afks, sortFK{fmt.Sprintf("fk_%d_%d", i, j), tname(j)})
			case ri == 1: // dropped table owns an existing fk
				inline = append(inline, fkOf(i, j))
				afks = append(afks, sortFK{fmt.Sprintf("fk_%d_%d", i, j), tname(j)})
			case rj == 0 || (rj == 2 && c.KeptAdd): // kept -> created / kept: add fk
				subs = append(subs, &schema.AddForeignKey{F: fkOf(i, j)})
				asubs = append(asubs, sortSub{K: "addfk", Sym: fmt.Sprintf("fk_%d_%d", i, j), Ref: tname(j)})
			default: // kept -> dropped / kept: drop fk
				subs = append(subs, &schema.DropForeignKey{F: fkOf(i, j)})
				asubs = append(asubs, sortSub{K: "dropfk", Sym: fmt.Sprintf("fk_%d_%d", i, j), Ref: tname(j)})
			}
		}
		switch c.Role[i] {
		case 0:
			tabs[i].AddForeignKeys(inline...)
			perTable[i] = &schema.AddTable{T: tabs[i]}
			perAbs[i] = &sortCh{K: "add", T: tname(i), FKs: afks}
		case 1:
			tabs[i].AddForeignKeys(inline...)
			perTable[i] = &schema.DropTable{T: tabs[i]}
			perAbs[i] = &sortCh{K: "drop", T: tname(i), FKs: afks}
		default:
			if len(subs) > 0 {
				if c.Extra {
					x, _ := tabs[i].Column("x")
					subs = append(subs, &schema.DropColumn{C: x})
					asubs = append(asubs, sortSub{K: "other", Tag: "*schema.DropColumn"})
				}
				perTable[i] = &schema.ModifyTable{T: tabs[i], Changes: subs}
				perAbs[i] = &sortCh{K: "mod", T: tname(i), Subs: asubs}
			}
		}
	}
	id := 1
	for _, i := range c.Perm {
		if perTable[i] != nil {
			changes = append(changes, perTable[i])
			a := *perAbs[i]
			a.ID = id
			id++
			if a.FKs == nil {
				a.FKs = []sortFK{}
			}
			if a.Subs == nil {
				a.Subs = []sortSub{}
			}
			abs = append(abs, a)
		}
	}
	return changes, abs, len(changes) > 0
}

// abstractOf turns a planned schema.Change (Plan.Changes[i].Source) into its abstract form.
func abstractOf(c schema.Change) (sortCh, bool) {
	fks := func(t *schema.Table) []sortFK {
		out := []sortFK{}
		for _, fk := range t.ForeignKeys {
			out = append(out, sortFK{fk.Symbol, fk.RefTable.Name})
		}
		return out
	}
	switch c := c.(type) {
	case *schema.AddTable:
		return sortCh{K: "add", T: c.T.Name, FKs: fks(c.T), Subs: []sortSub{}}, true
	case *schema.DropTable:
		return sortCh{K: "drop", T: c.T.Name, FKs: fks(c.T), Subs: []sortSub{}}, true
	case *schema.ModifyTable:
		out := sortCh{K: "mod", T: c.T.Name, FKs: []sortFK{}, Subs: []sortSub{}}
		for _, s := range c.Changes {
			switch s := s.(type) {
			case *schema.AddForeignKey:
				out.Subs = append(out.Subs, sortSub{K: "addfk", Sym: s.F.Symbol, Ref: s.F.RefTable.Name})
			case *schema.DropForeignKey:
				out.Subs = append(out.Subs, sortSub{K: "dropfk", Sym: s.F.Symbol, Ref: s.F.RefTable.Name})
			default:
				out.Subs = append(out.Subs, sortSub{K: "other", Tag: fmt.Sprintf("%T", s)})
			}
		}
		return out, true
	}
	return sortCh{}, false
}

// c04Planner: the MySQL and PostgreSQL planners, and the planner the MySQL driver hands out for a TiDB
// server ("tidb": no SortChanges there - DetachCycles, one change per statement, a stable sort by priority).
func c04Planner(dialect string) migrate.PlanApplier {
	switch dialect {
	case "postgres":
		return postgres.DefaultPlan
	case "tidb":
		pl, _ := c17Planner("tidb")
		return pl
	}
	return mysql.DefaultPlan
}

// planOrderImpl runs the real planner and returns the ordered, de-duplicated sources of the plan.
func c04Mode(mode int) migrate.PlanOption {
	return func(o *migrate.PlanOptions) { o.Mode = migrate.PlanMode(mode) }
}

func planOrderImpl(dialect string, changes []schema.Change, mode int) (out []sortCh, res string) {
	defer func() {
		if p := recover(); p != nil {
			out, res = nil, fmt.Sprintf("panic: %v", p)
		}
	}()
	pl := c04Planner(dialect)
	if pl == nil {
		return nil, "error: no planner for " + dialect
	}
	plan, err := pl.PlanChanges(context.Background(), "p", changes, c04Mode(mode))
	if err != nil {
		return nil, "error: " + err.Error()
	}
	var last schema.Change
	for _, ch := range plan.Changes {
		if ch.Source == nil || ch.Source == last {
			continue
		}
		last = ch.Source
		if a, ok := abstractOf(ch.Source); ok {
			out = append(out, a)
		}
	}
	return out, "ok"
}

// c04Monitor replays the ordered changes on a reference catalogue.
func c04Monitor(c *c04Case, abs []sortCh, order []sortCh, res string) (bool, string, string) {
	if res != "ok" {
		sig := "planner-fails"
		if strings.HasPrefix(res, "panic") {
			sig = "planner-panics"
		}
		return false, sig, fmt.Sprintf("%s planner: %s", c.Dialect, res)
	}
	exists := map[string]bool{}
	live := map[string]string{} // fk symbol -> referenced table (for fks currently in the database)
	owner := map[string]string{}
	has := func(i, j int) bool {
		for _, e := range c.Edges {
			if e == i*c.N+j {
				return true
			}
		}
		return false
	}
	for i := 0; i < c.N; i++ {
		if c.Role[i] != 0 {
			exists[tname(i)] = true
		}
	}
	for i := 0; i < c.N; i++ {
		for j := 0; j < c.N; j++ {
			if !has(i, j) {
				continue
			}
			sym := fmt.Sprintf("fk_%d_%d", i, j)
			existing := c.Role[i] == 1 || (c.Role[i] == 2 && (c.Role[j] == 1 || (c.Role[j] == 2 && !c.KeptAdd)))
			if existing {
				live[sym], owner[sym] = tname(j), tname(i)
			}
		}
	}
	created, dropped := map[string]int{}, map[string]int{}
	wantFK := map[string]bool{} // fks that must exist in the end
	for _, a := range abs {
		if a.K == "add" {
			for _, f := range a.FKs {
				wantFK[f.Sym] = true
			}
		}
		for _, s := range a.Subs {
			if s.K == "addfk" {
				wantFK[s.Sym] = true
			}
		}
	}
	for k, o := range order {
		switch o.K {
		case "add":
			if exists[o.T] {
				return false, "table-created-twice", fmt.Sprintf("step %d creates %s which exists", k, o.T)
			}
			exists[o.T] = true
			created[o.T]++
			for _, f := range o.FKs {
				if !exists[f.Ref] {
					return false, "fk-before-referenced-table", fmt.Sprintf("step %d: CREATE TABLE %s declares %s -> %s before %s exists", k, o.T, f.Sym, f.Ref, f.Ref)
				}
				live[f.Sym], owner[f.Sym] = f.Ref, o.T
			}
		case "drop":
			if !exists[o.T] {
				return false, "drop-of-missing-table", fmt.Sprintf("step %d drops %s which does not exist", k, o.T)
			}
			for sym, ref := range live {
				if ref == o.T && owner[sym] != o.T {
					return false, "table-dropped-while-referenced", fmt.Sprintf("step %d drops %s while %s (on %s) still points at it", k, o.T, sym, owner[sym])
				}
			}
			for sym := range live {
				if owner[sym] == o.T {
					delete(live, sym)
				}
			}
			delete(exists, o.T)
			dropped[o.T]++
		case "mod":
			if !exists[o.T] {
				return false, "modify-of-missing-table", fmt.Sprintf("step %d modifies %s which does not exist", k, o.T)
			}
			for _, s := range o.Subs {
				switch s.K {
				case "addfk":
					if !exists[s.Ref] {
						return false, "fk-before-referenced-table", fmt.Sprintf("step %d: ALTER TABLE %s ADD %s -> %s before %s exists", k, o.T, s.Sym, s.Ref, s.Ref)
					}
					live[s.Sym], owner[s.Sym] = s.Ref, o.T
				case "dropfk":
					if _, ok := live[s.Sym]; !ok {
						return false, "drop-of-missing-fk", fmt.Sprintf("step %d drops fk %s which does not exist", k, s.Sym)
					}
					delete(live, s.Sym)
				}
			}
		}
	}
	for i := 0; i < c.N; i++ {
		t := tname(i)
		switch c.Role[i] {
		case 0:
			if created[t] != 1 || !exists[t] {
				return false, "table-not-created-exactly-once", fmt.Sprintf("%s created %d times", t, created[t])
			}
		case 1:
			if dropped[t] != 1 || exists[t] {
				return false, "table-not-dropped-exactly-once", fmt.Sprintf("%s dropped %d times", t, dropped[t])
			}
		}
	}
	for sym := range wantFK {
		if _, ok := live[sym]; !ok {
			return false, "planned-fk-lost", fmt.Sprintf("foreign key %s requested by the change set does not exist after the plan", sym)
		}
	}
	return true, "", ""
}

func permsOf(n int, all bool) [][]int {
	id := make([]int, n)
	for i := range id {
		id[i] = i
	}
	rev := make([]int, n)
	for i := range rev {
		rev[i] = n - 1 - i
	}
	if !all || n <= 1 {
		if n <= 1 {
			return [][]int{id}
		}
		return [][]int{id, rev}
	}
	var out [][]int
	var rec func(cur []int, used []bool)
	rec = func(cur []int, used []bool) {
		if len(cur) == n {
			out = append(out, append([]int{}, cur...))
			return
		}
		for i := 0; i < n; i++ {
			if !used[i] {
				used[i] = true
				rec(append(cur, i), used)
				used[i] = false
			}
		}
	}
	rec(nil, make([]bool, n))
	return out
}

func runC04(e *Env) error {
	pool, err := hx.NewPool(e.Model, e.Workers)
	if err != nil {
		return err
	}
	defer pool.Close()
	var cases []c04Case
	if e.Replay != "" {
		var doc struct {
			Case struct {
				Case c04Case `json:"case"`
			} `json:"case"`
		}
		b, err := os.ReadFile(e.Replay)
		if err != nil {
			return err
		}
		if err := json.Unmarshal(b, &doc); err != nil {
			return err
		}
		cases = []c04Case{doc.Case.Case}
	} else {
		maxN := 3
		if e.Thorough() {
			maxN = 4
		}
		r := hx.NewRand(e.Seed, "c04")
		for n := 1; n <= maxN; n++ {
			for g := 0; g < 1<<(n*n); g++ {
				var edges []int
				for k := 0; k < n*n; k++ {
					if g&(1<<k) != 0 {
						edges = append(edges, k)
					}
				}
				nroles := 1
				for i := 0; i < n; i++ {
					nroles *= 3
				}
				for rm := 0; rm < nroles; rm++ {
					role := make([]int, n)
					x := rm
					for i := range role {
						role[i] = x % 3
						x /= 3
					}
					if n == 4 && r.Intn(8) != 0 {
						continue // thorough: a 1/8 sample of the 4-table space per run (seeded)
					}
					for _, ka := range []bool{true, false} {
						perms := permsOf(n, n <= 3)
						if n == 4 {
							perms = perms[:1+r.Intn(2)]
						}
						for pi, p := range perms {
							for _, d := range []string{"mysql", "postgres"} {
								cases = append(cases, c04Case{N: n, Edges: edges, Role: role, KeptAdd: ka, Perm: p, Dialect: d})
								if pi == 0 || pi == len(perms)-1 {
									cases = append(cases, c04Case{N: n, Edges: edges, Role: role, KeptAdd: ka, Perm: p, Dialect: d, Extra: true})
								}
							}
							if pi == 0 {
								// the plan modes: in place, deferred, dump
								for _, d := range []string{"mysql", "postgres"} {
									cases = append(cases, c04Case{N: n, Edges: edges, Role: role, KeptAdd: ka, Perm: p, Dialect: d, Mode: 1 + (len(cases) % 3)})
								}
							}
							if pi == 0 || pi == len(perms)-1 {
								// the TiDB variant of the MySQL planner (judged by the replay monitors only)
								cases = append(cases, c04Case{N: n, Edges: edges, Role: role, KeptAdd: ka, Perm: p, Dialect: "tidb", Extra: pi != 0})
							}
						}
					}
				}
			}
		}
		// dense graphs over 4 tables (the complete graph with and without self loops): every split created / dropped /
		// kept, two input orders - change sets of 13 and more atomic changes (an unstable sort shows from there on)
		for _, self := range []bool{false, true} {
			var edges []int
			for k := 0; k < 16; k++ {
				if self || k/4 != k%4 {
					edges = append(edges, k)
				}
			}
			for rm := 0; rm < 81; rm++ {
				role := make([]int, 4)
				x := rm
				for i := range role {
					role[i] = x % 3
					x /= 3
				}
				for _, ka := range []bool{true, false} {
					for _, p := range [][]int{{0, 1, 2, 3}, {3, 1, 0, 2}} {
						for _, d := range []string{"mysql", "postgres", "tidb"} {
							cases = append(cases, c04Case{N: 4, Edges: edges, Role: role, KeptAdd: ka, Perm: p, Dialect: d, Extra: rm%2 == 1})
						}
					}
				}
			}
		}
		// larger random graphs
		nr := 300
		if e.Thorough() {
			nr = 20000
		}
		for k := 0; k < nr; k++ {
			n := 5 + r.Intn(8)
			var edges []int
			dens := 1 + r.Intn(4)
			for x := 0; x < n*n; x++ {
				if r.Intn(n*2) < dens {
					edges = append(edges, x)
				}
			}
			role := make([]int, n)
			mode := r.Intn(4)
			for i := range role {
				switch mode {
				case 0:
					role[i] = 0
				case 1:
					role[i] = 1
				default:
					role[i] = r.Intn(3)
				}
			}
			perm := make([]int, n)
			for i := range perm {
				perm[i] = i
			}
			hx.Shuffle(r, perm)
			cases = append(cases, c04Case{N: n, Edges: edges, Role: role, KeptAdd: r.Chance(1, 2), Perm: perm, Dialect: hx.Pick(r, []string{"mysql", "postgres", "mysql", "postgres", "tidb"}), Extra: r.Chance(1, 3)})
		}
		e.Res.Exhaustive = !e.Thorough()
		e.Res.Rule = fmt.Sprintf("all directed graphs with self loops on 1..%d tables x all 3^n splits created/dropped/kept x kept->kept edges added or dropped x input orders (all permutations for n<=3) x {mysql, postgres} (the 4-table space is sampled 1/8 per seed) + %d random graphs of 5..12 tables; for the first and last input order also with an unrelated column dropped in every ModifyTable; the planned order is replayed on a reference catalogue twice: as Source changes and as the planned statements (parsed CREATE/DROP/ALTER TABLE commands); scenarios with an edge between a created and a dropped table are skipped as inconsistent; non-trivial = change set with >= 2 changes and >= 1 foreign key; distinct by the whole case", maxN, nr)
	}
	parallel(e.Workers, len(cases), func(i int) {
		c := cases[i]
		changes, abs, ok := c.build()
		if !ok {
			e.Res.Tag("skipped-inconsistent")
			return
		}
		order, res := planOrderImpl(c.Dialect, changes, c.Mode)
		nfk := 0
		for _, a := range abs {
			nfk += len(a.FKs) + len(a.Subs)
		}
		var raw struct {
			Order []sortCh `json:"order"`
			Cycle bool     `json:"cycle"`
		}
		if err := pool.AskInto(map[string]any{"op": "sort.plan", "changes": abs}, &raw); err != nil {
			e.Res.Note("model error: %v", err)
			return
		}
		tags := []string{fmt.Sprintf("n:%d", c.N), "dialect:" + c.Dialect, fmt.Sprintf("cycle:%v", raw.Cycle)}
		e.Res.Count(hxJSON(c), len(abs) >= 2 && nfk >= 1, tags...)
		if raw.Cycle && c.N == 3 {
			e.Res.Sample(map[string]any{"case": c, "order": order}, 5)
		}
		okI, sig, what := c04Monitor(&c, abs, order, res)
		if okI && res == "ok" {
			// the same judgement on the planned COMMANDS
			if stmts, err := c04Plan(c.Dialect, changes, c.Mode); err == nil {
				okI, sig, what = c04StmtMonitor(&c, stmts)
			}
		}
		norm := func(xs []sortCh) string {
			ys := make([]sortCh, len(xs))
			for i, x := range xs {
				x.ID = 0
				if x.FKs == nil {
					x.FKs = []sortFK{}
				}
				if x.Subs == nil {
					x.Subs = []sortSub{}
				}
				// the order of sub-changes inside one ModifyTable is the planner's business (PostgreSQL
				// reorders them in place); only the top-level order is compared.
				x.Subs = append([]sortSub{}, x.Subs...)
				sort.Slice(x.Subs, func(a, b int) bool { return x.Subs[a].K+x.Subs[a].Sym < x.Subs[b].K+x.Subs[b].Sym })
				ys[i] = x
			}
			return hxJSON(ys)
		}
		same := res == "ok" && norm(order) == norm(raw.Order)
		if len(abs) > 12 || c.Dialect == "tidb" {
			same = true // sort.Slice is not stable beyond 12 elements / TiDB orders by priority: the monitor alone judges
		}
		if !same {
			e.Res.Disagree()
		}
		replay := map[string]any{"case": c, "changes": abs, "impl": order, "impl_result": res, "model": raw.Order}
		switch {
		case !okI:
			e.Res.Violate("failing-input", sig, what+" case="+hxJSON(c), "Props.C04 / corr sort.plan", replay)
		case !same:
			e.Res.Violate("no-failing-input-found", "corr-sort-mismatch", fmt.Sprintf("%s: implementation order %s vs model %s for %s", c.Dialect, trunc(norm(order), 400), trunc(norm(raw.Order), 400), hxJSON(c)), "correspondence Atlas.Sort.planOrder", replay)
		}
	})
	if e.Replay == "" {
		c04Repoint(e, pool)
	}
	return nil
}
