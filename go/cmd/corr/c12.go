package main

// C12: resuming a partially applied file whose applied part changed is refused, cleanly.
// Exhaustive enumeration: files of up to N statements x every partial progress k x every edit
// (change / insert / delete / swap at every index, truncate to every length), at API level, on the
// real Executor and on the Lean model; the property monitor is evaluated on the implementation's
// own output.

import (
	"encoding/json"
	"fmt"
	"os"
	"path/filepath"
	"strings"

	"ariga.io/atlas/sql/migrate"

	"verifharness/internal/hx"
)

func init() { commands["C12"] = runC12 }

type c12Case struct {
	Old    []string `json:"old"`
	K      int      `json:"k"`
	Edit   string   `json:"edit"`
	New    []string `json:"new"`
	Second bool     `json:"second_file"`
	// Delim: the file uses `-- atlas:delimiter \n\n` (statements separated by a blank line, the
	// delimiter is not part of the statement text), so a statement may hold several commands
	Delim bool `json:"custom_delimiter,omitempty"`
	// K2 > K: the resumed run (with the edited tail) fails again at statement K2, the tail is edited
	// once more (New2) and a third run must complete the file
	K2   int      `json:"k2,omitempty"`
	New2 []string `json:"new2,omitempty"`
}

func fileOfDelim(stmts []string) string {
	var b strings.Builder
	b.WriteString("-- atlas:delimiter \\n\\n\n")
	for _, s := range stmts {
		b.WriteString(s + "\n\n")
	}
	return b.String()
}

func fileOf(stmts []string) string {
	var b strings.Builder
	for _, s := range stmts {
		b.WriteString(s + "\n")
	}
	return b.String()
}

func (c *c12Case) toExec() *execCase {
	mk := func(st []string) []dirFile {
		d := []dirFile{{"1_a.sql", fileOf(st)}}
		if c.Delim {
			d = []dirFile{{"1_a.sql", fileOfDelim(st)}}
		}
		if c.Second {
			d = append(d, dirFile{"2_b.sql", "Z1;\n"})
		}
		return d
	}
	if c.K2 > 0 {
		// the index of the operation that executes statement K2 in the resumed run is found by c12FaultAt
		return &execCase{
			Dir: mk(c.Old), Cfg: MCfg{Order: "linear", Clean: true},
			Attempts: []caseTry{
				{Faults: []int{1 + 2*c.K}},
				{Faults: nil, Dir: mk(c.New)},
				{Faults: nil, Dir: mk(c.New2)},
				{Faults: nil},
			},
		}
	}
	// attempt 0: statement K (0-based) fails => Applied = K. op indices: 0 = start write, 1+2j = stmt j.
	return &execCase{
		Dir: mk(c.Old), Cfg: MCfg{Order: "linear", Clean: true},
		Attempts: []caseTry{
			{Faults: []int{1 + 2*c.K}},
			{Faults: nil, Dir: mk(c.New)},
			{Faults: nil},
			{Faults: nil},
		},
	}
}

func prefixEq(a, b []string, k int) bool {
	if len(a) < k || len(b) < k {
		return false
	}
	for i := 0; i < k; i++ {
		if a[i] != b[i] {
			return false
		}
	}
	return true
}

func revCore(rs []MRev) string {
	type core struct {
		V     string
		A, T  int
		Ph    []string
		E, Es string
	}
	out := []core{}
	for _, r := range rs {
		out = append(out, core{r.V, r.A, r.T, r.Ph, r.E, r.Es})
	}
	return hxJSON(out)
}

// c12Monitor is the property itself, evaluated on attempt outputs (of the implementation or of the model).
func c12Monitor(c *c12Case, at []AttemptOut) (ok bool, sig, what string) {
	if len(at) != 4 {
		return false, "shape", "expected 4 attempts"
	}
	for i, a := range at {
		if a.Res == "panic" {
			kind := "panic-on-resume"
			if i >= 2 {
				kind = "panic-after-tail-edit-resume"
			}
			if len(c.New) < c.K {
				kind = "panic-truncated-below-applied"
			}
			return false, kind, fmt.Sprintf("attempt %d crashed (index out of range) for old=%v k=%d new=%v", i, c.Old, c.K, c.New)
		}
	}
	if at[0].Res != "stmt" || len(at[0].Journal) != c.K {
		return false, "setup", fmt.Sprintf("setup attempt did not stop at statement %d: %s", c.K, at[0].Res)
	}
	if c.K == 0 {
		return true, "", "" // nothing applied: not a partially applied file
	}
	if c.K2 > 0 {
		if at[1].Res != "stmt" || hxJSON(at[1].Journal) != hxJSON(c.New[c.K:c.K2]) {
			return false, "setup", fmt.Sprintf("second attempt did not run statements %d..%d: %q %v", c.K, c.K2, at[1].Res, at[1].Journal)
		}
		want := append([]string{}, c.New2[c.K2:]...)
		if c.Second {
			want = append(want, "Z1;")
		}
		if at[2].Res != "ok" || hxJSON(at[2].Journal) != hxJSON(want) {
			return false, "tail-edit-not-resumed-after-second-failure", fmt.Sprintf("fail at %d, tail edit, resume fails at %d, tail edit: third run gives %q and executes %v, want %v (old=%v new=%v new2=%v)", c.K, c.K2, at[2].Res, at[2].Journal, want, c.Old, c.New, c.New2)
		}
		if len(at[3].Calls) != 0 {
			return false, "re-executed-after-completion", fmt.Sprintf("attempt 3 executed %v after the file was completed", at[3].Calls)
		}
		return true, "", ""
	}
	if !prefixEq(c.Old, c.New, c.K) {
		if !strings.HasPrefix(at[1].Res, "history:") {
			return false, "changed-prefix-not-refused", fmt.Sprintf("applied prefix changed but result is %q (old=%v k=%d new=%v)", at[1].Res, c.Old, c.K, c.New)
		}
		if len(at[1].Calls) != 0 {
			return false, "refused-but-executed", fmt.Sprintf("history-changed run executed %v", at[1].Calls)
		}
		if revCore(at[0].Revs) != revCore(at[1].Revs) {
			return false, "refused-but-history-touched", fmt.Sprintf("revisions changed: %s -> %s", revCore(at[0].Revs), revCore(at[1].Revs))
		}
		return true, "", ""
	}
	// only the tail was edited: the run resumes with the new tail.
	want := append([]string{}, c.New[c.K:]...)
	if c.Second {
		want = append(want, "Z1;")
	}
	if at[1].Res != "ok" || hxJSON(at[1].Journal) != hxJSON(want) {
		return false, "tail-edit-not-resumed", fmt.Sprintf("tail edit: result %q executed %v, want %v", at[1].Res, at[1].Journal, want)
	}
	for i := 2; i < 4; i++ {
		if len(at[i].Calls) != 0 {
			return false, "re-executed-after-completion", fmt.Sprintf("attempt %d executed %v after the file was completed", i, at[i].Calls)
		}
	}
	return true, "", ""
}

func c12Edits(old []string) []c12Case {
	var out []c12Case
	n := len(old)
	cp := func() []string { return append([]string{}, old...) }
	add := func(name string, nw []string) {
		out = append(out, c12Case{Old: old, Edit: name, New: nw})
	}
	add("none", cp())
	for i := 0; i < n; i++ {
		x := cp()
		x[i] = fmt.Sprintf("X%d;", i)
		add(fmt.Sprintf("change@%d", i), x)
		y := append(cp()[:i:i], cp()[i+1:]...)
		add(fmt.Sprintf("delete@%d", i), y)
		if i+1 < n {
			z := cp()
			z[i], z[i+1] = z[i+1], z[i]
			add(fmt.Sprintf("swap@%d", i), z)
		}
	}
	for i := 0; i <= n; i++ {
		x := append(cp()[:i:i], append([]string{fmt.Sprintf("N%d;", i)}, cp()[i:]...)...)
		add(fmt.Sprintf("insert@%d", i), x)
		// statement boundary moved: same concatenated text, different split (cumulative hash has no separator)
	}
	for l := 0; l < n; l++ {
		add(fmt.Sprintf("truncate@%d", l), cp()[:l])
	}
	// merge two neighbouring statements into one scanner statement is impossible with ';' delimiters,
	// but a statement can be split in two: "AB;" -> "A;" "B;" is covered by change+insert.
	return out
}

func runC12(e *Env) error {
	pool, err := hx.NewPool(e.Model, e.Workers)
	if err != nil {
		return err
	}
	defer pool.Close()
	maxN := 4
	if e.Thorough() {
		maxN = 6
	}
	var cases []c12Case
	if e.Replay != "" {
		var doc struct {
			Case struct {
				Case c12Case `json:"case"`
			} `json:"case"`
		}
		b, err := os.ReadFile(e.Replay)
		if err != nil {
			return err
		}
		if err := json.Unmarshal(b, &doc); err != nil {
			return err
		}
		cases = []c12Case{doc.Case.Case}
	} else {
		for n := 1; n <= maxN; n++ {
			old := make([]string, n)
			for i := range old {
				old[i] = fmt.Sprintf("A%d;", i)
			}
			for _, ed := range c12Edits(old) {
				for k := 0; k < n; k++ {
					for _, second := range []bool{false, true} {
						c := ed
						c.K, c.Second = k, second
						cases = append(cases, c)
					}
				}
			}
			// statements holding blanks, inside and outside a string literal: an applied statement whose white space
			// was edited (collapsed, a tab or a line break for a blank, inside the literal or between the words) is
			// a changed statement
			if n <= 3 {
				ws := make([]string, n)
				for i := range ws {
					ws[i] = fmt.Sprintf("S%d VALUES ('a  b', 'c d');", i)
				}
				for i := 0; i < n; i++ {
					for name, repl := range map[string]string{
						"ws-collapse-in-literal": fmt.Sprintf("S%d VALUES ('a b', 'c d');", i),
						"ws-tab-in-literal":      fmt.Sprintf("S%d VALUES ('a  b', 'c\td');", i),
						"ws-newline-in-literal":  fmt.Sprintf("S%d VALUES ('a  b', 'c\nd');", i),
						"ws-padding-in-literal":  fmt.Sprintf("S%d VALUES ('a  b ', 'c d');", i),
						"ws-between-words":       fmt.Sprintf("S%d  VALUES ('a  b', 'c d');", i),
						"ws-newline-for-blank":   fmt.Sprintf("S%d\nVALUES ('a  b', 'c d');", i),
					} {
						nw := append([]string{}, ws...)
						nw[i] = repl
						for k := 0; k < n; k++ {
							cases = append(cases, c12Case{Old: ws, K: k, Edit: fmt.Sprintf("%s@%d", name, i), New: nw, Second: (i+k)%2 == 0})
						}
					}
				}
			}
			// custom delimiter: a command moves across a statement boundary (the concatenated text, hence
			// the last cumulative checksum, stays the same)
			if n >= 2 {
				two := make([]string, n)
				for i := range two {
					two[i] = fmt.Sprintf("A%d;B%d;", i, i)
				}
				for i := 0; i+1 < n; i++ {
					fw := append([]string{}, two...)
					fw[i], fw[i+1] = fmt.Sprintf("A%d;", i), fmt.Sprintf("B%d;", i)+two[i+1]
					bw := append([]string{}, two...)
					bw[i], bw[i+1] = two[i]+fmt.Sprintf("A%d;", i+1), fmt.Sprintf("B%d;", i+1)
					for k := 0; k < n; k++ {
						cases = append(cases,
							c12Case{Old: two, K: k, Edit: fmt.Sprintf("resplit-forward@%d", i), New: fw, Delim: true},
							c12Case{Old: two, K: k, Edit: fmt.Sprintf("resplit-backward@%d", i), New: bw, Delim: true},
							c12Case{Old: two, K: k, Edit: "none", New: append([]string{}, two...), Delim: true, Second: true})
					}
				}
			}
			// two failures: fail at k, tail edited, the resumed run fails at k2 > k, tail edited again, third run
			for k := 1; k < n; k++ {
				for k2 := k + 1; k2 < n; k2++ {
					for _, delim := range []bool{false, true} {
						n1 := append([]string{}, old...)
						n1[n-1] = "T1;"
						n2 := append([]string{}, n1...)
						n2[n-1] = "T2;"
						if k2 < n-1 {
							n2[k2] = "U2;"
						}
						cases = append(cases, c12Case{Old: old, K: k, Edit: "tail-twice", New: n1, K2: k2, New2: n2, Delim: delim, Second: k2%2 == 0})
					}
				}
			}
		}
	}
	e.Res.Rule = fmt.Sprintf("exhaustive: files of 1..%d statements x partial progress k in [0,n) x {none, change/delete/swap/insert at every index, truncate to every length} x {alone, followed by a second file} + custom-delimiter files whose commands move across a statement boundary (same concatenated text) + two failures with two tail edits (fail at k, resume fails at k2 > k, third run); 4 attempts each (fail at k, edited+rehashed resume, two more runs); non-trivial = k>=1; distinct by (old,k,new,second)", maxN)
	e.Res.Exhaustive = e.Replay == ""
	if e.Replay == "" && e.Atlas != "" {
		c12CLI(e)
	}
	type job struct{ c c12Case }
	parallel(e.Workers, len(cases), func(i int) {
		c := cases[i]
		ec := c.toExec()
		if c.K2 > 0 {
			// dry run to locate the operation executing statement K2 in the resumed attempt
			probe, _, err := runExecImpl(ec, true)
			if err != nil || len(probe.Attempts) < 2 {
				return
			}
			seen, at := 0, -1
			for i, op := range probe.Attempts[1].Ops {
				if op == "stmt" {
					if seen == c.K2-c.K {
						at = i
						break
					}
					seen++
				}
			}
			if at < 0 {
				e.Res.Violate("failing-input", "tail-edit-not-resumed", fmt.Sprintf("resumed run after a tail edit does not reach statement %d: %s ops=%v (old=%v k=%d new=%v)", c.K2, probe.Attempts[1].Res, probe.Attempts[1].Ops, c.Old, c.K, c.New), "Props.C12", map[string]any{"case": c})
				return
			}
			ec.Attempts[1].Faults = []int{at}
		}
		impl, req, err := runExecImpl(ec, true)
		if err != nil {
			e.Res.Note("case error: %v", err)
			return
		}
		var model ExecAns
		if err := pool.AskInto(req, &model); err != nil {
			e.Res.Note("model error: %v", err)
			return
		}
		changed := !prefixEq(c.Old, c.New, c.K)
		tag := "tail-or-none"
		if changed {
			tag = "prefix-changed"
		}
		if len(c.New) < c.K {
			tag = "shorter-than-applied"
		}
		e.Res.Count(hxJSON(c), c.K >= 1, "edit:"+strings.SplitN(c.Edit, "@", 2)[0], "class:"+tag, "res:"+impl.Attempts[1].Res)
		e.Res.Sample(map[string]any{"case": c, "impl": impl.Attempts[1].Res}, 6)
		okI, sig, what := c12Monitor(&c, impl.Attempts)
		// one Executor kept over the attempts (the file edited in place) behaves like a fresh one per attempt
		if reuse, ok := runExecImplReuse(ec); ok {
			if sameR, diffR := sameAttempts(reuse.Attempts, impl.Attempts); !sameR && okI {
				okI, sig, what = false, "executor-reuse-differs", "an Executor kept over the attempts (the directory edited in place) behaves differently from a fresh one per attempt: "+diffR
			}
		}
		same, diff := sameAttempts(impl.Attempts, model.Attempts)
		if !same {
			e.Res.Disagree()
		}
		replay := map[string]any{"case": c, "impl": impl, "model": model}
		switch {
		case !okI:
			e.Res.Violate("failing-input", sig, what, "Props.C12 / corr exec", replay)
		case !same:
			// The implementation output satisfies the property monitor but the model no longer describes it.
			okM, _, _ := c12Monitor(&c, model.Attempts)
			_ = okM
			e.Res.Violate("no-failing-input-found", "corr-exec-mismatch", "implementation and model disagree: "+diff, "correspondence Atlas.Exec.executeN", replay)
		}
	})
	return nil
}

// c12CLI: the same property through the real binary and the real revision table (ent storage):
// a file of n statements fails at statement k under --tx-mode none; then
//   - the not yet applied tail is edited to another statement count (shorter / longer): the resumed run
//     must succeed, the revision row must read applied = total = the NEW count with the new file hash,
//     `migrate status` must report nothing pending and a further `migrate apply` must be a clean no-op;
//   - the applied part is edited: the run must be refused and the revision row stay byte-identical.
func c12CLI(e *Env) {
	type variant struct {
		name    string
		n, k    int
		newTail []string // statements replacing stmts[k:]
		prefix  bool     // edit the applied part instead
		trigger bool     // the second statement is a CREATE TRIGGER with inner semicolons (one statement for the SQLite driver's scanner)
	}
	vs := []variant{
		{"tail-shorter", 3, 1, []string{"INSERT INTO journal VALUES (0, 9);"}, false, false},
		{"tail-longer", 3, 1, []string{"INSERT INTO journal VALUES (0, 7);", "INSERT INTO journal VALUES (0, 8);", "INSERT INTO journal VALUES (0, 9);"}, false, false},
		{"tail-same-count", 3, 2, []string{"INSERT INTO journal VALUES (0, 9);"}, false, false},
		{"tail-longer-late", 4, 3, []string{"INSERT INTO journal VALUES (0, 8);", "INSERT INTO journal VALUES (0, 9);"}, false, false},
		{"prefix-edited", 3, 2, nil, true, false},
		// the applied part holds a statement only the driver's own scanner keeps in one piece
		{"tail-after-trigger", 4, 3, []string{"INSERT INTO journal VALUES (0, 8);", "INSERT INTO journal VALUES (0, 9);"}, false, true},
		{"tail-shorter-after-trigger", 4, 2, []string{"INSERT INTO journal VALUES (0, 9);"}, false, true},
	}
	for vi, v := range vs {
		dir := filepath.Join(e.Work, fmt.Sprintf("c12cli-%d", vi))
		os.RemoveAll(dir)
		os.MkdirAll(dir, 0o755)
		stmts := []string{"CREATE TABLE journal (f int, i int);"}
		for i := 1; i < v.n; i++ {
			stmts = append(stmts, fmt.Sprintf("INSERT INTO journal VALUES (0, %d);", i))
		}
		if v.trigger {
			stmts[1] = "CREATE TRIGGER journal_ai AFTER INSERT ON journal BEGIN UPDATE journal SET i = i WHERE 0; UPDATE journal SET f = f WHERE 0; END;"
		}
		bad := append([]string{}, stmts...)
		bad[v.k] = "INSERT INTO no_such_table VALUES (0, 0);"
		write := func(ss []string) {
			writeMigrationDir(filepath.Join(dir, "m"), []dirFile{{"1_f.sql", strings.Join(ss, "\n") + "\n"}})
		}
		write(bad)
		args := []string{"migrate", "apply", "--dir", "file://m", "--url", "sqlite://db.sqlite", "--tx-mode", "none"}
		o1 := runAtlas(e, dir, nil, args...)
		d1 := dumpDB(filepath.Join(dir, "db.sqlite"))
		e.Res.Count("c12cli:"+v.name, true, "cli:"+v.name)
		rep := map[string]any{"variant": v.name, "statements": v.n, "failed_at": v.k}
		if o1.Code == 0 || len(d1.Revs) != 1 || d1.Revs[0].Applied != v.k {
			e.Res.Violate("failing-input", "setup", fmt.Sprintf("CLI %s: the first run should stop at statement %d: exit %d revs %+v", v.name, v.k, o1.Code, d1.Revs), "Props.C12 CLI", rep)
			continue
		}
		if v.prefix {
			edited := append([]string{}, stmts...)
			edited[1] = "INSERT INTO journal VALUES (0, 99);"
			write(edited)
			// the dry run takes the same decision, and touches nothing
			dry := runAtlas(e, dir, nil, append(append([]string{}, args...), "--dry-run")...)
			dd := dumpDB(filepath.Join(dir, "db.sqlite"))
			if dry.Code == 0 || !strings.Contains(dry.Stderr+dry.Stdout, "changed") {
				e.Res.Violate("failing-input", "changed-prefix-not-refused-by-dry-run", fmt.Sprintf("CLI: an applied statement was edited but `migrate apply --dry-run` exits %d and prints: %s", dry.Code, trunc(dry.Stderr+dry.Stdout, 300)), "Props.C12 CLI", rep)
			} else if d1.canon(true) != dd.canon(true) {
				e.Res.Violate("failing-input", "refused-but-history-touched", fmt.Sprintf("CLI: the refused dry run changed the database:\n%s\nvs\n%s", trunc(d1.canon(true), 400), trunc(dd.canon(true), 400)), "Props.C12 CLI", rep)
			}
			o2 := runAtlas(e, dir, nil, args...)
			d2 := dumpDB(filepath.Join(dir, "db.sqlite"))
			if o2.Code == 0 || !strings.Contains(o2.Stderr+o2.Stdout, "changed") {
				e.Res.Violate("failing-input", "changed-prefix-not-refused", fmt.Sprintf("CLI: an applied statement was edited but `migrate apply` exits %d: %s", o2.Code, trunc(o2.Stderr+o2.Stdout, 200)), "Props.C12 CLI", rep)
			} else if d1.canon(true) != d2.canon(true) {
				e.Res.Violate("failing-input", "refused-but-history-touched", fmt.Sprintf("CLI: the refused run changed the database:\n%s\nvs\n%s", trunc(d1.canon(true), 400), trunc(d2.canon(true), 400)), "Props.C12 CLI", rep)
			}
			os.RemoveAll(dir)
			continue
		}
		fixed := append(append([]string{}, stmts[:v.k]...), v.newTail...)
		write(fixed)
		// the dry run resumes at the same statement: it lists the new tail, not the applied part, and touches nothing
		dry := runAtlas(e, dir, nil, append(append([]string{}, args...), "--dry-run")...)
		dd := dumpDB(filepath.Join(dir, "db.sqlite"))
		switch {
		case dry.Code != 0:
			e.Res.Violate("failing-input", "tail-edit-not-resumed", fmt.Sprintf("CLI %s: only the tail was edited but `migrate apply --dry-run` fails: %s", v.name, trunc(dry.Stderr+dry.Stdout, 300)), "Props.C12 CLI", rep)
		case d1.canon(true) != dd.canon(true):
			e.Res.Violate("failing-input", "dry-run-touched-database", fmt.Sprintf("CLI %s: the dry run changed the database:\n%s\nvs\n%s", v.name, trunc(d1.canon(true), 400), trunc(dd.canon(true), 400)), "Props.C12 CLI", rep)
		case strings.Contains(dry.Stdout, "CREATE TABLE journal") || !strings.Contains(dry.Stdout, v.newTail[len(v.newTail)-1]):
			e.Res.Violate("failing-input", "dry-run-resumes-elsewhere", fmt.Sprintf("CLI %s: %d statements are applied; the dry run should list exactly the new tail %v, it prints: %s", v.name, v.k, v.newTail, trunc(dry.Stdout, 500)), "Props.C12.tail_edit_resumes (CLI)", rep)
		}
		o2 := runAtlas(e, dir, nil, args...)
		d2 := dumpDB(filepath.Join(dir, "db.sqlite"))
		switch {
		case o2.Code != 0:
			e.Res.Violate("failing-input", "tail-edit-not-resumed", fmt.Sprintf("CLI %s: only the tail was edited but the resumed run fails: %s", v.name, trunc(o2.Stderr+o2.Stdout, 300)), "Props.C12 CLI", rep)
		case len(d2.Revs) != 1 || d2.Revs[0].Applied != len(fixed) || d2.Revs[0].Total != len(fixed) || d2.Revs[0].Error != "":
			e.Res.Violate("failing-input", "revision-stale-after-tail-edit", fmt.Sprintf("CLI %s: the file now has %d statements and all of them ran, the revision row reads %+v", v.name, len(fixed), d2.Revs), "Props.C12.tail_edit_resumes (CLI)", rep)
		default:
			// the recorded hash is the one of the edited file
			if ld, err := migrate.NewLocalDir(filepath.Join(dir, "m")); err == nil {
				if sum, err := ld.Checksum(); err == nil {
					if h, err := sum.SumByName("1_f.sql"); err == nil && h != d2.Revs[0].Hash {
						e.Res.Violate("failing-input", "revision-stale-after-tail-edit", fmt.Sprintf("CLI %s: the revision keeps the hash of the old file (%s, file %s)", v.name, d2.Revs[0].Hash, h), "Props.C12.tail_edit_resumes (CLI)", rep)
					}
				}
			}
			st := runAtlas(e, dir, nil, "migrate", "status", "--dir", "file://m", "--url", "sqlite://db.sqlite", "--format", "{{ .Status }}")
			o3 := runAtlas(e, dir, nil, args...)
			d3 := dumpDB(filepath.Join(dir, "db.sqlite"))
			if strings.TrimSpace(st.Stdout) != "OK" || o3.Code != 0 || d3.canon(true) != d2.canon(true) {
				e.Res.Violate("failing-input", "re-executed-after-completion", fmt.Sprintf("CLI %s: after the completed resume: status %q, another apply exits %d (%s), database changed: %v", v.name, strings.TrimSpace(st.Stdout), o3.Code, trunc(o3.Stderr, 200), d3.canon(true) != d2.canon(true)), "Props.C12 CLI", rep)
			}
		}
		os.RemoveAll(dir)
	}
}
