package main

// C03: schema exports are faithful. Random SQLite databases over the whole feature set (incl. column
// / index names containing SQL keywords, defaults with apostrophes, partial and expression indexes,
// inline UNIQUE constraints, composite keys in any order, generated columns, WITHOUT ROWID / STRICT)
// are inspected with the real CLI: `atlas schema inspect` (HCL) and `--format '{{ sql . }}'`.
// Each export is turned back into a database on a fresh file (HCL: `schema apply --to file://x.hcl`;
// SQL: executed statement by statement with an independent client); then the independent pragma
// catalogue of the re-created database must equal the original's, `atlas schema diff` must report no
// changes in both directions, and inspecting the unchanged database twice must give identical bytes.
// In-process: sqlite.MarshalHCL / EvalHCLBytes of the inspected schema must round trip (diff empty
// both ways); the statement kinds of the SQL export are compared with the Lean model.

import (
	"context"
	"fmt"
	"os"
	"path/filepath"
	"strings"
	"sync"

	"ariga.io/atlas/sql/migrate"
	"ariga.io/atlas/sql/schema"
	"ariga.io/atlas/sql/sqlite"
	"verifharness/internal/hx"
)

func init() { commands["C03"] = runC03 }

func runC03(e *Env) error {
	if e.Atlas == "" {
		return fmt.Errorf("atlas binary not given")
	}
	pool, err := hx.NewPool(e.Model, 4)
	if err != nil {
		return err
	}
	defer pool.Close()
	n := 150
	if e.Thorough() {
		n = 2000
	}
	e.Res.Rule = fmt.Sprintf("%d random SQLite databases (1-4 tables over the whole feature set, names containing keywords such as `elsewhere`, string defaults with leading/trailing/embedded apostrophes, partial/expression/descending indexes, inline UNIQUE, composite keys in any order, generated columns, WITHOUT ROWID/STRICT, self/cross/cyclic foreign keys): `atlas schema inspect` HCL and SQL exports, each re-created on a fresh database (HCL via schema apply, SQL via an independent client): pragma catalogue equal, `schema diff` empty both ways, double inspection byte-identical; in-process MarshalHCL/EvalHCLBytes round trip of the inspected schema; SQL export statement kinds == Lean model (CREATE TABLE + its CREATE INDEX statements per table); non-trivial = database with at least one index or foreign key; distinct by seed", n)
	var mu sync.Mutex
	viol := func(kind, sig, what, chk string, rep any) {
		mu.Lock()
		e.Res.Violate(kind, sig, what, chk, rep)
		mu.Unlock()
	}
	ctx := context.Background()
	parallel(e.Workers, n, func(ci int) {
		r := hx.NewRand(e.Seed, fmt.Sprintf("c03-%d", ci))
		g := &sqGen{r: r}
		s := g.schema(1 + r.Intn(4))
		// string defaults with apostrophes at the edges
		for _, t := range s.Tables {
			for i := range t.Cols {
				c := &t.Cols[i]
				if isTextType(c.Type) && c.Gen == "" && r.Chance(1, 4) {
					c.Default = hx.Pick(r, []string{"'''til tuesday'", "'s'''", "'rock ''n'' roll'", "'a''b'", "''''"})
				}
			}
		}
		ddl := s.DDL()
		dir := filepath.Join(e.Work, fmt.Sprintf("c03-%d", ci))
		os.MkdirAll(dir, 0o755)
		defer os.RemoveAll(dir)
		nontrivial := false
		for _, t := range s.Tables {
			if len(t.Idxs) > 0 || len(t.FKs) > 0 {
				nontrivial = true
			}
		}
		mu.Lock()
		e.Res.Count(fmt.Sprintf("c03-%d", ci), nontrivial, "tables:"+fmt.Sprint(len(s.Tables)))
		mu.Unlock()
		for _, v := range c03Run(ctx, e, pool, ddl, dir) {
			viol(v[0], v[1], v[2], v[3], map[string]any{"ddl": ddl})
		}
	})
	// hand-written databases: string literals in the places the inspector has to cut out of the stored CREATE
	// TABLE text (column CHECKs, generated expressions, partial-index predicates), with the characters that
	// matter there - a backslash at the end of a literal (SQLite has no backslash escapes), doubled quotes,
	// parentheses and commas inside literals - followed by further quoted text in the same statement
	for hi, h := range c03Handwritten() {
		dir := filepath.Join(e.Work, fmt.Sprintf("c03-hand-%d", hi))
		os.MkdirAll(dir, 0o755)
		e.Res.Count(fmt.Sprintf("c03-hand-%d", hi), true, "handwritten")
		for _, v := range c03Run(ctx, e, pool, h.ddl, dir) {
			if sig, ok := h.known[v[1]]; ok {
				v[1] = sig // the minimal witness of a recorded finding, under the symptom it is known by
			}
			viol(v[0], v[1], v[2], v[3], map[string]any{"ddl": h.ddl})
		}
		os.RemoveAll(dir)
	}
	e.Res.Note("atlas processes run: %d", cliRuns.Load())
	return nil
}

type c03Hand struct {
	ddl   []string
	known map[string]string // symptom signature -> signature of the recorded finding this case is the witness of
}

func c03Handwritten() []c03Hand {
	rewrap := map[string]string{"export-diff-not-empty": "generated-expression-with-backslash-literal-rewrapped"}
	keyword := map[string]string{"hcl-export-not-applicable": "check-keyword-inside-literal-taken-for-a-constraint", "sql-export-not-executable": "check-keyword-inside-literal-taken-for-a-constraint"}
	return []c03Hand{
		{ddl: []string{"CREATE TABLE `p` (`id` integer NOT NULL, `path` text NULL CHECK (path NOT LIKE '%\\'), `note` text NULL DEFAULT 'x', PRIMARY KEY (`id`))"}},
		{ddl: []string{"CREATE TABLE `p` (`id` integer NOT NULL, `path` text NULL CHECK (path NOT LIKE 'a\\_%' ESCAPE '\\'), `note` text NOT NULL DEFAULT 'it''s', `more` text NULL DEFAULT 'y', PRIMARY KEY (`id`))"}},
		{ddl: []string{"CREATE TABLE `g` (`id` integer NOT NULL, `path` text NULL, `unixp` text GENERATED ALWAYS AS (replace(path, '\\', '/')) STORED, `note` text NULL DEFAULT 'x', PRIMARY KEY (`id`))"}, known: rewrap},
		{ddl: []string{"CREATE TABLE `g` (`id` integer NOT NULL, `path` text NULL, `v` text GENERATED ALWAYS AS (path || '\\') VIRTUAL, `w` text GENERATED ALWAYS AS (path || ')') VIRTUAL, `note` text NULL DEFAULT '(', PRIMARY KEY (`id`))"}, known: rewrap},
		{ddl: []string{"CREATE TABLE `g` (`id` integer NOT NULL, `path` text NULL, `w` text GENERATED ALWAYS AS (path || ')') VIRTUAL, `u` text GENERATED ALWAYS AS (path || 'it''s (') STORED, `note` text NULL DEFAULT '(', PRIMARY KEY (`id`))"}},
		{ddl: []string{"CREATE TABLE `c` (`id` integer NOT NULL, `a` text NULL CHECK (a <> '),('), `b` text NULL CHECK (b <> 'it''s, (really)'), `note` text NULL DEFAULT ', (', PRIMARY KEY (`id`))"}},
		{ddl: []string{"CREATE TABLE `c` (`id` integer NOT NULL, `note` text NULL DEFAULT ', CHECK (', PRIMARY KEY (`id`))"}, known: keyword},
		{ddl: []string{"CREATE TABLE `i` (`id` integer NOT NULL, `path` text NULL, `note` text NULL DEFAULT 'x', PRIMARY KEY (`id`))", "CREATE INDEX `i_part` ON `i` (`path`) WHERE path <> '\\' AND note <> 'x'"}},
		// DDL as people type it: SQLite stores the statement verbatim, keywords in any letter case
		{ddl: []string{"create table lc (id integer primary key autoincrement, name text not null default 'x', n integer check (n > 0), unique (name))"}},
		{ddl: []string{"Create Table Mc (Id Integer Primary Key AutoIncrement, Name Text Not Null Default 'x' Collate Nocase, G Integer Generated Always As (Id * 2) Stored) Strict"}},
		// numeric defaults beyond 64 bits, in exponent form, negative, at the integer limits; partial indexes whose
		// predicate is written without parentheses
		{ddl: []string{"CREATE TABLE `n` (`id` integer NOT NULL, `a` real NULL DEFAULT 1e20, `b` numeric NULL DEFAULT 2.5e25, `c` real NULL DEFAULT -1e300, `d` integer NULL DEFAULT 9223372036854775807, `e` integer NULL DEFAULT -9223372036854775808, `f` real NULL DEFAULT 18446744073709551616, `g` real NULL DEFAULT 0.000001, PRIMARY KEY (`id`))"}},
		{ddl: []string{"CREATE TABLE `pi` (`id` integer NOT NULL, `deleted_at` text NULL, `n` integer NULL, PRIMARY KEY (`id`))", "CREATE INDEX `pi_live` ON `pi` (`n`) WHERE deleted_at IS NULL", "CREATE INDEX `pi_pos` ON `pi` (`id`) WHERE n > 0 AND deleted_at IS NULL", "CREATE INDEX `pi_par` ON `pi` (`n`, `id`) WHERE (n < 0)"}},
		{ddl: []string{"create table p (id integer primary key)", "create table wr (a integer not null, b text not null, p integer references p (id) on delete cascade, primary key (a, b)) without rowid", "create unique index wr_b on wr (b desc) where b <> ''"}},
	}
}

func c03Run(ctx context.Context, e *Env, pool *hx.Pool, ddl []string, dir string) (viols [][4]string) {
	add := func(kind, sig, what, chk string) { viols = append(viols, [4]string{kind, sig, what, chk}) }
	src := strings.Join(ddl, ";\n")
	dbp := filepath.Join(dir, "db.sqlite")
	if err := execSQL(dbp, ddl...); err != nil {
		return nil // generator: rejected by SQLite
	}
	db, _ := openSQLite(dbp, false)
	defer db.Close()
	orig, err := catalog(db)
	if err != nil {
		return nil
	}
	// ---- HCL export
	h1 := runAtlas(e, dir, nil, "schema", "inspect", "--url", "sqlite://db.sqlite")
	h2 := runAtlas(e, dir, nil, "schema", "inspect", "--url", "sqlite://db.sqlite")
	if h1.Code != 0 {
		add("failing-input", "inspect-fails", fmt.Sprintf("schema inspect fails: %s\n%s", trunc(h1.Stderr, 300), src), "Props.C03")
		return
	}
	if h1.Stdout != h2.Stdout {
		add("failing-input", "inspect-not-deterministic", fmt.Sprintf("two inspections of the unchanged database differ: %s\n%s", firstDiff(h1.Stdout, h2.Stdout), src), "Props.C03 deterministic")
	}
	os.WriteFile(filepath.Join(dir, "export.hcl"), []byte(h1.Stdout), 0o644)
	if o := runAtlas(e, dir, nil, "schema", "apply", "--url", "sqlite://fromhcl.sqlite", "--to", "file://export.hcl", "--auto-approve"); o.Code != 0 {
		add("failing-input", "hcl-export-not-applicable", fmt.Sprintf("the inspected HCL cannot be applied to an empty database: %s\nHCL:\n%s\ndatabase:\n%s", trunc(o.Stderr+o.Stdout, 400), trunc(h1.Stdout, 1200), src), "Props.C03 HCL export")
	} else {
		c03Compare(e, dir, "fromhcl.sqlite", "HCL export", orig, src, h1.Stdout, add)
	}
	// ---- SQL export
	s1 := runAtlas(e, dir, nil, "schema", "inspect", "--url", "sqlite://db.sqlite", "--format", "{{ sql . }}")
	if s1.Code != 0 {
		add("failing-input", "sql-inspect-fails", fmt.Sprintf("schema inspect --format sql fails: %s\n%s", trunc(s1.Stderr, 300), src), "Props.C03")
		return
	}
	stmts := splitSQLStmts(s1.Stdout)
	if err := execSQL(filepath.Join(dir, "fromsql.sqlite"), stmts...); err != nil {
		add("failing-input", "sql-export-not-executable", fmt.Sprintf("the SQL export fails on an empty database: %v\nexport:\n%s\ndatabase:\n%s", err, trunc(s1.Stdout, 1200), src), "Props.C03 SQL export")
	} else {
		c03Compare(e, dir, "fromsql.sqlite", "SQL export", orig, src, s1.Stdout, add)
	}
	// model: statement kinds of the SQL export
	drv, _ := sqlite.Open(db)
	if sc, err := inspectMain(ctx, drv); err == nil {
		var chs []map[string]any
		for _, t := range sc.Tables {
			chs = append(chs, map[string]any{"k": "addTable", "idx": len(t.Indexes)})
		}
		var ans struct {
			Shape []string `json:"shape"`
		}
		if err := pool.AskInto(map[string]any{"op": "plan.shape", "changes": chs}, &ans); err == nil {
			var got []string
			for _, st := range stmts {
				k := stmtKindOf(st)
				if k == "pragma" || k == "seq" {
					continue
				}
				got = append(got, k)
			}
			if fmt.Sprint(got) != fmt.Sprint(ans.Shape) {
				add("no-failing-input-found", "corr-export-shape-mismatch", fmt.Sprintf("SQL export statement kinds %v, model %v\n%s", got, ans.Shape, trunc(s1.Stdout, 600)), "correspondence Props.C03.export_shape")
			}
		}
		// in-process HCL round trip of the inspected schema
		c03InProcess(sc, src, add)
	}
	return
}

func c03Compare(e *Env, dir, file, what string, orig []string, src, export string, add func(kind, sig, what, chk string)) {
	db2, err := openSQLite(filepath.Join(dir, file), false)
	if err != nil {
		return
	}
	got, err := catalog(db2)
	db2.Close()
	if err != nil {
		return
	}
	if strings.Join(got, "\n") != strings.Join(orig, "\n") {
		add("failing-input", "export-recreates-other-database", fmt.Sprintf("the database re-created from the %s differs from the original (pragma catalogue): %s\nexport:\n%s\ndatabase:\n%s", what, catDiff(got, orig), trunc(export, 1500), src), "Props.C03 "+what)
	}
	for _, dirn := range [][2]string{{"db.sqlite", file}, {file, "db.sqlite"}} {
		o := runAtlas(e, dir, nil, "schema", "diff", "--from", "sqlite://"+dirn[0], "--to", "sqlite://"+dirn[1])
		if o.Code != 0 || !strings.Contains(o.Stdout, "Schemas are synced") {
			add("failing-input", "export-diff-not-empty", fmt.Sprintf("%s: `schema diff --from %s --to %s` reports (exit %d):\n%s\ndatabase:\n%s", what, dirn[0], dirn[1], o.Code, trunc(o.Stdout+o.Stderr, 600), src), "Props.C03 "+what)
		}
	}
}

func c03InProcess(sc *schema.Schema, src string, add func(kind, sig, what, chk string)) {
	defer func() {
		if p := recover(); p != nil {
			add("failing-input", "hcl-roundtrip-panics", fmt.Sprintf("MarshalHCL/EvalHCLBytes panics: %v\n%s", p, src), "Props.C03 in-process")
		}
	}()
	hcl, err := sqlite.MarshalHCL(sc)
	if err != nil {
		add("failing-input", "marshal-fails", fmt.Sprintf("MarshalHCL of the inspected schema fails: %v\n%s", err, src), "Props.C03 in-process")
		return
	}
	var back schema.Schema
	if err := sqlite.EvalHCLBytes(hcl, &back, nil); err != nil {
		add("failing-input", "eval-fails", fmt.Sprintf("EvalHCLBytes of the marshalled inspection fails: %v\n%s\n%s", err, trunc(string(hcl), 800), src), "Props.C03 in-process")
		return
	}
	for _, p := range [][2]*schema.Schema{{sc, &back}, {&back, sc}} {
		cs, err := sqlite.DefaultDiff.SchemaDiff(p[0], p[1], schema.DiffNormalized())
		if err != nil || len(cs) > 0 {
			add("failing-input", "hcl-roundtrip-differs", fmt.Sprintf("inspected schema vs its evaluated HCL: %v %s\n%s\n%s", err, kindsStr(cs), trunc(string(hcl), 800), src), "Props.C03 in-process")
			return
		}
	}
}

// splitSQLStmts splits the SQL export into statements (strings and parentheses aware).
func splitSQLStmts(s string) []string {
	stmts, err := migrate.Stmts(s)
	if err == nil && len(stmts) > 0 {
		// independent splitter below is preferred; migrate.Stmts is only a cross-check of the count
		_ = stmts
	}
	var out []string
	var cur strings.Builder
	inq := byte(0)
	lines := strings.Split(s, "\n")
	for _, l := range lines {
		if inq == 0 && strings.HasPrefix(strings.TrimSpace(l), "--") {
			continue
		}
		for i := 0; i < len(l); i++ {
			c := l[i]
			switch {
			case inq != 0:
				if c == inq {
					inq = 0
				}
			case c == '\'' || c == '"' || c == '`':
				inq = c
			case c == ';':
				if t := strings.TrimSpace(cur.String()); t != "" {
					out = append(out, t)
				}
				cur.Reset()
				continue
			}
			cur.WriteByte(c)
		}
		cur.WriteByte('\n')
	}
	if t := strings.TrimSpace(cur.String()); t != "" {
		out = append(out, t)
	}
	return out
}
