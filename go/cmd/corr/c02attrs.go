package main

import (
	"fmt"
	"sync"

	"ariga.io/atlas/sql/mysql"
	"ariga.io/atlas/sql/postgres"
	"ariga.io/atlas/sql/schema"
)

// c02Attrs: dialect-specific attributes that are part of what the differ compares, each over a full grid of
// ordered pairs (so every edit is tried in both directions): PostgreSQL IDENTITY columns (presence,
// generation, sequence start and increment with their defaults), the NO INHERIT flag of PostgreSQL checks,
// the ENFORCED flag of MySQL checks and the MySQL table engine. A pair that differs after normalising the
// documented defaults is reported (exactly one ModifyColumn with ChangeAttr / ModifyCheck / ModifyAttr), a
// pair that does not differ yields nothing.
func c02Attrs(e *Env, viol func(kind, sig, what, chk string, rep any), mu *sync.Mutex) {
	count := func(id string, nontrivial bool, tag string) {
		mu.Lock()
		e.Res.Count("attrs/"+id, nontrivial, tag, "attr-grid")
		mu.Unlock()
	}
	flat := func(cs []schema.Change) (out []schema.Change) {
		for _, ch := range cs {
			if mt, ok := ch.(*schema.ModifyTable); ok {
				out = append(out, mt.Changes...)
			} else {
				out = append(out, ch)
			}
		}
		return
	}
	// --- PostgreSQL identity ---
	type ident struct {
		name       string
		has        bool
		gen        string
		seq        bool
		start, inc int64
	}
	ids := []ident{
		{name: "none"},
		{name: "identity (all defaults)", has: true},
		{name: "BY DEFAULT, empty sequence", has: true, gen: "BY DEFAULT", seq: true},
		{name: "BY DEFAULT start 1 increment 1", has: true, gen: "BY DEFAULT", seq: true, start: 1, inc: 1},
		{name: "ALWAYS", has: true, gen: "ALWAYS"},
		{name: "start 5", has: true, seq: true, start: 5},
		{name: "start 100", has: true, seq: true, start: 100},
		{name: "increment 2", has: true, seq: true, inc: 2},
		{name: "start 5 increment 2", has: true, seq: true, start: 5, inc: 2},
		{name: "ALWAYS start 100", has: true, gen: "ALWAYS", seq: true, start: 100},
	}
	normI := func(i ident) string {
		if !i.has {
			return "none"
		}
		g, s, n := i.gen, i.start, i.inc
		if g == "" {
			g = "BY DEFAULT"
		}
		if s == 0 {
			s = 1
		}
		if n == 0 {
			n = 1
		}
		return fmt.Sprintf("%s/%d/%d", g, s, n)
	}
	buildI := func(i ident) *schema.Schema {
		s := schema.New("public")
		t := schema.NewTable("t").SetSchema(s)
		c := schema.NewIntColumn("id", "bigint")
		if i.has {
			a := &postgres.Identity{Generation: i.gen}
			if i.seq {
				a.Sequence = &postgres.Sequence{Start: i.start, Increment: i.inc}
			}
			c.AddAttrs(a)
		}
		t.AddColumns(c, schema.NewIntColumn("n", "integer"))
		s.AddTables(t)
		return s
	}
	for _, a := range ids {
		for _, b := range ids {
			id := fmt.Sprintf("postgres identity: %s -> %s", a.name, b.name)
			want := normI(a) != normI(b)
			count(id, want, "dialect:postgres")
			rep := map[string]any{"dialect": "postgres", "case": id}
			cs, err := postgres.DefaultDiff.SchemaDiff(buildI(a), buildI(b), schema.DiffNormalized())
			if err != nil {
				viol("failing-input", "diff-error", fmt.Sprintf("%s: SchemaDiff fails: %v", id, err), "Props.C02", rep)
				continue
			}
			fl := flat(cs)
			switch {
			case !want && len(fl) > 0:
				viol("failing-input", "spurious-change", fmt.Sprintf("%s: the two identity attributes are the same after defaults, SchemaDiff reports %d changes", id, len(fl)), "Props.C02 exactness", rep)
			case want:
				mc, ok := one[*schema.ModifyColumn](fl)
				if !ok || mc.From.Name != "id" || mc.Change != schema.ChangeAttr {
					viol("failing-input", "diff-not-exact", fmt.Sprintf("%s: the identity attribute of column id was edited (%s -> %s), SchemaDiff reports %d changes %s", id, normI(a), normI(b), len(fl), describeChanges(fl)), "Props.C02 exactness", rep)
				}
			}
		}
	}
	// --- check flags: PostgreSQL NO INHERIT, MySQL [NOT] ENFORCED ---
	type chk struct {
		dialect string
		name    string
		attr    func(on bool) []schema.Attr
		diff    func(from, to *schema.Schema) ([]schema.Change, error)
		// the flag value that equals "attribute absent"
		absentIs bool
	}
	chks := []chk{
		{"postgres", "NO INHERIT", func(on bool) []schema.Attr {
			if on {
				return []schema.Attr{&postgres.NoInherit{}}
			}
			return nil
		}, func(f, t *schema.Schema) ([]schema.Change, error) {
			return postgres.DefaultDiff.SchemaDiff(f, t, schema.DiffNormalized())
		}, false},
		{"mysql", "ENFORCED", func(on bool) []schema.Attr { return []schema.Attr{&mysql.Enforced{V: on}} }, func(f, t *schema.Schema) ([]schema.Change, error) {
			return mysql.DefaultDiff.SchemaDiff(f, t, schema.DiffNormalized())
		}, true},
	}
	for _, k := range chks {
		buildC := func(on bool, named bool) *schema.Schema {
			s := schema.New("public")
			if k.dialect == "mysql" {
				s.SetCharset("utf8mb4").SetCollation("utf8mb4_bin")
			}
			t := schema.NewTable("t").SetSchema(s)
			if k.dialect == "mysql" {
				t.SetCharset("utf8mb4").SetCollation("utf8mb4_bin")
			}
			t.AddColumns(schema.NewIntColumn("id", "int"), schema.NewIntColumn("n", "int"))
			c := &schema.Check{Expr: "(n > 0)", Attrs: k.attr(on)}
			if named {
				c.Name = "n_positive"
			}
			t.AddChecks(c, &schema.Check{Name: "id_positive", Expr: "(id > 0)"})
			s.AddTables(t)
			return s
		}
		for _, named := range []bool{true, false} {
			for _, a := range []bool{false, true} {
				for _, b := range []bool{false, true} {
					id := fmt.Sprintf("%s check flag %s: %v -> %v (named=%v)", k.dialect, k.name, a, b, named)
					want := a != b
					count(id, want, "dialect:"+k.dialect)
					rep := map[string]any{"dialect": k.dialect, "case": id}
					cs, err := k.diff(buildC(a, named), buildC(b, named))
					if err != nil {
						viol("failing-input", "diff-error", fmt.Sprintf("%s: SchemaDiff fails: %v", id, err), "Props.C02", rep)
						continue
					}
					fl := flat(cs)
					switch {
					case !want && len(fl) > 0:
						viol("failing-input", "spurious-change", fmt.Sprintf("%s: SchemaDiff reports %d changes %s", id, len(fl), describeChanges(fl)), "Props.C02 exactness", rep)
					case want && named:
						if mc, ok := one[*schema.ModifyCheck](fl); !ok || mc.From.Name != "n_positive" {
							viol("failing-input", "diff-not-exact", fmt.Sprintf("%s: the flag of check n_positive was flipped, SchemaDiff reports %s", id, describeChanges(fl)), "Props.C02 exactness", rep)
						}
					case want:
						// an unnamed check whose flag differs is another check: dropped and added
						d, okd := 0, true
						for _, c := range fl {
							switch c.(type) {
							case *schema.DropCheck, *schema.AddCheck, *schema.ModifyCheck:
								d++
							default:
								okd = false
							}
						}
						if !okd || d == 0 {
							viol("failing-input", "diff-not-exact", fmt.Sprintf("%s: the flag of the unnamed check was flipped, SchemaDiff reports %s", id, describeChanges(fl)), "Props.C02 exactness", rep)
						}
					}
				}
			}
		}
	}
	// --- MySQL ENUM / SET value lists (labels are compared exactly: order and letter case matter) ---
	lists := [][]string{{"on", "off"}, {"ON", "off"}, {"off", "on"}, {"on", "off", "x"}, {"on"}, {"On", "Off"}}
	for _, kind := range []string{"enum", "set"} {
		mk := func(vals []string) *schema.Schema {
			s := schema.New("public").SetCharset("utf8mb4").SetCollation("utf8mb4_bin")
			t := schema.NewTable("t").SetSchema(s).SetCharset("utf8mb4").SetCollation("utf8mb4_bin")
			var ty schema.Type = &schema.EnumType{T: "enum", Values: append([]string{}, vals...)}
			if kind == "set" {
				ty = &mysql.SetType{Values: append([]string{}, vals...)}
			}
			t.AddColumns(schema.NewIntColumn("id", "int"), schema.NewColumn("c").SetType(ty).SetCharset("utf8mb4").SetCollation("utf8mb4_bin"))
			s.AddTables(t)
			return s
		}
		for _, a := range lists {
			for _, b := range lists {
				id := fmt.Sprintf("mysql %s values: %v -> %v", kind, a, b)
				want := fmt.Sprint(a) != fmt.Sprint(b)
				count(id, want, "dialect:mysql")
				rep := map[string]any{"dialect": "mysql", "case": id}
				cs, err := mysql.DefaultDiff.SchemaDiff(mk(a), mk(b), schema.DiffNormalized())
				if err != nil {
					viol("failing-input", "diff-error", fmt.Sprintf("%s: SchemaDiff fails: %v", id, err), "Props.C02", rep)
					continue
				}
				fl := flat(cs)
				switch {
				case !want && len(fl) > 0:
					viol("failing-input", "spurious-change", fmt.Sprintf("%s: SchemaDiff reports %s", id, describeChanges(fl)), "Props.C02 exactness", rep)
				case want:
					if mc, ok := one[*schema.ModifyColumn](fl); !ok || mc.From.Name != "c" || mc.Change != schema.ChangeType {
						viol("failing-input", "diff-not-exact", fmt.Sprintf("%s: the value list of column c was edited, SchemaDiff reports %s", id, describeChanges(fl)), "Props.C02 exactness", rep)
					}
				}
			}
		}
	}
	// --- MySQL integer types: every ordered pair of width x signedness ---
	ints := []struct {
		t        string
		unsigned bool
	}{{"int", false}, {"int", true}, {"bigint", false}, {"bigint", true}, {"smallint", false}, {"tinyint", true}}
	for _, a := range ints {
		for _, b := range ints {
			mk := func(x struct {
				t        string
				unsigned bool
			}) *schema.Schema {
				s := schema.New("public").SetCharset("utf8mb4").SetCollation("utf8mb4_bin")
				t := schema.NewTable("t").SetSchema(s).SetCharset("utf8mb4").SetCollation("utf8mb4_bin")
				t.AddColumns(schema.NewIntColumn("id", "int"), schema.NewColumn("c").SetType(&schema.IntegerType{T: x.t, Unsigned: x.unsigned}))
				s.AddTables(t)
				return s
			}
			id := fmt.Sprintf("mysql integer type: %s unsigned=%v -> %s unsigned=%v", a.t, a.unsigned, b.t, b.unsigned)
			want := a != b
			count(id, want, "dialect:mysql")
			rep := map[string]any{"dialect": "mysql", "case": id}
			cs, err := mysql.DefaultDiff.SchemaDiff(mk(a), mk(b), schema.DiffNormalized())
			if err != nil {
				viol("failing-input", "diff-error", fmt.Sprintf("%s: SchemaDiff fails: %v", id, err), "Props.C02", rep)
				continue
			}
			fl := flat(cs)
			switch {
			case !want && len(fl) > 0:
				viol("failing-input", "spurious-change", fmt.Sprintf("%s: SchemaDiff reports %s", id, describeChanges(fl)), "Props.C02 exactness", rep)
			case want:
				if mc, ok := one[*schema.ModifyColumn](fl); !ok || mc.From.Name != "c" || mc.Change != schema.ChangeType {
					viol("failing-input", "diff-not-exact", fmt.Sprintf("%s: the type of column c was edited, SchemaDiff reports %s", id, describeChanges(fl)), "Props.C02 exactness", rep)
				}
			}
		}
	}
	// --- MySQL table engine ---
	engines := []string{"", "InnoDB", "innodb", "MyISAM", "MEMORY"}
	normE := func(s string) string {
		switch s {
		case "", "InnoDB", "innodb":
			return "innodb"
		}
		return s
	}
	buildE := func(en string) *schema.Schema {
		s := schema.New("public").SetCharset("utf8mb4").SetCollation("utf8mb4_bin")
		t := schema.NewTable("t").SetSchema(s).SetCharset("utf8mb4").SetCollation("utf8mb4_bin")
		t.AddColumns(schema.NewIntColumn("id", "int"))
		if en != "" {
			t.AddAttrs(&mysql.Engine{V: en})
		}
		s.AddTables(t)
		return s
	}
	for _, a := range engines {
		if a == "" {
			continue // an inspected table always carries its engine; what an absent one stands for is the server's business
		}
		for _, b := range engines {
			id := fmt.Sprintf("mysql engine: %q -> %q", a, b)
			want := normE(a) != normE(b)
			count(id, want, "dialect:mysql")
			rep := map[string]any{"dialect": "mysql", "case": id}
			cs, err := mysql.DefaultDiff.SchemaDiff(buildE(a), buildE(b), schema.DiffNormalized())
			if err != nil {
				viol("failing-input", "diff-error", fmt.Sprintf("%s: SchemaDiff fails: %v", id, err), "Props.C02", rep)
				continue
			}
			fl := flat(cs)
			switch {
			case !want && len(fl) > 0:
				viol("failing-input", "spurious-change", fmt.Sprintf("%s: SchemaDiff reports %s", id, describeChanges(fl)), "Props.C02 exactness", rep)
			case want:
				if ma, ok := one[*schema.ModifyAttr](fl); !ok {
					viol("failing-input", "diff-not-exact", fmt.Sprintf("%s: the engine was changed, SchemaDiff reports %s", id, describeChanges(fl)), "Props.C02 exactness", rep)
				} else if en, ok := ma.To.(*mysql.Engine); !ok || normE(en.V) != normE(b) {
					viol("failing-input", "diff-not-exact", fmt.Sprintf("%s: the engine was changed, the reported ModifyAttr does not lead to %q", id, b), "Props.C02 exactness", rep)
				}
			}
		}
	}
}

func one[T schema.Change](cs []schema.Change) (T, bool) {
	var zero T
	if len(cs) != 1 {
		return zero, false
	}
	v, ok := cs[0].(T)
	return v, ok
}

func describeChanges(cs []schema.Change) string {
	var out []string
	for _, c := range cs {
		if mc, ok := c.(*schema.ModifyColumn); ok {
			out = append(out, fmt.Sprintf("ModifyColumn(%s, bits %b)", mc.From.Name, mc.Change))
			continue
		}
		out = append(out, fmt.Sprintf("%T", c))
	}
	return fmt.Sprint(out)
}
