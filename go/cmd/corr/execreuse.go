package main

import (
	"context"
	"sort"

	"ariga.io/atlas/sql/migrate"
)

// runExecImplReuse: the same run with ONE Executor (and one directory value, edited in place) for all attempts -
// what a long-lived process that retries does. Not applicable (ok=false) when an attempt changes the set of
// file names (a MemDir cannot forget a file).
func runExecImplReuse(c *execCase) (ans *ExecAns, ok bool) {
	w := &recWorld{revs: map[string]*migrate.Revision{}}
	for _, r := range c.Revs {
		w.revs[r.V] = fromMRev(r)
	}
	dir, err := buildDir(c.Dir)
	if err != nil {
		return nil, false
	}
	names := func(fs []dirFile) string {
		var ns []string
		for _, f := range fs {
			ns = append(ns, f.Name)
		}
		sort.Strings(ns)
		return hxJSON(ns)
	}
	opts := []migrate.ExecutorOption{migrate.WithExecOrder(orderOpt(c.Cfg.Order)), migrate.WithAllowDirty(c.Cfg.Dirty)}
	if c.Cfg.Baseline != "" {
		opts = append(opts, migrate.WithBaselineVersion(c.Cfg.Baseline))
	}
	ex, err := migrate.NewExecutor(&recDriver{w: w, clean: c.Cfg.Clean}, dir, &recRRW{w}, opts...)
	if err != nil {
		return nil, false
	}
	ans = &ExecAns{}
	cur := c.Dir
	for _, a := range c.Attempts {
		if a.Dir != nil {
			if names(a.Dir) != names(cur) {
				return nil, false
			}
			for _, f := range a.Dir {
				if err := dir.WriteFile(f.Name, []byte(f.Content)); err != nil {
					return nil, false
				}
			}
			sum, err := dir.Checksum()
			if err != nil {
				return nil, false
			}
			if err := migrate.WriteSumFile(dir, sum); err != nil {
				return nil, false
			}
			cur = a.Dir
		}
		w.tick, w.faults, w.ops = 0, map[int]bool{}, nil
		for _, f := range a.Faults {
			w.faults[f] = true
		}
		nc, nj := len(w.calls), len(w.journal)
		res := func() (res string) {
			defer func() {
				if p := recover(); p != nil {
					res = "panic"
				}
			}()
			return classify(ex.ExecuteN(context.Background(), c.N))
		}()
		ans.Attempts = append(ans.Attempts, AttemptOut{Res: res,
			Calls: append([]string{}, w.calls[nc:]...), Journal: append([]string{}, w.journal[nj:]...),
			Revs: w.snapshot(), Ops: append([]string{}, w.ops...)})
	}
	return ans, true
}
