package main

import (
	"context"
	"database/sql"
	"errors"
	"fmt"
	"strings"

	"ariga.io/atlas/sql/migrate"
	"ariga.io/atlas/sql/postgres"
)

// C14 for a PostgreSQL dev database: the real driver (Open, Snapshot, inspection, differ, planner,
// ApplyChanges, restore function) runs against the in-memory stand-in fakePG. A dev database that is not
// clean must be refused without a write; an accepted one must be handed back exactly as it was after a
// replay that succeeds or fails at any statement.
func c14PG(e *Env) {
	type initial struct {
		name  string
		setup []string
		clean bool
	}
	inits := []initial{
		{"only the empty public schema", nil, true},
		{"no schema at all", []string{`DROP SCHEMA "public"`}, true},
		{"public with an enum type and no table", []string{`CREATE TYPE "public"."kept" AS ENUM ('x')`}, true},
		{"public with a table", []string{`CREATE TABLE "public"."old" ("id" integer)`}, false},
		{"public with a table and a type", []string{`CREATE TYPE "public"."kept" AS ENUM ('x')`, `CREATE TABLE "public"."old" ("id" integer)`}, false},
		{"public and another schema", []string{`CREATE SCHEMA "other"`}, false},
		{"only another schema", []string{`DROP SCHEMA "public"`, `CREATE SCHEMA "other"`}, false},
	}
	replays := [][]string{
		{},
		{`CREATE TYPE "public"."status" AS ENUM ('a', 'b')`},
		{`CREATE TYPE "public"."status" AS ENUM ('a', 'b')`, `CREATE TABLE "public"."t" ("id" integer)`},
		{`CREATE TABLE "public"."t1" ("id" integer)`, `CREATE TABLE "public"."t2" ("id" integer)`},
		{`CREATE TYPE "public"."s1" AS ENUM ('a')`, `CREATE TYPE "public"."s2" AS ENUM ('b')`},
		{`CREATE SCHEMA "extra"`, `CREATE TABLE "extra"."t" ("id" integer)`, `CREATE TYPE "extra"."e" AS ENUM ('a')`},
		{`CREATE SCHEMA "extra"`, `CREATE TYPE "public"."status" AS ENUM ('a')`},
	}
	ctx := context.Background()
	for _, in := range inits {
		for ri, rp := range replays {
			if !in.clean && ri > 0 {
				continue
			}
			if strings.HasPrefix(in.name, "no schema") {
				// statements into public need the schema
				rp = append([]string{`CREATE SCHEMA "public"`}, rp...)
			}
			for failAt := -1; failAt < len(rp); failAt++ {
				f := newFakePG()
				db := sql.OpenDB(f)
				for _, s := range in.setup {
					db.Exec(s)
				}
				f.Execs, f.Unknown = nil, nil
				before := f.State()
				id := fmt.Sprintf("pg: %s; replay %d failing at %d", in.name, ri, failAt)
				rep := map[string]any{"case": id, "initial": in.setup, "replay": rp, "fail_at": failAt}
				e.Res.Count("pg/"+id, true, "pg-dev", fmt.Sprintf("pg-clean:%v", in.clean))
				drv, err := postgres.Open(db)
				if err != nil {
					e.Res.Violate("no-failing-input-found", "fakepg-open-fails", fmt.Sprintf("%s: postgres.Open on the stand-in fails: %v", id, err), "correspondence C14 pg", rep)
					db.Close()
					return
				}
				restore, err := drv.(migrate.Snapshoter).Snapshot(ctx)
				var nc *migrate.NotCleanError
				switch {
				case !in.clean:
					if err == nil || !errors.As(err, &nc) {
						e.Res.Violate("failing-input", "non-empty-dev-accepted", fmt.Sprintf("%s: Snapshot accepts a dev database that is not clean (err=%v)", id, err), "Props.C14.refuse_nonempty (pg)", rep)
					}
					if len(f.Execs) > 0 || f.State() != before {
						e.Res.Violate("failing-input", "non-empty-dev-modified", fmt.Sprintf("%s: a refused dev database was written to: %v", id, f.Execs), "Props.C14.refuse_nonempty (pg)", rep)
					}
					db.Close()
					continue
				case err != nil:
					e.Res.Violate("failing-input", "command-fails-on-clean-input", fmt.Sprintf("%s: Snapshot refuses a clean dev database: %v (unknown: %v)", id, err, f.Unknown), "Props.C14.accepted_iff_empty (pg)", rep)
					db.Close()
					continue
				}
				// the replay
				for k, s := range rp {
					if k == failAt {
						break // this statement fails: the replay stops here
					}
					if _, err := db.ExecContext(ctx, s); err != nil {
						break
					}
				}
				f.Execs = nil
				rerr := restore(ctx)
				after := f.State()
				if rerr != nil {
					e.Res.Violate("failing-input", "restore-fails", fmt.Sprintf("%s: the restore function fails: %v (statements: %v, unknown: %v)", id, rerr, f.Execs, f.Unknown), "Props.C14.returns_empty (pg)", rep)
				} else if after != before {
					e.Res.Violate("failing-input", "dev-not-returned-empty", fmt.Sprintf("%s: the dev database is handed back as {%s}, it was {%s}; clean-up statements: %v", id, after, before, f.Execs), "Props.C14.returns_empty (pg)", rep)
				}
				if len(f.Unknown) > 0 {
					e.Res.Note("fakepg: unknown statements in %s: %v", id, f.Unknown)
				}
				db.Close()
			}
		}
	}
}

// c14PGSchema: the restore function of a SCHEMA-bound PostgreSQL dev connection (dev URL with search_path):
// whatever a replay leaves in the schema - tables, types, a view on top of a table (which the community
// inspector does not list, so only a cascading drop removes it) - the schema is handed back as it was.
func c14PGSchema(e *Env) {
	replays := [][]string{
		{`CREATE TABLE "public"."t" ("id" integer)`},
		{`CREATE TYPE "public"."status" AS ENUM ('a')`, `CREATE TABLE "public"."t" ("id" integer)`},
		{`CREATE TABLE "public"."t" ("id" integer)`, `CREATE VIEW "public"."v" AS SELECT "id" FROM "public"."t"`},
		{`CREATE TABLE "public"."t1" ("id" integer)`, `CREATE TABLE "public"."t2" ("id" integer)`, `CREATE VIEW "public"."v2" AS SELECT "id" FROM "public"."t2"`},
	}
	ctx := context.Background()
	for ri, rp := range replays {
		for failAt := -1; failAt < len(rp); failAt++ {
			f := newFakePG()
			db := sql.OpenDB(f)
			before := f.State()
			id := fmt.Sprintf("pg schema-bound: replay %d failing at %d", ri, failAt)
			rep := map[string]any{"case": id, "replay": rp, "fail_at": failAt}
			e.Res.Count("pg/"+id, true, "pg-dev", "pg-schema-bound")
			drv, err := postgres.Open(db)
			if err != nil {
				db.Close()
				return
			}
			pd, ok := drv.(*postgres.Driver)
			if !ok {
				db.Close()
				return
			}
			desired, err := pd.InspectSchema(ctx, "public", nil)
			if err != nil {
				e.Res.Violate("no-failing-input-found", "fakepg-inspect-fails", fmt.Sprintf("%s: InspectSchema on the stand-in fails: %v (%v)", id, err, f.Unknown), "correspondence C14 pg", rep)
				db.Close()
				continue
			}
			restore := pd.SchemaRestoreFunc(desired)
			for k, s := range rp {
				if k == failAt {
					break
				}
				db.ExecContext(ctx, s)
			}
			f.Execs = nil
			rerr := restore(ctx)
			if after := f.State(); rerr != nil {
				e.Res.Violate("failing-input", "restore-fails", fmt.Sprintf("%s: the restore function of the schema-bound connection fails: %v (statements: %v)", id, rerr, f.Execs), "Props.C14.returns_empty (pg)", rep)
			} else if after != before {
				e.Res.Violate("failing-input", "dev-not-returned-empty", fmt.Sprintf("%s: the dev schema is handed back as {%s}, it was {%s}; clean-up statements: %v", id, after, before, f.Execs), "Props.C14.returns_empty (pg)", rep)
			}
			db.Close()
		}
	}
}
