package main

import (
	"fmt"
	"sync"

	"ariga.io/atlas/sql/mysql"
	"ariga.io/atlas/sql/schema"
)

// c02Charset: MySQL character columns of every kind that carries a character set (CHAR, VARCHAR, TEXT, ENUM,
// SET): an edit of the column's charset / collation - alone, or together with a comment or nullability
// edit - is reported as a ModifyColumn with the ChangeCharset / ChangeCollate bits, the same way for every
// kind of column.
func c02Charset(e *Env, viol func(kind, sig, what, chk string, rep any), mu *sync.Mutex) {
	kinds := map[string]func() schema.Type{
		"char":    func() schema.Type { return &schema.StringType{T: "char", Size: 10} },
		"varchar": func() schema.Type { return &schema.StringType{T: "varchar", Size: 255} },
		"text":    func() schema.Type { return &schema.StringType{T: "text"} },
		"enum":    func() schema.Type { return &schema.EnumType{T: "enum", Values: []string{"a", "b"}} },
		"set":     func() schema.Type { return &mysql.SetType{Values: []string{"a", "b"}} },
	}
	type edit struct {
		name     string
		cs, co   string
		comment  bool
		null     bool
		wantBits schema.ChangeKind
	}
	edits := []edit{
		{"collation", "utf8mb4", "utf8mb4_general_ci", false, false, schema.ChangeCollate},
		{"charset and collation", "latin1", "latin1_swedish_ci", false, false, schema.ChangeCharset | schema.ChangeCollate},
		{"collation and comment", "utf8mb4", "utf8mb4_general_ci", true, false, schema.ChangeCollate | schema.ChangeComment},
		{"charset, collation and nullability", "latin1", "latin1_bin", false, true, schema.ChangeCharset | schema.ChangeCollate | schema.ChangeNull},
		{"nothing", "utf8mb4", "utf8mb4_bin", false, false, schema.NoChange},
	}
	build := func(kind string, cs, co string, comment, null bool) *schema.Schema {
		s := schema.New("public").SetCharset("utf8mb4").SetCollation("utf8mb4_bin")
		t := schema.NewTable("t").SetSchema(s).SetCharset("utf8mb4").SetCollation("utf8mb4_bin")
		c := schema.NewColumn("c").SetType(kinds[kind]()).SetCharset(cs).SetCollation(co).SetNull(null)
		if comment {
			c.SetComment("edited")
		}
		t.AddColumns(schema.NewIntColumn("id", "int"), c)
		s.AddTables(t)
		return s
	}
	for kind := range kinds {
		for _, ed := range edits {
			id := fmt.Sprintf("mysql charset: %s column, edit of %s", kind, ed.name)
			rep := map[string]any{"dialect": "mysql", "case": id}
			from := build(kind, "utf8mb4", "utf8mb4_bin", false, false)
			to := build(kind, ed.cs, ed.co, ed.comment, ed.null)
			cs, err := mysql.DefaultDiff.SchemaDiff(from, to, schema.DiffNormalized())
			mu.Lock()
			e.Res.Count("mysql/charset/"+id, ed.wantBits != schema.NoChange, "dialect:mysql", "charset-edits")
			mu.Unlock()
			if err != nil {
				viol("failing-input", "diff-error", fmt.Sprintf("%s: SchemaDiff fails: %v", id, err), "Props.C02", rep)
				continue
			}
			var got schema.ChangeKind
			n := 0
			for _, ch := range cs {
				if mt, ok := ch.(*schema.ModifyTable); ok {
					for _, sc := range mt.Changes {
						n++
						if mc, ok := sc.(*schema.ModifyColumn); ok && mc.From.Name == "c" {
							got |= mc.Change
						}
					}
				} else {
					n++
				}
			}
			switch {
			case ed.wantBits == schema.NoChange && n > 0:
				viol("failing-input", "spurious-change", fmt.Sprintf("%s: SchemaDiff reports %d changes", id, n), "Props.C02 exactness", rep)
			case got != ed.wantBits || (ed.wantBits != schema.NoChange && n != 1):
				viol("failing-input", "diff-not-exact", fmt.Sprintf("%s: SchemaDiff reports %d changes with column change bits %b, the edit is %b (ChangeCharset=%b ChangeCollate=%b)", id, n, got, ed.wantBits, schema.ChangeCharset, schema.ChangeCollate), "Props.C02 exactness", rep)
			}
		}
	}
}
