package main

import (
	"context"
	"fmt"
	"regexp"
	"strings"
	"sync"

	"ariga.io/atlas/sql/mysql"
	"ariga.io/atlas/sql/schema"
)

var reAddPK = regexp.MustCompile("(?i)ADD PRIMARY KEY \\(([^)]*)\\)")

// c17MyColumns: MySQL / TiDB (no engine to run the down direction on): the reverse of a dropped or modified
// column re-creates the column EXACTLY as the planner itself defines it when it creates the table it came from
// - every attribute: AUTO_INCREMENT, character set / collation (also where the table overrides the schema's),
// default, comment, ON UPDATE, generated expression. One column edit per change set, every column of a table
// that carries all of them.
func c17MyColumns(e *Env, viol func(kind, sig, what, chk string, rep any), mu *sync.Mutex) {
	ctx := context.Background()
	for _, d := range []string{"mysql", "tidb"} {
		pl, _ := c17Planner(d)
		if pl == nil {
			continue
		}
		for _, tableCS := range []string{"latin1", ""} {
			mk := func() *schema.Table {
				s := schema.New("app").SetCharset("utf8mb4").SetCollation("utf8mb4_0900_ai_ci")
				t := schema.NewTable("t").SetSchema(s)
				if tableCS != "" {
					t.SetCharset("latin1").SetCollation("latin1_swedish_ci")
				}
				id := schema.NewColumn("id").SetType(&schema.IntegerType{T: "bigint"}).AddAttrs(&mysql.AutoIncrement{})
				t.AddColumns(id,
					schema.NewColumn("s1").SetType(&schema.StringType{T: "varchar", Size: 50}).SetCharset("utf8mb4").SetCollation("utf8mb4_0900_ai_ci"),
					schema.NewColumn("s2").SetType(&schema.StringType{T: "varchar", Size: 50}).SetCharset("latin1").SetCollation("latin1_swedish_ci"),
					schema.NewColumn("s3").SetType(&schema.StringType{T: "varchar", Size: 20}).SetCharset("ascii").SetCollation("ascii_bin").SetNull(true),
					schema.NewColumn("n").SetType(&schema.IntegerType{T: "int"}).SetNull(true).SetDefault(&schema.Literal{V: "7"}).SetComment("a number"),
					schema.NewColumn("ts").SetType(&schema.TimeType{T: "timestamp"}).SetDefault(&schema.RawExpr{X: "CURRENT_TIMESTAMP"}).AddAttrs(&mysql.OnUpdate{A: "CURRENT_TIMESTAMP"}),
					schema.NewColumn("g").SetType(&schema.IntegerType{T: "int"}).SetNull(true).SetGeneratedExpr(&schema.GeneratedExpr{Expr: "(`n` + 1)", Type: "STORED"}),
				)
				t.SetPrimaryKey(schema.NewPrimaryKey(id))
				return t
			}
			from := mk()
			// the planner's own definition of every column: the entries of CREATE TABLE
			defs := map[string]string{}
			cp, err := pl.PlanChanges(ctx, "create", []schema.Change{&schema.AddTable{T: from}})
			if err != nil || len(cp.Changes) == 0 {
				continue
			}
			create := cp.Changes[0].Cmd
			if i, j := strings.Index(create, "("), strings.LastIndex(create, ")"); i > 0 && j > i {
				for _, ent := range splitTop(create[i+1 : j]) {
					ent = strings.TrimSpace(ent)
					if strings.HasPrefix(ent, "`") {
						if k := strings.Index(ent[1:], "`"); k > 0 {
							defs[ent[1:1+k]] = strings.TrimSpace(ent[k+2:])
						}
					}
				}
			}
			// the primary key replaced by another one: run up and then down, the OLD key is back - the last
			// ADD PRIMARY KEY of the down direction names the old columns
			for _, newKey := range [][]string{{"id", "s2"}, {"s2"}, {"n", "id"}} {
				to := mk()
				var parts []*schema.Column
				for _, n := range newKey {
					c, _ := to.Column(n)
					parts = append(parts, c)
				}
				newPK := schema.NewPrimaryKey(parts...)
				oldPK := from.PrimaryKey
				to.SetPrimaryKey(newPK)
				id := fmt.Sprintf("%s, table charset %q: primary key (id) replaced by %v", d, tableCS, newKey)
				rep := map[string]any{"case": id}
				mu.Lock()
				e.Res.Count("mycol:"+id, true, "mysql-column-reverse:"+d)
				mu.Unlock()
				plan, err := pl.PlanChanges(ctx, "p", []schema.Change{&schema.ModifyTable{T: to, Changes: []schema.Change{&schema.ModifyPrimaryKey{From: oldPK, To: newPK, Change: schema.ChangeParts}}}})
				if err != nil || !plan.Reversible {
					continue
				}
				var down []string
				for k := len(plan.Changes) - 1; k >= 0; k-- {
					rs, _ := plan.Changes[k].ReverseStmts()
					down = append(down, rs...)
				}
				last := ""
				for _, st := range down {
					for _, m := range reAddPK.FindAllStringSubmatch(st, -1) {
						last = strings.ReplaceAll(strings.ReplaceAll(m[1], "`", ""), " ", "")
					}
				}
				if last != "id" {
					viol("failing-input", "reverse-restores-another-primary-key", fmt.Sprintf("%s: the plan is reported reversible; after its down statements [%s] the primary key is (%s), not the original (id)", id, trunc(strings.Join(down, "; "), 300), last), "Props.C17 reverse restores (MySQL primary key)", rep)
				}
			}
			for _, col := range from.Columns {
				for _, kind := range []string{"drop", "modify-null", "modify-type"} {
					to := mk()
					tc, _ := to.Column(col.Name)
					var ch schema.Change
					switch kind {
					case "drop":
						var cols []*schema.Column
						for _, c := range to.Columns {
							if c != tc {
								cols = append(cols, c)
							}
						}
						to.Columns = cols
						if col.Name == "id" {
							to.PrimaryKey = nil
						}
						ch = &schema.DropColumn{C: col}
					case "modify-null":
						if col.Name == "id" {
							continue
						}
						tc.Type.Null = !tc.Type.Null
						ch = &schema.ModifyColumn{From: col, To: tc, Change: schema.ChangeNull}
					case "modify-type":
						switch tc.Type.Type.(type) {
						case *schema.StringType:
							tc.Type.Type = &schema.StringType{T: "varchar", Size: 99}
						case *schema.IntegerType:
							tc.Type.Type = &schema.IntegerType{T: "mediumint"}
						default:
							continue
						}
						ch = &schema.ModifyColumn{From: col, To: tc, Change: schema.ChangeType}
					}
					id := fmt.Sprintf("%s, table charset %q: %s of column %s", d, tableCS, kind, col.Name)
					rep := map[string]any{"case": id, "create": create}
					mu.Lock()
					e.Res.Count("mycol:"+id, true, "mysql-column-reverse:"+d)
					mu.Unlock()
					plan, err := pl.PlanChanges(ctx, "p", []schema.Change{&schema.ModifyTable{T: to, Changes: []schema.Change{ch}}})
					if err != nil || !plan.Reversible {
						continue
					}
					var rev []string
					for _, c := range plan.Changes {
						rs, _ := c.ReverseStmts()
						rev = append(rev, rs...)
					}
					all := strings.Join(rev, "; ")
					want := "`" + col.Name + "` " + defs[col.Name]
					if defs[col.Name] == "" || strings.Contains(all, want) {
						continue
					}
					viol("failing-input", "reverse-column-definition-differs", fmt.Sprintf("%s: the plan is reported reversible; its reverse statements [%s] do not re-create the column as the planner defines it in CREATE TABLE: %s", id, trunc(all, 300), want), "Props.C17 reverse restores (MySQL column definitions)", rep)
				}
			}
		}
	}
}
