package main

// C17: reverse statements undo the plan.
// (A) SQLite engine: random (current, desired) pairs; whenever the plan is reported reversible, the
//     plan is executed, then the reverse statements of its changes in reverse order; the independent
//     pragma catalogue and Atlas's own diff must show the original schema. Statement kinds of every
//     Cmd/Reverse pair and the Reversible flag are compared with the Lean model Atlas.Reverse.
// (B) all dialects: Reversible <=> every change has reverse statements, for plans of the three
//     planners over the C02 edit catalogue.
// (C) down files: every formatter that writes a down part (golang-migrate, goose, dbmate, flyway undo,
//     liquibase rollback) must contain exactly the reverse statements of the changes in reverse plan
//     order (Lean: Props.C07.downStmts_spec / Props.C17.down_order).

import (
	"context"
	"fmt"
	"github.com/DATA-DOG/go-sqlmock"
	"os"
	"path/filepath"
	"sort"
	"strings"
	"sync"

	"ariga.io/atlas/sql/migrate"
	"ariga.io/atlas/sql/mysql"
	"ariga.io/atlas/sql/schema"
	"ariga.io/atlas/sql/sqlite"
	"ariga.io/atlas/sql/sqltool"
	"verifharness/internal/hx"
)

func init() { commands["C17"] = runC17 }

func stmtKindOf(cmd string) string {
	u := strings.ToUpper(strings.TrimSpace(cmd))
	switch {
	case strings.HasPrefix(u, "INSERT INTO `NEW_"), strings.Contains(u, " RENAME TO "):
		return "rebuild"
	case strings.HasPrefix(u, "PRAGMA"):
		return "pragma"
	case strings.HasPrefix(u, "CREATE TABLE"):
		return "createTable"
	case strings.HasPrefix(u, "DROP TABLE"):
		return "dropTable"
	case strings.Contains(u, " ADD COLUMN "):
		return "addColumn"
	case strings.Contains(u, " DROP COLUMN "):
		return "dropColumn"
	case strings.HasPrefix(u, "CREATE INDEX"), strings.HasPrefix(u, "CREATE UNIQUE INDEX"):
		return "createIndex"
	case strings.HasPrefix(u, "DROP INDEX"):
		return "dropIndex"
	case strings.HasPrefix(u, "INSERT INTO SQLITE_SEQUENCE"):
		return "seq"
	case strings.HasPrefix(u, "UPDATE SQLITE_SEQUENCE"):
		return "seqReset"
	}
	return "other:" + trunc(cmd, 30)
}

type c17Case struct {
	Current []string  `json:"current"`
	Desired []string  `json:"desired"`
	Edits   []*sqEdit `json:"edits"`
}

func runC17(e *Env) error {
	pool, err := hx.NewPool(e.Model, 4)
	if err != nil {
		return err
	}
	defer pool.Close()
	n := 500
	if e.Thorough() {
		n = 6000
	}
	e.Res.Rule = fmt.Sprintf("(A) %d random SQLite (current, desired) pairs biased to reversible plans (add/drop table with indexes, add plain column, add/drop index) plus arbitrary edits: plan; Cmd/Reverse statement kinds and the Reversible flag == Lean model; reversible plans are executed up and then down (reverse statements, changes in reverse order) on a real engine: pragma catalogue and Atlas diff must equal the original; (B) mysql/postgres/sqlite planners over the C02 edit catalogue: Reversible <=> every change has reverse statements; (C) golang-migrate/goose/dbmate/flyway/liquibase formatters: down part == reverse statements in reverse plan order; non-trivial = reversible plan with at least one statement; distinct by seed / (dialect, edit) / (formatter, plan)", n)
	var mu sync.Mutex
	viol := func(kind, sig, what, chk string, rep any) {
		mu.Lock()
		e.Res.Violate(kind, sig, what, chk, rep)
		mu.Unlock()
	}
	ctx := context.Background()
	parallel(e.Workers, n, func(ci int) {
		r := hx.NewRand(e.Seed, fmt.Sprintf("c17-%d", ci))
		g := &sqGen{r: r}
		cur := g.schema(2 + r.Intn(3))
		des := cur.clone()
		var edits []*sqEdit
		// reversible-biased edits
		for k := 0; k < 1+r.Intn(3); k++ {
			t := hx.Pick(r, des.Tables)
			switch r.Intn(6) {
			case 0:
				nt := g.newTable()
				des.Tables = append(des.Tables, nt)
				edits = append(edits, &sqEdit{"add-table", nt.Name, ""})
			case 1:
				if len(des.Tables) > 1 && !referenced(des, t.Name) && cur.table(t.Name) != nil {
					drop(des, t.Name)
					edits = append(edits, &sqEdit{"drop-table", t.Name, ""})
				}
			case 2:
				c := sqCol{Name: g.id("c"), Type: hx.Pick(r, []string{"integer", "text", "real"})}
				if r.Chance(1, 2) {
					c.Default = g.defaultFor(c.Type)
					for c.Default == "CURRENT_TIMESTAMP" || strings.HasPrefix(c.Default, "(") {
						c.Default = g.defaultFor(c.Type)
					}
				}
				if t.Strict && c.Type == "real" {
					c.Type = "real"
				}
				t.Cols = append(t.Cols, c)
				edits = append(edits, &sqEdit{"add-column", t.Name, c.Name})
			case 3:
				ix := g.index(t)
				t.Idxs = append(t.Idxs, ix)
				edits = append(edits, &sqEdit{"add-index", t.Name, ix.Name})
			case 4:
				for i, ix := range t.Idxs {
					if !fkTarget(des, t, ix) {
						t.Idxs = append(t.Idxs[:i:i], t.Idxs[i+1:]...)
						edits = append(edits, &sqEdit{"drop-index", t.Name, ix.Name})
						break
					}
				}
			default:
				if ed := g.edit(des); ed != nil {
					edits = append(edits, ed)
				}
			}
		}
		c := c17Case{Current: cur.DDL(), Desired: des.DDL(), Edits: edits}
		dir := filepath.Join(e.Work, fmt.Sprintf("c17-%d", ci))
		os.MkdirAll(dir, 0o755)
		defer os.RemoveAll(dir)
		rev, vs := c17Run(ctx, pool, &c, dir)
		mu.Lock()
		e.Res.Count(fmt.Sprintf("c17-%d", ci), rev, append(editKinds(edits), fmt.Sprintf("reversible:%v", rev))...)
		mu.Unlock()
		for _, v := range vs {
			viol(v[0], v[1], v[2], v[3], c)
		}
	})
	c17Flags(e, viol, &mu)
	c17AlterFlags(e, pool, viol, &mu)
	c17Down(e, pool, viol, &mu)
	c17Graphs(e, viol, &mu)
	c17PGQualified(e, viol, &mu)
	c17MyColumns(e, viol, &mu)
	return nil
}

func c17Run(ctx context.Context, pool *hx.Pool, c *c17Case, dir string) (reversible bool, viols [][4]string) {
	add := func(kind, sig, what, chk string) { viols = append(viols, [4]string{kind, sig, what, chk}) }
	db, err := openSQLite(filepath.Join(dir, "db.sqlite"), false)
	if err != nil {
		return
	}
	defer db.Close()
	dev, _ := openSQLite(filepath.Join(dir, "dev.sqlite"), false)
	defer dev.Close()
	if execAll(db, c.Current) != nil || execAll(dev, c.Desired) != nil {
		return
	}
	drv, _ := sqlite.Open(db)
	ddrv, _ := sqlite.Open(dev)
	desired, err1 := inspectMain(ctx, ddrv)
	current, err2 := inspectMain(ctx, drv)
	if err1 != nil || err2 != nil {
		return
	}
	changes, err := drv.SchemaDiff(current, desired, schema.DiffNormalized())
	if err != nil {
		return
	}
	plan, err := drv.PlanChanges(ctx, "p", changes)
	if err != nil {
		return
	}
	// model: kinds of the reverses and the flag
	var kinds []string
	var gotRev [][]string
	allHave := true
	pendingDrop := "" // the table whose DROP belongs to a running rebuild
	for _, pc := range plan.Changes {
		k := stmtKindOf(pc.Cmd)
		if m := strings.TrimPrefix(pc.Cmd, "CREATE TABLE `new_"); m != pc.Cmd {
			pendingDrop = m[:strings.Index(m, "`")]
		}
		if k == "dropTable" && pendingDrop != "" && strings.Contains(pc.Cmd, "`"+pendingDrop+"`") {
			k, pendingDrop = "rebuild", ""
		}
		rs, _ := pc.ReverseStmts()
		if len(rs) == 0 && k != "pragma" {
			allHave = false
		}
		var rk []string
		for _, s := range rs {
			rk = append(rk, stmtKindOf(s))
		}
		kinds = append(kinds, k)
		gotRev = append(gotRev, rk)
	}
	if plan.Reversible != allHave {
		add("failing-input", "reversible-flag-wrong", fmt.Sprintf("plan.Reversible=%v but every change has reverse statements=%v\n%s", plan.Reversible, allHave, planText(plan)), "Props.C17.reversible_iff")
	}
	var ans struct {
		Reversible bool       `json:"reversible"`
		Reverses   [][]string `json:"reverses"`
	}
	var mk []string
	for _, k := range kinds {
		switch k {
		case "pragma", "seq":
			mk = append(mk, "rebuild") // no reverse in the model either; "seq" has a reset reverse, handled below
		default:
			mk = append(mk, k)
		}
	}
	if err := pool.AskInto(map[string]any{"op": "rev.plan", "cmds": mk}, &ans); err == nil {
		for i := range kinds {
			want := ans.Reverses[i]
			got := gotRev[i]
			if kinds[i] == "seq" {
				continue
			}
			if kinds[i] == "dropTable" && len(got) > 0 {
				// CREATE TABLE followed by its CREATE INDEX statements (one composite statement in the model)
				ok := got[0] == "createTable"
				for _, x := range got[1:] {
					ok = ok && (x == "createIndex" || x == "seq")
				}
				if ok {
					got = []string{"createTable"}
				}
			}
			if fmt.Sprint(got) != fmt.Sprint(want) && !(len(got) == 0 && len(want) == 0) {
				add("no-failing-input-found", "corr-reverse-kind-mismatch", fmt.Sprintf("statement %q (%s) has reverse %v, model %v", trunc(plan.Changes[i].Cmd, 80), kinds[i], gotRev[i], want), "correspondence Atlas.Reverse.plannerReverse")
			}
		}
	}
	if !plan.Reversible || len(plan.Changes) == 0 {
		return false, viols
	}
	before, _ := catalog(db)
	// up
	for _, pc := range plan.Changes {
		if _, err := db.Exec(pc.Cmd); err != nil {
			add("failing-input", "up-fails", fmt.Sprintf("statement %q fails: %v", trunc(pc.Cmd, 120), err), "Props.C17")
			return true, viols
		}
	}
	// down: changes in reverse order, each change's statements in order
	for i := len(plan.Changes) - 1; i >= 0; i-- {
		rs, _ := plan.Changes[i].ReverseStmts()
		for _, s := range rs {
			if _, err := db.Exec(s); err != nil {
				add("failing-input", "down-fails", fmt.Sprintf("the plan is reported reversible but reverse statement %q fails: %v\nplan:\n%s\ncurrent:\n%s\ndesired:\n%s", trunc(s, 120), err, planTextRev(plan), strings.Join(c.Current, ";\n"), strings.Join(c.Desired, ";\n")), "Props.C17.down_up")
				return true, viols
			}
		}
	}
	after, _ := catalog(db)
	if strings.Join(before, "\n") != strings.Join(after, "\n") {
		add("failing-input", "down-does-not-restore", fmt.Sprintf("after up and down the schema differs from the original (pragma catalogue): %s\nplan:\n%s\ncurrent:\n%s\ndesired:\n%s", catDiff(after, before), planTextRev(plan), strings.Join(c.Current, ";\n"), strings.Join(c.Desired, ";\n")), "Props.C17.down_up")
	}
	if back, err := inspectMain(ctx, drv); err == nil {
		orig, _ := inspectMain(ctx, ddrvOf(ctx, c, dir))
		if orig != nil {
			if cs, err := drv.SchemaDiff(back, orig, schema.DiffNormalized()); err == nil && len(cs) > 0 {
				add("failing-input", "down-does-not-restore-atlas-diff", fmt.Sprintf("after up and down Atlas reports a difference to the original schema: %s\nplan:\n%s", kindsStr(cs), planTextRev(plan)), "Props.C17.down_up")
			}
		}
	}
	return true, viols
}

// ddrvOf opens a third database holding the original schema (for Atlas's own comparison).
func ddrvOf(ctx context.Context, c *c17Case, dir string) migrate.Driver {
	db, err := openSQLite(filepath.Join(dir, "orig.sqlite"), false)
	if err != nil {
		return nil
	}
	execAll(db, c.Current)
	drv, _ := sqlite.Open(db)
	return drv
}

func planTextRev(p *migrate.Plan) string {
	var b strings.Builder
	for _, c := range p.Changes {
		rs, _ := c.ReverseStmts()
		b.WriteString("  " + c.Cmd + ";   -- reverse: " + strings.Join(rs, "; ") + "\n")
	}
	return b.String()
}

// (B) flag consistency for the three planners
func c17Flags(e *Env, viol func(kind, sig, what, chk string, rep any), mu *sync.Mutex) {
	cat := c02Catalogue()
	for _, dn := range []string{"mysql", "postgres", "sqlite", "tidb"} {
		pl, d := c17Planner(dn)
		if pl == nil {
			continue
		}
		for _, ed := range cat {
			if ed.NoSQLite && d == "sqlite" {
				continue
			}
			base := c02Base()
			edited := ed.Apply(cloneTables(base))
			var changes []schema.Change
			var plan *migrate.Plan
			err := func() (err error) {
				defer func() {
					if p := recover(); p != nil {
						err = fmt.Errorf("panic: %v", p)
					}
				}()
				changes, err = c02Differ(d).SchemaDiff(c02Build(d, base), c02Build(d, edited), schema.DiffNormalized())
				if err != nil {
					return err
				}
				plan, err = pl.PlanChanges(context.Background(), "p", changes)
				return err
			}()
			if err != nil || plan == nil {
				continue
			}
			allHave := true
			for _, pc := range plan.Changes {
				rs, err := pc.ReverseStmts()
				if (err != nil || len(rs) == 0) && !strings.HasPrefix(strings.ToUpper(pc.Cmd), "PRAGMA") {
					allHave = false
				}
			}
			mu.Lock()
			e.Res.Count("flag/"+dn+"/"+ed.Desc, plan.Reversible, "flags:"+dn)
			mu.Unlock()
			if plan.Reversible != allHave {
				viol("failing-input", "reversible-flag-wrong", fmt.Sprintf("%s %s: plan.Reversible=%v but 'every change has reverse statements'=%v\n%s", dn, ed.Desc, plan.Reversible, allHave, planTextRev(plan)), "Props.C17.reversible_iff", map[string]any{"dialect": dn, "edit": ed.Desc})
			}
		}
	}
}

// (C) down files
func c17Down(e *Env, pool *hx.Pool, viol func(kind, sig, what, chk string, rep any), mu *sync.Mutex) {
	plans := []*migrate.Plan{
		{Version: "1", Name: "a", Reversible: true, Changes: []*migrate.Change{
			{Cmd: "CREATE TABLE t (id int)", Reverse: "DROP TABLE t", Comment: "create t"},
			{Cmd: "ALTER TABLE t ADD COLUMN c int", Reverse: "ALTER TABLE t DROP COLUMN c", Comment: "add c"},
			{Cmd: "DROP TABLE old", Reverse: []string{"CREATE TABLE old (id int)", "CREATE INDEX i ON old (id)"}, Comment: "drop old"},
			{Cmd: "CREATE INDEX j ON t (c)", Reverse: "DROP INDEX j"},
		}},
		{Version: "2", Name: "b", Reversible: true, Changes: []*migrate.Change{
			{Cmd: "CREATE TABLE a (id int)", Reverse: "DROP TABLE a"},
		}},
		{Version: "3", Name: "c", Reversible: false, Changes: []*migrate.Change{
			{Cmd: "CREATE TABLE a (id int)", Reverse: "DROP TABLE a"},
			{Cmd: "DROP TABLE b"},
			{Cmd: "CREATE TABLE c (id int)", Reverse: []string{"DROP TABLE c"}},
		}},
	}
	// plans from the SQLite planner too
	ctx := context.Background()
	for k := 0; k < 20; k++ {
		r := hx.NewRand(e.Seed, fmt.Sprintf("c17-down-%d", k))
		g := &sqGen{r: r, cfg: sqCfg{Simple: true}}
		s := g.schema(2)
		var cs []schema.Change
		func() {
			db, err := openSQLite(filepath.Join(e.Work, fmt.Sprintf("c17down-%d.sqlite", k)), false)
			if err != nil {
				return
			}
			defer db.Close()
			defer os.Remove(filepath.Join(e.Work, fmt.Sprintf("c17down-%d.sqlite", k)))
			if execAll(db, s.DDL()) != nil {
				return
			}
			drv, _ := sqlite.Open(db)
			sc, err := inspectMain(ctx, drv)
			if err != nil {
				return
			}
			for _, t := range sc.Tables {
				cs = append(cs, &schema.AddTable{T: t})
			}
			if p, err := sqlite.DefaultPlan.PlanChanges(ctx, fmt.Sprintf("p%d", k), cs); err == nil {
				p.Version = fmt.Sprint(10 + k)
				plans = append(plans, p)
			}
		}()
	}
	type fm struct {
		name string
		f    migrate.Formatter
		down func(files []migrate.File) (string, bool)
	}
	section := func(marker, end string) func(files []migrate.File) (string, bool) {
		return func(files []migrate.File) (string, bool) {
			for _, f := range files {
				b := string(f.Bytes())
				if i := strings.Index(b, marker); i >= 0 {
					rest := b[i+len(marker):]
					if end != "" {
						if j := strings.Index(rest, end); j >= 0 {
							rest = rest[:j]
						}
					}
					return rest, true
				}
			}
			return "", false
		}
	}
	fms := []fm{
		{"golang-migrate", sqltool.GolangMigrateFormatter, func(files []migrate.File) (string, bool) {
			for _, f := range files {
				if strings.HasSuffix(f.Name(), ".down.sql") {
					return string(f.Bytes()), true
				}
			}
			return "", false
		}},
		{"goose", sqltool.GooseFormatter, section("-- +goose Down\n", "")},
		{"dbmate", sqltool.DBMateFormatter, section("-- migrate:down\n", "")},
		{"flyway", sqltool.FlywayFormatter, func(files []migrate.File) (string, bool) {
			for _, f := range files {
				if strings.HasPrefix(f.Name(), "U") {
					return string(f.Bytes()), true
				}
			}
			return "", false
		}},
	}
	for _, p := range plans {
		// expected: reverse statements of the changes in reverse order
		var want []string
		for i := len(p.Changes) - 1; i >= 0; i-- {
			rs, _ := p.Changes[i].ReverseStmts()
			want = append(want, rs...)
		}
		// the model says the same (down_order): ask it through the formatter model of C07
		var mc []map[string]any
		for _, c := range p.Changes {
			rs, _ := c.ReverseStmts()
			var hr []string
			for _, s := range rs {
				hr = append(hr, hexS(s))
			}
			if hr == nil {
				hr = []string{}
			}
			mc = append(mc, map[string]any{"cmd": hexS(c.Cmd), "comment": hexS(c.Comment), "reverse": hr})
		}
		var ans struct {
			Down []string `json:"downstmts"`
		}
		if err := pool.AskInto(map[string]any{"op": "fmt", "formatter": "goose", "plan": map[string]any{"version": hexS(p.Version), "name": hexS(p.Name), "changes": mc}}, &ans); err == nil && ans.Down != nil {
			var md []string
			for _, h := range ans.Down {
				md = append(md, string(unhexS(h)))
			}
			if fmt.Sprint(md) != fmt.Sprint(want) {
				mu.Lock()
				e.Res.Disagree()
				mu.Unlock()
				viol("no-failing-input-found", "corr-down-order-mismatch", fmt.Sprintf("model down statements %v, expected %v", md, want), "correspondence Atlas.Format.downStmts", p.Name)
			}
		}
		for _, f := range fms {
			files, err := f.f.Format(p)
			mu.Lock()
			e.Res.Count("down/"+f.name+"/"+p.Version, len(want) > 0, "down:"+f.name)
			mu.Unlock()
			if err != nil {
				viol("failing-input", "formatter-fails", fmt.Sprintf("%s: %v", f.name, err), "Props.C17 down file", p.Name)
				continue
			}
			text, ok := f.down(files)
			if !ok {
				if len(want) > 0 {
					viol("failing-input", "down-part-missing", fmt.Sprintf("%s writes no down part for plan %s", f.name, p.Name), "Props.C17 down file", p.Name)
				}
				continue
			}
			var got []string
			for _, l := range strings.Split(text, "\n") {
				l = strings.TrimSpace(l)
				if l == "" || strings.HasPrefix(l, "--") {
					continue
				}
				got = append(got, strings.TrimSuffix(l, ";"))
			}
			if fmt.Sprint(got) != fmt.Sprint(want) {
				viol("failing-input", "down-file-differs", fmt.Sprintf("%s plan %s: the down part holds %v, the reverse statements in reverse plan order are %v", f.name, p.Name, got, want), "Props.C17.down_order", map[string]any{"formatter": f.name, "plan": p.Name})
			}
		}
	}
}

func unhexS(h string) []byte {
	b := make([]byte, len(h)/2)
	for i := 0; i+1 < len(h); i += 2 {
		var v byte
		fmt.Sscanf(h[i:i+2], "%02x", &v)
		b[i/2] = v
	}
	return b
}

// (B2) the flag of an ALTER TABLE built from several changes: Reversible(plan of cs) must be the
// conjunction of Reversible(plan of [c]) over c in cs (Lean: Props.C17.alter_flag_compositional),
// independent of the order of cs (alter_flag_perm). The per-change bit is observed on the real planner.
func c17AlterFlags(e *Env, pool *hx.Pool, viol func(kind, sig, what, chk string, rep any), mu *sync.Mutex) {
	n := 300
	if e.Thorough() {
		n = 5000
	}
	for _, d := range []string{"mysql", "postgres", "tidb"} {
		pl, sd := c17Planner(d)
		if pl == nil {
			viol("no-failing-input-found", "tidb-planner-unreachable", "mysql.Open on a connection reporting a TiDB version did not return a planner", "correspondence C17 planners", nil)
			continue
		}
		r := hx.NewRand(e.Seed, "c17-alter-"+d)
		ity := c02Type(sd, 0)
		mkTable := func() (*schema.Table, map[string]schema.Change) {
			t := schema.NewTable("t").SetSchema(schema.New("public"))
			id, a, b := schema.NewColumn("id").SetType(ity), schema.NewColumn("a").SetType(ity).SetNull(true), schema.NewColumn("b").SetType(ity).SetNull(true)
			t.AddColumns(id, a, b).SetPrimaryKey(schema.NewPrimaryKey(id))
			ix := schema.NewIndex("ix_a").AddColumns(a)
			t.AddIndexes(ix)
			ck := schema.NewCheck().SetName("ck_old").SetExpr("(a > 0)")
			t.AddChecks(ck)
			fk := schema.NewForeignKey("fk_old").SetTable(t).AddColumns(b).SetRefTable(t).AddRefColumns(id)
			t.AddForeignKeys(fk)
			nc := schema.NewColumn("n").SetType(ity).SetNull(true)
			cs := map[string]schema.Change{
				"add-column":          &schema.AddColumn{C: nc},
				"drop-column":         &schema.DropColumn{C: b},
				"modify-column-null":  &schema.ModifyColumn{From: a, To: schema.NewColumn("a").SetType(ity), Change: schema.ChangeNull},
				"add-index":           &schema.AddIndex{I: schema.NewIndex("ix_new").SetTable(t).AddColumns(id)},
				"drop-index":          &schema.DropIndex{I: ix},
				"add-check-named":     &schema.AddCheck{C: schema.NewCheck().SetName("ck_new").SetExpr("(id > 0)")},
				"add-check-named-2":   &schema.AddCheck{C: schema.NewCheck().SetName("ck_new2").SetExpr("(id > 1)")},
				"add-check-unnamed":   &schema.AddCheck{C: schema.NewCheck().SetExpr("(id > 2)")},
				"add-check-unnamed-2": &schema.AddCheck{C: schema.NewCheck().SetExpr("(id > 3)")},
				"drop-check":          &schema.DropCheck{C: ck},
				"add-fk":              &schema.AddForeignKey{F: schema.NewForeignKey("fk_new").SetTable(t).AddColumns(a).SetRefTable(t).AddRefColumns(id)},
				"drop-fk":             &schema.DropForeignKey{F: fk},
				"comment":             &schema.ModifyAttr{From: &schema.Comment{Text: "x"}, To: &schema.Comment{Text: "y"}},
			}
			// a STORED generated column that loses its expression - alone, and together with other edits of the
			// same column (one ModifyColumn carrying several change bits)
			gen := func() *schema.Column {
				return schema.NewColumn("g").SetType(ity).SetNull(true).SetGeneratedExpr(&schema.GeneratedExpr{Expr: "(id + 1)", Type: "STORED"})
			}
			t.AddColumns(gen())
			plain := func() *schema.Column { return schema.NewColumn("g").SetType(ity).SetNull(true) }
			cs["g-drop-expr"] = &schema.ModifyColumn{From: gen(), To: plain(), Change: schema.ChangeGenerated}
			cs["g-drop-expr+null"] = &schema.ModifyColumn{From: gen(), To: plain().SetNull(false), Change: schema.ChangeGenerated | schema.ChangeNull}
			cs["g-drop-expr+default"] = &schema.ModifyColumn{From: gen(), To: plain().SetDefault(&schema.Literal{V: "7"}), Change: schema.ChangeGenerated | schema.ChangeDefault}
			cs["g-drop-expr+type"] = &schema.ModifyColumn{From: gen(), To: schema.NewColumn("g").SetType(c02Type(sd, 1)).SetNull(true), Change: schema.ChangeGenerated | schema.ChangeType}
			cs["g-drop-expr+comment"] = &schema.ModifyColumn{From: gen(), To: plain().SetComment("c"), Change: schema.ChangeGenerated | schema.ChangeComment}
			return t, cs
		}
		flag := func(names []string) (bool, string, error) {
			t, all := mkTable()
			var cs []schema.Change
			for _, n := range names {
				cs = append(cs, all[n])
			}
			var plan *migrate.Plan
			err := func() (err error) {
				defer func() {
					if p := recover(); p != nil {
						err = fmt.Errorf("panic: %v", p)
					}
				}()
				plan, err = pl.PlanChanges(context.Background(), "p", []schema.Change{&schema.ModifyTable{T: t, Changes: cs}})
				return err
			}()
			if err != nil || plan == nil {
				return false, "", fmt.Errorf("plan: %v", err)
			}
			return plan.Reversible, planTextRev(plan), nil
		}
		// the Lean table of invertible changes (Atlas.Reverse.alterInv; Props.C17.alter_reversible_iff_table) on the
		// same change kinds
		modelFlag := func(ks []string) (bool, bool) {
			var kinds []string
			for _, k := range ks {
				switch {
				case strings.HasPrefix(k, "add-check-unnamed"):
					kinds = append(kinds, "add-check-unnamed")
				case strings.HasPrefix(k, "add-check-named"):
					kinds = append(kinds, "add-check-named")
				case strings.HasPrefix(k, "g-drop-expr"):
					kinds = append(kinds, "modify-column-generated")
				case strings.HasPrefix(k, "modify-column"):
					kinds = append(kinds, "modify-column")
				default:
					kinds = append(kinds, "other")
				}
			}
			var ans struct {
				Reversible bool `json:"reversible"`
			}
			if err := pool.AskInto(map[string]any{"op": "alter.flag", "pg": d == "postgres", "changes": kinds}, &ans); err != nil {
				return false, false
			}
			return ans.Reversible, true
		}
		_, all := mkTable()
		var names []string
		for k := range all {
			names = append(names, k)
		}
		sort.Strings(names)
		single := map[string]bool{}
		for _, k := range names {
			f, _, err := flag([]string{k})
			if err != nil {
				single[k] = false
				delete(all, k)
				continue
			}
			single[k] = f
			if m, ok := modelFlag([]string{k}); ok && m != f {
				mu.Lock()
				e.Res.Disagree()
				mu.Unlock()
				viol("no-failing-input-found", "corr-alter-flag-mismatch", fmt.Sprintf("%s: a ModifyTable holding only %s is planned with Reversible=%v, the Lean table says %v", d, k, f, m), "correspondence Atlas.Reverse.alterInv", map[string]any{"dialect": d, "changes": []string{k}})
			}
		}
		// a constraint the planner cannot name cannot be dropped again: adding an UNNAMED check (the server makes
		// up its name) is never reported reversible
		for _, k := range []string{"add-check-unnamed", "add-check-unnamed-2"} {
			if f, ok := single[k]; ok && f {
				if _, planned := all[k]; planned {
					_, text, _ := flag([]string{k})
					viol("failing-input", "unnamed-check-reported-reversible", fmt.Sprintf("%s: adding a CHECK constraint without a name is planned with Reversible=true - the reverse statement names a constraint the planner cannot know:\n%s", d, text), "Props.C17 irreversible_never_reversible", map[string]any{"dialect": d, "changes": []string{k}})
				}
			}
		}
		// an edit that cannot be reversed alone cannot be reversed when the same ModifyColumn carries more bits
		if f, ok := single["g-drop-expr"]; ok && !f {
			for _, k := range names {
				if strings.HasPrefix(k, "g-drop-expr+") && single[k] {
					if _, planned := all[k]; planned {
						_, text, _ := flag([]string{k})
						viol("failing-input", "alter-flag-not-conjunction", fmt.Sprintf("%s: dropping the generation expression of a column is planned as irreversible, but the same change together with another edit of that column (%s) is planned with Reversible=true\n%s", d, k, text), "Props.C17.alter_flag_iff / irreversible_never_reversible", map[string]any{"dialect": d, "changes": []string{k}})
					}
				}
			}
		}
		names = names[:0]
		for k := range all {
			names = append(names, k)
		}
		sort.Strings(names)
		for i := 0; i < n; i++ {
			pick := append([]string{}, names...)
			hx.Shuffle(r, pick)
			pick = pick[:2+r.Intn(3)]
			want := true
			for _, k := range pick {
				want = want && single[k]
			}
			got, text, err := flag(pick)
			if err != nil {
				continue
			}
			mu.Lock()
			e.Res.Count("alter-flag/"+d+"/"+strings.Join(pick, ","), !want, "alter-flags:"+d, fmt.Sprintf("alter-reversible:%v", want))
			mu.Unlock()
			if m, ok := modelFlag(pick); ok && m != got {
				mu.Lock()
				e.Res.Disagree()
				mu.Unlock()
				viol("no-failing-input-found", "corr-alter-flag-mismatch", fmt.Sprintf("%s: ModifyTable with changes %v is planned with Reversible=%v, the Lean table says %v", d, pick, got, m), "correspondence Atlas.Reverse.alterInv", map[string]any{"dialect": d, "changes": pick})
			}
			if got != want {
				viol("failing-input", "alter-flag-not-conjunction", fmt.Sprintf("%s: ModifyTable with changes %v is planned with Reversible=%v, but planned one by one the changes are reversible=%v\n%s", d, pick, got, func() (o []string) {
					for _, k := range pick {
						o = append(o, fmt.Sprintf("%s:%v", k, single[k]))
					}
					return
				}(), text), "Props.C17.alter_flag_iff / alter_flag_compositional", map[string]any{"dialect": d, "changes": pick})
			}
		}
	}
}

// c17Planner returns the planner of a dialect and the dialect whose differ / types it shares. "tidb" is
// the planner mysql.Open hands out for a connection that reports a TiDB version (it plans every atomic
// change on its own and aggregates the flags); the connection is a mock that answers the version query.
func c17Planner(d string) (migrate.PlanApplier, string) {
	if d != "tidb" {
		pl, _, _ := plannerOf(d)
		return pl, d
	}
	db, mk, err := sqlmock.New(sqlmock.QueryMatcherOption(sqlmock.QueryMatcherFunc(func(string, string) error { return nil })))
	if err != nil {
		return nil, "mysql"
	}
	mk.MatchExpectationsInOrder(false)
	mk.ExpectQuery("variables").WillReturnRows(sqlmock.NewRows([]string{"v", "collation", "charset", "lcnames"}).AddRow("5.7.25-TiDB-v6.1.0", "utf8mb4_bin", "utf8mb4", "0"))
	drv, err := mysql.Open(db)
	if err != nil {
		return nil, "mysql"
	}
	return drv, "mysql"
}
