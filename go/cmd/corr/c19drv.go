package main

import (
	"context"
	"database/sql"
	"fmt"

	"ariga.io/atlas/sql/mysql"
	"ariga.io/atlas/sql/schema"
	"ariga.io/atlas/sql/sqlite"
)

// c19Drivers: the Exclude option of the drivers' own InspectRealm / InspectSchema (what a library user and the
// realm-bound commands go through): for every pattern list the result is the un-filtered inspection passed
// through schema.ExcludeRealm / schema.ExcludeSchema - the functions tier (2) compares with the Lean model.
// SQLite on a real in-memory database, MySQL on the stand-in (two databases).
func c19Drivers(e *Env) {
	ctx := context.Background()
	type insp interface {
		schema.Inspector
	}
	type target struct {
		name   string
		drv    insp
		schema string
		close  func()
	}
	var targets []target
	if db, err := sql.Open("sqlite3", "file:c19drv?mode=memory&cache=shared"); err == nil {
		for _, s := range []string{
			"CREATE TABLE users (id integer PRIMARY KEY, name text, CONSTRAINT name_len CHECK (length(name) > 0))",
			"CREATE INDEX users_name ON users (name)",
			"CREATE TABLE posts (id integer PRIMARY KEY, title text, author integer REFERENCES users (id))",
			"CREATE TABLE pets (id integer PRIMARY KEY, main text)",
			"CREATE TABLE main (id integer PRIMARY KEY, posts text)",
		} {
			db.Exec(s)
		}
		if drv, err := sqlite.Open(db); err == nil {
			targets = append(targets, target{"sqlite", drv, "main", func() { db.Close() }})
		} else {
			db.Close()
		}
	}
	f := newFakeMySQL("")
	mdb := sql.OpenDB(f)
	for _, s := range []string{"CREATE DATABASE `main`", "CREATE DATABASE `posts`", "CREATE TABLE `main`.`users` (`id` int)", "CREATE TABLE `main`.`posts` (`id` int)", "CREATE TABLE `main`.`main` (`id` int)", "CREATE TABLE `posts`.`pets` (`id` int)", "CREATE TABLE `posts`.`id` (`id` int)"} {
		mdb.Exec(s)
	}
	if drv, err := mysql.Open(mdb); err == nil {
		targets = append(targets, target{"mysql", drv, "main", func() { mdb.Close() }})
	}
	pats := [][]string{
		{"main.posts"}, {"*.p*"}, {"main.users.users_name"}, {"*.*"}, {"main.*.id"}, {"posts"}, {"main"}, {"m*.users.name"}, {"*.*.*"},
		{"main.main"}, {"main.main.posts"}, {"*.main"}, {"users"}, {"users.name"}, {"p*"}, {"*.id"}, {"main.posts", "main.users.name"},
		{"*.users.name_len"}, {"*.posts.*"}, {"*[type=table]"}, {"*.*[type=table]"}, {"main.p*[type=table].id"},
	}
	for _, tg := range targets {
		for _, ps := range pats {
			id := fmt.Sprintf("%s exclude=%v", tg.name, ps)
			rep := map[string]any{"case": id}
			e.Res.Count("drv:"+id, true, "driver-exclude:"+tg.name)
			// realm
			base, err1 := tg.drv.InspectRealm(ctx, nil)
			got, err2 := tg.drv.InspectRealm(ctx, &schema.InspectRealmOption{Exclude: ps})
			if err1 != nil {
				e.Res.Violate("no-failing-input-found", "driver-inspect-fails", fmt.Sprintf("%s: InspectRealm fails: %v (unknown: %v)", id, err1, f.Unknown), "correspondence C19 drivers", rep)
				break
			}
			want, werr := schema.ExcludeRealm(base, ps)
			switch {
			case (werr == nil) != (err2 == nil):
				e.Res.Violate("failing-input", "driver-exclude-differs", fmt.Sprintf("%s: InspectRealm with the Exclude option: %v; ExcludeRealm on the plain inspection: %v", id, err2, werr), "Props.C19 (driver InspectRealm)", rep)
			case werr == nil && hxJSON(realmOf(got)) != hxJSON(realmOf(want)):
				e.Res.Violate("failing-input", "driver-exclude-differs", fmt.Sprintf("%s: InspectRealm with the Exclude option returns %s, the plain inspection passed through ExcludeRealm %s", id, trunc(hxJSON(realmOf(got)), 400), trunc(hxJSON(realmOf(want)), 400)), "Props.C19 excluded_absent (driver InspectRealm)", rep)
			}
			// schema
			sb, err1 := tg.drv.InspectSchema(ctx, tg.schema, nil)
			sg, err2 := tg.drv.InspectSchema(ctx, tg.schema, &schema.InspectOptions{Exclude: ps})
			if err1 != nil {
				e.Res.Violate("no-failing-input-found", "driver-inspect-fails", fmt.Sprintf("%s: InspectSchema fails: %v", id, err1), "correspondence C19 drivers", rep)
				break
			}
			sw, werr := schema.ExcludeSchema(sb, ps)
			switch {
			case (werr == nil) != (err2 == nil):
				e.Res.Violate("failing-input", "driver-exclude-differs", fmt.Sprintf("%s: InspectSchema with the Exclude option: %v; ExcludeSchema on the plain inspection: %v", id, err2, werr), "Props.C19 (driver InspectSchema)", rep)
			case werr == nil && hxJSON(realmOf(schema.NewRealm(sg))) != hxJSON(realmOf(schema.NewRealm(sw))):
				e.Res.Violate("failing-input", "driver-exclude-differs", fmt.Sprintf("%s: InspectSchema with the Exclude option returns %s, the plain inspection passed through ExcludeSchema %s", id, trunc(hxJSON(realmOf(schema.NewRealm(sg))), 400), trunc(hxJSON(realmOf(schema.NewRealm(sw))), 400)), "Props.C19 excluded_absent (driver InspectSchema)", rep)
			}
		}
		tg.close()
	}
}
