package main

// C01: declarative apply converges. Random (current, desired) pairs of SQLite schemas (desired = the
// current one after 1-4 elementary edits, or an unrelated schema) over the whole feature set; the
// current schema is created on a real SQLite file (optionally with rows), the desired one on a
// second database that plays the dev database. Atlas inspects both, diffs, plans and applies on the
// real engine; afterwards (1) the diff between the live database and the desired schema must be empty
// and a second plan must have no statements, (2) an independent pragma-based catalogue of the live
// database must equal the catalogue of the desired database, (3) the shape of the planned program
// (in-place ALTER vs rebuild) must be the one the Lean model Atlas.Plan predicts from the change
// kinds. A sample of the cases also goes through `atlas schema apply` / `schema diff`.

import (
	"context"
	"fmt"
	"os"
	"path/filepath"
	"regexp"
	"strings"
	"sync"

	"ariga.io/atlas/sql/migrate"
	"ariga.io/atlas/sql/schema"
	"ariga.io/atlas/sql/sqlite"
	"verifharness/internal/hx"
)

func init() { commands["C01"] = runC01 }

type c01Case struct {
	Current []string  `json:"current"`
	Desired []string  `json:"desired"`
	Rows    []string  `json:"rows,omitempty"`
	Edits   []*sqEdit `json:"edits"`
	FK      bool      `json:"fk_enforced"`
}

func inspectMain(ctx context.Context, drv migrate.Driver) (*schema.Schema, error) {
	return drv.InspectSchema(ctx, "main", nil)
}

// changeKinds describes the changes for the model: kind, number of indexes of the target table, number
// of columns the rebuild can copy, and the kinds of the table-level changes.
func changeKinds(cs []schema.Change) []map[string]any {
	var out []map[string]any
	for _, c := range cs {
		switch c := c.(type) {
		case *schema.AddTable:
			out = append(out, map[string]any{"k": "addTable", "idx": len(c.T.Indexes)})
		case *schema.DropTable:
			out = append(out, map[string]any{"k": "dropTable"})
		case *schema.ModifyTable:
			ks := []string{}
			added := map[string]bool{}
			for _, s := range c.Changes {
				switch s := s.(type) {
				case *schema.AddColumn:
					added[s.C.Name] = true
					k := "addColumn"
					switch x := s.C.Default.(type) {
					case *schema.RawExpr:
						k = "addColumnExprDefault"
					case *schema.Literal:
						if x.V == "CURRENT_TIME" || x.V == "CURRENT_DATE" || x.V == "CURRENT_TIMESTAMP" {
							k = "addColumnExprDefault"
						}
					}
					for _, a := range s.C.Attrs {
						if g, ok := a.(*schema.GeneratedExpr); ok && strings.ToUpper(g.Type) == "STORED" {
							k = "addColumnStored"
						}
					}
					if len(s.C.Indexes) > 0 || len(s.C.ForeignKeys) > 0 {
						k = "addColumnIndexed"
					}
					ks = append(ks, k)
				case *schema.AddIndex:
					ks = append(ks, "addIndex")
				case *schema.DropIndex:
					if strings.HasPrefix(s.I.Name, "sqlite_autoindex") {
						ks = append(ks, "dropAutoIndex")
					} else {
						ks = append(ks, "dropIndex")
					}
				default:
					ks = append(ks, strings.TrimPrefix(fmt.Sprintf("%T", s), "*schema."))
				}
			}
			copyable := 0
			for _, col := range c.T.Columns {
				gen := false
				for _, a := range col.Attrs {
					if _, ok := a.(*schema.GeneratedExpr); ok {
						gen = true
					}
				}
				if !gen && !added[col.Name] {
					copyable++
				}
			}
			out = append(out, map[string]any{"k": "modifyTable", "kinds": ks, "idx": len(c.T.Indexes), "copyable": copyable})
		default:
			out = append(out, map[string]any{"k": strings.TrimPrefix(fmt.Sprintf("%T", c), "*schema.")})
		}
	}
	return out
}

// planShape classifies the statements of a plan.
func planShape(p *migrate.Plan) []string {
	var out []string
	for _, c := range p.Changes {
		u := strings.ToUpper(c.Cmd)
		switch {
		case strings.HasPrefix(u, "PRAGMA"):
			out = append(out, "pragma")
		case strings.HasPrefix(u, "CREATE TABLE `NEW_"):
			out = append(out, "createNew")
		case strings.HasPrefix(u, "CREATE TABLE"):
			out = append(out, "createTable")
		case strings.HasPrefix(u, "INSERT INTO `NEW_"):
			out = append(out, "copy")
		case strings.HasPrefix(u, "INSERT INTO SQLITE_SEQUENCE"):
			out = append(out, "seq")
		case strings.HasPrefix(u, "DROP TABLE"):
			out = append(out, "dropTable")
		case strings.Contains(u, "RENAME TO"):
			out = append(out, "rename")
		case strings.Contains(u, "ADD COLUMN"):
			out = append(out, "alterAdd")
		case strings.HasPrefix(u, "CREATE INDEX") || strings.HasPrefix(u, "CREATE UNIQUE INDEX"):
			out = append(out, "createIndex")
		case strings.HasPrefix(u, "DROP INDEX"):
			out = append(out, "dropIndex")
		default:
			out = append(out, "other:"+trunc(c.Cmd, 40))
		}
	}
	return out
}

func kindsStr(cs []schema.Change) string { return hxJSON(changeKinds(cs)) }

func runC01(e *Env) error {
	pool, err := hx.NewPool(e.Model, 4)
	if err != nil {
		return err
	}
	defer pool.Close()
	n := 400
	if e.Thorough() {
		n = 6000
	}
	e.Res.Rule = fmt.Sprintf("%d random (current, desired) SQLite schema pairs (2-4 tables; types, nullability, defaults incl. expressions, single/composite/autoincrement keys, unique/multi-column/descending/partial/expression indexes, named+unnamed checks, self/cross/cyclic foreign keys with all actions, WITHOUT ROWID/STRICT, generated columns; desired = current + 1-4 elementary edits, or an independent schema; with and without rows, with and without foreign-key enforcement): inspect -> diff -> plan -> apply on a real SQLite engine; then diff(live, desired) == empty and second plan has no statements; independent pragma catalogue(live) == catalogue(desired); plan shape == Lean model prediction; 1 case in 8 also through `atlas schema apply` + `schema diff`; non-trivial = non-empty plan; distinct by seed", n)
	var mu sync.Mutex
	viol := func(kind, sig, what, chk string, rep any) {
		mu.Lock()
		e.Res.Violate(kind, sig, what, chk, rep)
		mu.Unlock()
	}
	ctx := context.Background()
	parallel(e.Workers, n, func(ci int) {
		r := hx.NewRand(e.Seed, fmt.Sprintf("c01-%d", ci))
		g := &sqGen{r: r}
		cur := g.schema(2 + r.Intn(3))
		var des *sqSchema
		var edits []*sqEdit
		if ci%10 == 9 {
			des = (&sqGen{r: r.Fork("other"), n: 1000}).schema(1 + r.Intn(3))
			edits = []*sqEdit{{Kind: "unrelated-schema"}}
		} else {
			des = cur.clone()
			for k := 0; k < 1+r.Intn(4); k++ {
				if ed := g.edit(des); ed != nil {
					edits = append(edits, ed)
				}
			}
		}
		c := c01Case{Current: cur.DDL(), Desired: des.DDL(), Edits: edits, FK: ci%2 == 0}
		if ci%3 == 0 {
			c.Rows = g.rowsSQL(cur, 3)
		}
		dir := filepath.Join(e.Work, fmt.Sprintf("c01-%d", ci))
		os.MkdirAll(dir, 0o755)
		defer os.RemoveAll(dir)
		res := c01Run(ctx, e, pool, &c, dir, ci%8 == 7)
		mu.Lock()
		e.Res.Count(fmt.Sprintf("c01-%d", ci), res.planned > 0, editKinds(edits)...)
		if res.skip != "" {
			e.Res.Tag("skipped:" + strings.SplitN(res.skip, ":", 3)[0] + ":" + trunc(strings.SplitN(res.skip+"::", ":", 3)[1], 50))
		}
		mu.Unlock()
		for _, v := range res.viols {
			viol(v[0], v[1], v[2], v[3], c)
		}
	})
	// the deterministic single-edit catalogue (does not depend on the seed): one edit per case, on a table that
	// nothing else touches, so that no other change hides it behind a rebuild
	for hi, c := range c01SingleEdits() {
		c := c
		dir := filepath.Join(e.Work, fmt.Sprintf("c01-single-%d", hi))
		os.MkdirAll(dir, 0o755)
		res := c01Run(ctx, e, pool, &c, dir, false)
		os.RemoveAll(dir)
		e.Res.Count(fmt.Sprintf("c01-single-%d", hi), res.planned > 0, editKinds(c.Edits)...)
		for _, v := range res.viols {
			viol(v[0], v[1], v[2], v[3], c)
		}
	}
	return nil
}

// c01SingleEdits: every ordered pair of referential actions (none, NO ACTION, RESTRICT, CASCADE, SET NULL,
// SET DEFAULT) for ON DELETE and for ON UPDATE of a named and of an unnamed foreign key, plus a few other
// edits that only change one attribute of one object.
func c01SingleEdits() []c01Case {
	const parent = "CREATE TABLE `parent` (`id` integer NOT NULL, PRIMARY KEY (`id`))"
	child := func(named bool, clause string) string {
		cn := ""
		if named {
			cn = "CONSTRAINT `fk_p` "
		}
		return "CREATE TABLE `child` (`id` integer NOT NULL, `pid` integer NULL DEFAULT 1, PRIMARY KEY (`id`), " + cn + "FOREIGN KEY (`pid`) REFERENCES `parent` (`id`)" + clause + ")"
	}
	actions := []string{"", "NO ACTION", "RESTRICT", "CASCADE", "SET NULL", "SET DEFAULT"}
	rows := []string{"INSERT INTO `parent` VALUES (1), (2)", "INSERT INTO `child` VALUES (1, 1), (2, 2), (3, NULL)"}
	var out []c01Case
	for _, ev := range []string{"DELETE", "UPDATE"} {
		for _, named := range []bool{true, false} {
			for _, a := range actions {
				for _, b := range actions {
					if a == b {
						continue
					}
					cl := func(x string) string {
						if x == "" {
							return ""
						}
						return " ON " + ev + " " + x
					}
					c := c01Case{
						Current: []string{parent, child(named, cl(a))},
						Desired: []string{parent, child(named, cl(b))},
						Edits:   []*sqEdit{{Kind: "single:fk-action", Table: "child", What: fmt.Sprintf("ON %s %q -> %q (named=%v)", ev, a, b, named)}},
						FK:      len(out)%2 == 0,
					}
					if len(out)%3 == 0 {
						c.Rows = rows
					}
					out = append(out, c)
				}
			}
		}
	}
	t := func(body string) []string { return []string{parent, "CREATE TABLE `t` (" + body + ")"} }
	single := func(kind, from, to string) {
		out = append(out, c01Case{Current: t(from), Desired: t(to), Edits: []*sqEdit{{Kind: "single:" + kind, Table: "t"}}, FK: true})
	}
	single("default", "`id` integer NOT NULL, `a` text NULL DEFAULT 'x', PRIMARY KEY (`id`)", "`id` integer NOT NULL, `a` text NULL DEFAULT 'y', PRIMARY KEY (`id`)")
	single("default-dropped", "`id` integer NOT NULL, `a` text NULL DEFAULT 'x', PRIMARY KEY (`id`)", "`id` integer NOT NULL, `a` text NULL, PRIMARY KEY (`id`)")
	single("nullability", "`id` integer NOT NULL, `a` text NULL DEFAULT 'x', PRIMARY KEY (`id`)", "`id` integer NOT NULL, `a` text NOT NULL DEFAULT 'x', PRIMARY KEY (`id`)")
	single("type", "`id` integer NOT NULL, `a` text NULL, PRIMARY KEY (`id`)", "`id` integer NOT NULL, `a` integer NULL, PRIMARY KEY (`id`)")
	single("pk-columns", "`id` integer NOT NULL, `a` integer NOT NULL, PRIMARY KEY (`id`)", "`id` integer NOT NULL, `a` integer NOT NULL, PRIMARY KEY (`id`, `a`)")
	single("pk-order", "`id` integer NOT NULL, `a` integer NOT NULL, PRIMARY KEY (`id`, `a`)", "`id` integer NOT NULL, `a` integer NOT NULL, PRIMARY KEY (`a`, `id`)")
	single("check-expression", "`id` integer NOT NULL, PRIMARY KEY (`id`), CONSTRAINT `ck` CHECK (id > 0)", "`id` integer NOT NULL, PRIMARY KEY (`id`), CONSTRAINT `ck` CHECK (id > 1)")
	single("unnamed-check-expression", "`id` integer NOT NULL, PRIMARY KEY (`id`), CHECK (id > 0)", "`id` integer NOT NULL, PRIMARY KEY (`id`), CHECK (id > 1)")
	single("inline-unique-added", "`id` integer NOT NULL, `a` integer NULL, PRIMARY KEY (`id`)", "`id` integer NOT NULL, `a` integer NULL, PRIMARY KEY (`id`), UNIQUE (`a`)")
	single("inline-unique-dropped", "`id` integer NOT NULL, `a` integer NULL, PRIMARY KEY (`id`), UNIQUE (`a`)", "`id` integer NOT NULL, `a` integer NULL, PRIMARY KEY (`id`)")
	single("pk-column-nullability", "`k` text NULL, `v` integer NULL, PRIMARY KEY (`k`)", "`k` text NOT NULL, `v` integer NULL, PRIMARY KEY (`k`)")
	single("pk-column-nullability-back", "`k` text NOT NULL, `v` integer NULL, PRIMARY KEY (`k`)", "`k` text NULL, `v` integer NULL, PRIMARY KEY (`k`)")
	single("composite-pk-column-nullability", "`a` integer NOT NULL, `b` text NULL, PRIMARY KEY (`a`, `b`)", "`a` integer NULL, `b` text NOT NULL, PRIMARY KEY (`a`, `b`)")
	single("unique-column-nullability", "`id` integer NOT NULL, `u` text NULL, PRIMARY KEY (`id`), UNIQUE (`u`)", "`id` integer NOT NULL, `u` text NOT NULL, PRIMARY KEY (`id`), UNIQUE (`u`)")
	single("fk-column-nullability", "`id` integer NOT NULL, `p` integer NULL, PRIMARY KEY (`id`), FOREIGN KEY (`p`) REFERENCES `parent` (`id`)", "`id` integer NOT NULL, `p` integer NOT NULL, PRIMARY KEY (`id`), FOREIGN KEY (`p`) REFERENCES `parent` (`id`)")
	single("indexed-column-default", "`id` integer NOT NULL, `u` text NULL DEFAULT 'a', PRIMARY KEY (`id`), UNIQUE (`u`)", "`id` integer NOT NULL, `u` text NULL DEFAULT 'b', PRIMARY KEY (`id`), UNIQUE (`u`)")
	// a foreign key re-pointed between its own table and another one whose key column has the same name
	single("fk-repointed-self-to-other", "`id` integer NOT NULL, `p` integer NULL, PRIMARY KEY (`id`), CONSTRAINT `fk` FOREIGN KEY (`p`) REFERENCES `t` (`id`)", "`id` integer NOT NULL, `p` integer NULL, PRIMARY KEY (`id`), CONSTRAINT `fk` FOREIGN KEY (`p`) REFERENCES `parent` (`id`)")
	single("fk-repointed-other-to-self", "`id` integer NOT NULL, `p` integer NULL, PRIMARY KEY (`id`), CONSTRAINT `fk` FOREIGN KEY (`p`) REFERENCES `parent` (`id`)", "`id` integer NOT NULL, `p` integer NULL, PRIMARY KEY (`id`), CONSTRAINT `fk` FOREIGN KEY (`p`) REFERENCES `t` (`id`)")
	single("unnamed-fk-repointed-self-to-other", "`id` integer NOT NULL, `p` integer NULL, PRIMARY KEY (`id`), FOREIGN KEY (`p`) REFERENCES `t` (`id`)", "`id` integer NOT NULL, `p` integer NULL, PRIMARY KEY (`id`), FOREIGN KEY (`p`) REFERENCES `parent` (`id`)")
	single("strict-added", "`id` integer NOT NULL, `a` text NULL, PRIMARY KEY (`id`)", "`id` integer NOT NULL, `a` text NULL, PRIMARY KEY (`id`)) STRICT; --")
	single("without-rowid-added", "`id` integer NOT NULL, `a` text NULL, PRIMARY KEY (`id`)", "`id` integer NOT NULL, `a` text NULL, PRIMARY KEY (`id`)) WITHOUT ROWID; --")
	// indexes: only the predicate / uniqueness / direction of an index changes
	idx := func(kind, from, to string) {
		base := "CREATE TABLE `t` (`id` integer NOT NULL, `a` integer NULL, `b` text NULL, PRIMARY KEY (`id`))"
		out = append(out, c01Case{Current: []string{parent, base, from}, Desired: []string{parent, base, to}, Edits: []*sqEdit{{Kind: "single:" + kind, Table: "t"}}, FK: true})
	}
	idx("partial-index-becomes-full", "CREATE INDEX `i` ON `t` (`a`) WHERE a > 0", "CREATE INDEX `i` ON `t` (`a`)")
	idx("unique-partial-index-becomes-full", "CREATE UNIQUE INDEX `i` ON `t` (`a`) WHERE a > 0", "CREATE UNIQUE INDEX `i` ON `t` (`a`)")
	idx("full-index-becomes-partial", "CREATE INDEX `i` ON `t` (`a`)", "CREATE INDEX `i` ON `t` (`a`) WHERE a > 0")
	idx("index-predicate-changed", "CREATE INDEX `i` ON `t` (`a`) WHERE a > 0", "CREATE INDEX `i` ON `t` (`a`) WHERE a > 1")
	idx("index-becomes-unique", "CREATE INDEX `i` ON `t` (`a`)", "CREATE UNIQUE INDEX `i` ON `t` (`a`)")
	idx("index-direction-changed", "CREATE INDEX `i` ON `t` (`a`, `b`)", "CREATE INDEX `i` ON `t` (`a` DESC, `b`)")
	idx("index-column-order-changed", "CREATE INDEX `i` ON `t` (`a`, `b`)", "CREATE INDEX `i` ON `t` (`b`, `a`)")
	idx("index-expression-changed", "CREATE INDEX `i` ON `t` (abs(a))", "CREATE INDEX `i` ON `t` (abs(a) + 1)")
	return out
}

func editKinds(es []*sqEdit) []string {
	var out []string
	for _, e := range es {
		out = append(out, "edit:"+e.Kind)
	}
	return out
}

type c01Res struct {
	planned int
	skip    string
	viols   [][4]string
}

func c01Run(ctx context.Context, e *Env, pool *hx.Pool, c *c01Case, dir string, cli bool) (res c01Res) {
	add := func(kind, sig, what, chk string) { res.viols = append(res.viols, [4]string{kind, sig, what, chk}) }
	dbp, devp := filepath.Join(dir, "db.sqlite"), filepath.Join(dir, "dev.sqlite")
	db, err := openSQLite(dbp, false)
	if err != nil {
		res.skip = "open"
		return
	}
	defer db.Close()
	if err := execAll(db, append(append([]string{}, c.Current...), c.Rows...)); err != nil {
		res.skip = "generator: current schema/rows rejected by SQLite: " + trunc(err.Error(), 80)
		return
	}
	dev, err := openSQLite(devp, false)
	if err != nil {
		res.skip = "open"
		return
	}
	defer dev.Close()
	if err := execAll(dev, c.Desired); err != nil {
		res.skip = "generator: desired schema rejected by SQLite: " + trunc(err.Error(), 80)
		return
	}
	if c.FK {
		db.Exec("PRAGMA foreign_keys = on")
	}
	drv, err := sqlite.Open(db)
	if err != nil {
		res.skip = "driver"
		return
	}
	ddrv, _ := sqlite.Open(dev)
	var desired, current *schema.Schema
	var changes []schema.Change
	var plan *migrate.Plan
	step := func(name string, f func() error) bool {
		var err error
		func() {
			defer func() {
				if p := recover(); p != nil {
					err = fmt.Errorf("panic: %v", p)
				}
			}()
			err = f()
		}()
		if err != nil {
			add("failing-input", "step-fails:"+name, fmt.Sprintf("%s fails: %v\ncurrent:\n%s\ndesired:\n%s", name, trunc(err.Error(), 300), strings.Join(c.Current, ";\n"), strings.Join(c.Desired, ";\n")), "Props.C01 "+name)
			return false
		}
		return true
	}
	if !step("inspect", func() (err error) {
		if desired, err = inspectMain(ctx, ddrv); err != nil {
			return
		}
		current, err = inspectMain(ctx, drv)
		return
	}) {
		return
	}
	if !step("diff", func() (err error) {
		changes, err = drv.SchemaDiff(current, desired, schema.DiffNormalized())
		return
	}) {
		return
	}
	if !step("plan", func() (err error) {
		plan, err = drv.PlanChanges(ctx, "plan", changes)
		return
	}) {
		return
	}
	res.planned = len(plan.Changes)
	// model: shape of the program
	var ans struct {
		Shape []string `json:"shape"`
	}
	if err := pool.AskInto(map[string]any{"op": "plan.shape", "changes": changeKinds(changes)}, &ans); err == nil {
		got := c01Squash(planShape(plan))
		if fmt.Sprint(got) != fmt.Sprint(ans.Shape) {
			add("no-failing-input-found", "corr-plan-shape-mismatch", fmt.Sprintf("changes %s: planned program %v, model %v\n%s", kindsStr(changes), got, ans.Shape, planText(plan)), "correspondence Atlas.Plan.shape")
		}
	}
	if err := func() (err error) {
		defer func() {
			if p := recover(); p != nil {
				err = fmt.Errorf("panic: %v", p)
			}
		}()
		return drv.ApplyChanges(ctx, changes)
	}(); err != nil {
		if len(c.Rows) > 0 && (strings.Contains(err.Error(), "UNIQUE constraint failed") || strings.Contains(err.Error(), "NOT NULL constraint failed")) {
			res.skip = "data: the existing rows do not satisfy the desired constraints"
			return
		}
		add("failing-input", "step-fails:apply", fmt.Sprintf("apply fails: %v\nplan:\n%s\ncurrent:\n%s\ndesired:\n%s", trunc(err.Error(), 300), planText(plan), strings.Join(c.Current, ";\n"), strings.Join(c.Desired, ";\n")), "Props.C01 apply")
		return
	}
	// (1) Atlas's own view
	var after *schema.Schema
	var again []schema.Change
	if !step("re-inspect", func() (err error) {
		if after, err = inspectMain(ctx, drv); err != nil {
			return
		}
		// the desired state is inspected again: diffing mutates its input (normalisation)
		d2, err := inspectMain(ctx, ddrv)
		if err != nil {
			return err
		}
		again, err = drv.SchemaDiff(after, d2, schema.DiffNormalized())
		return
	}) {
		return
	}
	if len(again) > 0 {
		p2, _ := drv.PlanChanges(ctx, "again", again)
		add("failing-input", "not-converged", fmt.Sprintf("after applying the plan the diff to the desired schema is not empty: %s\nsecond plan:\n%s\nfirst plan:\n%s\ncurrent:\n%s\ndesired:\n%s", kindsStr(again), planText(p2), planText(plan), strings.Join(c.Current, ";\n"), strings.Join(c.Desired, ";\n")), "Props.C01 converges")
	}
	// (2) independent catalogue
	ca, err1 := catalog(db)
	cd, err2 := catalog(dev)
	if err1 != nil || err2 != nil {
		add("no-failing-input-found", "catalog-error", fmt.Sprint(err1, err2), "harness")
	} else if strings.Join(ca, "\n") != strings.Join(cd, "\n") {
		add("failing-input", "catalogue-differs", fmt.Sprintf("after the apply the live database differs from the desired one (pragma catalogue): %s\nplan:\n%s\ncurrent:\n%s\ndesired:\n%s", catDiff(ca, cd), planText(plan), strings.Join(c.Current, ";\n"), strings.Join(c.Desired, ";\n")), "Props.C01 converges (independent reader)")
	}
	if c.FK {
		var n int
		rows, err := db.Query("PRAGMA foreign_key_check")
		if err == nil {
			for rows.Next() {
				n++
			}
			rows.Close()
		}
		if n > 0 && len(c.Rows) == 0 {
			add("failing-input", "fk-violations-after-apply", fmt.Sprintf("%d foreign key violations after the apply", n), "Props.C01")
		}
	}
	if cli {
		c01CLI(e, c, dir, add)
	}
	return
}

// c01Squash removes pragma statements and collapses the shape per table into a canonical list.
func c01Squash(shape []string) []string {
	var out []string
	for _, s := range shape {
		if s == "pragma" || s == "seq" {
			continue
		}
		out = append(out, s)
	}
	return out
}

func planText(p *migrate.Plan) string {
	if p == nil {
		return "<nil>"
	}
	var b strings.Builder
	for _, c := range p.Changes {
		b.WriteString("  " + c.Cmd + ";\n")
	}
	return b.String()
}

func catDiff(a, b []string) string {
	ma, mb := map[string]bool{}, map[string]bool{}
	for _, x := range a {
		ma[x] = true
	}
	for _, x := range b {
		mb[x] = true
	}
	var out []string
	for _, x := range a {
		if !mb[x] {
			out = append(out, "live only: "+x)
		}
	}
	for _, x := range b {
		if !ma[x] {
			out = append(out, "desired only: "+x)
		}
	}
	return strings.Join(out, "; ")
}

// c01CLI: the same pair through the real binary.
func c01CLI(e *Env, c *c01Case, dir string, add func(kind, sig, what, chk string)) {
	if e.Atlas == "" {
		return
	}
	cdir := filepath.Join(dir, "cli")
	os.MkdirAll(cdir, 0o755)
	if err := execSQL(filepath.Join(cdir, "db.sqlite"), append(append([]string{}, c.Current...), c.Rows...)...); err != nil {
		return
	}
	os.WriteFile(filepath.Join(cdir, "desired.sql"), []byte(strings.Join(c.Desired, ";\n")+";\n"), 0o644)
	url := "sqlite://db.sqlite"
	if c.FK {
		url += "?_fk=1"
	}
	o := runAtlas(e, cdir, nil, "schema", "apply", "--url", url, "--to", "file://desired.sql", "--dev-url", "sqlite://dev?mode=memory", "--auto-approve")
	if o.Code != 0 {
		add("failing-input", "cli-apply-fails", fmt.Sprintf("atlas schema apply fails: %s\ncurrent:\n%s\ndesired:\n%s", trunc(o.Stderr+o.Stdout, 400), strings.Join(c.Current, ";\n"), strings.Join(c.Desired, ";\n")), "Props.C01 CLI")
		return
	}
	c01CLINoDev(e, c, cdir, add)
	o2 := runAtlas(e, cdir, nil, "schema", "diff", "--from", url, "--to", "file://desired.sql", "--dev-url", "sqlite://dev?mode=memory")
	if o2.Code != 0 || !strings.Contains(o2.Stdout, "Schemas are synced") {
		add("failing-input", "cli-not-synced", fmt.Sprintf("after `schema apply`, `schema diff` reports (exit %d):\n%s\ncurrent:\n%s\ndesired:\n%s", o2.Code, trunc(o2.Stdout+o2.Stderr, 500), strings.Join(c.Current, ";\n"), strings.Join(c.Desired, ";\n")), "Props.C01 CLI")
	}
}

// c01CLINoDev: the desired state as an HCL document and NO dev database (`schema apply --to file://x.hcl`
// as it is commonly run), and `schema diff` between two live databases: the database ends up as the desired
// one (independent pragma catalogue), and two databases that differ are never reported as synced.
func c01CLINoDev(e *Env, c *c01Case, cdir string, add func(kind, sig, what, chk string)) {
	desp, livep := filepath.Join(cdir, "des.sqlite"), filepath.Join(cdir, "live2.sqlite")
	if err := execSQL(desp, c.Desired...); err != nil {
		return
	}
	if err := execSQL(livep, append(append([]string{}, c.Current...), c.Rows...)...); err != nil {
		return
	}
	ctxText := func() string {
		return fmt.Sprintf("current:\n%s\ndesired:\n%s", strings.Join(c.Current, ";\n"), strings.Join(c.Desired, ";\n"))
	}
	cat := func(p string) ([]string, error) {
		db, err := openSQLite(p, false)
		if err != nil {
			return nil, err
		}
		defer db.Close()
		return catalog(db)
	}
	want, err := cat(desp)
	if err != nil {
		return
	}
	before, _ := cat(livep)
	// two live databases: "synced" only if they are the same
	d := runAtlas(e, cdir, nil, "schema", "diff", "--from", "sqlite://live2.sqlite", "--to", "sqlite://des.sqlite")
	if d.Code == 0 && strings.Contains(d.Stdout, "Schemas are synced") && catDiff(before, want) != "" {
		add("failing-input", "cli-synced-but-different", fmt.Sprintf("`schema diff` of two live databases (no dev database) reports them as synced, they differ: %s\n%s", catDiff(before, want), ctxText()), "Props.C01 CLI (no dev database)")
	}
	in := runAtlas(e, cdir, nil, "schema", "inspect", "--url", "sqlite://des.sqlite")
	if in.Code != 0 || os.WriteFile(filepath.Join(cdir, "desired.hcl"), []byte(in.Stdout), 0o644) != nil {
		return
	}
	o := runAtlas(e, cdir, nil, "schema", "apply", "--url", "sqlite://live2.sqlite", "--to", "file://desired.hcl", "--auto-approve")
	if o.Code != 0 {
		return // the HCL path is judged by C03; failures of the apply are reported by the SQL path above
	}
	got, err := cat(livep)
	if err != nil {
		return
	}
	if df := catDiff(got, want); df != "" {
		add("failing-input", "cli-hcl-apply-does-not-converge", fmt.Sprintf("after `schema apply --to file://desired.hcl` (no dev database) the live database differs from the desired one: %s\noutput:\n%s\n%s", df, trunc(o.Stdout, 400), ctxText()), "Props.C01 CLI (no dev database)")
		return
	}
	// the same document as a person writes it: the primary keys carry a name (the optional block label).
	// SQLite cannot name a primary key, so the name must not make the next plan non-empty.
	if strings.Contains(in.Stdout, "primary_key {") {
		n := 0
		named := rePKBlock.ReplaceAllStringFunc(in.Stdout, func(string) string {
			n++
			return fmt.Sprintf("primary_key \"pk_%d\" {", n)
		})
		os.WriteFile(filepath.Join(cdir, "desired_named.hcl"), []byte(named), 0o644)
		o2 := runAtlas(e, cdir, nil, "schema", "apply", "--url", "sqlite://live2.sqlite", "--to", "file://desired_named.hcl", "--auto-approve")
		if o2.Code == 0 && !strings.Contains(o2.Stdout, "Schema is synced") {
			add("failing-input", "cli-hcl-named-pk-replanned", fmt.Sprintf("the converged database is planned again when the primary keys of the desired HCL carry a name (SQLite cannot name them): %s\n%s", trunc(o2.Stdout, 400), ctxText()), "Props.C01 CLI (no dev database)")
		}
	}
}

var rePKBlock = regexp.MustCompile(`primary_key \{`)
