package main

import (
	"context"
	"database/sql"
	"fmt"
	"strings"

	"ariga.io/atlas/sql/schema"
	"ariga.io/atlas/sql/sqlite"
	"verifharness/internal/hx"
)

// c05KeyChange: rebuilds that change the KEY or the constraints of a table whose rows do not all satisfy the new
// definition (rows colliding on the new primary key, NULLs under a new NOT NULL, rows failing a new CHECK, for
// rowid and WITHOUT ROWID tables): the apply either fails and leaves every row where it was, or succeeds with
// every row - it never succeeds with fewer rows. The copy statement is the plain INSERT of the Lean copy plan.
func c05KeyChange(e *Env, pool *hx.Pool) {
	ctx := context.Background()
	cases := []struct {
		name   string
		create string
		rows   string
		edit   func(t *schema.Table)
	}{
		{"primary key (a, b) -> (a), rows collide on a", "CREATE TABLE t (a integer NOT NULL, b integer NOT NULL, v text, PRIMARY KEY (a, b))", "(1,1,'x'),(1,2,'y'),(2,1,'z'),(3,1,NULL)", func(t *schema.Table) {
			a, _ := t.Column("a")
			t.SetPrimaryKey(schema.NewPrimaryKey(a))
		}},
		{"primary key (a, b) -> (a), no collision", "CREATE TABLE t (a integer NOT NULL, b integer NOT NULL, v text, PRIMARY KEY (a, b))", "(1,1,'x'),(2,2,'y'),(3,1,'z'),(4,1,NULL)", func(t *schema.Table) {
			a, _ := t.Column("a")
			t.SetPrimaryKey(schema.NewPrimaryKey(a))
		}},
		{"WITHOUT ROWID: primary key (a, b) -> (a), rows collide on a", "CREATE TABLE t (a integer NOT NULL, b integer NOT NULL, v text, PRIMARY KEY (a, b)) WITHOUT ROWID", "(1,1,'x'),(1,2,'y'),(2,1,'z'),(3,1,NULL)", func(t *schema.Table) {
			a, _ := t.Column("a")
			t.SetPrimaryKey(schema.NewPrimaryKey(a))
		}},
		{"WITHOUT ROWID: v becomes NOT NULL, two rows hold NULL", "CREATE TABLE t (a integer NOT NULL, v text, PRIMARY KEY (a)) WITHOUT ROWID", "(1,'x'),(2,NULL),(3,'z'),(4,NULL)", func(t *schema.Table) {
			v, _ := t.Column("v")
			v.Type.Null = false
		}},
		{"v becomes NOT NULL, two rows hold NULL", "CREATE TABLE t (a integer NOT NULL, v text, PRIMARY KEY (a))", "(1,'x'),(2,NULL),(3,'z'),(4,NULL)", func(t *schema.Table) {
			v, _ := t.Column("v")
			v.Type.Null = false
		}},
		{"a new CHECK that one row fails", "CREATE TABLE t (a integer NOT NULL, v text, PRIMARY KEY (a))", "(1,'x'),(2,'y'),(3,'z'),(-4,'w')", func(t *schema.Table) {
			t.AddChecks(schema.NewCheck().SetName("a_pos").SetExpr("(a > 0)"))
		}},
		{"a new UNIQUE index over values that repeat", "CREATE TABLE t (a integer NOT NULL, v text, PRIMARY KEY (a))", "(1,'x'),(2,'x'),(3,'z'),(4,'w')", func(t *schema.Table) {
			v, _ := t.Column("v")
			t.AddIndexes(schema.NewUniqueIndex("t_v").AddColumns(v))
		}},
	}
	for ci, c := range cases {
		db, err := sql.Open("sqlite3", fmt.Sprintf("file:c05key%d?mode=memory&cache=shared", ci))
		if err != nil {
			continue
		}
		func() {
			defer db.Close()
			if _, err := db.Exec(c.create); err != nil {
				return
			}
			if _, err := db.Exec("INSERT INTO t VALUES " + c.rows); err != nil {
				return
			}
			id := "rebuild over rows that do not fit: " + c.name
			rep := map[string]any{"case": id, "create": c.create, "rows": c.rows}
			e.Res.Count("c05key:"+c.name, true, "key-change-rebuild")
			drv, err := sqlite.Open(db)
			if err != nil {
				return
			}
			cur, err := drv.InspectSchema(ctx, "main", nil)
			if err != nil {
				return
			}
			des, err := drv.InspectSchema(ctx, "main", nil)
			if err != nil {
				return
			}
			dt, _ := des.Table("t")
			c.edit(dt)
			changes, err := drv.SchemaDiff(cur, des)
			if err != nil || len(changes) == 0 {
				e.Res.Violate("no-failing-input-found", "harness-setup", fmt.Sprintf("%s: no changes (%v)", id, err), "harness", rep)
				return
			}
			var cmds []string
			if plan, perr := drv.PlanChanges(ctx, "p", changes); perr == nil {
				for _, ch := range plan.Changes {
					cmds = append(cmds, ch.Cmd)
				}
				for _, ch := range changes {
					if mt, ok := ch.(*schema.ModifyTable); ok {
						c05Model(pool, mt, plan, func(kind, sig, what, chk string) {
							e.Res.Violate(kind, sig, id+": "+what, chk, rep)
						})
					}
				}
			}
			rep["plan"] = cmds
			aerr := drv.ApplyChanges(ctx, changes)
			var n int
			if err := db.QueryRow("SELECT count(*) FROM t").Scan(&n); err != nil {
				e.Res.Violate("failing-input", "rows-lost", fmt.Sprintf("%s: table t cannot be read after the apply (err=%v): %v", id, aerr, err), "Props.C05 rows kept", rep)
				return
			}
			if n != 4 {
				e.Res.Violate("failing-input", "rows-lost", fmt.Sprintf("%s: the apply returns %v and table t holds %d of 4 rows; plan: %s", id, aerr, n, trunc(strings.Join(cmds, "; "), 400)), "Props.C05 row_count_preserved", rep)
			}
		}()
	}
}

// c05TypeKept: a rebuild forced by a change of ANOTHER column keeps the declared type of the untouched columns as
// written - also types Atlas does not know (several words, arguments): the affinity of a column decides how
// SQLite stores '007' or '1e3', so every value is compared in its stored form (`quote(col)`) before and after.
func c05TypeKept(e *Env) {
	ctx := context.Background()
	for ci, ty := range []string{"NATIONAL CHARACTER VARYING(20)", "VARCHAR2 (20)", "MY TYPE", "Point3D", "text", "varying character(9)", "STRING"} {
		db, err := sql.Open("sqlite3", fmt.Sprintf("file:c05ty%d?mode=memory&cache=shared", ci))
		if err != nil {
			continue
		}
		func() {
			defer db.Close()
			if _, err := db.Exec(fmt.Sprintf("CREATE TABLE t (id integer PRIMARY KEY, v %s, gone integer)", ty)); err != nil {
				return
			}
			if _, err := db.Exec("INSERT INTO t VALUES (1, '007', 1), (2, '1e3', 2), (3, ' 42 ', 3), (4, 'x', 4), (5, NULL, 5)"); err != nil {
				return
			}
			stored := func() string {
				rows, err := db.Query("SELECT id, quote(v), typeof(v) FROM t ORDER BY id")
				if err != nil {
					return "error: " + err.Error()
				}
				defer rows.Close()
				var out []string
				for rows.Next() {
					var id int
					var q, ty string
					rows.Scan(&id, &q, &ty)
					out = append(out, fmt.Sprintf("%d:%s:%s", id, q, ty))
				}
				return strings.Join(out, " ")
			}
			before := stored()
			id := fmt.Sprintf("rebuild that drops another column; untouched column declared %q", ty)
			rep := map[string]any{"case": id}
			e.Res.Count("c05type:"+ty, true, "type-kept-rebuild")
			drv, err := sqlite.Open(db)
			if err != nil {
				return
			}
			cur, err1 := drv.InspectSchema(ctx, "main", nil)
			des, err2 := drv.InspectSchema(ctx, "main", nil)
			if err1 != nil || err2 != nil {
				return
			}
			dt, _ := des.Table("t")
			dt.Columns = dt.Columns[:2]
			changes, err := drv.SchemaDiff(cur, des)
			if err != nil || len(changes) == 0 {
				return
			}
			if aerr := drv.ApplyChanges(ctx, changes); aerr != nil {
				e.Res.Note("c05 type-kept: apply fails for %q: %v", ty, aerr)
				return
			}
			if after := stored(); after != before {
				e.Res.Violate("failing-input", "values-rewritten-by-rebuild", fmt.Sprintf("%s: the stored values changed: before [%s], after [%s]", id, before, after), "Props.C05 values_preserved (declared type kept)", rep)
			}
		}()
	}
}
