package main

// Shared infrastructure for the properties that are observed through the real `atlas` binary on real
// SQLite files (C10, C13, C14, C18, ...): process runner, migration-directory writer, and an
// independent database reader (mattn/go-sqlite3 used directly, never Atlas's inspector).

import (
	"bytes"
	"context"
	"database/sql"
	"fmt"
	"os"
	"os/exec"
	"path/filepath"
	"sort"
	"strings"
	"sync/atomic"
	"syscall"
	"time"

	"ariga.io/atlas/sql/migrate"

	_ "github.com/mattn/go-sqlite3"
)

type cliOut struct {
	Code   int    `json:"code"` // exit code; 137 = killed by the crash hook
	Killed bool   `json:"killed"`
	Stdout string `json:"stdout"`
	Stderr string `json:"stderr"`
	Trace  []string
}

var cliRuns atomic.Int64

// runAtlas runs the CLI in dir `cwd` with a private TMPDIR (SQLite advisory lock files live there).
func runAtlas(e *Env, cwd string, env map[string]string, args ...string) cliOut {
	cliRuns.Add(1)
	tmp := env["VERIF_TMPDIR"] // a TMPDIR shared between runs (the advisory lock file of a killed run stays behind)
	if tmp == "" {
		tmp, _ = os.MkdirTemp(cwd, "tmp")
		defer os.RemoveAll(tmp)
	}
	ctx, cancel := context.WithTimeout(context.Background(), 60*time.Second)
	defer cancel()
	cmd := exec.CommandContext(ctx, e.Atlas, args...)
	cmd.Dir = cwd
	cmd.Env = []string{"HOME=" + cwd, "TMPDIR=" + tmp, "ATLAS_NO_UPDATE_NOTIFIER=1", "ATLAS_NO_UPGRADE_SUGGESTIONS=1", "PATH=/usr/bin:/bin"}
	trace := ""
	for k, v := range env {
		if k == "VERIF_TMPDIR" {
			continue
		}
		cmd.Env = append(cmd.Env, k+"="+v)
		if k == "VERIF_TRACE" {
			trace = v
		}
	}
	var so, se bytes.Buffer
	cmd.Stdout, cmd.Stderr = &so, &se
	err := cmd.Run()
	out := cliOut{Stdout: so.String(), Stderr: se.String()}
	if err != nil {
		if ee, ok := err.(*exec.ExitError); ok {
			out.Code = ee.ExitCode()
			if ws, ok := ee.Sys().(syscall.WaitStatus); ok && ws.Signaled() {
				out.Killed, out.Code = true, 128+int(ws.Signal())
			}
		} else {
			out.Code = -1
			out.Stderr += "\n" + err.Error()
		}
	}
	if trace != "" {
		if b, err := os.ReadFile(trace); err == nil {
			for _, l := range strings.Split(strings.TrimSpace(string(b)), "\n") {
				if l != "" {
					out.Trace = append(out.Trace, l)
				}
			}
		}
	}
	return out
}

// writeMigrationDir writes the files and a fresh atlas.sum (computed with the repository's own code).
func writeMigrationDir(path string, files []dirFile) error {
	os.RemoveAll(path)
	if err := os.MkdirAll(path, 0o755); err != nil {
		return err
	}
	for _, f := range files {
		if err := os.WriteFile(filepath.Join(path, f.Name), []byte(f.Content), 0o644); err != nil {
			return err
		}
	}
	d, err := migrate.NewLocalDir(path)
	if err != nil {
		return err
	}
	sum, err := d.Checksum()
	if err != nil {
		return err
	}
	return migrate.WriteSumFile(d, sum)
}

// dbDump is everything an independent client sees in a database file.
type dbDump struct {
	Master []string            `json:"master"` // type|name|tbl_name|sql, sorted
	Rows   map[string][]string `json:"rows"`   // table -> quoted rows, sorted
	Revs   []revRow            `json:"revs"`   // atlas_schema_revisions, by version
	Err    string              `json:"err,omitempty"`
}

type revRow struct {
	Version string `json:"version"`
	Type    int    `json:"type"`
	Applied int    `json:"applied"`
	Total   int    `json:"total"`
	Error   string `json:"error"`
	Hash    string `json:"hash"`
	Partial string `json:"partial"`
}

// dumpDB reads the database file with a private connection. A missing file is an empty dump.
func dumpDB(path string) (d dbDump) {
	d.Rows = map[string][]string{}
	if _, err := os.Stat(path); err != nil {
		return d
	}
	db, err := sql.Open("sqlite3", "file:"+path+"?_busy_timeout=5000")
	if err != nil {
		d.Err = err.Error()
		return
	}
	defer db.Close()
	rows, err := db.Query("SELECT type, name, tbl_name, coalesce(sql,'') FROM sqlite_master")
	if err != nil {
		d.Err = err.Error()
		return
	}
	var tables []string
	for rows.Next() {
		var t, n, tn, s string
		if err := rows.Scan(&t, &n, &tn, &s); err != nil {
			d.Err = err.Error()
			break
		}
		d.Master = append(d.Master, t+"|"+n+"|"+tn+"|"+strings.Join(strings.Fields(s), " "))
		if t == "table" {
			tables = append(tables, n)
		}
	}
	rows.Close()
	sort.Strings(d.Master)
	for _, t := range tables {
		cols, err := db.Query(fmt.Sprintf("SELECT name FROM pragma_table_info(%s)", quoteLit(t)))
		if err != nil {
			d.Err = err.Error()
			return
		}
		var cs []string
		for cols.Next() {
			var c string
			cols.Scan(&c)
			cs = append(cs, c)
		}
		cols.Close()
		if t == "atlas_schema_revisions" {
			rs, err := db.Query("SELECT version, type, applied, total, error, hash, coalesce(partial_hashes,'') FROM atlas_schema_revisions ORDER BY version")
			if err != nil {
				d.Err = err.Error()
				return
			}
			for rs.Next() {
				var r revRow
				if err := rs.Scan(&r.Version, &r.Type, &r.Applied, &r.Total, &r.Error, &r.Hash, &r.Partial); err != nil {
					d.Err = err.Error()
				}
				d.Revs = append(d.Revs, r)
			}
			rs.Close()
			continue
		}
		var qs []string
		for _, c := range cs {
			qs = append(qs, "quote("+quoteIdentFor("sqlite", c)+")")
		}
		if len(qs) == 0 {
			continue
		}
		rs, err := db.Query("SELECT " + strings.Join(qs, "||','||") + " FROM " + quoteIdentFor("sqlite", t))
		if err != nil {
			d.Err = err.Error()
			return
		}
		d.Rows[t] = []string{}
		for rs.Next() {
			var s sql.NullString
			rs.Scan(&s)
			d.Rows[t] = append(d.Rows[t], s.String)
		}
		rs.Close()
		sort.Strings(d.Rows[t])
	}
	return d
}

// schemaData renders the dump without the revision table's volatile columns (timestamps are never
// read), for equality checks. withRevs adds version/applied/total/error/hash of every revision.
func (d dbDump) canon(withRevs bool) string {
	var b strings.Builder
	for _, m := range d.Master {
		b.WriteString(m + "\n")
	}
	var ts []string
	for t := range d.Rows {
		ts = append(ts, t)
	}
	sort.Strings(ts)
	for _, t := range ts {
		for _, r := range d.Rows[t] {
			b.WriteString(t + ": " + r + "\n")
		}
	}
	if withRevs {
		for _, r := range d.Revs {
			fmt.Fprintf(&b, "rev %s type=%d %d/%d err=%q hash=%s partial=%s\n", r.Version, r.Type, r.Applied, r.Total, r.Error, r.Hash, r.Partial)
		}
	}
	if d.Err != "" {
		b.WriteString("ERR " + d.Err + "\n")
	}
	return b.String()
}

// execSQL runs statements on a database file with the independent client (set-up of cases).
func execSQL(path string, stmts ...string) error {
	db, err := sql.Open("sqlite3", "file:"+path+"?_busy_timeout=5000")
	if err != nil {
		return err
	}
	defer db.Close()
	for _, s := range stmts {
		if _, err := db.Exec(s); err != nil {
			return fmt.Errorf("%s: %w", s, err)
		}
	}
	return nil
}

func copyFile(from, to string) error {
	b, err := os.ReadFile(from)
	if err != nil {
		return err
	}
	return os.WriteFile(to, b, 0o644)
}
