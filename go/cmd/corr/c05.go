package main

// C05: planned table changes never lose rows or values of surviving columns.
// Populated SQLite databases (3-6 rows per table incl. NULLs, self-referencing and cross foreign
// keys with CASCADE / SET NULL actions, with and without foreign-key enforcement on the connection) x
// desired schemas obtained by 1-3 elementary edits (add/drop/modify column incl. NULL -> NOT NULL
// with default, type and default changes, indexes, checks, foreign keys, options): inspect -> diff ->
// ApplyChanges on the real engine; every row (keyed by id) of every table that exists before and
// after must still be there, and every column that exists before and after with the same declared
// type must hold the same value (a NULL may only become the new default when the column becomes
// NOT NULL); tables that are not part of the change set must be byte-identical. The INSERT ... SELECT
// of every rebuild is compared with the Lean model Atlas.Copy.copyPlan.

import (
	"context"
	"fmt"
	"os"
	"path/filepath"
	"regexp"
	"sort"
	"strings"
	"sync"

	"ariga.io/atlas/sql/migrate"
	"ariga.io/atlas/sql/schema"
	"ariga.io/atlas/sql/sqlite"
	"verifharness/internal/hx"
)

func init() { commands["C05"] = runC05 }

type c05Case struct {
	Current []string  `json:"current"`
	Rows    []string  `json:"rows"`
	Desired []string  `json:"desired"`
	Edits   []*sqEdit `json:"edits"`
	FK      bool      `json:"fk_enforced"`
}

var reCopy = regexp.MustCompile("^INSERT INTO `(new_[^`]+)` \\((.*)\\) SELECT (.*) FROM `([^`]+)`$")

func splitTop(s string) []string {
	var out []string
	depth, start := 0, 0
	inq := false
	for i, c := range s {
		switch {
		case c == '\'':
			inq = !inq
		case inq:
		case c == '(':
			depth++
		case c == ')':
			depth--
		case c == ',' && depth == 0:
			out = append(out, strings.TrimSpace(s[start:i]))
			start = i + 1
		}
	}
	return append(out, strings.TrimSpace(s[start:]))
}

func runC05(e *Env) error {
	pool, err := hx.NewPool(e.Model, 4)
	if err != nil {
		return err
	}
	defer pool.Close()
	n := 400
	if e.Thorough() {
		n = 6000
	}
	e.Res.Rule = fmt.Sprintf("%d populated SQLite databases (2-4 tables, 4 rows each incl. NULLs; self/cross foreign keys with CASCADE/SET NULL/RESTRICT; fk enforcement on for half) x desired = 1-3 elementary edits: ApplyChanges on a real engine; monitors: no row lost or added, every surviving same-typed column keeps its value (NULL -> default only when the column becomes NOT NULL), untouched tables identical, no foreign-key violations introduced; an apply the engine refuses (temporary name taken; a nullable column with NULLs made NOT NULL without a default) leaves every row and value in place; the INSERT..SELECT of every rebuild == Lean copyPlan; non-trivial = at least one table rebuilt or altered with rows; distinct by seed", n)
	var mu sync.Mutex
	viol := func(kind, sig, what, chk string, rep any) {
		mu.Lock()
		e.Res.Violate(kind, sig, what, chk, rep)
		mu.Unlock()
	}
	ctx := context.Background()
	parallel(e.Workers, n, func(ci int) {
		r := hx.NewRand(e.Seed, fmt.Sprintf("c05-%d", ci))
		g := &sqGen{r: r}
		cur := g.schema(2 + r.Intn(3))
		// make self references with cascading actions likely
		for _, t := range cur.Tables {
			if len(selfRefs(t)) == 0 && r.Chance(1, 3) {
				g.addFK(t, t)
				if k := len(t.FKs); k > 0 {
					t.FKs[k-1].OnDelete = hx.Pick(r, []string{"CASCADE", "SET NULL"})
				}
			}
		}
		des := cur.clone()
		var edits []*sqEdit
		for k := 0; k < 1+r.Intn(3); k++ {
			if ed := g.edit(des); ed != nil {
				edits = append(edits, ed)
			}
		}
		if ci%4 == 1 {
			// two modified columns in one rebuild: an earlier one becomes NOT NULL with a default (back-filled),
			// a later one only changes its default and stays nullable
			for _, t := range des.Tables {
				var cs []*sqCol
				for i := range t.Cols {
					c := &t.Cols[i]
					if c.Gen == "" && c.Name != "id" && c.Name != "k2" && !c.NotNull && !strings.HasPrefix(c.Name, "r") && !indexed(t, c.Name) {
						cs = append(cs, c)
					}
				}
				if len(cs) >= 2 {
					cs[0].NotNull = true
					for cs[0].Default == "" || cs[0].Default == "NULL" {
						cs[0].Default = g.defaultFor(cs[0].Type)
					}
					old := cs[1].Default
					for i := 0; i < 8 && (cs[1].Default == old || cs[1].Default == "NULL"); i++ {
						cs[1].Default = g.defaultFor(cs[1].Type)
					}
					edits = append(edits, &sqEdit{"backfill+later-default", t.Name, cs[0].Name + "," + cs[1].Name})
					break
				}
			}
		}
		if ci%9 == 4 {
			// a nullable column (holding NULLs in some rows) becomes NOT NULL without a default: the engine rejects
			// the copy; the apply has to fail and must not take the rows
			for _, t := range des.Tables {
				done := false
				for i := range t.Cols {
					c := &t.Cols[i]
					if c.Gen == "" && c.Name != "id" && c.Name != "k2" && !c.NotNull && !strings.HasPrefix(c.Name, "r") && !indexed(t, c.Name) && cur.table(t.Name) != nil && cur.table(t.Name).col(c.Name) != nil {
						c.NotNull, c.Default = true, ""
						edits = append(edits, &sqEdit{"not-null-without-default", t.Name, c.Name})
						done = true
						break
					}
				}
				if done {
					break
				}
			}
		}
		fkOn := ci%2 == 0
		if ci%5 == 3 {
			// a populated parent without foreign keys of its own is rebuilt for a non-column reason while a child
			// refers to it with a cascading action; the child may spell the parent's name in another letter case,
			// or lose its foreign key in the same apply; the desired definition may list the columns in another order
			var parents []*sqTable
			for _, t := range cur.Tables {
				if len(t.FKs) == 0 && len(uniqueTargets(t)) > 0 && des.table(t.Name) != nil {
					parents = append(parents, t)
				}
			}
			if len(parents) > 0 && len(cur.Tables) > 1 {
				p := hx.Pick(r, parents)
				var child *sqTable
				for child == nil || child == p {
					child = hx.Pick(r, cur.Tables)
				}
				if dc, dp := des.table(child.Name), des.table(p.Name); dc != nil && dp != nil && len(dp.FKs) == 0 {
					n := len(child.FKs)
					g.addFK(child, p)
					if len(child.FKs) > n {
						fk := &child.FKs[len(child.FKs)-1]
						fk.OnDelete, fk.OnUpdate = hx.Pick(r, []string{"CASCADE", "SET NULL"}), ""
						if r.Chance(1, 2) {
							fk.RefSpell = strings.ToUpper(p.Name)
						}
						for _, cn := range fk.Cols {
							dc.Cols = append(dc.Cols, *child.col(cn))
						}
						if r.Chance(1, 2) {
							dc.FKs = append(dc.FKs, *fk)
						} else {
							edits = append(edits, &sqEdit{"drop-fk", child.Name, "cascading reference to " + p.Name})
						}
						dp.Checks = append(dp.Checks, sqCheck{Expr: fmt.Sprintf("id > -%d", 10+r.Intn(9))})
						edits = append(edits, &sqEdit{"add-check", p.Name, "referenced parent"})
						fkOn = true
					}
				}
			}
		}
		if ci%7 == 5 && len(cur.Tables) > 0 {
			// a populated table that carries the name the planner gives its temporary copy (`new_<t>`) next to a
			// table <t> that is rebuilt: the apply may be refused, it must not take the bystander's rows
			t := hx.Pick(r, cur.Tables)
			if dt := des.table(t.Name); dt != nil && cur.table("new_"+t.Name) == nil {
				by := g.newTable()
				by.Name = "new_" + t.Name
				cur.Tables = append(cur.Tables, by)
				cp := (&sqSchema{Tables: []*sqTable{by}}).clone().Tables[0]
				des.Tables = append(des.Tables, cp)
				dt.Checks = append(dt.Checks, sqCheck{Expr: fmt.Sprintf("id > -%d", 20+r.Intn(9))})
				edits = append(edits, &sqEdit{"add-check", t.Name, "next to a table named new_" + t.Name})
			}
		}
		if r.Chance(1, 3) {
			// the desired definition lists the same columns in another order (not a change)
			t := hx.Pick(r, des.Tables)
			hx.Shuffle(r, t.Cols)
			edits = append(edits, &sqEdit{"reorder-columns", t.Name, ""})
		}
		c := c05Case{Current: cur.DDL(), Rows: g.rowsSQL(cur, 4), Desired: des.DDL(), Edits: edits, FK: fkOn}
		dir := filepath.Join(e.Work, fmt.Sprintf("c05-%d", ci))
		os.MkdirAll(dir, 0o755)
		defer os.RemoveAll(dir)
		skip, touched, viols := c05Run(ctx, pool, &c, cur, des, dir)
		mu.Lock()
		e.Res.Count(fmt.Sprintf("c05-%d", ci), touched > 0, editKinds(edits)...)
		if skip != "" {
			e.Res.Tag("skipped:" + trunc(skip, 60))
		}
		mu.Unlock()
		for _, v := range viols {
			viol(v[0], v[1], v[2], v[3], c)
		}
	})
	if e.Replay == "" {
		c05Renames(e, pool)
		c05KeyChange(e, pool)
		c05TypeKept(e)
		c05CLI(e)
	}
	return nil
}

func c05Run(ctx context.Context, pool *hx.Pool, c *c05Case, cur, des *sqSchema, dir string) (skip string, touched int, viols [][4]string) {
	add := func(kind, sig, what, chk string) { viols = append(viols, [4]string{kind, sig, what, chk}) }
	dbp, devp := filepath.Join(dir, "db.sqlite"), filepath.Join(dir, "dev.sqlite")
	setup, err := openSQLite(dbp, false)
	if err != nil {
		return "open", 0, nil
	}
	if err := execAll(setup, append(append([]string{}, c.Current...), c.Rows...)); err != nil {
		setup.Close()
		return "generator: rows rejected", 0, nil
	}
	// the rows must be consistent before we start (foreign keys)
	if rs, err := setup.Query("PRAGMA foreign_key_check"); err == nil {
		bad := rs.Next()
		rs.Close()
		if bad {
			setup.Close()
			return "generator: rows violate foreign keys", 0, nil
		}
	}
	setup.Close()
	db, err := openSQLite(dbp, c.FK)
	if err != nil {
		return "open", 0, nil
	}
	defer db.Close()
	dev, _ := openSQLite(devp, false)
	defer dev.Close()
	if err := execAll(dev, c.Desired); err != nil {
		return "generator: desired rejected", 0, nil
	}
	before := map[string]map[string]map[string]string{}
	for _, t := range cur.Tables {
		rows, err := tableRows(db, t.Name)
		if err != nil {
			return "read rows", 0, nil
		}
		before[t.Name] = rows
	}
	catBefore, _ := catalog(db)
	drv, _ := sqlite.Open(db)
	ddrv, _ := sqlite.Open(dev)
	desired, err := inspectMain(ctx, ddrv)
	if err != nil {
		return "inspect", 0, nil
	}
	current, err := inspectMain(ctx, drv)
	if err != nil {
		return "inspect", 0, nil
	}
	changes, err := drv.SchemaDiff(current, desired, schema.DiffNormalized())
	if err != nil {
		add("failing-input", "diff-fails", err.Error(), "Props.C05")
		return
	}
	plan, err := drv.PlanChanges(ctx, "p", changes)
	if err != nil {
		add("failing-input", "plan-fails", err.Error(), "Props.C05")
		return
	}
	changed := map[string]bool{}
	for _, ch := range changes {
		switch ch := ch.(type) {
		case *schema.ModifyTable:
			changed[ch.T.Name] = true
			touched++
			c05Model(pool, ch, plan, add)
		case *schema.DropTable:
			changed[ch.T.Name] = true
		case *schema.AddTable:
			changed[ch.T.Name] = true
		}
	}
	if err := drv.ApplyChanges(ctx, changes); err != nil {
		es := err.Error()
		dataRefusal := strings.Contains(es, "constraint failed") || strings.Contains(es, "cannot store") || strings.Contains(es, "datatype mismatch")
		if strings.Contains(es, "already exists") && strings.Contains(es, "new_") || dataRefusal {
			// refused because the temporary name is taken, or because the existing rows do not fit the desired
			// definition: nothing may have been lost
			for _, t := range cur.Tables {
				// (statements planned before the refused one may have run: a table may have gained columns or
				// lost dropped ones, but no row and no value of a surviving column may be gone)
				after, rerr := tableRows(db, t.Name)
				lost := rerr != nil
				for id, old := range before[t.Name] {
					now, ok := after[id]
					if !ok {
						lost = true
						break
					}
					for col, v := range old {
						oc, nc := t.col(col), (*sqCol)(nil)
						if dt := des.table(t.Name); dt != nil {
							nc = dt.col(col)
						}
						if oc == nil || nc == nil || nc.Type != oc.Type || oc.Gen != "" || nc.Gen != "" {
							continue // dropped, retyped or generated: as in the monitor of a completed apply
						}
						if nv, still := now[col]; still && nv != v && v != "NULL" {
							lost = true
						}
					}
				}
				if lost && des.table(t.Name) != nil {
					add("failing-input", "rows-lost", fmt.Sprintf("the apply is refused (%s) but table %s lost rows or values (%v)\ncurrent:\n%s\ndesired:\n%s", trunc(es, 120), t.Name, rerr, strings.Join(c.Current, ";\n"), strings.Join(c.Desired, ";\n")), "Props.C05 row_count_preserved")
				}
			}
			if dataRefusal {
				return "data: rows do not satisfy the desired constraints", touched, viols
			}
			return "refused: the temporary table name is taken", touched, viols
		}
		add("failing-input", "apply-fails", fmt.Sprintf("apply fails: %v\nplan:\n%s\ncurrent:\n%s\ndesired:\n%s", trunc(es, 300), planText(plan), strings.Join(c.Current, ";\n"), strings.Join(c.Desired, ";\n")), "Props.C05 apply")
		return
	}
	ctxText := func() string {
		return fmt.Sprintf("fk_enforced=%v edits=%s\nplan:\n%s\ncurrent:\n%s\ndesired:\n%s", c.FK, hxJSON(c.Edits), planText(plan), strings.Join(c.Current, ";\n"), strings.Join(c.Desired, ";\n"))
	}
	for _, t := range cur.Tables {
		dt := des.table(t.Name)
		if dt == nil {
			continue
		}
		after, err := tableRows(db, t.Name)
		if err != nil {
			add("failing-input", "table-unreadable-after-apply", fmt.Sprintf("table %s: %v\n%s", t.Name, err, ctxText()), "Props.C05")
			continue
		}
		var lost, extra []string
		for id := range before[t.Name] {
			if _, ok := after[id]; !ok {
				lost = append(lost, id)
			}
		}
		for id := range after {
			if _, ok := before[t.Name][id]; !ok {
				extra = append(extra, id)
			}
		}
		sort.Strings(lost)
		if len(lost) > 0 || len(extra) > 0 {
			add("failing-input", "rows-lost", fmt.Sprintf("table %s: rows with id %v are gone (new: %v) after the apply\n%s", t.Name, lost, extra, ctxText()), "Props.C05 row_count_preserved")
			continue
		}
		for id, old := range before[t.Name] {
			for _, oc := range t.Cols {
				nc := dt.col(oc.Name)
				// (a column that is generated in the desired table is recomputed; one that WAS generated and is an
				// ordinary column now keeps the values it had)
				if nc == nil || nc.Type != oc.Type || nc.Gen != "" {
					continue
				}
				ov, nv := old[oc.Name], after[id][oc.Name]
				if ov == nv {
					continue
				}
				if ov == "NULL" && nc.NotNull && nc.Default != "" {
					continue // back-filled with the default of the now NOT NULL column
				}
				add("failing-input", "value-changed", fmt.Sprintf("table %s row id=%s column %s: %s before, %s after the apply\n%s", t.Name, id, oc.Name, ov, nv, ctxText()), "Props.C05 unchanged_column_preserved")
			}
		}
	}
	// untouched tables
	catAfter, _ := catalog(db)
	for _, t := range cur.Tables {
		if changed[t.Name] {
			continue
		}
		pick := func(cat []string) string {
			var out []string
			for _, l := range cat {
				if strings.Contains(l, " "+t.Name+" ") || strings.Contains(l, " "+t.Name+".") {
					out = append(out, l)
				}
			}
			return strings.Join(out, "\n")
		}
		if pick(catBefore) != pick(catAfter) {
			add("failing-input", "untouched-table-changed", fmt.Sprintf("table %s is not part of the change set but its definition changed:\n%s\nvs\n%s\n%s", t.Name, pick(catBefore), pick(catAfter), ctxText()), "Props.C05 untouched")
		}
	}
	if rs, err := db.Query("PRAGMA foreign_key_check"); err == nil {
		bad := rs.Next()
		rs.Close()
		if bad {
			add("failing-input", "fk-violations-introduced", "the apply left foreign-key violations\n"+ctxText(), "Props.C05")
		}
	}
	return
}

// c05Model compares the INSERT..SELECT of a rebuild with the Lean copy plan.
func c05Model(pool *hx.Pool, mt *schema.ModifyTable, plan *migrate.Plan, add func(kind, sig, what, chk string)) {
	var stmt string
	for _, pc := range plan.Changes {
		if m := reCopy.FindStringSubmatch(pc.Cmd); m != nil && m[4] == mt.T.Name {
			stmt = pc.Cmd
		}
	}
	idx := map[string]int{}
	var cols []map[string]any
	for i, col := range mt.T.Columns {
		idx[col.Name] = i + 1
	}
	// names that exist only in the old table (sources of renamed columns) get numbers of their own
	for _, ch := range mt.Changes {
		if rc, ok := ch.(*schema.RenameColumn); ok && idx[rc.From.Name] == 0 {
			idx[rc.From.Name] = len(idx) + 1
		}
	}
	for _, col := range mt.T.Columns {
		m := map[string]any{"name": idx[col.Name], "not_null": !col.Type.Null, "has_default": col.Default != nil, "change": "none"}
		for _, a := range col.Attrs {
			if _, ok := a.(*schema.GeneratedExpr); ok {
				m["generated"] = true
			}
		}
		for _, ch := range mt.Changes {
			switch ch := ch.(type) {
			case *schema.AddColumn:
				if ch.C.Name == col.Name {
					m["change"] = "added"
				}
			case *schema.ModifyColumn:
				if ch.To.Name == col.Name {
					m["change"] = "modified"
					m["null_or_default"] = ch.Change.Is(schema.ChangeNull | schema.ChangeDefault)
				}
			case *schema.RenameColumn:
				if ch.To.Name == col.Name {
					m["change"] = "renamed"
					m["from"] = idx[ch.From.Name]
				}
			}
		}
		cols = append(cols, m)
	}
	var ans struct {
		To   []int    `json:"to"`
		From []string `json:"from"`
	}
	if err := pool.AskInto(map[string]any{"op": "copy.plan", "cols": cols}, &ans); err != nil {
		return
	}
	if stmt == "" {
		// in-place path, or nothing to copy - unless the plan does rebuild the table: then the rows are copied by a
		// plain `INSERT INTO new_T (...) SELECT ... FROM T` (no OR IGNORE / OR REPLACE, which drop rows silently)
		rebuilt := false
		for _, pc := range plan.Changes {
			if strings.HasPrefix(pc.Cmd, "CREATE TABLE `new_"+mt.T.Name+"`") {
				rebuilt = true
			}
		}
		if rebuilt && len(ans.To) > 0 {
			var cmds []string
			for _, pc := range plan.Changes {
				cmds = append(cmds, pc.Cmd)
			}
			add("failing-input", "copy-statement-not-a-plain-insert", fmt.Sprintf("table %s is rebuilt and has columns to copy (model: %v), but the plan holds no plain INSERT INTO `new_%s` (...) SELECT ... FROM `%s`: %s", mt.T.Name, ans.To, mt.T.Name, mt.T.Name, trunc(strings.Join(cmds, "; "), 500)), "Props.C05 row_count_preserved (copy statement)")
		}
		return
	}
	m := reCopy.FindStringSubmatch(stmt)
	toC, fromC := splitTop(m[2]), splitTop(m[3])
	var gotTo []int
	var gotFrom []string
	for i, tc := range toC {
		n := idx[strings.Trim(tc, "`")]
		gotTo = append(gotTo, n)
		f := fromC[i]
		if strings.HasPrefix(strings.ToUpper(f), "IFNULL(") {
			gotFrom = append(gotFrom, fmt.Sprintf("ifnull %d", n))
		} else {
			gotFrom = append(gotFrom, fmt.Sprintf("col %d", idx[strings.Trim(f, "`")]))
		}
	}
	if fmt.Sprint(gotTo) != fmt.Sprint(ans.To) || fmt.Sprint(gotFrom) != fmt.Sprint(ans.From) {
		add("no-failing-input-found", "corr-copy-plan-mismatch", fmt.Sprintf("table %s: statement %s; model to=%v from=%v (columns %s)", mt.T.Name, stmt, ans.To, ans.From, hxJSON(cols)), "correspondence Atlas.Copy.copyPlan")
	}
}
