package main

import (
	"context"
	"fmt"
	"regexp"
	"sync"

	"ariga.io/atlas/sql/migrate"
	"ariga.io/atlas/sql/postgres"
	"ariga.io/atlas/sql/schema"
)

var (
	reC17CreateIdx = regexp.MustCompile(`(?i)^CREATE (?:UNIQUE )?INDEX "(\w+)" ON (?:"(\w+)"\.)?"(\w+)"`)
	reC17DropIdx   = regexp.MustCompile(`(?i)^DROP INDEX (?:"(\w+)"\.)?"(\w+)"`)
)

// c17PGQualified: PostgreSQL names an index in DROP INDEX on its own (not through its table), so the reverse of
// CREATE INDEX ... ON <q>.<t> must name the index in the same schema <q> - with no qualifier requested (the
// schema's own name), with the empty qualifier (no prefix on either side) and with a custom one.
func c17PGQualified(e *Env, viol func(kind, sig, what, chk string, rep any), mu *sync.Mutex) {
	for _, qual := range []string{"unset", "empty", "custom"} {
		for _, shape := range []string{"add-index", "add-table-with-index", "add-unique-index"} {
			s := schema.New("app_s1")
			t := schema.NewTable("users").SetSchema(s).AddColumns(schema.NewIntColumn("id", "integer"), schema.NewStringColumn("name", "text"))
			t.SetPrimaryKey(schema.NewPrimaryKey(t.Columns[0]))
			idx := schema.NewIndex("users_name").SetTable(t).AddColumns(t.Columns[1])
			var changes []schema.Change
			switch shape {
			case "add-index":
				changes = []schema.Change{&schema.ModifyTable{T: t, Changes: []schema.Change{&schema.AddIndex{I: idx}}}}
			case "add-unique-index":
				idx.Unique = true
				changes = []schema.Change{&schema.ModifyTable{T: t, Changes: []schema.Change{&schema.AddIndex{I: idx}}}}
			default:
				t.AddIndexes(idx)
				changes = []schema.Change{&schema.AddTable{T: t}}
			}
			var opts []migrate.PlanOption
			want := "app_s1"
			switch qual {
			case "empty":
				q := ""
				want = ""
				opts = append(opts, func(o *migrate.PlanOptions) { o.SchemaQualifier = &q })
			case "custom":
				q := "tenant_q"
				want = q
				opts = append(opts, func(o *migrate.PlanOptions) { o.SchemaQualifier = &q })
			}
			plan, err := postgres.DefaultPlan.PlanChanges(context.Background(), "p", changes, opts...)
			id := fmt.Sprintf("postgres %s, qualifier %s", shape, qual)
			rep := map[string]any{"case": id}
			mu.Lock()
			e.Res.Count("pg-index-reverse/"+id, true, "pg-index-reverse")
			mu.Unlock()
			if err != nil {
				viol("failing-input", "plan-fails", fmt.Sprintf("%s: %v", id, err), "Props.C17", rep)
				continue
			}
			found := false
			for _, ch := range plan.Changes {
				m := reC17CreateIdx.FindStringSubmatch(ch.Cmd)
				if m == nil {
					continue
				}
				found = true
				rs, _ := ch.ReverseStmts()
				if len(rs) != 1 {
					viol("failing-input", "index-reverse-missing", fmt.Sprintf("%s: %q has the reverse statements %v", id, ch.Cmd, rs), "Props.C17 reverse statements undo the plan", rep)
					continue
				}
				d := reC17DropIdx.FindStringSubmatch(rs[0])
				if d == nil || d[2] != m[1] || d[1] != m[2] || m[2] != want {
					viol("failing-input", "index-reverse-names-another-object", fmt.Sprintf("%s: %q creates the index in schema %q, its reverse is %q (expected both in %q)", id, ch.Cmd, m[2], rs[0], want), "Props.C17 reverse statements undo the plan", rep)
				}
			}
			if !found {
				viol("no-failing-input-found", "pg-index-statement-not-found", fmt.Sprintf("%s: no CREATE INDEX statement in the plan", id), "correspondence C17", rep)
			}
		}
	}
}
