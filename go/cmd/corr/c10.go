package main

// C10: `migrate apply` is crash-consistent at every point, per transaction mode.
// For every case (directory shape x tx-mode x journal variant) the real binary runs once with the
// operation trace (compared with the Lean plan), then once per crash point (process killed before and
// after every database operation). After each kill the independent reader's dump is compared with
// the model's crash state and judged by the monitors (no half-applied file, revisions never ahead of
// effects); the same command is run again and must complete with every statement present exactly
// once (file/all) or with at most the in-flight statement twice (none).

import (
	"fmt"
	"os"
	"path/filepath"
	"reflect"
	"strings"
	"sync"
	"time"

	"verifharness/internal/hx"
)

func init() { commands["C10"] = runC10 }

func c10Cases(e *Env) []txCase {
	shapes := [][]int{{2}, {1, 2}, {2, 1, 2}}
	if e.Thorough() {
		shapes = [][]int{{1}, {3}, {1, 1}, {2, 2}, {3, 1}, {1, 2, 1}, {2, 1, 2}, {2, 2, 2}, {1, 1, 1, 1}}
	}
	var out []txCase
	for _, sh := range shapes {
		for _, mode := range []string{"file", "all", "none"} {
			for _, pre := range []bool{false, true} {
				if !e.Thorough() && pre && len(sh) != 2 {
					continue
				}
				c := txCase{Mode: mode, PreJournal: pre}
				for _, n := range sh {
					ok := make([]bool, n)
					for i := range ok {
						ok[i] = true
					}
					c.Files = append(c.Files, txFile{Ok: ok})
				}
				out = append(out, c)
			}
		}
	}
	// directive variants (repaired mayCommit): a file-mode file under global none and the converse
	mk := func(mode string, ds ...string) txCase {
		c := txCase{Mode: mode}
		for _, d := range ds {
			c.Files = append(c.Files, txFile{Ok: []bool{true, true}, Directive: d})
		}
		return c
	}
	out = append(out, mk("none", "", "file", ""), mk("file", "", "none", ""))
	// the same with an ordinary comment line in front of the directive
	for _, c := range []txCase{mk("none", "", "file", ""), mk("file", "", "none", "")} {
		c.Files[1].Lead = true
		out = append(out, c)
	}
	// ... and with a separator line behind the header that holds blanks / a tab
	for _, sep := range []string{"  ", "\t"} {
		for _, c := range []txCase{mk("none", "", "file", ""), mk("file", "", "none", "")} {
			c.Files[1].Sep = sep
			out = append(out, c)
		}
	}
	// a first run that starts at a checkpoint file (the older file is skipped); a crash inside the checkpoint
	// leaves it partially applied (none mode), the re-run resumes it and runs every later file
	for _, mode := range []string{"none", "file"} {
		c := txCase{Mode: mode, PreJournal: true, Checkpoint: true}
		for _, n := range []int{2, 1, 2} {
			ok := make([]bool, n)
			for i := range ok {
				ok[i] = true
			}
			c.Files = append(c.Files, txFile{Ok: ok})
		}
		out = append(out, c)
	}
	if e.Thorough() {
		out = append(out, mk("none", "file", "file"), mk("file", "none", "none"), mk("none", "file", "", "file"))
	}
	// the other execution orders: on a linear history they plan, crash and resume exactly like the default
	for _, ord := range []string{"linear-skip", "non-linear"} {
		modes := []string{"none"}
		if e.Thorough() {
			modes = []string{"none", "file", "all"}
		}
		for _, mode := range modes {
			out = append(out, txCase{Mode: mode, Order: ord, Files: []txFile{{Ok: []bool{true, true}}, {Ok: []bool{true, true, true}}}})
		}
	}
	// statement texts that differ from case to case (the resume compares per-statement checksums): one file of
	// four statements in none mode, killed after each statement only
	ns := 30
	if e.Thorough() {
		ns = 300
	}
	for k := 1; k <= ns; k++ {
		out = append(out, txCase{Mode: "none", PreJournal: true, Salt: int(e.Seed%1000)*1000 + k, Files: []txFile{{Ok: []bool{true, true, true, true}}}})
	}
	return out
}

func runC10(e *Env) error {
	if e.Atlas == "" {
		return fmt.Errorf("atlas binary not given")
	}
	pool, err := hx.NewPool(e.Model, 4)
	if err != nil {
		return err
	}
	defer pool.Close()
	cases := c10Cases(e)
	e.Res.Rule = "cases = directory shape (files x statements) x tx-mode {file, all, none} x journal variant (+ txmode-directive mixes, + a first run starting at a checkpoint file with an older file to skip, + 30 none-mode files whose statement texts differ from case to case, killed after each statement); per case: one traced run (operation sequence == Lean plan), then the process is SIGKILLed before and after EVERY database operation (statement, revision upsert, BEGIN, COMMIT, pragma, revision-table bootstrap); after each kill: dump == model crash state, monitors no-half-file / revision<=effects; re-run of the same command must succeed; final dump == model and every statement once (file/all) or at most one twice (none); non-trivial = a crash point inside the migration; distinct by (case, point)"
	var mu sync.Mutex
	viol := func(kind, sig, what, check string, rep any) {
		mu.Lock()
		e.Res.Violate(kind, sig, what, check, rep)
		mu.Unlock()
	}
	for ci, c := range cases {
		c := c
		name := fmt.Sprintf("c10-%d", ci)
		dir, err := c.setup(e.Work, name)
		if err != nil {
			return err
		}
		// traced run
		db := c.fresh(dir, "trace.sqlite")
		tr := filepath.Join(dir, "trace.txt")
		out := runAtlas(e, dir, map[string]string{"VERIF_TRACE": tr}, c.args(db)...)
		if out.Code != 0 {
			viol("failing-input", "clean-run-fails", fmt.Sprintf("%s: migrate apply without crash fails: %s", hxJSON(c), trunc(out.Stderr+out.Stdout, 300)), "Props.C10 clean run", c)
			continue
		}
		ops, idx, err := normTrace(out.Trace)
		if err != nil {
			return err
		}
		base, err := c.toModel(dumpDB(filepath.Join(dir, "base.sqlite")))
		if err != nil {
			return err
		}
		plan, err := c.askPlan(pool, base, true, true)
		if err != nil {
			return err
		}
		modelOK := true
		if !reflect.DeepEqual(ops, visibleOps(plan.Ops)) {
			e.Res.Disagree()
			viol("no-failing-input-found", "corr-tx-plan-mismatch", fmt.Sprintf("%s: operation trace of the binary %v differs from the model plan %v", hxJSON(c), ops, plan.Ops), "correspondence Atlas.Tx.plan", map[string]any{"case": c, "trace": out.Trace})
			modelOK = false // keep searching for a failing input with the monitors alone
		}
		fin, err := c.toModel(dumpDB(filepath.Join(dir, db)))
		if modelOK && (err != nil || c.canon(fin) != c.canon(plan.Final)) {
			e.Res.Disagree()
			viol("no-failing-input-found", "corr-tx-final-mismatch", fmt.Sprintf("%s: final database %s differs from the model %s (%v)", hxJSON(c), fin, plan.Final, err), "correspondence Atlas.Tx.runAll", c)
			modelOK = false
		}
		n := len(out.Trace)
		type point struct {
			k     int
			after bool
		}
		var pts []point
		for k := 1; k <= n; k++ {
			if c.Salt != 0 {
				// salted cases: killed right after a statement ran, nowhere else
				if strings.Contains(out.Trace[k-1], "INSERT INTO journal") {
					pts = append(pts, point{k, true})
				}
				continue
			}
			pts = append(pts, point{k, false}, point{k, true})
		}
		parallel(e.Workers, len(pts), func(pi int) {
			p := pts[pi]
			where := "before"
			done := p.k - 1
			if p.after {
				where, done = "after", p.k
			}
			id := fmt.Sprintf("%s/%d:%s", name, p.k, where)
			dbn := c.fresh(dir, fmt.Sprintf("crash-%d-%s.sqlite", p.k, where))
			o := runAtlas(e, dir, map[string]string{"VERIF_CRASH_AT": fmt.Sprintf("%d:%s", p.k, where)}, c.args(dbn)...)
			replay := map[string]any{"case": c, "crash_at": fmt.Sprintf("%d:%s", p.k, where), "op": out.Trace[p.k-1]}
			mdone := idx[done]
			if !modelOK && mdone >= len(plan.Crash) {
				mdone = 0
			}
			mu.Lock()
			e.Res.Count(id, mdone > 0 && mdone < len(ops), "mode:"+c.Mode, "where:"+where)
			mu.Unlock()
			if !o.Killed {
				viol("no-failing-input-found", "crash-point-not-reached", fmt.Sprintf("%s: crash point %d:%s was not reached (exit %d: %s)", hxJSON(c), p.k, where, o.Code, trunc(o.Stderr, 200)), "hook sqlitev crash points", replay)
				return
			}
			got, err := c.toModel(dumpDB(filepath.Join(dir, dbn)))
			if err != nil {
				viol("failing-input", "crash-state-unreadable", fmt.Sprintf("%s crash %d:%s: %v", hxJSON(c), p.k, where, err), "Props.C10 crash state", replay)
				return
			}
			// monitors on the crashed state
			if what := c10CrashMonitor(&c, got); what != "" {
				viol("failing-input", "crash-"+what, fmt.Sprintf("%s: killed %s operation %d (%s): %s; database %s", hxJSON(c), where, p.k, trunc(out.Trace[p.k-1], 80), what, got), "Props.C10 crash monitors", replay)
			}
			if !modelOK {
				// monitors only
			} else if want := plan.Crash[mdone]; c.canon(got) != c.canon(want) {
				mu.Lock()
				e.Res.Disagree()
				mu.Unlock()
				viol("no-failing-input-found", "corr-crash-state-mismatch", fmt.Sprintf("%s: killed %s operation %d: database %s, model %s", hxJSON(c), where, p.k, got, want), "correspondence Atlas.Tx.crashAt", replay)
			}
			// re-run of the same command
			o2 := runAtlas(e, dir, nil, c.args(dbn)...)
			if o2.Code != 0 {
				viol("failing-input", "rerun-fails", fmt.Sprintf("%s: after a kill %s operation %d (%s) the same command fails: %s", hxJSON(c), where, p.k, trunc(out.Trace[p.k-1], 80), trunc(o2.Stderr+o2.Stdout, 300)), "Props.C10 rerun_completes", replay)
				return
			}
			fin2, err := c.toModel(dumpDB(filepath.Join(dir, dbn)))
			if err != nil {
				viol("failing-input", "rerun-state-unreadable", fmt.Sprintf("%s crash %d:%s: %v", hxJSON(c), p.k, where, err), "Props.C10 rerun", replay)
				return
			}
			if what := c10FinalMonitor(&c, fin2); what != "" {
				viol("failing-input", "rerun-"+what, fmt.Sprintf("%s: killed %s operation %d (%s), then re-run: %s; database %s", hxJSON(c), where, p.k, trunc(out.Trace[p.k-1], 80), what, fin2), "Props.C10 final monitors", replay)
			}
			p2, err := c.askPlan(pool, got, true, false)
			if err == nil && modelOK && c.canon(p2.Final) != c.canon(fin2) {
				mu.Lock()
				e.Res.Disagree()
				mu.Unlock()
				viol("no-failing-input-found", "corr-rerun-state-mismatch", fmt.Sprintf("%s: re-run from %s gives %s, model %s", hxJSON(c), got, fin2, p2.Final), "correspondence Atlas.Tx.plan (resume)", replay)
			}
		})
	}
	c10StaleLock(e, viol)
	e.Res.Note("atlas processes run: %d", cliRuns.Load())
	return nil
}

// c10StaleLock: a killed run leaves its advisory lock file behind (SQLite: a file in TMPDIR holding the expiry
// time). Once the lock has expired, the re-run IN THE SAME TMPDIR takes it over and completes the migration.
func c10StaleLock(e *Env, viol func(kind, sig, what, check string, rep any)) {
	for mi, mode := range []string{"none", "file"} {
		c := txCase{Mode: mode, Files: []txFile{{Ok: []bool{true, true}}, {Ok: []bool{true, true, true}}}}
		dir, err := c.setup(e.Work, fmt.Sprintf("c10-lock-%d", mi))
		if err != nil {
			return
		}
		tmp := filepath.Join(dir, "sharedtmp")
		os.MkdirAll(tmp, 0o755)
		tr := filepath.Join(dir, "trace.txt")
		out := runAtlas(e, dir, map[string]string{"VERIF_TRACE": tr}, c.args(c.fresh(dir, "trace.sqlite"))...)
		if out.Code != 0 || len(out.Trace) < 4 {
			continue
		}
		k := 0
		for i, l := range out.Trace {
			if strings.Contains(l, "INSERT INTO journal VALUES (1, 1)") {
				k = i + 1
			}
		}
		if k == 0 {
			continue
		}
		dbn := c.fresh(dir, "lock.sqlite")
		args := append(c.args(dbn), "--lock-timeout", "300ms")
		replay := map[string]any{"case": c, "crash_at": fmt.Sprintf("%d:after", k), "shared_tmpdir": true, "lock_timeout": "300ms"}
		e.Res.Count(fmt.Sprintf("stale-lock/%s", mode), true, "mode:"+mode, "stale-lock")
		o := runAtlas(e, dir, map[string]string{"VERIF_CRASH_AT": fmt.Sprintf("%d:after", k), "VERIF_TMPDIR": tmp}, args...)
		if !o.Killed {
			continue
		}
		locks, _ := filepath.Glob(filepath.Join(tmp, "*.lock"))
		time.Sleep(900 * time.Millisecond)
		o2 := runAtlas(e, dir, map[string]string{"VERIF_TMPDIR": tmp}, args...)
		if o2.Code != 0 {
			viol("failing-input", "rerun-fails", fmt.Sprintf("%s: killed after operation %d with --lock-timeout 300ms; 900ms later the same command in the same TMPDIR (lock files left behind: %d) fails: %s", hxJSON(c), k, len(locks), trunc(o2.Stderr+o2.Stdout, 300)), "Props.C10 rerun_completes (expired lock of the killed run)", replay)
			continue
		}
		fin, err := c.toModel(dumpDB(filepath.Join(dir, dbn)))
		if err != nil {
			continue
		}
		if what := c10FinalMonitor(&c, fin); what != "" {
			viol("failing-input", "rerun-"+what, fmt.Sprintf("%s: killed after operation %d, re-run in the same TMPDIR after the lock expired: %s; database %s", hxJSON(c), k, what, fin), "Props.C10 final monitors", replay)
		}
	}
}

// c10CrashMonitor judges the state left by a crash (independent of the model).
func c10CrashMonitor(c *txCase, d mDb) string {
	cnt := map[[2]int]int{}
	perFile := map[int]int{}
	for _, j := range d.Journal {
		cnt[j]++
		perFile[j[0]]++
	}
	// revision rows never record a statement whose effect is absent
	for f, r := range d.Revs {
		if f >= len(c.Files) {
			return "revision-for-unknown-file"
		}
		for i := 0; i < r.Applied; i++ {
			if cnt[[2]int{f, i}] == 0 {
				return fmt.Sprintf("revision-ahead-of-effects (file %d records %d applied, statement %d has no effect)", f, r.Applied, i)
			}
		}
	}
	if c.uniform() && c.Mode != "none" {
		for f, tf := range c.Files {
			if perFile[f] != 0 && perFile[f] != len(tf.Ok) {
				return fmt.Sprintf("half-applied-file (file %d: %d of %d statements)", f, perFile[f], len(tf.Ok))
			}
		}
		if c.Mode == "all" && len(d.Journal) != 0 && len(d.Journal) != c.stmtCount() {
			return "half-applied-run-in-all-mode"
		}
	}
	for j, n := range cnt {
		if n > 1 {
			return fmt.Sprintf("statement-twice-before-rerun %v", j)
		}
	}
	return ""
}

// c10FinalMonitor judges the state after the re-run.
func c10FinalMonitor(c *txCase, d mDb) string {
	cnt := map[[2]int]int{}
	for _, j := range d.Journal {
		cnt[j]++
	}
	dups := 0
	for f, tf := range c.Files {
		for i := range tf.Ok {
			n := cnt[[2]int{f, i}]
			if n == 0 {
				return fmt.Sprintf("statement-lost (%d,%d)", f, i)
			}
			dups += n - 1
		}
	}
	if len(d.Journal) != c.stmtCount()+dups {
		return "unknown-journal-rows"
	}
	transactional := c.uniform() && c.Mode != "none"
	if transactional && dups > 0 {
		return fmt.Sprintf("statement-twice-in-%s-mode", c.Mode)
	}
	if dups > 1 {
		return fmt.Sprintf("more-than-the-in-flight-statement-twice (%d duplicates)", dups)
	}
	if len(d.Revs) != len(c.Files) {
		return "revision-rows-missing"
	}
	for f, r := range d.Revs {
		if r.Applied != len(c.Files[f].Ok) || r.Total != r.Applied || r.Err {
			return fmt.Sprintf("revision-incomplete (file %d: %d/%d err=%v)", f, r.Applied, r.Total, r.Err)
		}
	}
	return ""
}
