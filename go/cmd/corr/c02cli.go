package main

import (
	"fmt"
	"os"
	"path/filepath"
	"strings"
)

// C02, CLI tier: `atlas schema diff` between two live SQLite databases (no dev database: the mode the
// command picks on its own) reports a change for every single edit of a small catalogue and none for two
// equal databases; `schema apply` of the second database's inspection then makes them equal.
func c02CLI(e *Env) {
	if e.Atlas == "" {
		return
	}
	base := []string{
		"CREATE TABLE t (id integer NOT NULL, a text NULL DEFAULT 'x', b integer NULL, PRIMARY KEY (id), CONSTRAINT ck_named CHECK (b > 0), CHECK (id > 0))",
		"CREATE INDEX ix_b ON t (b)",
		"CREATE TABLE p (id integer NOT NULL, PRIMARY KEY (id))",
		"CREATE TABLE c (id integer NOT NULL, pid integer NULL, PRIMARY KEY (id), CONSTRAINT fk_p FOREIGN KEY (pid) REFERENCES p (id) ON DELETE CASCADE)",
	}
	type ed struct {
		name string
		to   []string
	}
	rep := func(i int, s string) []string {
		out := append([]string{}, base...)
		out[i] = s
		return out
	}
	edits := []ed{
		{"identical", base},
		{"named check: other expression, same name", rep(0, strings.Replace(base[0], "CHECK (b > 0)", "CHECK (b > 1)", 1))},
		{"unnamed check: other expression", rep(0, strings.Replace(base[0], "CHECK (id > 0)", "CHECK (id > 1)", 1))},
		{"named check renamed", rep(0, strings.Replace(base[0], "ck_named", "ck_other", 1))},
		{"column default", rep(0, strings.Replace(base[0], "DEFAULT 'x'", "DEFAULT 'y'", 1))},
		{"column nullability", rep(0, strings.Replace(base[0], "b integer NULL", "b integer NOT NULL DEFAULT 0", 1))},
		{"column type", rep(0, strings.Replace(base[0], "a text NULL", "a blob NULL", 1))},
		{"index made unique", rep(1, "CREATE UNIQUE INDEX ix_b ON t (b)")},
		{"index direction", rep(1, "CREATE INDEX ix_b ON t (b DESC)")},
		{"index predicate", rep(1, "CREATE INDEX ix_b ON t (b) WHERE b > 0")},
		{"foreign key action", rep(3, strings.Replace(base[3], "ON DELETE CASCADE", "ON DELETE SET NULL", 1))},
		{"foreign key action restrict", rep(3, strings.Replace(base[3], "ON DELETE CASCADE", "ON DELETE RESTRICT", 1))},
		{"table added", append(append([]string{}, base...), "CREATE TABLE extra (id integer)")},
		{"table dropped", base[:3]},
	}
	dir := filepath.Join(e.Work, "c02cli")
	os.RemoveAll(dir)
	os.MkdirAll(dir, 0o755)
	defer os.RemoveAll(dir)
	if err := execSQL(filepath.Join(dir, "from.sqlite"), base...); err != nil {
		e.Res.Note("c02cli setup: %v", err)
		return
	}
	for i, x := range edits {
		to := fmt.Sprintf("to%d.sqlite", i)
		if err := execSQL(filepath.Join(dir, to), x.to...); err != nil {
			continue
		}
		changed := i > 0
		e.Res.Count("cli:"+x.name, changed, "cli-schema-diff")
		repv := map[string]any{"case": "cli " + x.name, "from": base, "to": x.to}
		for _, dirn := range [][2]string{{"from.sqlite", to}, {to, "from.sqlite"}} {
			o := runAtlas(e, dir, nil, "schema", "diff", "--from", "sqlite://"+dirn[0], "--to", "sqlite://"+dirn[1])
			synced := strings.Contains(o.Stdout, "Schemas are synced")
			switch {
			case o.Code != 0:
				e.Res.Violate("failing-input", "diff-error", fmt.Sprintf("`schema diff` %s -> %s (%s) fails: %s", dirn[0], dirn[1], x.name, trunc(o.Stderr+o.Stdout, 300)), "Props.C02 (CLI)", repv)
			case changed && synced:
				e.Res.Violate("failing-input", "diff-not-exact", fmt.Sprintf("`schema diff` of two live databases reports them as synced, but they differ by: %s", x.name), "Props.C02 exactness (CLI)", repv)
			case !changed && !synced:
				e.Res.Violate("failing-input", "spurious-change", fmt.Sprintf("`schema diff` of two equal databases reports: %s", trunc(o.Stdout, 300)), "Props.C02 exactness (CLI)", repv)
			}
		}
		os.Remove(filepath.Join(dir, to))
	}
}
