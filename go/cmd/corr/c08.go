package main

// C08: the statement scanner is total, lossless and position-accurate. Differential fuzzing of the
// real scanner (migrate.Stmts, (*Scanner).Scan with every option set the drivers use, and random
// subsets of the modelled options) against the Lean model on (a) the repository's golden inputs,
// (b) grammar-based inputs, (c) byte-level mutations of those (incl. non-ASCII and invalid UTF-8);
// the property monitor (no crash, Text found at Pos, increasing, nothing but blanks/comments/
// delimiters/delimiter commands between statements) is evaluated on the implementation's output.

import (
	"encoding/hex"
	"encoding/json"
	"fmt"
	"os"
	"path/filepath"
	"regexp"
	"strings"
	"time"
	"unicode"
	"unicode/utf8"

	"ariga.io/atlas/sql/migrate"
	"ariga.io/atlas/sql/mysql"
	"ariga.io/atlas/sql/postgres"
	"ariga.io/atlas/sql/sqlite"
	"verifharness/internal/hx"
)

func init() { commands["C08"] = runC08 }

type lexOpts struct {
	MatchBegin       bool `json:"MatchBegin"`
	MatchBeginAtomic bool `json:"MatchBeginAtomic"`
	MatchDollarQuote bool `json:"MatchDollarQuote"`
	BackslashEscapes bool `json:"BackslashEscapes"`
	EscapedStringExt bool `json:"EscapedStringExt"`
	HashComments     bool `json:"HashComments"`
	OmitDelimiter    bool `json:"OmitDelimiter"`
}

func (o lexOpts) toGo() migrate.ScannerOptions {
	return migrate.ScannerOptions{MatchBegin: o.MatchBegin, MatchBeginAtomic: o.MatchBeginAtomic, MatchDollarQuote: o.MatchDollarQuote,
		BackslashEscapes: o.BackslashEscapes, EscapedStringExt: o.EscapedStringExt, HashComments: o.HashComments, OmitDelimiter: o.OmitDelimiter}
}

var lexOptSets = map[string]lexOpts{
	"stmts":    {MatchBeginAtomic: true, MatchDollarQuote: true},
	"mysql":    {MatchBegin: true, BackslashEscapes: true, HashComments: true},
	"postgres": {MatchBegin: true, MatchBeginAtomic: true, MatchDollarQuote: true, EscapedStringExt: true},
	"sqlite":   {MatchBegin: true},
}

type lexStmt struct {
	Pos      int      `json:"pos"`
	Text     string   `json:"text"`     // hex
	Comments []string `json:"comments"` // hex
}

type lexOut struct {
	Err   string    `json:"err,omitempty"`
	Stmts []lexStmt `json:"stmts"`
}

type c08Case struct {
	Set  string  `json:"set"`
	Opts lexOpts `json:"opts"`
	Src  string  `json:"src"` // hex
}

func scanImpl(o lexOpts, set, src string) (out lexOut) {
	done := make(chan lexOut, 1)
	go func() {
		var r lexOut
		defer func() {
			if p := recover(); p != nil {
				r = lexOut{Err: "panic"}
			}
			done <- r
		}()
		var st []*migrate.Stmt
		var err error
		// the consumers' own entry points (the option set of a driver is whatever its ScanStmts uses: the
		// model is handed the set this harness believes it to be)
		switch set {
		case "stmts":
			st, err = migrate.Stmts(src)
		case "mysql":
			st, err = (&mysql.Driver{}).ScanStmts(src)
		case "postgres":
			st, err = (&postgres.Driver{}).ScanStmts(src)
		case "sqlite":
			st, err = (&sqlite.Driver{}).ScanStmts(src)
		default:
			st, err = (&migrate.Scanner{ScannerOptions: o.toGo()}).Scan(src)
		}
		if err != nil {
			r = lexOut{Err: "err"}
			return
		}
		r.Stmts = []lexStmt{}
		for _, s := range st {
			cs := []string{}
			for _, c := range s.Comments {
				cs = append(cs, hex.EncodeToString([]byte(c)))
			}
			r.Stmts = append(r.Stmts, lexStmt{Pos: s.Pos, Text: hex.EncodeToString([]byte(s.Text)), Comments: cs})
		}
	}()
	select {
	case r := <-done:
		return r
	case <-time.After(10 * time.Second):
		return lexOut{Err: "timeout"}
	}
}

var reDelimCmd = regexp.MustCompile(`(?i)^delimiter `)
var reHeader = regexp.MustCompile(`^-- atlas:delimiter +([ -~]*)`)

func unescapeDelim(d string) string {
	return strings.NewReplacer(`\n`, "\n", `\r`, "\r", `\t`, "\t").Replace(d)
}

// c08Monitor: the property itself, on the implementation's (or the model's) output.
func c08Monitor(o lexOpts, src string, out lexOut) (bool, string, string) {
	switch out.Err {
	case "panic":
		return false, "scanner-panics", fmt.Sprintf("scanner crashed on %q", src)
	case "timeout":
		return false, "scanner-hangs", fmt.Sprintf("scanner did not terminate on %q", src)
	case "err":
		return true, "", ""
	}
	delim := ";"
	cur := 0
	// header directive
	if m := reHeader.FindStringSubmatch(src); m != nil && strings.HasPrefix(src, "-- atlas:delimiter") {
		if i := strings.IndexByte(src, '\n'); i >= 0 {
			// the header line is a directive, accounted as a gap
			_ = m
		}
	}
	// the atlas:delimiter header is only honoured as the very first line of the input
	gapOK := func(gap string, atStart bool) (string, bool) {
		// everything in a gap must be white space, comments, the current delimiter or delimiter commands
		for len(gap) > 0 {
			first := atStart
			atStart = false
			_ = first
			r, w := utf8.DecodeRuneInString(gap)
			switch {
			case reDelimCmd.MatchString(gap):
				line := gap
				if i := strings.IndexByte(gap, '\n'); i >= 0 {
					line, gap = gap[:i], gap[i+1:]
				} else {
					gap = ""
				}
				d := strings.TrimSpace(line[len("delimiter"):])
				if len(d) > 1 && strings.HasPrefix(d, "'") && strings.HasSuffix(d, "'") {
					d = strings.ReplaceAll(d[1:len(d)-1], "''", "'")
				}
				delim = unescapeDelim(d)
			// (a DELIMITER command at the start of a statement takes precedence over the delimiter itself)
			// (the scanner reads runes: a delimiter that is only the first byte(s) of a multi-byte white-space
			// rune - possible for a delimiter that is not valid UTF-8 - does not match there)
			case delim != "" && strings.HasPrefix(gap, delim) && !(unicode.IsSpace(r) && w > len(delim)):
				gap = gap[len(delim):]
			case unicode.IsSpace(r):
				gap = gap[w:]
			case strings.HasPrefix(gap, "--"):
				line := gap
				if i := strings.IndexByte(gap, '\n'); i >= 0 {
					line, gap = gap[:i], gap[i+1:]
				} else {
					gap = ""
				}
				if m := reDirectiveCopy.FindStringSubmatch(line); first && len(m) == 4 && m[1] == "-- " && m[2] == "delimiter" && m[3] != "" {
					delim = unescapeDelim(m[3])
				}
			case o.HashComments && strings.HasPrefix(gap, "#"):
				if i := strings.IndexByte(gap, '\n'); i >= 0 {
					gap = gap[i+1:]
				} else {
					gap = ""
				}
			case strings.HasPrefix(gap, "/*") && strings.Contains(gap[2:], "*/"):
				gap = gap[2+strings.Index(gap[2:], "*/")+2:]
			default:
				return gap, false
			}
		}
		return "", true
	}
	// the delimiter that ended the previous statement comes first in the gap (it is not part of Text
	// unless it is the default one) – before any DELIMITER command is looked for.
	stripDelim := func(gap string, cur int) string {
		if g := strings.TrimLeftFunc(gap, unicode.IsSpace); cur > 0 && delim != "" && strings.HasPrefix(g, delim) {
			return g[len(delim):]
		}
		return gap
	}
	for i, s := range out.Stmts {
		tb, _ := hex.DecodeString(s.Text)
		text := string(tb)
		if s.Pos < 0 || s.Pos+len(text) > len(src) || src[s.Pos:s.Pos+len(text)] != text {
			sig := "text-not-at-pos"
			if strings.HasPrefix(src, "-- atlas:delimiter") {
				sig = "pos-ignores-delimiter-header"
			}
			return false, sig, fmt.Sprintf("statement %d: Pos=%d Text=%q is not found there in %q", i, s.Pos, text, src)
		}
		if s.Pos < cur {
			return false, "positions-overlap", fmt.Sprintf("statement %d at %d overlaps the previous one ending at %d in %q", i, s.Pos, cur, src)
		}
		if rest, ok := gapOK(stripDelim(src[cur:s.Pos], cur), cur == 0); !ok {
			return false, "text-dropped-between-statements", fmt.Sprintf("before statement %d: %q is neither blank, comment nor delimiter (src %q)", i, rest, src)
		}
		cur = s.Pos + len(text)
	}
	if rest, ok := gapOK(stripDelim(src[cur:], cur), cur == 0); !ok {
		return false, "text-dropped-at-end", fmt.Sprintf("after the last statement: %q is neither blank, comment nor delimiter (src %q)", rest, src)
	}
	return true, "", ""
}

// --- generators ---

var lexTokens = []string{
	"SELECT", " ", "\n", "\t", ";", ";\n", "1", "x", "a_b", "foo", ",", "(", ")", "()", "(1, 2)", "=", "*",
	"'a'", "'a''b'", "'a;b'", "'a\\'b'", "'a\\\\'", "''", "'", "\"c\"", "\"c;d\"", "\"", "`t`", "`t;u`", "`", "`a\\`",
	"E'x\\'y'", "e'\\\\'", "E'", "N'x'",
	"-- c\n", "--c", "-- c;\n", "--\n", "# h\n", "#h", "/* b */", "/* b;\n b */", "/*", "*/", "/**/", "-", "/", "--",
	"$$", "$$ a; b $$", "$tag$", "$tag$ x; $tag$", "$t1$ $$ $t1$", "$1", "$_$;$_$", "$é$ x $é$",
	"BEGIN", "BEGIN\n", "begin ", "END", "END;", "end", "END\n", "BEGIN ATOMIC ", "BEGIN ATOMIC\n", "begin atomic\n", "xBEGIN ", "BEGINx", " BEGIN ",
	"CREATE TRIGGER t BEGIN\n", "CREATE FUNCTION f() RETURNS int BEGIN ATOMIC\n", "IF x THEN", "END IF;", "COMMIT", "BEGIN;",
	"DELIMITER //\n", "DELIMITER §\n", "delimiter é\n", "DELIMITER 語\n", "§", "§\n", "é", "語", "DELIMITER ;\n", "delimiter $$\n", "DELIMITER '\n", "DELIMITER ';'\n", "DELIMITER 'a''b'\n", "DELIMITER \n", "DELIMITER", "DELIMITERx", "DELIMITER \\n\n", "//", "//\n", "$$\n",
	"é", "\u00a0", "\u2028", "\xff", "\xc3", "\xe2\x80", "\r\n", "\r", "\v", "\f", "\x00",
	"-- atlas:delimiter \\n\\n\n", "-- atlas:nolint\n", "-- atlas:delimiter\n", "\n\n",
	// psql meta-command lines as pg_dump writes them
	"\\connect db\n", "\\restrict k\n\n", "\\unrestrict k\n", "\\.\n",
	// MySQL version comments as mysqldump writes them
	"/*!40101 SET NAMES utf8 */;", "/*!40101 SET @a=1 */;\n", "/*!50003 CREATE\n TRIGGER t */;\n", "/*!40000 ALTER TABLE t DISABLE KEYS */;\nINSERT INTO t VALUES (1);\n", "/*! x */",
}

func genLex(r *hx.Rand) string {
	var b strings.Builder
	if r.Chance(1, 8) {
		b.WriteString(hx.Pick(r, []string{"-- atlas:delimiter \\n\\n\n", "-- atlas:delimiter //\n", "-- atlas:delimiter ;;\n\n", "-- atlas:delimiter \\t\n", "-- atlas:delimiter", "-- atlas:delimiter \n", "--  atlas:delimiter x\n", "-- atlas:delimiter END\n"}))
	}
	n := 1 + r.Intn(14)
	for i := 0; i < n; i++ {
		b.WriteString(hx.Pick(r, lexTokens))
		if r.Chance(1, 3) {
			b.WriteString(" ")
		}
	}
	return b.String()
}

func mutateLex(r *hx.Rand, s string) string {
	b := []byte(s)
	k := 1 + r.Intn(3)
	for i := 0; i < k; i++ {
		if len(b) == 0 {
			b = append(b, byte(r.Intn(256)))
			continue
		}
		p := r.Intn(len(b))
		switch r.Intn(4) {
		case 0:
			b = append(b[:p], b[p+1:]...)
		case 1:
			c := hx.Pick(r, []byte{';', '\'', '"', '`', '(', ')', '\n', ' ', '$', '-', '/', '*', '#', '\\', 'E', 0x80, 0xc3, 0xe2, 0xff, 0})
			b = append(b[:p], append([]byte{c}, b[p:]...)...)
		case 2:
			b[p] = byte(r.Intn(256))
		case 3:
			q := r.Intn(len(b))
			b[p], b[q] = b[q], b[p]
		}
	}
	return string(b)
}

func goldenLexInputs() []string {
	var out []string
	root := os.Getenv("VERIF_REPO")
	if root == "" {
		root = "/repo"
	}
	for _, pat := range []string{"sql/migrate/testdata/lex/*.sql", "sql/migrate/testdata/lexescaped/*.sql", "sql/migrate/testdata/lexgroup/*.sql",
		"sql/migrate/testdata/lexbegintry/*.sql", "sql/migrate/testdata/sqlserver/*.sql", "sql/migrate/testdata/migrate/*.sql", "sql/migrate/testdata/migrate/sub/*.sql"} {
		ms, _ := filepath.Glob(filepath.Join(root, pat))
		for _, m := range ms {
			if b, err := os.ReadFile(m); err == nil && len(b) < 20000 {
				out = append(out, string(b))
			}
		}
	}
	return out
}

func runC08(e *Env) error {
	pool, err := hx.NewPool(e.Model, e.Workers)
	if err != nil {
		return err
	}
	defer pool.Close()
	var cases []c08Case
	if e.Replay != "" {
		var doc struct {
			Case struct {
				Case c08Case `json:"case"`
			} `json:"case"`
		}
		b, err := os.ReadFile(e.Replay)
		if err != nil {
			return err
		}
		if err := json.Unmarshal(b, &doc); err != nil {
			return err
		}
		cases = []c08Case{doc.Case.Case}
	} else {
		var inputs []string
		golden := goldenLexInputs()
		inputs = append(inputs, golden...)
		inputs = append(inputs, "", ";", " ", "'", "(", ")", "DELIMITER '\nfoo", "-- atlas:delimiter \\n\\n\nfoo;\n\nbar", "DELIMITER //\nfoo//\nbar//", "a;b", "a;\n-- c\nb;", "$$a;b$$;c")
		r := hx.NewRand(e.Seed, "c08")
		n := 6000
		if e.Thorough() {
			n = 250000
		}
		for i := 0; i < n; i++ {
			s := genLex(r)
			inputs = append(inputs, s)
			if r.Chance(1, 2) {
				inputs = append(inputs, mutateLex(r, s))
			}
		}
		for _, g := range golden {
			for k := 0; k < 3; k++ {
				if len(g) < 3000 {
					inputs = append(inputs, mutateLex(r, g))
				}
			}
		}
		// 7-bit exhaustive tiny strings over a punctuation alphabet
		alpha := []byte{';', '\'', '(', ')', '-', '\n', 'a', ' ', '$', '/', '*'}
		var rec func(cur []byte, d int)
		maxLen := 4
		if e.Thorough() {
			maxLen = 5
		}
		rec = func(cur []byte, d int) {
			inputs = append(inputs, string(cur))
			if d == maxLen {
				return
			}
			for _, c := range alpha {
				rec(append(append([]byte{}, cur...), c), d+1)
			}
		}
		rec(nil, 0)
		sets := []string{"stmts", "mysql", "postgres", "sqlite"}
		for i, in := range inputs {
			for _, set := range sets {
				if len(in) <= 5 && set != sets[i%4] && i > 2000 {
					continue // tiny exhaustive strings: one set each (rotating)
				}
				cases = append(cases, c08Case{Set: set, Opts: lexOptSets[set], Src: hex.EncodeToString([]byte(in))})
			}
			if r.Chance(1, 5) {
				o := lexOpts{r.Chance(1, 2), r.Chance(1, 2), r.Chance(1, 2), r.Chance(1, 2), r.Chance(1, 2), r.Chance(1, 2), r.Chance(1, 4)}
				cases = append(cases, c08Case{Set: "random", Opts: o, Src: hex.EncodeToString([]byte(in))})
			}
		}
		e.Res.Rule = fmt.Sprintf("inputs: %d golden files of sql/migrate/testdata + their mutations, %d grammar-token strings (quotes, E'..', comments, parens, dollar quotes, BEGIN/END, BEGIN ATOMIC, DELIMITER commands, atlas:delimiter headers, non-ASCII, invalid UTF-8) + byte mutations, all strings of length <= %d over an 11-character punctuation alphabet; each under the option sets of migrate.Stmts, MySQL, PostgreSQL, SQLite (+ 20%% random subsets of the 7 modelled options); non-trivial = implementation returned >= 1 statement or an error; distinct by (options, input)", len(golden), n, maxLen)
	}
	if e.Replay == "" && e.Atlas != "" {
		c08Lint(e)
	}
	parallel(e.Workers, len(cases), func(i int) {
		c := cases[i]
		sb, _ := hex.DecodeString(c.Src)
		src := string(sb)
		impl := scanImpl(c.Opts, c.Set, src)
		var model lexOut
		if err := pool.AskInto(map[string]any{"op": "lex.scan", "opts": c.Opts, "src": c.Src, "fixed": true}, &model); err != nil {
			e.Res.Note("model error: %v", err)
			return
		}
		tags := []string{"set:" + c.Set}
		switch {
		case impl.Err != "":
			tags = append(tags, "impl:"+impl.Err)
		default:
			n := len(impl.Stmts)
			if n > 3 {
				n = 3
			}
			tags = append(tags, fmt.Sprintf("impl:stmts%d", n))
		}
		for _, f := range []struct{ name, sub string }{{"dollar", "$"}, {"begin", "BEGIN"}, {"delimcmd", "DELIMITER"}, {"header", "atlas:delimiter"}, {"comment", "--"}, {"quote", "'"}} {
			if strings.Contains(strings.ToUpper(src), strings.ToUpper(f.sub)) {
				tags = append(tags, "has:"+f.name)
			}
		}
		ascii := true
		for _, b := range sb {
			if b >= 0x80 {
				ascii = false
			}
		}
		if !ascii {
			tags = append(tags, "non-ascii")
		}
		e.Res.Count(c.Set+hxJSON(c.Opts)+c.Src, impl.Err != "" || len(impl.Stmts) > 0, tags...)
		if len(impl.Stmts) >= 2 && len(src) < 80 && strings.Contains(src, "DELIMITER") {
			e.Res.Sample(map[string]any{"set": c.Set, "src": src, "stmts": len(impl.Stmts)}, 5)
		}
		okI, sig, what := c08Monitor(c.Opts, src, impl)
		if impl.Stmts == nil {
			impl.Stmts = []lexStmt{}
		}
		if model.Stmts == nil {
			model.Stmts = []lexStmt{}
		}
		same := hxJSON(impl) == hxJSON(model)
		if !same {
			e.Res.Disagree()
		}
		replay := map[string]any{"case": c, "src": src, "impl": impl, "model": model}
		switch {
		case !okI:
			e.Res.Violate("failing-input", sig, what+" opts="+hxJSON(c.Opts), "Props.C08 / corr lex.scan", replay)
		case !same:
			e.Res.Violate("no-failing-input-found", "corr-lex-mismatch", fmt.Sprintf("implementation %s vs model %s on %q opts=%s", trunc(hxJSON(impl), 300), trunc(hxJSON(model), 300), src, hxJSON(c.Opts)), "correspondence Atlas.Lex.scan", replay)
		}
	})
	return nil
}

func trunc(s string, n int) string {
	if len(s) > n {
		return s[:n] + "…"
	}
	return s
}
