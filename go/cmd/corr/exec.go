package main

// Shared machinery for the executor properties (C09, C11, C12): a recording driver and revision
// store with fault injection, the request/answer types of the "exec" and "pending" model ops, and
// the canonical error classification.

import (
	"context"
	"database/sql"
	"errors"
	"fmt"
	"regexp"
	"sort"
	"strings"
	"time"

	"ariga.io/atlas/sql/migrate"
	"ariga.io/atlas/sql/schema"
)

type (
	// MFile is a migration file as sent to the model.
	MFile struct {
		N  string   `json:"n"`
		V  string   `json:"v"`
		D  string   `json:"d"`
		S  []string `json:"s"`
		Ck bool     `json:"ck"`
		H  string   `json:"h"`
	}
	// MRev is a revision as sent to / received from the model.
	MRev struct {
		V  string   `json:"v"`
		D  string   `json:"d"`
		Ty uint     `json:"ty"`
		A  int      `json:"a"`
		T  int      `json:"t"`
		H  string   `json:"h"`
		Ph []string `json:"ph"`
		E  string   `json:"e"`
		Es string   `json:"es"`
	}
	// MCfg mirrors the executor options.
	MCfg struct {
		Order    string `json:"order"`
		Baseline string `json:"baseline"`
		Dirty    bool   `json:"dirty"`
		Clean    bool   `json:"clean"`
	}
	// MAttempt is one ExecuteN call with its fault schedule (and optionally a replaced directory).
	MAttempt struct {
		Faults []int   `json:"faults"`
		Files  []MFile `json:"files,omitempty"`
	}
	// ExecReq is the "exec" request.
	ExecReq struct {
		Op       string     `json:"op"`
		Fixed    bool       `json:"fixed"`
		Files    []MFile    `json:"files"`
		Revs     []MRev     `json:"revs"`
		Cfg      MCfg       `json:"cfg"`
		N        int        `json:"n"`
		Attempts []MAttempt `json:"attempts"`
	}
	// AttemptOut is what one attempt produced.
	AttemptOut struct {
		Res     string   `json:"res"`
		Calls   []string `json:"calls"`
		Journal []string `json:"journal"`
		Revs    []MRev   `json:"revs"`
		Ops     []string `json:"ops,omitempty"` // implementation only: kind of every fault-eligible op
	}
	// ExecAns is the "exec" answer.
	ExecAns struct {
		Attempts []AttemptOut `json:"attempts"`
		Err      string       `json:"err,omitempty"`
	}
)

// recDriver is a migrate.Driver that records ExecContext calls and fails on schedule.
type recDriver struct {
	migrate.Driver // nil: every other method panics if reached (caught per case)
	w              *recWorld
	clean          bool
}

type recWorld struct {
	tick    int
	faults  map[int]bool
	calls   []string
	journal []string
	ops     []string
	revs    map[string]*migrate.Revision
}

func (d *recDriver) ExecContext(_ context.Context, q string, _ ...any) (sql.Result, error) {
	t := d.w.tick
	d.w.tick++
	d.w.ops = append(d.w.ops, "stmt")
	d.w.calls = append(d.w.calls, q)
	if d.w.faults[t] {
		return nil, errors.New("exec")
	}
	d.w.journal = append(d.w.journal, q)
	return nil, nil
}

func (d *recDriver) CheckClean(context.Context, *migrate.TableIdent) error {
	if d.clean {
		return nil
	}
	return &migrate.NotCleanError{Reason: "verif: not clean"}
}

func (d *recDriver) Lock(context.Context, string, time.Duration) (schema.UnlockFunc, error) {
	return func() error { return nil }, nil
}

// recRRW is a RevisionReadWriter keeping value copies, failing writes on schedule.
type recRRW struct{ w *recWorld }

func (r *recRRW) Ident() *migrate.TableIdent { return &migrate.TableIdent{Name: "revs"} }

func copyRev(r *migrate.Revision) *migrate.Revision {
	c := *r
	c.PartialHashes = append([]string(nil), r.PartialHashes...)
	return &c
}

func (r *recRRW) ReadRevisions(context.Context) ([]*migrate.Revision, error) {
	vs := make([]string, 0, len(r.w.revs))
	for v := range r.w.revs {
		vs = append(vs, v)
	}
	sort.Strings(vs)
	out := make([]*migrate.Revision, 0, len(vs))
	for _, v := range vs {
		out = append(out, copyRev(r.w.revs[v]))
	}
	return out, nil
}

func (r *recRRW) ReadRevision(_ context.Context, v string) (*migrate.Revision, error) {
	if x, ok := r.w.revs[v]; ok {
		return copyRev(x), nil
	}
	return nil, migrate.ErrRevisionNotExist
}

func (r *recRRW) WriteRevision(_ context.Context, rev *migrate.Revision) error {
	t := r.w.tick
	r.w.tick++
	r.w.ops = append(r.w.ops, "write")
	if r.w.faults[t] {
		return errors.New("write")
	}
	r.w.revs[rev.Version] = copyRev(rev)
	return nil
}

func (r *recRRW) DeleteRevision(_ context.Context, v string) error {
	delete(r.w.revs, v)
	return nil
}

func (w *recWorld) snapshot() []MRev {
	rrw := &recRRW{w}
	rs, _ := rrw.ReadRevisions(context.Background())
	out := make([]MRev, 0, len(rs))
	for _, r := range rs {
		out = append(out, toMRev(r))
	}
	return out
}

func toMRev(r *migrate.Revision) MRev {
	ph := r.PartialHashes
	if ph == nil {
		ph = []string{}
	}
	e := r.Error
	if e != "" {
		e = "exec" // error text is canonicalised to the small enum the model uses
	}
	return MRev{V: r.Version, D: r.Description, Ty: uint(r.Type), A: r.Applied, T: r.Total, H: r.Hash,
		Ph: ph, E: e, Es: r.ErrorStmt}
}

func fromMRev(m MRev) *migrate.Revision {
	return &migrate.Revision{Version: m.V, Description: m.D, Type: migrate.RevisionType(m.Ty), Applied: m.A,
		Total: m.T, Hash: m.H, PartialHashes: append([]string(nil), m.Ph...), Error: m.E, ErrorStmt: m.Es}
}

// classify maps an ExecuteN / Pending error to the model's result enum.
func classify(err error) string {
	if err == nil {
		return "ok"
	}
	var (
		we *migrate.WriteRevisionError
		se *migrate.StmtExecError
		he migrate.HistoryChangedError
		ne *migrate.HistoryNonLinearError
		me *migrate.MissingMigrationError
		ce *migrate.NotCleanError
	)
	w := ""
	if errors.As(err, &we) {
		w = "+write"
	}
	switch {
	case errors.As(err, &se):
		return "stmt" + w
	case errors.As(err, &he):
		return fmt.Sprintf("history:%d%s", he.Stmt, w)
	case w != "":
		return "write"
	case errors.Is(err, migrate.ErrNoPendingFiles):
		return "no-pending"
	case errors.As(err, &ne):
		return "non-linear"
	case errors.As(err, &me):
		return "missing"
	case errors.As(err, &ce):
		return "not-clean"
	case strings.Contains(err.Error(), "baseline version"):
		return "baseline-not-found"
	case errors.Is(err, migrate.ErrChecksumMismatch), errors.Is(err, migrate.ErrChecksumNotFound), errors.Is(err, migrate.ErrChecksumFormat):
		return "checksum"
	}
	return "other:" + err.Error()
}

// dirSpec is a directory given by file name → content, checkpoints by directive in the content.
type dirFile struct {
	Name    string
	Content string
}

func buildDir(files []dirFile) (*migrate.MemDir, error) {
	d := &migrate.MemDir{}
	for _, f := range files {
		if err := d.WriteFile(f.Name, []byte(f.Content)); err != nil {
			return nil, err
		}
	}
	sum, err := d.Checksum()
	if err != nil {
		return nil, err
	}
	if err := migrate.WriteSumFile(d, sum); err != nil {
		return nil, err
	}
	return d, nil
}

// modelFiles turns the directory (as the implementation lists and scans it) into model files.
func modelFiles(d migrate.Dir) ([]MFile, error) {
	fs, err := d.Files()
	if err != nil {
		return nil, err
	}
	sum, err := d.Checksum()
	if err != nil {
		return nil, err
	}
	out := make([]MFile, 0, len(fs))
	for _, f := range fs {
		st, err := f.Stmts()
		if err != nil {
			return nil, err
		}
		if st == nil {
			st = []string{}
		}
		h, _ := sum.SumByName(f.Name())
		// whether the file is a checkpoint is read off its bytes here (not asked from the implementation): the
		// header is the run of comment lines at the top of the file
		ck := headerHasDirective(f.Bytes(), "checkpoint")
		out = append(out, MFile{N: f.Name(), V: f.Version(), D: f.Desc(), S: st, Ck: ck, H: h})
	}
	return out, nil
}

type execCase struct {
	Dir      []dirFile `json:"dir"`
	Revs     []MRev    `json:"revs"`
	Cfg      MCfg      `json:"cfg"`
	N        int       `json:"n"`
	Attempts []caseTry `json:"attempts"`
}

type caseTry struct {
	Faults []int     `json:"faults"`
	Dir    []dirFile `json:"dir,omitempty"` // replace the directory before this attempt
}

func orderOpt(s string) migrate.ExecOrder {
	switch s {
	case "linear-skip":
		return migrate.ExecOrderLinearSkip
	case "non-linear":
		return migrate.ExecOrderNonLinear
	}
	return migrate.ExecOrderLinear
}

// runExecImpl runs the case on the real Executor and builds the matching model request.
func runExecImpl(c *execCase, fixed bool) (*ExecAns, *ExecReq, error) {
	w := &recWorld{revs: map[string]*migrate.Revision{}}
	for _, r := range c.Revs {
		w.revs[r.V] = fromMRev(r)
	}
	dir, err := buildDir(c.Dir)
	if err != nil {
		return nil, nil, err
	}
	mf, err := modelFiles(dir)
	if err != nil {
		return nil, nil, err
	}
	req := &ExecReq{Op: "exec", Fixed: fixed, Files: mf, Revs: append([]MRev{}, c.Revs...), Cfg: c.Cfg, N: c.N}
	if req.Revs == nil {
		req.Revs = []MRev{}
	}
	ans := &ExecAns{}
	for _, a := range c.Attempts {
		ma := MAttempt{Faults: append([]int{}, a.Faults...)}
		if a.Dir != nil {
			if dir, err = buildDir(a.Dir); err != nil {
				return nil, nil, err
			}
			if ma.Files, err = modelFiles(dir); err != nil {
				return nil, nil, err
			}
		}
		req.Attempts = append(req.Attempts, ma)
		w.tick, w.faults, w.ops = 0, map[int]bool{}, nil
		for _, f := range a.Faults {
			w.faults[f] = true
		}
		nc, nj := len(w.calls), len(w.journal)
		res := func() (res string) {
			defer func() {
				if p := recover(); p != nil {
					res = "panic"
					_ = p
				}
			}()
			opts := []migrate.ExecutorOption{migrate.WithExecOrder(orderOpt(c.Cfg.Order)), migrate.WithAllowDirty(c.Cfg.Dirty)}
			if c.Cfg.Baseline != "" {
				opts = append(opts, migrate.WithBaselineVersion(c.Cfg.Baseline))
			}
			ex, err := migrate.NewExecutor(&recDriver{w: w, clean: c.Cfg.Clean}, dir, &recRRW{w}, opts...)
			if err != nil {
				return "other:" + err.Error()
			}
			return classify(ex.ExecuteN(context.Background(), c.N))
		}()
		ans.Attempts = append(ans.Attempts, AttemptOut{Res: res,
			Calls: append([]string{}, w.calls[nc:]...), Journal: append([]string{}, w.journal[nj:]...),
			Revs: w.snapshot(), Ops: append([]string{}, w.ops...)})
	}
	return ans, req, nil
}

// sameAttempts compares implementation and model attempt outputs (Ops are implementation-only).
func sameAttempts(a, b []AttemptOut) (bool, string) {
	if len(a) != len(b) {
		return false, fmt.Sprintf("attempt count %d vs %d", len(a), len(b))
	}
	for i := range a {
		x, y := a[i], b[i]
		x.Ops, y.Ops = nil, nil
		if jx, jy := canon(x), canon(y); jx != jy {
			return false, fmt.Sprintf("attempt %d: impl %s model %s", i, jx, jy)
		}
	}
	return true, ""
}

func canon(a AttemptOut) string {
	if a.Calls == nil {
		a.Calls = []string{}
	}
	if a.Journal == nil {
		a.Journal = []string{}
	}
	if a.Revs == nil {
		a.Revs = []MRev{}
	}
	for i := range a.Revs {
		if a.Revs[i].Ph == nil {
			a.Revs[i].Ph = []string{}
		}
	}
	return hxJSON(a)
}

var reHeaderDirective = regexp.MustCompile(`^(?:--|#)\s*atlas:(\w+)`)

// headerHasDirective: the file's header (the comment lines it starts with, up to the first other line) holds
// the directive `atlas:<name>`.
func headerHasDirective(b []byte, name string) bool {
	for _, l := range strings.Split(string(b), "\n") {
		l = strings.TrimRight(l, "\r")
		if !strings.HasPrefix(l, "--") && !strings.HasPrefix(l, "#") {
			return false
		}
		if m := reHeaderDirective.FindStringSubmatch(l); m != nil && m[1] == name {
			return true
		}
	}
	return false
}
