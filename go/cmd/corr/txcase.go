package main

// Shared case machinery of C10 (crash consistency) and C13 (failure atomicity): a directory whose
// statements record themselves in a `journal` table, run through the real `atlas migrate apply`
// (sqlitev:// hook: operation trace + crash points), observed with the independent reader, and the
// Lean model Atlas.Tx asked for the same plan / crash states.

import (
	"fmt"
	"os"
	"path/filepath"
	"sort"
	"strconv"
	"strings"

	"verifharness/internal/hx"
)

type txFile struct {
	Ok        []bool `json:"ok"`
	Directive string `json:"directive,omitempty"`
	// Lead: an ordinary comment line stands in front of the directive (same comment group: still the file header)
	Lead bool `json:"lead_comment,omitempty"`
	// Sep: what stands on the line that separates the header from the statements ("" = an empty line; blanks or a
	// tab: a line that only looks empty)
	Sep string `json:"separator_line,omitempty"`
}

type txCase struct {
	Mode       string   `json:"mode"`
	Files      []txFile `json:"files"`
	Count      int      `json:"count,omitempty"`
	PreJournal bool     `json:"pre_journal"` // journal table exists before the run (--allow-dirty); else statement (0,0) creates it
	DryRun     bool     `json:"dry_run,omitempty"`
	// Checkpoint: file 0 carries the atlas:checkpoint directive and the directory holds an older file
	// (0_f.sql, recording (99,0)) that a first run must skip. Needs PreJournal.
	Checkpoint bool `json:"checkpoint,omitempty"`
	// Checkpoint2: with Checkpoint, an even older checkpoint file (00_ck.sql, recording (98,0)) stands in front:
	// a first run starts at the LAST checkpoint, this one is never executed
	Checkpoint2 bool `json:"second_checkpoint,omitempty"`
	// Salt: when not 0, part of every statement's text (a block comment), so that the per-statement checksums
	// differ from case to case
	Salt int `json:"salt,omitempty"`
	// Order: --exec-order (default linear); the histories here are linear, so the order changes nothing
	Order string `json:"exec_order,omitempty"`
}

type mRev struct {
	Applied int  `json:"applied"`
	Total   int  `json:"total"`
	Err     bool `json:"err"`
}

type mDb struct {
	Journal [][2]int `json:"journal"`
	Revs    []mRev   `json:"revs"`
}

func (d mDb) sorted() mDb {
	j := append([][2]int{}, d.Journal...)
	sort.Slice(j, func(a, b int) bool { return j[a][0] < j[b][0] || j[a][0] == j[b][0] && j[a][1] < j[b][1] })
	return mDb{j, d.Revs}
}

func (d mDb) String() string { return hxJSON(d.sorted()) }

// canon renders a model database for comparison with an observed one: when statement (0,0) is the
// idempotent CREATE TABLE IF NOT EXISTS its repetition leaves no second effect to observe.
func (c *txCase) canon(d mDb) string {
	if c.PreJournal {
		return d.String()
	}
	var j [][2]int
	seen := false
	for _, x := range d.Journal {
		if x == [2]int{0, 0} {
			if seen {
				continue
			}
			seen = true
		}
		j = append(j, x)
	}
	if j == nil {
		j = [][2]int{}
	}
	return mDb{j, d.Revs}.String()
}

func (c *txCase) stmtSQL(f, i int, ok bool) string {
	switch {
	case !c.PreJournal && f == 0 && i == 0:
		return "CREATE TABLE IF NOT EXISTS journal (f int, i int);"
	case ok && c.Salt != 0:
		return fmt.Sprintf("INSERT INTO journal VALUES (%d, %d) /* %d */;", f, i, c.Salt)
	case ok:
		return fmt.Sprintf("INSERT INTO journal VALUES (%d, %d);", f, i)
	default:
		return fmt.Sprintf("INSERT INTO no_such_table VALUES (%d, %d);", f, i)
	}
}

func (c *txCase) dirFiles(fixAll bool) []dirFile {
	var out []dirFile
	if c.Checkpoint && c.Checkpoint2 {
		out = append(out, dirFile{"00_ck.sql", "-- atlas:checkpoint\n\nINSERT INTO journal VALUES (98, 0);\n"})
	}
	if c.Checkpoint {
		out = append(out, dirFile{"0_f.sql", "INSERT INTO journal VALUES (99, 0);\n"})
	}
	for f, tf := range c.Files {
		var b strings.Builder
		if c.Checkpoint && f == 0 {
			b.WriteString("-- atlas:checkpoint\n\n")
		}
		if tf.Directive != "" {
			if tf.Lead {
				b.WriteString("-- written by hand\n")
			}
			b.WriteString("-- atlas:txmode " + tf.Directive + "\n" + tf.Sep + "\n")
		}
		for i, ok := range tf.Ok {
			b.WriteString(c.stmtSQL(f, i, ok || fixAll) + "\n")
		}
		out = append(out, dirFile{fmt.Sprintf("%d_f.sql", f+1), b.String()})
	}
	return out
}

// setup creates <work>/<name>/{m,base.sqlite} and returns the case directory.
func (c *txCase) setup(work, name string) (string, error) {
	dir := filepath.Join(work, name)
	os.RemoveAll(dir)
	if err := os.MkdirAll(dir, 0o755); err != nil {
		return "", err
	}
	if err := writeMigrationDir(filepath.Join(dir, "m"), c.dirFiles(false)); err != nil {
		return "", err
	}
	if c.PreJournal {
		if err := execSQL(filepath.Join(dir, "base.sqlite"), "CREATE TABLE journal (f int, i int)"); err != nil {
			return "", err
		}
	}
	return dir, nil
}

func (c *txCase) args(db string) []string {
	a := []string{"migrate", "apply", "--dir", "file://m", "--url", "sqlitev://" + db + "?_busy_timeout=300", "--tx-mode", c.Mode}
	if c.PreJournal {
		a = append(a, "--allow-dirty")
	}
	if c.DryRun {
		a = append(a, "--dry-run")
	}
	if c.Order != "" {
		a = append(a, "--exec-order", c.Order)
	}
	if c.Count > 0 {
		a = append(a, strconv.Itoa(c.Count))
	}
	return a
}

// fresh copies the base database (if any) to a new file name inside the case dir.
func (c *txCase) fresh(dir, name string) string {
	p := filepath.Join(dir, name)
	os.Remove(p)
	os.Remove(p + "-journal")
	if c.PreJournal {
		copyFile(filepath.Join(dir, "base.sqlite"), p)
	}
	return name
}

// toModel converts a dump to the model's database value.
func (c *txCase) toModel(d dbDump) (mDb, error) {
	var m mDb
	m.Journal = [][2]int{}
	m.Revs = []mRev{}
	if d.Err != "" {
		return m, fmt.Errorf("dump: %s", d.Err)
	}
	rows, exists := d.Rows["journal"]
	if exists && !c.PreJournal {
		m.Journal = append(m.Journal, [2]int{0, 0})
	}
	for _, r := range rows {
		p := strings.Split(r, ",")
		if len(p) != 2 {
			return m, fmt.Errorf("journal row %q", r)
		}
		f, _ := strconv.Atoi(p[0])
		i, _ := strconv.Atoi(p[1])
		m.Journal = append(m.Journal, [2]int{f, i})
	}
	for k, r := range d.Revs {
		if r.Version != strconv.Itoa(k+1) {
			return m, fmt.Errorf("revision rows are not a prefix of the directory: %v", d.Revs)
		}
		m.Revs = append(m.Revs, mRev{r.Applied, r.Total, r.Error != ""})
	}
	return m.sorted(), nil
}

// normTrace maps the hook's operation trace to model operations; idx[k] = number of model operations
// among the first k real operations. The revision-table bootstrap (ent's schema migration: pragmas, an
// empty or DDL-only transaction) is not part of the model.
func normTrace(tr []string) (ops []string, idx []int, err error) {
	type rop struct{ class, rest string }
	var rs []rop
	for _, l := range tr {
		p := strings.SplitN(l, " ", 3)
		if len(p) < 2 {
			return nil, nil, fmt.Errorf("trace line %q", l)
		}
		rest := ""
		if len(p) == 3 {
			rest = p[2]
		}
		rs = append(rs, rop{p[1], rest})
	}
	skip := make([]bool, len(rs))
	isDDL := func(r rop) bool {
		u := strings.ToUpper(r.rest)
		return r.class == "rev" && (strings.HasPrefix(u, "CREATE") || strings.HasPrefix(u, "ALTER") || strings.HasPrefix(u, "DROP"))
	}
	for i, r := range rs {
		if r.class == "pragma" {
			skip[i] = true
		}
		if r.class == "begin" {
			j := i + 1
			for j < len(rs) && (isDDL(rs[j]) || rs[j].class == "pragma") {
				j++
			}
			if j < len(rs) && rs[j].class == "commit" && (j == i+1 || isDDL(rs[i+1])) {
				for k := i; k <= j; k++ {
					skip[k] = true
				}
			}
		}
	}
	idx = []int{0}
	for i, r := range rs {
		if !skip[i] {
			switch r.class {
			case "begin", "commit", "rollback":
				ops = append(ops, r.class)
			case "stmt":
				var f, n int
				switch {
				case strings.HasPrefix(r.rest, "CREATE TABLE IF NOT EXISTS journal"):
					ops = append(ops, "stmt 0 0")
				case strings.HasPrefix(r.rest, "INSERT INTO journal"):
					fmt.Sscanf(r.rest, "INSERT INTO journal VALUES (%d, %d);", &f, &n)
					ops = append(ops, fmt.Sprintf("stmt %d %d", f, n))
				case strings.HasPrefix(r.rest, "INSERT INTO no_such_table"):
					fmt.Sscanf(r.rest, "INSERT INTO no_such_table VALUES (%d, %d);", &f, &n)
					ops = append(ops, fmt.Sprintf("fail %d %d", f, n))
				default:
					ops = append(ops, "stmt? "+trunc(r.rest, 60))
				}
			case "rev":
				if !strings.HasPrefix(r.rest, "args[") {
					ops = append(ops, "rev? "+trunc(r.rest, 60))
					break
				}
				a := strings.Split(r.rest[5:strings.Index(r.rest, "] ")], "|")
				if len(a) != 12 {
					ops = append(ops, "rev? "+trunc(r.rest, 60))
					break
				}
				v, _ := strconv.Atoi(a[11])
				e := 0
				if a[6] != "" {
					e = 1
				}
				ops = append(ops, fmt.Sprintf("rev %d %s %s %d", v-1, a[2], a[3], e))
			default:
				ops = append(ops, r.class+"?")
			}
		}
		idx = append(idx, len(ops))
	}
	return ops, idx, nil
}

// askPlan asks the Lean model for the plan of the command from database state db.
type txPlan struct {
	Ops   []string `json:"ops"`
	Ok    bool     `json:"ok"`
	Final mDb      `json:"final"`
	Crash []mDb    `json:"crash"`
}

func (c *txCase) askPlan(pool *hx.Pool, db mDb, fixed, crashes bool) (txPlan, error) {
	var files []map[string]any
	for _, f := range c.Files {
		m := map[string]any{"ok": f.Ok}
		if f.Directive != "" {
			m["directive"] = f.Directive
		}
		files = append(files, m)
	}
	req := map[string]any{"op": "tx.plan", "mode": c.Mode, "fixed": fixed, "dry": c.DryRun, "files": files, "db": db, "crashes": crashes}
	if c.Count > 0 {
		req["count"] = c.Count
	}
	var p txPlan
	err := pool.AskInto(req, &p)
	return p, err
}

// visible drops the model operations that never reach the database (failed lock, implicit close).
func visibleOps(ops []string) []string {
	var out []string
	for _, o := range ops {
		if strings.HasPrefix(o, "locked") || o == "close" {
			continue
		}
		out = append(out, o)
	}
	return out
}

func (c *txCase) stmtCount() (n int) {
	for _, f := range c.Files {
		n += len(f.Ok)
	}
	return
}

func (c *txCase) uniform() bool {
	for _, f := range c.Files {
		if f.Directive != "" {
			return false
		}
	}
	return true
}

func (c *txCase) allOk() bool {
	for _, f := range c.Files {
		for _, ok := range f.Ok {
			if !ok {
				return false
			}
		}
	}
	return true
}
