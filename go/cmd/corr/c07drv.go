package main

import (
	"context"
	"fmt"
	"os"
	"path/filepath"
	"strings"

	"ariga.io/atlas/sql/migrate"
	"ariga.io/atlas/sql/mysql"
	"ariga.io/atlas/sql/postgres"
	"ariga.io/atlas/sql/schema"
	"ariga.io/atlas/sql/sqltool"
)

// c07DriverEscapes: a Liquibase directory holds plain local files (the golang-migrate and flyway directories wrap
// theirs and are read with the generic scanner: known finding); the executor, the linter and the replay read them
// through migrate.FileStmts(driver, file), that is with the DRIVER's scanner - which knows the dialect's escapes. A MySQL plan whose comments hold a double quote (planned
// as \") and a PostgreSQL plan with an E'...\'...' default come back exactly as planned on that path.
func c07DriverEscapes(e *Env, work string) {
	ctx := context.Background()
	type dcase struct {
		dialect string
		drv     migrate.Driver
		pl      migrate.PlanApplier
		table   *schema.Table
	}
	mt := schema.NewTable("notes").SetSchema(schema.New("app")).
		AddColumns(schema.NewIntColumn("id", "int"), schema.NewStringColumn("body", "varchar", schema.StringSize(50)).SetComment(`say "hi"; ok`), schema.NewStringColumn("more", "varchar", schema.StringSize(50)).SetComment(`a "b" c`)).SetComment(`the "notes"; table`)
	pt := schema.NewTable("notes").SetSchema(schema.New("public")).
		AddColumns(schema.NewIntColumn("id", "integer"), schema.NewColumn("body").SetType(&schema.StringType{T: "text"}).SetDefault(&schema.RawExpr{X: `E'it\'s; fine'`}))
	cases := []dcase{{"mysql", &mysql.Driver{}, mysql.DefaultPlan, mt}, {"postgres", &postgres.Driver{}, postgres.DefaultPlan, pt}}
	fmts := []struct {
		name string
		f    migrate.Formatter
		open func(string) (migrate.Dir, error)
	}{
		{"liquibase", sqltool.LiquibaseFormatter, func(p string) (migrate.Dir, error) { return sqltool.NewLiquibaseDir(p) }},
	}
	// texts that begin and end with a quote character, with doubled quotes at their edges: whatever the planner
	// decides they are (already quoted or not), the statement it writes is one statement again when read back
	for ti, text := range []string{"'tail''", "''", "'", "'a'", "''a''", "\"q\"\"", "it''", "'x''y'", "'x'y'", "''''", "'\\'", "\"", "\"\"", "\"a\"\""} {
		t := schema.NewTable(fmt.Sprintf("edge%d", ti)).SetSchema(schema.New("app")).
			AddColumns(schema.NewIntColumn("id", "int"), schema.NewStringColumn("body", "varchar", schema.StringSize(50)).SetComment(text)).SetComment(text)
		cases = append(cases, dcase{"mysql", &mysql.Driver{}, mysql.DefaultPlan, t})
	}
	fmts = append(fmts, struct {
		name string
		f    migrate.Formatter
		open func(string) (migrate.Dir, error)
	}{"atlas", migrate.DefaultFormatter, func(p string) (migrate.Dir, error) { return migrate.NewLocalDir(p) }})
	for _, c := range cases {
		second := schema.NewTable("second").SetSchema(c.table.Schema).AddColumns(schema.NewIntColumn("id", map[string]string{"mysql": "int", "postgres": "integer"}[c.dialect]))
		plan, err := c.pl.PlanChanges(ctx, "p", []schema.Change{&schema.AddTable{T: c.table}, &schema.AddTable{T: second}})
		if err != nil {
			continue
		}
		plan.Version = "20240101000000"
		var want []string
		for _, ch := range plan.Changes {
			want = append(want, ch.Cmd)
		}
		for _, f := range fmts {
			id := fmt.Sprintf("%s plan with the dialect's escapes (table %s), %s directory, read through migrate.FileStmts with the driver", c.dialect, c.table.Name, f.name)
			rep := map[string]any{"case": id, "plan": want}
			e.Res.Count("drv-escapes:"+id, true, "driver-escapes:"+c.dialect)
			files, err := f.f.Format(plan)
			if err != nil {
				continue
			}
			dir, err := os.MkdirTemp(work, "c07drv")
			if err != nil {
				return
			}
			for _, fl := range files {
				os.WriteFile(filepath.Join(dir, fl.Name()), fl.Bytes(), 0o644)
			}
			d, err := f.open(dir)
			if err != nil {
				os.RemoveAll(dir)
				continue
			}
			fs, err := d.Files()
			if err != nil || len(fs) == 0 {
				os.RemoveAll(dir)
				continue
			}
			got, gerr := migrate.FileStmts(c.drv, fs[0])
			norm := func(xs []string) string {
				var out []string
				for _, x := range xs {
					out = append(out, strings.TrimSuffix(strings.TrimSpace(x), ";"))
				}
				return strings.Join(out, "\x00")
			}
			if gerr != nil || norm(got) != norm(want) {
				e.Res.Violate("failing-input", "driver-scanner-bypassed-for-local-file", fmt.Sprintf("%s: returns %d statements (err=%v), the plan holds %d: %s", id, len(got), gerr, len(want), firstDiff(norm(want), norm(got))), "Props.C07 round trip (executor's read path)", rep)
			}
			os.RemoveAll(dir)
		}
	}
}
