package main

// C15: HCL round trip returns an equivalent schema, for every dialect and column type.
// (A) type catalogue: every registered type spec of mysql/postgres/sqlite TypeRegistry x a grid of
//     attribute values (size, precision, scale, unsigned, enum/set values, ...) is rendered to a type
//     string, parsed (ParseType), formatted (FormatType), parsed and formatted again: fixpoint, and
//     the registry's Convert/PrintType of the parsed type is compared with the Lean model of the
//     generic attribute mechanism (trailing zero elision).
// (B) every parsed type becomes a column of a schema (plus attribute grids: null, defaults,
//     comments, charset/collation, auto_increment, identity, generated columns, on_update, primary
//     keys, unique / desc / prefix / partial / include indexes, foreign keys with actions, checks);
//     MarshalHCL -> EvalHCLBytes -> SchemaDiff must be empty in both directions and marshalling the
//     result again must give the same bytes.

import (
	"fmt"
	"reflect"
	"sort"
	"strings"
	"sync"

	"ariga.io/atlas/schemahcl"
	"ariga.io/atlas/sql/mysql"
	"ariga.io/atlas/sql/postgres"
	"ariga.io/atlas/sql/schema"
	"ariga.io/atlas/sql/sqlite"
	"verifharness/internal/hx"
)

func init() { commands["C15"] = runC15 }

type dialectAPI struct {
	name     string
	registry *schemahcl.TypeRegistry
	format   func(schema.Type) (string, error)
	parse    func(string) (schema.Type, error)
	marshal  func(any) ([]byte, error)
	eval     func([]byte, any) error
	differ   schema.Differ
	schema   string
}

func c15Dialects() []dialectAPI {
	return []dialectAPI{
		{"mysql", mysql.TypeRegistry, mysql.FormatType, mysql.ParseType, func(v any) ([]byte, error) { return mysql.MarshalHCL(v) }, func(b []byte, v any) error { return mysql.EvalHCLBytes(b, v, nil) }, mysql.DefaultDiff, "public"},
		{"postgres", postgres.TypeRegistry, postgres.FormatType, postgres.ParseType, func(v any) ([]byte, error) { return postgres.MarshalHCL(v) }, func(b []byte, v any) error { return postgres.EvalHCLBytes(b, v, nil) }, postgres.DefaultDiff, "public"},
		{"sqlite", sqlite.TypeRegistry, sqlite.FormatType, sqlite.ParseType, func(v any) ([]byte, error) { return sqlite.MarshalHCL(v) }, func(b []byte, v any) error { return sqlite.EvalHCLBytes(b, v, nil) }, sqlite.DefaultDiff, "main"},
	}
}

type hclType struct {
	Expr     string // HCL type expression: name or name(args)
	Unsigned bool
}

// typeExprs renders the attribute grid of a spec as HCL type expressions.
func typeExprs(dialect string, spec *schemahcl.TypeSpec, thorough bool) []hclType {
	ints := []int{0, 1, 3, 6, 10, 255}
	if thorough {
		ints = []int{0, 1, 2, 3, 6, 7, 10, 24, 53, 64, 255, 65535}
	}
	var funcAttrs []*schemahcl.TypeAttr
	unsigned := false
	for _, a := range spec.Attributes {
		if a.Name == "unsigned" {
			unsigned = true
			continue
		}
		funcAttrs = append(funcAttrs, a)
	}
	exprs := []string{spec.Name}
	var rec func(i int, args []string)
	rec = func(i int, args []string) {
		if i > 0 {
			exprs = append(exprs, spec.Name+"("+strings.Join(args, ",")+")")
		}
		if i == len(funcAttrs) {
			return
		}
		a := funcAttrs[i]
		switch a.Kind {
		case reflect.Int, reflect.Int64:
			for _, v := range ints {
				if i >= 1 && !thorough && v > 10 {
					continue
				}
				rec(i+1, append(append([]string{}, args...), fmt.Sprint(v)))
			}
		case reflect.Slice:
			rec(i+1, append(append([]string{}, args...), `"a"`, `"b c"`))
			rec(i+1, append(append([]string{}, args...), `"x"`))
			// member order is part of the type: a list that is not in lexical order
			rec(i+1, append(append([]string{}, args...), `"write"`, `"read"`, `"exec"`, `"Admin"`))
		case reflect.String:
			rec(i+1, append(append([]string{}, args...), `"s"`))
		case reflect.Bool:
			rec(i+1, append(append([]string{}, args...), "true"))
		}
	}
	rec(0, nil)
	var out []hclType
	for _, x := range exprs {
		if c15Invalid(dialect, spec, x) {
			continue
		}
		out = append(out, hclType{x, false})
		if unsigned {
			out = append(out, hclType{x, true})
		}
	}
	return out
}

func c15DBTypes(d string) []string {
	switch d {
	case "postgres":
		out := []string{"integer", "bigint", "smallint", "boolean", "text", "character varying", "character varying(20)", "character(3)", "numeric", "numeric(10)", "numeric(10,2)",
			"real", "double precision", "date", "uuid", "json", "jsonb", "bytea", "inet", "cidr", "macaddr", "money", "xml", "tsvector", "tsquery",
			"bit(3)", "bit varying(5)", "bit varying", "integer[]", "text[]", "character varying(10)[]", "numeric(5,2)[]", "oid", "regclass", "int4range", "tstzrange"}
		for _, p := range []string{"", "(0)", "(1)", "(3)", "(6)"} {
			out = append(out, "time"+p+" without time zone", "time"+p+" with time zone", "timestamp"+p+" without time zone", "timestamp"+p+" with time zone", "interval"+p, "interval second"+p, "interval day to second"+p, "interval hour to second"+p, "interval minute to second"+p)
		}
		return append(out, "interval year", "interval month", "interval day", "interval hour", "interval minute", "interval year to month", "interval day to hour", "interval day to minute", "interval hour to minute")
	case "mysql":
		out := []string{"int", "int unsigned", "bigint", "bigint unsigned", "tinyint", "tinyint(1)", "smallint", "mediumint", "bool", "bit", "bit(8)", "bit(64)", "decimal", "decimal(10)", "decimal(10,2)", "decimal(10,2) unsigned",
			"float", "double", "double unsigned", "float(10,2)", "char", "char(0)", "char(10)", "varchar(0)", "varchar(255)", "binary", "binary(0)", "binary(16)", "varbinary(0)", "varbinary(32)",
			"tinytext", "text", "mediumtext", "longtext", "tinyblob", "blob", "mediumblob", "longblob", "json", "date", "year", "enum('a','b c')", "set('x','y')", "enum('b','a','C','c ')", "set('write','read','exec','Admin')", "geometry", "point", "linestring", "polygon"}
		for _, p := range []string{"", "(0)", "(3)", "(6)"} {
			out = append(out, "time"+p, "datetime"+p, "timestamp"+p)
		}
		return out
	}
	return []string{"integer", "int", "bigint", "tinyint", "real", "double", "float", "numeric", "numeric(10,2)", "decimal(10,5)", "text", "varchar(255)", "character(20)", "blob", "boolean", "bool", "date", "datetime", "json", "uuid", "varchar", "clob",
		// type names of several words, with and without a size
		"varying character", "varying character(255)", "native character", "native character(70)", "double precision", "unsigned big int", "nchar(55)", "nvarchar(100)", "int2", "int8", "smallint", "mediumint", "Point3D", "MyType(3)"}
}

// c15Invalid: parameter values the database itself rejects (the grid is not type-aware otherwise).
func c15Invalid(dialect string, spec *schemahcl.TypeSpec, expr string) bool {
	arg := -1
	if i := strings.Index(expr, "("); i >= 0 {
		fmt.Sscanf(expr[i+1:], "%d", &arg)
	}
	switch {
	case (spec.Name == "bit" || spec.Name == "bit_varying") && arg == 0 && dialect == "postgres":
		return true // PostgreSQL: length for type bit must be at least 1
	case (spec.Name == "interval" || strings.HasSuffix(spec.Name, "second")) && arg > 6:
		return true // PostgreSQL: interval precision 0..6
	}
	return false
}

func runC15(e *Env) error {
	pool, err := hx.NewPool(e.Model, 2)
	if err != nil {
		return err
	}
	defer pool.Close()
	var mu sync.Mutex
	viol := func(kind, sig, what, chk string, rep any) {
		mu.Lock()
		e.Res.Violate(kind, sig, what, chk, rep)
		mu.Unlock()
	}
	e.Res.Rule = "(A) for mysql/postgres/sqlite: every spec of TypeRegistry.Specs() x attribute grid (argument prefixes of every length over int values incl. 0, enum/set value lists, unsigned) -> ParseType -> FormatType -> ParseType -> FormatType: the second format equals the first and the re-parsed type is deeply equal; registry Convert/PrintType of the parsed type == Lean model of the attribute mechanism; (B) every accepted type as a column (x null, default, comment, charset/collation, auto_increment/identity, generated, on update, pk, unique/desc/prefix/partial/include indexes, fks with actions, checks): MarshalHCL -> EvalHCLBytes -> SchemaDiff empty both ways, re-marshal byte-identical; non-trivial = type with at least one attribute; distinct by (dialect, type string) / (dialect, table)"
	for _, d := range c15Dialects() {
		d := d
		var cases []hclType
		for _, spec := range d.registry.Specs() {
			cases = append(cases, typeExprs(d.name, spec, e.Thorough())...)
		}
		parallel(e.Workers, len(cases), func(i int) {
			ht := cases[i]
			uns := ""
			if ht.Unsigned {
				uns = "\n    unsigned = true"
			}
			doc := fmt.Sprintf("schema %q {\n}\ntable \"t\" {\n  schema = schema.%s\n  column \"c\" {\n    null = true\n    type = %s%s\n  }\n}\n", d.schema, d.schema, ht.Expr, uns)
			id := ht.Expr + uns
			var s0 schema.Schema
			if err := c15Eval(&d, []byte(doc), &s0); err != nil || len(s0.Tables) != 1 || len(s0.Tables[0].Columns) != 1 {
				mu.Lock()
				e.Res.Tag("hcl-type-rejected:" + d.name)
				mu.Unlock()
				return
			}
			t := s0.Tables[0].Columns[0].Type.Type
			rep := map[string]any{"dialect": d.name, "hcl_type": ht}
			mu.Lock()
			e.Res.Count(d.name+"/type/"+id, strings.ContainsAny(id, "(\n"), "types:"+d.name)
			mu.Unlock()
			s1, err := d.format(t)
			if err != nil {
				// not a type of the dialect (e.g. decimal(0,1)): the evaluator is more permissive than FormatType
				mu.Lock()
				e.Res.Tag("evaluated-type-not-formattable:" + d.name)
				mu.Unlock()
				return
			}
			t1, err := d.parse(s1)
			if err != nil {
				viol("failing-input", "formatted-type-unparsable", fmt.Sprintf("%s: `type = %s` formats as %q, which ParseType rejects: %v", d.name, ht.Expr, s1, err), "Props.C15 type fixpoint", rep)
				return
			}
			s2, err := d.format(t1)
			if err != nil || s2 != s1 {
				viol("failing-input", "format-parse-not-fixpoint", fmt.Sprintf("%s: `type = %s` formats as %q, which parses and formats as %q (%v)", d.name, ht.Expr, s1, s2, err), "Props.C15 type fixpoint", rep)
				return
			}
			if !reflect.DeepEqual(t, t1) {
				mu.Lock()
				e.Res.Tag("parse(format(t))!=t (same format):" + d.name)
				mu.Unlock()
			}
			c15Registry(e, pool, &d, t, id, viol, &mu)
			c15RoundTrip(e, &d, &s0, "type "+id, viol, &mu)
		})
		// types written in the database's own syntax (as an inspection returns them)
		for _, ts := range c15DBTypes(d.name) {
			t, err := d.parse(ts)
			if err != nil {
				viol("failing-input", "database-type-not-parsed", fmt.Sprintf("%s: ParseType(%q): %v", d.name, ts, err), "Props.C15 type fixpoint", map[string]any{"dialect": d.name, "type": ts})
				continue
			}
			s1, err := d.format(t)
			if err != nil {
				continue
			}
			if t1, err := d.parse(s1); err != nil {
				viol("failing-input", "formatted-type-unparsable", fmt.Sprintf("%s: %q formats as %q, which ParseType rejects: %v", d.name, ts, s1, err), "Props.C15 type fixpoint", map[string]any{"dialect": d.name, "type": ts})
				continue
			} else if s2, err := d.format(t1); err != nil || s2 != s1 {
				viol("failing-input", "format-parse-not-fixpoint", fmt.Sprintf("%s: %q formats as %q, which parses and formats as %q (%v)", d.name, ts, s1, s2, err), "Props.C15 type fixpoint", map[string]any{"dialect": d.name, "type": ts})
				continue
			}
			one := schema.New(d.schema)
			tb := schema.NewTable("t").AddColumns(schema.NewColumn("c").SetType(t).SetNull(true))
			tb.Columns[0].Type.Raw = ts
			one.AddTables(tb)
			mu.Lock()
			e.Res.Count(d.name+"/dbtype/"+ts, true, "dbtypes:"+d.name)
			mu.Unlock()
			c15RoundTrip(e, &d, one, "database type "+ts, viol, &mu)
		}
		// types constructed the way an inspection does (not through ParseType): no parameter where the database has none
		for i, t := range c15Constructed(d.name) {
			one := schema.New(d.schema)
			one.AddTables(schema.NewTable("t").AddColumns(schema.NewColumn("c").SetType(t).SetNull(true)))
			id := fmt.Sprintf("constructed type %d (%T %+v)", i, t, t)
			mu.Lock()
			e.Res.Count(d.name+"/constructed/"+id, true, "constructed:"+d.name)
			mu.Unlock()
			if s1, err := d.format(t); err == nil {
				if t1, err := d.parse(s1); err == nil {
					if s2, err := d.format(t1); err != nil || s2 != s1 {
						viol("failing-input", "format-parse-not-fixpoint", fmt.Sprintf("%s: %s formats as %q, which parses and formats as %q (%v)", d.name, id, s1, s2, err), "Props.C15 type fixpoint", map[string]any{"dialect": d.name, "type": id})
					}
				}
			}
			c15RoundTrip(e, &d, one, id, viol, &mu)
		}
		for i, one := range c15CharsetSchemas(&d) {
			mu.Lock()
			e.Res.Count(fmt.Sprintf("%s/charsets/%d", d.name, i), true, "charset-grid:"+d.name)
			mu.Unlock()
			c15RoundTrip(e, &d, one, fmt.Sprintf("charset/collation grid %d", i), viol, &mu)
		}
		realms := c15Realms(&d)
		rk := make([]string, 0, len(realms))
		for k := range realms {
			rk = append(rk, k)
		}
		sort.Strings(rk)
		for _, k := range rk {
			c15RealmRoundTrip(e, &d, realms[k], k, viol, &mu)
		}
		for _, t := range c15AttrTables(&d, hx.NewRand(e.Seed, "c15-"+d.name)) {
			one := schema.New(d.schema)
			t.Schema = one
			one.Tables = []*schema.Table{t}
			c15RoundTrip(e, &d, one, "table "+t.Name, viol, &mu)
		}
	}
	return nil
}

func c15Eval(d *dialectAPI, doc []byte, v *schema.Schema) (err error) {
	defer func() {
		if p := recover(); p != nil {
			err = fmt.Errorf("panic: %v", p)
		}
	}()
	return d.eval(doc, v)
}

// c15Registry compares TypeRegistry.Convert with the Lean model of the attribute mechanism.
func c15Registry(e *Env, pool *hx.Pool, d *dialectAPI, t schema.Type, ts string, viol func(kind, sig, what, chk string, rep any), mu *sync.Mutex) {
	rv := reflect.ValueOf(t)
	if rv.Kind() == reflect.Ptr {
		rv = rv.Elem()
	}
	tf := rv.FieldByName("T")
	if !tf.IsValid() || tf.Kind() != reflect.String {
		return
	}
	var spec *schemahcl.TypeSpec
	for _, s := range d.registry.Specs() {
		if s.T == tf.String() {
			spec = s
		}
	}
	if spec == nil || spec.ToSpec != nil {
		return
	}
	// int attribute values by spec position (only specs whose attributes are all ints map to the model)
	var vals [][2]any
	for _, a := range spec.Attributes {
		if a.Kind != reflect.Int && a.Kind != reflect.Int64 {
			return
		}
		f := rv.FieldByName(camel(a.Name))
		if !f.IsValid() || f.Kind() == reflect.Ptr && f.IsNil() {
			vals = append(vals, [2]any{-1, false})
			continue
		}
		explicit := a.Required || f.Kind() == reflect.Ptr
		f = reflect.Indirect(f)
		if !f.IsValid() || f.Kind() != reflect.Int && f.Kind() != reflect.Int64 {
			return
		}
		vals = append(vals, [2]any{int(f.Int()), explicit})
	}
	ct, err := d.registry.Convert(t)
	if err != nil {
		return
	}
	var got []int
	names := []string{}
	for _, a := range ct.Attrs {
		n, err := a.Int()
		if err != nil {
			return
		}
		got = append(got, n)
		names = append(names, a.K)
	}
	var ans struct {
		Attrs []int `json:"attrs"`
	}
	if err := pool.AskInto(map[string]any{"op": "hcltype.convert", "vals": vals}, &ans); err != nil {
		return
	}
	mu.Lock()
	e.Res.Count(d.name+"/registry/"+ts, len(vals) > 0, "registry:"+d.name)
	mu.Unlock()
	if fmt.Sprint(ans.Attrs) != fmt.Sprint(got) {
		mu.Lock()
		e.Res.Disagree()
		mu.Unlock()
		viol("no-failing-input-found", "corr-registry-convert-mismatch", fmt.Sprintf("%s %q: fields %v, Convert gives attrs %v %v, model %v", d.name, ts, vals, names, got, ans.Attrs), "correspondence Atlas.HclType.toAttrs", map[string]any{"dialect": d.name, "type": ts})
	}
}

func camel(s string) string {
	p := strings.Split(s, "_")
	for i := range p {
		if p[i] != "" {
			p[i] = strings.ToUpper(p[i][:1]) + p[i][1:]
		}
	}
	return strings.Join(p, "")
}

// c15RoundTrip: MarshalHCL -> EvalHCLBytes -> diff both ways -> re-marshal.
func c15RoundTrip(e *Env, d *dialectAPI, one *schema.Schema, id string, viol func(kind, sig, what, chk string, rep any), mu *sync.Mutex) {
	rep := map[string]any{"dialect": d.name, "case": id, "columns": colSummary(d, one.Tables[0])}
	mu.Lock()
	e.Res.Count(d.name+"/hcl/"+id, true, "hcl:"+d.name)
	mu.Unlock()
	var hcl []byte
	var err error
	func() {
		defer func() {
			if p := recover(); p != nil {
				err = fmt.Errorf("panic: %v", p)
			}
		}()
		hcl, err = d.marshal(one)
	}()
	if err != nil {
		viol("failing-input", "marshal-fails", fmt.Sprintf("%s %s: MarshalHCL fails: %v; columns %v", d.name, id, err, colSummary(d, one.Tables[0])), "Props.C15 round trip", rep)
		return
	}
	var back schema.Schema
	if err := c15Eval(d, hcl, &back); err != nil {
		viol("failing-input", "marshalled-hcl-not-evaluable", fmt.Sprintf("%s %s: EvalHCLBytes rejects the marshalled document: %v\n%s", d.name, id, trunc(err.Error(), 300), trunc(string(hcl), 600)), "Props.C15 round trip", rep)
		return
	}
	// re-marshal before diffing: the differs complete the attributes of their arguments in place
	// (e.g. MySQL derives a column's charset from its collation)
	hcl2, err2 := d.marshal(&back)
	for _, dir := range []string{"original->evaluated", "evaluated->original"} {
		a, b := one, &back
		if dir == "evaluated->original" {
			a, b = &back, one
		}
		cs, err := d.differ.SchemaDiff(a, b, schema.DiffNormalized())
		if err != nil {
			viol("failing-input", "diff-error", fmt.Sprintf("%s %s: %v", d.name, id, err), "Props.C15 round trip", rep)
			continue
		}
		if len(cs) > 0 {
			for _, sig := range c15Classify(d, cs) {
				viol("failing-input", sig, fmt.Sprintf("%s %s (%s): the evaluated HCL differs from the marshalled schema: %v\n%s", d.name, id, dir, c15Changes(d, cs), trunc(string(hcl), 500)), "Props.C15 round trip", rep)
			}
		}
	}
	if err2 != nil || string(hcl2) != string(hcl) {
		err := err2
		rep["hcl"], rep["hcl_again"] = string(hcl), string(hcl2)
		viol("failing-input", "remarshal-differs", fmt.Sprintf("%s %s: marshalling the evaluated schema gives other bytes (%v): %s", d.name, id, err, firstDiff(string(hcl), string(hcl2))), "Props.C15 remarshal", rep)
	}
}

func colSummary(d *dialectAPI, t *schema.Table) []string {
	var out []string
	for _, c := range t.Columns {
		s, _ := d.format(c.Type.Type)
		out = append(out, c.Name+":"+s)
	}
	return out
}

func c15Changes(d *dialectAPI, cs []schema.Change) []string {
	var out []string
	for _, c := range cs {
		switch c := c.(type) {
		case *schema.ModifyTable:
			for _, s := range c.Changes {
				switch s := s.(type) {
				case *schema.ModifyColumn:
					f, _ := d.format(s.From.Type.Type)
					t, _ := d.format(s.To.Type.Type)
					out = append(out, fmt.Sprintf("ModifyColumn %s kind=%d %q -> %q default %v -> %v", s.From.Name, s.Change, f, t, s.From.Default, s.To.Default))
				case *schema.ModifyAttr:
					out = append(out, fmt.Sprintf("ModifyAttr %T %+v -> %+v", s.From, s.From, s.To))
				case *schema.ModifyForeignKey:
					out = append(out, fmt.Sprintf("ModifyForeignKey %s -> %s kind=%d", s.From.Symbol, s.To.Symbol, s.Change))
				case *schema.AddForeignKey:
					out = append(out, "AddForeignKey "+s.F.Symbol)
				default:
					out = append(out, fmt.Sprintf("%T", s))
				}
			}
		default:
			out = append(out, fmt.Sprintf("%T", c))
		}
	}
	sort.Strings(out)
	return out
}

// c15Classify gives one signature per kind of difference (type-level ones carry the type family).
func c15Classify(d *dialectAPI, cs []schema.Change) []string {
	m := map[string]bool{}
	for _, c := range cs {
		mt, ok := c.(*schema.ModifyTable)
		if !ok {
			m[fmt.Sprintf("roundtrip-diff:%T", c)] = true
			continue
		}
		for _, s := range mt.Changes {
			if mc, ok := s.(*schema.ModifyColumn); ok && mc.Change&schema.ChangeType != 0 {
				f, _ := d.format(mc.From.Type.Type)
				t, _ := d.format(mc.To.Type.Type)
				fam := strings.SplitN(strings.SplitN(f, "(", 2)[0], " ", 2)[0]
				if strings.Contains(f+t, "(0)") || strings.HasSuffix(f, "(0)") {
					m["roundtrip-zero-parameter-lost:"+d.name+":"+fam] = true
				} else {
					m["roundtrip-type-differs:"+d.name+":"+fam] = true
				}
				continue
			}
			if ma, ok := s.(*schema.ModifyAttr); ok {
				if _, ok := ma.To.(*mysql.AutoIncrement); ok {
					m["mysql-table-auto-increment-not-marshalled"] = true
					continue
				}
			}
			if mc, ok := s.(*schema.ModifyCheck); ok && mc.From.Name == mc.To.Name && mc.From.Expr == mc.To.Expr {
				// the same check up to a dialect flag
				var ef, et mysql.Enforced
				hf, ht := sqlx2Has(mc.From.Attrs, &ef), sqlx2Has(mc.To.Attrs, &et)
				if d.name == "mysql" && (hf || ht) && (!hf || ef.V) != (!ht || et.V) {
					m["mysql-check-not-enforced-marshalled-as-enforced"] = true
					continue
				}
				if d.name == "postgres" && hasNoInherit(mc.From.Attrs) != hasNoInherit(mc.To.Attrs) {
					m["postgres-check-no-inherit-not-marshalled"] = true
					continue
				}
			}
			m[fmt.Sprintf("roundtrip-diff:%s:%T", d.name, s)] = true
		}
	}
	var out []string
	for k := range m {
		out = append(out, k)
	}
	sort.Strings(out)
	return out
}

func sqlx2Has(attrs []schema.Attr, e *mysql.Enforced) bool {
	for _, a := range attrs {
		if x, ok := a.(*mysql.Enforced); ok {
			*e = *x
			return true
		}
	}
	return false
}

func hasNoInherit(attrs []schema.Attr) bool {
	for _, a := range attrs {
		if _, ok := a.(*postgres.NoInherit); ok {
			return true
		}
	}
	return false
}

// c15AttrTables: attributes other than types.
func c15AttrTables(d *dialectAPI, r *hx.Rand) []*schema.Table {
	intT := func() schema.Type { return c02Type(d.name, 0) }
	txtT := func() schema.Type { return c02Type(d.name, 2) }
	var out []*schema.Table
	// defaults, comments, nullability
	t := schema.NewTable("attrs_defaults")
	id := schema.NewColumn("id").SetType(intT())
	t.AddColumns(id).SetPrimaryKey(schema.NewPrimaryKey(id))
	for i, def := range []schema.Expr{&schema.Literal{V: "1"}, &schema.Literal{V: "0"}, &schema.Literal{V: "-7"}, &schema.Literal{V: "'text'"}, &schema.Literal{V: "'it''s'"}, &schema.Literal{V: "''"}, &schema.RawExpr{X: "CURRENT_TIMESTAMP"}} {
		c := schema.NewColumn(fmt.Sprintf("d%d", i)).SetNull(i%2 == 0)
		switch {
		case i < 3:
			c.SetType(intT())
		case i == 6:
			switch d.name {
			case "mysql":
				c.SetType(&schema.TimeType{T: "timestamp"})
			case "postgres":
				c.SetType(&schema.TimeType{T: "timestamp without time zone", Precision: ip(6)})
			default:
				c.SetType(&schema.TimeType{T: "datetime"})
			}
		default:
			c.SetType(txtT())
		}
		c.SetDefault(def)
		if d.name != "sqlite" {
			c.SetComment(fmt.Sprintf("comment %d with \"quotes\" and 'apostrophes'", i))
		}
		t.AddColumns(c)
	}
	if d.name != "sqlite" {
		t.SetComment("table comment")
	}
	t.AddChecks(schema.NewCheck().SetName("positive").SetExpr("(d0 > 0)"), schema.NewCheck().SetName("other").SetExpr("(d1 <> d2)"))
	out = append(out, t)
	// indexes and foreign keys
	t2 := schema.NewTable("attrs_indexes")
	a, b, c := schema.NewColumn("a").SetType(intT()), schema.NewColumn("b").SetType(txtT()), schema.NewColumn("c").SetType(intT()).SetNull(true)
	t2.AddColumns(a, b, c).SetPrimaryKey(schema.NewPrimaryKey(a))
	t2.AddIndexes(
		schema.NewUniqueIndex("u_b").AddColumns(b),
		schema.NewIndex("i_ca").AddColumns(c, a),
		schema.NewIndex("i_desc").AddParts(&schema.IndexPart{C: c, Desc: true}, &schema.IndexPart{C: b}),
	)
	switch d.name {
	case "mysql":
		t2.AddIndexes(schema.NewIndex("i_prefix").AddParts(&schema.IndexPart{C: b, Attrs: []schema.Attr{&mysql.SubPart{Len: 10}}}))
		t2.AddIndexes(schema.NewIndex("i_hash").AddColumns(c).AddAttrs(&mysql.IndexType{T: "HASH"}))
	case "postgres":
		t2.AddIndexes(schema.NewIndex("i_partial").AddColumns(c).AddAttrs(&postgres.IndexPredicate{P: "(c > 0)"}))
		t2.AddIndexes(schema.NewIndex("i_include").AddColumns(c).AddAttrs(&postgres.IndexInclude{Columns: []*schema.Column{b}}))
		t2.AddIndexes(schema.NewIndex("i_hash").AddColumns(c).AddAttrs(&postgres.IndexType{T: "HASH"}))
		// every direction x NULLS ordering of an index part (two of the four are the defaults)
		for _, desc := range []bool{false, true} {
			for k, np := range []*postgres.IndexColumnProperty{nil, {NullsFirst: true}, {NullsLast: true}} {
				p1 := &schema.IndexPart{C: c, Desc: desc}
				p2 := &schema.IndexPart{C: b, Desc: !desc}
				if np != nil {
					p1.Attrs = append(p1.Attrs, &postgres.IndexColumnProperty{NullsFirst: np.NullsFirst, NullsLast: np.NullsLast})
					p2.Attrs = append(p2.Attrs, &postgres.IndexColumnProperty{NullsFirst: np.NullsFirst, NullsLast: np.NullsLast})
				}
				t2.AddIndexes(schema.NewIndex(fmt.Sprintf("i_nulls_%v_%d", desc, k)).AddParts(p1, p2))
			}
		}
		// an operator class with two parameters, and one with a single parameter
		t2.AddIndexes(schema.NewIndex("i_opclass_params").AddAttrs(&postgres.IndexType{T: "BRIN"}).AddParts(&schema.IndexPart{C: c, Attrs: []schema.Attr{&postgres.IndexOpClass{Name: "int4_bloom_ops", Params: []struct{ N, V string }{{"n_distinct_per_range", "100"}, {"false_positive_rate", "0.05"}}}}}))
		t2.AddIndexes(schema.NewIndex("i_opclass_param").AddAttrs(&postgres.IndexType{T: "GIST"}).AddParts(&schema.IndexPart{C: b, Attrs: []schema.Attr{&postgres.IndexOpClass{Name: "gist_trgm_ops", Params: []struct{ N, V string }{{"siglen", "32"}}}}}))
		// EXPRESSION key parts carrying the same attributes as column parts
		t2.AddIndexes(
			schema.NewIndex("i_expr_nulls_first").AddParts(&schema.IndexPart{X: &schema.RawExpr{X: "(lower(b))"}, Attrs: []schema.Attr{&postgres.IndexColumnProperty{NullsFirst: true}}}),
			schema.NewIndex("i_expr_desc_nulls_last").AddParts(&schema.IndexPart{X: &schema.RawExpr{X: "((c % 10))"}, Desc: true, Attrs: []schema.Attr{&postgres.IndexColumnProperty{NullsLast: true}}}, &schema.IndexPart{C: a}),
			schema.NewIndex("i_expr_opclass").AddParts(&schema.IndexPart{X: &schema.RawExpr{X: "(lower(b))"}, Attrs: []schema.Attr{&postgres.IndexOpClass{Name: "text_pattern_ops"}}}),
		)
		t2.AddIndexes(schema.NewIndex("i_opclass").AddParts(&schema.IndexPart{C: b, Attrs: []schema.Attr{&postgres.IndexOpClass{Name: "text_pattern_ops"}}}))
	default:
		t2.AddIndexes(schema.NewIndex("i_partial").AddColumns(c).AddAttrs(&sqlite.IndexPredicate{P: "c > 0"}))
	}
	for i, act := range []schema.ReferenceOption{schema.NoAction, schema.Cascade, schema.SetNull, schema.Restrict, schema.SetDefault} {
		if d.name == "mysql" && act == schema.SetDefault {
			continue
		}
		p := schema.NewColumn(fmt.Sprintf("parent%d", i)).SetType(intT()).SetNull(true)
		t2.AddColumns(p)
		t2.AddForeignKeys(schema.NewForeignKey(fmt.Sprintf("fk_%d", i)).SetTable(t2).AddColumns(p).SetRefTable(t2).AddRefColumns(a).SetOnDelete(act).SetOnUpdate(c02Actions[(i+1)%4]))
	}
	out = append(out, t2)
	if d.name == "mysql" {
		// a primary key whose parts carry attributes (a prefix length, a direction)
		tp := schema.NewTable("attrs_pk")
		pa, pb := schema.NewColumn("name").SetType(&schema.StringType{T: "varchar", Size: 255}), schema.NewColumn("id").SetType(intT())
		tp.AddColumns(pa, pb)
		tp.SetPrimaryKey(schema.NewPrimaryKey().AddParts(&schema.IndexPart{C: pa, Attrs: []schema.Attr{&mysql.SubPart{Len: 10}}}, &schema.IndexPart{C: pb, Desc: true}))
		out = append(out, tp)
	}
	// several checks without a name next to a named one (SQLite tables usually look like this), checks carrying
	// the dialect's flags, and a numeric default with more digits than a float32 keeps
	tc := schema.NewTable("attrs_checks")
	ca, cb, cc := schema.NewColumn("a").SetType(intT()), schema.NewColumn("b").SetType(txtT()), schema.NewColumn("c").SetType(intT()).SetNull(true)
	tc.AddColumns(ca, cb, cc).SetPrimaryKey(schema.NewPrimaryKey(ca))
	tc.AddChecks(
		schema.NewCheck().SetExpr("(a > 0)"),
		schema.NewCheck().SetExpr("(b <> '')"),
		schema.NewCheck().SetName("named").SetExpr("(a < 1000)"),
		schema.NewCheck().SetExpr("(c IS NULL OR c > a)"),
	)
	switch d.name {
	case "mysql":
		tc.AddChecks(schema.NewCheck().SetName("not_enforced").SetExpr("(a <> 7)").AddAttrs(&mysql.Enforced{V: false}), schema.NewCheck().SetName("enforced").SetExpr("(a <> 8)").AddAttrs(&mysql.Enforced{V: true}))
		tc.AddColumns(schema.NewColumn("pi").SetType(&schema.FloatType{T: "double"}).SetDefault(&schema.Literal{V: "3.14159265358979"}))
		// enum / varchar defaults that look like numbers, the way MySQL reports them (no quotes)
		tc.AddColumns(
			schema.NewColumn("e01").SetType(&schema.EnumType{T: "enum", Values: []string{"01", "1", "1.0"}}).SetDefault(&schema.Literal{V: "01"}),
			schema.NewColumn("e10").SetType(&schema.EnumType{T: "enum", Values: []string{"01", "1", "1.0", "1e1"}}).SetDefault(&schema.Literal{V: "1.0"}),
			schema.NewColumn("ee1").SetType(&schema.EnumType{T: "enum", Values: []string{"1e1", "10"}}).SetDefault(&schema.Literal{V: "1e1"}),
			schema.NewColumn("s007").SetType(&schema.StringType{T: "varchar", Size: 10}).SetDefault(&schema.Literal{V: "007"}),
		)
	case "postgres":
		tc.AddChecks(schema.NewCheck().SetName("no_inherit").SetExpr("(a <> 7)").AddAttrs(&postgres.NoInherit{}))
		tc.AddColumns(schema.NewColumn("pi").SetType(&schema.FloatType{T: "double precision", Precision: 53}).SetDefault(&schema.Literal{V: "3.14159265358979"}))
	default:
		tc.AddColumns(schema.NewColumn("pi").SetType(&schema.FloatType{T: "real"}).SetDefault(&schema.Literal{V: "3.14159265358979"}))
		// the index SQLite itself creates (and names) for an inline UNIQUE constraint, as inspected
		tc.AddIndexes(schema.NewUniqueIndex("sqlite_autoindex_attrs_checks_1").AddColumns(cb))
	}
	// an integer default beyond 64 bits (a decimal column), positive and negative
	tc.AddColumns(
		schema.NewColumn("wide").SetType(&schema.DecimalType{T: map[string]string{"mysql": "decimal", "postgres": "numeric", "sqlite": "numeric"}[d.name], Precision: 30}).SetDefault(&schema.Literal{V: "1000000000000000000000"}),
		schema.NewColumn("wide_neg").SetType(&schema.DecimalType{T: map[string]string{"mysql": "decimal", "postgres": "numeric", "sqlite": "numeric"}[d.name], Precision: 30}).SetNull(true).SetDefault(&schema.Literal{V: "18446744073709551616"}),
	)
	out = append(out, tc)
	// auto increment / identity / generated / on update / charset
	t3 := schema.NewTable("attrs_special")
	k := schema.NewColumn("k")
	switch d.name {
	case "mysql":
		k.SetType(&schema.IntegerType{T: "bigint"}).AddAttrs(&mysql.AutoIncrement{})
		t3.AddColumns(k).SetPrimaryKey(schema.NewPrimaryKey(k))
		t3.AddAttrs(&mysql.AutoIncrement{V: 100})
		t3.AddColumns(
			schema.NewColumn("g").SetType(intT()).SetGeneratedExpr(&schema.GeneratedExpr{Expr: "(`k` + 1)", Type: "STORED"}),
			schema.NewColumn("gv").SetType(intT()).SetGeneratedExpr(&schema.GeneratedExpr{Expr: "(`k` * 2)", Type: "VIRTUAL"}),
			schema.NewColumn("ts").SetType(&schema.TimeType{T: "timestamp"}).SetDefault(&schema.RawExpr{X: "CURRENT_TIMESTAMP"}).AddAttrs(&mysql.OnUpdate{A: "CURRENT_TIMESTAMP"}),
			schema.NewColumn("cs").SetType(&schema.StringType{T: "varchar", Size: 50}).SetCharset("latin1").SetCollation("latin1_swedish_ci"),
		)
		t3.SetCharset("utf8mb4").SetCollation("utf8mb4_0900_ai_ci")
	case "postgres":
		k.SetType(&schema.IntegerType{T: "bigint"}).AddAttrs(&postgres.Identity{Generation: "ALWAYS", Sequence: &postgres.Sequence{Start: 10, Increment: 5}})
		t3.AddColumns(k).SetPrimaryKey(schema.NewPrimaryKey(k))
		t3.AddColumns(
			schema.NewColumn("i2").SetType(&schema.IntegerType{T: "integer"}).AddAttrs(&postgres.Identity{Generation: "BY DEFAULT", Sequence: &postgres.Sequence{Start: 1, Increment: 1}}),
			schema.NewColumn("i3").SetType(&schema.IntegerType{T: "integer"}).AddAttrs(&postgres.Identity{Generation: "BY DEFAULT", Sequence: &postgres.Sequence{Start: -5, Increment: -1}}),
			schema.NewColumn("i4").SetType(&schema.IntegerType{T: "smallint"}).AddAttrs(&postgres.Identity{Generation: "ALWAYS", Sequence: &postgres.Sequence{Start: 100, Increment: -10}}),
			schema.NewColumn("i5").SetType(&schema.IntegerType{T: "bigint"}).AddAttrs(&postgres.Identity{Generation: "ALWAYS", Sequence: &postgres.Sequence{Start: -3, Increment: 2}}),
			// values a float64 cannot hold exactly
			schema.NewColumn("i6").SetType(&schema.IntegerType{T: "bigint"}).AddAttrs(&postgres.Identity{Generation: "BY DEFAULT", Sequence: &postgres.Sequence{Start: 9007199254740993, Increment: 1}}),
			schema.NewColumn("i7").SetType(&schema.IntegerType{T: "bigint"}).AddAttrs(&postgres.Identity{Generation: "ALWAYS", Sequence: &postgres.Sequence{Start: 9223372036854775807, Increment: -9223372036854775805}}),
			schema.NewColumn("i8").SetType(&schema.IntegerType{T: "bigint"}).AddAttrs(&postgres.Identity{Generation: "ALWAYS", Sequence: &postgres.Sequence{Start: -9223372036854775807, Increment: 27021597764222977}}),
			schema.NewColumn("g").SetType(intT()).SetGeneratedExpr(&schema.GeneratedExpr{Expr: "(k + 1)", Type: "STORED"}),
		)
	default:
		k.SetType(&schema.IntegerType{T: "integer"}).AddAttrs(&sqlite.AutoIncrement{})
		t3.AddColumns(k).SetPrimaryKey(schema.NewPrimaryKey(k))
		t3.AddColumns(
			schema.NewColumn("g").SetType(intT()).SetGeneratedExpr(&schema.GeneratedExpr{Expr: "(k + 1)", Type: "STORED"}),
			schema.NewColumn("gv").SetType(intT()).SetGeneratedExpr(&schema.GeneratedExpr{Expr: "(k * 2)", Type: "VIRTUAL"}),
		)
		t3.AddAttrs(&sqlite.WithoutRowID{})
	}
	out = append(out, t3)
	return out
}

// c15CharsetSchemas: MySQL charset / collation of schema, table and column in every relation to
// the parent (absent, equal, same charset with another collation, another charset, collation only).
func c15CharsetSchemas(d *dialectAPI) []*schema.Schema {
	if d.name != "mysql" {
		return nil
	}
	type cc struct{ cs, co string }
	variants := []cc{{"", ""}, {"utf8mb4", "utf8mb4_general_ci"}, {"utf8mb4", "utf8mb4_bin"}, {"latin1", "latin1_swedish_ci"}}
	var out []*schema.Schema
	for _, sv := range []cc{{"", ""}, {"utf8mb4", "utf8mb4_general_ci"}} {
		for _, tv := range variants {
			s := schema.New(d.schema)
			if sv.cs != "" {
				s.SetCharset(sv.cs).SetCollation(sv.co)
			}
			t := schema.NewTable("t")
			if tv.cs != "" {
				t.SetCharset(tv.cs)
			}
			if tv.co != "" {
				t.SetCollation(tv.co)
			}
			for i, cv := range variants {
				c := schema.NewColumn(fmt.Sprintf("c%d", i)).SetType(&schema.StringType{T: "varchar", Size: 20}).SetNull(true)
				if cv.cs != "" {
					c.SetCharset(cv.cs)
				}
				if cv.co != "" {
					c.SetCollation(cv.co)
				}
				t.AddColumns(c)
			}
			s.AddTables(t)
			out = append(out, s)
		}
	}
	return out
}

func c15Constructed(dialect string) []schema.Type {
	switch dialect {
	case "postgres":
		return []schema.Type{
			&postgres.BitType{T: "bit varying"}, &postgres.BitType{T: "bit", Len: 1}, &postgres.BitType{T: "bit varying", Len: 7},
			&schema.StringType{T: "character varying"}, &schema.StringType{T: "character", Size: 1}, &schema.StringType{T: "text"},
			&schema.DecimalType{T: "numeric"}, &schema.DecimalType{T: "numeric", Precision: 8}, &schema.DecimalType{T: "numeric", Precision: 8, Scale: 3},
			&schema.TimeType{T: "timestamp without time zone"}, &schema.TimeType{T: "time with time zone", Precision: ip(0)},
			&postgres.IntervalType{T: "interval"}, &postgres.IntervalType{T: "interval", F: "second", Precision: ip(2)},
			&postgres.ArrayType{T: "bit varying[]", Type: &postgres.BitType{T: "bit varying"}},
		}
	case "mysql":
		return []schema.Type{
			&schema.DecimalType{T: "decimal", Precision: 10}, &schema.StringType{T: "varchar", Size: 1}, &schema.StringType{T: "text"},
			&schema.BinaryType{T: "varbinary", Size: ip(1)}, &schema.TimeType{T: "datetime"}, &schema.TimeType{T: "timestamp", Precision: ip(3)},
			&mysql.BitType{T: "bit", Size: 1}, &schema.FloatType{T: "float"}, &schema.FloatType{T: "double"},
		}
	}
	return []schema.Type{&schema.StringType{T: "text"}, &schema.DecimalType{T: "numeric"}, &schema.DecimalType{T: "decimal", Precision: 10, Scale: 5}, &schema.FloatType{T: "real"}, &schema.BinaryType{T: "blob"},
		&schema.StringType{T: "varying character", Size: 255}, &schema.StringType{T: "varying character"}, &schema.StringType{T: "native character", Size: 70}, &schema.FloatType{T: "double precision"}, &schema.IntegerType{T: "unsigned big int"},
		// types Atlas does not know are kept verbatim, letter case included
		&sqlite.UserDefinedType{T: "Point3D"}, &sqlite.UserDefinedType{T: "GEOMETRY_Z"}}
}
