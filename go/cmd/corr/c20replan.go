package main

import (
	"context"
	"fmt"
	"strings"

	"ariga.io/atlas/sql/schema"
	"verifharness/internal/hx"
)

// c20Snapshot: a change list written out with everything a planner could be tempted to edit: kinds, names, the
// bit mask of column modifications, the nested lists in their order.
func c20Snapshot(cs []schema.Change, depth int) string {
	var out []string
	for _, c := range cs {
		pad := strings.Repeat("  ", depth)
		switch c := c.(type) {
		case *schema.ModifyTable:
			out = append(out, fmt.Sprintf("%sModifyTable %s (%d columns, %d indexes, %d fks, %d attrs)\n%s", pad, c.T.Name, len(c.T.Columns), len(c.T.Indexes), len(c.T.ForeignKeys), len(c.T.Attrs), c20Snapshot(c.Changes, depth+1)))
		case *schema.ModifyColumn:
			out = append(out, fmt.Sprintf("%sModifyColumn %s -> %s bits=%b null=%v->%v attrs=%d->%d", pad, c.From.Name, c.To.Name, c.Change, c.From.Type.Null, c.To.Type.Null, len(c.From.Attrs), len(c.To.Attrs)))
		case *schema.ModifyIndex:
			out = append(out, fmt.Sprintf("%sModifyIndex %s bits=%b", pad, c.From.Name, c.Change))
		case *schema.ModifyForeignKey:
			out = append(out, fmt.Sprintf("%sModifyForeignKey %s bits=%b", pad, c.From.Symbol, c.Change))
		case *schema.AddColumn:
			out = append(out, fmt.Sprintf("%sAddColumn %s", pad, c.C.Name))
		case *schema.DropColumn:
			out = append(out, fmt.Sprintf("%sDropColumn %s", pad, c.C.Name))
		case *schema.AddTable:
			out = append(out, fmt.Sprintf("%sAddTable %s (%d columns, %d fks)", pad, c.T.Name, len(c.T.Columns), len(c.T.ForeignKeys)))
		case *schema.DropTable:
			out = append(out, fmt.Sprintf("%sDropTable %s (%d fks)", pad, c.T.Name, len(c.T.ForeignKeys)))
		default:
			out = append(out, fmt.Sprintf("%s%T", pad, c))
		}
	}
	return strings.Join(out, "\n")
}

// c20Replan: the same change list planned twice gives the same statements, and is the same list afterwards
// (the commands plan once to show the statements and once more to run them). The lists come from the
// differ: a table whose columns change in EVERY combination of {type, nullability, default, comment}, a
// changed table comment, index and check edits; and the random edited pairs of C19.
func c20Replan(e *Env) {
	for _, d := range []string{"mysql", "postgres", "sqlite"} {
		ity := map[string]string{"mysql": "int", "postgres": "integer", "sqlite": "integer"}[d]
		bty := map[string]string{"mysql": "bigint", "postgres": "bigint", "sqlite": "real"}[d]
		mk := func(edited bool) *schema.Schema {
			s := schema.New("s")
			t := schema.NewTable("m").SetSchema(s)
			id := schema.NewIntColumn("id", ity)
			t.AddColumns(id).SetPrimaryKey(schema.NewPrimaryKey(id))
			for bits := 1; bits < 16; bits++ {
				c := schema.NewIntColumn(fmt.Sprintf("c%02d", bits), ity).SetNull(true).SetDefault(&schema.Literal{V: "1"})
				if d != "sqlite" {
					c.SetComment("a column")
				}
				if edited {
					if bits&1 != 0 {
						if bty == "real" {
							c.SetType(&schema.FloatType{T: "real"})
						} else {
							c.SetType(&schema.IntegerType{T: bty})
						}
					}
					if bits&2 != 0 {
						c.SetNull(false)
					}
					if bits&4 != 0 {
						c.SetDefault(&schema.Literal{V: "2"})
					}
					if bits&8 != 0 && d != "sqlite" {
						c.Attrs = nil
						c.SetComment("another comment")
					}
				}
				t.AddColumns(c)
			}
			ix := schema.NewIndex("ix").AddColumns(t.Columns[1])
			ck := schema.NewCheck().SetName("ck").SetExpr("(c01 > 0)")
			if edited {
				ix.Unique = true
				ck.Expr = "(c01 > 1)"
				if d != "sqlite" {
					t.SetComment("edited table")
				}
			}
			t.AddIndexes(ix).AddChecks(ck)
			s.AddTables(t)
			return s
		}
		type pair struct {
			name     string
			from, to *schema.Schema
		}
		pairs := []pair{{"every combination of column edits", mk(false), mk(true)}, {"the same, backwards", mk(true), mk(false)}}
		r := hx.NewRand(e.Seed, "c20-replan-"+d)
		for k := 0; k < 20; k++ {
			f, t := editedPair(r, d)
			pairs = append(pairs, pair{fmt.Sprintf("random edited pair %d", k), f, t})
		}
		pl, _, _ := plannerOf(d)
		// change lists in which ONE change waits for several others that come later in the list (an enum type dropped
		// with the tables that use it, a schema dropped with its tables): planned 12 times, the same statements in
		// the same order every time
		if d != "sqlite" {
			sch := schema.New("s")
			var drops []schema.Change
			var en *schema.EnumType
			if d == "postgres" {
				en = &schema.EnumType{T: "mood", Values: []string{"a", "b"}, Schema: sch}
				drops = append(drops, &schema.DropObject{O: en})
			} else {
				drops = append(drops, &schema.DropSchema{S: sch})
			}
			for k := 0; k < 5; k++ {
				t := schema.NewTable(fmt.Sprintf("t%d", k)).SetSchema(sch).AddColumns(schema.NewIntColumn("id", ity))
				if en != nil {
					t.AddColumns(schema.NewColumn("m").SetType(en))
				}
				sch.AddTables(t)
				drops = append(drops, &schema.DropTable{T: t})
			}
			if d == "postgres" {
				drops = append(drops, &schema.DropSchema{S: sch})
			}
			id := d + ": one change waiting for five later ones"
			e.Res.Count("replan:"+id, true, "replan:"+d)
			var first string
			for k := 0; k < 12; k++ {
				t := ""
				func() {
					defer func() {
						if p := recover(); p != nil {
							t = fmt.Sprintf("panic: %v", p)
						}
					}()
					plan, err := pl.PlanChanges(context.Background(), "p", drops)
					t = fmt.Sprintf("err=%v", err)
					if err == nil {
						for _, c := range plan.Changes {
							t += "\n" + c.Cmd
						}
					}
				}()
				if k == 0 {
					first = t
				} else if t != first {
					e.Res.Violate("failing-input", "replanning-the-same-changes-differs", fmt.Sprintf("%s: plan %d of the same change list differs from the first: %s", id, k+1, firstDiff(first, t)), "Props.C20 repeated runs", map[string]any{"case": id})
					break
				}
			}
		}
		for _, p := range pairs {
			cs, err := differOf(d).SchemaDiff(p.from, p.to)
			id := fmt.Sprintf("%s: %s", d, p.name)
			e.Res.Count("replan:"+id, len(cs) > 0, "replan:"+d)
			if err != nil || len(cs) == 0 {
				continue
			}
			before := c20Snapshot(cs, 0)
			var texts []string
			for k := 0; k < 3; k++ {
				func() {
					defer func() {
						if p := recover(); p != nil {
							texts = append(texts, fmt.Sprintf("panic: %v", p))
						}
					}()
					plan, err := pl.PlanChanges(context.Background(), "p", cs)
					t := fmt.Sprintf("err=%v", err)
					if err == nil {
						for _, c := range plan.Changes {
							t += "\n" + c.Cmd
							rv, _ := c.ReverseStmts()
							t += "\n  reverse: " + strings.Join(rv, "; ")
						}
					}
					texts = append(texts, t)
				}()
			}
			rep := map[string]any{"case": id}
			if after := c20Snapshot(cs, 0); after != before {
				e.Res.Violate("failing-input", "planning-changes-its-input", fmt.Sprintf("%s: the change list is another one after it was planned: %s", id, firstDiff(before, after)), "Props.C20 (outputs depend on the input only)", rep)
				continue
			}
			for k := 1; k < len(texts); k++ {
				if texts[k] != texts[0] {
					e.Res.Violate("failing-input", "replanning-the-same-changes-differs", fmt.Sprintf("%s: plan %d of the same change list differs from the first: %s", id, k+1, firstDiff(texts[0], texts[k])), "Props.C20 repeated runs", rep)
					break
				}
			}
		}
	}
}
