package main

// C13: failure atomicity follows the transaction mode; dry-run changes nothing.
// (A) migrate apply with a failing statement at every position x tx-mode x pre-applied files x
//     directives x count: trace == Lean plan, final dump == model; independent oracles: all mode =
//     dump before, file mode = dump of a clean run of the directory truncated before the failing file,
//     none mode = successful prefix recorded with the error; then the file is fixed, re-hashed and the
//     same command must reach the dump of a never-failing run.
// (B) the same commands with --dry-run (fresh / initialised database, with and without --baseline):
//     full dump before == after.
// (C) schema apply whose plan fails midway: dump before == after; with --dry-run unchanged.

import (
	"fmt"
	"os"
	"path/filepath"
	"strings"
	"sync"

	"verifharness/internal/hx"
)

func init() { commands["C13"] = runC13 }

type c13Case struct {
	txCase
	Pre      int  `json:"pre_applied"` // files applied by an earlier `migrate apply <Pre>`
	BadFile  int  `json:"bad_file"`    // -1: none
	BadStmt  int  `json:"bad_stmt"`
	Baseline bool `json:"baseline,omitempty"`
}

func c13Cases(e *Env) []c13Case {
	shapes := [][]int{{2, 3}, {1, 2, 2}}
	if e.Thorough() {
		shapes = [][]int{{1}, {3}, {2, 3}, {1, 2, 2}, {2, 1, 3}, {1, 1, 1, 2}}
	}
	mk := func(sh []int, mode string, bf, bs int) c13Case {
		c := c13Case{txCase: txCase{Mode: mode}, BadFile: bf, BadStmt: bs}
		for f, n := range sh {
			ok := make([]bool, n)
			for i := range ok {
				ok[i] = !(f == bf && i == bs)
			}
			c.Files = append(c.Files, txFile{Ok: ok})
		}
		return c
	}
	var out []c13Case
	for _, sh := range shapes {
		for _, mode := range []string{"file", "all", "none"} {
			for bf := range sh {
				for bs := 0; bs < sh[bf]; bs++ {
					if bf == 0 && bs == 0 {
						continue // statement (0,0) creates the journal table
					}
					for pre := 0; pre <= bf; pre++ {
						if !e.Thorough() && pre != 0 && pre != bf {
							continue
						}
						c := mk(sh, mode, bf, bs)
						c.Pre = pre
						out = append(out, c)
					}
				}
			}
		}
	}
	// directives and count
	for _, mode := range []string{"file", "none"} {
		other := map[string]string{"file": "none", "none": "file"}[mode]
		for _, bf := range []int{1, 2} {
			for dpos := 0; dpos < 3; dpos++ {
				c := mk([]int{2, 2, 2}, mode, bf, 1)
				c.Files[dpos].Directive = other
				out = append(out, c)
			}
		}
		c := mk([]int{2, 2, 2}, mode, -1, 0)
		c.Files[1].Directive = other
		c.Count = 2
		out = append(out, c)
	}
	for _, mode := range []string{"file", "all", "none"} {
		c := mk([]int{1, 2, 2}, mode, 2, 1)
		c.Count = 2 // the failing file is not reached
		out = append(out, c)
		c = mk([]int{1, 2, 2}, mode, 1, 1)
		c.Count = 2
		out = append(out, c)
	}
	// a first run that starts at the last of two checkpoint files; the failing statement sits inside that
	// checkpoint or in a later file
	for _, mode := range []string{"none", "file"} {
		for _, bad := range [][2]int{{0, 1}, {1, 0}, {2, 1}} {
			c := mk([]int{2, 1, 2}, mode, bad[0], bad[1])
			c.PreJournal, c.Checkpoint, c.Checkpoint2 = true, true, true
			out = append(out, c)
		}
	}
	// invalid directive combination: txmode none under --tx-mode all
	c := mk([]int{2, 2}, "all", -1, 0)
	c.Files[1].Directive = "none"
	out = append(out, c)
	// --tx-mode all rejects EVERY directive (Props.C13.fail_all_mode_any: whatever the files hold, a failed command
	// leaves the database as it found it): each kind of directive on each file, with and without files
	// applied by an earlier run (the operation trace is the model's: nothing is committed)
	for _, dir := range []string{"file", "none", "all"} {
		for dpos := 0; dpos < 3; dpos++ {
			for _, bad := range [][2]int{{-1, 0}} {
				for _, pre := range []int{0, 1} {
					if pre > dpos || bad[0] >= 0 && pre > bad[0] {
						continue
					}
					c := mk([]int{2, 2, 2}, "all", bad[0], bad[1])
					c.Files[dpos].Directive = dir
					c.Pre = pre
					out = append(out, c)
				}
			}
		}
	}
	return out
}

// ignoreBootstrap removes the (empty) revision table objects from a canonical dump.
func canonNoEmptyRevTable(d dbDump, withRevs bool) string {
	s := d.canon(withRevs)
	if len(d.Revs) > 0 {
		return s
	}
	var out []string
	for _, l := range strings.Split(s, "\n") {
		if strings.Contains(l, "atlas_schema_revisions") {
			continue
		}
		out = append(out, l)
	}
	return strings.Join(out, "\n")
}

func runC13(e *Env) error {
	if e.Atlas == "" {
		return fmt.Errorf("atlas binary not given")
	}
	pool, err := hx.NewPool(e.Model, 4)
	if err != nil {
		return err
	}
	defer pool.Close()
	cases := c13Cases(e)
	e.Res.Rule = "(A) directory shapes x failing statement at every position x tx-mode {file, all, none} x files applied by an earlier `apply N` x txmode directives x count argument, real binary on SQLite: operation trace == Lean plan, final dump == model, independent oracles (all: dump before; file: clean run of the directory truncated before the failing file; none: successful prefix + error revision), then fix + re-hash + re-run == dump of a never-failing run; (B) --dry-run on fresh/initialised databases with/without --baseline: full dump unchanged; (C) schema apply plans failing midway (several changes, or ONE change that expands to several statements): dump unchanged, --dry-run unchanged; (D) two failures in one file (fail at i, fix, resumed run fails at j > i, fix, third run) in none and file mode: third run succeeds and equals a never-failing run; (E) foreign keys enforced (_fk=1) in file / all mode: a file that leaves a NEW foreign-key violation fails at commit and changes nothing, also when the database already holds a violation (same table, another table with the same rowid / parent / constraint position, another parent), while a file that adds none is applied; non-trivial = a statement fails after at least one succeeded; distinct by case"
	var mu sync.Mutex
	viol := func(kind, sig, what, check string, rep any) {
		mu.Lock()
		e.Res.Violate(kind, sig, what, check, rep)
		mu.Unlock()
	}
	parallel(e.Workers, len(cases), func(ci int) {
		c := cases[ci]
		name := fmt.Sprintf("c13-%d", ci)
		dir, err := c.setup(e.Work, name)
		if err != nil {
			viol("no-failing-input-found", "harness-setup", err.Error(), "harness", c)
			return
		}
		defer os.RemoveAll(dir)
		c13Apply(e, pool, &c, dir, name, viol, &mu)
	})
	c13DryRun(e, pool, viol, &mu)
	c13Schema(e, pool, viol, &mu)
	c13TwoFailures(e, viol, &mu)
	c13FKCheck(e, viol, &mu)
	e.Res.Note("atlas processes run: %d", cliRuns.Load())
	return nil
}

func c13Apply(e *Env, pool *hx.Pool, c *c13Case, dir, name string, viol func(kind, sig, what, check string, rep any), mu *sync.Mutex) {
	db := c.fresh(dir, "db.sqlite")
	dbp := filepath.Join(dir, db)
	// earlier run
	if c.Pre > 0 {
		pc := c.txCase
		pc.Count = c.Pre
		if o := runAtlas(e, dir, nil, pc.args(db)...); o.Code != 0 {
			viol("failing-input", "pre-apply-fails", fmt.Sprintf("%s: `migrate apply %d` of succeeding files fails: %s", hxJSON(c), c.Pre, trunc(o.Stderr+o.Stdout, 300)), "Props.C13 set-up", c)
			return
		}
	}
	s0 := dumpDB(dbp)
	m0, err := c.toModel(s0)
	if err != nil {
		viol("no-failing-input-found", "harness-dump", err.Error(), "harness", c)
		return
	}
	copyFile(dbp, filepath.Join(dir, "s0.sqlite"))
	plan, err := c.askPlan(pool, m0, true, false)
	if err != nil {
		viol("no-failing-input-found", "model-error", err.Error(), "model", c)
		return
	}
	tr := filepath.Join(dir, "trace.txt")
	o := runAtlas(e, dir, map[string]string{"VERIF_TRACE": tr}, c.args(db)...)
	s1 := dumpDB(dbp)
	m1, err := c.toModel(s1)
	nontrivial := c.BadFile >= 0 && (c.BadFile > 0 || c.BadStmt > 0)
	mu.Lock()
	e.Res.Count(name, nontrivial, "apply", "mode:"+c.Mode)
	mu.Unlock()
	if err != nil {
		viol("failing-input", "state-unreadable", fmt.Sprintf("%s: %v", hxJSON(c), err), "Props.C13", c)
		return
	}
	// correspondence
	ops, _, _ := normTrace(o.Trace)
	want := visibleLocked(plan.Ops)
	modelOK := true
	if !opsMatch(ops, want) {
		mu.Lock()
		e.Res.Disagree()
		mu.Unlock()
		viol("no-failing-input-found", "corr-tx-plan-mismatch", fmt.Sprintf("%s: operation trace %v differs from the model plan %v", hxJSON(c), ops, plan.Ops), "correspondence Atlas.Tx.plan", map[string]any{"case": c, "trace": o.Trace})
		modelOK = false
	}
	if modelOK && ((o.Code == 0) != plan.Ok || c.canon(m1) != c.canon(plan.Final)) {
		mu.Lock()
		e.Res.Disagree()
		mu.Unlock()
		viol("no-failing-input-found", "corr-tx-final-mismatch", fmt.Sprintf("%s: exit %d, database %s; model ok=%v %s", hxJSON(c), o.Code, m1, plan.Ok, plan.Final), "correspondence Atlas.Tx.runAll", c)
		modelOK = false
	}
	// independent oracles (uniform directories with a reached failing statement)
	reached := c.BadFile >= 0 && (c.Count == 0 || c.Pre+c.Count > c.BadFile)
	if c.uniform() && reached {
		if o.Code == 0 {
			viol("failing-input", "failure-not-reported", fmt.Sprintf("%s: a statement fails but the command exits 0", hxJSON(c)), "Props.C13 failure reported", c)
		}
		switch c.Mode {
		case "all":
			if canonNoEmptyRevTable(s1, true) != canonNoEmptyRevTable(s0, true) {
				viol("failing-input", "all-mode-not-rolled-back", fmt.Sprintf("%s: after the failure the database differs from the one before the command:\n%s\nvs before:\n%s", hxJSON(c), trunc(s1.canon(true), 600), trunc(s0.canon(true), 600)), "Props.C13.fail_all_mode", c)
			}
		case "file":
			// oracle: clean run of the directory truncated before the failing file, from s0
			tc := *c
			tc.Files = c.Files[:c.BadFile]
			tc.Count = 0
			odir := filepath.Join(dir, "oracle")
			os.MkdirAll(odir, 0o755)
			writeMigrationDir(filepath.Join(odir, "m"), tc.dirFiles(false))
			copyFile(filepath.Join(dir, "s0.sqlite"), filepath.Join(odir, "db.sqlite"))
			if c.BadFile > c.Pre {
				if oo := runAtlas(e, odir, nil, tc.args("db.sqlite")...); oo.Code != 0 {
					viol("no-failing-input-found", "oracle-run-fails", trunc(oo.Stderr, 300), "harness oracle", c)
					break
				}
			}
			so := dumpDB(filepath.Join(odir, "db.sqlite"))
			if canonNoEmptyRevTable(s1, true) != canonNoEmptyRevTable(so, true) {
				viol("failing-input", "file-mode-not-last-complete-file", fmt.Sprintf("%s: after the failure the database differs from the one after the last completely applied file:\n%s\nvs:\n%s", hxJSON(c), trunc(s1.canon(true), 600), trunc(so.canon(true), 600)), "Props.C13.fail_file_mode", c)
			}
		case "none":
			if what := c13NoneMonitor(c, m1, s1); what != "" {
				viol("failing-input", "none-mode-"+what, fmt.Sprintf("%s: %s; database %s", hxJSON(c), what, m1), "Props.C13.fail_none_mode", c)
			}
		}
	}
	if !reached || o.Code == 0 {
		return
	}
	// fix the file, re-hash, re-run the same command (without count)
	if err := writeMigrationDir(filepath.Join(dir, "m"), c.dirFiles(true)); err != nil {
		return
	}
	rc := c.txCase
	rc.Count = 0
	o2 := runAtlas(e, dir, nil, rc.args(db)...)
	s2 := dumpDB(dbp)
	if o2.Code != 0 {
		viol("failing-input", "rerun-after-fix-fails", fmt.Sprintf("%s: after fixing the failing statement the same command fails: %s", hxJSON(c), trunc(o2.Stderr+o2.Stdout, 400)), "Props.C13.fix_and_rerun", c)
		return
	}
	// oracle: the fixed directory applied from s0 without any failure
	odir := filepath.Join(dir, "oracle2")
	os.MkdirAll(odir, 0o755)
	writeMigrationDir(filepath.Join(odir, "m"), c.dirFiles(true))
	copyFile(filepath.Join(dir, "s0.sqlite"), filepath.Join(odir, "db.sqlite"))
	if oo := runAtlas(e, odir, nil, rc.args("db.sqlite")...); oo.Code != 0 {
		viol("no-failing-input-found", "oracle-run-fails", trunc(oo.Stderr, 300), "harness oracle", c)
		return
	}
	so := dumpDB(filepath.Join(odir, "db.sqlite"))
	if s2.canon(true) != so.canon(true) {
		viol("failing-input", "fix-and-rerun-differs", fmt.Sprintf("%s: fixing the file and re-running gives\n%s\na run without failure gives\n%s", hxJSON(c), trunc(s2.canon(true), 700), trunc(so.canon(true), 700)), "Props.C13.fix_and_rerun", c)
	}
	if modelOK && c.uniform() {
		fc := *c
		fc.Count = 0
		fc.Files = append([]txFile{}, c.Files...)
		for i := range fc.Files {
			ok := make([]bool, len(fc.Files[i].Ok))
			for k := range ok {
				ok[k] = true
			}
			fc.Files[i] = txFile{Ok: ok, Directive: fc.Files[i].Directive}
		}
		p2, err := fc.askPlan(pool, m1, true, false)
		m2, err2 := c.toModel(s2)
		if err == nil && err2 == nil && c.canon(p2.Final) != c.canon(m2) {
			mu.Lock()
			e.Res.Disagree()
			mu.Unlock()
			viol("no-failing-input-found", "corr-tx-rerun-mismatch", fmt.Sprintf("%s: after fix+re-run database %s, model %s", hxJSON(c), m2, p2.Final), "correspondence Atlas.Tx.plan (resume)", c)
		}
	}
}

// visibleLocked maps the model plan to what the hook can see: a `locked f` operation is a failed
// revision upsert attempt (traced), `close` is invisible.
func visibleLocked(ops []string) []string {
	var out []string
	for _, o := range ops {
		switch {
		case o == "close":
		case strings.HasPrefix(o, "locked "):
			out = append(out, "rev* "+strings.TrimPrefix(o, "locked "))
		default:
			out = append(out, o)
		}
	}
	return out
}

// opsMatch compares a normalised trace with the visible model plan ("rev* f" = any upsert of file f).
func opsMatch(got, want []string) bool {
	if len(got) != len(want) {
		return false
	}
	for i := range got {
		if strings.HasPrefix(want[i], "rev* ") {
			if !strings.HasPrefix(got[i], "rev "+strings.TrimPrefix(want[i], "rev* ")+" ") {
				return false
			}
			continue
		}
		if got[i] != want[i] {
			return false
		}
	}
	return true
}

func c13NoneMonitor(c *c13Case, m mDb, s dbDump) string {
	cnt := map[[2]int]int{}
	for _, j := range m.Journal {
		cnt[j]++
	}
	for f, tf := range c.Files {
		for i := range tf.Ok {
			want := 0
			if f < c.BadFile || f == c.BadFile && i < c.BadStmt {
				want = 1
			}
			if cnt[[2]int{f, i}] != want {
				return fmt.Sprintf("not-the-successful-prefix (statement (%d,%d) present %d times, expected %d)", f, i, cnt[[2]int{f, i}], want)
			}
		}
	}
	if len(s.Revs) != c.BadFile+1 {
		return fmt.Sprintf("revision-rows (%d, expected %d)", len(s.Revs), c.BadFile+1)
	}
	for f, r := range s.Revs {
		if f < c.BadFile && (r.Applied != len(c.Files[f].Ok) || r.Total != r.Applied || r.Error != "") {
			return fmt.Sprintf("earlier-file-not-complete (file %d)", f)
		}
		if f == c.BadFile && (r.Applied != c.BadStmt || r.Total != len(c.Files[f].Ok) || r.Error == "") {
			return fmt.Sprintf("failing-file-not-recorded-as-prefix-with-error (applied=%d total=%d error=%q)", r.Applied, r.Total, r.Error)
		}
	}
	return ""
}

// (B) dry-run
func c13DryRun(e *Env, pool *hx.Pool, viol func(kind, sig, what, check string, rep any), mu *sync.Mutex) {
	type dr struct {
		c        c13Case
		initDB   string // "fresh" | "initialised" (one file applied) | "table-only" (revision table exists, empty)
		baseline bool
	}
	var runs []dr
	for _, mode := range []string{"file", "all", "none"} {
		for _, init := range []string{"fresh", "initialised", "table-only"} {
			for _, bad := range []bool{false, true} {
				c := c13Case{txCase: txCase{Mode: mode, DryRun: true}, BadFile: -1}
				c.Files = []txFile{{Ok: []bool{true, true}}, {Ok: []bool{true, !bad}}, {Ok: []bool{true}}}
				if bad {
					c.BadFile, c.BadStmt = 1, 1
				}
				runs = append(runs, dr{c, init, false})
			}
		}
		c := c13Case{txCase: txCase{Mode: mode, DryRun: true}, BadFile: -1, Baseline: true}
		c.Files = []txFile{{Ok: []bool{true, true}}, {Ok: []bool{true, true}}}
		runs = append(runs, dr{c, "fresh", true}, dr{c, "table-only", true})
		// dry-run with directives
		c2 := c13Case{txCase: txCase{Mode: mode, DryRun: true}, BadFile: -1}
		c2.Files = []txFile{{Ok: []bool{true, true}}, {Ok: []bool{true, true}, Directive: map[string]string{"file": "none", "none": "file", "all": ""}[mode]}}
		runs = append(runs, dr{c2, "initialised", false})
	}
	parallel(e.Workers, len(runs), func(i int) {
		r := runs[i]
		c := r.c
		name := fmt.Sprintf("c13-dry-%d", i)
		dir, err := c.setup(e.Work, name)
		if err != nil {
			return
		}
		defer os.RemoveAll(dir)
		db := c.fresh(dir, "db.sqlite")
		dbp := filepath.Join(dir, db)
		wet := c.txCase
		wet.DryRun = false
		switch r.initDB {
		case "initialised":
			wet.Count = 1
			if o := runAtlas(e, dir, nil, wet.args(db)...); o.Code != 0 {
				return
			}
		case "table-only":
			// a directory without files initialises the revision table only
			os.MkdirAll(filepath.Join(dir, "empty"), 0o755)
			writeMigrationDir(filepath.Join(dir, "empty"), nil)
			runAtlas(e, dir, nil, "migrate", "apply", "--dir", "file://empty", "--url", "sqlitev://"+db)
		}
		before := dumpDB(dbp)
		raw0, _ := os.ReadFile(dbp)
		args := c.args(db)
		if r.baseline {
			args = append(args, "--baseline", "1")
		}
		tr := filepath.Join(dir, "trace.txt")
		o := runAtlas(e, dir, map[string]string{"VERIF_TRACE": tr}, args...)
		after := dumpDB(dbp)
		raw1, _ := os.ReadFile(dbp)
		mu.Lock()
		e.Res.Count(name, true, "dry-run", "init:"+r.initDB)
		mu.Unlock()
		rep := map[string]any{"case": c, "init": r.initDB, "baseline": r.baseline, "args": args}
		if before.canon(true) != after.canon(true) {
			sig := "dry-run-changes-database"
			switch {
			case len(before.Master) == 0 || !strings.Contains(before.canon(false), "atlas_schema_revisions"):
				if canonNoEmptyRevTable(after, true) == canonNoEmptyRevTable(before, true) {
					sig = "dry-run-creates-revision-table"
				} else if r.baseline {
					sig = "dry-run-writes-baseline-revision"
				}
			case r.baseline:
				sig = "dry-run-writes-baseline-revision"
			}
			viol("failing-input", sig, fmt.Sprintf("%s on a %s database (exit %d): the database changed under --dry-run:\nbefore:\n%s\nafter:\n%s", strings.Join(args, " "), r.initDB, o.Code, trunc(before.canon(true), 500), trunc(after.canon(true), 500)), "Props.C13.dry_run_identity", rep)
		} else if string(raw0) != string(raw1) && len(raw0) > 0 {
			mu.Lock()
			e.Res.Tag("dry-run:file-bytes-differ-logical-same")
			mu.Unlock()
		}
		ops, _, _ := normTrace(o.Trace)
		for _, op := range ops {
			if strings.HasPrefix(op, "stmt") || strings.HasPrefix(op, "fail") {
				viol("failing-input", "dry-run-executes-statement", fmt.Sprintf("%s: operation %q reached the database under --dry-run", strings.Join(args, " "), op), "Props.C13.dry_run_identity", rep)
				break
			}
		}
	})
}

type schemaScenario struct {
	Name    string   `json:"name"`
	Setup   []string `json:"setup"`
	Desired string   `json:"desired"`
	Fails   bool     `json:"fails"`
}

func c13Scenarios(e *Env) []schemaScenario {
	base := []schemaScenario{
		{"not-null-rebuild-with-null-rows", []string{
			"CREATE TABLE users (id integer NOT NULL, name text NULL, PRIMARY KEY (id))", "INSERT INTO users VALUES (1,'a'),(2,NULL)",
			"CREATE TABLE orders (id integer NOT NULL, PRIMARY KEY (id))", "INSERT INTO orders VALUES (7)"},
			"CREATE TABLE users (id integer NOT NULL, name text NOT NULL, PRIMARY KEY (id));\nCREATE TABLE orders (id integer NOT NULL, note text NULL, PRIMARY KEY (id));\nCREATE TABLE extra (id integer NOT NULL, PRIMARY KEY (id));\n", true},
		{"unique-index-on-duplicates", []string{
			"CREATE TABLE t (a integer NOT NULL, b integer NULL)", "INSERT INTO t VALUES (1,1),(1,2)",
			"CREATE TABLE old (x integer)"},
			"CREATE TABLE t (a integer NOT NULL, b integer NULL, c text NULL);\nCREATE UNIQUE INDEX t_a ON t (a);\nCREATE TABLE u (id integer NOT NULL);\n", true},
		{"additive-control", []string{
			"CREATE TABLE t (a integer NOT NULL)", "INSERT INTO t VALUES (1)"},
			"CREATE TABLE t (a integer NOT NULL, c text NULL);\nCREATE TABLE u (id integer NOT NULL);\nCREATE INDEX t_a ON t (a);\n", false},
		{"check-constraint-violated-by-rows", []string{
			"CREATE TABLE p (id integer NOT NULL, price integer NOT NULL)", "INSERT INTO p VALUES (1,-5)",
			"CREATE TABLE q (id integer NOT NULL)"},
			"CREATE TABLE p (id integer NOT NULL, price integer NOT NULL, CONSTRAINT positive CHECK (price > 0));\nCREATE TABLE q (id integer NOT NULL, extra integer NULL);\nCREATE TABLE r (id integer NOT NULL);\n", true},
		{"drop-and-rebuild-mixed", []string{
			"CREATE TABLE a (id integer NOT NULL, v text NULL)", "INSERT INTO a VALUES (1,NULL)",
			"CREATE TABLE gone (id integer NOT NULL)", "INSERT INTO gone VALUES (3)"},
			"CREATE TABLE a (id integer NOT NULL, v text NOT NULL);\nCREATE TABLE fresh (id integer NOT NULL);\n", true},
	}
	// ONE change whose plan has several statements and fails after the first one
	base = append(base,
		schemaScenario{"single-change-add-column-then-unique-index-on-duplicates", []string{
			"CREATE TABLE t (a integer NOT NULL, b integer NULL)", "INSERT INTO t VALUES (1,1),(1,2)"},
			"CREATE TABLE t (a integer NOT NULL, b integer NULL, c text NULL);\nCREATE UNIQUE INDEX t_a ON t (a);\n", true},
		schemaScenario{"single-change-rebuild-not-null-with-null-rows", []string{
			"CREATE TABLE a (id integer NOT NULL, v text NULL)", "INSERT INTO a VALUES (1,NULL),(2,'x')", "CREATE INDEX a_v ON a (v)"},
			"CREATE TABLE a (id integer NOT NULL, v text NOT NULL);\nCREATE INDEX a_v ON a (v);\n", true},
		schemaScenario{"single-change-two-indexes-second-unique-on-duplicates", []string{
			"CREATE TABLE t (a integer NOT NULL, b integer NULL)", "INSERT INTO t VALUES (1,1),(1,2)"},
			"CREATE TABLE t (a integer NOT NULL, b integer NULL);\nCREATE INDEX t_b ON t (b);\nCREATE UNIQUE INDEX t_a ON t (a);\n", true})
	return base
}

// c13DryRunFlags: --dry-run next to every other flag of `schema apply` that changes how the plan is approved,
// reported or executed: the command may refuse the combination, but it never changes the database.
func c13DryRunFlags(e *Env, viol func(kind, sig, what, check string, rep any), mu *sync.Mutex) {
	mixes := [][]string{
		{"--auto-approve"},
		{"--format", "{{ sql . }}"},
		{"--auto-approve", "--format", "{{ sql . }}"},
		{"--auto-approve", "--format", "{{ json . }}"},
		{"--log", "{{ sql . }}", "--auto-approve"},
		{"--tx-mode", "none"},
		{"--tx-mode", "none", "--auto-approve"},
		{"--exclude", "nothing_*", "--auto-approve"},
	}
	for mi, mix := range mixes {
		for _, order := range []bool{true, false} {
			dir := filepath.Join(e.Work, fmt.Sprintf("c13-dryflags-%d-%v", mi, order))
			os.RemoveAll(dir)
			os.MkdirAll(dir, 0o755)
			dbp := filepath.Join(dir, "db.sqlite")
			if err := execSQL(dbp, "CREATE TABLE t (a integer NOT NULL)", "INSERT INTO t VALUES (1)", "CREATE TABLE gone (x integer)", "INSERT INTO gone VALUES (2)"); err != nil {
				os.RemoveAll(dir)
				continue
			}
			os.WriteFile(filepath.Join(dir, "desired.sql"), []byte("CREATE TABLE t (a integer NOT NULL, c text NULL);\nCREATE TABLE u (id integer NOT NULL);\nCREATE INDEX t_a ON t (a);\n"), 0o644)
			before := dumpDB(dbp)
			args := []string{"schema", "apply", "--url", "sqlite://db.sqlite", "--to", "file://desired.sql", "--dev-url", "sqlite://dev?mode=memory"}
			if order {
				args = append(append(args, "--dry-run"), mix...)
			} else {
				args = append(append(args, mix...), "--dry-run")
			}
			o := runAtlas(e, dir, nil, args...)
			after := dumpDB(dbp)
			mu.Lock()
			e.Res.Count(fmt.Sprintf("schema-dry-flags:%d:%v", mi, order), true, "schema-apply", "dry:true", "dry-run-flag-mix")
			mu.Unlock()
			if before.canon(true) != after.canon(true) {
				viol("failing-input", "schema-apply-dry-run-changes-database", fmt.Sprintf("`atlas %s` (exit %d) changed the database:\n%s\nvs\n%s", strings.Join(args, " "), o.Code, trunc(before.canon(true), 400), trunc(after.canon(true), 400)), "Props.C13.dry_run_identity", map[string]any{"args": args})
			}
			os.RemoveAll(dir)
		}
	}
}

// (C) schema apply
func c13Schema(e *Env, pool *hx.Pool, viol func(kind, sig, what, check string, rep any), mu *sync.Mutex) {
	c13DryRunFlags(e, viol, mu)
	sc := c13Scenarios(e)
	type run struct {
		s   schemaScenario
		dry bool
	}
	var runs []run
	for _, s := range sc {
		runs = append(runs, run{s, false}, run{s, true})
	}
	parallel(e.Workers, len(runs), func(i int) {
		r := runs[i]
		dir := filepath.Join(e.Work, fmt.Sprintf("c13-schema-%d", i))
		os.RemoveAll(dir)
		os.MkdirAll(dir, 0o755)
		defer os.RemoveAll(dir)
		dbp := filepath.Join(dir, "db.sqlite")
		if err := execSQL(dbp, r.s.Setup...); err != nil {
			viol("no-failing-input-found", "harness-setup", err.Error(), "harness", r.s)
			return
		}
		os.WriteFile(filepath.Join(dir, "desired.sql"), []byte(r.s.Desired), 0o644)
		before := dumpDB(dbp)
		args := []string{"schema", "apply", "--url", "sqlitev://db.sqlite", "--to", "file://desired.sql", "--dev-url", "sqlite://dev?mode=memory", "--auto-approve"}
		if r.dry {
			args = []string{"schema", "apply", "--url", "sqlitev://db.sqlite", "--to", "file://desired.sql", "--dev-url", "sqlite://dev?mode=memory", "--dry-run"}
		}
		tr := filepath.Join(dir, "trace.txt")
		o := runAtlas(e, dir, map[string]string{"VERIF_TRACE": tr}, args...)
		after := dumpDB(dbp)
		mu.Lock()
		e.Res.Count(fmt.Sprintf("schema:%s:%v", r.s.Name, r.dry), r.s.Fails, "schema-apply", fmt.Sprintf("dry:%v", r.dry))
		mu.Unlock()
		rep := map[string]any{"scenario": r.s, "args": args}
		same := before.canon(true) == after.canon(true)
		switch {
		case r.dry && !same:
			viol("failing-input", "schema-apply-dry-run-changes-database", fmt.Sprintf("schema apply --dry-run (%s) changed the database:\n%s\nvs\n%s", r.s.Name, trunc(before.canon(true), 400), trunc(after.canon(true), 400)), "Props.C13.dry_run_identity", rep)
		case !r.dry && o.Code != 0 && !same:
			viol("failing-input", "schema-apply-not-all-or-nothing", fmt.Sprintf("schema apply (%s) failed (%s) and left the database changed:\nbefore:\n%s\nafter:\n%s", r.s.Name, trunc(o.Stderr, 150), trunc(before.canon(true), 500), trunc(after.canon(true), 500)), "Props.C13.schema_apply_all_or_nothing", rep)
		case !r.dry && o.Code == 0 && r.s.Fails:
			mu.Lock()
			e.Res.Note("scenario %s was expected to fail midway but succeeded", r.s.Name)
			mu.Unlock()
		case !r.dry && o.Code != 0 && !r.s.Fails:
			viol("failing-input", "schema-apply-additive-fails", fmt.Sprintf("schema apply (%s) fails: %s", r.s.Name, trunc(o.Stderr+o.Stdout, 300)), "Props.C13 control", rep)
		}
		if !r.dry && len(o.Trace) > 0 {
			// model correspondence on the shape of the transaction
			var oks []bool
			nb, nc, nr := 0, 0, 0
			for _, l := range o.Trace {
				p := strings.SplitN(l, " ", 3)
				switch p[1] {
				case "begin":
					nb++
				case "commit":
					nc++
				case "rollback":
					nr++
				case "stmt":
					oks = append(oks, true)
				}
			}
			if o.Code != 0 && len(oks) > 0 {
				oks[len(oks)-1] = false
			}
			var ans struct {
				Ops []string `json:"ops"`
			}
			if err := pool.AskInto(map[string]any{"op": "tx.schema", "ok": oks, "db": mDb{[][2]int{}, []mRev{}}}, &ans); err == nil {
				mb, mc, mr := 0, 0, 0
				for _, op := range ans.Ops {
					switch op {
					case "begin":
						mb++
					case "commit":
						mc++
					case "rollback":
						mr++
					}
				}
				if mb != nb || mc != nc || mr != nr {
					mu.Lock()
					e.Res.Disagree()
					mu.Unlock()
					viol("no-failing-input-found", "corr-schema-apply-tx-shape", fmt.Sprintf("schema apply (%s): trace has %d BEGIN %d COMMIT %d ROLLBACK, model %d/%d/%d", r.s.Name, nb, nc, nr, mb, mc, mr), "correspondence Atlas.Tx.schemaApply", rep)
				}
			}
		}
	})
}

// (D) two failures in one file: the file fails at statement i and is fixed there, the resumed run
// makes progress and fails at a later statement j, which is fixed too; the third run must complete
// and reach the state of a run that never failed (none mode keeps partial progress and its statement
// checksums across both failures; file mode rolls back each time).
func c13TwoFailures(e *Env, viol func(kind, sig, what, check string, rep any), mu *sync.Mutex) {
	type tf struct {
		mode   string
		n      int
		i, j   int
		second bool
	}
	var cs []tf
	for _, mode := range []string{"none", "file"} {
		cs = append(cs, tf{mode, 4, 1, 3, false}, tf{mode, 4, 2, 3, true}, tf{mode, 5, 1, 3, true})
		if e.Thorough() {
			cs = append(cs, tf{mode, 3, 1, 2, false}, tf{mode, 5, 2, 4, false}, tf{mode, 6, 1, 2, true}, tf{mode, 6, 3, 5, true})
		}
	}
	parallel(e.Workers, len(cs), func(k int) {
		x := cs[k]
		mkCase := func(bad ...int) *txCase {
			c := &txCase{Mode: x.mode}
			ok := make([]bool, x.n)
			for i := range ok {
				ok[i] = true
			}
			for _, b := range bad {
				ok[b] = false
			}
			c.Files = append(c.Files, txFile{Ok: ok})
			if x.second {
				c.Files = append(c.Files, txFile{Ok: []bool{true, true}})
			}
			return c
		}
		c1, c2, c3 := mkCase(x.i, x.j), mkCase(x.j), mkCase()
		name := fmt.Sprintf("c13-two-%d", k)
		dir, err := c1.setup(e.Work, name)
		if err != nil {
			return
		}
		defer os.RemoveAll(dir)
		db := c1.fresh(dir, "db.sqlite")
		dbp := filepath.Join(dir, db)
		rep := map[string]any{"mode": x.mode, "statements": x.n, "first_failure": x.i, "second_failure": x.j, "second_file": x.second}
		mu.Lock()
		e.Res.Count(name, true, "two-failures", "mode:"+x.mode)
		mu.Unlock()
		desc := fmt.Sprintf("--tx-mode %s, file of %d statements: fails at %d, fixed, resumed run fails at %d, fixed", x.mode, x.n, x.i, x.j)
		o1 := runAtlas(e, dir, nil, c1.args(db)...)
		if o1.Code == 0 {
			viol("failing-input", "failure-not-reported", desc+": first run exits 0", "Props.C13 failure reported", rep)
			return
		}
		writeMigrationDir(filepath.Join(dir, "m"), c2.dirFiles(false))
		o2 := runAtlas(e, dir, nil, c2.args(db)...)
		if o2.Code == 0 {
			viol("failing-input", "failure-not-reported", desc+": second run exits 0", "Props.C13 failure reported", rep)
			return
		}
		if strings.Contains(o2.Stderr+o2.Stdout, "history") {
			viol("failing-input", "rerun-after-fix-fails", fmt.Sprintf("%s: the run after the first fix is refused: %s", desc, trunc(o2.Stderr+o2.Stdout, 300)), "Props.C13.fix_and_rerun", rep)
			return
		}
		writeMigrationDir(filepath.Join(dir, "m"), c3.dirFiles(false))
		o3 := runAtlas(e, dir, nil, c3.args(db)...)
		s3 := dumpDB(dbp)
		if o3.Code != 0 {
			viol("failing-input", "rerun-after-fix-fails", fmt.Sprintf("%s: the third run fails although only statements that never ran were edited: %s", desc, trunc(o3.Stderr+o3.Stdout, 400)), "Props.C13.fix_and_rerun", rep)
			return
		}
		odir := filepath.Join(dir, "oracle")
		os.MkdirAll(odir, 0o755)
		writeMigrationDir(filepath.Join(odir, "m"), c3.dirFiles(false))
		if oo := runAtlas(e, odir, nil, c3.args("db.sqlite")...); oo.Code != 0 {
			viol("no-failing-input-found", "oracle-run-fails", trunc(oo.Stderr, 300), "harness oracle", rep)
			return
		}
		so := dumpDB(filepath.Join(odir, "db.sqlite"))
		if s3.canon(true) != so.canon(true) {
			viol("failing-input", "fix-and-rerun-differs", fmt.Sprintf("%s: the third run gives\n%s\na run without failure gives\n%s", desc, trunc(s3.canon(true), 700), trunc(so.canon(true), 700)), "Props.C13.fix_and_rerun", rep)
		}
	})
}

// c13FKCheck: with foreign keys enforced (_fk=1) the SQLite driver compares the violations reported by
// `PRAGMA foreign_key_check` before and after a transaction: a file (or the whole run in mode all) that leaves a
// NEW violation fails at commit and its transaction is rolled back - whatever violations the database held
// before.
func c13FKCheck(e *Env, viol func(kind, sig, what, check string, rep any), mu *sync.Mutex) {
	setup := []string{
		"CREATE TABLE p (id integer PRIMARY KEY)",
		"CREATE TABLE q (id integer PRIMARY KEY)",
		"CREATE TABLE a (id integer PRIMARY KEY, r integer REFERENCES p (id))",
		"CREATE TABLE b (id integer PRIMARY KEY, r integer REFERENCES p (id))",
		"CREATE TABLE c (id integer PRIMARY KEY, x integer REFERENCES q (id), r integer REFERENCES p (id))",
		"CREATE TABLE w (k text PRIMARY KEY, r integer REFERENCES p (id)) WITHOUT ROWID",
		"INSERT INTO p VALUES (1)",
	}
	type fc struct {
		name    string
		known   []string // violations the database already holds
		stmts   []string // the migration file
		newViol bool
	}
	cases := []fc{
		{"no violation known, the file adds one", nil, []string{"INSERT INTO b VALUES (1, 99)"}, true},
		{"no violation known, the file adds none", nil, []string{"INSERT INTO b VALUES (1, 1)"}, false},
		{"a violation in the same table, the file adds another row", []string{"INSERT INTO b VALUES (1, 99)"}, []string{"INSERT INTO b VALUES (2, 98)"}, true},
		{"a violation in another table at the same rowid, parent and constraint position", []string{"INSERT INTO a VALUES (1, 99)"}, []string{"INSERT INTO b VALUES (1, 99)"}, true},
		{"a violation in another table at the same rowid and parent, other constraint position", []string{"INSERT INTO a VALUES (1, 99)"}, []string{"INSERT INTO c VALUES (1, NULL, 99)"}, true},
		{"a violation in another table, the file adds none", []string{"INSERT INTO a VALUES (1, 99)"}, []string{"INSERT INTO b VALUES (1, 1)", "INSERT INTO c VALUES (1, NULL, 1)"}, false},
		{"a violation in another table at the same rowid, the file adds one after a good statement", []string{"INSERT INTO a VALUES (2, 77)"}, []string{"INSERT INTO b VALUES (1, 1)", "INSERT INTO b VALUES (2, 77)"}, true},
		// as many (or more) old violations go away as new ones come: the new one is new all the same
		{"the file deletes the row of a known violation and adds a violation elsewhere", []string{"INSERT INTO a VALUES (1, 99)"}, []string{"DELETE FROM a WHERE id = 1", "INSERT INTO b VALUES (5, 98)"}, true},
		{"the file repairs a known violation (parent inserted) and adds a violation elsewhere", []string{"INSERT INTO a VALUES (1, 99)"}, []string{"INSERT INTO p VALUES (99)", "INSERT INTO b VALUES (5, 98)"}, true},
		{"the file deletes two known violations and adds one", []string{"INSERT INTO a VALUES (1, 99)", "INSERT INTO a VALUES (2, 98)"}, []string{"DELETE FROM a", "INSERT INTO c VALUES (7, NULL, 97)"}, true},
		{"the file deletes the row of a known violation and adds none", []string{"INSERT INTO a VALUES (1, 99)"}, []string{"DELETE FROM a WHERE id = 1", "INSERT INTO b VALUES (5, 1)"}, false},
		// a child table WITHOUT ROWID: the engine reports its violations with a NULL rowid
		{"no violation known, the file adds one to a table WITHOUT ROWID", nil, []string{"INSERT INTO w VALUES ('x', 99)"}, true},
		{"a violation in a table WITHOUT ROWID, the file adds another row to it", []string{"INSERT INTO w VALUES ('x', 99)"}, []string{"INSERT INTO w VALUES ('y', 98)"}, true},
		{"a violation in a table WITHOUT ROWID, the file adds another row with the same parent", []string{"INSERT INTO w VALUES ('x', 99)"}, []string{"INSERT INTO b VALUES (1, 1)", "INSERT INTO w VALUES ('y', 99)"}, true},
	}
	for ci, c := range cases {
		for _, mode := range []string{"file", "all"} {
			dir := filepath.Join(e.Work, fmt.Sprintf("c13fk-%d-%s", ci, mode))
			os.RemoveAll(dir)
			os.MkdirAll(dir, 0o755)
			dbp := filepath.Join(dir, "db.sqlite")
			if err := execSQL(dbp, append(append([]string{}, setup...), c.known...)...); err != nil {
				e.Res.Note("c13fk setup: %v", err)
				os.RemoveAll(dir)
				continue
			}
			writeMigrationDir(filepath.Join(dir, "m"), []dirFile{{"1_f.sql", strings.Join(c.stmts, ";\n") + ";\n"}})
			before := dumpDB(dbp)
			o := runAtlas(e, dir, nil, "migrate", "apply", "--dir", "file://m", "--url", "sqlite://db.sqlite?_fk=1", "--tx-mode", mode, "--allow-dirty")
			after := dumpDB(dbp)
			rep := map[string]any{"case": c.name, "mode": mode, "known": c.known, "file": c.stmts}
			mu.Lock()
			e.Res.Count(fmt.Sprintf("c13fk:%d:%s", ci, mode), c.newViol, "fk-enforced", "mode:"+mode)
			mu.Unlock()
			desc := fmt.Sprintf("--tx-mode %s, _fk=1, %s (known: %v; file: %v)", mode, c.name, c.known, c.stmts)
			rowsOf := func(d dbDump) string {
				return fmt.Sprintf("a=%v b=%v c=%v w=%v", d.Rows["a"], d.Rows["b"], d.Rows["c"], d.Rows["w"])
			}
			switch {
			case c.newViol && o.Code == 0:
				viol("failing-input", "new-fk-violation-committed", desc+": the command exits 0 and commits the file; rows now "+rowsOf(after), "Props.C13 fail_file_mode / fail_all_mode (foreign keys)", rep)
			case c.newViol && rowsOf(after) != rowsOf(before):
				viol("failing-input", "file-mode-not-rolled-back", desc+": the command fails but the rows changed: "+rowsOf(before)+" -> "+rowsOf(after), "Props.C13 fail_file_mode / fail_all_mode (foreign keys)", rep)
			case !c.newViol && o.Code != 0:
				viol("failing-input", "command-fails-on-clean-input", desc+": the file adds no violation but the command fails: "+trunc(o.Stderr+o.Stdout, 300), "Props.C13 (foreign keys)", rep)
			}
			os.RemoveAll(dir)
		}
	}
}
