// Command corr runs the correspondence check (implementation vs Lean model) and the executable
// property monitors for one property and writes a result file for the check driver.
package main

import (
	"flag"
	"fmt"
	"os"
	"runtime"
	"sort"
	"strconv"

	"verifharness/internal/hx"
)

// Env is what every sub-command receives.
type Env struct {
	Tier    string
	Seed    uint64
	Model   string // path of the atlasmodel executable
	Atlas   string // path of the atlas CLI binary built from /repo (may be empty)
	Work    string // scratch directory
	Replay  string // replay file to re-run ("" = normal run)
	Res     *hx.Result
	Workers int
}

func (e *Env) Thorough() bool { return e.Tier == "thorough" }

var commands = map[string]func(*Env) error{}

func main() {
	var (
		tier    = flag.String("tier", "quick", "quick|thorough")
		seed    = flag.String("seed", "1", "seed")
		model   = flag.String("model", "", "atlasmodel executable")
		atlas   = flag.String("atlas", "", "atlas CLI binary")
		work    = flag.String("work", "", "scratch dir")
		out     = flag.String("out", "", "result file")
		replays = flag.String("replays", "", "replay output dir")
		replay  = flag.String("replay", "", "replay file to re-run")
	)
	flag.Parse()
	if flag.NArg() != 1 {
		names := make([]string, 0, len(commands))
		for k := range commands {
			names = append(names, k)
		}
		sort.Strings(names)
		fmt.Fprintln(os.Stderr, "usage: corr [flags] <property>; known:", names)
		os.Exit(2)
	}
	id := flag.Arg(0)
	fn, ok := commands[id]
	if !ok {
		fmt.Fprintln(os.Stderr, "unknown property", id)
		os.Exit(2)
	}
	s, _ := strconv.ParseUint(*seed, 10, 64)
	env := &Env{Tier: *tier, Seed: s, Model: *model, Atlas: *atlas, Work: *work, Replay: *replay,
		Res: hx.NewResult(id, *replays), Workers: runtime.NumCPU()}
	if err := fn(env); err != nil {
		fmt.Fprintln(os.Stderr, "corr error:", err)
		env.Res.Note("harness error: %v", err)
		env.Res.Write(*out)
		os.Exit(3)
	}
	if err := env.Res.Write(*out); err != nil {
		fmt.Fprintln(os.Stderr, err)
		os.Exit(3)
	}
}
