package main

// C19, CLI tier: the --exclude flags and the `diff { skip { ... } }` block of an environment reach the
// plan. A live SQLite database and a desired schema that differ by one change of six kinds (drop/add
// table, drop/add column, drop/add index) go through `atlas schema apply --auto-approve` on a copy of the database, which is then probed with an
// independent client:
//   * for every subset of the six skippable kinds configured in atlas.hcl, the plan holds no statement
//     of a skipped kind and still holds every statement of the other kinds;
//   * for exclusion patterns (names, wildcards, [type=...] selectors with one, two and three
//     alternatives, two patterns at once) the plan does not touch an excluded resource and still holds
//     the statements for everything else; `schema inspect --exclude` does not print an excluded resource.

import (
	"fmt"
	"os"
	"path/filepath"
	"strings"
)

var c19Live = []string{
	"CREATE TABLE users (id integer NOT NULL, name text NULL, PRIMARY KEY (id))",
	"CREATE INDEX idx_legacy ON users (name)",
	"CREATE TABLE items (id integer NOT NULL, legacy_col text NULL, PRIMARY KEY (id))",
	"CREATE TABLE old_table (id integer NOT NULL, PRIMARY KEY (id))",
	"CREATE TABLE keep (id integer NOT NULL, PRIMARY KEY (id))",
}

const c19Desired = "CREATE TABLE users (id integer NOT NULL, name text NULL, email text NULL, PRIMARY KEY (id));\n" +
	"CREATE INDEX idx_new ON users (id, name);\n" +
	"CREATE TABLE items (id integer NOT NULL, PRIMARY KEY (id));\n" +
	"CREATE TABLE keep (id integer NOT NULL, PRIMARY KEY (id));\n" +
	"CREATE TABLE fresh (id integer NOT NULL, PRIMARY KEY (id));\n"

// what each of the six changes does to the database: (probe query returning a count, count when the change was made)
var c19Probe = map[string][2]string{
	"drop_table":  {"SELECT count(*) FROM sqlite_master WHERE type='table' AND name='old_table'", "0"},
	"add_table":   {"SELECT count(*) FROM sqlite_master WHERE type='table' AND name='fresh'", "1"},
	"drop_column": {"SELECT count(*) FROM pragma_table_info('items') WHERE name='legacy_col'", "0"},
	"add_column":  {"SELECT count(*) FROM pragma_table_info('users') WHERE name='email'", "1"},
	"drop_index":  {"SELECT count(*) FROM sqlite_master WHERE type='index' AND name='idx_legacy'", "0"},
	"add_index":   {"SELECT count(*) FROM sqlite_master WHERE type='index' AND name='idx_new'", "1"},
}

var c19Kinds = []string{"drop_table", "add_table", "drop_column", "add_column", "drop_index", "add_index"}

func c19CLI(e *Env) {
	if e.Atlas == "" {
		return
	}
	dir := filepath.Join(e.Work, "c19cli")
	os.RemoveAll(dir)
	os.MkdirAll(dir, 0o755)
	defer os.RemoveAll(dir)
	if err := execSQL(filepath.Join(dir, "db.sqlite"), c19Live...); err != nil {
		e.Res.Note("c19cli setup: %v", err)
		return
	}
	os.WriteFile(filepath.Join(dir, "schema.sql"), []byte(c19Desired), 0o644)
	// made reports, per kind, whether the change was made to the database file
	made := func(db string) (map[string]bool, error) {
		conn, err := openSQLite(db, false)
		if err != nil {
			return nil, err
		}
		defer conn.Close()
		out := map[string]bool{}
		for _, k := range c19Kinds {
			var n string
			if err := conn.QueryRow(c19Probe[k][0]).Scan(&n); err != nil {
				return nil, err
			}
			out[k] = n == c19Probe[k][1]
		}
		return out, nil
	}
	judge := func(id, what, db string, out cliOut, absent []string) {
		e.Res.Count("cli:"+id, len(absent) > 0, "cli:"+strings.SplitN(id, ":", 2)[0])
		if out.Code != 0 {
			e.Res.Violate("failing-input", "cli-plan-fails", fmt.Sprintf("%s: exit %d: %s", what, out.Code, trunc(out.Stdout+out.Stderr, 300)), "Props.C19 CLI", map[string]any{"case": id})
			return
		}
		got, err := made(filepath.Join(dir, db))
		if err != nil {
			e.Res.Note("c19cli probe: %v", err)
			return
		}
		isAbsent := map[string]bool{}
		for _, k := range absent {
			isAbsent[k] = true
		}
		for _, k := range c19Kinds {
			switch {
			case isAbsent[k] && got[k]:
				e.Res.Violate("failing-input", "cli-skipped-or-excluded-change-planned", fmt.Sprintf("%s: the change %s was made to the database nevertheless:\n%s", what, k, trunc(out.Stdout, 700)), "Props.C19.skip_sound / exclude (CLI)", map[string]any{"case": id})
				return
			case !isAbsent[k] && !got[k]:
				e.Res.Violate("failing-input", "cli-other-change-lost", fmt.Sprintf("%s: the change %s was not made:\n%s", what, k, trunc(out.Stdout, 700)), "Props.C19.skip_complete / exclude (CLI)", map[string]any{"case": id})
				return
			}
		}
	}
	fresh := func(name string) string {
		os.Remove(filepath.Join(dir, name))
		copyFile(filepath.Join(dir, "db.sqlite"), filepath.Join(dir, name))
		return name
	}
	// (1) diff.skip: every subset of the six kinds
	for mask := 0; mask < 1<<len(c19Kinds); mask++ {
		if !e.Thorough() && mask%3 != 0 && mask != 1<<len(c19Kinds)-1 {
			continue
		}
		var skipped []string
		var b strings.Builder
		db := fresh(fmt.Sprintf("skip%d.sqlite", mask))
		b.WriteString("env \"local\" {\n  url = \"sqlite://" + db + "\"\n  src = \"file://schema.sql\"\n  dev = \"sqlite://dev?mode=memory\"\n")
		if mask != 0 {
			b.WriteString("  diff {\n    skip {\n")
			for i, k := range c19Kinds {
				if mask&(1<<i) != 0 {
					skipped = append(skipped, k)
					fmt.Fprintf(&b, "      %s = true\n", k)
				}
			}
			b.WriteString("    }\n  }\n")
		}
		b.WriteString("}\n")
		os.WriteFile(filepath.Join(dir, "atlas.hcl"), []byte(b.String()), 0o644)
		o := runAtlas(e, dir, nil, "schema", "apply", "--env", "local", "--auto-approve")
		judge(fmt.Sprintf("skip:%d", mask), fmt.Sprintf("`schema apply --env local --auto-approve` with diff.skip %v", skipped), db, o, skipped)
		os.Remove(filepath.Join(dir, db))
	}
	os.Remove(filepath.Join(dir, "atlas.hcl"))
	// (2) --exclude
	type ex struct {
		pats   []string
		absent []string
		hidden []string // names `schema inspect --exclude` must not print
	}
	cases := []ex{
		{nil, nil, nil},
		{[]string{"old_table"}, []string{"drop_table"}, []string{"old_table"}},
		{[]string{"fresh"}, []string{"add_table"}, nil},
		{[]string{"items.legacy_col"}, []string{"drop_column"}, []string{"legacy_col"}},
		{[]string{"*.legacy_col[type=column]"}, []string{"drop_column"}, []string{"legacy_col"}},
		{[]string{"users.idx_legacy"}, []string{"drop_index"}, []string{"idx_legacy"}},
		{[]string{"users.*[type=index]"}, []string{"drop_index", "add_index"}, []string{"idx_legacy"}},
		{[]string{"users.*[type=index|fk]"}, []string{"drop_index", "add_index"}, []string{"idx_legacy"}},
		{[]string{"users.*[type=check|index|fk]"}, []string{"drop_index", "add_index"}, []string{"idx_legacy"}},
		{[]string{"*.*[type=fk|check|index]"}, []string{"drop_index", "add_index"}, []string{"idx_legacy"}},
		{[]string{"old_*", "users.idx_*"}, []string{"drop_table", "drop_index", "add_index"}, []string{"old_table", "idx_legacy"}},
		{[]string{"old_table", "fresh", "items.legacy_col", "users.email"}, []string{"drop_table", "add_table", "drop_column", "add_column"}, []string{"old_table", "legacy_col"}},
		{[]string{"*[type=table]"}, c19Kinds, []string{"users", "old_table"}},
		// selectors that match no table at all must leave the tables alone
		{[]string{"*[type=view]"}, nil, nil},
		{[]string{"*[type=trigger]", "*.*[type=fk]"}, nil, nil},
		{[]string{"*[type=view|trigger]"}, nil, nil},
	}
	for i, c := range cases {
		db := fresh(fmt.Sprintf("ex%d.sqlite", i))
		args := []string{"schema", "apply", "--url", "sqlite://" + db, "--to", "file://schema.sql", "--dev-url", "sqlite://dev?mode=memory", "--auto-approve"}
		var xs []string
		for _, p := range c.pats {
			xs = append(xs, "--exclude", p)
		}
		o := runAtlas(e, dir, nil, append(args, xs...)...)
		judge(fmt.Sprintf("exclude:%d", i), fmt.Sprintf("`schema apply --auto-approve --exclude %v`", c.pats), db, o, c.absent)
		os.Remove(filepath.Join(dir, db))
		in := runAtlas(e, dir, nil, append([]string{"schema", "inspect", "--url", "sqlite://db.sqlite"}, xs...)...)
		e.Res.Count(fmt.Sprintf("cli:inspect:%d", i), len(c.hidden) > 0, "cli:inspect")
		if in.Code != 0 {
			e.Res.Violate("failing-input", "cli-plan-fails", fmt.Sprintf("`schema inspect --exclude %v` fails: %s", c.pats, trunc(in.Stderr, 300)), "Props.C19 CLI", map[string]any{"case": c.pats})
			continue
		}
		for _, h := range c.hidden {
			if strings.Contains(in.Stdout, "\""+h+"\"") {
				e.Res.Violate("failing-input", "cli-excluded-resource-inspected", fmt.Sprintf("`schema inspect --exclude %v` still prints %q:\n%s", c.pats, h, trunc(in.Stdout, 600)), "Props.C19 exclude (CLI)", map[string]any{"case": c.pats})
				break
			}
		}
		for _, must := range []string{"keep"} {
			if len(c.absent) < len(c19Kinds) && !strings.Contains(in.Stdout, "\""+must+"\"") {
				e.Res.Violate("failing-input", "cli-other-change-lost", fmt.Sprintf("`schema inspect --exclude %v` no longer prints table %q", c.pats, must), "Props.C19 exclude (CLI)", map[string]any{"case": c.pats})
			}
		}
	}
}
