package main

// C19, CLI tier: the --exclude flags and the `diff { skip { ... } }` block of an environment reach the
// plan. A live SQLite database and a desired schema that differ by one change of eleven kinds (drop/add
// table, drop/add/modify column, drop/add/modify index, drop/add/modify foreign key) go through `atlas schema apply --auto-approve` on a copy of the database, which is then probed with an
// independent client:
//   * for subsets of the eleven skippable kinds a SQLite scenario can show (and modify_table) configured in atlas.hcl, the plan holds no statement
//     of a skipped kind and still holds every statement of the other kinds;
//   * for exclusion patterns (names, wildcards, [type=...] selectors with one, two and three
//     alternatives, two patterns at once) the plan does not touch an excluded resource and still holds
//     the statements for everything else; `schema inspect --exclude` does not print an excluded resource.

import (
	"fmt"
	"os"
	"path/filepath"
	"strconv"
	"strings"

	"verifharness/internal/hx"
)

// every change lives in a table of its own, unless it can share one without forcing SQLite to rebuild it
// (a rebuilt table is re-created from the desired definition: see c19Rebuild)
var c19Live = []string{
	"CREATE TABLE users (id integer NOT NULL, name text NULL, age integer NULL, PRIMARY KEY (id))",
	"CREATE INDEX idx_legacy ON users (name)",
	"CREATE TABLE mi (id integer NOT NULL, age integer NULL, PRIMARY KEY (id))",
	"CREATE INDEX idx_mod ON mi (age)",
	"CREATE TABLE items (id integer NOT NULL, legacy_col text NULL, PRIMARY KEY (id))",
	"CREATE TABLE mc (id integer NOT NULL, age integer NULL, PRIMARY KEY (id))",
	"CREATE TABLE old_table (id integer NOT NULL, PRIMARY KEY (id))",
	"CREATE TABLE keep (id integer NOT NULL, PRIMARY KEY (id))",
	"CREATE TABLE posts_d (id integer NOT NULL, user_id integer NULL, PRIMARY KEY (id), CONSTRAINT fk_drop FOREIGN KEY (user_id) REFERENCES keep (id))",
	"CREATE TABLE posts_m (id integer NOT NULL, author_id integer NULL, PRIMARY KEY (id), CONSTRAINT fk_mod FOREIGN KEY (author_id) REFERENCES keep (id) ON DELETE CASCADE)",
	"CREATE TABLE posts_a (id integer NOT NULL, editor_id integer NULL, PRIMARY KEY (id))",
}

const c19Desired = "CREATE TABLE users (id integer NOT NULL, name text NULL, age integer NULL, email text NULL, PRIMARY KEY (id));\n" +
	"CREATE INDEX idx_new ON users (id, name);\n" +
	"CREATE TABLE mi (id integer NOT NULL, age integer NULL, PRIMARY KEY (id));\n" +
	"CREATE UNIQUE INDEX idx_mod ON mi (age);\n" +
	"CREATE TABLE items (id integer NOT NULL, PRIMARY KEY (id));\n" +
	"CREATE TABLE mc (id integer NOT NULL, age integer NOT NULL DEFAULT 0, PRIMARY KEY (id));\n" +
	"CREATE TABLE keep (id integer NOT NULL, PRIMARY KEY (id));\n" +
	"CREATE TABLE fresh (id integer NOT NULL, PRIMARY KEY (id));\n" +
	"CREATE TABLE posts_d (id integer NOT NULL, user_id integer NULL, PRIMARY KEY (id));\n" +
	"CREATE TABLE posts_m (id integer NOT NULL, author_id integer NULL, PRIMARY KEY (id), CONSTRAINT fk_mod FOREIGN KEY (author_id) REFERENCES keep (id) ON DELETE SET NULL);\n" +
	"CREATE TABLE posts_a (id integer NOT NULL, editor_id integer NULL, PRIMARY KEY (id), CONSTRAINT fk_add FOREIGN KEY (editor_id) REFERENCES keep (id));\n"

// what each of the changes does to the database: (probe query returning one value, value when the change was made)
var c19Probe = map[string][2]string{
	"drop_table":         {"SELECT count(*) FROM sqlite_master WHERE type='table' AND name='old_table'", "0"},
	"add_table":          {"SELECT count(*) FROM sqlite_master WHERE type='table' AND name='fresh'", "1"},
	"drop_column":        {"SELECT count(*) FROM pragma_table_info('items') WHERE name='legacy_col'", "0"},
	"add_column":         {"SELECT count(*) FROM pragma_table_info('users') WHERE name='email'", "1"},
	"modify_column":      {"SELECT count(*) FROM pragma_table_info('mc') WHERE name='age' AND \"notnull\"=1", "1"},
	"drop_index":         {"SELECT count(*) FROM sqlite_master WHERE type='index' AND name='idx_legacy'", "0"},
	"add_index":          {"SELECT count(*) FROM sqlite_master WHERE type='index' AND name='idx_new'", "1"},
	"modify_index":       {"SELECT count(*) FROM sqlite_master WHERE type='index' AND name='idx_mod' AND sql LIKE '%UNIQUE%'", "1"},
	"drop_foreign_key":   {"SELECT count(*) FROM pragma_foreign_key_list('posts_d') WHERE \"from\"='user_id'", "0"},
	"add_foreign_key":    {"SELECT count(*) FROM pragma_foreign_key_list('posts_a') WHERE \"from\"='editor_id'", "1"},
	"modify_foreign_key": {"SELECT count(*) FROM pragma_foreign_key_list('posts_m') WHERE \"from\"='author_id' AND on_delete='SET NULL'", "1"},
}

// every kind of the diff.skip block that the SQLite scenario can show (modify_table, which silences all the
// changes inside existing tables, is judged through them)
var c19Kinds = []string{"drop_table", "add_table", "drop_column", "add_column", "modify_column", "drop_index", "add_index", "modify_index", "drop_foreign_key", "add_foreign_key", "modify_foreign_key"}

// c19InTable: the kinds that live inside a ModifyTable
var c19InTable = []string{"drop_column", "add_column", "modify_column", "drop_index", "add_index", "modify_index", "drop_foreign_key", "add_foreign_key", "modify_foreign_key"}

func c19CLI(e *Env) {
	if e.Atlas == "" {
		return
	}
	dir := filepath.Join(e.Work, "c19cli")
	os.RemoveAll(dir)
	os.MkdirAll(dir, 0o755)
	defer os.RemoveAll(dir)
	if err := execSQL(filepath.Join(dir, "db.sqlite"), c19Live...); err != nil {
		e.Res.Note("c19cli setup: %v", err)
		return
	}
	os.WriteFile(filepath.Join(dir, "schema.sql"), []byte(c19Desired), 0o644)
	// the same desired state as an HCL document (inspected from a database built from the SQL)
	haveHCL := false
	if err := execSQL(filepath.Join(dir, "desired.sqlite"), strings.Split(strings.TrimSuffix(strings.TrimSpace(c19Desired), ";"), ";\n")...); err == nil {
		if o := runAtlas(e, dir, nil, "schema", "inspect", "--url", "sqlite://desired.sqlite"); o.Code == 0 {
			haveHCL = os.WriteFile(filepath.Join(dir, "schema.hcl"), []byte(o.Stdout), 0o644) == nil
		}
	}
	// made reports, per kind, whether the change was made to the database file
	made := func(db string) (map[string]bool, error) {
		conn, err := openSQLite(db, false)
		if err != nil {
			return nil, err
		}
		defer conn.Close()
		out := map[string]bool{}
		for _, k := range c19Kinds {
			var n string
			if err := conn.QueryRow(c19Probe[k][0]).Scan(&n); err != nil {
				return nil, err
			}
			out[k] = n == c19Probe[k][1]
		}
		return out, nil
	}
	judge := func(id, what, db string, out cliOut, absent []string) {
		e.Res.Count("cli:"+id, len(absent) > 0, "cli:"+strings.SplitN(id, ":", 2)[0])
		if out.Code != 0 {
			e.Res.Violate("failing-input", "cli-plan-fails", fmt.Sprintf("%s: exit %d: %s", what, out.Code, trunc(out.Stdout+out.Stderr, 300)), "Props.C19 CLI", map[string]any{"case": id})
			return
		}
		got, err := made(filepath.Join(dir, db))
		if err != nil {
			e.Res.Note("c19cli probe: %v", err)
			return
		}
		isAbsent := map[string]bool{}
		for _, k := range absent {
			isAbsent[k] = true
		}
		for _, k := range c19Kinds {
			switch {
			case isAbsent[k] && got[k]:
				e.Res.Violate("failing-input", "cli-skipped-or-excluded-change-planned", fmt.Sprintf("%s: the change %s was made to the database nevertheless:\n%s", what, k, trunc(out.Stdout, 700)), "Props.C19.skip_sound / exclude (CLI)", map[string]any{"case": id})
				return
			case !isAbsent[k] && !got[k]:
				e.Res.Violate("failing-input", "cli-other-change-lost", fmt.Sprintf("%s: the change %s was not made:\n%s", what, k, trunc(out.Stdout, 700)), "Props.C19.skip_complete / exclude (CLI)", map[string]any{"case": id})
				return
			}
		}
	}
	fresh := func(name string) string {
		os.Remove(filepath.Join(dir, name))
		copyFile(filepath.Join(dir, "db.sqlite"), filepath.Join(dir, name))
		return name
	}
	// (1) diff.skip: no kind, every single kind, every pair, all kinds, a seeded sample of larger subsets
	// (thorough: 400 of them), and modify_table alone / with others
	var masks [][]string
	masks = append(masks, nil, append([]string{}, c19Kinds...), []string{"modify_table"}, []string{"modify_table", "add_table", "drop_table"})
	for i, k := range c19Kinds {
		masks = append(masks, []string{k})
		for _, k2 := range c19Kinds[i+1:] {
			if e.Thorough() || (i+len(k2))%3 == 0 {
				masks = append(masks, []string{k, k2})
			}
		}
	}
	rr := hx.NewRand(e.Seed, "c19cli-skip")
	nrand := 12
	if e.Thorough() {
		nrand = 400
	}
	for k := 0; k < nrand; k++ {
		var m []string
		for _, kind := range c19Kinds {
			if rr.Chance(1, 2) {
				m = append(m, kind)
			}
		}
		masks = append(masks, m)
	}
	for mi, skipped := range masks {
		var b strings.Builder
		db := fresh(fmt.Sprintf("skip%d.sqlite", mi))
		b.WriteString("env \"local\" {\n  url = \"sqlite://" + db + "\"\n  src = \"file://schema.sql\"\n  dev = \"sqlite://dev?mode=memory\"\n")
		if len(skipped) > 0 {
			b.WriteString("  diff {\n    skip {\n")
			for _, k := range skipped {
				fmt.Fprintf(&b, "      %s = true\n", k)
			}
			b.WriteString("    }\n  }\n")
		}
		b.WriteString("}\n")
		os.WriteFile(filepath.Join(dir, "atlas.hcl"), []byte(b.String()), 0o644)
		o := runAtlas(e, dir, nil, "schema", "apply", "--env", "local", "--auto-approve")
		absent := append([]string{}, skipped...)
		for _, k := range skipped {
			if k == "modify_table" {
				absent = append(absent, c19InTable...)
			}
		}
		judge(fmt.Sprintf("skip:%s", strings.Join(skipped, "+")), fmt.Sprintf("`schema apply --env local --auto-approve` with diff.skip %v", skipped), db, o, absent)
		os.Remove(filepath.Join(dir, db))
	}
	// the skip policy given once at project level: an environment without a diff block, and one whose own diff
	// block says nothing about skipping, inherit it
	for vi, envDiff := range []string{"", "  diff {\n  }\n", "  diff {\n    concurrent_index {\n      create = true\n    }\n  }\n"} {
		db := fresh(fmt.Sprintf("skipproj%d.sqlite", vi))
		skipped := []string{"drop_table", "add_column", "drop_foreign_key"}
		cfg := "diff {\n  skip {\n    drop_table = true\n    add_column = true\n    drop_foreign_key = true\n  }\n}\nenv \"local\" {\n  url = \"sqlite://" + db + "\"\n  src = \"file://schema.sql\"\n  dev = \"sqlite://dev?mode=memory\"\n" + envDiff + "}\n"
		os.WriteFile(filepath.Join(dir, "atlas.hcl"), []byte(cfg), 0o644)
		o := runAtlas(e, dir, nil, "schema", "apply", "--env", "local", "--auto-approve")
		if o.Code != 0 && strings.Contains(o.Stderr+o.Stdout, "concurrent_index") {
			os.Remove(filepath.Join(dir, db))
			continue // the block is not known to this build
		}
		judge(fmt.Sprintf("skip-project:%d", vi), fmt.Sprintf("`schema apply --env local --auto-approve` with a project-level diff.skip %v and env diff block %q", skipped, envDiff), db, o, skipped)
		os.Remove(filepath.Join(dir, db))
	}
	os.Remove(filepath.Join(dir, "atlas.hcl"))
	// (2) --exclude
	type ex struct {
		pats   []string
		absent []string
		hidden []string // names `schema inspect --exclude` must not print
	}
	idx := []string{"drop_index", "add_index", "modify_index"}
	fks := []string{"drop_foreign_key", "add_foreign_key", "modify_foreign_key"}
	cases := []ex{
		{nil, nil, nil},
		{[]string{"old_table"}, []string{"drop_table"}, []string{"old_table"}},
		{[]string{"fresh"}, []string{"add_table"}, nil},
		{[]string{"items.legacy_col"}, []string{"drop_column"}, []string{"legacy_col"}},
		{[]string{"*.legacy_col[type=column]"}, []string{"drop_column"}, []string{"legacy_col"}},
		{[]string{"users.idx_legacy"}, []string{"drop_index"}, []string{"idx_legacy"}},
		{[]string{"users.*[type=index]"}, idx[:2], []string{"idx_legacy"}},
		{[]string{"users.*[type=index|fk]", "mi.idx_mod"}, idx, []string{"idx_legacy"}},
		{[]string{"users.*[type=check|index|fk]"}, idx[:2], []string{"idx_legacy"}},
		{[]string{"*.*[type=fk|check|index]"}, append(append([]string{}, idx...), fks...), []string{"idx_legacy", "fk_drop"}},
		{[]string{"*.*[type=fk]"}, fks, []string{"fk_drop", "fk_mod"}},
		{[]string{"posts_d.fk_drop", "posts_a.*[type=fk]"}, []string{"drop_foreign_key", "add_foreign_key"}, []string{"fk_drop"}},
		{[]string{"old_*", "*.idx_*"}, append([]string{"drop_table"}, idx...), []string{"old_table", "idx_legacy"}},
		{[]string{"old_table", "fresh", "items.legacy_col", "users.email", "mc.age"}, []string{"drop_table", "add_table", "drop_column", "add_column", "modify_column"}, []string{"old_table", "legacy_col"}},
		{[]string{"*[type=table]"}, c19Kinds, []string{"users", "old_table"}},
		// selectors that match no table at all must leave the tables alone
		{[]string{"*[type=view]"}, nil, nil},
		{[]string{"*[type=trigger]", "*[type=function]"}, nil, nil},
		{[]string{"*[type=view|trigger]"}, nil, nil},
	}
	for i, c := range cases {
		db := fresh(fmt.Sprintf("ex%d.sqlite", i))
		args := []string{"schema", "apply", "--url", "sqlite://" + db, "--to", "file://schema.sql", "--dev-url", "sqlite://dev?mode=memory", "--auto-approve"}
		var xs []string
		for _, p := range c.pats {
			xs = append(xs, "--exclude", p)
		}
		o := runAtlas(e, dir, nil, append(args, xs...)...)
		judge(fmt.Sprintf("exclude:%d", i), fmt.Sprintf("`schema apply --auto-approve --exclude %v`", c.pats), db, o, c.absent)
		os.Remove(filepath.Join(dir, db))
		if haveHCL {
			// the desired state as HCL, without a dev database: the patterns are relative to the schema the
			// connection is bound to on both sides
			db := fresh(fmt.Sprintf("exhcl%d.sqlite", i))
			o := runAtlas(e, dir, nil, append([]string{"schema", "apply", "--url", "sqlite://" + db, "--to", "file://schema.hcl", "--auto-approve"}, xs...)...)
			judge(fmt.Sprintf("exclude-hcl:%d", i), fmt.Sprintf("`schema apply --to file://schema.hcl --auto-approve --exclude %v` (no dev database)", c.pats), db, o, c.absent)
			os.Remove(filepath.Join(dir, db))
		}
		if len(c.pats) > 0 {
			// the same patterns as the `exclude` list of the environment (no flag on the command line)
			db := fresh(fmt.Sprintf("exenv%d.sqlite", i))
			qs := make([]string, len(c.pats))
			for k, p := range c.pats {
				qs[k] = strconv.Quote(p)
			}
			os.WriteFile(filepath.Join(dir, "atlas.hcl"), []byte("env \"local\" {\n  url = \"sqlite://"+db+"\"\n  src = \"file://schema.sql\"\n  dev = \"sqlite://dev?mode=memory\"\n  exclude = ["+strings.Join(qs, ", ")+"]\n}\n"), 0o644)
			o := runAtlas(e, dir, nil, "schema", "apply", "--env", "local", "--auto-approve")
			judge(fmt.Sprintf("exclude-env:%d", i), fmt.Sprintf("`schema apply --env local --auto-approve` with exclude = %v in the environment", c.pats), db, o, c.absent)
			in := runAtlas(e, dir, nil, "schema", "inspect", "--env", "local")
			// the same database and desired state named through env:// URLs (attributes of the environment)
			in2 := runAtlas(e, dir, nil, "schema", "inspect", "--env", "local", "--url", "env://url")
			os.Remove(filepath.Join(dir, db))
			db2 := fresh(fmt.Sprintf("exenvu%d.sqlite", i))
			os.WriteFile(filepath.Join(dir, "atlas.hcl"), []byte("env \"local\" {\n  url = \"sqlite://"+db2+"\"\n  src = \"file://schema.sql\"\n  dev = \"sqlite://dev?mode=memory\"\n  exclude = ["+strings.Join(qs, ", ")+"]\n}\n"), 0o644)
			o2 := runAtlas(e, dir, nil, "schema", "apply", "--env", "local", "--url", "env://url", "--to", "env://src", "--auto-approve")
			judge(fmt.Sprintf("exclude-env-url:%d", i), fmt.Sprintf("`schema apply --env local --url env://url --to env://src --auto-approve` with exclude = %v in the environment", c.pats), db2, o2, c.absent)
			os.Remove(filepath.Join(dir, db2))
			os.Remove(filepath.Join(dir, "atlas.hcl"))
			for _, x := range []struct {
				o   cliOut
				cmd string
			}{{in, "schema inspect --env local"}, {in2, "schema inspect --env local --url env://url"}} {
				for _, h := range c.hidden {
					if x.o.Code == 0 && strings.Contains(x.o.Stdout, "\""+h+"\"") {
						e.Res.Violate("failing-input", "cli-excluded-resource-inspected", fmt.Sprintf("`%s` with exclude = %v still prints %q:\n%s", x.cmd, c.pats, h, trunc(x.o.Stdout, 600)), "Props.C19 exclude (CLI)", map[string]any{"case": c.pats})
						break
					}
				}
			}
		}
		in := runAtlas(e, dir, nil, append([]string{"schema", "inspect", "--url", "sqlite://db.sqlite"}, xs...)...)
		e.Res.Count(fmt.Sprintf("cli:inspect:%d", i), len(c.hidden) > 0, "cli:inspect")
		if in.Code != 0 {
			e.Res.Violate("failing-input", "cli-plan-fails", fmt.Sprintf("`schema inspect --exclude %v` fails: %s", c.pats, trunc(in.Stderr, 300)), "Props.C19 CLI", map[string]any{"case": c.pats})
			continue
		}
		for _, h := range c.hidden {
			if strings.Contains(in.Stdout, "\""+h+"\"") {
				e.Res.Violate("failing-input", "cli-excluded-resource-inspected", fmt.Sprintf("`schema inspect --exclude %v` still prints %q:\n%s", c.pats, h, trunc(in.Stdout, 600)), "Props.C19 exclude (CLI)", map[string]any{"case": c.pats})
				break
			}
		}
		for _, must := range []string{"keep"} {
			if len(c.absent) < len(c19Kinds) && !strings.Contains(in.Stdout, "\""+must+"\"") {
				e.Res.Violate("failing-input", "cli-other-change-lost", fmt.Sprintf("`schema inspect --exclude %v` no longer prints table %q", c.pats, must), "Props.C19 exclude (CLI)", map[string]any{"case": c.pats})
			}
		}
	}
}

// c19NameClash: a table named like the schema the connection is bound to (SQLite: "main"). Patterns are relative
// to that schema: "main.audit" is the column (or index ...) audit of TABLE main - the table audit stays.
func c19NameClash(e *Env) {
	if e.Atlas == "" {
		return
	}
	dir := filepath.Join(e.Work, "c19clash")
	os.RemoveAll(dir)
	os.MkdirAll(dir, 0o755)
	defer os.RemoveAll(dir)
	if err := execSQL(filepath.Join(dir, "db.sqlite"),
		"CREATE TABLE main (id integer NOT NULL, audit text NULL, other text NULL, PRIMARY KEY (id))",
		"CREATE TABLE audit (id integer NOT NULL, PRIMARY KEY (id))",
		"CREATE TABLE third (id integer NOT NULL, main integer NULL, PRIMARY KEY (id))"); err != nil {
		return
	}
	type cl struct {
		pats          []string
		gone, present []string
	}
	for i, c := range []cl{
		{[]string{"main.audit"}, []string{`column "audit"`}, []string{`table "audit"`, `table "main"`, `column "other"`, `table "third"`}},
		{[]string{"main.*"}, []string{`column "audit"`, `column "other"`}, []string{`table "audit"`, `table "main"`, `table "third"`}},
		{[]string{"main"}, []string{`table "main"`, `column "audit"`}, []string{`table "audit"`, `table "third"`, `column "main"`}},
		{[]string{"third.main"}, []string{`column "main"`}, []string{`table "audit"`, `table "main"`, `table "third"`, `column "audit"`}},
	} {
		var xs []string
		for _, p := range c.pats {
			xs = append(xs, "--exclude", p)
		}
		in := runAtlas(e, dir, nil, append([]string{"schema", "inspect", "--url", "sqlite://db.sqlite"}, xs...)...)
		e.Res.Count(fmt.Sprintf("cli:name-clash:%d", i), true, "cli:inspect", "name-clash")
		rep := map[string]any{"case": c.pats, "tables": "main(id, audit, other), audit(id), third(id, main)"}
		if in.Code != 0 {
			e.Res.Violate("failing-input", "cli-plan-fails", fmt.Sprintf("`schema inspect --exclude %v` fails: %s", c.pats, trunc(in.Stderr, 300)), "Props.C19 CLI", rep)
			continue
		}
		for _, g := range c.gone {
			if strings.Contains(in.Stdout, g) {
				e.Res.Violate("failing-input", "cli-excluded-resource-inspected", fmt.Sprintf("`schema inspect --exclude %v` on a schema-bound connection whose schema (main) also names a table still prints %s:\n%s", c.pats, g, trunc(in.Stdout, 600)), "Props.C19 exclude (CLI)", rep)
				break
			}
		}
		for _, p := range c.present {
			if !strings.Contains(in.Stdout, p) {
				e.Res.Violate("failing-input", "cli-other-change-lost", fmt.Sprintf("`schema inspect --exclude %v` on a schema-bound connection whose schema (main) also names a table no longer prints %s, which no pattern matches:\n%s", c.pats, p, trunc(in.Stdout, 600)), "Props.C19 exclude (CLI)", rep)
				break
			}
		}
	}
}

// c19Rebuild: the same skip kinds on a table that SQLite has to rebuild for another, unskipped change.
// The rebuilt table is created from the desired definition, so the skipped changes of that table are made
// nevertheless (or the plan fails): reported under one signature (known finding).
func c19Rebuild(e *Env) {
	if e.Atlas == "" {
		return
	}
	dir := filepath.Join(e.Work, "c19rebuild")
	os.RemoveAll(dir)
	os.MkdirAll(dir, 0o755)
	defer os.RemoveAll(dir)
	live := []string{
		"CREATE TABLE r (id integer NOT NULL, age integer NULL, name text NULL, PRIMARY KEY (id))",
		"CREATE INDEX r_legacy ON r (name)",
	}
	desired := "CREATE TABLE r (id integer NOT NULL, age integer NOT NULL DEFAULT 0, name text NULL, email text NULL, PRIMARY KEY (id));\nCREATE INDEX r_new ON r (id);\n"
	os.WriteFile(filepath.Join(dir, "schema.sql"), []byte(desired), 0o644)
	probes := map[string][2]string{
		"add_column": {"SELECT count(*) FROM pragma_table_info('r') WHERE name='email'", "1"},
		"add_index":  {"SELECT count(*) FROM sqlite_master WHERE type='index' AND name='r_new'", "1"},
		"drop_index": {"SELECT count(*) FROM sqlite_master WHERE type='index' AND name='r_legacy'", "0"},
	}
	for _, k := range []string{"add_column", "add_index", "drop_index"} {
		db := "r_" + k + ".sqlite"
		os.Remove(filepath.Join(dir, db))
		if err := execSQL(filepath.Join(dir, db), live...); err != nil {
			e.Res.Note("c19rebuild setup: %v", err)
			return
		}
		os.WriteFile(filepath.Join(dir, "atlas.hcl"), []byte("env \"local\" {\n  url = \"sqlite://"+db+"\"\n  src = \"file://schema.sql\"\n  dev = \"sqlite://dev?mode=memory\"\n  diff {\n    skip {\n      "+k+" = true\n    }\n  }\n}\n"), 0o644)
		o := runAtlas(e, dir, nil, "schema", "apply", "--env", "local", "--auto-approve")
		e.Res.Count("cli:rebuild:"+k, true, "cli:rebuild")
		rep := map[string]any{"case": "rebuild+" + k, "live": live, "desired": desired}
		if o.Code != 0 {
			e.Res.Violate("failing-input", "sqlite-rebuild-ignores-skip", fmt.Sprintf("`schema apply --env local` with diff.skip [%s] on a table that is rebuilt for another change fails: %s", k, trunc(o.Stderr+o.Stdout, 900)), "Props.C19.skip_sound (CLI)", rep)
			continue
		}
		conn, err := openSQLite(filepath.Join(dir, db), false)
		if err != nil {
			continue
		}
		var n string
		err = conn.QueryRow(probes[k][0]).Scan(&n)
		conn.Close()
		if err == nil && n == probes[k][1] {
			e.Res.Violate("failing-input", "sqlite-rebuild-ignores-skip", fmt.Sprintf("`schema apply --env local` with diff.skip [%s]: the table is rebuilt for another change and the skipped change is made nevertheless:\n%s", k, trunc(o.Stdout, 700)), "Props.C19.skip_sound (CLI)", rep)
		}
	}
}
