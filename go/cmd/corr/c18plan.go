package main

// C18, planner tier: the files linted here are written by the real `atlas migrate diff` (SQLite
// planner: in-place ALTERs and table rebuilds), not by the harness. A base schema is turned into a
// first migration file, 1-3 elementary edits into a second one; `migrate lint --latest 1` must report
// a destructive change (DS102 / DS103) for the second file exactly when a table / a column was dropped
// by the edits: never for additive-only files (also when the planner has to rebuild the table), always
// for a real drop.

import (
	"encoding/json"
	"fmt"
	"os"
	"path/filepath"
	"sort"
	"strings"
	"sync"

	"verifharness/internal/hx"
)

func c18Planned(e *Env, viol func(kind, sig, what, chk string, rep any), mu *sync.Mutex) {
	n := 40
	if e.Thorough() {
		n = 600
	}
	parallel(e.Workers, n, func(ci int) {
		r := hx.NewRand(e.Seed, fmt.Sprintf("c18plan-%d", ci))
		g := &sqGen{r: r}
		cur := g.schema(1 + r.Intn(3))
		if ci%5 == 2 && len(cur.Tables) > 0 {
			// a VIRTUAL generated column followed by an ordinary column: the desired schema drops both
			t := cur.Tables[0]
			t.Cols = append(t.Cols, sqCol{Name: "gvx", Type: "integer", Gen: "id + 1"}, sqCol{Name: "zdrop", Type: "integer"})
		}
		dropK := 0
		if ci%5 == 3 && len(cur.Tables) > 0 {
			// exactly k ordinary columns that exist before are dropped by ONE statement (a rebuild), k = 1..4,
			// and nothing else happens to the schema
			dropK = 1 + (ci/5)%4
			t := cur.Tables[0]
			for k := 1; k <= dropK; k++ {
				t.Cols = append(t.Cols, sqCol{Name: fmt.Sprintf("zd%d", k), Type: hx.Pick(r, []string{"integer", "text"})})
			}
		}
		swap := ""
		if ci%5 == 4 && len(cur.Tables) > 0 {
			// ONE column is dropped and ONE column of the same type and nullability is added to the same table (a
			// rebuild that looks like a rename and is none: the values of the dropped column are gone)
			swap = hx.Pick(r, []string{"integer", "text", "real"})
			t := cur.Tables[0]
			t.Cols = append(t.Cols, sqCol{Name: "zd1", Type: swap})
		}
		des := cur.clone()
		var edits []*sqEdit
		if swap != "" {
			t := des.Tables[0]
			t.Cols[len(t.Cols)-1] = sqCol{Name: "za1", Type: swap}
			edits = append(edits, &sqEdit{"drop-column", t.Name, "zd1"}, &sqEdit{"add-column", t.Name, "za1"})
			dropK = -1
		}
		if dropK > 0 {
			t := des.Tables[0]
			t.Cols = t.Cols[:len(t.Cols)-dropK]
			for k := 1; k <= dropK; k++ {
				edits = append(edits, &sqEdit{"drop-column", t.Name, fmt.Sprintf("zd%d", k)})
			}
		}
		if ci%5 == 2 && len(des.Tables) > 0 {
			t := des.Tables[0]
			t.Cols = t.Cols[:len(t.Cols)-2]
			edits = append(edits, &sqEdit{"drop-column", t.Name, "gvx"}, &sqEdit{"drop-column", t.Name, "zdrop"})
		}
		for k := 0; k < 1+r.Intn(3) && dropK == 0; k++ {
			if ed := g.edit(des); ed != nil {
				edits = append(edits, ed)
			}
		}
		if len(edits) == 0 {
			return
		}
		// what the edit set destroys, read off the two schemas (an object added and dropped again inside the
		// set never existed)
		want := map[string]bool{}
		for _, ct := range cur.Tables {
			var dt *sqTable
			for _, t := range des.Tables {
				if t.Name == ct.Name {
					dt = t
				}
			}
			if dt == nil {
				want["DS102"] = true
				continue
			}
			for _, cc := range ct.Cols {
				// (a VIRTUAL generated column stores nothing: dropping it destroys no data)
				if dt.col(cc.Name) == nil && !(cc.Gen != "" && !cc.GenStored) {
					want["DS103"] = true
				}
			}
		}
		dir := filepath.Join(e.Work, fmt.Sprintf("c18plan-%d", ci))
		os.RemoveAll(dir)
		os.MkdirAll(filepath.Join(dir, "m"), 0o755)
		defer os.RemoveAll(dir)
		rep := map[string]any{"current": cur.DDL(), "desired": des.DDL(), "edits": edits}
		diff := func(name string, s *sqSchema) cliOut {
			os.WriteFile(filepath.Join(dir, "schema.sql"), []byte(strings.Join(s.DDL(), ";\n")+";\n"), 0o644)
			return runAtlas(e, dir, nil, "migrate", "diff", name, "--dir", "file://m", "--to", "file://schema.sql", "--dev-url", "sqlite://dev?mode=memory")
		}
		if o := diff("a_init", cur); o.Code != 0 { // (both files may get the same second as version: the names keep them in order)
			mu.Lock()
			e.Res.Tag("planned:generator-rejected")
			mu.Unlock()
			return
		}
		o2 := diff("b_change", des)
		fs, _ := filepath.Glob(filepath.Join(dir, "m", "*_b_change.sql"))
		if o2.Code != 0 || len(fs) != 1 {
			mu.Lock()
			e.Res.Tag("planned:no-second-file")
			mu.Unlock()
			return
		}
		body, _ := os.ReadFile(fs[0])
		lo := runAtlas(e, dir, nil, "migrate", "lint", "--dir", "file://m", "--dev-url", "sqlite://dev?mode=memory", "--latest", "1", "--format", "{{ json . }}")
		var out lintOut
		if err := json.Unmarshal([]byte(lo.Stdout), &out); err != nil {
			viol("failing-input", "lint-output-unreadable", fmt.Sprintf("planned file: exit %d: %s %s\n%s", lo.Code, trunc(lo.Stdout, 200), trunc(lo.Stderr, 200), body), "Props.C18", rep)
			return
		}
		got := map[string]bool{}
		for _, lf := range out.Files {
			if lf.Error != "" && lf.Error != "destructive changes detected" {
				viol("failing-input", "lint-file-error", fmt.Sprintf("planned file %s: %s\n%s", lf.Name, lf.Error, body), "Props.C18 (lint runs)", rep)
				return
			}
			for _, rp := range lf.Reports {
				for _, d := range rp.Diagnostics {
					if d.Code == "DS102" || d.Code == "DS103" {
						got[d.Code] = true
					}
				}
			}
		}
		keys := func(m map[string]bool) string {
			var ks []string
			for k := range m {
				ks = append(ks, k)
			}
			sort.Strings(ks)
			return strings.Join(ks, ",")
		}
		mu.Lock()
		e.Res.Count(fmt.Sprintf("c18plan-%d", ci), true, "planned", "planned-want:"+keys(want))
		mu.Unlock()
		for _, code := range []string{"DS102", "DS103"} {
			switch {
			case got[code] && !want[code]:
				viol("failing-input", "additive-flagged", fmt.Sprintf("edits %s drop no %s, but the file written by `migrate diff` is reported with %s:\n%s", hxJSON(edits), map[string]string{"DS102": "table", "DS103": "column"}[code], code, body), "Props.C18 no false positive (planner-written file)", rep)
				return
			case !got[code] && want[code]:
				viol("failing-input", "destructive-not-flagged", fmt.Sprintf("edits %s drop a %s, but the file written by `migrate diff` is not reported with %s:\n%s", hxJSON(edits), map[string]string{"DS102": "table", "DS103": "column"}[code], code, body), "Props.C18 no false negative (planner-written file)", rep)
				return
			}
		}
	})
}

// c18Window: the window of files `migrate lint` analyses is the one asked for on the command line, also when
// the project file names another one (env { lint { latest = K } }); with the flag absent the project file
// decides. A destructive file inside the window is reported, one outside is not.
func c18Window(e *Env, viol func(kind, sig, what, chk string, rep any), mu *sync.Mutex) {
	dir := filepath.Join(e.Work, "c18window")
	os.RemoveAll(dir)
	os.MkdirAll(filepath.Join(dir, "m"), 0o755)
	defer os.RemoveAll(dir)
	files := []dirFile{
		{"1_a.sql", "CREATE TABLE t1 (id int);\nCREATE TABLE t2 (id int);\n"},
		{"2_b.sql", "DROP TABLE t1;\n"},
		{"3_c.sql", "CREATE TABLE t3 (id int);\n"},
		{"4_d.sql", "CREATE TABLE t4 (id int);\n"},
	}
	if err := writeMigrationDir(filepath.Join(dir, "m"), files); err != nil {
		return
	}
	type wc struct {
		cfg, flag int // 0: not given
		flagged   bool
	}
	for _, c := range []wc{{0, 3, true}, {0, 2, false}, {1, 3, true}, {2, 3, true}, {3, 2, false}, {3, 1, false}, {3, 0, true}, {2, 0, false}, {1, 4, true}} {
		cfg := "env \"local\" {\n  dev = \"sqlite://dev?mode=memory\"\n  migration {\n    dir = \"file://m\"\n  }\n"
		if c.cfg > 0 {
			cfg += fmt.Sprintf("  lint {\n    latest = %d\n  }\n", c.cfg)
		}
		cfg += "}\n"
		os.WriteFile(filepath.Join(dir, "atlas.hcl"), []byte(cfg), 0o644)
		args := []string{"migrate", "lint", "--env", "local", "--format", "{{ json . }}"}
		if c.flag > 0 {
			args = append(args, "--latest", fmt.Sprint(c.flag))
		}
		o := runAtlas(e, dir, nil, args...)
		id := fmt.Sprintf("lint window: project file latest=%d, --latest %d", c.cfg, c.flag)
		rep := map[string]any{"case": id}
		mu.Lock()
		e.Res.Count("c18window:"+id, c.flagged, "lint-window")
		mu.Unlock()
		var out lintOut
		if err := json.Unmarshal([]byte(o.Stdout), &out); err != nil {
			viol("failing-input", "lint-output-unreadable", fmt.Sprintf("%s: exit %d: %s %s", id, o.Code, trunc(o.Stdout, 200), trunc(o.Stderr, 200)), "Props.C18", rep)
			continue
		}
		got := false
		var names []string
		for _, lf := range out.Files {
			names = append(names, lf.Name)
			for _, rp := range lf.Reports {
				for _, d := range rp.Diagnostics {
					got = got || d.Code == "DS102"
				}
			}
		}
		switch {
		case c.flagged && !got:
			viol("failing-input", "destructive-not-flagged", fmt.Sprintf("%s: the window holds 2_b.sql (DROP TABLE t1), but no DS102 is reported; files analysed: %v, exit %d", id, names, o.Code), "Props.C18 no false negative (window)", rep)
		case !c.flagged && got:
			viol("failing-input", "additive-flagged", fmt.Sprintf("%s: 2_b.sql lies outside the window, but DS102 is reported; files analysed: %v", id, names), "Props.C18 no false positive (window)", rep)
		case c.flagged && o.Code == 0:
			viol("failing-input", "destructive-exit-zero", fmt.Sprintf("%s: DS102 is reported but the command exits 0", id), "Props.C18 exit status (window)", rep)
		}
	}
}
