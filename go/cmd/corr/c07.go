package main

// C07: what is planned is what is executed. Random schemas with adversarial identifiers and
// literals go through the three real planners; every plan is written with every formatter (atlas
// with default/custom delimiters and both indent options, golang-migrate, goose, flyway, liquibase,
// dbmate) and read back with the matching reader + scanner. The monitor demands the statements read
// back to be exactly Plan.Changes[].Cmd. For the atlas / golang-migrate / flyway formats the Lean
// model (formatter + scanner) must produce the same file bytes and the same statements.

import (
	"context"
	"encoding/hex"
	"encoding/json"
	"fmt"
	"os"
	"path/filepath"
	"regexp"
	"strings"
	"unicode"

	"ariga.io/atlas/sql/migrate"
	"ariga.io/atlas/sql/mysql"
	"ariga.io/atlas/sql/postgres"
	"ariga.io/atlas/sql/schema"
	"ariga.io/atlas/sql/sqlite"
	"ariga.io/atlas/sql/sqltool"
	"verifharness/internal/hx"
)

func init() { commands["C07"] = runC07 }

type c07Change struct {
	Cmd     string   `json:"cmd"`
	Comment string   `json:"comment"`
	Reverse []string `json:"reverse"`
}

type c07Case struct {
	Dialect   string      `json:"dialect"`
	Formatter string      `json:"formatter"`
	Delimiter string      `json:"delimiter"`
	Indent    string      `json:"indent"`
	Changes   []c07Change `json:"changes"`
	OwnQuote  bool        `json:"ident_has_own_quote"`
	TrailBack bool        `json:"ident_ends_with_backslash"`
	EnumQuote bool        `json:"enum_value_has_quote"`
}

func plannerOf(d string) (migrate.PlanApplier, migrate.Driver, lexOpts) {
	switch d {
	case "mysql":
		return mysql.DefaultPlan, &mysql.Driver{}, lexOptSets["mysql"]
	case "postgres":
		return postgres.DefaultPlan, &postgres.Driver{}, lexOptSets["postgres"]
	}
	return sqlite.DefaultPlan, &sqlite.Driver{}, lexOptSets["sqlite"]
}

func hexS(s string) string { return hex.EncodeToString([]byte(s)) }

func (c *c07Case) modelPlan() map[string]any {
	chs := []map[string]any{}
	for _, ch := range c.Changes {
		rv := []string{}
		for _, r := range ch.Reverse {
			rv = append(rv, hexS(r))
		}
		chs = append(chs, map[string]any{"cmd": hexS(ch.Cmd), "comment": hexS(ch.Comment), "reverse": rv})
	}
	return map[string]any{"delimiter": hexS(c.Delimiter), "directives": []string{}, "changes": chs}
}

func (c *c07Case) plan() *migrate.Plan {
	p := &migrate.Plan{Version: "20240101000000", Name: "p", Delimiter: c.Delimiter}
	for _, ch := range c.Changes {
		mc := &migrate.Change{Cmd: ch.Cmd, Comment: ch.Comment}
		switch len(ch.Reverse) {
		case 0:
		case 1:
			mc.Reverse = ch.Reverse[0]
		default:
			mc.Reverse = append([]string{}, ch.Reverse...)
		}
		p.Changes = append(p.Changes, mc)
	}
	return p
}

type c07Out struct {
	Err   string   `json:"err,omitempty"`
	File  string   `json:"file"`  // hex of the (first / up) file
	Stmts []string `json:"stmts"` // hex
	// Drv: what migrate.FileStmts(driver, file) - the executor's, the linter's and the replay's path - returns
	// for the same file (third-party formats whose files are plain local files go through the DRIVER's scanner)
	Drv *c07Out `json:"via_driver,omitempty"`
}

var reNow = regexp.MustCompile(`\d{14}`)

// an enum/set value list in which a value contains an unescaped single quote: 'a'b' (odd structure).
var reEnumQuote = regexp.MustCompile(`(?s)(enum|set)\(('[^',]*',)*'[^',)]*'[^,)]`)

// writeAndRead formats the plan with the real formatter and reads it back with the matching reader.
func writeAndRead(c *c07Case, work string) (out c07Out) {
	defer func() {
		if p := recover(); p != nil {
			out = c07Out{Err: fmt.Sprintf("panic: %v", p)}
		}
	}()
	_, drv, _ := plannerOf(c.Dialect)
	plan := c.plan()
	var f migrate.Formatter
	switch c.Formatter {
	case "atlas":
		f = migrate.DefaultFormatter
	case "golang-migrate":
		f = sqltool.GolangMigrateFormatter
	case "goose":
		f = sqltool.GooseFormatter
	case "flyway":
		f = sqltool.FlywayFormatter
	case "liquibase":
		f = sqltool.LiquibaseFormatter
	case "dbmate":
		f = sqltool.DBMateFormatter
	}
	if c.Formatter == "atlas-checkpoint" {
		// the plan written as a checkpoint file (Planner.WriteCheckpoint adds the atlas:checkpoint directive)
		md := &migrate.MemDir{}
		if err := migrate.NewPlanner(nil, md, migrate.PlanWithChecksum(false)).WriteCheckpoint(plan, ""); err != nil {
			return c07Out{Err: "format"}
		}
		fs, ferr := md.Files()
		if ferr != nil || len(fs) != 1 {
			return c07Out{Err: fmt.Sprintf("read-dir:%v n=%d", ferr, len(fs))}
		}
		out.File = hex.EncodeToString(fs[0].Bytes())
		stmts, err := migrate.FileStmts(drv, fs[0])
		if err != nil {
			out.Err = "scan"
			return out
		}
		out.Stmts = []string{}
		for _, s := range stmts {
			out.Stmts = append(out.Stmts, hexS(s))
		}
		return out
	}
	files, err := f.Format(plan)
	if err != nil {
		return c07Out{Err: "format"}
	}
	out.File = hex.EncodeToString(files[0].Bytes())
	var stmts []string
	if c.Formatter == "atlas" {
		stmts, err = migrate.FileStmts(drv, files[0])
	} else {
		dir, derr := os.MkdirTemp(work, "c07")
		if derr != nil {
			return c07Out{Err: "harness:" + derr.Error()}
		}
		defer os.RemoveAll(dir)
		for _, fl := range files {
			if werr := os.WriteFile(filepath.Join(dir, fl.Name()), fl.Bytes(), 0o644); werr != nil {
				return c07Out{Err: "harness:" + werr.Error()}
			}
		}
		var d migrate.Dir
		switch c.Formatter {
		case "golang-migrate":
			d, err = sqltool.NewGolangMigrateDir(dir)
		case "goose":
			d, err = sqltool.NewGooseDir(dir)
		case "flyway":
			d, err = sqltool.NewFlywayDir(dir)
		case "liquibase":
			d, err = sqltool.NewLiquibaseDir(dir)
		case "dbmate":
			d, err = sqltool.NewDBMateDir(dir)
		}
		if err != nil {
			return c07Out{Err: "harness:" + err.Error()}
		}
		fs, ferr := d.Files()
		if ferr != nil || len(fs) == 0 {
			return c07Out{Err: fmt.Sprintf("read-dir:%v n=%d", ferr, len(fs))}
		}
		stmts, err = fs[0].Stmts()
		// formats with a reader of their own (goose: section markers and StatementBegin/End; dbmate: section markers): what the executor
		// gets through migrate.FileStmts(driver, file) is what that reader returns
		if c.Formatter == "golang-migrate" || c.Formatter == "flyway" || c.Formatter == "liquibase" {
			dv := &c07Out{File: out.File}
			if viaDrv, derr := migrate.FileStmts(drv, fs[0]); derr != nil {
				dv.Err = "scan"
			} else {
				dv.Stmts = []string{}
				for _, s := range viaDrv {
					dv.Stmts = append(dv.Stmts, hexS(s))
				}
			}
			out.Drv = dv
		}
		if c.Formatter == "goose" || c.Formatter == "dbmate" {
			viaDrv, derr := migrate.FileStmts(drv, fs[0])
			if (err == nil) != (derr == nil) || (err == nil && strings.Join(viaDrv, "\x00") != strings.Join(stmts, "\x00")) {
				out.Err = fmt.Sprintf("format-reader-bypassed: the %s file's own reader returns %d statements (err=%v), migrate.FileStmts with the %s driver %d (err=%v)", c.Formatter, len(stmts), err, c.Dialect, len(viaDrv), derr)
				return out
			}
		}
	}
	if err != nil {
		out.Err = "scan"
		return out
	}
	out.Stmts = []string{}
	for _, s := range stmts {
		out.Stmts = append(out.Stmts, hexS(s))
	}
	return out
}

func c07Monitor(c *c07Case, o c07Out) (bool, string, string) {
	if strings.HasPrefix(o.Err, "harness:") {
		return true, "", ""
	}
	class := func(sig string) string {
		multilineReverse, gooseLine, enumQuote, backslash, estring := false, false, false, false, false
		for _, ch := range c.Changes {
			for _, r := range ch.Reverse {
				if strings.Contains(r, "\n") {
					multilineReverse = true
				}
			}
			lines := strings.Split(ch.Cmd, "\n")
			for i, l := range lines {
				t := strings.TrimRightFunc(l, unicode.IsSpace)
				if (i < len(lines)-1 && strings.HasSuffix(t, ";")) || (i > 0 && strings.HasPrefix(l, "--")) || (i == len(lines)-1 && i > 0 && strings.HasPrefix(l, "--")) {
					gooseLine = true
				}
			}
			if c.Dialect == "mysql" && strings.Contains(ch.Cmd, "\\") {
				backslash = true
			}
			if c.Dialect == "postgres" && strings.Contains(ch.Cmd, "E'") && strings.Contains(ch.Cmd, "\\") {
				estring = true
			}
		}
		enumQuote = c.Dialect == "mysql" && c.EnumQuote
		crlf := false
		for _, ch := range c.Changes {
			if strings.Contains(ch.Cmd, "\r\n") || strings.HasSuffix(strings.Split(ch.Cmd, "\n")[0], "\r") || strings.Contains(ch.Cmd, "\r") {
				crlf = true
			}
		}
		switch {
		case (c.Formatter == "atlas" || c.Formatter == "atlas-checkpoint") && (strings.Contains(c.Delimiter, `\n`) || strings.Contains(c.Delimiter, `\t`) || strings.Contains(c.Delimiter, `\r`)) &&
			(sig == "statement-text-differs" || sig == "statement-count-differs"):
			return "delimiter-with-literal-escape-sequence"
		case (c.Formatter == "goose" || c.Formatter == "dbmate" || c.Formatter == "liquibase") && crlf && sig == "statement-text-differs":
			return "line-reader-normalises-cr"
		case c.Formatter == "liquibase" && multilineReverse:
			return "liquibase-multiline-rollback"
		case c.Formatter == "goose" && gooseLine:
			return "goose-line-oriented-reader"
		case enumQuote:
			return "mysql-enum-value-with-quote"
		case backslash && c.Formatter != "atlas" && c.Formatter != "atlas-checkpoint":
			return "mysql-backslash-escapes-in-third-party-dir"
		case estring && c.Formatter != "atlas" && c.Formatter != "atlas-checkpoint":
			return "postgres-escape-string-in-third-party-dir"
		}
		return sig
	}
	if strings.HasPrefix(o.Err, "format-reader-bypassed") {
		return false, "format-reader-bypassed", fmt.Sprintf("%s/%s: %s; plan=%s", c.Dialect, c.Formatter, o.Err, trunc(hxJSON(c.Changes), 400))
	}
	if o.Err != "" {
		return false, class("planned-file-unreadable"), fmt.Sprintf("%s/%s: reading the written file back fails (%s); plan=%s", c.Dialect, c.Formatter, o.Err, trunc(hxJSON(c.Changes), 600))
	}
	if len(o.Stmts) != len(c.Changes) {
		return false, class("statement-count-differs"), fmt.Sprintf("%s/%s delim=%q: planned %d statements, read back %d; plan=%s", c.Dialect, c.Formatter, c.Delimiter, len(c.Changes), len(o.Stmts), trunc(hxJSON(c.Changes), 600))
	}
	for i, ch := range c.Changes {
		b, _ := hex.DecodeString(o.Stmts[i])
		got := string(b)
		want := ch.Cmd
		if c.Formatter != "atlas" && c.Formatter != "atlas-checkpoint" || c.Delimiter == "" {
			want += ";" // the default delimiter stays part of the statement text
		}
		if got != want {
			return false, class("statement-text-differs"), fmt.Sprintf("%s/%s delim=%q: statement %d planned %q read back %q", c.Dialect, c.Formatter, c.Delimiter, i, want, got)
		}
	}
	return true, "", ""
}

func genC07(r *hx.Rand, thorough bool) *c07Case {
	d := hx.Pick(r, []string{"mysql", "postgres", "sqlite"})
	cfg := genCfg{Dialect: d, Nasty: hx.Pick(r, []int{0, 3, 6}), OwnQuote: r.Chance(1, 12), TrailBack: r.Chance(1, 12)}
	g := newSchemaGen(r, cfg)
	s := g.schemaWithTables(g.ident("s_"), 1+r.Intn(3))
	changes := g.changesFor(s)
	indent := hx.Pick(r, []string{"", "  "})
	pl, _, _ := plannerOf(d)
	opts := []migrate.PlanOption{}
	if indent != "" {
		opts = append(opts, func(o *migrate.PlanOptions) { o.Indent = indent })
	}
	if r.Chance(1, 2) {
		q := ""
		if r.Chance(1, 3) {
			// a custom qualifier, also one that holds the identifier quote of the dialect
			q = hx.Pick(r, []string{"tenant", "ten`ant", "ten\"ant", "t'x", "a.b", "`", "\""})
		}
		opts = append(opts, func(o *migrate.PlanOptions) { o.SchemaQualifier = &q })
	}
	var plan *migrate.Plan
	func() {
		defer func() { recover() }()
		plan, _ = pl.PlanChanges(context.Background(), "p", changes, opts...)
	}()
	if plan == nil || len(plan.Changes) == 0 {
		return nil
	}
	c := &c07Case{Dialect: d, Indent: indent, OwnQuote: g.HasOwnQuote, TrailBack: g.HasTrailBack, EnumQuote: g.HasEnumQuote}
	for _, ch := range plan.Changes {
		rv, _ := ch.ReverseStmts()
		if rv == nil {
			rv = []string{}
		}
		c.Changes = append(c.Changes, c07Change{Cmd: ch.Cmd, Comment: ch.Comment, Reverse: rv})
	}
	c.Formatter = hx.Pick(r, []string{"atlas", "atlas", "atlas", "atlas-checkpoint", "golang-migrate", "goose", "flyway", "liquibase", "dbmate"})
	if (c.Formatter == "atlas" || c.Formatter == "atlas-checkpoint") && r.Chance(1, 2) {
		c.Delimiter = hx.Pick(r, []string{"\n\n\n", "//", "$$", ";;", "\n-- end\n", "GO", "|", "\\g", "\n\\g", "\\\\", "\\;"})
	}
	_ = schema.Schema{}
	return c
}

// c07Import: hand-shaped third-party-format directories must be read back as their statement sequence.
func c07Import(e *Env, work string) {
	type variant struct {
		name string
		deco func(stmts []string) (file string, content string)
	}
	body := func(stmts []string, eol, after string) string {
		var b strings.Builder
		for i, s := range stmts {
			if i%2 == 1 {
				b.WriteString("-- a comment" + eol)
			}
			b.WriteString(s + ";" + after + eol)
		}
		return b.String()
	}
	seqs := [][]string{
		{"CREATE TABLE t (c int)", "ALTER TABLE t ADD COLUMN d int", "DROP TABLE t"},
		{"INSERT INTO t VALUES ('a;b')", "SELECT 1"},
		{"CREATE TABLE t (\n  c int,\n  d text\n)", "SELECT 2"},
		{"SELECT 'x'", "SELECT 'y -- z'", "SELECT 3"},
		// a literal over several lines whose lines end in a blank / a tab (part of the value)
		{"INSERT INTO t VALUES ('line one \nline two\t\n end')", "SELECT 4"},
		// words of the formats' own section markers inside ordinary statements
		{"CREATE TABLE downloads (\n  id int,\n  Downtime int,\n  up_votes int\n)", "ALTER TABLE downloads ADD COLUMN countdown int", "UPDATE t SET StatementBegin = 1, Up = 2", "SELECT 5"},
	}
	for _, after := range []string{"", " ", "\t"} {
		for _, eol := range []string{"\n", "\r\n"} {
			for si, stmts := range seqs {
				forms := []struct{ kind, file, content string }{
					{"golang-migrate", "1_a.up.sql", body(stmts, eol, after)},
					{"flyway", "V1__a.sql", body(stmts, eol, after)},
					{"goose", "1_a.sql", "-- +goose Up" + eol + body(stmts, eol, after) + eol + "-- +goose Down" + eol + "DROP TABLE x;" + eol},
					{"dbmate", "1_a.sql", "-- migrate:up" + eol + body(stmts, eol, after) + eol + "-- migrate:down" + eol + "DROP TABLE x;" + eol},
					{"liquibase", "1_a.sql", "--liquibase formatted sql" + eol + "--changeset a:1" + eol + body(stmts, eol, after)},
				}
				if si == 0 {
					// goose statement block
					forms = append(forms, struct{ kind, file, content string }{"goose", "1_a.sql",
						"-- +goose Up" + eol + stmts[0] + ";" + after + eol + "-- +goose StatementBegin" + eol + stmts[1] + ";" + eol + "-- +goose StatementEnd" + eol + stmts[2] + ";" + eol + "-- +goose Down" + eol})
				}
				for _, f := range forms {
					dir, err := os.MkdirTemp(work, "c07i")
					if err != nil {
						continue
					}
					os.WriteFile(filepath.Join(dir, f.file), []byte(f.content), 0o644)
					var d migrate.Dir
					switch f.kind {
					case "golang-migrate":
						d, err = sqltool.NewGolangMigrateDir(dir)
					case "goose":
						d, err = sqltool.NewGooseDir(dir)
					case "flyway":
						d, err = sqltool.NewFlywayDir(dir)
					case "liquibase":
						d, err = sqltool.NewLiquibaseDir(dir)
					case "dbmate":
						d, err = sqltool.NewDBMateDir(dir)
					}
					var got []string
					if err == nil {
						var fs []migrate.File
						if fs, err = d.Files(); err == nil && len(fs) > 0 {
							got, err = fs[0].Stmts()
						}
					}
					os.RemoveAll(dir)
					want := []string{}
					for _, s := range stmts {
						want = append(want, s+";")
					}
					norm := func(xs []string) string {
						out := []string{}
						for _, x := range xs {
							out = append(out, strings.ReplaceAll(strings.TrimSpace(x), "\r\n", "\n"))
						}
						return hxJSON(out)
					}
					key := fmt.Sprintf("import:%s:%d:%q:%q", f.kind, si, eol, after)
					e.Res.Count(key, true, "import:"+f.kind)
					if err == nil && f.kind == "goose" && si == 4 && norm(got) != norm(want) {
						// known finding: the goose reader right-trims every line, also inside a literal
						e.Res.Violate("failing-input", "goose-reader-trims-line-ends",
							fmt.Sprintf("goose directory (eol %q, %q after ';'): read back %s, file holds %s", eol, after, norm(got), norm(want)),
							"Props.C07 import", map[string]any{"kind": f.kind, "content": f.content, "got": got})
						continue
					}
					if err != nil || norm(got) != norm(want) {
						e.Res.Violate("failing-input", "third-party-dir-sequence-not-preserved",
							fmt.Sprintf("%s directory (eol %q, %q after ';'): read back %s (err %v), file holds %s", f.kind, eol, after, norm(got), err, norm(want)),
							"Props.C07 import", map[string]any{"kind": f.kind, "content": f.content, "got": got})
					}
				}
			}
		}
	}
}

// c07DirOrder: a third-party directory with several files is read in the order of its versions - compared part
// by part as numbers, whatever the width of the parts (flyway: V9_10 < V10_1, V1.9.10 < V1.10.0; the other
// formats are ordered by file name).
func c07DirOrder(e *Env, work string) {
	type tc struct {
		kind  string
		files []string // in the expected order
	}
	for ti, c := range []tc{
		{"flyway", []string{"V9_10__a.sql", "V10_1__b.sql", "V10_2__c.sql", "V100__d.sql"}},
		{"flyway", []string{"V1.9.10__a.sql", "V1.10.0__b.sql", "V1.10.1__c.sql", "V2__d.sql"}},
		{"flyway", []string{"V1__a.sql", "V1_1__b.sql", "V2__c.sql", "V10__d.sql"}},
		{"flyway", []string{"V2__a.sql", "V11__b.sql", "V20240101__c.sql"}},
		// (the other formats are listed by file name, as Atlas's own directories are: zero-padded versions)
		{"golang-migrate", []string{"009_a.up.sql", "010_b.up.sql", "100_c.up.sql"}},
		{"goose", []string{"009_a.sql", "010_b.sql", "100_c.sql"}},
		{"dbmate", []string{"009_a.sql", "010_b.sql", "100_c.sql"}},
	} {
		dir, err := os.MkdirTemp(work, "c07o")
		if err != nil {
			continue
		}
		for i, n := range c.files {
			body := fmt.Sprintf("SELECT %d;\n", i)
			switch c.kind {
			case "goose":
				body = "-- +goose Up\n" + body
			case "dbmate":
				body = "-- migrate:up\n" + body
			}
			os.WriteFile(filepath.Join(dir, n), []byte(body), 0o644)
		}
		var d migrate.Dir
		switch c.kind {
		case "golang-migrate":
			d, err = sqltool.NewGolangMigrateDir(dir)
		case "goose":
			d, err = sqltool.NewGooseDir(dir)
		case "flyway":
			d, err = sqltool.NewFlywayDir(dir)
		case "dbmate":
			d, err = sqltool.NewDBMateDir(dir)
		}
		var got, stmts []string
		if err == nil {
			var fs []migrate.File
			if fs, err = d.Files(); err == nil {
				for _, f := range fs {
					got = append(got, f.Name())
					ss, _ := f.Stmts()
					stmts = append(stmts, ss...)
				}
			}
		}
		os.RemoveAll(dir)
		e.Res.Count(fmt.Sprintf("dir-order:%d", ti), true, "import:"+c.kind, "dir-order")
		var want []string
		for i := range c.files {
			want = append(want, fmt.Sprintf("SELECT %d;", i))
		}
		if err != nil || strings.Join(got, ",") != strings.Join(c.files, ",") || strings.Join(stmts, "|") != strings.Join(want, "|") {
			e.Res.Violate("failing-input", "third-party-dir-order-wrong", fmt.Sprintf("%s directory %v: files are read as %v (statements %v, err %v)", c.kind, c.files, got, stmts, err), "Props.C07 import (order of the files)", map[string]any{"kind": c.kind, "files": c.files, "got": got})
		}
	}
}

func runC07(e *Env) error {
	pool, err := hx.NewPool(e.Model, e.Workers)
	if err != nil {
		return err
	}
	defer pool.Close()
	work := e.Work
	if work == "" {
		work = os.TempDir()
	}
	var cases []*c07Case
	if e.Replay != "" {
		var doc struct {
			Case struct {
				Case c07Case `json:"case"`
			} `json:"case"`
		}
		b, err := os.ReadFile(e.Replay)
		if err != nil {
			return err
		}
		if err := json.Unmarshal(b, &doc); err != nil {
			return err
		}
		cases = []*c07Case{&doc.Case.Case}
	} else {
		r := hx.NewRand(e.Seed, "c07")
		n := 2500
		if e.Thorough() {
			n = 50000
		}
		for i := 0; i < n; i++ {
			if c := genC07(r, e.Thorough()); c != nil {
				cases = append(cases, c)
			}
		}
		// hand-made plans with statements that stress the formatter/scanner interplay
		for _, cmds := range [][]string{
			{"CREATE TABLE t (c int)", "DROP TABLE t"},
			{"INSERT INTO t VALUES ('a;b')", "SELECT ';'"},
			{"CREATE TRIGGER tr BEFORE INSERT ON t BEGIN SELECT 1; END", "SELECT 2"},
			{"SELECT '--'", "SELECT '/*'", "SELECT '*/'"},
			{"CREATE FUNCTION f() RETURNS int AS $$ SELECT 1; $$ LANGUAGE sql", "SELECT $1"},
			{"ALTER TABLE t COMMENT 'x\ny'", "SELECT 1"},
		} {
			for _, f := range []string{"atlas", "golang-migrate", "goose", "flyway", "dbmate"} {
				// the last three hold the two characters backslash + n / t / r, which the header's escaping cannot tell from the escaped control character
				for _, dl := range []string{"", "\n\n\n", "//", "\\n", "a\\tb", "$$\\r"} {
					if f != "atlas" && (dl != "" || strings.Contains(cmds[0], "BEGIN")) {
						continue // BEGIN blocks are not produced by the community planners; sqltool dirs use the generic scanner
					}
					for _, d := range []string{"mysql", "postgres", "sqlite"} {
						if d != "postgres" && strings.Contains(cmds[0], "$$") {
							continue // dollar quoting is PostgreSQL syntax
						}
						c := &c07Case{Dialect: d, Formatter: f, Delimiter: dl}
						for i, s := range cmds {
							c.Changes = append(c.Changes, c07Change{Cmd: s, Comment: fmt.Sprintf("change %d", i), Reverse: []string{}})
						}
						cases = append(cases, c)
					}
				}
			}
		}
		e.Res.Rule = fmt.Sprintf("%d random schemas (1-3 tables; columns, defaults, enums, comments, checks, indexes, foreign keys; identifiers/literals adversarial with probability 0/30/60%%: quotes of the other kinds, semicolons, comment markers, newlines, backslashes, parentheses, dollar quotes, keywords, non-ASCII; the dialect's own quote character / trailing backslash in 1/12 of the cases) planned by the real MySQL/PostgreSQL/SQLite planners (indent '' or '  ', with/without empty qualifier) x formatter {atlas (default or one of 11 custom delimiters, four of them with a backslash; the hand-made plans also with the three delimiters that hold a literal backslash-n / -t / -r), golang-migrate, goose, flyway, liquibase, dbmate} + hand-made plans; non-trivial = plan with >= 2 statements; distinct by the whole case", n)
	}
	if e.Replay == "" {
		c07Import(e, work)
		c07DirOrder(e, work)
		c07DriverEscapes(e, work)
	}
	parallel(e.Workers, len(cases), func(i int) {
		c := cases[i]
		impl := writeAndRead(c, work)
		_, _, lo := plannerOf(c.Dialect)
		tags := []string{"dialect:" + c.Dialect, "fmt:" + c.Formatter}
		if c.Delimiter != "" {
			tags = append(tags, "custom-delimiter")
		}
		if c.OwnQuote {
			tags = append(tags, "own-quote")
		}
		if c.TrailBack {
			tags = append(tags, "trailing-backslash")
		}
		nasty := false
		for _, ch := range c.Changes {
			if strings.ContainsAny(ch.Cmd, ";\n\\$#") || strings.Contains(ch.Cmd, "--") || strings.Contains(ch.Cmd, "/*") {
				nasty = true
			}
		}
		if nasty {
			tags = append(tags, "adversarial-text")
		}
		if impl.Err != "" {
			tags = append(tags, "impl:"+strings.SplitN(impl.Err, ":", 2)[0])
		} else {
			tags = append(tags, "impl:ok")
		}
		e.Res.Count(hxJSON(c), len(c.Changes) >= 2, tags...)
		if nasty && len(c.Changes) <= 3 {
			e.Res.Sample(map[string]any{"dialect": c.Dialect, "formatter": c.Formatter, "delimiter": c.Delimiter, "cmds": c.Changes}, 4)
		}
		okI, sig, what := c07Monitor(c, impl)
		if impl.Drv != nil && !strings.HasPrefix(impl.Err, "harness:") {
			ok2, sig2, what2 := c07Monitor(c, *impl.Drv)
			switch {
			case okI && impl.Err == "" && !ok2:
				okI, sig, what = false, sig2, what2+" (read through migrate.FileStmts with the "+c.Dialect+" driver, as the executor does)"
			}
		}
		// model: atlas / golang-migrate / flyway
		same := true
		diff := ""
		var model c07Out
		kind := ""
		switch c.Formatter {
		case "atlas":
			kind = "atlas"
		case "atlas-checkpoint":
			kind = "atlas-checkpoint"
		case "golang-migrate", "flyway":
			kind = "up"
		}
		if kind != "" && !strings.HasPrefix(impl.Err, "harness:") {
			var raw map[string]any
			raw, err := pool.Ask(map[string]any{"op": "fmt", "kind": kind, "opts": lo, "plan": c.modelPlan()})
			if err != nil {
				e.Res.Note("model error: %v", err)
				return
			}
			model.File, _ = raw["file"].(string)
			if s, ok := raw["err"].(string); ok {
				model.Err = "scan"
				if s == "format" {
					model.Err = "format"
				}
			}
			model.Stmts = anyList(raw["stmts"])
			if model.Err != "" {
				model.Stmts = nil
			}
			if impl.File != model.File {
				same, diff = false, "file bytes differ"
			} else if impl.Err != model.Err || hxJSON(impl.Stmts) != hxJSON(model.Stmts) {
				same, diff = false, fmt.Sprintf("statements differ: impl err=%q n=%d, model err=%q n=%d", impl.Err, len(impl.Stmts), model.Err, len(model.Stmts))
			}
			if !same {
				e.Res.Disagree()
			}
		}
		replay := map[string]any{"case": c, "impl": impl, "model": model}
		switch {
		case !okI:
			e.Res.Violate("failing-input", sig, what, "Props.C07 / corr fmt", replay)
		case !same:
			e.Res.Violate("no-failing-input-found", "corr-fmt-mismatch", fmt.Sprintf("%s/%s: %s", c.Dialect, c.Formatter, diff), "correspondence Atlas.Format + Atlas.Lex", replay)
		}
	})
	return nil
}
