package main

import (
	"context"
	"database/sql"
	"errors"
	"fmt"
	"sort"
	"strings"

	"ariga.io/atlas/sql/migrate"
	"ariga.io/atlas/sql/mysql"
	"verifharness/internal/hx"
)

// c11MyClean: the first-run gate of the MySQL family through the REAL driver on the in-memory stand-in, for a
// connection bound to NO database (the whole server is managed) and for one bound to a database. With no
// recorded revision the run starts only on a server that holds nothing but - possibly - the revision table in
// its own database: every other database, also an empty one, is something the directory did not create.
func c11MyClean(e *Env, pool *hx.Pool) {
	ctx := context.Background()
	type srv struct {
		name  string
		setup []string
	}
	rt := migrate.TableIdent{Name: "atlas_schema_revisions", Schema: "atlas_schema_revisions"}
	srvs := []srv{
		{"nothing", nil},
		{"an empty database", []string{"CREATE DATABASE `app`"}},
		{"two empty databases", []string{"CREATE DATABASE `app`", "CREATE DATABASE `shop`"}},
		{"a database with a table", []string{"CREATE DATABASE `app`", "CREATE TABLE `app`.`users` (`id` int)"}},
		{"a database with two tables", []string{"CREATE DATABASE `app`", "CREATE TABLE `app`.`users` (`id` int)", "CREATE TABLE `app`.`posts` (`id` int)"}},
	}
	for _, bound := range []string{"", "app"} {
		for _, rev := range []int{0, 1, 2, 3} { // revision database: absent / empty / with the table / with the table and another one
			for _, d := range srvs {
				if bound != "" && len(d.setup) == 0 {
					continue
				}
				f := newFakeMySQL("")
				f.bound = bound
				conn := sql.OpenDB(f)
				for _, s := range d.setup {
					conn.Exec(s)
				}
				if rev >= 1 {
					conn.Exec("CREATE DATABASE `" + rt.Schema + "`")
				}
				if rev >= 2 {
					conn.Exec("CREATE TABLE `" + rt.Schema + "`.`" + rt.Name + "` (`id` int)")
				}
				if rev >= 3 {
					conn.Exec("CREATE TABLE `" + rt.Schema + "`.`other` (`id` int)")
				}
				f.Execs, f.Unknown = nil, nil
				// the oracle
				f.mu.Lock()
				per := map[string][]string{}
				for n := range f.dbs {
					per[n] = nil
				}
				for t := range f.tables {
					p := strings.SplitN(t, ".", 2)
					per[p[0]] = append(per[p[0]], p[1])
				}
				f.mu.Unlock()
				clean := true
				if bound == "" {
					for n, ts := range per {
						if n != rt.Schema || len(ts) > 1 || len(ts) == 1 && ts[0] != rt.Name {
							clean = false
						}
					}
				} else {
					// a bound connection sees its own database only: clean when it holds no table (the revision
					// table lives elsewhere here)
					clean = len(per[bound]) == 0
				}
				var names []string
				for n := range per {
					names = append(names, n)
				}
				sort.Strings(names)
				// the Lean model of the gate (Atlas.Clean, characterised by Props.C11.gate_mysql / gate_bound) on the same state
				var mschemas []map[string]any
				for _, n := range names {
					if bound != "" && n != bound {
						continue
					}
					ts := append([]string{}, per[n]...)
					sort.Strings(ts)
					mschemas = append(mschemas, map[string]any{"name": n, "tables": ts})
				}
				var mans struct {
					Clean bool `json:"clean"`
				}
				if err := pool.AskInto(map[string]any{"op": "clean.check", "dialect": "mysql", "bound": bound != "", "schemas": mschemas, "rev_schema": rt.Schema, "rev_table": rt.Name}, &mans); err != nil {
					e.Res.Violate("no-failing-input-found", "model-error", err.Error(), "model", nil)
					return
				}
				if mans.Clean != clean {
					e.Res.Disagree()
					e.Res.Violate("no-failing-input-found", "corr-clean-model-mismatch", fmt.Sprintf("mysql (bound %q) %v: the Lean gate says clean=%v, the harness oracle %v", bound, mschemas, mans.Clean, clean), "correspondence Atlas.Clean", nil)
				}
				id := fmt.Sprintf("mysql first run (bound to %q): server holds %s; revision database state %d", bound, d.name, rev)
				rep := map[string]any{"case": id, "setup": d.setup, "databases": names}
				e.Res.Count("mysql-clean/"+id, !clean, "mysql-first-run-gate", fmt.Sprintf("mysql-clean:%v", clean))
				drv, err := mysql.Open(conn)
				if err != nil {
					e.Res.Violate("no-failing-input-found", "fakemysql-open-fails", fmt.Sprintf("%s: mysql.Open on the stand-in fails: %v", id, err), "correspondence C11 mysql", rep)
					conn.Close()
					return
				}
				cerr := drv.(migrate.CleanChecker).CheckClean(ctx, &rt)
				var nc *migrate.NotCleanError
				switch {
				case cerr != nil && !errors.As(cerr, &nc):
					e.Res.Violate("no-failing-input-found", "fakemysql-inspect-fails", fmt.Sprintf("%s: CheckClean fails otherwise: %v (unknown: %v)", id, cerr, f.Unknown), "correspondence C11 mysql", rep)
				case clean != (cerr == nil):
					e.Res.Violate("failing-input", "first-run-gate-wrong", fmt.Sprintf("%s: the server is clean: %v, CheckClean says: %v", id, clean, cerr), "Props.C11 first-run gate (MySQL)", rep)
				}
				dir := &migrate.MemDir{}
				dir.WriteFile("1_init.sql", []byte("CREATE TABLE t (id int);\n"))
				sum, _ := dir.Checksum()
				migrate.WriteSumFile(dir, sum)
				if ex, xerr := migrate.NewExecutor(drv, dir, pgIdentRRW{id: rt}); xerr == nil {
					_, perr := ex.Pending(ctx)
					refused := errors.As(perr, &nc)
					if refused == clean {
						e.Res.Violate("failing-input", "first-run-gate-wrong", fmt.Sprintf("%s: the server is clean: %v, Executor.Pending (first run, no --allow-dirty / --baseline) returns: %v", id, clean, perr), "Props.C11 first-run gate (MySQL)", rep)
					}
				}
				if len(f.Execs) > 0 {
					e.Res.Violate("failing-input", "first-run-gate-writes", fmt.Sprintf("%s: the gate wrote to the server: %v", id, f.Execs), "Props.C11 first-run gate (MySQL)", rep)
				}
				conn.Close()
			}
		}
	}
}
