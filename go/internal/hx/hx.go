// Package hx holds what every correspondence sub-command shares: the client of the Lean model
// process (JSON lines), a seeded PRNG, result/evidence bookkeeping and replay files.
package hx

import (
	"bufio"
	"encoding/json"
	"fmt"
	"io"
	"os"
	"os/exec"
	"path/filepath"
	"sort"
	"sync"
)

// Model is a running `atlasmodel` process.
type Model struct {
	cmd *exec.Cmd
	in  io.WriteCloser
	out *bufio.Reader
	mu  sync.Mutex
	n   int
}

// StartModel starts the compiled Lean driver.
func StartModel(path string) (*Model, error) {
	cmd := exec.Command(path)
	in, err := cmd.StdinPipe()
	if err != nil {
		return nil, err
	}
	out, err := cmd.StdoutPipe()
	if err != nil {
		return nil, err
	}
	cmd.Stderr = os.Stderr
	if err := cmd.Start(); err != nil {
		return nil, err
	}
	return &Model{cmd: cmd, in: in, out: bufio.NewReaderSize(out, 1<<20)}, nil
}

// Ask sends one request and decodes the answer into a generic map.
func (m *Model) Ask(req any) (map[string]any, error) {
	b, err := json.Marshal(req)
	if err != nil {
		return nil, err
	}
	m.mu.Lock()
	defer m.mu.Unlock()
	m.n++
	if _, err := m.in.Write(append(b, '\n')); err != nil {
		return nil, fmt.Errorf("model write: %w", err)
	}
	line, err := m.out.ReadBytes('\n')
	if err != nil {
		return nil, fmt.Errorf("model read (request %s): %w", trunc(string(b), 300), err)
	}
	var ans map[string]any
	if err := json.Unmarshal(line, &ans); err != nil {
		return nil, fmt.Errorf("model answer %q: %w", trunc(string(line), 300), err)
	}
	return ans, nil
}

// AskInto is Ask with a typed answer.
func (m *Model) AskInto(req any, ans any) error {
	b, err := json.Marshal(req)
	if err != nil {
		return err
	}
	m.mu.Lock()
	defer m.mu.Unlock()
	m.n++
	if _, err := m.in.Write(append(b, '\n')); err != nil {
		return fmt.Errorf("model write: %w", err)
	}
	line, err := m.out.ReadBytes('\n')
	if err != nil {
		return fmt.Errorf("model read (request %s): %w", trunc(string(b), 300), err)
	}
	if err := json.Unmarshal(line, ans); err != nil {
		return fmt.Errorf("model answer %q: %w", trunc(string(line), 300), err)
	}
	return nil
}

// Close terminates the model process.
func (m *Model) Close() {
	m.in.Close()
	m.cmd.Wait()
}

// Pool is a set of model processes for parallel correspondence runs.
type Pool struct {
	ms []*Model
	ch chan *Model
}

// NewPool starts n model processes.
func NewPool(path string, n int) (*Pool, error) {
	p := &Pool{ch: make(chan *Model, n)}
	for i := 0; i < n; i++ {
		m, err := StartModel(path)
		if err != nil {
			return nil, err
		}
		p.ms = append(p.ms, m)
		p.ch <- m
	}
	return p, nil
}

// Ask uses any free model process.
func (p *Pool) Ask(req any) (map[string]any, error) {
	m := <-p.ch
	defer func() { p.ch <- m }()
	return m.Ask(req)
}

// AskInto uses any free model process.
func (p *Pool) AskInto(req, ans any) error {
	m := <-p.ch
	defer func() { p.ch <- m }()
	return m.AskInto(req, ans)
}

// Close all.
func (p *Pool) Close() {
	for _, m := range p.ms {
		m.Close()
	}
}

func trunc(s string, n int) string {
	if len(s) > n {
		return s[:n] + "…"
	}
	return s
}

// Rand is a splitmix64 PRNG: every random choice of a run derives from one seed.
type Rand struct{ s uint64 }

// NewRand returns a generator for the seed and a stream label.
func NewRand(seed uint64, stream string) *Rand {
	r := &Rand{s: seed*0x9E3779B97F4A7C15 + 0x1234567}
	for _, c := range []byte(stream) {
		r.s = (r.s ^ uint64(c)) * 0x100000001B3
	}
	r.Uint64()
	return r
}

// Uint64 next value.
func (r *Rand) Uint64() uint64 {
	r.s += 0x9E3779B97F4A7C15
	z := r.s
	z = (z ^ (z >> 30)) * 0xBF58476D1CE4E5B9
	z = (z ^ (z >> 27)) * 0x94D049BB133111EB
	return z ^ (z >> 31)
}

// Intn in [0,n).
func (r *Rand) Intn(n int) int {
	if n <= 0 {
		return 0
	}
	return int(r.Uint64() % uint64(n))
}

// Bool with probability num/den.
func (r *Rand) Chance(num, den int) bool { return r.Intn(den) < num }

// Fork derives an independent stream.
func (r *Rand) Fork(label string) *Rand { return NewRand(r.Uint64(), label) }

// Pick returns a random element.
func Pick[T any](r *Rand, xs []T) T { return xs[r.Intn(len(xs))] }

// Shuffle in place.
func Shuffle[T any](r *Rand, xs []T) {
	for i := len(xs) - 1; i > 0; i-- {
		j := r.Intn(i + 1)
		xs[i], xs[j] = xs[j], xs[i]
	}
}

// Violation is one property failure (or unexplained disagreement) found by a run.
type Violation struct {
	Kind      string `json:"kind"` // "failing-input" | "no-failing-input-found"
	Signature string `json:"signature"`
	What      string `json:"what"`
	Replay    string `json:"replay"`
	Check     string `json:"theorem_or_corr"`
}

// Result is what a corr sub-command hands back to the check driver.
type Result struct {
	Property      string         `json:"property"`
	Evaluations   int            `json:"evaluations"`
	Distinct      int            `json:"distinct_nontrivial"`
	Rule          string         `json:"rule"`
	Exhaustive    bool           `json:"exhaustive"`
	Samples       []any          `json:"samples"`
	Hist          map[string]int `json:"histogram"`
	Disagreements int            `json:"disagreements_checked"`
	Violations    []Violation    `json:"violations"`
	Notes         []string       `json:"notes"`
	mu            sync.Mutex
	distinct      map[string]struct{}
	replayDir     string
	nReplay       int
}

// NewResult prepares a result that writes replays under dir.
func NewResult(prop, replayDir string) *Result {
	os.MkdirAll(replayDir, 0o755)
	return &Result{Property: prop, Hist: map[string]int{}, distinct: map[string]struct{}{}, replayDir: replayDir}
}

// Count one evaluated case; key identifies it for distinctness, nontrivial says whether it counts.
func (r *Result) Count(key string, nontrivial bool, tags ...string) {
	r.mu.Lock()
	defer r.mu.Unlock()
	r.Evaluations++
	if nontrivial {
		if _, ok := r.distinct[key]; !ok {
			r.distinct[key] = struct{}{}
			r.Distinct++
		}
	}
	for _, t := range tags {
		r.Hist[t]++
	}
}

// Tag increments histogram tags only.
func (r *Result) Tag(tags ...string) {
	r.mu.Lock()
	defer r.mu.Unlock()
	for _, t := range tags {
		r.Hist[t]++
	}
}

// Sample keeps up to max samples.
func (r *Result) Sample(s any, max int) {
	r.mu.Lock()
	defer r.mu.Unlock()
	if len(r.Samples) < max {
		r.Samples = append(r.Samples, s)
	}
}

// Note adds a free-text note.
func (r *Result) Note(format string, a ...any) {
	r.mu.Lock()
	defer r.mu.Unlock()
	r.Notes = append(r.Notes, fmt.Sprintf(format, a...))
}

// Disagree counts a model/implementation disagreement that was examined.
func (r *Result) Disagree() {
	r.mu.Lock()
	defer r.mu.Unlock()
	r.Disagreements++
}

// Violate records a violation and writes its replay file. Only the first few per signature are kept.
func (r *Result) Violate(kind, signature, what, check string, replay any) {
	r.mu.Lock()
	defer r.mu.Unlock()
	n := 0
	for _, v := range r.Violations {
		if v.Signature == signature {
			n++
		}
	}
	if n >= 3 {
		r.Hist["violation-dup:"+signature]++
		return
	}
	r.nReplay++
	path := filepath.Join(r.replayDir, fmt.Sprintf("%s-%03d.json", r.Property, r.nReplay))
	doc := map[string]any{
		"property": r.Property, "kind": kind, "signature": signature, "what": what,
		"theorem_or_corr": check, "case": replay,
		"how_to_replay": fmt.Sprintf("./check %s --replay %s", r.Property, path),
	}
	b, _ := json.MarshalIndent(doc, "", " ")
	os.WriteFile(path, b, 0o644)
	r.Violations = append(r.Violations, Violation{Kind: kind, Signature: signature, What: what, Replay: path, Check: check})
}

// Write the result file.
func (r *Result) Write(path string) error {
	r.mu.Lock()
	defer r.mu.Unlock()
	if r.Samples == nil {
		r.Samples = []any{}
	}
	if r.Violations == nil {
		r.Violations = []Violation{}
	}
	sort.Strings(r.Notes)
	b, err := json.MarshalIndent(r, "", " ")
	if err != nil {
		return err
	}
	return os.WriteFile(path, b, 0o644)
}

// JSON renders v compactly (for keys and messages).
func JSON(v any) string {
	b, _ := json.Marshal(v)
	return string(b)
}
