module verifharness

go 1.22.12

require ariga.io/atlas v0.0.0

replace ariga.io/atlas => /repo
