/-
Model of plan reversal (sql/*/migrate*.go: the Reverse each planned statement carries;
sql/internal/sqlx/plan.go: SetReversible; sql/migrate/migrate.go: Change.ReverseStmts): the SQLite
planner's reversible statement kinds with their reverses, an abstract database they act on, running
a plan up, and running the reverse statements of its changes in reverse order.
-/
namespace Atlas.Reverse

/-- a table: its columns (storage order) and its set of indexes (characteristic function). -/
structure TDef where
  cols : List Nat
  idxs : Nat → Bool

/-- the database: table name ↦ definition. -/
abbrev Db := Nat → Option TDef

def Db.set (s : Db) (n : Nat) (d : Option TDef) : Db := fun m => if m = n then d else s m

/-- elementary statements (what a Cmd or a Reverse can be). -/
inductive Stmt
  | createTable (n : Nat) (d : TDef)
  | dropTable (n : Nat)
  | addColumn (n c : Nat)
  | dropColumn (n c : Nat)
  | createIndex (n i : Nat)
  | dropIndex (n i : Nat)
  | rebuild (n : Nat) (d : TDef)    -- any statement of the CREATE new_T / INSERT / DROP / RENAME procedure (as a whole)

def exec (s : Db) : Stmt → Db
  | .createTable n d => s.set n (some d)
  | .dropTable n => s.set n none
  | .addColumn n c => match s n with | some d => s.set n (some { d with cols := d.cols ++ [c] }) | none => s
  | .dropColumn n c => match s n with | some d => s.set n (some { d with cols := d.cols.filter (· != c) }) | none => s
  | .createIndex n i => match s n with | some d => s.set n (some { d with idxs := fun j => j == i || d.idxs j }) | none => s
  | .dropIndex n i => match s n with | some d => s.set n (some { d with idxs := fun j => j != i && d.idxs j }) | none => s
  | .rebuild n d => s.set n (some d)

/-- a planned change: its statement and its reverse statements (empty = irreversible). -/
structure Change where
  cmd : Stmt
  reverse : List Stmt

/-- the reverse the SQLite planner attaches; `old` = the table as the plan knows it (drop.T): the
reverse of DROP TABLE is CREATE TABLE followed by CREATE INDEX for each of its indexes, modelled as
one statement that restores the definition with its indexes. -/
def plannerReverse (old : Option TDef) : Stmt → List Stmt
  | .createTable n _ => [.dropTable n]
  | .dropTable n => match old with
      | some d => [Stmt.createTable n d]
      | none => []
  | .addColumn n c => [.dropColumn n c]
  | .createIndex n i => [.dropIndex n i]
  | .dropIndex n i => [.createIndex n i]
  | .dropColumn _ _ => []
  | .rebuild _ _ => []

/-- `SetReversible`. -/
def reversible (p : List Change) : Bool := p.all (fun c => !c.reverse.isEmpty)

def up (s : Db) (p : List Change) : Db := p.foldl (fun s c => exec s c.cmd) s

/-- the reverse statements of the changes in reverse order (each change's statements in order). -/
def downStmts (p : List Change) : List Stmt := p.reverse.flatMap (·.reverse)

def down (s : Db) (p : List Change) : Db := (downStmts p).foldl exec s

end Atlas.Reverse

/-! ### one ALTER TABLE statement built from several changes (MySQL / PostgreSQL `alterTable`)

The planner folds a `reversible` flag over the changes of one `ModifyTable`: the statement carries a
reverse exactly when every change in it can be inverted (`inv c`; e.g. an added CHECK whose name
the server generates cannot). -/
namespace Atlas.Reverse

/-- the loop of `alterTable`: `reversible = reversible && inv c` for every change. -/
def alterFlag (inv : α → Bool) (cs : List α) : Bool := cs.foldl (fun r c => r && inv c) true

/-- the change kinds of one ALTER TABLE statement as far as reversibility goes (sql/mysql/migrate_oss.go and
sql/postgres/migrate_oss.go, `alterTable`). -/
inductive AlterCh
  | addCheck (named : Bool)          -- ADD CHECK / ADD CONSTRAINT name CHECK
  | modifyColumn (generated : Bool)  -- ModifyColumn; `generated` = the ChangeGenerated bit is set
  | other                            -- every other change of the statement
deriving DecidableEq, Repr, Inhabited

/-- whether the planner can write the reverse of the change: a check it cannot name cannot be dropped again; the
PostgreSQL planner cannot restore a dropped generation expression. -/
def alterInv (pg : Bool) : AlterCh → Bool
  | .addCheck named => named
  | .modifyColumn g => !(pg && g)
  | .other => true

end Atlas.Reverse
