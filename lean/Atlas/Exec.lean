/-
Model of `(*Executor).Execute`, `exec`, `ExecuteN` (sql/migrate/migrate.go) over an explicit world:
the statements the driver really executed, the persisted revision table, and a fault schedule that can
make any `ExecContext` or `WriteRevision` call fail.

Every index/slice expression of the Go code whose bounds are not established by a preceding test is
modelled with an explicit check that yields `Res.panic`; the theorems of Props/C12 and Props/C09 show
that outcome unreachable.
-/
import Atlas.Pending

namespace Atlas.Exec
open Atlas

/-- What the database side looks like to an observer. -/
structure World where
  /-- successfully executed statements, in order (the effect on the database). -/
  journal : List Text := []
  /-- every `ExecContext` call the driver saw, failing ones included. -/
  calls : List Text := []
  /-- persisted revisions, sorted by version (what `ReadRevisions` returns). -/
  revs : List Revision := []
  /-- number of fault-eligible operations performed so far in this attempt. -/
  tick : Nat := 0
  /-- operation indices (values of `tick`) that fail. -/
  faults : List Nat := []
  /-- ghost counter (not observable, used by the C09 theorems only): failed revision writes so far. -/
  wfails : Nat := 0
deriving Repr, Inhabited

/-- outcome of one `Execute`. -/
inductive Res
  | ok
  | writeRev                 -- a WriteRevisionError (possibly joined onto nil)
  | stmt (deferredWriteFailed : Bool)  -- StmtExecError (joined with a failed deferred write or not)
  | historyChanged (stmt : Nat) (deferredWriteFailed : Bool)
  | panic
deriving Repr, DecidableEq, Inhabited

/-- consume one operation index; `true` = this operation fails. -/
def World.op (w : World) : World × Bool :=
  ({ w with tick := w.tick + 1 }, w.faults.contains w.tick)

/-- insert or replace by version, keeping the list sorted by version. -/
def upsert (r : Revision) : List Revision → List Revision
  | [] => [r]
  | x :: xs =>
    if x.version == r.version then r :: xs
    else if r.version < x.version then r :: x :: xs
    else x :: upsert r xs

def findRev (v : String) (revs : List Revision) : Option Revision := revs.find? (·.version == v)

/-- `e.writeRevision`: `true` = failed with WriteRevisionError. -/
def writeRevision (w : World) (r : Revision) : World × Bool :=
  let (w, fail) := w.op
  if fail then ({ w with wfails := w.wfails + 1 }, true) else ({ w with revs := upsert r w.revs }, false)

/-- `sums[i]` of `Execute`: cumulative hash of the statement texts. -/
def sums (H : Text → String) (stmts : List Text) : List String :=
  (List.range stmts.length).map (fun i => H (stmts.take (i + 1)).flatten)

/-- The hash-check loop of `Execute`. `fixed = false` is the comparison `i > len(sums)` of the
pinned commit, `fixed = true` the repaired `i >= len(sums)` (`fixed` also selects the second repair,
the re-synchronisation of `Revision.Total`, in `execute`). Returns `none` when all applied
statements match, `some (inl i)` for HistoryChanged at 0-based `i`, `some (inr ())` for an index
panic. -/
def checkLoop (fixed : Bool) (sums partials : List String) (applied : Nat) :
    Nat → Nat → Option (Sum Nat Unit)
  | 0, _ => none
  | fuel + 1, i =>
    if i < applied then
      let outOfRange := if fixed then i ≥ sums.length else i > sums.length
      if outOfRange then some (.inl i)
      else if i ≥ sums.length then some (.inr ())        -- sums[i] panics
      else if i ≥ partials.length then some (.inr ())    -- r.PartialHashes[i] panics
      else if sums[i]?.getD "" != partials[i]?.getD "" then some (.inl i)
      else checkLoop fixed sums partials applied fuel (i + 1)
    else none

/-- `e.drv.ExecContext(ctx, stmt.Text)`: the call is always seen, the effect only on success;
`true` = the statement failed. -/
def execStmt (w : World) (s : Text) : World × Bool :=
  let (w, fail) := w.op
  let w := { w with calls := w.calls ++ [s] }
  if fail then (w, true) else ({ w with journal := w.journal ++ [s] }, false)

/-- the bookkeeping after a successful statement: record its hash, count it, clear a stale error. -/
def bump (sums : List String) (r : Revision) : Revision :=
  { r with partialHashes := r.partialHashes ++ [sums[r.applied]?.getD ""],
           applied := r.applied + 1, error := "", errorStmt := [] }

/-- The statement loop `for _, stmt := range stmts[r.Applied:]`. -/
def stmtLoop (sums : List String) : List Text → World → Revision → World × Revision × Res
  | [], w, r => (w, r, .ok)
  | s :: rest, w, r =>
    match execStmt w s with
    | (w, true) => (w, { r with errorStmt := s, error := "exec" }, .stmt false)
    | (w, false) =>
      match writeRevision w (bump sums r) with
      | (w, true) => (w, bump sums r, .writeRev)
      | (w, false) => stmtLoop sums rest w (bump sums r)

/-- the deferred `writeRevision` of `Execute` for results that are not a WriteRevisionError. -/
def deferred (w : World) (r : Revision) (res : Res) : World × Res :=
  match res with
  | .writeRev => (w, res)
  | .panic => (w, res)
  | .ok => let (w, f) := writeRevision w r; (w, if f then .writeRev else .ok)
  | .stmt _ => let (w, f) := writeRevision w r; (w, .stmt f)
  | .historyChanged i _ => let (w, f) := writeRevision w r; (w, .historyChanged i f)

/-- `e.rrw.ReadRevision(version)` or, if it does not exist, the fresh revision `Execute` creates. -/
def loadRev (w : World) (m : MFile) : Revision :=
  match findRev m.version w.revs with
  | some r => r
  | none => { version := m.version, desc := m.desc, typ := 2, total := m.stmts.length, hash := m.hash }

/-- `Execute` from the statement loop on (hash check passed): the slice `stmts[r.Applied:]`, the
loop, and the deferred final write. -/
def runStmts (fixed : Bool) (H : Text → String) (w : World) (m : MFile) (r : Revision) : World × Res :=
  if r.applied > m.stmts.length then (w, .panic)      -- stmts[r.Applied:] out of range
  else
    -- second repair: `r.Total = len(stmts)` and `r.Hash = hash` (the file's current hash) once the
    -- applied prefix is known to be unchanged
    let r := if fixed then { r with total := m.stmts.length, hash := m.hash } else r
    match stmtLoop (sums H m.stmts) (m.stmts.drop r.applied) w r with
    | (w, r, .ok) => deferred w { r with partialHashes := [] } .ok
    | (w, r, res) => deferred w r res

/-- `Execute` after the "mark as started" write succeeded: the hash check of the applied part. -/
def afterStart (fixed : Bool) (H : Text → String) (w : World) (m : MFile) (r : Revision) : World × Res :=
  match (if r.applied > 0 then checkLoop fixed (sums H m.stmts) r.partialHashes r.applied (r.applied + 1) 0
         else none) with
  | some (.inr ()) => (w, .panic)
  | some (.inl i) => deferred w r (.historyChanged (i + 1) false)
  | none => runStmts fixed H w m r

/-- `(*Executor).Execute` from the point where the revision `r` is in hand. -/
def executeFrom (fixed : Bool) (H : Text → String) (w : World) (m : MFile) (r : Revision) : World × Res :=
  match writeRevision w r with
  | (w, true) => (w, .writeRev)
  | (w, false) => afterStart fixed H w m r

/-- `(*Executor).Execute`. -/
def execute (fixed : Bool) (H : Text → String) (w : World) (m : MFile) : World × Res :=
  executeFrom fixed H w m (loadRev w m)

/-- `(*Executor).exec`: files in order, stop at the first error. -/
def execFiles (fixed : Bool) (H : Text → String) : List MFile → World → World × Res
  | [], w => (w, .ok)
  | m :: ms, w =>
    match execute fixed H w m with
    | (w, .ok) => execFiles fixed H ms w
    | (w, res) => (w, res)

inductive Outcome
  | done (r : Res)
  | pendErr (e : Pending.Err)
  | baselineWriteErr
deriving Repr

/-- `(*Executor).ExecuteN` (n = 0: all pending files). -/
def executeN (fixed : Bool) (H : Text → String) (cfg : Pending.Cfg) (dir : List MFile) (n : Nat)
    (w : World) : World × Outcome :=
  let p := Pending.pending cfg dir w.revs
  let (w, bfail) := match p.baselineWrite with
    | some r => writeRevision w r
    | none => (w, false)
  if bfail then (w, .baselineWriteErr) else
  match p.out with
  | .error e => (w, .pendErr e)
  | .ok files =>
    let files := if n > 0 then files.take n else files
    let (w, r) := execFiles fixed H files w
    (w, .done r)

/-- A sequence of attempts, each with its own fault schedule (operation indices restart at 0). -/
def attempts (fixed : Bool) (H : Text → String) (cfg : Pending.Cfg) (dir : List MFile) (n : Nat) :
    List (List Nat) → World → World × List Outcome
  | [], w => (w, [])
  | fs :: rest, w =>
    let (w, o) := executeN fixed H cfg dir n { w with tick := 0, faults := fs }
    let (w, os) := attempts fixed H cfg dir n rest w
    (w, o :: os)

end Atlas.Exec
