/-
Model of the plan formatters: `migrate.DefaultFormatter` (sql/migrate/dir.go: the content template,
`directives`, `delim`) and the up/down templates of sql/sqltool/tool.go (golang-migrate, flyway, goose,
dbmate; `rev`, `ReverseStmts`). Text templates are modelled as the byte strings they print.
-/
import Atlas.Lex

namespace Atlas.Format
open Atlas

structure Change where
  cmd : Bytes
  comment : Bytes := []
  /-- `Change.ReverseStmts()` (empty: no reverse). -/
  reverse : List Bytes := []
deriving Repr, DecidableEq, Inhabited

structure Plan where
  delimiter : Bytes := []
  directives : List Bytes := []
  changes : List Change := []
deriving Repr, DecidableEq, Inhabited

/-- `strings.NewReplacer("\n", `\n`, "\r", `\r`, "\t", `\t`).Replace` -/
def escapeDelim : Bytes → Bytes
  | 0x0a :: r => 0x5c :: 0x6e :: escapeDelim r
  | 0x0d :: r => 0x5c :: 0x72 :: escapeDelim r
  | 0x09 :: r => 0x5c :: 0x74 :: escapeDelim r
  | b :: r => b :: escapeDelim r
  | [] => []

def delimHeader : Bytes :=
  Bytes.ascii ['-', '-', ' ', 'a', 't', 'l', 'a', 's', ':', 'd', 'e', 'l', 'i', 'm', 'i', 't', 'e', 'r', ' ']

/-- `delim(s)` -/
def delimLine (d : Bytes) : Bytes := delimHeader ++ escapeDelim d

def intercalate (sep : Bytes) : List Bytes → Bytes
  | [] => []
  | [x] => x
  | x :: xs => x ++ sep ++ intercalate sep xs

/-- `directives(p)`: `none` = error (invalid directive, or a delimiter directive next to p.Delimiter). -/
def directivesText (p : Plan) : Option Bytes :=
  let chk := p.directives.all (fun d =>
    match Hash.directive d with
    | none => false
    | some (_, name, _) => !(name == Bytes.ofString "delimiter" && !p.delimiter.isEmpty))
  if !chk then none
  else
    let ds := (if p.delimiter.isEmpty then [] else [delimLine p.delimiter]) ++ p.directives
    if ds.isEmpty then some [] else some (intercalate [0x0a] ds ++ [0x0a, 0x0a])

/-- `strings.ToUpper` of the one-byte string `slice . 0 1`. -/
def upper1 (b : UInt8) : Bytes :=
  if b ≥ 0x80 then [0xef, 0xbf, 0xbd] else [Lex.upper b]

/-- `{{ with .Comment }}{{ printf "-- %s%s\n" (slice . 0 1 | upper) (slice . 1) }}{{ end }}` -/
def atlasCommentLine : Bytes → Bytes
  | [] => []
  | b :: r => [0x2d, 0x2d, 0x20] ++ upper1 b ++ r ++ [0x0a]

/-- the delimiter the atlas formatter prints after every command: `(or $.Delimiter ";")`. -/
def effDelim (p : Plan) : Bytes := if p.delimiter.isEmpty then [0x3b] else p.delimiter

/-- one change as printed by the DefaultFormatter. -/
def atlasUnit (p : Plan) (c : Change) : Bytes :=
  atlasCommentLine c.comment ++ c.cmd ++ effDelim p ++ [0x0a]

/-- `DefaultFormatter` content. -/
def formatAtlas (p : Plan) : Option Bytes :=
  (directivesText p).map (fun h => h ++ p.changes.flatMap (atlasUnit p))

/-! ### checkpoint files: `LocalFile.AddDirective` on a formatted file -/

def isCommentStart : Bytes → Bool
  | 0x23 :: _ => true
  | 0x2d :: 0x2d :: _ => true
  | _ => false

/-- the content after the first line break, `none` without one. -/
def dropLine? (f : Bytes) : Option Bytes :=
  let first := f.takeWhile (· != 0x0a)
  if first.length < f.length then some (f.drop (first.length + 1)) else none

/-- the loop of `LocalFile.comments()`: leading `#` / `--` lines are collected; they count as file
comments only when a blank line (or the end of the file) follows them. `n` = lines collected so far. -/
def fileComments : Nat → Bytes → Nat → Bool
  | 0, _, _ => false
  | fuel + 1, content, n =>
    if isCommentStart content then
      match dropLine? content with
      | none => true            -- comments-only file
      | some rest => fileComments fuel rest (n + 1)
    else
      let t := content.dropWhile (fun b => b == 0x20 || b == 0x09)
      if !(t.head? == some 0x0a) && !content.isEmpty then false else decide (n > 0)

/-- `len(f.comments()) != 0`. -/
def startsWithComment (f : Bytes) : Bool := fileComments (f.length + 1) f 0

def delimiterName : Bytes := Bytes.ascii ['d', 'e', 'l', 'i', 'm', 'i', 't', 'e', 'r']
def checkpointName : Bytes := Bytes.ascii ['c', 'h', 'e', 'c', 'k', 'p', 'o', 'i', 'n', 't']

/-- does the file start with the `-- atlas:delimiter` directive (`directive(content, "delimiter", "-- ")`)? -/
def hasDelimHeader (f : Bytes) : Bool :=
  match Hash.directive f with
  | some (pre, name, _) => name == delimiterName && pre == [0x2d, 0x2d, 0x20]
  | none => false

/-- `LocalFile.AddDirective(name)` without arguments. `fixed = false` is the pinned commit (the new
directive is always put in front, also in front of a delimiter directive, which the scanner then no
longer sees); the repaired tree keeps the delimiter directive on the first line. -/
def addDirective (fixed : Bool) (name : Bytes) (f : Bytes) : Bytes :=
  let line := [0x2d, 0x2d, 0x20] ++ Hash.atlasTag ++ name ++ [0x0a] ++ (if startsWithComment f then [] else [0x0a])
  let first := f.takeWhile (· != 0x0a)
  if fixed && hasDelimHeader f && name != delimiterName && first.length < f.length then
    first ++ [0x0a] ++ line ++ f.drop (first.length + 1)
  else line ++ f

/-- the checkpoint file `Planner.WriteCheckpoint` writes for a plan (no tag). -/
def formatCheckpoint (fixed : Bool) (p : Plan) : Option Bytes :=
  (formatAtlas p).map (addDirective fixed checkpointName)

/-- `{{ with .Comment }}-- {{ println . }}{{ end }}{{ printf "%s;\n" .Cmd }}` -/
def upUnit (c : Change) : Bytes :=
  (if c.comment.isEmpty then [] else [0x2d, 0x2d, 0x20] ++ c.comment ++ [0x0a]) ++ c.cmd ++ [0x3b, 0x0a]

/-- the up file of golang-migrate and flyway. -/
def formatUp (p : Plan) : Bytes := p.changes.flatMap upUnit

/-- `rev` of sqltool (swaps from both ends; the same as reversing). -/
def rev (cs : List Change) : List Change := cs.reverse

/-- one change of a down file: only changes that have reverse statements print anything. -/
def downUnit (c : Change) : Bytes :=
  if c.reverse.isEmpty then []
  else (if c.comment.isEmpty then [] else Bytes.ofString "-- reverse: " ++ c.comment ++ [0x0a]) ++
    c.reverse.flatMap (fun s => s ++ [0x3b, 0x0a])

/-- the down file of golang-migrate / flyway, and the down section of goose / dbmate. -/
def formatDown (p : Plan) : Bytes := (rev p.changes).flatMap downUnit

def formatGoose (p : Plan) : Bytes :=
  Bytes.ofString "-- +goose Up\n" ++ formatUp p ++ Bytes.ofString "\n-- +goose Down\n" ++ formatDown p

def formatDBMate (p : Plan) : Bytes :=
  Bytes.ofString "-- migrate:up\n" ++ formatUp p ++ Bytes.ofString "\n-- migrate:down\n" ++ formatDown p

/-- the statements the down file is meant to hold, in order. -/
def downStmts (p : Plan) : List Bytes := (rev p.changes).flatMap (·.reverse)

/-- write with the atlas formatter, read back with the scanner `o`. -/
def roundTripAtlas (o : Lex.Opts) (p : Plan) : Option (Sum Lex.Out (List Lex.Stmt)) :=
  (formatAtlas p).map (Lex.scan true o)

/-- write an up file, read back with `migrate.Stmts`. -/
def roundTripUp (p : Plan) : Sum Lex.Out (List Lex.Stmt) :=
  Lex.scan true { matchBeginAtomic := true, matchDollarQuote := true } (formatUp p)

end Atlas.Format
