/-
Model of `atlas migrate apply` at the level of database operations (cmd/atlas/internal/cmdapi:
`migrateApplyRun`, `tx.driverFor/modeFor/mayRollback/mayCommit/commit`, and the write order of
`(*Executor).Execute`): the command is a *plan* of operations (BEGIN / statement / revision upsert /
COMMIT / ROLLBACK) computed from the revision table it reads at start, and the database is a durable
state plus the working copy of an open transaction. A crash is "the first k operations happened, the
working copy is lost"; a failing statement is part of the directory (`ok = false`).

Abstractions (validated by the correspondence run, which compares this plan with the operation trace
of the real binary and the resulting states with an independent reader):
* files are numbered 0..n-1 in version order and the revision table holds rows for a prefix of them
  (linear histories; the general pending computation is `Atlas.Pending`, property C11);
* a statement's effect is one journal row `(file, index)`;
* hashes, timestamps, descriptions and error texts of revisions are not modelled (`err : Bool`).
-/
namespace Atlas.Tx

inductive Mode | file | all | none
deriving DecidableEq, Repr, Inhabited

/-- a migration file: one entry per statement (`true` = the statement succeeds) and its
`-- atlas:txmode` directive, if any. -/
structure TFile where
  ok : List Bool
  directive : Option Mode := none
deriving Repr, Inhabited, DecidableEq

/-- a row of `atlas_schema_revisions`. -/
structure Rev where
  applied : Nat
  total : Nat
  err : Bool
deriving DecidableEq, Repr, Inhabited

/-- database content: effects of the statements and the revision table (row i = file i). -/
structure Db where
  journal : List (Nat × Nat) := []
  revs : List Rev := []
deriving DecidableEq, Repr, Inhabited

def Db.setRev (d : Db) (f : Nat) (r : Rev) : Db :=
  { d with revs := if f < d.revs.length then d.revs.set f r else d.revs ++ [r] }

def Db.addStmt (d : Db) (f i : Nat) : Db := { d with journal := d.journal ++ [(f, i)] }

/-- durable state + working copy of the open transaction. -/
structure St where
  dur : Db
  work : Option Db := none
deriving DecidableEq, Repr, Inhabited

inductive Op
  | begin | commit | rollback
  | close                         -- connection closed with an open transaction (implicit rollback)
  | stmt (f i : Nat)              -- successful statement
  | fail (f i : Nat)              -- failing statement (no effect)
  | rev (f : Nat) (r : Rev)       -- revision upsert
  | locked (f : Nat)              -- write outside the open transaction: "database is locked"
deriving DecidableEq, Repr, Inhabited

/-- apply a write to the view the connection sees. -/
def St.write (s : St) (g : Db → Db) : St :=
  match s.work with
  | some w => { s with work := some (g w) }
  | none => { s with dur := g s.dur }

def applyOp (s : St) : Op → St
  | .begin => (match s.work with | some _ => s | none => { s with work := some s.dur })
  | .commit => (match s.work with | some w => { dur := w, work := none } | none => s)
  | .rollback => { s with work := none }
  | .close => { s with work := none }
  | .stmt f i => s.write (·.addStmt f i)
  | .rev f r => s.write (·.setRev f r)
  | .fail _ _ => s
  | .locked _ => s

def applyOps (s : St) (ops : List Op) : St := ops.foldl applyOp s

/-- what survives a process death: the durable state. -/
def St.crash (s : St) : Db := s.dur

/-- state of the database if the process dies after `k` operations of `ops`. -/
def crashAt (db : Db) (ops : List Op) (k : Nat) : Db := (applyOps { dur := db } (ops.take k)).crash

/-- state after the whole plan ran and the connection was closed. -/
def runAll (db : Db) (ops : List Op) : Db := (applyOps { dur := db } ops).crash

/-! ### `Executor.Execute`: operations of one file -/

/-- the statement loop from statement `i`: after every successful statement the revision is
upserted with `applied = i+1`; a failing statement ends the file with an error revision. -/
def stmtOps (fi total : Nat) : Nat → List Bool → List Op × Bool
  | _, [] => ([], true)
  | i, true :: rest =>
    let (ops, ok) := stmtOps fi total (i + 1) rest
    (Op.stmt fi i :: Op.rev fi ⟨i + 1, total, false⟩ :: ops, ok)
  | i, false :: _ => ([Op.fail fi i, Op.rev fi ⟨i, total, true⟩], false)

/-- the revision `Execute` starts from: the stored row, or a fresh one. -/
def startRev (db : Db) (fi : Nat) (f : TFile) : Rev :=
  (db.revs[fi]?).getD ⟨0, f.ok.length, false⟩

/-- operations of `Execute(file)`: initial upsert of the loaded revision, the statement loop from
`Applied`, the final (deferred) upsert. -/
def fileOps (db : Db) (fi : Nat) (f : TFile) : List Op × Bool :=
  let r := startRev db fi f
  let total := f.ok.length
  let (ops, ok) := stmtOps fi total r.applied (f.ok.drop r.applied)
  (Op.rev fi r :: ops ++ (if ok then [Op.rev fi ⟨total, total, false⟩] else []), ok)

/-! ### `migrateApplyRun` -/

structure Cfg where
  mode : Mode := .file
  /-- `false`: `tx.mayCommit` tests the global mode (pinned tree); `true`: the mode of the file. -/
  fixed : Bool := true
  count : Option Nat := none
  dryRun : Bool := false
deriving Repr, Inhabited

/-- `tx.modeFor`: `none` = error. -/
def modeFor (cfg : Cfg) (f : TFile) : Option Mode :=
  match f.directive with
  | none => some cfg.mode
  | some .all => none
  | some m => if m = cfg.mode then some cfg.mode else if cfg.mode = .all then none else some m

/-- the loop over the pending files; `txOpen` = `tx.tx != nil`. Returns the operations and whether
the command succeeded. -/
def planFiles (cfg : Cfg) (db : Db) : Bool → Nat → List TFile → List Op × Bool
  | txOpen, _, [] => (if txOpen then [Op.commit] else [], true)
  | txOpen, fi, f :: rest =>
    match modeFor cfg f with
    | none => (if txOpen then [Op.close] else [], false)
    | some .none =>
      if txOpen then ([Op.locked fi, Op.rollback], false)
      else
        let (ops, ok) := fileOps db fi f
        if ok then
          let (more, ok') := planFiles cfg db false (fi + 1) rest
          (ops ++ more, ok')
        else (ops, false)
    | some .file =>
      if txOpen then ([Op.close], false)
      else
        let (ops, ok) := fileOps db fi f
        if ok then
          let commitNow := if cfg.fixed then true else decide (cfg.mode = .file)
          let (more, ok') := planFiles cfg db (!commitNow) (fi + 1) rest
          (Op.begin :: ops ++ (if commitNow then [Op.commit] else []) ++ more, ok')
        else (Op.begin :: ops ++ [Op.rollback], false)
    | some .all =>
      let (ops, ok) := fileOps db fi f
      let pre := if txOpen then [] else [Op.begin]
      if ok then
        let (more, ok') := planFiles cfg db true (fi + 1) rest
        (pre ++ ops ++ more, ok')
      else (pre ++ ops ++ [Op.rollback], false)

/-- index of the first pending file (linear history): after the last revision, or the last revision's
file when it is only partially applied. -/
def pendingStart (db : Db) : Nat :=
  match db.revs.getLast? with
  | none => 0
  | some r => if r.applied < r.total then db.revs.length - 1 else db.revs.length

def limit (count : Option Nat) (l : List α) : List α :=
  match count with
  | none => l
  | some n => l.take n

/-- the whole command. -/
def plan (cfg : Cfg) (dir : List TFile) (db : Db) : List Op × Bool :=
  if cfg.dryRun then ([], true)
  else
    let start := pendingStart db
    planFiles cfg db false start (limit cfg.count (dir.drop start))

/-- `schema apply` (default tx mode): all statements of the plan in one transaction, rolled back on
the first error. -/
def schemaApplyOps : Nat → List Bool → List Op
  | _, [] => [Op.commit]
  | i, true :: rest => Op.stmt 0 i :: schemaApplyOps (i + 1) rest
  | i, false :: _ => [Op.fail 0 i, Op.rollback]

def schemaApply (stmts : List Bool) : List Op := Op.begin :: schemaApplyOps 0 stmts

end Atlas.Tx
