/-
Model of the destructive-change analysis of `migrate lint` on SQLite, from the per-statement change
lists to the diagnostics:
* `mergeTemp`  – sql/sqlite/sqlitecheck: the pass that recognises the table-rebuild procedure
  (CREATE new_T / INSERT / DROP T / RENAME new_T) and replaces it by one ModifyTable (repaired tree:
  the inspected AddTable is renamed only when the pattern matches; the pinned tree renamed it before
  the match was decided, which hid a later DROP TABLE of the unprefixed name);
* `tableSpan` / `colSpan` – sql/sqlcheck `File.loadSpans` (`= SpanAdded`, `|= SpanDropped`);
* `analyze` – sql/sqlcheck/destructive `Analyzer.Analyze` (DS102 table drops, DS103 column drops).
How the change lists are derived from real SQL (execute / inspect / diff on the dev database) is
validated by the correspondence run: the harness states which changes each generated statement makes.
-/
namespace Atlas.Lint

/-- table name: `news` leading "new_" prefixes in front of base name `base`. -/
structure TName where
  news : Nat
  base : Nat
deriving DecidableEq, Repr, Inhabited

/-- column with its VIRTUAL flag. -/
abbrev Col := Nat × Bool

inductive Ev
  | addTable (t : TName) (cols : List Col)
  | dropTable (t : TName) (cols : List Col)
  | addCol (t : TName) (c : Col)
  | dropCol (t : TName) (c : Col)
  | other
deriving DecidableEq, Repr, Inhabited

/-- the changes attributed to one statement. -/
abbrev Stmt := List Ev

def TName.trim (t : TName) : TName := { t with news := t.news - 1 }

/-- `TableDiff(prev, curr)` restricted to column adds and drops (by name). -/
def tableDiff (t : TName) (prev curr : List Col) : Stmt :=
  (prev.filter (fun c => !(curr.map (·.1)).contains c.1)).map (Ev.dropCol t) ++
  (curr.filter (fun c => !(prev.map (·.1)).contains c.1)).map (Ev.addCol t)

inductive MergeRes
  | merged (s : Stmt)
  | no
deriving Repr

/-- `modifyUsingTemp(c1, c2, c3)` followed by the construction of the combined change. -/
def tryMerge (c1 c2 c3 : Stmt) : MergeRes :=
  match c1, c2 with
  | [Ev.addTable t cols], [e2] =>
    if t.news = 0 ∨ c3.isEmpty then .no
    else
      let name := t.trim
      match e2 with
      | Ev.dropTable t2 prev =>
        if t2 = name then
          match c3 with
          | [Ev.dropTable a _, Ev.addTable b _] =>
            if a = t ∧ b = name then .merged (tableDiff name prev cols) else .no
          | _ => .no
        else .no
      | _ => .no
  | _, _ => .no

/-- the rebuild-detection pass over the statements of a file. -/
def mergeTemp : List Stmt → List Stmt
  | c1 :: x :: c2 :: c3 :: rest =>
    match tryMerge c1 c2 c3 with
    | .merged m => m :: mergeTemp rest
    | .no => c1 :: mergeTemp (x :: c2 :: c3 :: rest)
  | c :: rest => c :: mergeTemp rest
  | [] => []

inductive Span | unknown | added | dropped | temporary
deriving DecidableEq, Repr, Inhabited

/-- `state |= SpanDropped`. -/
def Span.drop : Span → Span
  | .unknown => .dropped
  | .added => .temporary
  | s => s

def tableStep (t : TName) (s : Span) : Ev → Span
  | .addTable t' _ => if t' = t then .added else s
  | .dropTable t' _ => if t' = t then s.drop else s
  | _ => s

def colStep (t : TName) (c : Nat) (s : Span) : Ev → Span
  | .addTable t' cols => if t' = t ∧ (cols.map (·.1)).contains c then .added else s
  | .addCol t' c' => if t' = t ∧ c'.1 = c then .added else s
  | .dropCol t' c' => if t' = t ∧ c'.1 = c then s.drop else s
  | _ => s

def tableSpan (evs : List Ev) (t : TName) : Span := evs.foldl (tableStep t) .unknown
def colSpan (evs : List Ev) (t : TName) (c : Nat) : Span := evs.foldl (colStep t c) .unknown

inductive Code | DS102 | DS103
deriving DecidableEq, Repr, Inhabited

/-- diagnostics of one statement, given all events of the file. -/
def stmtDiags (all : List Ev) (s : Stmt) : List Code :=
  (if s.any (fun e => match e with
      | .dropTable t _ => tableSpan all t != .temporary
      | _ => false) then [Code.DS102] else []) ++
  (if s.any (fun e => match e with
      | .dropCol t c => !c.2 && colSpan all t c.1 != .temporary
      | _ => false) then [Code.DS103] else [])

/-- the diagnostics `(statement index after merging, code)`; `origin` maps merged statements back to
the index of their first original statement. -/
def analyzeMerged (ms : List Stmt) : List (List Code) :=
  let all := ms.flatten
  ms.map (stmtDiags all)

/-- index of the original statement each merged statement starts at (mirror of `mergeTemp`). -/
def origins : Nat → List Stmt → List Nat
  | i, c1 :: x :: c2 :: c3 :: rest =>
    match tryMerge c1 c2 c3 with
    | .merged _ => i :: origins (i + 4) rest
    | _ => i :: origins (i + 1) (x :: c2 :: c3 :: rest)
  | i, _ :: rest => i :: origins (i + 1) rest
  | _, [] => []

/-- analysis of a file: list of (original statement index, code). -/
def analyze (stmts : List Stmt) : List (Nat × Code) :=
  let ms := mergeTemp stmts
  ((origins 0 stmts).zip (analyzeMerged ms)).flatMap (fun p => p.2.map (fun c => (p.1, c)))

/-! ### the specification: what is destructive -/

/-- objects created by this file so far. -/
structure Created where
  tables : List TName := []
  cols : List (TName × Nat) := []
deriving Repr

def Created.step (cr : Created) : Ev → Created
  | .addTable t cols => { tables := t :: cr.tables, cols := cols.map (fun c => (t, c.1)) ++ cr.cols }
  | .dropTable t _ => { tables := cr.tables.erase t, cols := cr.cols.filter (fun p => p.1 != t) }
  | .addCol t c => { cr with cols := (t, c.1) :: cr.cols }
  | .dropCol t c => { cr with cols := cr.cols.erase (t, c.1) }
  | .other => cr

/-- an event destroys something that existed before the file. -/
def destroys (cr : Created) : Ev → Option Code
  | .dropTable t _ => if cr.tables.contains t then none else some .DS102
  | .dropCol t c => if c.2 || cr.cols.contains (t, c.1) || cr.tables.contains t then none else some .DS103
  | _ => none

/-- the specification on raw (unmerged) statements: which statements destroy pre-existing objects. -/
def specLoop : Created → Nat → List Stmt → List (Nat × Code)
  | _, _, [] => []
  | cr, i, s :: rest =>
    let here := s.foldl (fun (acc : Created × List Code) e => (acc.1.step e, acc.2 ++ (destroys acc.1 e).toList)) (cr, [])
    here.2.eraseDups.map (fun c => (i, c)) ++ specLoop here.1 (i + 1) rest

def spec (stmts : List Stmt) : List (Nat × Code) := specLoop {} 0 stmts

end Atlas.Lint
