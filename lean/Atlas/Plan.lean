/-
Model of the SQLite planner's choice of program (sql/sqlite/migrate.go: `plan`, `addTable`,
`dropTable`, `modifyTable`, `alterable`, `alterTable`, `copyRows`): which statements are emitted for a
change set, in which order — in-place ALTER when every table-level change is alterable, otherwise
the rebuild procedure CREATE new_T / INSERT..SELECT / DROP T / RENAME / CREATE INDEX...
-/
namespace Atlas.Plan

/-- kinds of changes inside a ModifyTable, as far as `alterable` distinguishes them. -/
inductive CK
  | addColumn (simple : Bool)  -- simple: constant default, not STORED generated, no indexes / fks attached
  | addIndex | dropIndex | renameColumn | renameIndex
  | other
deriving DecidableEq, Repr, Inhabited

def CK.alterable : CK → Bool
  | .addColumn s => s
  | .addIndex | .dropIndex | .renameColumn | .renameIndex => true
  | .other => false

def alterable (cs : List CK) : Bool := cs.all CK.alterable

inductive St
  | createTable | createIndex | dropTable | createNew | copy | rename | alterAdd | dropIndex | renameColumn
deriving DecidableEq, Repr, Inhabited

inductive Ch
  | addTable (nIdx : Nat)
  | dropTable
  /-- `nIdx` indexes on the desired table, `copyable` columns of it that are neither generated nor added. -/
  | modifyTable (cs : List CK) (nIdx copyable : Nat)
deriving Repr, Inhabited

def alterStmts : List CK → List St
  | [] => []
  | .addColumn _ :: rest => .alterAdd :: alterStmts rest
  | .addIndex :: rest => .createIndex :: alterStmts rest
  | .dropIndex :: rest => .dropIndex :: alterStmts rest
  | .renameIndex :: rest => .createIndex :: .dropIndex :: alterStmts rest
  | .renameColumn :: rest => .renameColumn :: alterStmts rest
  | .other :: rest => alterStmts rest

def shapeOf : Ch → List St
  | .addTable n => .createTable :: List.replicate n .createIndex
  | .dropTable => [.dropTable]
  | .modifyTable cs n copyable =>
    if alterable cs then alterStmts cs
    else [.createNew] ++ (if copyable > 0 then [.copy] else []) ++ [.dropTable, .rename] ++ List.replicate n .createIndex

def shape (cs : List Ch) : List St := cs.flatMap shapeOf

/-! ### an abstract engine: what the planned program does to a table -/

/-- a table as the planner and SQLite see it: column definitions (name + all attributes as one
token; the order is the storage order), everything that can only change by a rebuild (primary key,
foreign keys, checks, options) as one token, and the index definitions (name + parts + predicate). -/
structure PT where
  cols : List Nat
  rest : Nat
  idxs : List Nat
deriving DecidableEq, Repr, Inhabited

/-- table-level changes as the differ reports them, at the granularity `alterable` needs;
`simple c` = the column can be added in place (constant default, not STORED, no attached index/fk). -/
inductive PC
  | addCol (c : Nat) | addIdx (i : Nat) | dropIdx (i : Nat)
  | other                       -- a dropped / modified column, key, foreign key, check or option
deriving DecidableEq, Repr, Inhabited

def diffPT (a b : PT) : List PC :=
  (if a.rest != b.rest || a.cols.any (fun c => !b.cols.contains c) then [PC.other] else []) ++
  (b.cols.filter (fun c => !a.cols.contains c)).map PC.addCol ++
  (a.idxs.filter (fun i => !b.idxs.contains i)).map PC.dropIdx ++
  (b.idxs.filter (fun i => !a.idxs.contains i)).map PC.addIdx

def PC.alterable (simple : Nat → Bool) : PC → Bool
  | .addCol c => simple c
  | .addIdx _ | .dropIdx _ => true
  | .other => false

/-- SQLite executing one in-place statement. -/
def alterStep (t : PT) : PC → PT
  | .addCol c => { t with cols := t.cols ++ [c] }            -- ALTER TABLE ADD COLUMN appends
  | .addIdx i => { t with idxs := t.idxs ++ [i] }            -- CREATE INDEX
  | .dropIdx i => { t with idxs := t.idxs.filter (· != i) }  -- DROP INDEX
  | .other => t

/-- the planned program, executed: in place if every change is alterable, otherwise CREATE new_T with
the desired definition, copy, DROP T (its indexes go with it), RENAME, CREATE INDEX for every desired
index. -/
def applyPlan (simple : Nat → Bool) (a b : PT) : PT :=
  let cs := diffPT a b
  if cs.all (PC.alterable simple) then cs.foldl alterStep a
  else { cols := b.cols, rest := b.rest, idxs := b.idxs }

end Atlas.Plan
