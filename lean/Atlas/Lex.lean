/-
Model of the statement scanner (sql/migrate/lex.go): `Scanner.Scan/init/stmt/next/pick/addPos/
skipQuote/skipDollarQuote/skipBeginAtomic/skipBegin/comment/skipSpaces/emit/delimCmd/setDelim`,
field by field, over bytes. Runes are decoded as Go's `utf8.DecodeRuneInString` does (only the width
and "is it this ASCII character" matter to the scanner).

Modelled options: MatchBegin, MatchBeginAtomic, MatchDollarQuote, BackslashEscapes,
EscapedStringExt, HashComments, OmitDelimiter – every option the community drivers and
`migrate.Stmts` use. GoCommand, MatchBeginTryCatch and BeginEndTerminator (used by no driver of this
repository) are not modelled.

Loops take a fuel argument; `Out.fuel` means it ran out (impossible: `Props.C08.fuel_suffices`).
`fixed = false` is the pinned commit (`init` does not count the stripped `atlas:delimiter` header in
`total`; `delimCmd` slices a one-character quoted delimiter out of range), `fixed = true` the
repaired tree.
-/
import Atlas.Base.Bytes
import Atlas.Hash

namespace Atlas.Lex
open Atlas Atlas.Bytes

structure Opts where
  matchBegin : Bool := false
  matchBeginAtomic : Bool := false
  matchDollarQuote : Bool := false
  backslashEscapes : Bool := false
  escapedStringExt : Bool := false
  hashComments : Bool := false
  omitDelimiter : Bool := false
deriving Repr, DecidableEq, Inhabited

/-- what the scanner can tell about a decoded rune. -/
inductive R
  | eos
  | ch (b : UInt8)   -- a 7-bit character
  | other            -- anything else (multi-byte rune or invalid byte)
deriving Repr, DecidableEq, Inhabited

structure St where
  input : Bytes
  pos : Nat := 0
  total : Nat := 0
  width : Nat := 0
  delim : Bytes := [0x3b]
  comments : List Bytes := []
deriving Repr, DecidableEq, Inhabited

structure Stmt where
  pos : Nat
  text : Bytes
  comments : List Bytes
deriving Repr, DecidableEq, Inhabited

/-- the ways a scan stops without a statement. -/
inductive Out
  | eof
  | err
  | panic
  | fuel
deriving Repr, DecidableEq, Inhabited

/-! ### UTF-8 width (`utf8.DecodeRuneInString`) -/

def isCont (b : UInt8) : Bool := 0x80 ≤ b && b ≤ 0xbf

def runeWidth : Bytes → Nat
  | [] => 0
  | x :: rest =>
    if x < 0x80 then 1
    else if 0xc2 ≤ x && x ≤ 0xdf then
      match rest with
      | b :: _ => if isCont b then 2 else 1
      | _ => 1
    else if 0xe0 ≤ x && x ≤ 0xef then
      match rest with
      | b :: c :: _ =>
        let lo : UInt8 := if x == 0xe0 then 0xa0 else 0x80
        let hi : UInt8 := if x == 0xed then 0x9f else 0xbf
        if lo ≤ b && b ≤ hi && isCont c then 3 else 1
      | _ => 1
    else if 0xf0 ≤ x && x ≤ 0xf4 then
      match rest with
      | b :: c :: d :: _ =>
        let lo : UInt8 := if x == 0xf0 then 0x90 else 0x80
        let hi : UInt8 := if x == 0xf4 then 0x8f else 0xbf
        if lo ≤ b && b ≤ hi && isCont c && isCont d then 4 else 1
      | _ => 1
    else 1

/-! ### primitives -/

def St.addPos (s : St) (p : Nat) : St := { s with pos := s.pos + p, total := s.total + p }

/-- `s.next()` -/
def next (s : St) : St × R :=
  match s.input.drop s.pos with
  | [] => (s, .eos)
  | x :: rest =>
    let w := runeWidth (x :: rest)
    ({ s with width := w, pos := s.pos + w, total := s.total + w }, if x < 0x80 then .ch x else .other)

/-- `s.pick()` -/
def pick (s : St) : R := (next s).2

/-- `s.skipSpaces()` -/
def skipSpaces (s : St) : St :=
  let t := trimLeft s.input.length s.input
  { s with input := t, total := s.total + (s.input.length - t.length) }

def hasPrefixAt (inp : Bytes) (i : Nat) (p : Bytes) : Bool := p.isPrefixOf (inp.drop i)

/-- `strings.Index(s, pat)` -/
def indexOf (pat : Bytes) : Bytes → Option Nat
  | [] => if pat.isEmpty then some 0 else none
  | b :: s => if pat.isPrefixOf (b :: s) then some 0 else (indexOf pat s).map (· + 1)

/-- `strings.TrimSuffix` -/
def trimSuffix (s suf : Bytes) : Bytes := if suf.isSuffixOf s then s.take (s.length - suf.length) else s

/-- `strings.NewReplacer("\\n","\n","\\r","\r","\\t","\t").Replace` -/
def unescape : Bytes → Bytes
  | 0x5c :: 0x6e :: r => 0x0a :: unescape r
  | 0x5c :: 0x72 :: r => 0x0d :: unescape r
  | 0x5c :: 0x74 :: r => 0x09 :: unescape r
  | b :: r => b :: unescape r
  | [] => []

/-- `s.setDelim(d)`: `none` = error (empty delimiter). -/
def setDelim (s : St) (d : Bytes) : Option St :=
  if d.isEmpty then none else some { s with delim := unescape d }

/-- `s.emit(text)` -/
def emit (o : Opts) (s : St) (text : Bytes) : St × Stmt :=
  let t1 := if o.omitDelimiter || s.delim != [0x3b] then trimSuffix text s.delim else text
  ({ s with input := s.input.drop s.pos, pos := 0, comments := [] },
   { pos := s.total - text.length, text := trimSpace t1, comments := s.comments })

/-! ### the regular expressions (`\s` is `[\t\n\f\r ]` in RE2) -/

def isReSpace (b : UInt8) : Bool := b == 0x09 || b == 0x0a || b == 0x0c || b == 0x0d || b == 0x20

def upper (b : UInt8) : UInt8 := if 0x61 ≤ b && b ≤ 0x7a then b - 0x20 else b

/-- case-insensitive ASCII match of `w` (given in upper case) at the head; returns the rest. -/
def word : Bytes → Bytes → Option Bytes
  | [], s => some s
  | _ :: _, [] => none
  | c :: w, b :: s => if upper b == c then word w s else none

def kwBEGIN : Bytes := [0x42, 0x45, 0x47, 0x49, 0x4e]
def kwATOMIC : Bytes := [0x41, 0x54, 0x4f, 0x4d, 0x49, 0x43]
def kwEND : Bytes := [0x45, 0x4e, 0x44]
def kwDELIMITER : Bytes := [0x44, 0x45, 0x4c, 0x49, 0x4d, 0x49, 0x54, 0x45, 0x52]

/-- length of the match of `(?i)^\s*BEGIN\s+` -/
def reBegin (s : Bytes) : Option Nat :=
  let s1 := s.dropWhile isReSpace
  match word kwBEGIN s1 with
  | none => none
  | some s2 =>
    let s3 := s2.dropWhile isReSpace
    if s3.length < s2.length then some (s.length - s3.length) else none

/-- length of the match of `(?i)^\s*BEGIN\s+ATOMIC\s+` -/
def reBeginAtomic (s : Bytes) : Option Nat :=
  match reBegin s with
  | none => none
  | some n =>
    match word kwATOMIC (s.drop n) with
    | none => none
    | some s2 =>
      let s3 := s2.dropWhile isReSpace
      if s3.length < s2.length then some (s.length - s3.length) else none

/-- length of the match of `(?i)^\s*END\s*` -/
def reEnd (s : Bytes) : Option Nat :=
  match word kwEND (s.dropWhile isReSpace) with
  | none => none
  | some s2 => some (s.length - (s2.dropWhile isReSpace).length)

def isIdentStart (b : UInt8) : Bool :=
  (0x41 ≤ b && b ≤ 0x5a) || (0x61 ≤ b && b ≤ 0x7a) || b == 0x5f

/-- tag characters `[\wÈ-ÿ]*` (È-ÿ are the two-byte runes C3 88 … C3 BF); returns the rest. -/
def skipTag : Nat → Bytes → Bytes
  | 0, s => s
  | fuel + 1, s =>
    match s with
    | 0xc3 :: b :: r => if 0x88 ≤ b && b ≤ 0xbf then skipTag fuel r else s
    | b :: r => if Hash.isWord b then skipTag fuel r else s
    | [] => []

/-- may a dollar-quote tag start like this? (empty tag, or a letter / underscore / È-ÿ first) -/
def dollarStartOk : Bytes → Bool
  | 0x24 :: _ => true
  | 0xc3 :: b :: _ => 0x88 ≤ b && b ≤ 0xbf
  | b :: _ => isIdentStart b
  | [] => false

/-- the match of the tag part and the closing `$`, given what follows the opening `$`. -/
def dollarClose (r : Bytes) : Option Bytes :=
  match skipTag r.length r with
  | 0x24 :: r2 => some r2
  | _ => none

/-- length of the match of `^\$([A-Za-zÈ-ÿ_][\wÈ-ÿ]*)*\$` -/
def reDollarQuote (s : Bytes) : Option Nat :=
  match s with
  | 0x24 :: r =>
    if dollarStartOk r then (dollarClose r).map (fun r2 => s.length - r2.length) else none
  | _ => none

/-! ### pieces of `stmt` -/

/-- `s.skipQuote(quote)`: `none` = unclosed quote. The loop runs on fuel. -/
def skipQuoteLoop (quote : UInt8) (escaped : Bool) : Nat → St → Option St
  | 0, _ => none
  | fuel + 1, s =>
    match next s with
    | (_, .eos) => none
    | (s, .ch b) =>
      if b == 0x5c && escaped then skipQuoteLoop quote escaped fuel (next s).1
      else if b == quote then some s
      else skipQuoteLoop quote escaped fuel s
    | (s, .other) => skipQuoteLoop quote escaped fuel s

def skipQuote (o : Opts) (s : St) (quote : UInt8) : Option St :=
  -- repaired tree: the byte before the opening quote (s.input[s.pos-2]); the pinned commit looked at the quote itself
  let prev := (s.input.drop (s.pos - 2)).head?
  -- repaired tree: backslash is not an escape character in back-quoted identifiers
  let escaped := (o.backslashEscapes && quote != 0x60) ||
    (o.escapedStringExt && decide (s.pos > 1) && (prev == some 0x45 || prev == some 0x65))
  skipQuoteLoop quote escaped (s.input.length + 1) s

/-- the closing loop of `skipDollarQuote`. -/
def dollarLoop (m : Bytes) : Nat → St → St
  | 0, s => s
  | fuel + 1, s =>
    match next s with
    | (s, .eos) => s                      -- delim is never empty: return nil
    | (s, .ch b) =>
      if b == 0x24 && hasPrefixAt s.input (s.pos - 1) m then s.addPos (m.length - 1)
      else dollarLoop m fuel s
    | (s, .other) => dollarLoop m fuel s

/-- `s.skipDollarQuote()` (the caller has checked that the regexp matches). -/
def skipDollarQuote (s : St) : Option St :=
  match reDollarQuote (s.input.drop (s.pos - 1)) with
  | none => none
  | some n =>
    let m := (s.input.drop (s.pos - 1)).take n
    some (dollarLoop m (s.input.length + 1) (s.addPos (n - 1)))

/-- `s.comment(left, right)` where `leftLen = len(left)`. -/
def comment (s : St) (leftLen : Nat) (right : Bytes) : St :=
  match indexOf right (s.input.drop s.pos) with
  | none => s
  | some i =>
    if s.pos != leftLen then s.addPos (i + right.length)
    else
      let s := s.addPos (i + right.length)
      let c := s.input.take s.pos
      let inp := s.input.drop s.pos
      let drop := [0x0a, 0x0a].isPrefixOf inp || (right == [0x0a] && [0x0a].isPrefixOf inp)
      skipSpaces { s with comments := if drop then [] else s.comments ++ [c], input := inp, pos := 0 }

/-- the consuming loop of `delimCmd`: `for r := pick(); r != eos && r != '\n'; r = next() {}` -/
def delimLoop : Nat → St → R → St
  | 0, s, _ => s
  | fuel + 1, s, r =>
    match r with
    | .eos => s
    | .ch 0x0a => s
    | _ => let (s', r') := next s; delimLoop fuel s' r'

/-- `s.delimCmd()`: `.inl` = error/panic outcome, `.inr` the new state. -/
def delimCmd (fixed : Bool) (o : Opts) (s : St) : Sum Out St :=
  if pick s != .ch 0x20 then .inr s
  else
    let s := delimLoop (s.input.length + 1) s (pick s)
    let d := trimSpace ((s.input.take s.pos).drop 9)
    let quoted := [0x27].isPrefixOf d && [0x27].isSuffixOf d
    if quoted && d.length < 2 && !fixed then .inl .panic     -- delim[1:len(delim)-1] with len = 1
    else
      let d := if quoted && d.length ≥ 2 then
          -- strings.ReplaceAll(delim[1:len-1], "''", "'")
          let inner := (d.drop 1).take (d.length - 2)
          let rec repl : Bytes → Bytes
            | 0x27 :: 0x27 :: r => 0x27 :: repl r
            | b :: r => b :: repl r
            | [] => []
          repl inner
        else d
      match setDelim s d with
      | none => .inl .err
      | some s => .inr (emit o s (s.input.take s.pos)).1

/-- `s.init(input)`: `none` = error. -/
def init (fixed : Bool) (input : Bytes) : Option St :=
  let s : St := { input := input }
  match Hash.directive input with
  | some (pre, name, args) =>
    if name == [0x64, 0x65, 0x6c, 0x69, 0x6d, 0x69, 0x74, 0x65, 0x72] && pre == [0x2d, 0x2d, 0x20] then
      match setDelim s args with
      | none => none
      | some s =>
        match indexOf [0x0a] input with
        | none => none      -- no input found after delimiter
        | some i =>
          some { s with input := input.drop (i + 1), total := if fixed then i + 1 else 0 }
    else some s
  | none => some s

/-! ### `stmt` with nested scanners -/

/-- result of one iteration of the `Scan:` loop. -/
inductive Step
  | cont (s : St) (depth openingPos : Nat)     -- next iteration
  | brk (s : St) (text : Bytes)                -- `break Scan` with this text
  | ret (s : St) (out : Out)                   -- `return`
deriving Repr, Inhabited

/-- the nested-scanner part shared by `skipBeginAtomic` and `skipBegin`: the keyword match of length
`n` starts at `pos-1`; on any failure the scan simply goes on (in the state reached so far). -/
def beginBlock (fixed : Bool) (body : Bool → Bytes → St → Option Nat) (isAtomic : Bool) (s : St) (n : Nat)
    (depth openingPos : Nat) : Step :=
  let s1 := s.addPos (n - 1)
  match init fixed (s1.input.drop s1.pos) with
  | none => .cont s1 depth openingPos
  | some b =>
    match body isAtomic s.delim b with
    | some t => let s2 := s1.addPos t; .brk s2 (s2.input.take s2.pos)
    | none => .cont s1 depth openingPos

/-- cases `BEGIN …` and default of the `switch`. -/
def stepE (fixed : Bool) (o : Opts) (body : Bool → Bytes → St → Option Nat) (s : St)
    (depth openingPos : Nat) : Step :=
  if s.delim == [0x3b] && o.matchBegin &&
      ((s.pos == 1 && (reBegin (s.input.drop (s.pos - 1))).isSome) ||
       (s.pos > 1 && (reBegin (s.input.drop (s.pos - 2))).isSome)) then
    match reBegin (s.input.drop (s.pos - 1)) with
    | none => .cont s depth openingPos      -- "unexpected missing BEGIN block"
    | some n => beginBlock fixed body false s n depth openingPos
  else .cont s depth openingPos

/-- case `BEGIN ATOMIC …`. -/
def stepD (fixed : Bool) (o : Opts) (body : Bool → Bytes → St → Option Nat) (s : St)
    (depth openingPos : Nat) : Step :=
  if s.delim == [0x3b] && o.matchBeginAtomic && (reBeginAtomic (s.input.drop (s.pos - 1))).isSome then
    match reBeginAtomic (s.input.drop (s.pos - 1)) with
    | none => .cont s depth openingPos
    | some n => beginBlock fixed body true s n depth openingPos
  else stepE fixed o body s depth openingPos

/-- cases dollar quote and the three comment styles. -/
def stepC (fixed : Bool) (o : Opts) (body : Bool → Bytes → St → Option Nat) (s : St) (r : R)
    (depth openingPos : Nat) : Step :=
  if o.matchDollarQuote && r == .ch 0x24 && (reDollarQuote (s.input.drop (s.pos - 1))).isSome then
    match skipDollarQuote s with
    | none => .ret s .err
    | some s => .cont s depth openingPos
  else if r == .ch 0x23 && o.hashComments then .cont (comment s 1 [0x0a]) depth openingPos
  else if r == .ch 0x2d && pick s == .ch 0x2d then .cont (comment (next s).1 2 [0x0a]) depth openingPos
  else if r == .ch 0x2f && pick s == .ch 0x2a then .cont (comment (next s).1 2 [0x2a, 0x2f]) depth openingPos
  else stepD fixed o body s depth openingPos

/-- cases DELIMITER command and "the delimiter ends the statement". -/
def stepB (fixed : Bool) (o : Opts) (body : Bool → Bytes → St → Option Nat) (s : St) (r : R)
    (depth openingPos : Nat) : Step :=
  if s.pos == 1 && s.input.length > 9 && word kwDELIMITER (s.input.take 9) == some [] then
    match delimCmd fixed o (s.addPos 8) with
    | .inl out => .ret s out
    | .inr s => .cont (skipSpaces s) depth openingPos
  else if depth == 0 && hasPrefixAt s.input (s.pos - s.width) s.delim then
    -- s.addPos(len(s.delim) - s.width): the difference may be negative
    let s := { s with pos := s.pos + s.delim.length - s.width, total := s.total + s.delim.length - s.width }
    .brk s (s.input.take s.pos)
  else stepC fixed o body s r depth openingPos

/-- the `switch` of the `Scan:` loop for a decoded rune `r` (not end of input); `s` is the state
after `next`. Cases parentheses and quotes first. -/
def stepCh (fixed : Bool) (o : Opts) (body : Bool → Bytes → St → Option Nat) (s : St) (r : R)
    (depth openingPos : Nat) : Step :=
  if r == .ch 0x28 then .cont s (depth + 1) (if depth == 0 then s.pos else openingPos)
  else if r == .ch 0x29 then
    if depth == 0 then .ret s .err else .cont s (depth - 1) openingPos
  else if r == .ch 0x27 || r == .ch 0x22 || r == .ch 0x60 then
    match r with
    | .ch q => match skipQuote o s q with
      | none => .ret s .err
      | some s => .cont s depth openingPos
    | _ => .ret s .err
  else stepB fixed o body s r depth openingPos

/-- One iteration of the `Scan:` loop of `stmt` (everything after the label up to the end of the
switch). `body isAtomic outerDelim b` runs the nested scanner `b` of `skipBeginAtomic`/`skipBegin`
until its END statement and returns the nested `total`. -/
def step (fixed : Bool) (o : Opts) (body : Bool → Bytes → St → Option Nat) (s : St) (depth openingPos : Nat) : Step :=
  match next s with
  | (s, .eos) =>
    if depth > 0 then .ret s .err
    else if s.pos > 0 then .brk s s.input
    else .ret s .eof
  | (s, r) => stepCh fixed o body s r depth openingPos

mutual

/-- `skipBeginAtomic` / `skipBegin` body: scan the nested statements on a fresh scanner until the
`END` one; returns the nested scanner's `total`, or `none` on any error. `isAtomic` selects the end
test of `skipBeginAtomic` (any statement starting with END) or of `skipBegin`. -/
def bodyLoop (fixed : Bool) (o : Opts) (isAtomic : Bool) (outerDelim : Bytes) : Nat → St → Option Nat
  | 0, _ => none
  | fuel + 1, b =>
    match stmt fixed o fuel b with
    | (b, .inr st) =>
      match reEnd st.text with
      | some m =>
        if isAtomic || m == st.text.length || st.text.drop m == outerDelim then some b.total
        else bodyLoop fixed o isAtomic outerDelim fuel b
      | none => bodyLoop fixed o isAtomic outerDelim fuel b
    | _ => none

/-- the `Scan:` loop of `stmt`. Returns the state and `.inl text` (break Scan with this text) or
`.inr out` (return). -/
def scanLoop (fixed : Bool) (o : Opts) : Nat → St → Nat → Nat → St × Sum Bytes Out
  | 0, s, _, _ => (s, .inr .fuel)
  | fuel + 1, s, depth, openingPos =>
    match step fixed o (fun a d b => bodyLoop fixed o a d fuel b) s depth openingPos with
    | .cont s d op => scanLoop fixed o fuel s d op
    | .brk s text => (s, .inl text)
    | .ret s out => (s, .inr out)

/-- `s.stmt()` -/
def stmt (fixed : Bool) (o : Opts) : Nat → St → St × Sum Out Stmt
  | 0, s => (s, .inl .fuel)
  | fuel + 1, s =>
    match scanLoop fixed o fuel (skipSpaces s) 0 0 with
    | (s, .inr out) => (s, .inl out)
    | (s, .inl text) => let (s, st) := emit o s text; (s, .inr st)

end

/-- the `for` loop of `Scan`. -/
def scanAll (fixed : Bool) (o : Opts) (fuel : Nat) : Nat → St → List Stmt → Sum Out (List Stmt)
  | 0, _, _ => .inl .fuel
  | n + 1, s, acc =>
    match stmt fixed o fuel s with
    | (_, .inl .eof) => .inr acc.reverse
    | (s, .inr st) => scanAll fixed o fuel n s (st :: acc)
    | (_, .inl out) => .inl out

def fuelFor (input : Bytes) : Nat := (input.length + 3) * (input.length + 3)

/-- `(*Scanner).Scan(input)` -/
def scan (fixed : Bool) (o : Opts) (input : Bytes) : Sum Out (List Stmt) :=
  match init fixed input with
  | none => .inl .err
  | some s => scanAll fixed o (fuelFor input) (input.length + 2) s []

/-- `Scan` with the two loop bounds of the model given explicitly (`scan` fixes them from the input
length); `Props.C08.fuel_irrelevant` shows that they do not matter once they are large enough. -/
def scanWith (fixed : Bool) (o : Opts) (fuel n : Nat) (input : Bytes) : Sum Out (List Stmt) :=
  match init fixed input with
  | none => .inl .err
  | some s => scanAll fixed o fuel n s []

theorem scan_eq_scanWith (fixed : Bool) (o : Opts) (input : Bytes) :
    scan fixed o input = scanWith fixed o (fuelFor input) (input.length + 2) input := rfl

end Atlas.Lex
