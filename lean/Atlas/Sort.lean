/-
Model of the dependency ordering of table changes (sql/internal/sqlx/plan.go: `dependencies`,
`sortMap`, `DetachCycles`, `detachReferences`, `SortChanges`; sql/internal/sqlx/sqlx_oss.go:
`dependsOn`) restricted to what the community planners feed it for tables and foreign keys.

Tables are identified by name (one schema); a foreign key is (symbol, referenced table). Pointer
comparisons of the Go code (`fk.RefTable == change.T`, `c1 != c2`) become name / index comparisons.
`sort.Slice` is modelled as a stable sort (Go uses insertion sort up to 12 elements; the
correspondence compares exact orders only there, larger inputs are judged by the monitor).
-/
namespace Atlas.Sort

structure FK where
  sym : String
  ref : String          -- referenced table
deriving DecidableEq, Repr, Inhabited

inductive Sub
  | addFK (fk : FK)
  | dropFK (fk : FK)
  | other (tag : String)
deriving DecidableEq, Repr, Inhabited

inductive Kind | add | drop | modify
deriving DecidableEq, Repr, Inhabited

/-- a top-level table change. `fks` are the table's foreign keys (AddTable: declared inline,
DropTable: existing), `subs` the sub-changes of a ModifyTable. `id` stands for pointer identity. -/
structure Ch where
  id : Nat
  kind : Kind
  table : String
  fks : List FK := []
  subs : List Sub := []
deriving DecidableEq, Repr, Inhabited

/-- `isDropped(changes, t)` -/
def isDropped (cs : List Ch) (t : String) : Bool := cs.any (fun c => c.kind == .drop && c.table == t)

/-- adjacency as an association list in insertion order of keys (iteration always goes through
`byKeys`, i.e. sorted, so the order of keys does not matter; the order of each value list does). -/
abbrev Deps := List (String × List String)

def Deps.add (d : Deps) (k v : String) : Deps :=
  match d with
  | [] => [(k, [v])]
  | (k', vs) :: rest => if k' == k then (k', vs ++ [v]) :: rest else (k', vs) :: Deps.add rest k v

def Deps.get (d : Deps) (k : String) : List String :=
  match d.find? (·.1 == k) with
  | some (_, vs) => vs
  | none => []

/-- `dependencies(changes)` -/
def dependencies (cs : List Ch) : Deps :=
  cs.foldl (fun d c =>
    match c.kind with
    | .add => c.fks.foldl (fun d fk => if fk.ref != c.table then d.add c.table fk.ref else d) d
    | .drop => c.fks.foldl (fun d fk => if isDropped cs fk.ref then d.add fk.ref c.table else d) d
    | .modify => c.subs.foldl (fun d s =>
        match s with
        | .addFK fk => if fk.ref != c.table then d.add c.table fk.ref else d
        | .dropFK fk => if isDropped cs fk.ref then d.add fk.ref c.table else d
        | .other _ => d) d) []

/-- insertion sort by key, stable. -/
def insertBy {α : Type} (lt : α → α → Bool) (x : α) : List α → List α
  | [] => [x]
  | y :: ys => if lt x y then x :: y :: ys else y :: insertBy lt x ys

def sortBy {α : Type} (lt : α → α → Bool) (l : List α) : List α := l.foldr (fun x acc => insertBy lt x acc) []

/-- stable sort: equal elements keep their input order (insert each element after its equals). -/
def stableSortBy {α : Type} (lt : α → α → Bool) (l : List α) : List α :=
  l.foldl (fun acc x =>
    let rec ins : List α → List α
      | [] => [x]
      | y :: ys => if lt x y then x :: y :: ys else y :: ins ys
    ins acc) []

structure DfsSt where
  sorted : List (String × Nat) := []     -- name ↦ index, in order of completion
  progress : List String := []
  cycle : Bool := false
deriving Repr, Inhabited

def lookup (m : List (String × Nat)) (k : String) : Option Nat := (m.find? (·.1 == k)).map (·.2)

mutual
/-- the `visit` closure of `sortMap`; returns `true` on a cycle. -/
def visit (deps : Deps) : Nat → String → DfsSt → DfsSt × Bool
  | 0, _, st => (st, true)
  | fuel + 1, name, st =>
    if (lookup st.sorted name).isSome then (st, false)
    else if st.progress.contains name then (st, true)
    else
      match visitAll deps fuel (deps.get name) { st with progress := name :: st.progress } with
      | (st, true) => (st, true)
      | (st, false) =>
        ({ st with progress := st.progress.erase name, sorted := st.sorted ++ [(name, st.sorted.length)] }, false)

/-- `for _, ref := range deps[name] { if visit(ref.Name) { return true } }` -/
def visitAll (deps : Deps) : Nat → List String → DfsSt → DfsSt × Bool
  | 0, _, st => (st, true)
  | _, [], st => (st, false)
  | fuel + 1, r :: rs, st =>
    match visit deps fuel r st with
    | (st, true) => (st, true)
    | (st, false) => visitAll deps fuel rs st
end

def sortMapGo (deps : Deps) (fuel : Nat) : List String → DfsSt → Option (List (String × Nat))
  | [], st => some st.sorted
  | k :: ks, st =>
    match visit deps fuel k st with
    | (_, true) => none
    | (st, false) => sortMapGo deps fuel ks st

/-- `sortMap(changes)`: `none` = errCycle. -/
def sortMap (cs : List Ch) : Option (List (String × Nat)) :=
  let deps := dependencies cs
  let keys := sortBy (fun a b => decide (a < b)) (deps.map (·.1))
  let n := deps.length + cs.length + 2
  sortMapGo deps (n * n + n) keys {}

/-- one step of `detachReferences`: (planned, deferred, next fresh identity). -/
def detachStep (acc : List Ch × List Ch × Nat) (c : Ch) : List Ch × List Ch × Nat :=
  let (planned, deferred, nid) := acc
  match c.kind with
  | .add =>
    let ext := c.fks.filter (fun fk => fk.ref != c.table)
    let self := c.fks.filter (fun fk => fk.ref == c.table)
    if ext.isEmpty then (planned ++ [c], deferred, nid)
    else (planned ++ [{ c with id := nid, fks := self }],
          deferred ++ [{ id := nid + 1, kind := .modify, table := c.table, subs := ext.map Sub.addFK }], nid + 2)
  | .drop =>
    let fks := c.fks.filter (fun fk => fk.ref != c.table)
    if fks.isEmpty then (planned, deferred ++ [c], nid)
    else (planned ++ [{ id := nid, kind := .modify, table := c.table, subs := fks.map Sub.dropFK }],
          deferred ++ [{ c with id := nid + 1, fks := [] }], nid + 2)
  | .modify =>
    let fks := c.subs.filter (fun s => match s with | .addFK _ => true | _ => false)
    let rest := c.subs.filter (fun s => match s with | .addFK _ => false | _ => true)
    let deferred := if fks.isEmpty then deferred else deferred ++ [{ c with id := nid, subs := fks }]
    let planned := if rest.isEmpty then planned else planned ++ [{ c with id := nid + 1, subs := rest }]
    (planned, deferred, nid + 2)

/-- an identity larger than every identity in use (`id` stands for Go pointer identity: the changes
`detachReferences` allocates are new objects). -/
def freshBase (cs : List Ch) : Nat := (cs.map (·.id)).foldl max 0 + 1

/-- `detachReferences(changes)`. -/
def detachReferences (cs : List Ch) : List Ch :=
  let r := cs.foldl detachStep ([], [], freshBase cs)
  r.1 ++ r.2.1

/-- `DetachCycles(changes)` -/
def detachCycles (cs : List Ch) : List Ch :=
  match sortMap cs with
  | none => detachReferences cs
  | some sorted =>
    let idx := fun (c : Ch) => (lookup sorted c.table).getD 0
    stableSortBy (fun a b => decide (idx a < idx b)) cs

def refTo (fks : List FK) (t : String) : Bool := fks.any (·.ref == t)

/-- `dependsOn(c1, c2)` of the community build, for table changes. -/
def dependsOn (c1 c2 : Ch) : Bool :=
  match c1.kind, c2.kind with
  | .add, .drop => c1.table == c2.table
  | .add, .add => refTo c1.fks c2.table
  | .add, .modify => c1.table != c2.table && refTo c1.fks c2.table
  | .drop, .drop => refTo c2.fks c1.table
  | .drop, .modify => c2.subs.any (fun s => match s with | .dropFK fk => fk.ref == c1.table | _ => false)
  | .drop, .add => false
  | .modify, .add =>
    c1.table == c2.table || c1.subs.any (fun s => match s with | .addFK fk => fk.ref == c2.table | _ => false)
  | .modify, .modify => false   -- needs an added column of c2 used by the new fk of c1: not generated
  | .modify, .drop => false

structure AddSt where
  added : List Nat := []
  planned : List Ch := []
deriving Repr, Inhabited

mutual
/-- the `add` closure of `SortChanges`. -/
def addCh (edges : Ch → List Ch) : Nat → Ch → AddSt → AddSt
  | 0, _, st => st
  | fuel + 1, c, st =>
    if st.added.contains c.id then st
    else
      let st := addAll edges fuel (edges c) { st with added := c.id :: st.added }
      { st with planned := st.planned ++ [c] }

/-- `for _, d := range edges[c] { if !added[d] { add(d) } }` -/
def addAll (edges : Ch → List Ch) : Nat → List Ch → AddSt → AddSt
  | 0, _, st => st
  | _, [], st => st
  | fuel + 1, d :: ds, st =>
    addAll edges fuel ds (if st.added.contains d.id then st else addCh edges fuel d st)
end

/-- `SortChanges(changes, nil)` for table changes. -/
def sortChanges (cs : List Ch) : List Ch :=
  let drop := cs.filter (·.kind == .drop)
  let other := cs.filter (·.kind != .drop)
  let all := other ++ drop
  -- edges with the inverse-edge suppression (`hasE`)
  let pairs := all.flatMap (fun c1 => all.map (fun c2 => (c1, c2)))
  let hasE := pairs.foldl (fun (acc : List (Nat × Nat)) (p : Ch × Ch) =>
    let (c1, c2) := p
    if c1.id != c2.id && !acc.contains (c2.id, c1.id) && dependsOn c1 c2 then acc ++ [(c1.id, c2.id)] else acc) []
  let edges := fun (c : Ch) => all.filter (fun d => hasE.contains (c.id, d.id))
  let n := all.length + 2
  (all.foldl (fun (st : AddSt) c => if st.added.contains c.id then st else addCh edges (n * n + n) c st) {}).planned

/-- what both planners do before emitting statements. -/
def planOrder (cs : List Ch) : List Ch := sortChanges (detachCycles cs)

end Atlas.Sort
