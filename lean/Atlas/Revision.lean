/-
Shared types of the migration-execution models (sql/migrate/migrate.go).
-/
namespace Atlas

/-- SQL text. Lists of characters (rather than `String`) keep the proofs about concatenation,
prefixes and positions elementary; the driver converts at the protocol boundary. -/
abbrev Text := List Char

/-- `migrate.Revision` without the time fields (ExecutedAt / ExecutionTime / OperatorVersion are
not observable by any property and are dropped by the correspondence's canonicaliser). -/
structure Revision where
  version : String
  desc : String := ""
  /-- RevisionType bit set: 1 baseline, 2 execute, 4 resolved. -/
  typ : Nat := 2
  applied : Nat := 0
  total : Nat := 0
  hash : String := ""
  /-- hashes of the applied statements *without* the `h1:` tag the Go code stores them with
  (`"h1:"+sums[i]` on write, `strings.TrimPrefix(.., "h1:")` on read; the driver adds/strips it). -/
  partialHashes : List String := []
  error : String := ""
  errorStmt : Text := []
deriving DecidableEq, Repr, Inhabited

/-- `r.Type.Has(RevisionTypeResolved)`: the revision was marked by `atlas migrate set`. -/
def Revision.resolved (r : Revision) : Bool := r.typ / 4 % 2 == 1

/-- `(*Revision).partially`: partially applied and not manually resolved, i.e. its execution is to
be resumed (sql/migrate/migrate.go). -/
def Revision.partially (r : Revision) : Bool := r.applied != r.total && !r.resolved

/-- A migration file as the executor sees it: name/version/description, its scanned statements
(the scanner is modelled separately, `Atlas.Lex`), whether it carries the checkpoint directive and
its entry of the sum file. -/
structure MFile where
  name : String
  version : String
  desc : String := ""
  stmts : List Text := []
  checkpoint : Bool := false
  hash : String := ""
deriving DecidableEq, Repr, Inhabited

/-- `migrate.ExecOrder`. -/
inductive Order | linear | linearSkip | nonLinear
deriving DecidableEq, Repr, Inhabited

end Atlas
