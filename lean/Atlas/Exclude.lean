/-
Model of `schema.ExcludeRealm` (sql/schema/exclude_oss.go): pattern splitting, the `[type=…]`
selector, `path/filepath.Match`, and the filtering of schemas / tables / views / columns / indexes /
foreign keys / checks, with the index and foreign-key exclusion that follows an excluded column.
Names and patterns are `Text` (character lists). Realm-level and schema-level objects, functions,
procedures and triggers (absent from the community drivers' inspection results) are not modelled.
-/
import Atlas.Revision

namespace Atlas.Exclude
open Atlas

structure Index where
  name : Text
  cols : List Text
deriving DecidableEq, Repr, Inhabited

structure FKey where
  sym : Text
  cols : List Text
deriving DecidableEq, Repr, Inhabited

structure Table where
  name : Text
  columns : List Text := []
  indexes : List Index := []
  fks : List FKey := []
  checks : List Text := []
deriving DecidableEq, Repr, Inhabited

structure View where
  name : Text
  columns : List Text := []
deriving DecidableEq, Repr, Inhabited

structure Schema where
  name : Text
  tables : List Table := []
  views : List View := []
deriving DecidableEq, Repr, Inhabited

abbrev Realm := List Schema

/-! ### `path/filepath.Match` (Unix) -/

/-- match one character class starting after `[`; returns (matched?, rest of pattern after `]`) or
`none` for a malformed class. -/
def matchClass (c : Char) : Nat → Text → Bool → Bool → Option (Bool × Text)
  | 0, _, _, _ => none
  | fuel + 1, chunk, matched, first =>
    -- `first` : no range parsed yet (a leading ']' is malformed in Go: "nrange > 0" check)
    match chunk with
    | ']' :: rest => if first then none else some (matched, rest)
    | _ =>
      -- getEsc
      let esc : Option (Char × Text) := match chunk with
        | [] => none
        | '-' :: _ => none
        | ']' :: _ => none
        | '\\' :: x :: rest => some (x, rest)
        | '\\' :: [] => none
        | x :: rest => some (x, rest)
      match esc with
      | none => none
      | some (lo, rest) =>
        if rest.isEmpty then none else
        match rest with
        | '-' :: rest2 =>
          let esc2 : Option (Char × Text) := match rest2 with
            | [] => none
            | '-' :: _ => none
            | ']' :: _ => none
            | '\\' :: x :: r => some (x, r)
            | '\\' :: [] => none
            | x :: r => some (x, r)
          match esc2 with
          | none => none
          | some (hi, rest3) =>
            if rest3.isEmpty then none
            else matchClass c fuel rest3 (matched || (lo ≤ c && c ≤ hi)) false
        | _ => matchClass c fuel rest (matched || lo == c) false

/-- `matchChunk(chunk, s)`: `.ok (some rest)` matched with remaining name, `.ok none` no match,
`.error ()` ErrBadPattern. Once the name failed to match, the rest of the chunk is still checked for
syntax errors (`failed` flag of the Go code). -/
def matchChunk : Nat → Text → Text → Bool → Except Unit (Option Text)
  | 0, _, _, _ => .error ()
  | _, [], s, failed => .ok (if failed then none else some s)
  | fuel + 1, p :: chunk, s, failed =>
    let failed := failed || s.isEmpty
    match p with
    | '[' =>
      let (r, s') := match s with
        | r :: s' => (r, s')
        | [] => (' ', [])
      -- negation
      let (negated, chunk) := match chunk with
        | '^' :: c => (true, c)
        | c => (false, c)
      match matchClass r (chunk.length + 2) chunk false true with
      | none => .error ()
      | some (m, rest) =>
        let failed := failed || (m == negated)
        matchChunk fuel rest (if failed then s else s') failed
    | '?' =>
      match s with
      | r :: s' => matchChunk fuel chunk (if failed then s else if r == '/' then s else s') (failed || r == '/')
      | [] => matchChunk fuel chunk s true
    | '\\' =>
      match chunk with
      | [] => .error ()
      | q :: chunk' =>
        match s with
        | r :: s' => matchChunk fuel chunk' (if failed || q != r then s else s') (failed || q != r)
        | [] => matchChunk fuel chunk' s true
    | q =>
      match s with
      | r :: s' => matchChunk fuel chunk (if failed || q != r then s else s') (failed || q != r)
      | [] => matchChunk fuel chunk s true

/-- `scanChunk(pattern)`: (star, chunk, rest). -/
def scanChunk (pattern : Text) : Bool × Text × Text :=
  let star := pattern.head? == some '*'
  let p := pattern.dropWhile (· == '*')
  let rec go : Nat → Text → Bool → Text → Text × Text
    | 0, acc, _, rest => (acc.reverse, rest)
    | _, acc, _, [] => (acc.reverse, [])
    | fuel + 1, acc, inrange, c :: rest =>
      match c with
      | '\\' => match rest with
        | x :: rest' => go fuel (x :: '\\' :: acc) inrange rest'
        | [] => go fuel ('\\' :: acc) inrange []
      | '[' => go fuel ('[' :: acc) true rest
      | ']' => go fuel (']' :: acc) false rest
      | '*' => if inrange then go fuel ('*' :: acc) inrange rest else (acc.reverse, '*' :: rest)
      | x => go fuel (x :: acc) inrange rest
  let (chunk, rest) := go (p.length + 1) [] false p
  (star, chunk, rest)

/-- the `for i := 0; i < len(name) && name[i] != Separator; i++` search after a `*`: the first
position (skipping i+1 characters) at which the chunk matches – and, for the last chunk, exhausts the
name. `.ok (some t)`: continue the outer loop with name `t`. -/
def starSearch (chunk : Text) (lastChunk : Bool) : Nat → Text → Except Unit (Option Text)
  | 0, _ => .ok none
  | fuel + 1, name =>
    match name with
    | [] => .ok none
    | c :: name' =>
      if c == '/' then .ok none
      else
        match matchChunk (chunk.length + 2) chunk name' false with
        | .error () => .error ()
        | .ok (some t) =>
          if lastChunk && !t.isEmpty then starSearch chunk lastChunk fuel name'
          else .ok (some t)
        | .ok none => starSearch chunk lastChunk fuel name'

/-- `filepath.Match(pattern, name)`: the `Pattern:` loop (Go 1.23: a mismatch returns false without
validating the rest of the pattern). -/
def globMatch : Nat → Text → Text → Except Unit Bool
  | 0, _, _ => .error ()
  | fuel + 1, pattern, name =>
    if pattern.isEmpty then .ok name.isEmpty
    else
      let (star, chunk, rest) := scanChunk pattern
      if star && chunk.isEmpty then .ok (!name.contains '/')
      else
        match matchChunk (chunk.length + 2) chunk name false with
        | .error () => .error ()
        | .ok r =>
          match r with
          | some t =>
            if t.isEmpty || !rest.isEmpty then globMatch fuel rest t
            else if star then
              (match starSearch chunk rest.isEmpty (name.length + 1) name with
                | .error () => .error ()
                | .ok (some t') => globMatch fuel rest t'
                | .ok none => .ok false)
            else .ok false
          | none =>
            if star then
              (match starSearch chunk rest.isEmpty (name.length + 1) name with
                | .error () => .error ()
                | .ok (some t') => globMatch fuel rest t'
                | .ok none => .ok false)
            else .ok false

def gmatch (pattern name : Text) : Except Unit Bool := globMatch (pattern.length + name.length + 4) pattern name

/-! ### the `[type=…]` selector -/

def isSelChar (c : Char) : Bool := ('a' ≤ c && c ≤ 'z') || c == '|' || c == '_'

def typePrefix : Text := "[type=".toList

/-- if `v` ends in `[type=xs]` with `xs` ∈ `[a-z|_]+`, return (prefix, xs). -/
def splitSelector (v : Text) : Option (Text × Text) :=
  match v.reverse with
  | ']' :: r =>
    let xsRev := r.takeWhile isSelChar
    let before := r.drop xsRev.length
    if xsRev.isEmpty then none
    else if typePrefix.reverse.isPrefixOf before then some ((before.drop typePrefix.length).reverse, xsRev.reverse)
    else none
  | _ => none

def splitOn (sep : Char) (s : Text) : List Text :=
  let rec go : Text → Text → List Text
    | [], cur => [cur.reverse]
    | c :: rest, cur => if c == sep then cur.reverse :: go rest [] else go rest (c :: cur)
  go s []

/-- `excludeType(t, v)`: (pattern without selector, does the selector allow type `t`). -/
def excludeType (t : Text) (v : Text) : Text × Bool :=
  match splitSelector v with
  | none => (v, true)
  | some (pre, xs) => (pre, (splitOn '|' xs).contains t)

/-! ### filtering -/

inductive Err | badPattern | tooManyParts | emptyPattern
deriving DecidableEq, Repr

/-- `filter(s, f)`: keeps the elements for which `f` is false; stops at the first error. -/
def filterE {α : Type} (f : α → Except Unit Bool) : List α → Except Unit (List α)
  | [] => .ok []
  | a :: as =>
    match f a with
    | .error () => .error ()
    | .ok m =>
      match filterE f as with
      | .error () => .error ()
      | .ok r => .ok (if m then r else a :: r)

/-- `excludeT(t, pattern)` (repaired tree: an error of any filter is returned). -/
def excludeT (t : Table) (pattern : Text) : Except Unit Table := do
  let (pc, selC) := excludeType "column".toList pattern
  -- the columns removed by this pattern
  let removed ← if selC then
      (do let kept ← filterE (fun c => gmatch pc c) t.columns
          pure (t.columns.filter (fun c => !kept.contains c)))
    else pure []
  let columns := if selC then t.columns.filter (fun c => !removed.contains c) else t.columns
  let (pi, selI) := excludeType "index".toList pattern
  let indexes ← if selI then
      filterE (fun (i : Index) => if i.cols.any removed.contains then .ok true else gmatch pi i.name) t.indexes
    else pure t.indexes
  let (pf, selF) := excludeType "fk".toList pattern
  let fks ← if selF then
      filterE (fun (f : FKey) => if f.cols.any removed.contains then .ok true else gmatch pf f.sym) t.fks
    else pure t.fks
  let (pk, selK) := excludeType "check".toList pattern
  let checks ← if selK then filterE (fun c => gmatch pk c) t.checks else pure t.checks
  pure { t with columns := columns, indexes := indexes, fks := fks, checks := checks }

/-- `excludeV(v, pattern)` -/
def excludeV (v : View) (pattern : Text) : Except Unit View := do
  let (pc, selC) := excludeType "column".toList pattern
  let columns ← if selC then filterE (fun c => gmatch pc c) v.columns else pure v.columns
  pure { v with columns := columns }

def mapFilterE {α : Type} (f : α → Except Unit (Option α)) : List α → Except Unit (List α)
  | [] => .ok []
  | a :: as =>
    match f a with
    | .error () => .error ()
    | .ok x =>
      match mapFilterE f as with
      | .error () => .error ()
      | .ok r => .ok (match x with | some a' => a' :: r | none => r)

/-- `excludeS(s, glob)` for the table and view parts; `glob` has 1 or 2 elements. -/
def excludeS (s : Schema) (glob : List Text) : Except Unit Schema := do
  let g0 := glob.headD []
  let (pt, selT) := excludeType "table".toList g0
  let tables ← if selT then
      mapFilterE (fun (t : Table) => do
        let m ← gmatch pt t.name
        if m then
          (match glob with
            | [_] => pure none
            | _ :: g1 :: _ => (do let t' ← excludeT t g1; pure (some t'))
            | [] => pure (some t))
        else pure (some t)) s.tables
    else pure s.tables
  let (pv, selV) := excludeType "view".toList g0
  let views ← if selV then
      mapFilterE (fun (v : View) => do
        let m ← gmatch pv v.name
        if m then
          (match glob with
            | [_] => pure none
            | _ :: g1 :: _ => (do let v' ← excludeV v g1; pure (some v'))
            | [] => pure (some v))
        else pure (some v)) s.views
    else pure s.views
  pure { s with tables := tables, views := views }

/-- `excludeType(typeS, g[0])`: the schema glob of a pattern and whether its selector allows schemas. -/
def schemaSel (g : List Text) : Text × Bool := excludeType "schema".toList (g.headD [])

/-- apply all globs, in order, to one schema: `none` = the schema itself is excluded. -/
def excludeSchemaGlobs : List (List Text) → Schema → Except Err (Option Schema)
  | [], s => .ok (some s)
  | g :: gs, s =>
    if g.length > 3 then .error .tooManyParts
    else if (schemaSel g).2 = false then excludeSchemaGlobs gs s
    else
      match gmatch (schemaSel g).1 s.name with
      | .error () => .error .badPattern
      | .ok false => excludeSchemaGlobs gs s
      | .ok true =>
        if g.length = 1 then .ok none
        else
          match excludeS s (g.drop 1) with
          | .error () => .error .badPattern
          | .ok s' => excludeSchemaGlobs gs s'

/-- `ExcludeRealm(r, patterns)` with the patterns already split into parts. -/
def excludeRealm (globs : List (List Text)) : Realm → Except Err Realm
  | [] => .ok []
  | s :: ss =>
    match excludeSchemaGlobs globs s with
    | .error e => .error e
    | .ok x =>
      match excludeRealm globs ss with
      | .error e => .error e
      | .ok r => .ok (match x with | some s' => s' :: r | none => r)

end Atlas.Exclude
