/-
Model of the migration-directory integrity file (sql/migrate/dir.go): `Files` (filter + sort),
`NewHashFile`, `HashFile.Sum/MarshalText/UnmarshalText/SumByName`, `Validate` with its reason
classification, and the `atlas:sum ignore` directive (regexp `reDirective`).

Everything is over byte lists. The hash function is a parameter `H : Bytes → Bytes`
(`base64(sha256(·))` in the driver).
-/
import Atlas.Base.Bytes

namespace Atlas.Hash
open Atlas

def str (s : String) : Bytes := Bytes.ofString s

def ascii (cs : List Char) : Bytes := Bytes.ascii cs

structure DFile where
  name : Bytes
  content : Bytes
deriving DecidableEq, Repr, Inhabited

/-! ### the directive regexp `^([ -~]*)atlas:(\w+)(?: +([ -~]*))*` -/

def isPrintable (b : UInt8) : Bool := 0x20 ≤ b && b ≤ 0x7e

def isWord (b : UInt8) : Bool :=
  (0x30 ≤ b && b ≤ 0x39) || (0x41 ≤ b && b ≤ 0x5a) || (0x61 ≤ b && b ≤ 0x7a) || b == 0x5f

def atlasTag : Bytes := [0x61, 0x74, 0x6c, 0x61, 0x73, 0x3a]  -- "atlas:"

/-- does `atlas:` followed by a word character start here? -/
def tagHere (s : Bytes) : Bool :=
  atlasTag.isPrefixOf s && (match s.drop 6 with | b :: _ => isWord b | [] => false)

/-- the last position in `s` (all of it printable) where `tagHere` holds – the greedy first group. -/
def lastTag : Bytes → Option Nat
  | [] => none
  | b :: s =>
    match lastTag s with
    | some i => some (i + 1)
    | none => if tagHere (b :: s) then some 0 else none

/-- `reDirective.FindStringSubmatch(content)`: (prefix, name, args). -/
def directive (content : Bytes) : Option (Bytes × Bytes × Bytes) :=
  let run := content.takeWhile isPrintable
  match lastTag run with
  | none => none
  | some i =>
    let after := (run.drop i).drop 6
    let name := after.takeWhile isWord
    let rest := after.dropWhile isWord
    let args := match rest with
      | 0x20 :: _ => rest.dropWhile (· == 0x20)
      | _ => []
    some (run.take i, name, args)

/-- `directive(string(f.Bytes()), directiveSum)` has mode `ignore`. -/
def sumIgnore (content : Bytes) : Bool :=
  match directive content with
  | some (_, name, args) => name == [0x73, 0x75, 0x6d] && args == [0x69, 0x67, 0x6e, 0x6f, 0x72, 0x65]  -- "sum", "ignore"
  | none => false

/-! ### listing the directory -/

/-- lexicographic byte order (`names[i] < names[j]` on Go strings). -/
def bytesLt : Bytes → Bytes → Bool
  | [], [] => false
  | [], _ :: _ => true
  | _ :: _, [] => false
  | a :: as, b :: bs => if a < b then true else if b < a then false else bytesLt as bs

def insertSorted (f : DFile) : List DFile → List DFile
  | [] => [f]
  | g :: gs => if bytesLt f.name g.name then f :: g :: gs else g :: insertSorted f gs

/-- sort by name (names are unique in a directory, so every sorting algorithm gives this list). -/
def sortFiles (fs : List DFile) : List DFile := fs.foldr insertSorted []

def sqlSuffix : Bytes := [0x2e, 0x73, 0x71, 0x6c]  -- ".sql"

def hasSqlExt (n : Bytes) : Bool := sqlSuffix.isSuffixOf n

/-- `Dir.Files()`: the `.sql` files ordered by name. -/
def files (dir : List DFile) : List DFile := sortFiles (dir.filter (fun f => hasSqlExt f.name))

/-! ### HashFile -/

abbrev Entry := Bytes × Bytes   -- (N, H)

/-- `NewHashFile`: cumulative hash over name ++ content; `atlas:sum ignore` files contribute their
name only and get no entry. `acc` is everything written to the running hash so far. -/
def newHashFileFrom (H : Bytes → Bytes) (acc : Bytes) : List DFile → List Entry
  | [] => []
  | f :: fs =>
    if sumIgnore f.content then newHashFileFrom H (acc ++ f.name) fs
    else (f.name, H (acc ++ f.name ++ f.content)) :: newHashFileFrom H (acc ++ f.name ++ f.content) fs

def newHashFile (H : Bytes → Bytes) (fs : List DFile) : List Entry := newHashFileFrom H [] fs

/-- the bytes `HashFile.Sum` feeds to the hash: N₁H₁N₂H₂… -/
def concatEntries (es : List Entry) : Bytes := es.flatMap (fun e => e.1 ++ e.2)

def sumOf (H : Bytes → Bytes) (es : List Entry) : Bytes := H (concatEntries es)

def h1 : Bytes := [0x68, 0x31, 0x3a]  -- "h1:"

def entryLine (e : Entry) : Bytes := e.1 ++ [0x20] ++ h1 ++ e.2 ++ [0x0a]

/-- `HashFile.MarshalText`. -/
def marshal (H : Bytes → Bytes) (es : List Entry) : Bytes :=
  h1 ++ sumOf H es ++ [0x0a] ++ es.flatMap entryLine

/-- `bufio.ScanLines`: split at `\n`, drop one trailing `\r` per line, no token for the empty tail. -/
def splitLinesAux : Bytes → Bytes → List Bytes
  | [], cur => if cur.isEmpty then [] else [cur.reverse]
  | b :: rest, cur => if b == 0x0a then cur.reverse :: splitLinesAux rest [] else splitLinesAux rest (b :: cur)

def dropCR (l : Bytes) : Bytes :=
  match l.reverse with
  | 0x0d :: r => r.reverse
  | _ => l

def scanLines (b : Bytes) : List Bytes := (splitLinesAux b []).map dropCR

/-- last occurrence of `pat` in `s` (`strings.LastIndex`): (before, after). -/
def splitLast (pat : Bytes) : Bytes → Option (Bytes × Bytes)
  | [] => if pat.isEmpty then some ([], []) else none
  | b :: s =>
    match splitLast pat s with
    | some (x, y) => some (b :: x, y)
    | none => if pat.isPrefixOf (b :: s) then some ([], (b :: s).drop pat.length) else none

open Atlas.Bytes (spaceHead trimLeft spaceTail trimRight trimSpace)

inductive Err | format | mismatch | notFound
deriving DecidableEq, Repr

def stripH1 (l : Bytes) : Bytes := if h1.isPrefixOf l then l.drop 3 else l

def parseLines : List Bytes → Except Err (List Entry)
  | [] => .ok []
  | l :: ls =>
    match splitLast h1 l with
    | none => .error .format
    | some (n, h) => match parseLines ls with
      | .ok es => .ok ((trimSpace n, h) :: es)
      | .error e => .error e

/-- `HashFile.UnmarshalText`. -/
def unmarshal (H : Bytes → Bytes) (b : Bytes) : Except Err (List Entry) :=
  let lines := scanLines b
  let sum := stripH1 (lines.headD [])
  match parseLines lines.tail with
  | .error e => .error e
  | .ok es => if sum != sumOf H es then .error .mismatch else .ok es

inductive Reason | added | edited | removed
deriving DecidableEq, Repr

structure ChecksumError where
  line : Nat
  total : Nat
  pos : Nat
  file : Bytes
  reason : Reason
deriving DecidableEq, Repr

inductive Outcome
  | ok
  | err (e : Err)
  | checksum (e : ChecksumError)
  | panic
deriving DecidableEq, Repr

def hashSize : Nat := 3 + 44

/-- the reason loop of `Validate`. -/
def classify (ac ex : List Entry) : Nat → Nat → List Entry → Outcome
  | i, pos, [] =>
    -- all entries of the sum file are unchanged: the next computed one was added
    match ex[ac.length]? with
    | some e => .checksum { line := ac.length + 2, total := ac.length, pos := pos, file := e.1, reason := .added }
    | none => .panic   -- ex[err.Total] out of range
  | i, pos, h :: rest =>
    if ex[i]? == some h then classify ac ex (i + 1) (pos + h.1.length + 1 + hashSize + 1) rest
    else
      match ex.findIdx? (fun e => e.1 == h.1) with
      | none => .checksum { line := i + 2, total := ac.length, pos := pos, file := h.1, reason := .removed }
      | some idx =>
        if idx == i then .checksum { line := i + 2, total := ac.length, pos := pos, file := h.1, reason := .edited }
        else match ex[i]? with
          | some e => .checksum { line := i + 2, total := ac.length, pos := pos, file := e.1, reason := .added }
          -- repaired tree: `case i < len(ex)` guards `ex[i]`; more entries than files counts as removed
          | none => .checksum { line := i + 2, total := ac.length, pos := pos, file := h.1, reason := .removed }

/-- `migrate.Validate(dir)`: `sumFile` is the content of atlas.sum if it exists. -/
def validate (H : Bytes → Bytes) (dir : List DFile) (sumFile : Option Bytes) : Outcome :=
  match sumFile with
  | none => if (files dir).isEmpty then .ok else .err .notFound
  | some b =>
    match unmarshal H b with
    | .error e => .err e
    | .ok ac =>
      let ex := newHashFile H (files dir)
      if sumOf H ac != sumOf H ex then classify ac ex 0 (hashSize + 1) ac else .ok

/-- `WriteSumFile(dir, dir.Checksum())`. -/
def writeSum (H : Bytes → Bytes) (dir : List DFile) : Bytes := marshal H (newHashFile H (files dir))

end Atlas.Hash
