/-
Model of the generic differ (sql/internal/sqlx/diff.go: schemaDiff, tableDiff, columnDiff, pkDiff,
indexDiffT incl. similar-unnamed-index matching, the foreign-key loops, ChecksDiff) over an abstract
schema graph. What the dialects decide (ColumnChange, IndexAttrChanged, ReferenceChanged, ...) is
abstracted to attribute tokens compared for equality: two columns differ in kind-bit k iff their
k-th tokens differ. The correspondence run validates this abstraction for the three real differs on a
catalogue of concrete edits.
-/
namespace Atlas.Diff

/-- the shape shared by the column, foreign-key, table and (named) index loops: walk `from` (drop or
modify by first match on the key), then walk `to` (add what `from` lacks). -/
def fromStep {α κ χ : Type} [DecidableEq κ] (key : α → κ) (chg : α → α → Option χ)
    (drop : α → χ) (to : List α) (a : α) : Option χ :=
  match to.find? (fun b => key b = key a) with
  | none => some (drop a)
  | some b => chg a b

def toStep {α κ χ : Type} [DecidableEq κ] (key : α → κ) (add : α → χ) (frm : List α) (b : α) : Option χ :=
  if frm.any (fun a => key a = key b) then none else some (add b)

def keyedDiff {α κ χ : Type} [DecidableEq κ] (key : α → κ) (chg : α → α → Option χ)
    (drop add : α → χ) (frm to : List α) : List χ :=
  frm.filterMap (fromStep key chg drop to) ++ to.filterMap (toStep key add frm)

/-- change kinds as lists of differing attribute positions (the ChangeKind bit set). -/
def kinds (a b : List Nat) : List Nat :=
  (List.range (max a.length b.length)).filter (fun i => a[i]? != b[i]?)

structure Col where
  name : Nat
  /-- type, null, default, comment, charset, collation, generated, attrs -/
  attrs : List Nat
deriving DecidableEq, Repr, Inhabited

structure Part where
  col : Nat
  desc : Bool
  /-- dialect attribute of the part (MySQL prefix length, PostgreSQL NULLS FIRST/LAST) as a token;
  compared by `IndexPartAttrChanged`. -/
  attr : Nat := 0
deriving DecidableEq, Repr, Inhabited

structure Idx where
  /-- `none`: unnamed index. -/
  name : Option Nat
  generatedName : Bool := false
  unique : Bool
  parts : List Part
  attrs : Nat := 0
deriving DecidableEq, Repr, Inhabited

structure FK where
  symbol : Nat
  cols : List Nat
  refTable : Nat
  refCols : List Nat
  onUpdate : Nat
  onDelete : Nat
deriving DecidableEq, Repr, Inhabited

structure Check where
  name : Option Nat
  expr : Nat
deriving DecidableEq, Repr, Inhabited

structure Table where
  name : Nat
  attrs : Nat := 0
  cols : List Col
  pk : Option Idx := none
  idxs : List Idx := []
  fks : List FK := []
  checks : List Check := []
deriving DecidableEq, Repr, Inhabited

inductive TChange
  | modifyAttr
  | dropCheck (c : Check) | modifyCheck (c c' : Check) | addCheck (c : Check)
  | dropColumn (n : Nat) | modifyColumn (n : Nat) (k : List Nat) | addColumn (n : Nat)
  | addPK | dropPK | modifyPK (k : List Nat)
  | dropIndex (i : Idx) | modifyIndex (i : Idx) (k : List Nat) | addIndex (i : Idx)
  | dropFK (s : Nat) | modifyFK (s : Nat) (k : List Nat) | addFK (s : Nat)
deriving DecidableEq, Repr, Inhabited

inductive Change
  | dropTable (n : Nat)
  | modifyTable (n : Nat) (cs : List TChange)
  | addTable (n : Nat)
deriving DecidableEq, Repr, Inhabited

/-- `ColumnChange`: bit i set iff attribute i differs. -/
def colChange (a b : Col) : Option TChange :=
  let k := kinds a.attrs b.attrs
  if k.isEmpty then none else some (.modifyColumn a.name k)

def columnDiff (frm to : List Col) : List TChange :=
  keyedDiff Col.name colChange (fun c => .dropColumn c.name) (fun c => .addColumn c.name) frm to

/-- `indexChange`: unique = 0, attrs = 1, parts = 2. -/
def indexKinds (a b : Idx) : List Nat :=
  (if a.unique != b.unique then [0] else []) ++ (if a.attrs != b.attrs then [1] else []) ++
  (if a.parts != b.parts then [2] else [])

def pkDiff (frm to : Option Idx) : List TChange :=
  match frm, to with
  | none, none => []
  | none, some _ => [.addPK]
  | some _, none => [.dropPK]
  | some a, some b =>
    let k := (indexKinds a b).filter (· != 0)
    if k.isEmpty then [] else [.modifyPK k]

/-- `similarUnnamedIndex`. -/
def similarUnnamed (to : List Idx) (i : Idx) : Option Idx :=
  to.find? (fun j => j.name.isNone && j.unique == i.unique && j.parts == i.parts)

/-- first loop of `indexDiffT`: returns the changes and the `to` indexes that were matched. -/
def indexLoop (to : List Idx) : List Idx → List TChange × List Idx
  | [] => ([], [])
  | i :: rest =>
    let (cs, ex) := indexLoop to rest
    match to.find? (fun j => j.name = i.name) with
    | some j =>
      let k := indexKinds i j
      ((if k.isEmpty then cs else .modifyIndex i k :: cs), j :: ex)
    | none =>
      if i.generatedName then
        match similarUnnamed to i with
        | some j => (cs, j :: ex)
        | none => (.dropIndex i :: cs, ex)
      else (.dropIndex i :: cs, ex)

def indexDiff (frm to : List Idx) : List TChange :=
  let (cs, ex) := indexLoop to frm
  cs ++ to.filterMap (fun j =>
    if ex.contains j then none
    else if frm.any (fun i => i.name = j.name) then none
    else some (.addIndex j))

/-- `fkChange`: refTable = 0, refCols = 1, cols = 2, onUpdate = 3, onDelete = 4. -/
def fkChange (a b : FK) : Option TChange :=
  let k := (if a.refTable != b.refTable then [0, 1] else if a.refCols != b.refCols then [1] else []) ++
    (if a.cols != b.cols then [2] else []) ++ (if a.onUpdate != b.onUpdate then [3] else []) ++
    (if a.onDelete != b.onDelete then [4] else [])
  if k.isEmpty then none else some (.modifyFK a.symbol k)

def fkDiff (frm to : List FK) : List TChange :=
  keyedDiff FK.symbol fkChange (fun f => .dropFK f.symbol) (fun f => .addFK f.symbol) frm to

/-- `ChecksDiff` with the normalized-mode comparison (expressions equal). -/
def checkMatch (c1 c2 : Check) : Bool :=
  match c1.name, c2.name with
  | some a, some b => a == b
  | _, _ => c1.expr == c2.expr

def checksDiff (frm to : List Check) : List TChange :=
  frm.filterMap (fun c1 => match to.find? (checkMatch c1) with
    | none => some (.dropCheck c1)
    | some c2 => if c1.expr == c2.expr then none else some (.modifyCheck c1 c2)) ++
  to.filterMap (fun c1 => if frm.any (checkMatch c1) then none else some (.addCheck c1))

/-- `tableDiff`. -/
def tableDiff (a b : Table) : List TChange :=
  (if a.attrs != b.attrs then [.modifyAttr] else []) ++ checksDiff a.checks b.checks ++
  columnDiff a.cols b.cols ++ pkDiff a.pk b.pk ++ indexDiff a.idxs b.idxs ++ fkDiff a.fks b.fks

/-- `schemaDiff` (tables). -/
def schemaDiff (frm to : List Table) : List Change :=
  keyedDiff Table.name
    (fun a b => let cs := tableDiff a b; if cs.isEmpty then none else some (.modifyTable b.name cs))
    (fun t => .dropTable t.name) (fun t => .addTable t.name) frm to

/-! ### skipped change kinds (`schema.DiffSkipChanges`: `DiffOptions.AddOrSkip` at every level) -/

inductive Kind
  | addTable | dropTable | modifyTable
  | addColumn | dropColumn | modifyColumn
  | addIndex | dropIndex | modifyIndex
  | addFK | dropFK | modifyFK
  | addCheck | dropCheck | modifyCheck
  | addPK | dropPK | modifyPK
  | attr
deriving DecidableEq, Repr, Inhabited

def TChange.kind : TChange → Kind
  | .modifyAttr => .attr
  | .dropCheck _ => .dropCheck | .modifyCheck _ _ => .modifyCheck | .addCheck _ => .addCheck
  | .dropColumn _ => .dropColumn | .modifyColumn _ _ => .modifyColumn | .addColumn _ => .addColumn
  | .addPK => .addPK | .dropPK => .dropPK | .modifyPK _ => .modifyPK
  | .dropIndex _ => .dropIndex | .modifyIndex _ _ => .modifyIndex | .addIndex _ => .addIndex
  | .dropFK _ => .dropFK | .modifyFK _ _ => .modifyFK | .addFK _ => .addFK

def Change.kind : Change → Kind
  | .dropTable _ => .dropTable
  | .modifyTable _ _ => .modifyTable
  | .addTable _ => .addTable

/-- the changes inside a table that are not skipped. -/
def skipT (sk : List Kind) (cs : List TChange) : List TChange := cs.filter (fun c => !sk.contains c.kind)

/-- one top-level change under the skip list: a table modification keeps its unskipped sub-changes and
disappears when none is left (`len(change) > 0`) or when ModifyTable itself is skipped. -/
def skipC (sk : List Kind) : Change → Option Change
  | .modifyTable n subs =>
    let s := skipT sk subs
    if s.isEmpty || sk.contains .modifyTable then none else some (.modifyTable n s)
  | c => if sk.contains c.kind then none else some c

/-- `SchemaDiff(from, to, DiffSkipChanges(sk...))`. -/
def skipDiff (sk : List Kind) (cs : List Change) : List Change := cs.filterMap (skipC sk)

/-- `SchemaDiff` with skipped kinds. -/
def schemaDiffSkip (sk : List Kind) (frm to : List Table) : List Change := skipDiff sk (schemaDiff frm to)

/-! ### schema objects (PostgreSQL enum types): `SchemaObjectDiff` of sql/postgres/driver_oss.go -/

structure EnumObj where
  name : Nat
  values : List Nat
deriving DecidableEq, Repr, Inhabited

inductive OChange
  | dropObject (name : Nat)
  | modifyObject (name : Nat)
  | addObject (name : Nat)
deriving DecidableEq, Repr, Inhabited

/-- first loop: drop or modify; second loop: add. The values are compared as ordered lists
(`sqlx.ValuesEqual`). -/
def objectDiff (frm to : List EnumObj) : List OChange :=
  frm.filterMap (fun e =>
    match to.find? (fun e2 => e2.name == e.name) with
    | none => some (.dropObject e.name)
    | some e2 => if e.values != e2.values then some (.modifyObject e.name) else none)
  ++ to.filterMap (fun e => if frm.any (fun e1 => e1.name == e.name) then none else some (.addObject e.name))

end Atlas.Diff
