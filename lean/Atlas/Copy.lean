/-
Model of the row copy of the SQLite table rebuild (sql/sqlite/migrate.go: `copyRows`): which columns
of the new table receive which expression over the old table in
`INSERT INTO new_T (toC...) SELECT fromC... FROM T`, and what that statement does to a row.
-/
namespace Atlas.Copy

inductive ColChange
  | none                 -- no change is associated with the column
  | added                -- AddColumn
  | modified (nullOrDefaultChanged : Bool)   -- ModifyColumn (Change.Is(ChangeNull|ChangeDefault))
  | renamed (frm : Nat)  -- RenameColumn
deriving DecidableEq, Repr, Inhabited

/-- a column of the new table. -/
structure ToCol where
  name : Nat
  generated : Bool := false
  notNull : Bool := false
  hasDefault : Bool := false
  change : ColChange := .none
deriving DecidableEq, Repr, Inhabited

inductive Src
  | col (n : Nat)        -- `n`
  | ifnull (n : Nat)     -- IFNULL(`n`, <default of the new column>) AS `n`
deriving DecidableEq, Repr, Inhabited

def srcOf (c : ToCol) : Option (Nat × Src) :=
  if c.generated then none
  else match c.change with
    | .added => none
    | .none => some (c.name, .col c.name)
    | .modified ch => some (c.name, if c.notNull && c.hasDefault && ch then .ifnull c.name else .col c.name)
    | .renamed f => some (c.name, .col f)

/-- the (toC, fromC) pairs of the INSERT ... SELECT, in column order. -/
def copyPlan (to : List ToCol) : List (Nat × Src) := to.filterMap srcOf

/-- a row: column name ↦ value (`none` = NULL). -/
abbrev Row := Nat → Option Nat

def evalSrc (dflt : Nat → Nat) (r : Row) (n : Nat) : Src → Option Nat
  | .col m => r m
  | .ifnull m => match r m with | some v => some v | none => some (dflt n)

/-- the row the statement writes; columns that are not listed get `other n` (their default or
generated value). -/
def copyRow (plan : List (Nat × Src)) (dflt : Nat → Nat) (other : Nat → Option Nat) (r : Row) : Row :=
  fun n => match plan.find? (fun p => p.1 = n) with
    | some p => evalSrc dflt r n p.2
    | none => other n

/-- INSERT ... SELECT without WHERE: one new row per old row. -/
def copyRows (plan : List (Nat × Src)) (dflt : Nat → Nat) (other : Nat → Option Nat) (rows : List Row) : List Row :=
  rows.map (copyRow plan dflt other)

end Atlas.Copy
