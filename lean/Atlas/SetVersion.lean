/-
Model of `atlas migrate set [version]` (cmd/atlas/internal/cmdapi/migrate.go: migrateSetRun) on the
revision table: revisions newer than the version are deleted, a failed / partially applied revision
of the version itself is marked `Execute|Resolved`, and every file between the last remaining
revision and the version gets a `Resolved` revision. The table is kept sorted by version
(`ReadRevisions` order; writes are upserts).
-/
import Atlas.Exec

namespace Atlas.SetV
open Atlas Atlas.Exec

/-- the loop over the existing revisions: `r.Version > version` → delete;
`r.Version == version && (r.Error != "" || r.Total != r.Applied)` → `Type = Execute|Resolved`. -/
def markStep (version : String) (revs : List Revision) : List Revision :=
  (revs.filter (fun r => !(decide (version < r.version)))).map (fun r =>
    if r.version == version && (r.error != "" || r.total != r.applied) then { r with typ := 6 } else r)

/-- the files that get a `Resolved` revision (the two `case`s after the second `ReadRevisions`;
`for … { if f.Version() > version { break } … }` is a `takeWhile`). -/
def toRecord (files : List MFile) (revs : List Revision) (version : String) : List MFile :=
  match revs.getLast? with
  | none => files.takeWhile (fun f => !(decide (version < f.version)))
  | some last =>
    if decide (last.version < version) then
      (files.takeWhile (fun f => decide (f.version ≤ last.version) || !(decide (version < f.version)))).filter
        (fun f => !(decide (f.version ≤ last.version)))
    else []

def resolvedRev (f : MFile) : Revision := { version := f.version, desc := f.desc, typ := 4, hash := f.hash }

/-- the revision table after `migrate set version`. -/
def setRevs (files : List MFile) (revs : List Revision) (version : String) : List Revision :=
  let revs1 := markStep version revs
  (toRecord files revs1 version).foldl (fun acc f => upsert (resolvedRev f) acc) revs1

inductive Err | notFound | needsArg
deriving Repr, DecidableEq

/-- argument handling: an explicit version must be a file of the directory; without argument (only
allowed on a non-empty table) the last file is taken, and an empty directory purges the table. -/
def setRun (files : List MFile) (revs : List Revision) (arg : Option String) : Except Err (List Revision) :=
  match arg with
  | some v => if files.any (fun f => f.version == v) then .ok (setRevs files revs v) else .error .notFound
  | none =>
    if revs.isEmpty then .error .needsArg
    else match files.getLast? with
      | some f => .ok (setRevs files revs f.version)
      | none => .ok (setRevs files revs "")

end Atlas.SetV
