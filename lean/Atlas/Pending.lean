/-
Model of `(*Executor).Pending` (sql/migrate/migrate.go) and of the directory helpers it uses
(sql/migrate/dir.go: FilesLastIndex, SkipCheckpointFiles, FilesFromLastCheckpoint,
slices.BinarySearchFunc as implemented by the Go standard library).

The function is pure: the one side effect of the Go code (writing the baseline revision) is returned
as `baselineWrite` so that the executor machine (`Atlas.Exec`) can perform it (and let it fail).
-/
import Atlas.Revision

namespace Atlas.Pending
open Atlas

structure Cfg where
  order : Order := .linear
  baseline : String := ""
  allowDirty : Bool := false
  /-- answer of `Driver.CheckClean` (true: no NotCleanError). -/
  clean : Bool := true
deriving Repr, Inhabited

inductive Err
  | notClean
  | baselineNotFound
  | missing (version desc : String)
  | nonLinear (outOfOrder pending : List MFile)
  | noPending
deriving Repr, DecidableEq

/-- `FilesLastIndex`: index of the last element satisfying `p`. -/
def lastIndex (p : α → Bool) : List α → Option Nat
  | [] => none
  | a :: l =>
    match lastIndex p l with
    | some i => some (i + 1)
    | none => if p a then some 0 else none

/-- `slices.IndexFunc`. -/
def indexFunc (p : α → Bool) : List α → Option Nat
  | [] => none
  | a :: l => if p a then some 0 else (indexFunc p l).map (· + 1)

/-- The loop of `slices.BinarySearchFunc` (Go 1.21+): `lt x` is `cmp(x, target) < 0`. -/
def bsearchLoop [Inhabited α] (lt : α → Bool) (l : List α) : Nat → Nat → Nat → Nat
  | 0, i, _ => i
  | fuel + 1, i, j =>
    if i < j then
      let h := (i + j) / 2
      if lt (l[h]!) then bsearchLoop lt l fuel (h + 1) j else bsearchLoop lt l fuel i h
    else i

/-- `slices.BinarySearchFunc(l, target, cmp)` with `lt x = cmp(x,target) < 0`, `eq x = cmp(x,target) == 0`. -/
def bsearch [Inhabited α] (lt eq : α → Bool) (l : List α) : Nat × Bool :=
  let i := bsearchLoop lt l (l.length + 1) 0 l.length
  (i, decide (i < l.length) && eq (l[i]!))

/-- `SkipCheckpointFiles`. -/
def skipCheckpoints (all : List MFile) : List MFile := all.filter (fun f => !f.checkpoint)

/-- `FilesFromLastCheckpoint` for a CheckpointDir (LocalDir and MemDir both are). -/
def filesFromLastCheckpoint (all : List MFile) : List MFile :=
  match lastIndex (fun f => f.checkpoint) all with
  | none => all
  | some i => all.drop i

structure Result where
  /-- revision the Go code writes before returning (baseline), if any. -/
  baselineWrite : Option Revision := none
  out : Except Err (List MFile)
deriving Repr

/-- The `len(revs) == 0` case. -/
def firstRun (cfg : Cfg) (all migrations : List MFile) : Result :=
  if !cfg.clean && !cfg.allowDirty && cfg.baseline == "" then ⟨none, .error .notClean⟩
  else if cfg.baseline != "" then
    match lastIndex (fun f => f.version == cfg.baseline) migrations with
    | none => ⟨none, .error .baselineNotFound⟩
    | some b =>
      let f := migrations[b]!
      let pend := migrations.drop (b + 1)
      ⟨some { version := f.version, desc := f.desc, typ := 1 },
        if pend.isEmpty then .error .noPending else .ok pend⟩
  else
    let pend := filesFromLastCheckpoint all
    ⟨none, if pend.isEmpty then .error .noPending else .ok pend⟩

/-- The files between the first and the last revision that have no revision (`skipped` in the Go
code); `none` when the window is not examined at all (no file at or after the first revision, or
`ExecOrderLinearSkip`). `idx` is the index of the first pending file. -/
def outOfOrder (cfg : Cfg) (migrations : List MFile) (revs : List Revision) (r0 : Revision) (idx : Nat) :
    Option (List MFile) :=
  match indexFunc (fun f => f.version ≥ r0.version) (migrations.take idx) with
  | some first =>
    if first < idx && cfg.order != .linearSkip then
      some (((migrations.take idx).drop first).filter
        (fun f => !(bsearch (fun (r : Revision) => r.version < f.version)
                            (fun (r : Revision) => r.version == f.version) revs).2))
    else none
  | none => none

/-- `if len(pending) == 0 { return nil, ErrNoPendingFiles }`. -/
def finish (p : List MFile) : Except Err (List MFile) :=
  if p.isEmpty then .error .noPending else .ok p

/-- The body of `case len(migrations) > 0` (also reached by `fallthrough`). -/
def normal (cfg : Cfg) (migrations : List MFile) (revs : List Revision) (r0 last : Revision) :
    Except Err (List MFile) :=
  let partially := last.partially
  let fn : MFile → Bool :=
    if partially then (fun f => f.version == last.version) else (fun f => f.version ≤ last.version)
  match lastIndex fn migrations with
  | none => if partially then .error (.missing last.version last.desc) else .ok migrations
  | some idx0 =>
    let idx := if partially then idx0 else idx0 + 1
    let pend := migrations.drop idx
    match outOfOrder cfg migrations revs r0 idx with
    | none => finish pend
    | some [] => finish pend
    | some skipped =>
      match cfg.order with
      | .nonLinear => finish (skipped ++ pend)
      | .linear => .error (.nonLinear skipped pend)
      | .linearSkip => finish pend

/-- `(*Executor).Pending` after directory validation; `all` is `dir.Files()`, `revs` is
`rrw.ReadRevisions()`. -/
def pending (cfg : Cfg) (all : List MFile) (revs : List Revision) : Result :=
  let migrations := skipCheckpoints all
  match revs.getLast?, revs.head? with
  | none, _ => firstRun cfg all migrations
  | _, none => firstRun cfg all migrations
  | some last, some r0 =>
    if last.partially && !all.isEmpty then
      let (idx, found) := bsearch (fun (f : MFile) => f.version < last.version)
                                  (fun (f : MFile) => f.version == last.version) all
      if found && (all[idx]!).checkpoint then
        ⟨none, .ok ((all[idx]!) :: skipCheckpoints (all.drop idx))⟩
      else if migrations.isEmpty then ⟨none, .error .noPending⟩
      else ⟨none, normal cfg migrations revs r0 last⟩
    else if !migrations.isEmpty then ⟨none, normal cfg migrations revs r0 last⟩
    else ⟨none, .error .noPending⟩

/-- `(*Executor).ExecuteTo(version)`: the files it hands to `exec`. `none` = "migration with version ... not
found". When a checkpoint file stands behind the target, `Pending` is asked about the directory cut after the
target; otherwise its answer is cut after the target. -/
def executeTo (cfg : Cfg) (all : List MFile) (revs : List Revision) (v : String) : Option (Except Err (List MFile)) :=
  match lastIndex (fun f => f.version == v) all with
  | none => none
  | some idx =>
    if (all.drop (idx + 1)).any (fun f => f.checkpoint) then some (pending cfg (all.take (idx + 1)) revs).out
    else
      match (pending cfg all revs).out with
      | .error e => some (.error e)
      | .ok p =>
        match lastIndex (fun f => f.version == v) p with
        | none => none
        | some i => some (.ok (p.take (i + 1)))

end Atlas.Pending
