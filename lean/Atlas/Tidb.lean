/-
The ordering step of the TiDB planner (sql/mysql/tidb.go: `tplanApply.PlanChanges`): after `DetachCycles`
(the topological pre-sort) and `flat` (one atomic change per ModifyTable) the changes are STABLY sorted by
`priority`. A stable sort by a key is unique, so `List.mergeSort` on the key models `sort.SliceStable`.
-/
namespace Atlas.Tidb

/-- the atomic change kinds `priority` tells apart, with the table a foreign key points at / that is created. -/
inductive TCh
  | addColumn
  | dropIndex | dropFK | dropAttr | dropCheck
  | modifyIndex
  | modifyFK (newParent : Nat)     -- ModifyForeignKey whose `To.RefTable` is table `newParent`
  | addTable (t : Nat)
  | other                          -- every other change (default branch)
deriving DecidableEq, Repr, Inhabited

/-- `priority(change)`. -/
def priority : TCh → Nat
  | .addColumn => 1
  | .dropIndex | .dropFK | .dropAttr | .dropCheck => 2
  | .modifyIndex | .modifyFK _ => 3
  | _ => 4

def le (a b : TCh) : Bool := priority a ≤ priority b

/-- the order the atomic changes are planned in. -/
def order (l : List TCh) : List TCh := l.mergeSort le

end Atlas.Tidb
