/-
The first-run gate of the drivers: `CheckClean(revT)` (sql/mysql/driver_oss.go, sql/postgres/driver_oss.go,
sql/sqlite/driver.go), the decision `Executor.Pending` asks for when no revision is recorded and neither
`--allow-dirty` nor `--baseline` is given. The inspected state is a list of schemas with the names of their
tables; the functions follow the Go `switch` statements case by case.
-/
namespace Atlas.Clean

structure Sch where
  name : String
  tables : List String
deriving Repr, DecidableEq, Inhabited

/-- a connection bound to one schema (MySQL: a database in the URL; PostgreSQL: `search_path`): the check of
both drivers. -/
def boundClean (s : Sch) (revS revT : String) : Bool :=
  s.tables.length == 0 ||
    ((revS == "" || s.name == revS) && s.tables.length == 1 && s.tables.head? == some revT)

/-- MySQL, connection bound to no database: the `switch n := len(r.Schemas)`. -/
def mysqlRealmClean (r : List Sch) (revS revT : String) : Bool :=
  match r with
  | [] => true
  | [s] =>
    if s.name != revS then false
    else if s.tables.length > 1 then false
    else if s.tables.length == 1 && s.tables.head? != some revT then false
    else true
  | _ :: _ :: _ => false

/-- PostgreSQL, connection bound to the database: the loop over the schemas. -/
def pgRealmClean : List Sch → String → String → Bool
  | [], _, _ => true
  | s :: rest, revS, revT =>
    if s.tables.length == 0 && s.name == "public" then pgRealmClean rest revS revT
    else if s.tables.length == 0 || s.name != revS then false
    else if s.tables.length > 1 then false
    else if s.tables.length == 1 && s.tables.head? != some revT then false
    else pgRealmClean rest revS revT

/-- SQLite: one schema, `main`. -/
def sqliteClean (r : List Sch) (revT : String) : Bool :=
  match r with
  | [] => true
  | [s] =>
    if s.name != "main" then false
    else if s.tables.length > 1 then false
    else if s.tables.length == 1 && s.tables.head? != some revT then false
    else true
  | _ :: _ :: _ => false

end Atlas.Clean
