/-
Model of the generic attribute mechanism of schemahcl.TypeRegistry for integer attributes
(schemahcl/types.go):
* `Convert` walks the spec's attributes from the last to the first and leaves out zero values as long
  as nothing has been emitted yet, unless the value is *explicit* (a required attribute, or an
  optional one stored in a non-nil pointer field) — `toAttrs`; on the pinned tree explicit zeros were
  dropped too (`toAttrsPinned`);
* `PrintType` + the dialect's `ParseType` give an absent trailing attribute the dialect's default
  (`fromAttrs`).
-/
namespace Atlas.HclType

/-- an attribute value and whether it is explicit. -/
abbrev AttrVal := Nat × Bool

/-- drop the trailing values that are zero and not explicit. -/
def dropTrailing : List AttrVal → List Nat
  | [] => []
  | x :: xs =>
    match dropTrailing xs with
    | [] => if x.1 = 0 ∧ x.2 = false then [] else [x.1]
    | r => x.1 :: r

/-- `Convert`: the attribute values that are written (positions are the spec's attribute order). -/
def toAttrs (vals : List AttrVal) : List Nat := dropTrailing vals

/-- the pinned behaviour: explicitness is ignored. -/
def toAttrsPinned (vals : List AttrVal) : List Nat := dropTrailing (vals.map (fun v => (v.1, false)))

/-- `Type`/`ParseType`: attribute values read back; `defaults` = what the dialect's parser assigns
to a parameter that is not written. -/
def fromAttrs (defaults : List Nat) (attrs : List Nat) : List Nat :=
  attrs ++ defaults.drop attrs.length

end Atlas.HclType
