/- Byte strings as lists (proof-friendly); shared by the hash, scanner and formatter models. -/
namespace Atlas

abbrev Bytes := List UInt8

namespace Bytes

def ofString (s : String) : Bytes := s.toUTF8.toList

/-- ASCII text as bytes, in a form the kernel can evaluate (used by examples). -/
def ascii (cs : List Char) : Bytes := cs.map (fun c => UInt8.ofNat c.toNat)


/-- the UTF-8 encodings of the runes for which `unicode.IsSpace` holds: \t \n \v \f \r ' ',
U+0085, U+00A0, U+1680, U+2000–U+200A, U+2028, U+2029, U+202F, U+205F, U+3000. -/
def spacePats : List Bytes :=
  [[0x09], [0x0a], [0x0b], [0x0c], [0x0d], [0x20], [0xc2, 0x85], [0xc2, 0xa0], [0xe1, 0x9a, 0x80],
   [0xe2, 0x80, 0x80], [0xe2, 0x80, 0x81], [0xe2, 0x80, 0x82], [0xe2, 0x80, 0x83], [0xe2, 0x80, 0x84],
   [0xe2, 0x80, 0x85], [0xe2, 0x80, 0x86], [0xe2, 0x80, 0x87], [0xe2, 0x80, 0x88], [0xe2, 0x80, 0x89],
   [0xe2, 0x80, 0x8a], [0xe2, 0x80, 0xa8], [0xe2, 0x80, 0xa9], [0xe2, 0x80, 0xaf], [0xe2, 0x81, 0x9f],
   [0xe3, 0x80, 0x80]]

/-- length of the white-space rune (`unicode.IsSpace`) encoded at the head of `s`, 0 if none. -/
def spaceHead (s : Bytes) : Nat :=
  match spacePats.find? (fun p => p.isPrefixOf s) with
  | some p => p.length
  | none => 0

def trimLeft : Nat → Bytes → Bytes
  | 0, s => s
  | fuel + 1, s => if spaceHead s = 0 then s else trimLeft fuel (s.drop (spaceHead s))

/-- length of the white-space rune encoded at the END of `s` (as `utf8.DecodeLastRune` sees it). -/
def spaceTail (s : Bytes) : Nat :=
  match spacePats.find? (fun p => p.isSuffixOf s) with
  | some p => p.length
  | none => 0

def trimRight : Nat → Bytes → Bytes
  | 0, s => s
  | fuel + 1, s => if spaceTail s = 0 then s else trimRight fuel (s.take (s.length - spaceTail s))

/-- `strings.TrimSpace`. -/
def trimSpace (s : Bytes) : Bytes := trimRight s.length (trimLeft s.length s)

end Bytes
end Atlas
