/-
SHA-256 and base64 (std encoding, padded), written in plain Lean so that the executable model can
produce byte-identical `atlas.sum` files and statement hashes. Nothing is proved about these two
functions: every theorem that mentions a hash is stated for an arbitrary `H`; the driver instantiates
`H` with this implementation and the correspondence check validates it against Go's crypto/sha256 and
encoding/base64 on every run.
-/
namespace Atlas.Base

def shaK : Array UInt32 := #[
  0x428a2f98, 0x71374491, 0xb5c0fbcf, 0xe9b5dba5, 0x3956c25b, 0x59f111f1, 0x923f82a4, 0xab1c5ed5,
  0xd807aa98, 0x12835b01, 0x243185be, 0x550c7dc3, 0x72be5d74, 0x80deb1fe, 0x9bdc06a7, 0xc19bf174,
  0xe49b69c1, 0xefbe4786, 0x0fc19dc6, 0x240ca1cc, 0x2de92c6f, 0x4a7484aa, 0x5cb0a9dc, 0x76f988da,
  0x983e5152, 0xa831c66d, 0xb00327c8, 0xbf597fc7, 0xc6e00bf3, 0xd5a79147, 0x06ca6351, 0x14292967,
  0x27b70a85, 0x2e1b2138, 0x4d2c6dfc, 0x53380d13, 0x650a7354, 0x766a0abb, 0x81c2c92e, 0x92722c85,
  0xa2bfe8a1, 0xa81a664b, 0xc24b8b70, 0xc76c51a3, 0xd192e819, 0xd6990624, 0xf40e3585, 0x106aa070,
  0x19a4c116, 0x1e376c08, 0x2748774c, 0x34b0bcb5, 0x391c0cb3, 0x4ed8aa4a, 0x5b9cca4f, 0x682e6ff3,
  0x748f82ee, 0x78a5636f, 0x84c87814, 0x8cc70208, 0x90befffa, 0xa4506ceb, 0xbef9a3f7, 0xc67178f2]

@[inline] def rotr (x : UInt32) (n : UInt32) : UInt32 := (x >>> n) ||| (x <<< (32 - n))

def shaInit : Array UInt32 := #[
  0x6a09e667, 0xbb67ae85, 0x3c6ef372, 0xa54ff53a, 0x510e527f, 0x9b05688c, 0x1f83d9ab, 0x5be0cd19]

def shaPad (msg : ByteArray) : ByteArray := Id.run do
  let len := msg.size
  let mut m := msg.push 0x80
  while m.size % 64 != 56 do
    m := m.push 0
  let bits : UInt64 := (UInt64.ofNat len) * 8
  for i in [0:8] do
    m := m.push ((bits >>> (UInt64.ofNat (8 * (7 - i)))).toUInt8)
  return m

def shaBlock (h : Array UInt32) (m : ByteArray) (off : Nat) : Array UInt32 := Id.run do
  let mut w : Array UInt32 := Array.replicate 64 0
  for i in [0:16] do
    let b0 := (m.get! (off + 4*i)).toUInt32
    let b1 := (m.get! (off + 4*i + 1)).toUInt32
    let b2 := (m.get! (off + 4*i + 2)).toUInt32
    let b3 := (m.get! (off + 4*i + 3)).toUInt32
    w := w.set! i ((b0 <<< 24) ||| (b1 <<< 16) ||| (b2 <<< 8) ||| b3)
  for i in [16:64] do
    let w15 := w[i-15]!
    let w2 := w[i-2]!
    let s0 := rotr w15 7 ^^^ rotr w15 18 ^^^ (w15 >>> 3)
    let s1 := rotr w2 17 ^^^ rotr w2 19 ^^^ (w2 >>> 10)
    w := w.set! i (w[i-16]! + s0 + w[i-7]! + s1)
  let mut a := h[0]!
  let mut b := h[1]!
  let mut c := h[2]!
  let mut d := h[3]!
  let mut e := h[4]!
  let mut f := h[5]!
  let mut g := h[6]!
  let mut hh := h[7]!
  for i in [0:64] do
    let s1 := rotr e 6 ^^^ rotr e 11 ^^^ rotr e 25
    let ch := (e &&& f) ^^^ ((~~~ e) &&& g)
    let t1 := hh + s1 + ch + shaK[i]! + w[i]!
    let s0 := rotr a 2 ^^^ rotr a 13 ^^^ rotr a 22
    let mj := (a &&& b) ^^^ (a &&& c) ^^^ (b &&& c)
    let t2 := s0 + mj
    hh := g; g := f; f := e; e := d + t1; d := c; c := b; b := a; a := t1 + t2
  return #[h[0]! + a, h[1]! + b, h[2]! + c, h[3]! + d, h[4]! + e, h[5]! + f, h[6]! + g, h[7]! + hh]

def sha256 (msg : ByteArray) : ByteArray := Id.run do
  let m := shaPad msg
  let mut h := shaInit
  for blk in [0:m.size / 64] do
    h := shaBlock h m (blk * 64)
  let mut out := ByteArray.empty
  for x in h do
    out := out.push (x >>> 24).toUInt8
    out := out.push (x >>> 16).toUInt8
    out := out.push (x >>> 8).toUInt8
    out := out.push x.toUInt8
  return out

def b64chars : Array Char :=
  "ABCDEFGHIJKLMNOPQRSTUVWXYZabcdefghijklmnopqrstuvwxyz0123456789+/".toList.toArray

def base64 (b : ByteArray) : String := Id.run do
  let mut s := ""
  let n := b.size
  let mut i := 0
  while i + 2 < n do
    let x := (b.get! i).toNat * 65536 + (b.get! (i+1)).toNat * 256 + (b.get! (i+2)).toNat
    s := s.push b64chars[x / 262144 % 64]!
    s := s.push b64chars[x / 4096 % 64]!
    s := s.push b64chars[x / 64 % 64]!
    s := s.push b64chars[x % 64]!
    i := i + 3
  if n - i == 1 then
    let x := (b.get! i).toNat * 65536
    s := s.push b64chars[x / 262144 % 64]!
    s := s.push b64chars[x / 4096 % 64]!
    s := s ++ "=="
  else if n - i == 2 then
    let x := (b.get! i).toNat * 65536 + (b.get! (i+1)).toNat * 256
    s := s.push b64chars[x / 262144 % 64]!
    s := s.push b64chars[x / 4096 % 64]!
    s := s.push b64chars[x / 64 % 64]!
    s := s ++ "="
  return s

/-- base64(sha256(bytes)) – the function Atlas uses everywhere (`h1:` hashes). -/
def h1 (b : ByteArray) : String := base64 (sha256 b)

end Atlas.Base
