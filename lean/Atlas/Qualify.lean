/-
Model of identifier qualification in the planners (sql/internal/sqlx/sqlx.go: Builder.mayQualify,
Table, TableColumn, TableResource, SchemaResource, RefTable; sql/postgres/migrate_oss.go: typeIdent,
schemaPrefix) and of `sqlx.CheckChangesScope`. An identifier path is the list of its quoted parts.
-/
import Atlas.Revision

namespace Atlas.Qualify
open Atlas

/-- `Builder.Schema` / `PlanOptions.SchemaQualifier`: `none` = not requested, `some []` = empty
(schema-agnostic plan), `some q` = custom qualifier. -/
abbrev Qualifier := Option Text

/-- the optional schema prefix: custom qualifier if requested (none when empty), else the object's
own schema (none when it has no name). -/
def prefixOf (q : Qualifier) (schemaName : Text) : List Text :=
  match q with
  | some [] => []
  | some c => [c]
  | none => if schemaName.isEmpty then [] else [schemaName]

/-- `b.mayQualify(s, top, children...)` -/
def mayQualify (q : Qualifier) (schemaName top : Text) (children : List Text) : List Text :=
  prefixOf q schemaName ++ top :: children

/-- `b.RefTable(child, parent)` -/
def refTable (q : Qualifier) (childSchema parentSchema parentName : Text) : List Text :=
  if q == some [] && !childSchema.isEmpty && !parentSchema.isEmpty && childSchema != parentSchema then
    [parentSchema, parentName]
  else mayQualify q parentSchema parentName []

/-- PostgreSQL `typeIdent(ns, name)` -/
def typeIdent (q : Qualifier) (schemaName name : Text) : List Text := prefixOf q schemaName ++ [name]

inductive ScopeCh
  | addSchema | dropSchema
  | modifySchema (name : Text)
  | table (schemaName : Text)      -- AddTable / ModifyTable / DropTable / RenameTable of a table in this schema
  | object (schemaName : Text)     -- AddObject / DropObject / ModifyObject of an enum type of this schema
  | other
deriving DecidableEq, Repr, Inhabited

def dedup (l : List Text) : List Text := l.foldl (fun acc x => if acc.contains x then acc else acc ++ [x]) []

/-- the loop of `CheckChangesScope`: collects the schema names, `none` = rejected on the spot. -/
def scopeGo (scope : Text) (inPlace : Bool) : List ScopeCh → List Text → Option (List Text)
  | [], names => some names
  | c :: rest, names =>
    match c with
    | .addSchema | .dropSchema => none
    | .modifySchema n =>
      if !inPlace then none
      else if !scope.isEmpty && scope != n then none
      else scopeGo scope inPlace rest (names ++ [n])
    | .table s => scopeGo scope inPlace rest (if s.isEmpty then names else names ++ [s])
    | .object _ => scopeGo scope inPlace rest names   -- the `default: continue` arm: the object's schema is not looked at
    | .other => scopeGo scope inPlace rest names

/-- `CheckChangesScope(opts, changes)`: `true` = accepted. -/
def checkScope (q : Qualifier) (inPlace : Bool) (cs : List ScopeCh) : Bool :=
  match scopeGo (q.getD []) inPlace cs [] with
  | none => false
  | some names => (dedup names).length ≤ 1

end Atlas.Qualify
