/-
Model of the dev-database protocol shared by `Executor.Replay`, `DevDriver.NormalizeRealm/Schema` and
`DevLoader.LoadChanges`:  `restore, err := drv.Snapshot(ctx)` (refuse a non-empty database) →
`defer restore(ctx)` → execute statements until one fails → inspect → (deferred) restore, with the
SQLite implementation of `Snapshot` (sql/sqlite/driver.go) concrete: the cleanliness test and the
restore function that empties `sqlite_master`.
-/
namespace Atlas.Dev

inductive Kind | table | view | index | trigger
deriving DecidableEq, Repr, Inhabited

/-- dev database content: the objects of `sqlite_master` (rows live and die with their table). -/
abbrev DevDb := List Kind

/-- the cleanliness test of `Snapshot`. `fixed = false`: the pinned tree looks at inspected tables
only (`len(Tables) == 0`); `fixed = true`: any object in `sqlite_master` makes the database unclean. -/
def clean (fixed : Bool) (db : DevDb) : Bool :=
  if fixed then db.isEmpty else !db.contains .table

/-- the restore function: `DELETE FROM sqlite_master WHERE type IN ('table','view','index','trigger')`. -/
def restore (_ : DevDb) : DevDb := []

/-- executing source statements: each creates one object; `none` marks a failing statement. -/
def execStmts (db : DevDb) : List (Option Kind) → DevDb × Bool
  | [] => (db, true)
  | some k :: rest => execStmts (db ++ [k]) rest
  | none :: _ => (db, false)

structure Outcome where
  refused : Bool
  ok : Bool
  db : DevDb
deriving Repr, DecidableEq

/-- one use of the dev database by a command. -/
def run (fixed : Bool) (db : DevDb) (stmts : List (Option Kind)) : Outcome :=
  if clean fixed db then
    let (db', ok) := execStmts db stmts
    { refused := false, ok := ok, db := restore db' }
  else { refused := true, ok := false, db := db }

/-- a command uses the dev database several times in a row (replay, then normalisation, ...); it
stops at the first refusal or failure. -/
def runs (fixed : Bool) : DevDb → List (List (Option Kind)) → Outcome
  | db, [] => { refused := false, ok := true, db := db }
  | db, s :: rest =>
    let o := run fixed db s
    if o.refused || !o.ok then o else runs fixed o.db rest

end Atlas.Dev
