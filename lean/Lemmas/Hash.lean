/-
Lemmas about the directory-integrity model (`Atlas.Hash`).
-/
import Atlas.Hash

namespace Atlas.Hash
open Atlas

/-- two distinct byte strings with the same hash. -/
def Collision (H : Bytes → Bytes) : Prop := ∃ x y : Bytes, x ≠ y ∧ H x = H y

/-- no file of the list carries the `atlas:sum ignore` directive. -/
def NoIgnore (fs : List DFile) : Prop := ∀ f ∈ fs, sumIgnore f.content = false

theorem newHashFileFrom_noIgnore_cons (H : Bytes → Bytes) (acc : Bytes) (f : DFile) (fs : List DFile)
    (h : sumIgnore f.content = false) :
    newHashFileFrom H acc (f :: fs) =
      (f.name, H (acc ++ f.name ++ f.content)) :: newHashFileFrom H (acc ++ f.name ++ f.content) fs := by
  simp [newHashFileFrom, h]

/-- **entries determine the files**: two listings without ignore-files that produce the same sum
entries (from the same running prefix) are equal, or a hash collision is exhibited. -/
theorem entries_injective (H : Bytes → Bytes) :
    ∀ (fs fs' : List DFile) (acc : Bytes), NoIgnore fs → NoIgnore fs' →
      newHashFileFrom H acc fs = newHashFileFrom H acc fs' → fs = fs' ∨ Collision H := by
  intro fs
  induction fs with
  | nil =>
    intro fs' acc _ h' heq
    cases fs' with
    | nil => left; rfl
    | cons g gs =>
      rw [newHashFileFrom_noIgnore_cons H acc g gs (h' g (List.mem_cons_self ..))] at heq
      simp [newHashFileFrom] at heq
  | cons f fs ih =>
    intro fs' acc h h' heq
    have hf := h f (List.mem_cons_self ..)
    cases fs' with
    | nil =>
      rw [newHashFileFrom_noIgnore_cons H acc f fs hf] at heq
      simp [newHashFileFrom] at heq
    | cons g gs =>
      have hg := h' g (List.mem_cons_self ..)
      rw [newHashFileFrom_noIgnore_cons H acc f fs hf, newHashFileFrom_noIgnore_cons H acc g gs hg] at heq
      simp only [List.cons.injEq, Prod.mk.injEq] at heq
      obtain ⟨⟨hn, hh⟩, hrest⟩ := heq
      by_cases hb : acc ++ f.name ++ f.content = acc ++ g.name ++ g.content
      · have hc : f.content = g.content := by
          rw [hn] at hb
          exact List.append_cancel_left hb
        have hfg : f = g := by
          cases f; cases g; simp at hn hc; simp [hn, hc]
        rw [hb] at hrest
        rcases ih gs _ (fun x hx => h x (List.mem_cons_of_mem _ hx))
          (fun x hx => h' x (List.mem_cons_of_mem _ hx)) hrest with h1 | h1
        · left; rw [hfg, h1]
        · right; exact h1
      · right; exact ⟨_, _, hb, hh⟩

/-! ### the header sum -/

theorem sum_eq_cases (H : Bytes → Bytes) (es es' : List Entry) (h : sumOf H es = sumOf H es') :
    concatEntries es = concatEntries es' ∨ Collision H := by
  by_cases hc : concatEntries es = concatEntries es'
  · left; exact hc
  · right; exact ⟨_, _, hc, h⟩

theorem concatEntries_cons (e : Entry) (es : List Entry) :
    concatEntries (e :: es) = e.1 ++ e.2 ++ concatEntries es := by
  simp [concatEntries]

/-- with hashes of one fixed length, entry lists with the same names and the same concatenation are
equal (the concatenation is parsed in lockstep). -/
theorem concat_same_names (L : Nat) :
    ∀ (es es' : List Entry), es.map (·.1) = es'.map (·.1) →
      (∀ e ∈ es, e.2.length = L) → (∀ e ∈ es', e.2.length = L) →
      concatEntries es = concatEntries es' → es = es' := by
  intro es
  induction es with
  | nil => intro es' hn _ _ _; cases es' with
    | nil => rfl
    | cons _ _ => simp at hn
  | cons e es ih =>
    intro es' hn hl hl' hc
    cases es' with
    | nil => simp at hn
    | cons e' es' =>
      simp only [List.map_cons, List.cons.injEq] at hn
      rw [concatEntries_cons, concatEntries_cons, hn.1, List.append_assoc, List.append_assoc] at hc
      have hc2 := List.append_cancel_left hc
      have hlen : e.2.length = e'.2.length := by
        rw [hl e (List.mem_cons_self ..), hl' e' (List.mem_cons_self ..)]
      have h2 : e.2 = e'.2 ∧ concatEntries es = concatEntries es' := by
        have := List.append_inj hc2 hlen
        exact this
      have hee : e = e' := Prod.ext hn.1 h2.1
      rw [hee, ih es' hn.2 (fun x hx => hl x (List.mem_cons_of_mem _ hx))
        (fun x hx => hl' x (List.mem_cons_of_mem _ hx)) h2.2]

theorem concatEntries_length (es : List Entry) :
    (concatEntries es).length = (es.map (fun e => e.1.length + e.2.length)).sum := by
  induction es with
  | nil => rfl
  | cons e es ih => rw [concatEntries_cons]; simp [ih]; omega

/-! ### Validate -/

theorem classify_ne_ok (ac ex : List Entry) : ∀ (rest : List Entry) (i pos : Nat),
    classify ac ex i pos rest ≠ .ok := by
  intro rest
  induction rest with
  | nil => intro i pos; unfold classify; split <;> simp
  | cons h rest ih =>
    intro i pos
    unfold classify
    split
    · exact ih _ _
    · split
      · simp
      · split
        · simp
        · split <;> simp

/-- **validate_ok_iff**: with a readable sum file, `Validate` succeeds exactly when the header sum of
the stored entries equals the header sum of the entries computed from the directory. -/
theorem validate_ok_iff (H : Bytes → Bytes) (dir : List DFile) (b : Bytes) (ac : List Entry)
    (hu : unmarshal H b = .ok ac) :
    validate H dir (some b) = .ok ↔ sumOf H ac = sumOf H (newHashFile H (files dir)) := by
  unfold validate
  simp only [hu]
  constructor
  · intro h
    by_cases hs : sumOf H ac = sumOf H (newHashFile H (files dir))
    · exact hs
    · simp only [bne_iff_ne, ne_eq, hs, not_false_eq_true, if_true] at h
      exact absurd h (classify_ne_ok _ _ _ _ _)
  · intro h
    simp [h]

/-- an unreadable sum file is never accepted. -/
theorem validate_unreadable (H : Bytes → Bytes) (dir : List DFile) (b : Bytes) (e : Err)
    (hu : unmarshal H b = .error e) : validate H dir (some b) = .err e := by
  unfold validate; simp [hu]

end Atlas.Hash
