/-
Soundness of the cycle detection of `sortMap` (sql/internal/sqlx/plan.go): when the depth-first
visit completes without reporting a cycle, every table got an index larger than the indexes of all
tables it depends on. (If the fuel of the model ran out the visit reports a cycle, which only sends the
planner down the `detachReferences` path; soundness needs no fuel argument.)
-/
import Atlas.Sort

namespace Atlas.Sort

/-- index = position, and every dependency of an entry occurs before it. -/
structure SInv (deps : Deps) (sorted : List (String × Nat)) : Prop where
  pos : ∀ as a bs, sorted = as ++ a :: bs → a.2 = as.length
  closed : ∀ as a bs, sorted = as ++ a :: bs → ∀ v ∈ deps.get a.1, v ∈ as.map (·.1)

theorem SInv.nil (deps : Deps) : SInv deps [] :=
  ⟨by intro as a bs h; cases as <;> simp at h, by intro as a bs h; cases as <;> simp at h⟩

theorem SInv.snoc {deps : Deps} {sorted : List (String × Nat)} {name : String} (h : SInv deps sorted)
    (hd : ∀ v ∈ deps.get name, v ∈ sorted.map (·.1)) : SInv deps (sorted ++ [(name, sorted.length)]) := by
  constructor
  · intro as a bs heq
    rcases List.eq_nil_or_concat bs with rfl | ⟨bs', z, rfl⟩
    · have := List.append_inj' heq.symm rfl
      have h1 : as = sorted := this.1
      have h2 : a = (name, sorted.length) := by simpa using this.2
      rw [h2, h1]
    · have heq' : sorted ++ [(name, sorted.length)] = (as ++ a :: bs') ++ [z] := by rw [heq]; simp
      exact h.pos as a bs' (List.append_inj' heq' rfl).1
  · intro as a bs heq v hv
    rcases List.eq_nil_or_concat bs with rfl | ⟨bs', z, rfl⟩
    · have := List.append_inj' heq.symm rfl
      have h1 : as = sorted := this.1
      have h2 : a = (name, sorted.length) := by simpa using this.2
      rw [h2] at hv
      rw [h1]; exact hd v hv
    · have heq' : sorted ++ [(name, sorted.length)] = (as ++ a :: bs') ++ [z] := by rw [heq]; simp
      exact h.closed as a bs' (List.append_inj' heq' rfl).1 v hv

/-- what a successful visit leaves behind. -/
structure VPost (deps : Deps) (st st' : DfsSt) : Prop where
  ext : ∃ new, st'.sorted = st.sorted ++ new
  inv : SInv deps st'.sorted

theorem VPost.trans {deps : Deps} {a b c : DfsSt} (h1 : VPost deps a b) (h2 : VPost deps b c) : VPost deps a c := by
  obtain ⟨n1, e1⟩ := h1.ext
  obtain ⟨n2, e2⟩ := h2.ext
  exact ⟨⟨n1 ++ n2, by rw [e2, e1, List.append_assoc]⟩, h2.inv⟩

theorem VPost.mem {deps : Deps} {a b : DfsSt} (h : VPost deps a b) {x : String}
    (hx : x ∈ a.sorted.map (·.1)) : x ∈ b.sorted.map (·.1) := by
  obtain ⟨n, e⟩ := h.ext
  rw [e, List.map_append]; exact List.mem_append_left _ hx

theorem lookup_isSome_mem {m : List (String × Nat)} {k : String} (h : (lookup m k).isSome = true) :
    k ∈ m.map (·.1) := by
  unfold lookup at h
  rw [Option.isSome_map, List.find?_isSome] at h
  obtain ⟨x, hx, hk⟩ := h
  exact List.mem_map.mpr ⟨x, hx, by simpa using hk⟩

theorem visit_sound (deps : Deps) : ∀ fuel,
    (∀ name st st', SInv deps st.sorted → visit deps fuel name st = (st', false) →
        VPost deps st st' ∧ name ∈ st'.sorted.map (·.1)) ∧
    (∀ rs st st', SInv deps st.sorted → visitAll deps fuel rs st = (st', false) →
        VPost deps st st' ∧ ∀ r ∈ rs, r ∈ st'.sorted.map (·.1)) := by
  intro fuel
  induction fuel with
  | zero =>
    refine ⟨?_, ?_⟩
    · intro name st st' _ h; simp [visit] at h
    · intro rs st st' _ h; simp [visitAll] at h
  | succ fuel ih =>
    obtain ⟨ihV, ihA⟩ := ih
    refine ⟨?_, ?_⟩
    · intro name st st' hinv h
      rw [visit] at h
      split at h
      · rename_i hs
        simp only [Prod.mk.injEq] at h
        obtain ⟨rfl, _⟩ := h
        exact ⟨⟨⟨[], by simp⟩, hinv⟩, lookup_isSome_mem hs⟩
      · split at h
        · simp at h
        · rcases hva : visitAll deps fuel (deps.get name) { st with progress := name :: st.progress } with ⟨st1, b⟩
          rw [hva] at h
          cases b with
          | true => simp at h
          | false =>
            simp only [Prod.mk.injEq, and_true] at h
            obtain ⟨hp, hall⟩ := ihA (deps.get name) { st with progress := name :: st.progress } st1 hinv hva
            subst h
            refine ⟨⟨?_, ?_⟩, ?_⟩
            · obtain ⟨n, e⟩ := hp.ext
              exact ⟨n ++ [(name, st1.sorted.length)], by simp only; rw [e]; simp⟩
            · exact hp.inv.snoc hall
            · simp
    · intro rs st st' hinv h
      cases rs with
      | nil =>
        simp [visitAll] at h
        subst h
        exact ⟨⟨⟨[], by simp⟩, hinv⟩, by simp⟩
      | cons r t =>
        rw [visitAll] at h
        rcases hv : visit deps fuel r st with ⟨st1, b⟩
        rw [hv] at h
        cases b with
        | true => simp at h
        | false =>
          simp only at h
          obtain ⟨hp1, hr⟩ := ihV r st st1 hinv hv
          obtain ⟨hp2, hall⟩ := ihA t st1 st' hp1.inv h
          refine ⟨hp1.trans hp2, ?_⟩
          intro x hx
          rcases List.mem_cons.mp hx with rfl | hx
          · exact hp2.mem hr
          · exact hall x hx


theorem sortMapGo_sound (deps : Deps) (fuel : Nat) : ∀ (keys : List String) (st : DfsSt) (m : List (String × Nat)),
    SInv deps st.sorted → sortMapGo deps fuel keys st = some m →
    SInv deps m ∧ (∃ new, m = st.sorted ++ new) ∧ ∀ k ∈ keys, k ∈ m.map (·.1) := by
  intro keys
  induction keys with
  | nil =>
    intro st m hinv h
    simp only [sortMapGo, Option.some.injEq] at h
    subst h
    exact ⟨hinv, ⟨[], by simp⟩, by simp⟩
  | cons k t ih =>
    intro st m hinv h
    rw [sortMapGo] at h
    rcases hv : visit deps fuel k st with ⟨st1, b⟩
    rw [hv] at h
    cases b with
    | true => simp at h
    | false =>
      simp only at h
      obtain ⟨hp, hk⟩ := (visit_sound deps fuel).1 k st st1 hinv hv
      obtain ⟨h1, ⟨n2, e2⟩, h3⟩ := ih st1 m hp.inv h
      obtain ⟨n1, e1⟩ := hp.ext
      refine ⟨h1, ⟨n1 ++ n2, by rw [e2, e1, List.append_assoc]⟩, ?_⟩
      intro x hx
      rcases List.mem_cons.mp hx with rfl | hx
      · rw [e2, List.map_append]; exact List.mem_append_left _ hk
      · exact h3 x hx

theorem mem_insertBy {α : Type} (lt : α → α → Bool) (x y : α) : ∀ l : List α, y ∈ insertBy lt x l ↔ y = x ∨ y ∈ l := by
  intro l
  induction l with
  | nil => simp [insertBy]
  | cons a t ih =>
    unfold insertBy
    split
    · simp
    · simp only [List.mem_cons, ih]
      constructor
      · rintro (h | h | h)
        · exact Or.inr (Or.inl h)
        · exact Or.inl h
        · exact Or.inr (Or.inr h)
      · rintro (h | h | h)
        · exact Or.inr (Or.inl h)
        · exact Or.inl h
        · exact Or.inr (Or.inr h)

theorem mem_sortBy {α : Type} (lt : α → α → Bool) (y : α) : ∀ l : List α, y ∈ sortBy lt l ↔ y ∈ l := by
  intro l
  induction l with
  | nil => simp [sortBy]
  | cons a t ih =>
    unfold sortBy at ih ⊢
    rw [List.foldr_cons, mem_insertBy, ih]
    simp

/-- **sortMap_inv**: a successful `sortMap` returns a table → index map that satisfies `SInv` and
covers every table that has dependencies. -/
theorem sortMap_inv (cs : List Ch) (m : List (String × Nat)) (h : sortMap cs = some m) :
    SInv (dependencies cs) m ∧ ∀ k ∈ (dependencies cs).map (·.1), k ∈ m.map (·.1) := by
  unfold sortMap at h
  simp only at h
  obtain ⟨h1, _, h3⟩ := sortMapGo_sound _ _ _ {} m (SInv.nil _) h
  exact ⟨h1, fun k hk => h3 k ((mem_sortBy _ k _).mpr hk)⟩

/-- in a map satisfying `SInv`, every dependency of a listed table has a strictly smaller index. -/
theorem lookup_lt {deps : Deps} {m : List (String × Nat)} (hinv : SInv deps m) {k v : String}
    (hk : k ∈ m.map (·.1)) (hv : v ∈ deps.get k) :
    ∃ i j, lookup m v = some i ∧ lookup m k = some j ∧ i < j := by
  have hsome : (m.find? (fun x => x.1 == k)).isSome = true := by
    rw [List.find?_isSome]
    obtain ⟨x, hx, hxk⟩ := List.mem_map.mp hk
    exact ⟨x, hx, by simp [hxk]⟩
  obtain ⟨a, ha⟩ := Option.isSome_iff_exists.mp hsome
  obtain ⟨hak, as, bs, hm, hfirst⟩ := List.find?_eq_some_iff_append.mp ha
  have hak' : a.1 = k := by simpa using hak
  have hpos := hinv.pos as a bs hm
  have hcl := hinv.closed as a bs hm v (by rw [hak']; exact hv)
  obtain ⟨x, hx, hxv⟩ := List.mem_map.mp hcl
  have hsome2 : (as.find? (fun y => y.1 == v)).isSome = true := by
    rw [List.find?_isSome]; exact ⟨x, hx, by simp [hxv]⟩
  obtain ⟨y, hy⟩ := Option.isSome_iff_exists.mp hsome2
  obtain ⟨_, as1, as2, has, _⟩ := List.find?_eq_some_iff_append.mp hy
  have hfind : m.find? (fun y => y.1 == v) = some y := by
    rw [hm, List.find?_append, hy]; rfl
  have hypos := hinv.pos as1 y (as2 ++ a :: bs) (by rw [hm, has]; simp)
  refine ⟨y.2, a.2, ?_, ?_, ?_⟩
  · unfold lookup; rw [hfind]; rfl
  · unfold lookup; rw [ha]; rfl
  · rw [hypos, hpos, has]; simp


/-! ### what `dependencies` records -/

def Has (d : Deps) (k v : String) : Prop := v ∈ d.get k

theorem has_add_self (k v : String) : ∀ d : Deps, Has (d.add k v) k v := by
  intro d
  induction d with
  | nil => simp [Has, Deps.add, Deps.get]
  | cons e t ih =>
    obtain ⟨k', vs⟩ := e
    unfold Deps.add
    by_cases hk : (k' == k) = true
    · simp only [hk, if_true]
      unfold Has Deps.get
      simp [hk]
    · have hk' : (k' == k) = false := by simpa using hk
      simp only [hk', Bool.false_eq_true, if_false]
      unfold Has Deps.get at ih ⊢
      simp only [List.find?_cons, hk']
      exact ih

theorem has_add_mono (k v k0 v0 : String) : ∀ d : Deps, Has d k0 v0 → Has (d.add k v) k0 v0 := by
  intro d
  induction d with
  | nil => intro h; simp [Has, Deps.get] at h
  | cons e t ih =>
    obtain ⟨k', vs⟩ := e
    intro h
    unfold Deps.add
    by_cases hk : (k' == k) = true
    · simp only [hk, if_true]
      unfold Has Deps.get at h ⊢
      by_cases hk0 : (k' == k0) = true
      · simp only [List.find?_cons, hk0] at h ⊢
        exact List.mem_append_left _ h
      · have hk0' : (k' == k0) = false := by simpa using hk0
        simp only [List.find?_cons, hk0'] at h ⊢
        exact h
    · have hk' : (k' == k) = false := by simpa using hk
      simp only [hk', Bool.false_eq_true, if_false]
      unfold Has Deps.get at h ih ⊢
      by_cases hk0 : (k' == k0) = true
      · simp only [List.find?_cons, hk0] at h ⊢
        exact h
      · have hk0' : (k' == k0) = false := by simpa using hk0
        simp only [List.find?_cons, hk0'] at h ⊢
        exact ih h

theorem has_key {d : Deps} {k v : String} (h : Has d k v) : k ∈ d.map (·.1) := by
  unfold Has Deps.get at h
  cases hf : d.find? (fun x => x.1 == k) with
  | none => rw [hf] at h; cases h
  | some e =>
    have h1 := List.mem_of_find?_eq_some hf
    have h2 := List.find?_some hf
    exact List.mem_map.mpr ⟨e, h1, by simpa using h2⟩

theorem foldl_mono {β : Type} (g : Deps → β → Deps) (k v : String)
    (hg : ∀ d b, Has d k v → Has (g d b) k v) : ∀ (l : List β) (d : Deps), Has d k v → Has (l.foldl g d) k v := by
  intro l
  induction l with
  | nil => intro d h; exact h
  | cons b t ih => intro d h; exact ih _ (hg d b h)

/-- one step of `dependencies`. -/
def depStep (cs : List Ch) (d : Deps) (c : Ch) : Deps :=
  match c.kind with
  | .add => c.fks.foldl (fun d fk => if fk.ref != c.table then d.add c.table fk.ref else d) d
  | .drop => c.fks.foldl (fun d fk => if isDropped cs fk.ref then d.add fk.ref c.table else d) d
  | .modify => c.subs.foldl (fun d s =>
      match s with
      | .addFK fk => if fk.ref != c.table then d.add c.table fk.ref else d
      | .dropFK fk => if isDropped cs fk.ref then d.add fk.ref c.table else d
      | .other _ => d) d

theorem dependencies_eq (cs : List Ch) : dependencies cs = cs.foldl (depStep cs) [] := rfl

theorem depStep_mono (cs : List Ch) (k v : String) (d : Deps) (c : Ch) (h : Has d k v) :
    Has (depStep cs d c) k v := by
  unfold depStep
  cases c.kind with
  | add =>
    simp only
    apply foldl_mono _ k v _ _ _ h
    intro d fk hd; split
    · exact has_add_mono _ _ _ _ _ hd
    · exact hd
  | drop =>
    simp only
    apply foldl_mono _ k v _ _ _ h
    intro d fk hd; split
    · exact has_add_mono _ _ _ _ _ hd
    · exact hd
  | modify =>
    simp only
    apply foldl_mono _ k v _ _ _ h
    intro d s hd
    cases s with
    | addFK fk => simp only; split
                  · exact has_add_mono _ _ _ _ _ hd
                  · exact hd
    | dropFK fk => simp only; split
                   · exact has_add_mono _ _ _ _ _ hd
                   · exact hd
    | other _ => exact hd

/-- **dependencies_add**: a created table depends on every other table its foreign keys reference. -/
theorem dependencies_add (cs : List Ch) (c : Ch) (hc : c ∈ cs) (hk : c.kind = .add) (fk : FK)
    (hfk : fk ∈ c.fks) (hne : fk.ref ≠ c.table) : Has (dependencies cs) c.table fk.ref := by
  obtain ⟨pre, post, hsplit⟩ := List.append_of_mem hc
  subst hsplit
  rw [dependencies_eq]
  rw [List.foldl_append, List.foldl_cons]
  apply foldl_mono _ _ _ (fun d b h => depStep_mono _ _ _ d b h)
  -- the step of c itself
  unfold depStep
  rw [hk]
  simp only
  obtain ⟨f1, f2, hf⟩ := List.append_of_mem hfk
  rw [hf, List.foldl_append, List.foldl_cons]
  apply foldl_mono
  · intro d b h; split
    · exact has_add_mono _ _ _ _ _ h
    · exact h
  · have : (fk.ref != c.table) = true := by simpa using hne
    simp only [this, if_true]
    exact has_add_self _ _ _

/-- **dependencies_drop**: a dropped table that is referenced by a foreign key of another dropped table
depends on (is dropped after) the table holding the key. -/
theorem dependencies_drop (cs : List Ch) (c : Ch) (hc : c ∈ cs) (hk : c.kind = .drop) (fk : FK)
    (hfk : fk ∈ c.fks) (hdr : isDropped cs fk.ref = true) : Has (dependencies cs) fk.ref c.table := by
  obtain ⟨pre, post, hsplit⟩ := List.append_of_mem hc
  rw [dependencies_eq]
  conv => arg 1; arg 3; rw [hsplit]
  rw [List.foldl_append, List.foldl_cons]
  apply foldl_mono _ _ _ (fun d b h => depStep_mono _ _ _ d b h)
  unfold depStep
  rw [hk]
  simp only
  obtain ⟨f1, f2, hf⟩ := List.append_of_mem hfk
  rw [hf, List.foldl_append, List.foldl_cons]
  apply foldl_mono
  · intro d b h; split
    · exact has_add_mono _ _ _ _ _ h
    · exact h
  · simp only [hdr, if_true]
    exact has_add_self _ _ _

end Atlas.Sort
